(* M1 / C03 — a send moves exactly what it says: proofs about the source semantics [Sem].
   All statements are for every source / destination tree, every amount in Z, every balance table and every
   variable environment. The funding algebra comes from FundingProofs.v. *)
From Coq Require Import Lia ZArith List Bool.
From FL Require Import Numscript.Sem Numscript.FundingProofs Numscript.Spec.
Import ListNotations.
Open Scope Z_scope.

(* ------------------------------------------------------------------------------------------------ *)
(** * Induction principles for the nested syntax *)

Fixpoint source_ind2 (P : source -> Prop)
  (HA : forall acc ov, P (SAccount acc ov))
  (HM : forall m s, P s -> P (SMaxed m s))
  (HO : forall l, Forall P l -> P (SInOrder l))
  (s : source) {struct s} : P s :=
  match s with
  | SAccount acc ov => HA acc ov
  | SMaxed m s' => HM m s' (source_ind2 P HA HM HO s')
  | SInOrder l =>
      HO l ((fix go (l : list source) : Forall P l :=
               match l with
               | [] => Forall_nil P
               | x :: r => Forall_cons x (source_ind2 P HA HM HO x) (go r)
               end) l)
  end.

Fixpoint dest_ind2 (P : dest -> Prop) (Q : kod -> Prop)
  (HAcc : forall e, P (DAccount e))
  (HIn : forall l k, Forall (fun ek => Q (snd ek)) l -> Q k -> P (DInOrder l k))
  (HAl : forall l, Forall (fun pk => Q (snd pk)) l -> P (DAllot l))
  (HK : Q Kept) (HT : forall d, P d -> Q (KTo d))
  (d : dest) {struct d} : P d :=
  match d with
  | DAccount e => HAcc e
  | DInOrder l k =>
      HIn l k
        ((fix go (l : list (expr * kod)) : Forall (fun ek => Q (snd ek)) l :=
            match l with
            | [] => Forall_nil _
            | (e, k') :: r =>
                Forall_cons (e, k')
                  (match k' return Q k' with
                   | Kept => HK
                   | KTo d' => HT d' (dest_ind2 P Q HAcc HIn HAl HK HT d')
                   end) (go r)
            end) l)
        (match k return Q k with
         | Kept => HK
         | KTo d' => HT d' (dest_ind2 P Q HAcc HIn HAl HK HT d')
         end)
  | DAllot l =>
      HAl l
        ((fix go (l : list (aportion * kod)) : Forall (fun pk => Q (snd pk)) l :=
            match l with
            | [] => Forall_nil _
            | (p, k') :: r =>
                Forall_cons (p, k')
                  (match k' return Q k' with
                   | Kept => HK
                   | KTo d' => HT d' (dest_ind2 P Q HAcc HIn HAl HK HT d')
                   end) (go r)
            end) l)
  end.

Definition kod_ind2 (P : dest -> Prop) (Q : kod -> Prop)
  (HAcc : forall e, P (DAccount e))
  (HIn : forall l k, Forall (fun ek => Q (snd ek)) l -> Q k -> P (DInOrder l k))
  (HAl : forall l, Forall (fun pk => Q (snd pk)) l -> P (DAllot l))
  (HK : Q Kept) (HT : forall d, P d -> Q (KTo d)) (k : kod) : Q k :=
  match k return Q k with
  | Kept => HK
  | KTo d => HT d (dest_ind2 P Q HAcc HIn HAl HK HT d)
  end.

(* ------------------------------------------------------------------------------------------------ *)
(** * The local loops of Sem.v under names (behaviour-preserving: the equations hold by computation) *)

Definition src_go (ve : venv) (za : asset) :=
  fix go (l : list source) (st : sstate) : sres (list funding * sstate) :=
    match l with
    | [] => SOk ([], st)
    | s1 :: rest =>
        sdo '(f, st1) <- sem_source ve za s1 st;
        sdo '(fs, st2) <- go rest st1;
        SOk (f :: fs, st2)
    end.

Lemma sem_source_SInOrder : forall ve za srcs st,
  sem_source ve za (SInOrder srcs) st =
  (sdo '(fs, st1) <- src_go ve za srcs st; sdo r <- assemble fs; SOk (r, st1)).
Proof. reflexivity. Qed.

Definition inorder_go (ve : venv) :=
  fix go (l : list (expr * kod)) (f : funding) (acc : Z) (st : sstate) : sres (funding * Z * sstate) :=
    match l with
    | [] => SOk (f, acc, st)
    | (amt_e, k) :: rest =>
        sdo '(ms, mamt) <- eval_monetary ve amt_e;
        if mamt <? 0 then SErr EOtherRun
        else if negb (N.eqb (f_asset f) ms) then SErr EInvalidScript
        else
          let '(res, rem) := take_max f mamt in
          sdo '(x, st1) <- sem_kod ve k res st;
          sdo f' <- assemble [x; rem];
          go rest f' (acc + total x) st1
    end.

Lemma sem_dest_DInOrder : forall ve l rem_k f st,
  sem_dest ve (DInOrder l rem_k) f st =
  (sdo '(f1, kept_total, st1) <- inorder_go ve l f 0 st;
   match take (freverse f1) kept_total with
   | None => SErr EInsufficient
   | Some (res, rem) =>
       sdo '(x, st2) <- sem_kod ve rem_k (freverse rem) st1;
       sdo r <- assemble [x; freverse res];
       SOk (r, st2)
   end).
Proof. reflexivity. Qed.

Definition allot_go (ve : venv) :=
  fix go (l : list (aportion * kod)) (parts : list Z) (f : funding) (st : sstate) : sres (funding * sstate) :=
    match l, parts with
    | [], _ => SOk (f, st)
    | (_, k) :: rest, p :: ps =>
        match take f p with
        | None => SErr EInsufficient
        | Some (res, rem) =>
            sdo '(x, st1) <- sem_kod ve k res st;
            sdo f' <- assemble [x; rem];
            go rest ps f' st1
        end
    | _ :: _, [] => SErr EInvalidScript
    end.

Lemma sem_dest_DAllot : forall ve l f st,
  sem_dest ve (DAllot l) f st =
  (sdo a <- make_allotment ve (map fst l); allot_go ve l (allocate a (total f)) f st).
Proof. reflexivity. Qed.

Definition srcallot_go (ve : venv) (za ms : asset) :=
  fix go (l : list (aportion * source)) (parts : list Z) (st : sstate) : sres (list funding * sstate) :=
    match l, parts with
    | [], _ => SOk ([], st)
    | (_, s) :: rest, p :: ps =>
        sdo '(f, st1) <- sem_source ve za s st;
        sdo '(r, st2) <- take_from ve (fallback_of s) st1 f ms p;
        sdo '(rs, st3) <- go rest ps st2;
        SOk (r :: rs, st3)
    | _ :: _, [] => SErr EInvalidScript
    end.

(* the first phase of a send: what the sources hand to the destination *)
Definition send_funding (ve : venv) (m : send_amount) (src : vasource) (st : sstate) : sres (funding * sstate) :=
  match m, src with
  | SendAll ae, VSrc s => sdo a <- eval_asset ve ae; sem_source ve a s st
  | SendAll _, VSrcAllot _ => SErr ECompile
  | SendMon e, VSrc s =>
      sdo za <- lead_asset ve e;
      sdo '(f, st1) <- sem_source ve za s st;
      sdo '(ms, mamt) <- eval_monetary ve e;
      take_from ve (fallback_of s) st1 f ms mamt
  | SendMon e, VSrcAllot l =>
      sdo za <- lead_asset ve e;
      sdo '(ms, mamt) <- eval_monetary ve e;
      sdo a <- make_allotment ve (map fst l);
      sdo '(fs, st1) <- srcallot_go ve za ms l (allocate a mamt) st;
      sdo r <- assemble fs;
      SOk (r, st1)
  end.

Lemma sem_send_eq : forall ve m src d st,
  sem_send ve m src d st =
  (sdo '(f, st1) <- send_funding ve m src st; sdo '(lo, st2) <- sem_dest ve d f st1; do_repay st2 lo).
Proof. reflexivity. Qed.

(* ------------------------------------------------------------------------------------------------ *)
(** * Inversion helpers *)

Lemma sbind_ok : forall A B (o : sres A) (f : A -> sres B) b,
  sbind o f = SOk b -> exists a, o = SOk a /\ f a = SOk b.
Proof. intros A B [a|e] f b H; [eauto | discriminate]. Qed.

(* one bind *)
Ltac sb H x E :=
  match type of H with
  | sbind ?o _ = SOk _ => destruct o as [x|] eqn:E; [cbn [sbind] in H | discriminate H]
  end.

(* ------------------------------------------------------------------------------------------------ *)
(** * Postings *)

Definition posts_total (l : list posting) : Z := sumZ (map p_amount l).
Definition posts_nonneg (l : list posting) : Prop := Forall (fun p => 0 <= p_amount p) l.
(* the postings as a sequence of unit coins: the source / destination / both of every coin moved, in order *)
Definition post_units (l : list posting) : list account :=
  flat_map (fun p => repeat (p_src p) (Z.to_nat (p_amount p))) l.
Definition post_dunits (l : list posting) : list account :=
  flat_map (fun p => repeat (p_dst p) (Z.to_nat (p_amount p))) l.
Definition post_pairs (l : list posting) : list (account * account) :=
  flat_map (fun p => repeat (p_src p, p_dst p) (Z.to_nat (p_amount p))) l.

(* the postings OP_SEND appends *)
Definition mk_posts (dst : account) (f : funding) : list posting :=
  map (fun p => {| p_src := fst p; p_dst := dst; p_asset := f_asset f; p_amount := snd p |}) (f_parts f).

Lemma do_send_posts : forall st a f, s_posts (do_send st a f) = s_posts st ++ mk_posts a f.
Proof. reflexivity. Qed.

Lemma posts_total_app : forall l1 l2, posts_total (l1 ++ l2) = posts_total l1 + posts_total l2.
Proof. intros. unfold posts_total. rewrite map_app, sumZ_app. reflexivity. Qed.
Lemma posts_total_nil : posts_total [] = 0.
Proof. reflexivity. Qed.
Lemma posts_nonneg_app : forall l1 l2, posts_nonneg (l1 ++ l2) <-> posts_nonneg l1 /\ posts_nonneg l2.
Proof. intros; apply Forall_app. Qed.
Lemma post_units_app : forall l1 l2, post_units (l1 ++ l2) = post_units l1 ++ post_units l2.
Proof. intros; unfold post_units. apply flat_map_app. Qed.
Lemma post_dunits_app : forall l1 l2, post_dunits (l1 ++ l2) = post_dunits l1 ++ post_dunits l2.
Proof. intros; unfold post_dunits. apply flat_map_app. Qed.
Lemma post_pairs_app : forall l1 l2, post_pairs (l1 ++ l2) = post_pairs l1 ++ post_pairs l2.
Proof. intros; unfold post_pairs. apply flat_map_app. Qed.

Lemma post_units_length : forall l, posts_nonneg l -> Z.of_nat (length (post_units l)) = posts_total l.
Proof.
  induction l as [|p l IH]; intro H; [reflexivity|]. inversion H; subst.
  unfold post_units, posts_total in *. cbn [flat_map map]. rewrite sumZ_cons, app_length, repeat_length, Nat2Z.inj_add, IH by assumption.
  lia.
Qed.
Lemma post_dunits_length : forall l, length (post_dunits l) = length (post_units l).
Proof.
  induction l as [|p l IH]; [reflexivity|]. unfold post_units, post_dunits in *. cbn [flat_map].
  rewrite !app_length, !repeat_length, IH. reflexivity.
Qed.

Lemma combine_app_same : forall (A B : Type) (a1 a2 : list A) (b1 b2 : list B), length a1 = length b1 ->
  combine (a1 ++ a2) (b1 ++ b2) = combine a1 b1 ++ combine a2 b2.
Proof.
  induction a1 as [|x a1 IH]; intros a2 b1 b2 H; destruct b1 as [|y b1]; cbn [length] in H; try discriminate; [reflexivity|].
  cbn [app combine]. rewrite IH by lia. reflexivity.
Qed.
Lemma combine_repeat : forall (A B : Type) (a : A) (b : B) n, combine (repeat a n) (repeat b n) = repeat (a, b) n.
Proof. induction n; [reflexivity|]. cbn [repeat combine]. rewrite IHn. reflexivity. Qed.

(* each coin's (source, destination) is the pairing of the two unit sequences *)
Lemma post_pairs_combine : forall l, post_pairs l = combine (post_units l) (post_dunits l).
Proof.
  induction l as [|p l IH]; [reflexivity|]. unfold post_pairs, post_units, post_dunits in *. cbn [flat_map].
  rewrite combine_app_same by (rewrite !repeat_length; reflexivity). rewrite combine_repeat, IH. reflexivity.
Qed.

Lemma mk_posts_units : forall a f, post_units (mk_posts a f) = funits f.
Proof.
  intros a [s ps]. unfold mk_posts, funits, post_units, units. cbn [f_parts f_asset].
  induction ps as [|p ps IH]; [reflexivity|]. cbn [map flat_map p_src p_amount]. rewrite IH. reflexivity.
Qed.
Lemma mk_posts_total : forall a f, posts_total (mk_posts a f) = total f.
Proof.
  intros a [s ps]. unfold mk_posts, posts_total, total. cbn [f_parts f_asset].
  induction ps as [|p ps IH]; [reflexivity|]. cbn [map p_amount]. rewrite sumZ_cons, IH, total_parts_cons. reflexivity.
Qed.
Lemma mk_posts_nonneg : forall a f, fnonneg f -> posts_nonneg (mk_posts a f).
Proof.
  intros a [s ps] H. unfold mk_posts, posts_nonneg, fnonneg, nonneg_parts in *. cbn [f_parts f_asset] in *.
  induction H; cbn [map]; constructor; assumption.
Qed.
Lemma mk_posts_asset : forall a f, Forall (fun p => p_asset p = f_asset f) (mk_posts a f).
Proof. intros a f. unfold mk_posts. apply Forall_forall. intros p Hin. apply in_map_iff in Hin. destruct Hin as (q & <- & _). reflexivity. Qed.
Lemma mk_posts_dst : forall a f, Forall (fun p => p_dst p = a) (mk_posts a f).
Proof. intros a f. unfold mk_posts. apply Forall_forall. intros p Hin. apply in_map_iff in Hin. destruct Hin as (q & <- & _). reflexivity. Qed.
Lemma mk_posts_dunits : forall a f, fnonneg f -> post_dunits (mk_posts a f) = repeat a (Z.to_nat (total f)).
Proof.
  intros a [s ps] H. unfold mk_posts, post_dunits, total, fnonneg in *. cbn [f_parts f_asset] in *.
  induction ps as [|p ps IH]; [reflexivity|]. apply nonneg_parts_cons in H. destruct H as [H1 H2].
  cbn [map flat_map p_dst p_amount]. rewrite IH by assumption. rewrite total_parts_cons.
  rewrite repeat_add_Z by (try apply total_parts_nonneg; assumption). reflexivity.
Qed.

(* ------------------------------------------------------------------------------------------------ *)
(** * States: what a source / a repay leaves untouched *)

Lemma with_bals_posts : forall st b, s_posts (with_bals st b) = s_posts st.
Proof. reflexivity. Qed.
Lemma do_repay_posts : forall st f st', do_repay st f = SOk st' -> s_posts st' = s_posts st.
Proof.
  intros st f st' H. unfold do_repay in H. destruct (repay (s_bals st) (f_asset f) (f_parts f)); [|discriminate].
  inversion H; reflexivity.
Qed.

Lemma withdraw_all_spec : forall b a s ov f b', withdraw_all b a s ov = Some (f, b') ->
  exists bal, bal_get b a s = Some bal /\ f = {| f_asset := s; f_parts := [(a, Z.max 0 (bal + ov))] |}.
Proof.
  intros b a s ov f b' H. unfold withdraw_all in H. destruct (bal_get b a s) as [bal|]; [|discriminate].
  exists bal. split; [reflexivity|].
  destruct (0 <? bal + ov) eqn:E; inversion H; subst; f_equal; f_equal; f_equal;
    [apply Z.ltb_lt in E | apply Z.ltb_ge in E]; lia.
Qed.
Lemma withdraw_always_spec : forall b a s amt f b', withdraw_always b a s amt = Some (f, b') ->
  f = {| f_asset := s; f_parts := [(a, amt)] |}.
Proof.
  intros b a s amt f b' H. unfold withdraw_always in H. destruct (bal_get b a s); [|discriminate].
  inversion H; reflexivity.
Qed.

Lemma single_nonneg : forall s a x, 0 <= x -> fnonneg {| f_asset := s; f_parts := [(a, x)] |}.
Proof. intros. unfold fnonneg; cbn [f_parts]. repeat constructor. assumption. Qed.
Lemma single_total : forall s a x, total {| f_asset := s; f_parts := [(a, x)] |} = x.
Proof. intros. unfold total; cbn. lia. Qed.
Lemma single_units : forall s a x, funits {| f_asset := s; f_parts := [(a, x)] |} = repeat a (Z.to_nat x).
Proof. intros. unfold funits, units; cbn. apply app_nil_r. Qed.

(* ------------------------------------------------------------------------------------------------ *)
(** * "take up to [amt], cover what is missing from the fallback account": the tail shared by
      [max .. from] sources with a fallback and by TakeFromSource *)

Definition missing_of (tot amt : Z) : Z := if tot <? amt then amt - tot else 0.

Lemma capped_with_fallback : forall f amt res rem extra r s a,
  fnonneg f -> 0 <= amt -> take_max f amt = (res, rem) ->
  extra = {| f_asset := s; f_parts := [(a, missing_of (total f) amt)] |} ->
  assemble [res; extra] = SOk r ->
  fnonneg r /\ total r = amt /\ f_asset r = s /\
  funits r = firstn (Z.to_nat amt) (funits f) ++ repeat a (Z.to_nat (amt - total f)).
Proof.
  intros f amt res rem extra r s a Hf Hamt Htm -> Has.
  destruct (take_max_spec _ _ _ _ Htm Hamt Hf) as (T1 & T2 & T3 & T4 & T5 & T6 & T7).
  destruct (take_max_prefix _ _ _ _ Htm Hamt Hf) as [P1 _].
  pose proof (total_nonneg _ Hf) as Htot.
  assert (Hm : 0 <= missing_of (total f) amt).
  { unfold missing_of. destruct (total f <? amt) eqn:E; [apply Z.ltb_lt in E|]; lia. }
  destruct (assemble_two_spec _ _ _ Has T3 (single_nonneg _ _ _ Hm)) as (A1 & A2 & A3 & A4 & A5).
  rewrite single_total in A3. rewrite single_units in A5. cbn [f_asset] in A2.
  splits; try assumption.
  - rewrite A3, T1. unfold missing_of. destruct (total f <? amt) eqn:E; [apply Z.ltb_lt in E | apply Z.ltb_ge in E]; lia.
  - symmetry; assumption.
  - rewrite A5, P1. unfold missing_of.
    destruct (total f <? amt) eqn:E; [apply Z.ltb_lt in E | apply Z.ltb_ge in E].
    + rewrite Z.min_r by lia. rewrite <- (funits_length f Hf), Nat2Z.id, !firstn_all2; try reflexivity.
      rewrite <- (Nat2Z.id (length (funits f))), (funits_length f Hf). apply Z2Nat.inj_le; lia.
    + rewrite Z.min_l by lia. replace (Z.to_nat (amt - total f)) with 0%nat by lia. reflexivity.
Qed.

(* ------------------------------------------------------------------------------------------------ *)
(** * Sources *)

(* every source yields a non-negative funding and emits no posting *)
Definition source_ok (ve : venv) (s : source) : Prop :=
  forall za st f st1, sem_source ve za s st = SOk (f, st1) -> fnonneg f /\ s_posts st1 = s_posts st.

Lemma src_go_ok : forall ve za l, Forall (source_ok ve) l ->
  forall st fs st1, src_go ve za l st = SOk (fs, st1) ->
  Forall fnonneg fs /\ s_posts st1 = s_posts st /\ length fs = length l.
Proof.
  intros ve za l HF. induction HF as [|s l Hs HF IH]; intros st fs st1 H; cbn [src_go] in H.
  - inversion H; subst. splits; [constructor|reflexivity|reflexivity].
  - fold (src_go ve za) in H. sb H p E. destruct p as [f st'].
    sb H q E2. destruct q as [fs' st2]. inversion H; subst.
    destruct (Hs _ _ _ _ E) as [N1 P1]. destruct (IH _ _ _ E2) as (N2 & P2 & L2).
    splits; [constructor; assumption | congruence | cbn [length]; congruence].
Qed.

Lemma sem_source_ok : forall ve s, source_ok ve s.
Proof.
  intros ve. apply source_ind2.
  - (* account *)
    intros acc ov za st f st1 H. cbn [sem_source] in H.
    sb H a Ea. sb H p Eo. destruct p as [oa oamt].
    destruct (withdraw_all (s_bals st) a oa oamt) as [[f' b]|] eqn:Ew; [|discriminate]. inversion H; subst.
    destruct (withdraw_all_spec _ _ _ _ _ _ Ew) as (bal & _ & ->).
    split; [apply single_nonneg; lia | reflexivity].
  - (* max *)
    intros m s IH za st f st1 H. cbn [sem_source] in H.
    sb H p E. destruct p as [f0 st0]. destruct (IH _ _ _ _ E) as [N0 P0].
    sb H q Em. destruct q as [ms mamt].
    destruct (mamt <? 0) eqn:Hneg; [discriminate|]. apply Z.ltb_ge in Hneg.
    destruct (negb (N.eqb (f_asset f0) ms)) eqn:Has; [discriminate|].
    destruct (take_max f0 mamt) as [res rem] eqn:Htm.
    destruct (take_max_spec _ _ _ _ Htm Hneg N0) as (T1 & T2 & T3 & T4 & T5 & T6 & T7).
    sb H st2 Er. apply do_repay_posts in Er.
    destruct (fallback_of s) as [fbe|].
    + sb H a Ea.
      destruct (withdraw_always (s_bals st2) a ms _) as [[extra b]|] eqn:Ew; [|discriminate].
      sb H r Eas. inversion H; subst. apply withdraw_always_spec in Ew.
      destruct (capped_with_fallback _ _ _ _ _ _ _ _ N0 Hneg Htm Ew Eas) as (C1 & _).
      split; [assumption | cbn [with_bals s_posts]; congruence].
    + inversion H; subst. split; [assumption | congruence].
  - (* in order *)
    intros l HF za st f st1 H. rewrite sem_source_SInOrder in H.
    sb H p E. destruct p as [fs st']. sb H r Eas. inversion H; subst.
    destruct (src_go_ok _ _ _ HF _ _ _ E) as (N & P & _).
    destruct (assemble_spec _ _ Eas) as (_ & _ & _ & U). destruct (U N) as [U1 _].
    split; assumption.
Qed.

(* (c) caps on sources: under [max m from S] the funding is at most m; exactly m when S has a fallback *)
Theorem source_cap : forall ve za max src st f st1,
  sem_source ve za (SMaxed max src) st = SOk (f, st1) ->
  exists ms mamt, eval_monetary ve max = SOk (ms, mamt) /\ 0 <= mamt /\ total f <= mamt /\
    (fallback_of src <> None -> total f = mamt) /\
    (forall f0 st0, sem_source ve za src st = SOk (f0, st0) -> total f = Z.min mamt (total f0) \/ fallback_of src <> None).
Proof.
  intros ve za m s st f st1 H. cbn [sem_source] in H.
  sb H p E. destruct p as [f0 st0]. destruct (sem_source_ok ve s _ _ _ _ E) as [N0 P0].
  sb H q Em. destruct q as [ms mamt]. exists ms, mamt.
  destruct (mamt <? 0) eqn:Hneg; [discriminate|]. apply Z.ltb_ge in Hneg.
  destruct (negb (N.eqb (f_asset f0) ms)) eqn:Has; [discriminate|].
  destruct (take_max f0 mamt) as [res rem] eqn:Htm.
  destruct (take_max_spec _ _ _ _ Htm Hneg N0) as (T1 & T2 & T3 & T4 & T5 & T6 & T7).
  sb H st2 Er.
  destruct (fallback_of s) as [fbe|].
  - sb H a Ea.
    destruct (withdraw_always (s_bals st2) a ms _) as [[extra b]|] eqn:Ew; [|discriminate].
    sb H r Eas. inversion H; subst. apply withdraw_always_spec in Ew.
    destruct (capped_with_fallback _ _ _ _ _ _ _ _ N0 Hneg Htm Ew Eas) as (C1 & C2 & _).
    splits; try reflexivity; try lia. intros; right; discriminate.
  - inversion H; subst. splits; try reflexivity; try lia; [congruence|].
    intros f1 st1' E1. left. congruence.
Qed.

(* ------------------------------------------------------------------------------------------------ *)
(** * TakeFromSource *)

(* the account a fallback expression denotes (when there is a fallback and it evaluates) *)
Definition fb_account (ve : venv) (fb : option expr) : account :=
  match fb with
  | Some e => match eval_account ve e with SOk a => a | SErr _ => world end
  | None => world
  end.

Lemma take_from_spec : forall ve fb st f s amt r st1,
  take_from ve fb st f s amt = SOk (r, st1) -> fnonneg f ->
  0 <= amt /\ fnonneg r /\ total r = amt /\ f_asset r = s /\ s_posts st1 = s_posts st /\
  (fb = None -> amt <= total f) /\
  funits r = firstn (Z.to_nat amt) (funits f) ++ repeat (fb_account ve fb) (Z.to_nat (amt - total f)).
Proof.
  intros ve fb st f s amt r st1 H Hf. unfold take_from in H. destruct fb as [fbe|].
  - destruct (amt <? 0) eqn:Hneg; [discriminate|]. apply Z.ltb_ge in Hneg.
    destruct (negb (N.eqb (f_asset f) s)) eqn:Has; [discriminate|].
    destruct (take_max f amt) as [res rem] eqn:Htm.
    sb H st2 Er. apply do_repay_posts in Er. sb H a Ea.
    destruct (withdraw_always (s_bals st2) a s _) as [[extra b]|] eqn:Ew; [|discriminate].
    sb H r' Eas. inversion H; subst. apply withdraw_always_spec in Ew.
    destruct (capped_with_fallback _ _ _ _ _ _ _ _ Hf Hneg Htm Ew Eas) as (C1 & C2 & C3 & C4).
    splits; try assumption; try (cbn [with_bals s_posts]; congruence).
    unfold fb_account. rewrite Ea. exact C4.
  - destruct (negb (N.eqb (f_asset f) s)) eqn:Has; [discriminate|].
    apply negb_false_iff, N.eqb_eq in Has.
    destruct (take f amt) as [[res rem]|] eqn:Ht; [|discriminate].
    sb H st2 Er. apply do_repay_posts in Er. inversion H; subst.
    destruct (take_some _ _ _ _ Ht Hf) as (T0 & T1 & T2 & T3 & T4 & T5 & T6 & T7).
    destruct (take_prefix _ _ _ _ Ht Hf) as [P1 _].
    pose proof (total_nonneg _ T4) as Hrem.
    splits; try assumption; try congruence; try lia.
    rewrite P1. replace (Z.to_nat (amt - total f)) with 0%nat by lia. cbn [repeat]. rewrite app_nil_r. reflexivity.
Qed.

(* ------------------------------------------------------------------------------------------------ *)
(** * Allotments evaluated from the script *)

Lemma eval_portions_length : forall ve ps qs, eval_portions ve ps = SOk qs -> length qs = length ps.
Proof.
  intros ve. induction ps as [|p r IH]; intros qs H; cbn [eval_portions] in H.
  - inversion H; reflexivity.
  - sb H q E. sb H qs' E2. inversion H; subst. cbn [length]. rewrite (IH _ eq_refl). reflexivity.
Qed.

(* an allotment is exact when, once evaluated, it has a `remaining` entry or its portions sum to 1.
   The compiler enforces this statically (VisitAllotment / Compiler.visit_allotment: "the sum of portions might
   be less than 100%"); Sem alone does not, so it is a hypothesis of the `nothing is left over` statements. *)
Definition allot_exact (ve : venv) (ps : list aportion) : Prop :=
  forall qs, eval_portions ve ps = SOk qs -> (1 <= count_remaining qs)%nat \/ req (sum_specific qs) ratio_one.

Lemma make_allotment_length : forall ve ps a, make_allotment ve ps = SOk a -> length a = length ps.
Proof.
  intros ve ps a H. unfold make_allotment in H. sb H qs E.
  destruct (new_allotment qs) as [|a'] eqn:En; [discriminate|]. inversion H; subst.
  rewrite (new_allotment_length _ _ En). apply eval_portions_length with (ve := ve); assumption.
Qed.

Lemma make_allotment_exact : forall ve ps a amount, make_allotment ve ps = SOk a -> allot_exact ve ps ->
  sumZ (allocate a amount) = amount.
Proof.
  intros ve ps a amount H Hex. unfold make_allotment in H. sb H qs E.
  destruct (new_allotment qs) as [|a'] eqn:En; [discriminate|]. inversion H; subst.
  destruct (allocate_exact a amount (new_allotment_exact _ _ En (Hex _ E))) as [S _]. exact S.
Qed.

(* a static (syntactic) criterion for exactness, the one compiler.VisitAllotment applies: the allotment has a
   `remaining` entry, or consists of literal portions that sum to 1 *)
Definition is_remaining (p : aportion) : bool := match p with APRemaining => true | _ => false end.
Fixpoint const_sum (ps : list aportion) : option ratio :=
  match ps with
  | [] => Some ratio_zero
  | APConst (Some r) :: rest => match const_sum rest with Some t => Some (ratio_add r t) | None => None end
  | _ :: _ => None
  end.
Definition static_exact (ps : list aportion) : bool :=
  existsb is_remaining ps || match const_sum ps with Some t => ratio_eq1 t | None => false end.

Lemma eval_portions_remaining : forall ve ps qs, eval_portions ve ps = SOk qs -> existsb is_remaining ps = true ->
  (1 <= count_remaining qs)%nat.
Proof.
  intros ve. induction ps as [|p r IH]; intros qs H Hex; cbn [existsb] in Hex; [discriminate|].
  cbn [eval_portions] in H. sb H q E. sb H qs' E2. inversion H; subst.
  destruct p as [o|name|]; cbn [is_remaining orb] in Hex.
  - specialize (IH _ eq_refl Hex). destruct q; cbn [count_remaining]; lia.
  - specialize (IH _ eq_refl Hex). destruct q; cbn [count_remaining]; lia.
  - cbn [eval_portion] in E. inversion E; subst. cbn [count_remaining]. lia.
Qed.
Lemma eval_portions_const : forall ve ps qs t, eval_portions ve ps = SOk qs -> const_sum ps = Some t ->
  sum_specific qs = t.
Proof.
  intros ve. induction ps as [|p r IH]; intros qs t H Hc; cbn [eval_portions] in H.
  - inversion H; subst. cbn in Hc. inversion Hc. reflexivity.
  - sb H q E. sb H qs' E2. inversion H; subst. cbn [const_sum] in Hc.
    destruct p as [[rr|]|name|]; try discriminate.
    destruct (const_sum r) as [t'|] eqn:Et; [|discriminate]. inversion Hc; subst.
    cbn [eval_portion] in E. inversion E; subst. cbn [sum_specific]. rewrite (IH _ _ eq_refl eq_refl). reflexivity.
Qed.
Lemma static_exact_ok : forall ve ps, static_exact ps = true -> allot_exact ve ps.
Proof.
  intros ve ps H qs E. unfold static_exact in H. apply orb_true_iff in H. destruct H as [H|H].
  - left. eapply eval_portions_remaining; eassumption.
  - right. destruct (const_sum ps) as [t|] eqn:Ec; [|discriminate].
    rewrite (eval_portions_const _ _ _ _ E Ec). apply ratio_is_one_req. unfold ratio_eq1 in H. apply Z.eqb_eq in H. exact H.
Qed.

(* ------------------------------------------------------------------------------------------------ *)
(** * Destinations: `kept`-freeness, exactness *)

Fixpoint no_kept (d : dest) : bool :=
  match d with
  | DAccount _ => true
  | DInOrder l k =>
      (fix go (l : list (expr * kod)) : bool :=
         match l with [] => true | (_, k') :: r => kod_no_kept k' && go r end) l && kod_no_kept k
  | DAllot l =>
      (fix go (l : list (aportion * kod)) : bool :=
         match l with [] => true | (_, k') :: r => kod_no_kept k' && go r end) l
  end
with kod_no_kept (k : kod) : bool :=
  match k with Kept => false | KTo d => no_kept d end.

Fixpoint dest_exact (ve : venv) (d : dest) : Prop :=
  match d with
  | DAccount _ => True
  | DInOrder l k =>
      (fix go (l : list (expr * kod)) : Prop :=
         match l with [] => True | (_, k') :: r => kod_exact ve k' /\ go r end) l /\ kod_exact ve k
  | DAllot l =>
      allot_exact ve (map fst l) /\
      (fix go (l : list (aportion * kod)) : Prop :=
         match l with [] => True | (_, k') :: r => kod_exact ve k' /\ go r end) l
  end
with kod_exact (ve : venv) (k : kod) : Prop :=
  match k with Kept => True | KTo d => dest_exact ve d end.

Lemma no_kept_DInOrder : forall l k,
  no_kept (DInOrder l k) = forallb (fun ek => kod_no_kept (snd ek)) l && kod_no_kept k.
Proof.
  intros l k. cbn [no_kept]. f_equal. induction l as [|[e k'] r IH]; [reflexivity|]. cbn [forallb snd]. rewrite IH. reflexivity.
Qed.
Lemma no_kept_DAllot : forall l, no_kept (DAllot l) = forallb (fun pk => kod_no_kept (snd pk)) l.
Proof.
  intros l. cbn [no_kept]. induction l as [|[e k'] r IH]; [reflexivity|]. cbn [forallb snd]. rewrite IH. reflexivity.
Qed.
Lemma dest_exact_DInOrder : forall ve l k,
  dest_exact ve (DInOrder l k) <-> Forall (fun ek => kod_exact ve (snd ek)) l /\ kod_exact ve k.
Proof.
  intros ve l k. cbn [dest_exact].
  assert (G : (fix go (l : list (expr * kod)) : Prop :=
                 match l with [] => True | (_, k') :: r => kod_exact ve k' /\ go r end) l
              <-> Forall (fun ek => kod_exact ve (snd ek)) l).
  { induction l as [|[e k'] r IH]; [split; constructor|]. split.
    - intros [A B]. constructor; [exact A | apply IH; exact B].
    - intro H. inversion H; subst. split; [assumption | apply IH; assumption]. }
  tauto.
Qed.
Lemma dest_exact_DAllot : forall ve l,
  dest_exact ve (DAllot l) <-> allot_exact ve (map fst l) /\ Forall (fun pk => kod_exact ve (snd pk)) l.
Proof.
  intros ve l. cbn [dest_exact].
  assert (G : (fix go (l : list (aportion * kod)) : Prop :=
                 match l with [] => True | (_, k') :: r => kod_exact ve k' /\ go r end) l
              <-> Forall (fun pk => kod_exact ve (snd pk)) l).
  { induction l as [|[e k'] r IH]; [split; constructor|]. split.
    - intros [A B]. constructor; [exact A | apply IH; exact B].
    - intro H. inversion H; subst. split; [assumption | apply IH; assumption]. }
  tauto.
Qed.

Fixpoint dest_static_exact (d : dest) : bool :=
  match d with
  | DAccount _ => true
  | DInOrder l k =>
      (fix go (l : list (expr * kod)) : bool :=
         match l with [] => true | (_, k') :: r => kod_static_exact k' && go r end) l && kod_static_exact k
  | DAllot l =>
      static_exact (map fst l) &&
      (fix go (l : list (aportion * kod)) : bool :=
         match l with [] => true | (_, k') :: r => kod_static_exact k' && go r end) l
  end
with kod_static_exact (k : kod) : bool :=
  match k with Kept => true | KTo d => dest_static_exact d end.

Lemma dest_static_exact_ok : forall ve d, dest_static_exact d = true -> dest_exact ve d.
Proof.
  intro ve.
  apply (dest_ind2 (fun d => dest_static_exact d = true -> dest_exact ve d)
                   (fun k => kod_static_exact k = true -> kod_exact ve k)).
  - intros; exact I.
  - intros l k HF Hk H. cbn [dest_static_exact] in H. apply andb_true_iff in H. destruct H as [H1 H2].
    cbn [dest_exact]. split; [|exact (Hk H2)]. clear Hk H2.
    induction HF as [|[e k'] r Hk' HF IH]; [exact I|]. cbn [snd] in Hk'. apply andb_true_iff in H1. destruct H1 as [A B].
    split; [exact (Hk' A) | exact (IH B)].
  - intros l HF H. cbn [dest_static_exact] in H. apply andb_true_iff in H. destruct H as [H0 H1].
    cbn [dest_exact]. split; [apply static_exact_ok; exact H0|]. clear H0.
    induction HF as [|[e k'] r Hk' HF IH]; [exact I|]. cbn [snd] in Hk'. apply andb_true_iff in H1. destruct H1 as [A B].
    split; [exact (Hk' A) | exact (IH B)].
  - intros; exact I.
  - intros d Hd H. cbn [kod_static_exact] in H. cbn [kod_exact]. exact (Hd H).
Qed.

(* ------------------------------------------------------------------------------------------------ *)
(** * The destination invariant *)

(* [moved a F st new lo st']: going from st to st' appended the postings [new], all non-negative and of asset a,
   and left the non-negative funding [lo] of asset a, such that the coins of F are, in order, first those the
   postings moved and then those left in [lo]. (This is DESIGN 5-C03 invariant (i)+(ii).) *)
Definition moved (a : asset) (F : list account) (st : sstate) (new : list posting) (lo : funding) (st' : sstate) : Prop :=
  s_posts st' = s_posts st ++ new /\ posts_nonneg new /\ Forall (fun p => p_asset p = a) new /\
  fnonneg lo /\ f_asset lo = a /\ post_units new ++ funits lo = F.

Lemma moved_nil : forall f st, fnonneg f -> moved (f_asset f) (funits f) st [] f st.
Proof. intros f st H. unfold moved. splits; try constructor; try assumption; try reflexivity. rewrite app_nil_r; reflexivity. Qed.

Lemma moved_trans : forall a F st n1 f' st1 n2 lo st2,
  moved a F st n1 f' st1 -> moved a (funits f') st1 n2 lo st2 -> moved a F st (n1 ++ n2) lo st2.
Proof.
  intros a F st n1 f' st1 n2 lo st2 (A1 & A2 & A3 & A4 & A5 & A6) (B1 & B2 & B3 & B4 & B5 & B6).
  unfold moved. splits; try assumption.
  - rewrite B1, A1, app_assoc. reflexivity.
  - apply posts_nonneg_app; split; assumption.
  - apply Forall_app; split; assumption.
  - rewrite post_units_app, <- app_assoc, B6. exact A6.
Qed.

Lemma moved_frame : forall a U st n x st1 R f',
  moved a U st n x st1 -> funits f' = funits x ++ R -> fnonneg f' -> f_asset f' = a ->
  moved a (U ++ R) st n f' st1.
Proof.
  intros a U st n x st1 R f' (A1 & A2 & A3 & A4 & A5 & A6) HU Hn Ha.
  unfold moved. splits; try assumption. rewrite HU, app_assoc, A6. reflexivity.
Qed.

(* conservation, read off the invariant *)
Lemma moved_total : forall a f st new lo st', moved a (funits f) st new lo st' -> fnonneg f ->
  posts_total new + total lo = total f.
Proof.
  intros a f st new lo st' (A1 & A2 & A3 & A4 & A5 & A6) Hf.
  rewrite <- (post_units_length new A2), <- (funits_length lo A4), <- (funits_length f Hf), <- A6, app_length. lia.
Qed.

Definition dest_ok (ve : venv) (d : dest) : Prop :=
  forall f st lo st', sem_dest ve d f st = SOk (lo, st') -> fnonneg f ->
  exists new, moved (f_asset f) (funits f) st new lo st' /\
              (no_kept d = true -> dest_exact ve d -> total lo = 0).
Definition kod_ok (ve : venv) (k : kod) : Prop :=
  forall f st lo st', sem_kod ve k f st = SOk (lo, st') -> fnonneg f ->
  exists new, moved (f_asset f) (funits f) st new lo st' /\
              (kod_no_kept k = true -> kod_exact ve k -> total lo = 0).

(* one entry of an ordered / portioned destination: hand [res] (a prefix of f) to the entry, put what it
   returns back in front of the remainder *)
Lemma entry_step : forall ve k f res rem st x st1 f',
  kod_ok ve k -> fnonneg f -> fnonneg res -> fnonneg rem ->
  funits res ++ funits rem = funits f -> f_asset res = f_asset f -> f_asset rem = f_asset f ->
  sem_kod ve k res st = SOk (x, st1) -> assemble [x; rem] = SOk f' ->
  fnonneg f' /\ f_asset f' = f_asset f /\ total f' = total x + total rem /\
  exists new, moved (f_asset f) (funits f) st new f' st1 /\ posts_total new + total x = total res /\
              (kod_no_kept k = true -> kod_exact ve k -> total x = 0).
Proof.
  intros ve k f res rem st x st1 f' Hk Hf Hres Hrem HU Ha1 Ha2 Hs Has.
  destruct (Hk _ _ _ _ Hs Hres) as (new & M & Z0).
  pose proof (moved_total _ _ _ _ _ _ M Hres) as Tot.
  pose proof M as (M1 & M2 & M3 & M4 & M5 & M6).
  destruct (assemble_two_spec _ _ _ Has M4 Hrem) as (A1 & A2 & A3 & A4 & A5).
  assert (Af : f_asset f' = f_asset f) by congruence.
  splits; try assumption. exists new. splits; try assumption.
  rewrite <- HU, <- Ha1. apply (moved_frame _ _ _ _ _ _ _ _ M A5 A4). congruence.
Qed.

Lemma inorder_go_ok : forall ve l, Forall (fun ek => kod_ok ve (snd ek)) l ->
  forall f acc st f1 kt st1, inorder_go ve l f acc st = SOk (f1, kt, st1) -> fnonneg f ->
  exists new, moved (f_asset f) (funits f) st new f1 st1 /\
    (forallb (fun ek => kod_no_kept (snd ek)) l = true -> Forall (fun ek => kod_exact ve (snd ek)) l -> kt = acc).
Proof.
  intros ve l HF. induction HF as [|[e k] l Hk HF IH]; intros f acc st f1 kt st1 H Hf; cbn [inorder_go] in H.
  - inversion H; subst. exists []. split; [apply moved_nil; assumption | reflexivity].
  - fold (inorder_go ve) in H. cbn [snd] in Hk.
    sb H q Em. destruct q as [ms mamt].
    destruct (mamt <? 0) eqn:Hneg; [discriminate|]. apply Z.ltb_ge in Hneg.
    destruct (negb (N.eqb (f_asset f) ms)) eqn:Has; [discriminate|].
    destruct (take_max f mamt) as [res rem] eqn:Htm.
    destruct (take_max_spec _ _ _ _ Htm Hneg Hf) as (T1 & T2 & T3 & T4 & T5 & T6 & T7).
    sb H p Ek. destruct p as [x st']. sb H f' Eas.
    destruct (entry_step _ _ _ _ _ _ _ _ _ Hk Hf T3 T4 T5 T6 T7 Ek Eas) as (N' & A' & _ & new1 & M1 & _ & Z1).
    destruct (IH _ _ _ _ _ _ H N') as (new2 & M2 & Z2).
    exists (new1 ++ new2). split.
    + eapply moved_trans; [eassumption|]. rewrite <- A'. exact M2.
    + cbn [forallb snd]. intros Hnk Hex. apply andb_true_iff in Hnk. destruct Hnk as [Hnk1 Hnk2].
      inversion Hex; subst. cbn [snd] in *. rewrite (Z2 Hnk2 H3), (Z1 Hnk1 H2). lia.
Qed.

Lemma allot_go_ok : forall ve l, Forall (fun pk => kod_ok ve (snd pk)) l ->
  forall parts f st lo st', allot_go ve l parts f st = SOk (lo, st') -> fnonneg f ->
  exists new, moved (f_asset f) (funits f) st new lo st' /\
    (forallb (fun pk => kod_no_kept (snd pk)) l = true -> Forall (fun pk => kod_exact ve (snd pk)) l ->
     total lo = total f - sumZ (firstn (length l) parts)).
Proof.
  intros ve l HF. induction HF as [|[e k] l Hk HF IH]; intros parts f st lo st' H Hf; cbn [allot_go] in H.
  - inversion H; subst. exists []. split; [apply moved_nil; assumption|]. intros _ _. cbn [length firstn]. rewrite sumZ_nil. lia.
  - fold (allot_go ve) in H. cbn [snd] in Hk. destruct parts as [|p ps]; [discriminate|].
    destruct (take f p) as [[res rem]|] eqn:Ht; [|discriminate].
    destruct (take_some _ _ _ _ Ht Hf) as (T0 & T1 & T2 & T3 & T4 & T5 & T6 & T7).
    sb H q Ek. destruct q as [x st1]. sb H f' Eas.
    destruct (entry_step _ _ _ _ _ _ _ _ _ Hk Hf T3 T4 T5 T6 T7 Ek Eas) as (N' & A' & Tf' & new1 & M1 & _ & Z1).
    destruct (IH _ _ _ _ _ H N') as (new2 & M2 & Z2).
    exists (new1 ++ new2). split.
    + eapply moved_trans; [eassumption|]. rewrite <- A'. exact M2.
    + cbn [forallb snd length firstn]. intros Hnk Hex. apply andb_true_iff in Hnk. destruct Hnk as [Hnk1 Hnk2].
      inversion Hex; subst. cbn [snd] in *. rewrite sumZ_cons, (Z2 Hnk2 H3), Tf', (Z1 Hnk1 H2). lia.
Qed.

Theorem sem_dest_ok : forall ve d, dest_ok ve d.
Proof.
  intro ve. apply (dest_ind2 (dest_ok ve) (kod_ok ve)).
  - (* account *)
    intros e f st lo st' H Hf. cbn [sem_dest] in H.
    destruct (take f (total f)) as [[res rem]|] eqn:Ht; [|discriminate].
    sb H a Ea. inversion H; subst.
    destruct (take_some _ _ _ _ Ht Hf) as (T0 & T1 & T2 & T3 & T4 & T5 & T6 & T7).
    exists (mk_posts a res). split.
    + unfold moved. splits.
      * apply do_send_posts.
      * apply mk_posts_nonneg; assumption.
      * rewrite <- T6. apply mk_posts_asset.
      * assumption.
      * assumption.
      * rewrite mk_posts_units. assumption.
    + intros _ _. lia.
  - (* in order *)
    intros l k HF Hk f st lo st' H Hf. rewrite sem_dest_DInOrder in H.
    sb H p E. destruct p as [[f1 kt] st1].
    destruct (inorder_go_ok _ _ HF _ _ _ _ _ _ E Hf) as (new1 & M1 & Z1).
    pose proof M1 as (_ & _ & _ & N1 & A1 & _).
    destruct (take (freverse f1) kt) as [[res rem]|] eqn:Ht; [|discriminate].
    destruct (take_some _ _ _ _ Ht (freverse_nonneg _ N1)) as (T0 & T1 & T2 & T3 & T4 & T5 & T6 & T7).
    rewrite freverse_units in T5. rewrite freverse_asset in T6, T7. rewrite freverse_total in T2.
    sb H q Ek. destruct q as [x st2]. sb H r Eas. inversion H; subst.
    destruct (Hk _ _ _ _ Ek (freverse_nonneg _ T4)) as (new2 & M2 & Z2).
    pose proof M2 as (_ & _ & _ & Nx & Ax & _). rewrite freverse_asset in Ax.
    destruct (assemble_two_spec _ _ _ Eas Nx (freverse_nonneg _ T3)) as (B1 & B2 & B3 & B4 & B5).
    rewrite freverse_units in B5. rewrite freverse_total in B3.
    exists (new1 ++ new2). split.
    + eapply moved_trans; [exact M1|].
      assert (EU : funits f1 = funits (freverse rem) ++ rev (funits res)).
      { rewrite freverse_units, <- rev_app_distr, T5, rev_involutive. reflexivity. }
      rewrite EU. rewrite freverse_asset in M2.
      replace (f_asset f) with (f_asset rem) by congruence.
      eapply moved_frame; try eassumption. congruence.
    + rewrite no_kept_DInOrder, dest_exact_DInOrder. intros Hnk [Hex1 Hex2].
      apply andb_true_iff in Hnk. destruct Hnk as [Hnk1 Hnk2].
      rewrite (Z2 Hnk2 Hex2) in B3. rewrite (Z1 Hnk1 Hex1) in B3. lia.
  - (* allotment *)
    intros l HF f st lo st' H Hf. rewrite sem_dest_DAllot in H.
    sb H a Ea.
    destruct (allot_go_ok _ _ HF _ _ _ _ _ H Hf) as (new & M & Z0).
    exists new. split; [exact M|].
    rewrite no_kept_DAllot, dest_exact_DAllot. intros Hnk [Hex1 Hex2].
    rewrite (Z0 Hnk Hex2).
    rewrite firstn_all2 by (rewrite allocate_length, (make_allotment_length _ _ _ Ea), map_length; lia).
    rewrite (make_allotment_exact _ _ _ _ Ea Hex1). lia.
  - (* kept *)
    intros f st lo st' H Hf. cbn [sem_kod] in H. inversion H; subst.
    exists []. split; [apply moved_nil; assumption | discriminate].
  - (* to d *)
    intros d Hd f st lo st' H Hf. cbn [sem_kod] in H. exact (Hd _ _ _ _ H Hf).
Qed.

Lemma sem_kod_ok : forall ve k, kod_ok ve k.
Proof.
  intros ve [|d]; [|exact (sem_dest_ok ve d)].
  intros f st lo st' H Hf. cbn [sem_kod] in H. inversion H; subst.
  exists []. split; [apply moved_nil; assumption | discriminate].
Qed.

(* ------------------------------------------------------------------------------------------------ *)
(** * What the sources hand to the destination *)

Lemma srcallot_go_ok : forall ve za ms l parts st fs st1,
  srcallot_go ve za ms l parts st = SOk (fs, st1) ->
  Forall fnonneg fs /\ s_posts st1 = s_posts st /\ map total fs = firstn (length l) parts /\
  Forall (fun f => f_asset f = ms) fs.
Proof.
  intros ve za ms. induction l as [|[p s] l IH]; intros parts st fs st1 H; cbn [srcallot_go] in H.
  - inversion H; subst. splits; try constructor; reflexivity.
  - fold (srcallot_go ve za ms) in H. destruct parts as [|x ps]; [discriminate|].
    sb H q E. destruct q as [f st']. destruct (sem_source_ok ve s _ _ _ _ E) as [N0 P0].
    sb H q2 Et. destruct q2 as [r st2].
    destruct (take_from_spec _ _ _ _ _ _ _ _ Et N0) as (T0 & T1 & T2 & T3 & T4 & _).
    sb H q3 Er. destruct q3 as [rs st3]. inversion H; subst.
    destruct (IH _ _ _ _ Er) as (I1 & I2 & I3 & I4).
    splits.
    + constructor; assumption.
    + congruence.
    + cbn [map length firstn]. rewrite I3. reflexivity.
    + constructor; [reflexivity | assumption].
Qed.

Definition src_exact (ve : venv) (src : vasource) : Prop :=
  match src with VSrc _ => True | VSrcAllot l => allot_exact ve (map fst l) end.

(* the amount a send states, when it states one *)
Definition stated (ve : venv) (m : send_amount) (n : Z) : Prop :=
  match m with SendMon e => exists ms, eval_monetary ve e = SOk (ms, n) | SendAll _ => False end.

Lemma send_funding_ok : forall ve m src st f st1,
  send_funding ve m src st = SOk (f, st1) -> fnonneg f /\ s_posts st1 = s_posts st.
Proof.
  intros ve m src st f st1 H. unfold send_funding in H. destruct m as [e|ae], src as [s|l]; try discriminate.
  - sb H za Ez. sb H p E. destruct p as [f0 st0]. destruct (sem_source_ok ve s _ _ _ _ E) as [N0 P0].
    sb H q Em. destruct q as [ms n].
    destruct (take_from_spec _ _ _ _ _ _ _ _ H N0) as (T0 & T1 & T2 & T3 & T4 & _). split; [assumption | congruence].
  - sb H za Ez. sb H q Em. destruct q as [ms n]. sb H a Ea. sb H p E. destruct p as [fs st']. sb H r Eas.
    inversion H; subst. destruct (srcallot_go_ok _ _ _ _ _ _ _ _ E) as (I1 & I2 & I3 & I4).
    destruct (assemble_spec _ _ Eas) as (_ & _ & _ & U). destruct (U I1) as [U1 _]. split; assumption.
  - sb H a Ea. exact (sem_source_ok ve s _ _ _ _ H).
Qed.

(* a send that states an amount hands exactly that amount to its destination *)
Lemma send_funding_stated : forall ve e src st f st1,
  send_funding ve (SendMon e) src st = SOk (f, st1) ->
  exists ms n, eval_monetary ve e = SOk (ms, n) /\ f_asset f = ms /\
    match src with
    | VSrc _ => total f = n
    | VSrcAllot l => exists a, make_allotment ve (map fst l) = SOk a /\ total f = sumZ (allocate a n) /\
                               (allot_exact ve (map fst l) -> total f = n)
    end.
Proof.
  intros ve e src st f st1 H. unfold send_funding in H. destruct src as [s|l].
  - sb H za Ez. sb H p E. destruct p as [f0 st0]. destruct (sem_source_ok ve s _ _ _ _ E) as [N0 P0].
    sb H q Em. destruct q as [ms n]. exists ms, n.
    destruct (take_from_spec _ _ _ _ _ _ _ _ H N0) as (T0 & T1 & T2 & T3 & T4 & _). splits; try assumption; reflexivity.
  - sb H za Ez. sb H q Em. destruct q as [ms n]. sb H a Ea. sb H p E. destruct p as [fs st']. sb H r Eas.
    inversion H; subst. exists ms, n.
    destruct (srcallot_go_ok _ _ _ _ _ _ _ _ E) as (I1 & I2 & I3 & I4).
    destruct (assemble_spec _ _ Eas) as (Hne & As & Tt & U).
    assert (Len : length (allocate a n) = length l).
    { rewrite allocate_length, (make_allotment_length _ _ _ Ea), map_length. reflexivity. }
    rewrite firstn_all2 in I3 by lia.
    assert (Tn : total f = sumZ (allocate a n)) by (rewrite Tt, I3; reflexivity).
    splits; try reflexivity.
    + destruct fs as [|g fs]; [exfalso; apply Hne; reflexivity|]. inversion As; subst. inversion I4; subst. congruence.
    + exists a. splits; try assumption; try reflexivity. intro Hex. rewrite Tn. apply (make_allotment_exact _ _ _ _ Ea Hex).
Qed.

(* ------------------------------------------------------------------------------------------------ *)
(** * A whole send *)

(* the anatomy of a successful send: the sources produce f (no posting yet), the destination turns f into the
   postings [new] and the leftover [lo], and [lo] is repaid. *)
Theorem send_anatomy : forall ve m src d st st',
  sem_send ve m src d st = SOk st' ->
  exists f st1 lo st2 new,
    send_funding ve m src st = SOk (f, st1) /\ sem_dest ve d f st1 = SOk (lo, st2) /\ do_repay st2 lo = SOk st' /\
    s_posts st' = s_posts st ++ new /\
    posts_nonneg new /\ Forall (fun p => p_asset p = f_asset f) new /\
    fnonneg f /\ fnonneg lo /\
    post_units new ++ funits lo = funits f /\
    posts_total new + total lo = total f /\
    (no_kept d = true -> dest_exact ve d -> total lo = 0 /\ posts_total new = total f).
Proof.
  intros ve m src d st st' H. rewrite sem_send_eq in H.
  sb H p E. destruct p as [f st1]. sb H q Ed. destruct q as [lo st2].
  destruct (send_funding_ok _ _ _ _ _ _ E) as [Nf Pf].
  destruct (sem_dest_ok ve d _ _ _ _ Ed Nf) as (new & M & Z0).
  pose proof (moved_total _ _ _ _ _ _ M Nf) as Tot.
  destruct M as (M1 & M2 & M3 & M4 & M5 & M6).
  exists f, st1, lo, st2, new. splits; try assumption; try reflexivity.
  - rewrite (do_repay_posts _ _ _ H), M1, Pf. reflexivity.
  - intros Hnk Hex. specialize (Z0 Hnk Hex). split; lia.
Qed.

(* (a) conservation for a send that states an amount n: postings + kept = n; without `kept`, postings = n *)
Theorem send_conservation_stated : forall ve e src d st st' ms n,
  sem_send ve (SendMon e) src d st = SOk st' -> eval_monetary ve e = SOk (ms, n) -> src_exact ve src ->
  exists f st1 lo st2 new,
    send_funding ve (SendMon e) src st = SOk (f, st1) /\ sem_dest ve d f st1 = SOk (lo, st2) /\
    do_repay st2 lo = SOk st' /\ s_posts st' = s_posts st ++ new /\
    0 <= n /\ total f = n /\ 0 <= total lo /\
    posts_total new + total lo = n /\
    Forall (fun p => p_asset p = ms) new /\
    (no_kept d = true -> dest_exact ve d -> total lo = 0 /\ posts_total new = n).
Proof.
  intros ve e src d st st' ms n H Em Hex.
  destruct (send_anatomy _ _ _ _ _ _ H) as (f & st1 & lo & st2 & new & E & Ed & Er & P & Nn & As & Nf & Nl & U & T & Z0).
  destruct (send_funding_stated _ _ _ _ _ _ E) as (ms' & n' & Em' & Af & Hsrc).
  rewrite Em in Em'. injection Em' as <- <-.
  assert (Tn : total f = n).
  { destruct src as [s|l]; [exact Hsrc|]. destruct Hsrc as (a & _ & _ & X). exact (X Hex). }
  exists f, st1, lo, st2, new. pose proof (total_nonneg _ Nf). pose proof (total_nonneg _ Nl).
  splits; try assumption; try lia.
  - rewrite <- Af. exact As.
  - intros Hnk Hexd. destruct (Z0 Hnk Hexd). split; lia.
Qed.

(* (a) conservation for `[ASSET *]`: postings + kept = everything the sources provided *)
Theorem send_conservation_all : forall ve ae s d st st',
  sem_send ve (SendAll ae) (VSrc s) d st = SOk st' ->
  exists a f st1 lo st2 new,
    eval_asset ve ae = SOk a /\ sem_source ve a s st = SOk (f, st1) /\ sem_dest ve d f st1 = SOk (lo, st2) /\
    do_repay st2 lo = SOk st' /\ s_posts st' = s_posts st ++ new /\
    posts_total new + total lo = total f /\ 0 <= total lo /\
    (no_kept d = true -> dest_exact ve d -> total lo = 0 /\ posts_total new = total f).
Proof.
  intros ve ae s d st st' H.
  destruct (send_anatomy _ _ _ _ _ _ H) as (f & st1 & lo & st2 & new & E & Ed & Er & P & Nn & As & Nf & Nl & U & T & Z0).
  unfold send_funding in E. sb E a Ea.
  exists a, f, st1, lo, st2, new. pose proof (total_nonneg _ Nl). splits; try assumption; reflexivity.
Qed.

(* the capacity of the sources, node by node *)
Theorem source_account_total : forall ve za acc ov st f st1,
  sem_source ve za (SAccount acc ov) st = SOk (f, st1) ->
  exists a oa oamt bal, eval_account ve acc = SOk a /\
    match ov with OvSpecific e => eval_monetary ve e = SOk (oa, oamt) | _ => oa = za /\ oamt = 0 end /\
    bal_get (s_bals st) a oa = Some bal /\
    f = {| f_asset := oa; f_parts := [(a, Z.max 0 (bal + oamt))] |}.
Proof.
  intros ve za acc ov st f st1 H. cbn [sem_source] in H.
  sb H a Ea. sb H p Eo. destruct p as [oa oamt].
  destruct (withdraw_all (s_bals st) a oa oamt) as [[f' b]|] eqn:Ew; [|discriminate]. inversion H; subst.
  destruct (withdraw_all_spec _ _ _ _ _ _ Ew) as (bal & Hb & ->).
  exists a, oa, oamt, bal. splits; try assumption; try reflexivity.
  destruct ov; try exact Eo; inversion Eo; split; reflexivity.
Qed.

(* a relational reading of the in-order loop *)
Inductive src_seq (ve : venv) (za : asset) : list source -> sstate -> list funding -> sstate -> Prop :=
| src_seq_nil : forall st, src_seq ve za [] st [] st
| src_seq_cons : forall s rest st f st1 fs st2,
    sem_source ve za s st = SOk (f, st1) -> src_seq ve za rest st1 fs st2 ->
    src_seq ve za (s :: rest) st (f :: fs) st2.

Lemma src_go_seq : forall ve za l st fs st1, src_go ve za l st = SOk (fs, st1) <-> src_seq ve za l st fs st1.
Proof.
  intros ve za. induction l as [|s l IH]; intros st fs st1; cbn [src_go]; [|fold (src_go ve za)].
  - split; intro H; [inversion H; constructor | inversion H; reflexivity].
  - split; intro H.
    + sb H p E. destruct p as [f st']. sb H q E2. destruct q as [fs' st2]. inversion H; subst.
      econstructor; [eassumption | apply IH; assumption].
    + inversion H as [|s0 r0 st0 f0 st0' fs0 st2 Hs Hr]; subst. rewrite Hs. cbn [sbind]. apply IH in Hr. rewrite Hr. reflexivity.
Qed.

(* (e), sources: an ordered source lists the coins of its members in the written order, each member evaluated
   in the state its predecessors left; and its total is the sum of theirs *)
Theorem source_inorder_units : forall ve za srcs st f st1,
  sem_source ve za (SInOrder srcs) st = SOk (f, st1) ->
  exists fs, src_seq ve za srcs st fs st1 /\ Forall fnonneg fs /\
    funits f = concat (map funits fs) /\ total f = sumZ (map total fs).
Proof.
  intros ve za srcs st f st1 H. rewrite sem_source_SInOrder in H.
  sb H p E. destruct p as [fs st']. sb H r Eas. inversion H; subst.
  assert (HF : Forall (source_ok ve) srcs) by (apply Forall_forall; intros; apply sem_source_ok).
  destruct (src_go_ok _ _ _ HF _ _ _ E) as (N & _ & _).
  destruct (assemble_spec _ _ Eas) as (_ & _ & T & U). destruct (U N) as [_ U2].
  exists fs. splits; try assumption. apply src_go_seq; assumption.
Qed.

(* ------------------------------------------------------------------------------------------------ *)
(** * (b) for whole scripts: no statement ever appends a negative posting *)

Lemma sem_stmt_posts : forall ve s st st', sem_stmt ve s st = SOk st' ->
  exists new, s_posts st' = s_posts st ++ new /\ posts_nonneg new.
Proof.
  intros ve s st st' H. destruct s; cbn [sem_stmt] in H.
  - sb H v E. inversion H; subst. exists []. cbn [s_posts]. rewrite app_nil_r. split; [reflexivity|constructor].
  - exists []. rewrite app_nil_r. split; [|constructor].
    unfold sem_save in H. destruct m.
    + sb H q E. destruct q as [s a]. sb H a' E2.
      repeat match type of H with
      | (if ?c then _ else _) = _ => destruct c
      | match ?o with Some _ => _ | None => _ end = _ => destruct o
      end; try discriminate; inversion H; reflexivity.
    + sb H s E. sb H a E2.
      repeat match type of H with
      | (if ?c then _ else _) = _ => destruct c
      | match ?o with Some _ => _ | None => _ end = _ => destruct o
      end; try discriminate; inversion H; reflexivity.
  - sb H v' E. inversion H; subst. exists []. cbn [s_posts]. rewrite app_nil_r. split; [reflexivity|constructor].
  - sb H v' E. sb H a E2. inversion H; subst. exists []. cbn [s_posts]. rewrite app_nil_r. split; [reflexivity|constructor].
  - discriminate.
  - destruct (send_anatomy _ _ _ _ _ _ H) as (f & st1 & lo & st2 & new & _ & _ & _ & P & Nn & _).
    exists new. split; assumption.
Qed.

Lemma sem_stmts_posts : forall ve l st st', sem_stmts ve l st = SOk st' ->
  exists new, s_posts st' = s_posts st ++ new /\ posts_nonneg new.
Proof.
  intros ve. induction l as [|s l IH]; intros st st' H; cbn [sem_stmts] in H.
  - inversion H; subst. exists []. rewrite app_nil_r. split; [reflexivity|constructor].
  - sb H st1 E. destruct (sem_stmt_posts _ _ _ _ E) as (n1 & P1 & N1). destruct (IH _ _ H) as (n2 & P2 & N2).
    exists (n1 ++ n2). split; [rewrite P2, P1, app_assoc; reflexivity | apply posts_nonneg_app; split; assumption].
Qed.

Theorem sem_posts_nonneg : forall sc ve b extra r, sem sc ve b extra = SOk r -> posts_nonneg (res_posts r).
Proof.
  intros sc ve b extra r H. unfold sem in H. sb H st E.
  destruct (sem_stmts_posts _ _ _ _ E) as (new & P & N). cbn [s_posts app] in P.
  unfold sem_finish in H.
  match type of H with (if ?c then _ else _) = _ => destruct c end; [discriminate|]. injection H as <-. cbn [res_posts].
  rewrite P. exact N.
Qed.

(* ------------------------------------------------------------------------------------------------ *)
(** * (c) caps on ordered destinations, and the shares of portioned destinations *)

(* what one entry did: the postings it emitted and the amount it kept (returned unsent) *)
Definition entry_result := (list posting * Z)%type.
Definition er_total (er : entry_result) : Z := posts_total (fst er) + snd er.

Lemma inorder_go_caps : forall ve l f acc st f1 kt st1,
  inorder_go ve l f acc st = SOk (f1, kt, st1) -> fnonneg f ->
  exists ers : list entry_result,
    s_posts st1 = s_posts st ++ concat (map fst ers) /\ fnonneg f1 /\
    kt = acc + sumZ (map snd ers) /\ Forall (fun er => 0 <= snd er) ers /\
    total f1 = total f - sumZ (map (fun er => posts_total (fst er)) ers) /\
    Forall2 (fun er ek => exists ms mamt, eval_monetary ve (fst ek) = SOk (ms, mamt) /\ 0 <= mamt /\
                                          er_total er <= mamt /\
                                          (kod_no_kept (snd ek) = true -> kod_exact ve (snd ek) -> snd er = 0)) ers l.
Proof.
  intros ve. induction l as [|[e k] l IH]; intros f acc st f1 kt st1 H Hf; cbn [inorder_go] in H.
  - inversion H; subst. exists []. cbn [map concat]. rewrite app_nil_r, !sumZ_nil. splits; try constructor; try assumption; lia.
  - fold (inorder_go ve) in H.
    sb H q Em. destruct q as [ms mamt].
    destruct (mamt <? 0) eqn:Hneg; [discriminate|]. apply Z.ltb_ge in Hneg.
    destruct (negb (N.eqb (f_asset f) ms)) eqn:Has; [discriminate|].
    destruct (take_max f mamt) as [res rem] eqn:Htm.
    destruct (take_max_spec _ _ _ _ Htm Hneg Hf) as (T1 & T2 & T3 & T4 & T5 & T6 & T7).
    sb H p Ek. destruct p as [x st']. sb H f' Eas.
    destruct (entry_step _ _ _ _ _ _ _ _ _ (sem_kod_ok ve k) Hf T3 T4 T5 T6 T7 Ek Eas)
      as (N' & A' & Tf' & new1 & M1 & Tx & Z1).
    destruct M1 as (P1 & _ & _ & _ & _ & _).
    assert (Nx : 0 <= total x).
    { destruct (sem_kod_ok ve k _ _ _ _ Ek T3) as (nn & (_ & _ & _ & Nx & _) & _). apply total_nonneg; assumption. }
    destruct (IH _ _ _ _ _ _ H N') as (ers & P2 & N2 & K2 & NN2 & Tt2 & F2).
    exists ((new1, total x) :: ers). cbn [map concat fst snd]. rewrite !sumZ_cons. splits.
    + rewrite P2, P1, app_assoc. reflexivity.
    + assumption.
    + lia.
    + constructor; assumption.
    + lia.
    + constructor; [|assumption]. exists ms, mamt. cbn [fst snd]. unfold er_total; cbn [fst snd].
      splits; try assumption; try lia.
Qed.

(* (c) in an ordered destination at most [max_i] reaches entry i (postings and kept together), entry by entry;
   what the entries kept is the accumulator the final Take carves off *)
Theorem dest_inorder_caps : forall ve l k f st lo st',
  sem_dest ve (DInOrder l k) f st = SOk (lo, st') -> fnonneg f ->
  exists (ers : list entry_result) (rest : entry_result),
    s_posts st' = s_posts st ++ concat (map fst ers) ++ fst rest /\
    Forall2 (fun er ek => exists ms mamt, eval_monetary ve (fst ek) = SOk (ms, mamt) /\ 0 <= mamt /\
                                          er_total er <= mamt /\ 0 <= snd er /\
                                          (kod_no_kept (snd ek) = true -> kod_exact ve (snd ek) -> snd er = 0)) ers l /\
    er_total rest = total f - sumZ (map er_total ers) /\ 0 <= snd rest /\
    total lo = sumZ (map snd ers) + snd rest.
Proof.
  intros ve l k f st lo st' H Hf. rewrite sem_dest_DInOrder in H.
  sb H p E. destruct p as [[f1 kt] st1].
  destruct (inorder_go_caps _ _ _ _ _ _ _ _ E Hf) as (ers & P1 & N1 & K1 & NN1 & Tt1 & F1).
  destruct (take (freverse f1) kt) as [[res rem]|] eqn:Ht; [|discriminate].
  destruct (take_some _ _ _ _ Ht (freverse_nonneg _ N1)) as (T0 & T1 & T2 & T3 & T4 & T5 & T6 & T7).
  rewrite freverse_total in T2.
  sb H q Ek. destruct q as [x st2]. sb H r Eas. inversion H; subst.
  destruct (sem_kod_ok ve k _ _ _ _ Ek (freverse_nonneg _ T4)) as (new2 & M2 & Z2).
  pose proof (moved_total _ _ _ _ _ _ M2 (freverse_nonneg _ T4)) as Tot2. rewrite freverse_total in Tot2.
  destruct M2 as (P2 & _ & _ & Nx & _ & _).
  destruct (assemble_two_spec _ _ _ Eas Nx (freverse_nonneg _ T3)) as (_ & _ & B3 & _ & _).
  rewrite freverse_total in B3.
  exists ers, (new2, total x). cbn [fst snd]. unfold er_total at 2. cbn [fst snd].
  pose proof (total_nonneg _ Nx).
  assert (Esum : sumZ (map er_total ers) = sumZ (map (fun er => posts_total (fst er)) ers) + sumZ (map snd ers)).
  { clear. induction ers as [|er ers IH]; [reflexivity|]. cbn [map]. rewrite !sumZ_cons, IH. unfold er_total. lia. }
  splits.
  - rewrite P2, P1, <- app_assoc. reflexivity.
  - clear - F1 NN1. induction F1; [constructor|]. inversion NN1; subst. constructor; [|apply IHF1; assumption].
    destruct H as (ms & mamt & A & B & C & D). exists ms, mamt. splits; assumption.
  - lia.
  - assumption.
  - lia.
Qed.

Lemma allot_go_shares : forall ve l parts f st lo st',
  allot_go ve l parts f st = SOk (lo, st') -> fnonneg f ->
  exists ers : list entry_result,
    s_posts st' = s_posts st ++ concat (map fst ers) /\
    map er_total ers = firstn (length l) parts /\
    Forall (fun er => 0 <= snd er) ers /\
    total lo = total f - sumZ (firstn (length l) parts) + sumZ (map snd ers) /\
    Forall2 (fun er pk => kod_no_kept (snd pk) = true -> kod_exact ve (snd pk) -> snd er = 0) ers l.
Proof.
  intros ve. induction l as [|[e k] l IH]; intros parts f st lo st' H Hf; cbn [allot_go] in H.
  - inversion H; subst. exists []. cbn [map concat length firstn]. rewrite app_nil_r, !sumZ_nil. splits; try constructor; lia.
  - fold (allot_go ve) in H. destruct parts as [|p ps]; [discriminate|].
    destruct (take f p) as [[res rem]|] eqn:Ht; [|discriminate].
    destruct (take_some _ _ _ _ Ht Hf) as (T0 & T1 & T2 & T3 & T4 & T5 & T6 & T7).
    sb H q Ek. destruct q as [x st1]. sb H f' Eas.
    destruct (entry_step _ _ _ _ _ _ _ _ _ (sem_kod_ok ve k) Hf T3 T4 T5 T6 T7 Ek Eas)
      as (N' & A' & Tf' & new1 & M1 & Tx & Z1).
    destruct M1 as (P1 & _ & _ & _ & _ & _).
    assert (Nx : 0 <= total x).
    { destruct (sem_kod_ok ve k _ _ _ _ Ek T3) as (nn & (_ & _ & _ & Nx & _) & _). apply total_nonneg; assumption. }
    destruct (IH _ _ _ _ _ H N') as (ers & P2 & S2 & NN2 & Tt2 & F2).
    exists ((new1, total x) :: ers). cbn [map concat fst snd length firstn]. rewrite !sumZ_cons. splits.
    + rewrite P2, P1, app_assoc. reflexivity.
    + rewrite S2. unfold er_total; cbn [fst snd]. f_equal. lia.
    + constructor; assumption.
    + lia.
    + constructor; [exact Z1 | assumption].
Qed.

(* destination shares: the entries of a portioned destination receive exactly [allocate a (total f)] *)
Theorem dest_allot_shares : forall ve l f st lo st',
  sem_dest ve (DAllot l) f st = SOk (lo, st') -> fnonneg f ->
  exists a (ers : list entry_result),
    make_allotment ve (map fst l) = SOk a /\
    s_posts st' = s_posts st ++ concat (map fst ers) /\
    map er_total ers = allocate a (total f) /\
    Forall (fun er => 0 <= snd er) ers /\
    total lo = total f - sumZ (allocate a (total f)) + sumZ (map snd ers) /\
    (allot_exact ve (map fst l) -> total lo = sumZ (map snd ers)) /\
    Forall2 (fun er pk => kod_no_kept (snd pk) = true -> kod_exact ve (snd pk) -> snd er = 0) ers l.
Proof.
  intros ve l f st lo st' H Hf. rewrite sem_dest_DAllot in H. sb H a Ea.
  destruct (allot_go_shares _ _ _ _ _ _ _ H Hf) as (ers & P & S & NN & Tt & F2).
  rewrite firstn_all2 in S, Tt by (rewrite allocate_length, (make_allotment_length _ _ _ Ea), map_length; lia).
  exists a, ers. splits; try assumption; try reflexivity.
  intro Hex. rewrite (make_allotment_exact _ _ _ _ Ea Hex) in Tt. lia.
Qed.

(* ------------------------------------------------------------------------------------------------ *)
(** * (e) order of sources *)

(* how the first n coins of a concatenation split over its members *)
Fixpoint contrib (n : nat) (Us : list (list account)) : list (list account) :=
  match Us with
  | [] => []
  | U :: r => firstn n U :: contrib (n - length U) r
  end.

Lemma contrib_concat : forall Us n, concat (contrib n Us) = firstn n (concat Us).
Proof.
  induction Us as [|U r IH]; intro n; cbn [contrib concat]; [rewrite firstn_nil; reflexivity|].
  rewrite firstn_app, IH. reflexivity.
Qed.
Lemma contrib_length : forall Us n, length (contrib n Us) = length Us.
Proof. induction Us; intro n; cbn [contrib length]; [reflexivity | rewrite IHUs; reflexivity]. Qed.

(* a later member contributes only if every earlier member contributed all it has *)
Lemma contrib_order : forall Us n i j, (i < j)%nat -> nth j (contrib n Us) [] <> [] ->
  nth i (contrib n Us) [] = nth i Us [].
Proof.
  induction Us as [|U r IH]; intros n i j Hij Hj; cbn [contrib] in *.
  - destruct j; contradiction Hj; reflexivity.
  - destruct j as [|j]; [lia|]. cbn [nth] in Hj. destruct i as [|i]; cbn [nth].
    + destruct (Nat.le_gt_cases (length U) n) as [Hle|Hgt]; [apply firstn_all2; assumption|].
      exfalso. apply Hj. replace (n - length U)%nat with 0%nat by lia.
      clear. revert j. induction r as [|V r IHr]; intro j; cbn [contrib]; [destruct j; reflexivity|].
      destruct j; [reflexivity|]. cbn [nth length]. apply IHr.
    + apply (IH _ i j); [lia | assumption].
Qed.

Lemma send_posts_prefix : forall ve m src d st st',
  sem_send ve m src d st = SOk st' ->
  exists f st1 new, send_funding ve m src st = SOk (f, st1) /\ s_posts st' = s_posts st ++ new /\ fnonneg f /\
    posts_nonneg new /\ posts_total new <= total f /\
    post_units new = firstn (Z.to_nat (posts_total new)) (funits f).
Proof.
  intros ve m src d st st' H.
  destruct (send_anatomy _ _ _ _ _ _ H) as (f & st1 & lo & st2 & new & E & Ed & Er & P & Nn & As & Nf & Nl & U & T & Z0).
  exists f, st1, new. pose proof (total_nonneg _ Nl). splits; try assumption; try lia.
  destruct (app_eq_firstn_skipn _ _ _ _ U) as [E1 _].
  rewrite <- (post_units_length _ Nn), Nat2Z.id. exact E1.
Qed.

(* (e) for `send [A n] (source = { s1 s2 ... })`: the coins the postings move are, in order, a prefix of
   (coins of s1) ++ (coins of s2) ++ ... ++ (coins of the fallback account); member i contributes
   [nth i (contrib ...)], and a later member (or the fallback) contributes only when every earlier one has
   given its whole funding, i.e. all it could provide in the state its predecessors left *)
Theorem send_order_stated : forall ve e srcs d st st',
  sem_send ve (SendMon e) (VSrc (SInOrder srcs)) d st = SOk st' ->
  exists new za ms n fs st0 f0,
    s_posts st' = s_posts st ++ new /\
    eval_monetary ve e = SOk (ms, n) /\
    src_seq ve za srcs st fs st0 /\ sem_source ve za (SInOrder srcs) st = SOk (f0, st0) /\
    let Us := map funits fs ++ [repeat (fb_account ve (fallback_of (SInOrder srcs))) (Z.to_nat (n - total f0))] in
    let c := contrib (Z.to_nat (posts_total new)) Us in
    post_units new = concat c /\
    (forall i j, (i < j)%nat -> nth j c [] <> [] -> nth i c [] = nth i Us []).
Proof.
  intros ve e srcs d st st' H.
  destruct (send_posts_prefix _ _ _ _ _ _ H) as (f & st1 & new & E & P & Nf & Nn & Le & Pre).
  unfold send_funding in E. sb E za Ez. sb E p Es. destruct p as [f0 st0].
  destruct (sem_source_ok ve _ _ _ _ _ Es) as [N0 P0].
  sb E q Em. destruct q as [ms n].
  destruct (take_from_spec _ _ _ _ _ _ _ _ E N0) as (T0 & T1 & T2 & T3 & T4 & T5 & T6).
  destruct (source_inorder_units _ _ _ _ _ _ Es) as (fs & Seq & Nfs & Uf0 & Tf0).
  exists new, za, ms, n, fs, st0, f0. cbn zeta.
  splits; try assumption; try reflexivity.
  - rewrite contrib_concat, concat_app, <- Uf0. cbn [concat]. rewrite app_nil_r, Pre, T6.
    set (FB := repeat _ _).
    assert (EF : firstn (Z.to_nat n) (funits f0) ++ FB = firstn (Z.to_nat n) (funits f0 ++ FB)).
    { rewrite firstn_app. f_equal. subst FB.
      destruct (Z_lt_le_dec (total f0) n) as [Hlt|Hge].
      - pose proof (funits_length f0 N0) as L0.
        rewrite firstn_all2; [reflexivity|]. rewrite repeat_length. lia.
      - replace (Z.to_nat (n - total f0)) with 0%nat by lia. cbn [repeat]. rewrite firstn_nil. reflexivity. }
    rewrite EF, firstn_firstn. f_equal. lia.
  - intros i j Hij Hj. eapply contrib_order; eassumption.
Qed.

(* (e) for `send [A *]`: the same without a fallback: the postings move a prefix of the members' coins *)
Theorem send_order_all : forall ve ae srcs d st st',
  sem_send ve (SendAll ae) (VSrc (SInOrder srcs)) d st = SOk st' ->
  exists new a fs st0,
    s_posts st' = s_posts st ++ new /\ eval_asset ve ae = SOk a /\ src_seq ve a srcs st fs st0 /\
    let Us := map funits fs in
    let c := contrib (Z.to_nat (posts_total new)) Us in
    post_units new = concat c /\
    (forall i j, (i < j)%nat -> nth j c [] <> [] -> nth i c [] = nth i Us []).
Proof.
  intros ve ae srcs d st st' H.
  destruct (send_posts_prefix _ _ _ _ _ _ H) as (f & st1 & new & E & P & Nf & Nn & Le & Pre).
  unfold send_funding in E. sb E a Ea.
  destruct (source_inorder_units _ _ _ _ _ _ E) as (fs & Seq & Nfs & Uf0 & Tf0).
  exists new, a, fs, st1. cbn zeta. splits; try assumption; try reflexivity.
  - rewrite contrib_concat, <- Uf0. exact Pre.
  - intros i j Hij Hj. eapply contrib_order; eassumption.
Qed.

(* `max` on a source clips to a prefix of the inner source's coins (then the fallback covers the rest) *)
Theorem source_maxed_units : forall ve za max src st f st1,
  sem_source ve za (SMaxed max src) st = SOk (f, st1) ->
  exists f0 st0 ms mamt, sem_source ve za src st = SOk (f0, st0) /\ eval_monetary ve max = SOk (ms, mamt) /\
    funits f = firstn (Z.to_nat mamt) (funits f0) ++
               match fallback_of src with
               | Some _ => repeat (fb_account ve (fallback_of src)) (Z.to_nat (mamt - total f0))
               | None => []
               end.
Proof.
  intros ve za m s st f st1 H. cbn [sem_source] in H.
  sb H p E. destruct p as [f0 st0]. destruct (sem_source_ok ve s _ _ _ _ E) as [N0 P0].
  sb H q Em. destruct q as [ms mamt]. exists f0, st0, ms, mamt.
  destruct (mamt <? 0) eqn:Hneg; [discriminate|]. apply Z.ltb_ge in Hneg.
  destruct (negb (N.eqb (f_asset f0) ms)) eqn:Has; [discriminate|].
  destruct (take_max f0 mamt) as [res rem] eqn:Htm.
  destruct (take_max_prefix _ _ _ _ Htm Hneg N0) as [Pr _].
  destruct (take_max_spec _ _ _ _ Htm Hneg N0) as (T1 & _).
  sb H st2 Er.
  destruct (fallback_of s) as [fbe|] eqn:Efb.
  - sb H a Ea.
    destruct (withdraw_always (s_bals st2) a ms _) as [[extra b]|] eqn:Ew; [|discriminate].
    sb H r Eas. inversion H; subst. apply withdraw_always_spec in Ew.
    destruct (capped_with_fallback _ _ _ _ _ _ _ _ N0 Hneg Htm Ew Eas) as (_ & _ & _ & C4).
    splits; try reflexivity. rewrite C4. unfold fb_account. rewrite Ea. reflexivity.
  - inversion H; subst. splits; try reflexivity. rewrite app_nil_r, Pr.
    pose proof (total_nonneg _ N0). destruct (Z_le_gt_dec mamt (total f0)).
    + rewrite Z.min_l by lia. reflexivity.
    + rewrite Z.min_r by lia. rewrite <- (funits_length f0 N0), Nat2Z.id, !firstn_all2; try reflexivity.
      rewrite <- (Nat2Z.id (length (funits f0))), (funits_length f0 N0). apply Z2Nat.inj_le; lia.
Qed.

(* ------------------------------------------------------------------------------------------------ *)
(** * (e) Sem refines Spec: flow *)

Lemma combine_split : forall (A B : Type) (b1 b2 : list B) (a : list A),
  combine a (b1 ++ b2) = combine a b1 ++ combine (skipn (length b1) a) b2.
Proof.
  induction b1 as [|y b1 IH]; intros b2 a; [rewrite combine_nil; reflexivity|].
  destruct a as [|x a]; [reflexivity|]. cbn [app combine length skipn]. rewrite IH. reflexivity.
Qed.
Lemma combine_app_l_exact : forall (A B : Type) (a1 a2 : list A) (b : list B), length a1 = length b ->
  combine (a1 ++ a2) b = combine a1 b.
Proof.
  intros A B a1 a2 b H. rewrite <- (app_nil_r b) at 1. rewrite combine_app_same by assumption.
  rewrite combine_nil, app_nil_r. reflexivity.
Qed.

Lemma move_pairs_app : forall l1 l2, move_pairs (l1 ++ l2) = move_pairs l1 ++ move_pairs l2.
Proof. intros; unfold move_pairs; apply flat_map_app. Qed.
Lemma dunits_app : forall l1 l2, dunits (l1 ++ l2) = dunits l1 ++ dunits l2.
Proof. intros; unfold dunits; apply flat_map_app. Qed.

Lemma skipn_repeat_app : forall (A : Type) (a : A) n k (l : list A), (k <= n)%nat ->
  skipn k (repeat a n ++ l) = repeat a (n - k) ++ l.
Proof.
  intros A a n k l H. rewrite skipn_app, repeat_length. replace (k - n)%nat with 0%nat by lia. cbn [skipn]. f_equal.
  revert k H. induction n; intros k H; [destruct k; [reflexivity|lia]|].
  destruct k; [reflexivity|]. cbn [repeat skipn Nat.sub]. apply IHn. lia.
Qed.

(* filling one demand takes the first [need] coins *)
Lemma fill_spec : forall ps dst need ms r, fill ps dst need = (ms, r) -> nonneg_parts ps ->
  move_pairs ms = combine (units ps) (repeat dst (Z.to_nat need)) /\
  units r = skipn (Z.to_nat need) (units ps) /\ nonneg_parts r.
Proof.
  induction ps as [|[a amt] rest IH]; intros dst need ms r H Hnn; cbn [fill] in H.
  - inversion H; subst. splits; [reflexivity | rewrite skipn_nil; reflexivity | constructor].
  - apply nonneg_parts_cons in Hnn. destruct Hnn as [Ha Hrest]. cbn [snd] in Ha.
    destruct (need <=? 0) eqn:E0.
    + apply Z.leb_le in E0. inversion H; subst. replace (Z.to_nat need) with 0%nat by lia.
      cbn [repeat skipn]. rewrite combine_nil. splits; try reflexivity. apply nonneg_parts_cons; split; assumption.
    + apply Z.leb_gt in E0. destruct (need <? amt) eqn:E1.
      * apply Z.ltb_lt in E1. inversion H; subst. rewrite !units_cons. cbn [fst snd]. splits.
        -- unfold move_pairs; cbn [flat_map fst snd]. rewrite app_nil_r.
           replace amt with (need + (amt - need)) at 1 by lia. rewrite repeat_add_Z by lia.
           rewrite <- app_assoc. rewrite <- (app_nil_r (repeat dst (Z.to_nat need))) at 1.
           rewrite combine_app_same by (rewrite !repeat_length; reflexivity).
           rewrite combine_repeat, combine_nil, app_nil_r. reflexivity.
        -- rewrite skipn_repeat_app by lia. f_equal. f_equal. lia.
        -- apply nonneg_parts_cons; cbn [snd]; split; [lia | assumption].
      * apply Z.ltb_ge in E1. destruct (fill rest dst (need - amt)) as [ms' r'] eqn:Er. inversion H; subst.
        destruct (IH _ _ _ _ Er Hrest) as (I1 & I2 & I3). rewrite !units_cons. cbn [fst snd]. splits.
        -- unfold move_pairs in *; cbn [flat_map fst snd]. rewrite I1.
           replace need with (amt + (need - amt)) at 2 by lia. rewrite repeat_add_Z by lia.
           rewrite combine_app_same by (rewrite !repeat_length; reflexivity). rewrite combine_repeat. reflexivity.
        -- rewrite I2. rewrite skipn_app.
           rewrite (skipn_all2 (repeat a (Z.to_nat amt))) by (rewrite repeat_length; lia).
           rewrite repeat_length. cbn [app]. f_equal. lia.
        -- assumption.
Qed.

(* flow pairs the coins of the parts with the coins of the demands, position by position *)
Theorem flow_pairs : forall ds ps, nonneg_parts ps -> move_pairs (flow ps ds) = combine (units ps) (dunits ds).
Proof.
  induction ds as [|[dst need] r IH]; intros ps Hnn; cbn [flow].
  - cbn. rewrite combine_nil. reflexivity.
  - destruct (fill ps dst need) as [ms ps'] eqn:Ef. destruct (fill_spec _ _ _ _ _ Ef Hnn) as (F1 & F2 & F3).
    rewrite move_pairs_app, F1, (IH _ F3), F2. unfold dunits at 2. cbn [flat_map fst snd]. fold (dunits r).
    rewrite combine_split, repeat_length. reflexivity.
Qed.

(* the loops of [demands] under names *)
Definition dem_inorder_go (ve : venv) :=
  fix go (l : list (expr * kod)) (R : Z) : sres (list demand * Z * Z) :=
    match l with
    | [] => SOk ([], 0, R)
    | (amt_e, k) :: rest =>
        sdo '(_, m) <- eval_monetary ve amt_e;
        sdo '(ds1, kp1) <- kod_demands ve k (Z.min m R);
        sdo '(ds2, kp2, R') <- go rest (R - Z.min m R);
        SOk (ds1 ++ ds2, kp1 + kp2, R')
    end.
Definition dem_allot_go (ve : venv) :=
  fix go (l : list (aportion * kod)) (shares : list Z) : sres (list demand * Z) :=
    match l, shares with
    | [], _ => SOk ([], 0)
    | (_, k) :: rest, s :: ss =>
        sdo '(ds1, kp1) <- kod_demands ve k s;
        sdo '(ds2, kp2) <- go rest ss;
        SOk (ds1 ++ ds2, kp1 + kp2)
    | _ :: _, [] => SErr EInvalidScript
    end.
Lemma demands_DInOrder : forall ve l rem_k T,
  demands ve (DInOrder l rem_k) T =
  (sdo '(ds, kp, R) <- dem_inorder_go ve l T; sdo '(ds2, kp2) <- kod_demands ve rem_k R; SOk (ds ++ ds2, kp + kp2)).
Proof. reflexivity. Qed.
Lemma demands_DAllot : forall ve l T,
  demands ve (DAllot l) T =
  (sdo a <- make_allotment ve (map fst l);
   sdo '(ds, kp) <- dem_allot_go ve l (allocate a T); SOk (ds, kp + (T - sumZ (allocate a T)))).
Proof. reflexivity. Qed.

Definition dest_dem_ok (ve : venv) (d : dest) : Prop :=
  forall f st lo st', sem_dest ve d f st = SOk (lo, st') -> fnonneg f ->
  exists new ds kp, s_posts st' = s_posts st ++ new /\ demands ve d (total f) = SOk (ds, kp) /\
                    post_dunits new = dunits ds /\ total lo = kp.
Definition kod_dem_ok (ve : venv) (k : kod) : Prop :=
  forall f st lo st', sem_kod ve k f st = SOk (lo, st') -> fnonneg f ->
  exists new ds kp, s_posts st' = s_posts st ++ new /\ kod_demands ve k (total f) = SOk (ds, kp) /\
                    post_dunits new = dunits ds /\ total lo = kp.

(* once the entries have been offered more than is left, the deficit only grows: the final Take must fail *)
Lemma inorder_go_deficit : forall ve l f acc st f1 kt st1,
  inorder_go ve l f acc st = SOk (f1, kt, st1) -> fnonneg f -> total f1 - kt <= total f - acc.
Proof.
  intros ve. induction l as [|[e k] l IH]; intros f acc st f1 kt st1 H Hf; cbn [inorder_go] in H.
  - inversion H; subst. lia.
  - fold (inorder_go ve) in H.
    sb H q Em. destruct q as [ms mamt].
    destruct (mamt <? 0) eqn:Hneg; [discriminate|]. apply Z.ltb_ge in Hneg.
    destruct (negb (N.eqb (f_asset f) ms)) eqn:Has; [discriminate|].
    destruct (take_max f mamt) as [res rem] eqn:Htm.
    destruct (take_max_spec _ _ _ _ Htm Hneg Hf) as (T1 & T2 & T3 & T4 & T5 & T6 & T7).
    sb H p Ek. destruct p as [x st']. sb H f' Eas.
    destruct (entry_step _ _ _ _ _ _ _ _ _ (sem_kod_ok ve k) Hf T3 T4 T5 T6 T7 Ek Eas) as (N' & _ & Tf' & _).
    specialize (IH _ _ _ _ _ _ H N'). pose proof (total_nonneg _ Hf). lia.
Qed.

Lemma inorder_go_dem : forall ve l, Forall (fun ek => kod_dem_ok ve (snd ek)) l ->
  forall f acc st f1 kt st1, inorder_go ve l f acc st = SOk (f1, kt, st1) -> fnonneg f ->
  0 <= acc -> kt <= total f1 ->
  exists new ds kp, s_posts st1 = s_posts st ++ new /\
    dem_inorder_go ve l (total f - acc) = SOk (ds, kp, total f1 - kt) /\
    post_dunits new = dunits ds /\ kt = acc + kp.
Proof.
  intros ve l HF. induction HF as [|[e k] l Hk HF IH]; intros f acc st f1 kt st1 H Hf Hacc Hfin; cbn [inorder_go] in H.
  - inversion H; subst. exists [], [], 0. cbn [dem_inorder_go]. rewrite app_nil_r. splits; try reflexivity; lia.
  - fold (inorder_go ve) in H. cbn [snd] in Hk.
    sb H q Em. destruct q as [ms mamt].
    destruct (mamt <? 0) eqn:Hneg; [discriminate|]. apply Z.ltb_ge in Hneg.
    destruct (negb (N.eqb (f_asset f) ms)) eqn:Has; [discriminate|].
    destruct (take_max f mamt) as [res rem] eqn:Htm.
    destruct (take_max_spec _ _ _ _ Htm Hneg Hf) as (T1 & T2 & T3 & T4 & T5 & T6 & T7).
    sb H p Ek. destruct p as [x st']. sb H f' Eas.
    destruct (entry_step _ _ _ _ _ _ _ _ _ (sem_kod_ok ve k) Hf T3 T4 T5 T6 T7 Ek Eas) as (N' & _ & Tf' & new0 & M0 & _).
    assert (Nx : 0 <= total x).
    { destruct (sem_kod_ok ve k _ _ _ _ Ek T3) as (nn & (_ & _ & _ & Nx & _) & _). apply total_nonneg; assumption. }
    pose proof (inorder_go_deficit _ _ _ _ _ _ _ _ H N') as Def.
    pose proof (total_nonneg _ Hf) as Htf.
    destruct (Hk _ _ _ _ Ek T3) as (new1 & ds1 & kp1 & P1 & D1 & U1 & K1).
    destruct (IH _ _ _ _ _ _ H N' ltac:(lia) Hfin) as (new2 & ds2 & kp2 & P2 & D2 & U2 & K2).
    exists (new1 ++ new2), (ds1 ++ ds2), (kp1 + kp2).
    splits.
    + rewrite P2, P1, app_assoc. reflexivity.
    + cbn [dem_inorder_go]. fold (dem_inorder_go ve). rewrite Em. cbn [sbind].
      assert (Emin : Z.min mamt (total f - acc) = total res) by lia.
      rewrite Emin, D1. cbn [sbind].
      replace (total f - acc - total res) with (total f' - (acc + total x)) by lia.
      rewrite D2. cbn [sbind]. reflexivity.
    + rewrite post_dunits_app, dunits_app, U1, U2. reflexivity.
    + lia.
Qed.

Lemma allot_go_dem : forall ve l, Forall (fun pk => kod_dem_ok ve (snd pk)) l ->
  forall parts f st lo st', allot_go ve l parts f st = SOk (lo, st') -> fnonneg f ->
  exists new ds kp, s_posts st' = s_posts st ++ new /\
    dem_allot_go ve l parts = SOk (ds, kp) /\
    post_dunits new = dunits ds /\ total lo = total f - sumZ (firstn (length l) parts) + kp.
Proof.
  intros ve l HF. induction HF as [|[e k] l Hk HF IH]; intros parts f st lo st' H Hf; cbn [allot_go] in H.
  - inversion H; subst. exists [], [], 0. cbn [dem_allot_go length firstn]. rewrite app_nil_r, sumZ_nil.
    splits; try reflexivity; lia.
  - fold (allot_go ve) in H. cbn [snd] in Hk. destruct parts as [|p ps]; [discriminate|].
    destruct (take f p) as [[res rem]|] eqn:Ht; [|discriminate].
    destruct (take_some _ _ _ _ Ht Hf) as (T0 & T1 & T2 & T3 & T4 & T5 & T6 & T7).
    sb H q Ek. destruct q as [x st1]. sb H f' Eas.
    destruct (entry_step _ _ _ _ _ _ _ _ _ (sem_kod_ok ve k) Hf T3 T4 T5 T6 T7 Ek Eas) as (N' & _ & Tf' & _).
    destruct (Hk _ _ _ _ Ek T3) as (new1 & ds1 & kp1 & P1 & D1 & U1 & K1).
    destruct (IH _ _ _ _ _ H N') as (new2 & ds2 & kp2 & P2 & D2 & U2 & K2).
    exists (new1 ++ new2), (ds1 ++ ds2), (kp1 + kp2). splits.
    + rewrite P2, P1, app_assoc. reflexivity.
    + cbn [dem_allot_go]. fold (dem_allot_go ve). rewrite <- T1, D1. cbn [sbind]. rewrite D2. reflexivity.
    + rewrite post_dunits_app, dunits_app, U1, U2. reflexivity.
    + cbn [length firstn]. rewrite sumZ_cons. lia.
Qed.

Theorem sem_dest_dem_ok : forall ve d, dest_dem_ok ve d.
Proof.
  intro ve. apply (dest_ind2 (dest_dem_ok ve) (kod_dem_ok ve)).
  - (* account *)
    intros e f st lo st' H Hf. cbn [sem_dest] in H.
    destruct (take f (total f)) as [[res rem]|] eqn:Ht; [|discriminate].
    sb H a Ea. inversion H; subst.
    destruct (take_some _ _ _ _ Ht Hf) as (T0 & T1 & T2 & T3 & T4 & T5 & T6 & T7).
    exists (mk_posts a res), [(a, total f)], 0. cbn [demands]. rewrite Ea. cbn [sbind]. splits.
    + apply do_send_posts.
    + reflexivity.
    + rewrite mk_posts_dunits by assumption. unfold dunits; cbn [flat_map fst snd]. rewrite app_nil_r, T1. reflexivity.
    + lia.
  - (* in order *)
    intros l k HF Hk f st lo st' H Hf. rewrite sem_dest_DInOrder in H.
    sb H p E. destruct p as [[f1 kt] st1].
    assert (HFok : Forall (fun ek : expr * kod => kod_ok ve (snd ek)) l)
      by (apply Forall_forall; intros; apply sem_kod_ok).
    destruct (inorder_go_ok _ _ HFok _ _ _ _ _ _ E Hf) as (new0 & (_ & _ & _ & N1 & _ & _) & _).
    destruct (take (freverse f1) kt) as [[res rem]|] eqn:Ht; [|discriminate].
    destruct (take_some _ _ _ _ Ht (freverse_nonneg _ N1)) as (T0 & T1 & T2 & T3 & T4 & T5 & T6 & T7).
    rewrite freverse_total in T2. pose proof (total_nonneg _ T4) as Hrem.
    destruct (inorder_go_dem _ _ HF _ _ _ _ _ _ E Hf ltac:(lia) ltac:(lia)) as (new1 & ds1 & kp1 & P1 & D1 & U1 & K1).
    sb H q Ek. destruct q as [x st2]. sb H r Eas. inversion H; subst.
    destruct (Hk _ _ _ _ Ek (freverse_nonneg _ T4)) as (new2 & ds2 & kp2 & P2 & D2 & U2 & K2).
    rewrite freverse_total in D2.
    destruct (sem_kod_ok ve k _ _ _ _ Ek (freverse_nonneg _ T4)) as (nn & (_ & _ & _ & Nx & _ & _) & _).
    destruct (assemble_two_spec _ _ _ Eas Nx (freverse_nonneg _ T3)) as (_ & _ & B3 & _ & _).
    rewrite freverse_total in B3.
    exists (new1 ++ new2), (ds1 ++ ds2), (kp1 + kp2). splits.
    + rewrite P2, P1, app_assoc. reflexivity.
    + rewrite demands_DInOrder. rewrite Z.sub_0_r in D1. rewrite D1. cbn [sbind].
      rewrite <- T2, D2. reflexivity.
    + rewrite post_dunits_app, dunits_app, U1, U2. reflexivity.
    + lia.
  - (* allotment *)
    intros l HF f st lo st' H Hf. rewrite sem_dest_DAllot in H. sb H a Ea.
    destruct (allot_go_dem _ _ HF _ _ _ _ _ H Hf) as (new & ds & kp & P & D & U & K).
    rewrite firstn_all2 in K by (rewrite allocate_length, (make_allotment_length _ _ _ Ea), map_length; lia).
    exists new, ds, (kp + (total f - sumZ (allocate a (total f)))). splits; try assumption.
    + rewrite demands_DAllot, Ea. cbn [sbind]. rewrite D. reflexivity.
    + lia.
  - (* kept *)
    intros f st lo st' H Hf. cbn [sem_kod] in H. inversion H; subst.
    exists [], [], (total lo). rewrite app_nil_r. splits; reflexivity.
  - (* to d *)
    intros d Hd f st lo st' H Hf. cbn [sem_kod] in H. exact (Hd _ _ _ _ H Hf).
Qed.

(* (e), destinations: a destination that succeeds sends exactly [flow] of the funding it was given over the
   demands the specification computes -- coin by coin (who pays whom, in which order) -- and returns the
   specified kept amount. With `kept`, nested to any depth. *)
Theorem sem_dest_refines_spec : forall ve d f st lo st',
  sem_dest ve d f st = SOk (lo, st') -> fnonneg f ->
  exists new ds kp,
    s_posts st' = s_posts st ++ new /\
    demands ve d (total f) = SOk (ds, kp) /\
    total lo = kp /\
    post_pairs new = move_pairs (flow (f_parts f) ds) /\
    funits lo = skipn (Z.to_nat (total f - kp)) (funits f).
Proof.
  intros ve d f st lo st' H Hf.
  destruct (sem_dest_dem_ok ve d _ _ _ _ H Hf) as (new & ds & kp & P & D & U & K).
  destruct (sem_dest_ok ve d _ _ _ _ H Hf) as (new' & M & _).
  pose proof (moved_total _ _ _ _ _ _ M Hf) as Tot.
  destruct M as (P' & Nn & _ & Nl & _ & M6).
  assert (new' = new) by (rewrite P in P'; apply app_inv_head in P'; congruence). subst new'.
  exists new, ds, kp. splits; try assumption.
  - rewrite post_pairs_combine, (flow_pairs _ _ Hf), <- U. fold (funits f). rewrite <- M6.
    rewrite combine_app_l_exact by (symmetry; apply post_dunits_length). reflexivity.
  - destruct (app_eq_firstn_skipn _ _ _ _ M6) as [_ E2]. rewrite E2. f_equal.
    rewrite <- (Nat2Z.id (length (post_units new))), (post_units_length _ Nn). f_equal. lia.
Qed.

(* (e) for a whole send, relative to the funding the sources hand over *)
Theorem send_refines_spec : forall ve m src d st st',
  sem_send ve m src d st = SOk st' ->
  exists f st1 new mvs,
    send_funding ve m src st = SOk (f, st1) /\ fnonneg f /\
    s_posts st' = s_posts st ++ new /\
    spec_moves ve d (f_parts f) = SOk mvs /\
    post_pairs new = move_pairs mvs.
Proof.
  intros ve m src d st st' H. rewrite sem_send_eq in H.
  sb H p E. destruct p as [f st1]. sb H q Ed. destruct q as [lo st2].
  destruct (send_funding_ok _ _ _ _ _ _ E) as [Nf Pf].
  destruct (sem_dest_refines_spec _ _ _ _ _ _ Ed Nf) as (new & ds & kp & P & D & K & PP & _).
  exists f, st1, new, (flow (f_parts f) ds). splits; try assumption; try reflexivity.
  - rewrite (do_repay_posts _ _ _ H), P, Pf. reflexivity.
  - unfold spec_moves. fold (total f). rewrite D. reflexivity.
Qed.

(* ------------------------------------------------------------------------------------------------ *)
(** * (e) Sem refines Spec: sources *)

Lemma clip_take_loop : forall ps m t r mm, take_loop m ps = (t, r, mm) -> clip m ps = (t, r).
Proof.
  induction ps as [|[a x] rest IH]; intros m t r mm H; cbn [take_loop clip] in *.
  - inversion H; reflexivity.
  - destruct (0 <? m) eqn:E.
    + apply Z.ltb_lt in E. destruct (m <=? 0) eqn:E2; [apply Z.leb_le in E2; lia|].
      destruct (m <? x); [inversion H; reflexivity|].
      destruct (take_loop (m - x) rest) as [[t' r'] m'] eqn:Er. inversion H; subst.
      rewrite (IH _ _ _ _ Er). reflexivity.
    + apply Z.ltb_ge in E. destruct (m <=? 0) eqn:E2; [|apply Z.leb_gt in E2; lia]. inversion H; reflexivity.
Qed.
Lemma clip_take_max : forall f m res rem, take_max f m = (res, rem) ->
  clip m (f_parts f) = (f_parts res, f_parts rem) /\ f_asset res = f_asset f /\ f_asset rem = f_asset f.
Proof.
  intros f m res rem H. unfold take_max in H. destruct (take_loop m (f_parts f)) as [[t r] mm] eqn:E.
  inversion H; subst. cbn [f_parts f_asset]. splits; try reflexivity. eapply clip_take_loop; eassumption.
Qed.

Lemma give_back_repay : forall g b s b', repay b s g = Some b' -> give_back b s g = b'.
Proof.
  induction g as [|[a amt] r IH]; intros b s b' H; cbn [repay] in H.
  - inversion H; reflexivity.
  - unfold give_back. cbn [fold_left fst snd]. fold (give_back (if N.eqb a world then b else
        bal_set b a s (match bal_get b a s with Some z => z | None => 0 end + amt)) s r).
    destruct (N.eqb a world); [apply IH; assumption|].
    destruct (bal_has_account b a); [apply IH; assumption | discriminate].
Qed.
Lemma do_repay_give_back : forall st f st', do_repay st f = SOk st' ->
  s_bals st' = give_back (s_bals st) (f_asset f) (f_parts f).
Proof.
  intros st f st' H. unfold do_repay in H. destruct (repay (s_bals st) (f_asset f) (f_parts f)) as [b|] eqn:E; [|discriminate].
  inversion H; subst. cbn [with_bals s_bals]. symmetry. apply give_back_repay; assumption.
Qed.

Lemma bal_set_same : forall b a s z, bal_get b a s = Some z -> bal_set b a s z = b.
Proof.
  induction b as [|[[a' s'] z'] r IH]; intros a s z H; cbn [bal_get bal_set] in *; [discriminate|].
  destruct (N.eqb a a' && N.eqb s s') eqn:E.
  - inversion H; subst. apply andb_true_iff in E. destruct E as [E1 E2]. apply N.eqb_eq in E1, E2. subst. reflexivity.
  - rewrite (IH _ _ _ H). reflexivity.
Qed.

Lemma assemble_two_parts : forall x y r, assemble [x; y] = SOk r -> f_parts r = concat_parts (f_parts x) (f_parts y).
Proof.
  intros x y r H. unfold assemble in H. cbn [rev app] in H.
  destruct (forallb (fun f => N.eqb (f_asset f) (f_asset y)) [x; y]); [|discriminate]. inversion H; reflexivity.
Qed.

(* the fallback tail of Sem is [cover] *)
Lemma sem_cover : forall ve fbe st2 ms tot amt res r st',
  (sdo a <- eval_account ve fbe;
   match withdraw_always (s_bals st2) a ms (if tot <? amt then amt - tot else 0) with
   | None => SErr EInvalidScript
   | Some (extra, b) => sdo r <- assemble [res; extra]; SOk (r, with_bals st2 b)
   end) = SOk (r, st') ->
  cover ve (Some fbe) (s_bals st2) ms tot amt (f_parts res) = SOk (f_parts r, s_bals st').
Proof.
  intros ve fbe st2 ms tot amt res r st' H. unfold cover. sb H a Ea. cbn [sbind].
  unfold withdraw_always in H. destruct (bal_get (s_bals st2) a ms) as [bal|]; [|discriminate].
  sb H r' Eas. inversion H; subst. cbn [with_bals s_bals].
  rewrite (assemble_two_parts _ _ _ Eas). cbn [f_parts].
  assert (Em : (if tot <? amt then amt - tot else 0) = Z.max 0 (amt - tot)).
  { destruct (tot <? amt) eqn:E; [apply Z.ltb_lt in E | apply Z.ltb_ge in E]; lia. }
  rewrite Em. reflexivity.
Qed.

Definition sp_go (ve : venv) (za : asset) :=
  fix go (l : list source) (acc : list part) (b : balances) : sres (list part * balances) :=
    match l with
    | [] => SOk (acc, b)
    | s1 :: rest => sdo '(ps, b1) <- source_parts ve za s1 b; go rest (concat_parts acc ps) b1
    end.
Lemma source_parts_SInOrder : forall ve za srcs b, source_parts ve za (SInOrder srcs) b = sp_go ve za srcs [] b.
Proof. reflexivity. Qed.

Definition source_parts_ok (ve : venv) (s : source) : Prop :=
  forall za st f st1, sem_source ve za s st = SOk (f, st1) ->
  source_parts ve za s (s_bals st) = SOk (f_parts f, s_bals st1).

Lemma sp_go_ok : forall ve za l, Forall (source_parts_ok ve) l ->
  forall st fs st1 acc, src_go ve za l st = SOk (fs, st1) ->
  sp_go ve za l acc (s_bals st) = SOk (concat_all fs acc, s_bals st1).
Proof.
  intros ve za l HF. induction HF as [|s l Hs HF IH]; intros st fs st1 acc H; cbn [src_go] in H.
  - inversion H; subst. reflexivity.
  - fold (src_go ve za) in H. sb H p E. destruct p as [f st']. sb H q E2. destruct q as [fs' st2]. inversion H; subst.
    cbn [sp_go]. fold (sp_go ve za). rewrite (Hs _ _ _ _ E). cbn [sbind].
    rewrite (IH _ _ _ _ E2). reflexivity.
Qed.

(* every source computes exactly the parts and the balance table the specification gives *)
Theorem sem_source_parts : forall ve s, source_parts_ok ve s.
Proof.
  intro ve. apply source_ind2.
  - intros acc ov za st f st1 H. cbn [sem_source] in H. cbn [source_parts].
    sb H a Ea. sb H p Eo. destruct p as [oa oamt]. cbn [sbind].
    unfold withdraw_all in H. destruct (bal_get (s_bals st) a oa) as [bal|] eqn:Eb; [|discriminate].
    destruct (0 <? bal + oamt) eqn:E0; inversion H; subst; cbn [f_parts with_bals s_bals].
    + apply Z.ltb_lt in E0. rewrite Z.max_r by lia. do 3 f_equal. lia.
    + apply Z.ltb_ge in E0. rewrite Z.max_l by lia. rewrite Z.sub_0_r, (bal_set_same _ _ _ _ Eb). reflexivity.
  - intros m s IH za st f st1 H. cbn [sem_source] in H. cbn [source_parts].
    sb H p E. destruct p as [f0 st0]. rewrite (IH _ _ _ _ E). cbn [sbind].
    sb H q Em. destruct q as [ms mamt]. cbn [sbind].
    destruct (mamt <? 0) eqn:Hneg; [discriminate|].
    destruct (negb (N.eqb (f_asset f0) ms)) eqn:Has; [discriminate|]. apply negb_false_iff, N.eqb_eq in Has.
    destruct (take_max f0 mamt) as [res rem] eqn:Htm.
    destruct (clip_take_max _ _ _ _ Htm) as (C & A1 & A2). rewrite C.
    sb H st2 Er. pose proof (do_repay_give_back _ _ _ Er) as G. rewrite A2, Has in G. rewrite <- G.
    destruct (fallback_of s) as [fbe|].
    + fold (total f0). apply sem_cover. exact H.
    + inversion H; subst. reflexivity.
  - intros l HF za st f st1 H. rewrite sem_source_SInOrder in H. rewrite source_parts_SInOrder.
    sb H p E. destruct p as [fs st']. sb H r Eas. inversion H; subst.
    rewrite (sp_go_ok _ _ _ HF _ _ _ [] E). f_equal. f_equal.
    unfold assemble in Eas. destruct (rev fs); [discriminate|].
    destruct (forallb _ fs); [|discriminate]. inversion Eas; reflexivity.
Qed.

(* TakeFromSource computes [taken_parts], up to zero-amount parts (Take(0) prepends a zero part, which
   carries no coin); the balance tables agree exactly *)
Lemma taken_parts_ok : forall ve s za ms n st f0 st0 r st1,
  sem_source ve za s st = SOk (f0, st0) -> take_from ve (fallback_of s) st0 f0 ms n = SOk (r, st1) ->
  exists ps, taken_parts ve s za ms n (s_bals st) = SOk (ps, s_bals st1) /\
             nonneg_parts ps /\ units ps = funits r.
Proof.
  intros ve s za ms n st f0 st0 r st1 E H.
  destruct (sem_source_ok ve s _ _ _ _ E) as [N0 _].
  destruct (take_from_spec _ _ _ _ _ _ _ _ H N0) as (_ & Nr & _).
  unfold taken_parts. rewrite (sem_source_parts ve s _ _ _ _ E). cbn [sbind]. unfold take_from in H.
  destruct (fallback_of s) as [fbe|].
  - destruct (n <? 0) eqn:Hneg; [discriminate|].
    destruct (negb (N.eqb (f_asset f0) ms)) eqn:Has; [discriminate|]. apply negb_false_iff, N.eqb_eq in Has.
    destruct (take_max f0 n) as [res rem] eqn:Htm.
    destruct (clip_take_max _ _ _ _ Htm) as (C & A1 & A2). rewrite C.
    sb H st2 Er. pose proof (do_repay_give_back _ _ _ Er) as G. rewrite A2, Has in G. rewrite <- G.
    fold (total f0). rewrite (sem_cover _ _ _ _ _ _ _ _ _ H).
    exists (f_parts r). splits; try reflexivity. exact Nr.
  - destruct (negb (N.eqb (f_asset f0) ms)) eqn:Has; [discriminate|]. apply negb_false_iff, N.eqb_eq in Has.
    destruct (take f0 n) as [[res rem]|] eqn:Ht; [|discriminate].
    sb H st2 Er. inversion H; subst.
    pose proof (do_repay_give_back _ _ _ Er) as G.
    unfold take in Ht. destruct (take_loop n (f_parts f0)) as [[t r'] mm] eqn:El.
    destruct (mm =? 0) eqn:Emm; [|discriminate]. apply Z.eqb_eq in Emm. subst mm.
    rewrite (clip_take_loop _ _ _ _ _ El). unfold cover.
    assert (Hn : 0 <= n).
    { destruct (Z_lt_le_dec n 0) as [Hneg|]; [|assumption].
      rewrite take_loop_nonpos in El by lia. inversion El; lia. }
    destruct (take_loop_spec _ _ _ _ _ El Hn N0) as (I1 & I2 & I3 & I4 & I5 & I6).
    inversion Ht; subst. cbn [f_parts f_asset] in G. rewrite G.
    exists t. unfold funits. cbn [f_parts].
    set (zp := match f_parts f0 with (a, _) :: _ => if n =? 0 then [(a, n)] else [] | [] => [] end).
    assert (Z2 : units zp = []).
    { subst zp. destruct (f_parts f0) as [|[a x] l]; [reflexivity|].
      destruct (n =? 0) eqn:E0; [|reflexivity]. apply Z.eqb_eq in E0. subst n. reflexivity. }
    rewrite units_app, Z2. splits; try reflexivity; assumption.
Qed.

Definition sa_go (ve : venv) (za ms : asset) :=
  fix go (l : list (aportion * source)) (shares : list Z) (acc : list part) (b : balances) : sres (list part) :=
    match l, shares with
    | [], _ => SOk acc
    | (_, s) :: rest, p :: ps =>
        sdo '(x, b1) <- taken_parts ve s za ms p b;
        go rest ps (concat_parts acc x) b1
    | _ :: _, [] => SErr EInvalidScript
    end.

Lemma sa_go_ok : forall ve za ms l shares st fs st1,
  srcallot_go ve za ms l shares st = SOk (fs, st1) ->
  forall acc, nonneg_parts acc ->
  exists ps, sa_go ve za ms l shares acc (s_bals st) = SOk ps /\ nonneg_parts ps /\
             units ps = units acc ++ concat (map funits fs).
Proof.
  intros ve za ms. induction l as [|[p s] l IH]; intros shares st fs st1 H acc Hacc; cbn [srcallot_go] in H.
  - inversion H; subst. exists acc. cbn [sa_go map concat]. rewrite app_nil_r. splits; try reflexivity; assumption.
  - fold (srcallot_go ve za ms) in H. destruct shares as [|x ps]; [discriminate|].
    sb H q E. destruct q as [f0 st0]. sb H q2 Et. destruct q2 as [r st2]. sb H q3 Er. destruct q3 as [rs st3].
    inversion H; subst.
    destruct (taken_parts_ok _ _ _ _ _ _ _ _ _ _ E Et) as (xp & TP & Nx & Ux).
    destruct (IH _ _ _ _ Er (concat_parts acc xp) (concat_parts_nonneg _ _ Hacc Nx)) as (ps' & G & Np & Up).
    exists ps'. cbn [sa_go]. fold (sa_go ve za ms). rewrite TP. cbn [sbind]. rewrite G.
    splits; try reflexivity; try assumption.
    rewrite Up, concat_parts_units by assumption. cbn [map concat]. rewrite Ux, app_assoc. reflexivity.
Qed.

(* what the sources hand to the destination is what the specification says (as coins) *)
Lemma send_funding_parts : forall ve m src st f st1,
  send_funding ve m src st = SOk (f, st1) ->
  exists ps, send_parts ve m src (s_bals st) = SOk ps /\ nonneg_parts ps /\ units ps = funits f /\
             total_parts ps = total f.
Proof.
  intros ve m src st f st1 H. pose proof (send_funding_ok _ _ _ _ _ _ H) as [Nf _].
  assert (Tot : forall ps, nonneg_parts ps -> units ps = funits f -> total_parts ps = total f).
  { intros ps Np Up. rewrite <- (units_length ps Np), <- (funits_length f Nf), Up. reflexivity. }
  unfold send_funding in H. unfold send_parts. destruct m as [e|ae], src as [s|l]; try discriminate.
  - sb H za Ez. cbn [sbind]. sb H p E. destruct p as [f0 st0].
    sb H q Em. destruct q as [ms n]. cbn [sbind].
    destruct (taken_parts_ok _ _ _ _ _ _ _ _ _ _ E H) as (ps & TP & Np & Up).
    rewrite TP. cbn [sbind]. exists ps. splits; try reflexivity; try assumption. apply Tot; assumption.
  - sb H za Ez. cbn [sbind]. sb H q Em. destruct q as [ms n]. cbn [sbind]. sb H a Ea. cbn [sbind].
    sb H p E. destruct p as [fs st']. sb H r Eas. inversion H; subst.
    destruct (sa_go_ok _ _ _ _ _ _ _ _ E [] nonneg_parts_nil) as (ps & G & Np & Up).
    fold (sa_go ve za ms). rewrite G. exists ps.
    destruct (srcallot_go_ok _ _ _ _ _ _ _ _ E) as (I1 & _).
    destruct (assemble_spec _ _ Eas) as (_ & _ & _ & U). destruct (U I1) as [_ U2].
    assert (Ups : units ps = funits f) by (rewrite Up, U2; reflexivity).
    splits; try reflexivity; try assumption. apply Tot; assumption.
  - sb H a Ea. cbn [sbind]. rewrite (sem_source_parts ve s _ _ _ _ H). cbn [sbind].
    exists (f_parts f). splits; try reflexivity. exact Nf.
Qed.

(* (e) THE REFINEMENT: a send that succeeds moves exactly the coins the specification says -- the k-th coin
   moved is the k-th coin the sources provide (computed from the AST and the balance table alone) and goes to
   the k-th coin demanded by the destination (computed from the AST and the amount alone). Every source and
   destination shape, `kept` included. *)
Theorem send_refines_spec_send : forall ve m src d st st',
  sem_send ve m src d st = SOk st' ->
  exists new mvs,
    s_posts st' = s_posts st ++ new /\
    spec_send ve m src d (s_bals st) = SOk mvs /\
    post_pairs new = move_pairs mvs.
Proof.
  intros ve m src d st st' H.
  destruct (send_refines_spec _ _ _ _ _ _ H) as (f & st1 & new & mvs & E & Nf & P & SM & PP).
  destruct (send_funding_parts _ _ _ _ _ _ E) as (ps & SP & Nps & Ups & Tps).
  unfold spec_moves in SM. fold (total f) in SM. sb SM q D. destruct q as [ds kp]. inversion SM; subst mvs.
  exists new, (flow ps ds). splits; try assumption.
  - unfold spec_send. rewrite SP. cbn [sbind]. unfold spec_moves. rewrite Tps, D. reflexivity.
  - rewrite PP, (flow_pairs _ _ Nf), (flow_pairs _ _ Nps), Ups. reflexivity.
Qed.

(* ------------------------------------------------------------------------------------------------ *)
(** * (e) in terms of posting lists: equality after merging adjacent moves with the same source and
      destination and dropping zero-amount moves *)

Definition same_ends (s d s' d' : account) : bool := N.eqb s s' && N.eqb d d'.

(* put a move in front of a normalised list *)
Definition merge_move (m : move) (l : list move) : list move :=
  match l with
  | [] => [m]
  | m' :: r =>
      if same_ends (fst (fst m)) (snd (fst m)) (fst (fst m')) (snd (fst m'))
      then (fst (fst m), snd (fst m), snd m + snd m') :: r
      else m :: l
  end.

(* run-length encoding of a coin sequence *)
Fixpoint rle (l : list (account * account)) : list move :=
  match l with
  | [] => []
  | x :: r => merge_move (fst x, snd x, 1) (rle r)
  end.

(* the normal form of a list of moves: zero (and negative) amounts dropped, adjacent moves with the same source
   and destination merged *)
Definition norm_moves (l : list move) : list move := rle (move_pairs l).

Lemma same_ends_refl : forall s d, same_ends s d s d = true.
Proof. intros; unfold same_ends; rewrite !N.eqb_refl; reflexivity. Qed.

Lemma merge_merge : forall s d a b R,
  merge_move (s, d, a) (merge_move (s, d, b) R) = merge_move (s, d, a + b) R.
Proof.
  intros s d a b [|[[s' d'] n'] r]; cbn [merge_move fst snd].
  - rewrite same_ends_refl. reflexivity.
  - destruct (same_ends s d s' d') eqn:E; cbn [merge_move fst snd].
    + rewrite same_ends_refl. f_equal. f_equal. lia.
    + rewrite same_ends_refl. reflexivity.
Qed.

Lemma rle_repeat_app : forall k s d L,
  rle (repeat (s, d) (S k) ++ L) = merge_move (s, d, Z.of_nat (S k)) (rle L).
Proof.
  induction k as [|k IH]; intros s d L.
  - reflexivity.
  - change (repeat (s, d) (S (S k)) ++ L) with ((s, d) :: (repeat (s, d) (S k) ++ L)).
    cbn [rle fst snd]. rewrite IH, merge_merge. f_equal. f_equal. lia.
Qed.

(* the readable equations of the normal form *)
Lemma norm_moves_nil : norm_moves [] = [].
Proof. reflexivity. Qed.
Lemma norm_moves_cons : forall s d n r,
  norm_moves ((s, d, n) :: r) = if n <=? 0 then norm_moves r else merge_move (s, d, n) (norm_moves r).
Proof.
  intros s d n r. unfold norm_moves, move_pairs. cbn [flat_map fst snd]. fold (move_pairs r).
  destruct (n <=? 0) eqn:E.
  - apply Z.leb_le in E. replace (Z.to_nat n) with 0%nat by lia. reflexivity.
  - apply Z.leb_gt in E. destruct (Z.to_nat n) as [|k] eqn:Ek; [lia|].
    rewrite rle_repeat_app. f_equal. f_equal. lia.
Qed.

Definition posting_move (p : posting) : move := (p_src p, p_dst p, p_amount p).
Lemma move_pairs_postings : forall l, move_pairs (map posting_move l) = post_pairs l.
Proof. induction l as [|p l IH]; [reflexivity|]. unfold move_pairs, post_pairs in *. cbn [map flat_map]. rewrite IH. reflexivity. Qed.

(* (e) on posting lists: the postings of a successful send, normalised, ARE the normalised flow of the spec *)
Theorem send_refines_spec_normalised : forall ve m src d st st',
  sem_send ve m src d st = SOk st' ->
  exists new mvs,
    s_posts st' = s_posts st ++ new /\
    spec_send ve m src d (s_bals st) = SOk mvs /\
    norm_moves (map posting_move new) = norm_moves mvs.
Proof.
  intros ve m src d st st' H.
  destruct (send_refines_spec_send _ _ _ _ _ _ H) as (new & mvs & P & S & PP).
  exists new, mvs. splits; try assumption. unfold norm_moves. rewrite move_pairs_postings, PP. reflexivity.
Qed.

(* ------------------------------------------------------------------------------------------------ *)
(** * The compiler enforces exactness: a script the (model) compiler accepts has only exact allotments *)

From Coq Require Import QArith.
Open Scope Z_scope.

Lemma cbind_inv : forall A B (m : comp A) (f : A -> comp B) s r,
  cbind m f s = Some r -> exists a s', m s = Some (a, s') /\ f a s' = Some r.
Proof. intros A B m f s r H. unfold cbind in H. destruct (m s) as [[a s']|]; [eauto | discriminate]. Qed.
Lemma guard_inv : forall b s r, guard b s = Some r -> b = true.
Proof. intros [|] s r H; [reflexivity | discriminate]. Qed.

Ltac cb H := let a := fresh "a" in let s' := fresh "s" in let E := fresh "E" in
  apply cbind_inv in H; destruct H as (a & s' & E & H).

Definition is_var (p : aportion) : bool := match p with APVar _ => true | _ => false end.
Definition is_bad_const (p : aportion) : bool := match p with APConst None => true | _ => false end.
Fixpoint qsum (l : list aportion) : Q :=
  match l with
  | [] => 0%Q
  | APConst (Some r) :: rest => (Qof r + qsum rest)%Q
  | _ :: rest => qsum rest
  end.

Lemma qsum_app : forall l1 l2, Qeq (qsum (l1 ++ l2)) (qsum l1 + qsum l2)%Q.
Proof.
  induction l1 as [|p l1 IH]; intro l2; cbn [app qsum]; [ring|].
  destruct p as [[r|]|n|]; rewrite ?IH; ring.
Qed.
Lemma qsum_rev : forall l, Qeq (qsum (rev l)) (qsum l).
Proof.
  induction l as [|p l IH]; [reflexivity|]. cbn [rev]. rewrite qsum_app, IH.
  destruct p as [[r|]|n|]; cbn [qsum]; ring.
Qed.
Lemma existsb_rev : forall (A : Type) (f : A -> bool) l, existsb f (rev l) = existsb f l.
Proof.
  intros A f l. destruct (existsb f l) eqn:E.
  - apply existsb_exists in E. destruct E as (x & Hin & Hx). apply existsb_exists. exists x. split; [apply in_rev in Hin |]; assumption.
  - destruct (existsb f (rev l)) eqn:E2; [|reflexivity]. apply existsb_exists in E2. destruct E2 as (x & Hin & Hx).
    apply in_rev in Hin. assert (existsb f l = true) by (apply existsb_exists; eauto). congruence.
Qed.

Lemma visit_portions_rev_inv : forall l acc0 s acc s',
  visit_portions_rev l acc0 s = Some (acc, s') ->
  aa_rem acc = aa_rem acc0 || existsb is_remaining l /\
  aa_var acc = aa_var acc0 || existsb is_var l /\
  existsb is_bad_const l = false /\
  Qeq (Qof (aa_total acc)) (Qof (aa_total acc0) + qsum l)%Q.
Proof.
  induction l as [|p l IH]; intros acc0 s acc s' H; cbn [visit_portions_rev] in H.
  - inversion H; subst. cbn [existsb qsum]. rewrite !orb_false_r. splits; try reflexivity. ring.
  - destruct p as [[r|]|name|].
    + cb H. cb H. destruct (IH _ _ _ _ H) as (I1 & I2 & I3 & I4). cbn [aa_rem aa_var aa_total] in *.
      cbn [existsb is_remaining is_var is_bad_const orb qsum]. splits; try assumption.
      rewrite I4, Qof_add. ring.
    + discriminate.
    + cb H. destruct a as [ty idx]. cb H. destruct (IH _ _ _ _ H) as (I1 & I2 & I3 & I4). cbn [aa_rem aa_var aa_total] in *.
      cbn [existsb is_remaining is_var is_bad_const orb qsum]. splits; try assumption.
      rewrite I2. rewrite orb_true_r. reflexivity.
    + cb H. cb H. cb H. destruct (IH _ _ _ _ H) as (I1 & I2 & I3 & I4). cbn [aa_rem aa_var aa_total] in *.
      cbn [existsb is_remaining is_var is_bad_const orb qsum]. splits; try assumption.
      rewrite I1. rewrite orb_true_r. reflexivity.
Qed.

Lemma const_sum_all : forall ps, existsb is_remaining ps = false -> existsb is_var ps = false ->
  existsb is_bad_const ps = false -> exists t, const_sum ps = Some t /\ Qeq (Qof t) (qsum ps).
Proof.
  induction ps as [|p ps IH]; intros H1 H2 H3.
  - exists ratio_zero. split; reflexivity.
  - destruct p as [[r|]|n|]; cbn [existsb is_remaining is_var is_bad_const orb] in *; try discriminate.
    destruct (IH H1 H2 H3) as (t & Ec & Eq). exists (ratio_add r t). cbn [const_sum qsum]. rewrite Ec.
    split; [reflexivity|]. rewrite Qof_add, Eq. reflexivity.
Qed.

Lemma ratio_eq1_Q : forall t, ratio_eq1 t = true <-> Qeq (Qof t) 1%Q.
Proof.
  intros [n d]. unfold ratio_eq1, Qof, Qeq; cbn [fst snd Qnum Qden]. rewrite Z.eqb_eq. lia.
Qed.

Lemma visit_allotment_static : forall ps s r, visit_allotment ps s = Some r -> static_exact ps = true.
Proof.
  intros ps s r H. unfold visit_allotment in H. cb H.
  destruct (visit_portions_rev_inv _ _ _ _ _ E) as (I1 & I2 & I3 & I4). cbn [aa_rem aa_var aa_total orb] in *.
  rewrite existsb_rev in I1, I2, I3. rewrite qsum_rev in I4. rewrite Qof_zero in I4.
  cb H. apply guard_inv in E0. cb H. apply guard_inv in E1. cb H. apply guard_inv in E2. cb H. apply guard_inv in E3.
  unfold static_exact. destruct (existsb is_remaining ps) eqn:Er; [reflexivity|]. cbn [orb].
  rewrite I1 in E1. cbn [negb andb] in E1. rewrite andb_true_r in E1.
  apply negb_true_iff in E0. apply negb_true_iff in E1.
  assert (Eq1 : ratio_eq1 (aa_total a) = true).
  { unfold ratio_gt1 in E0. unfold ratio_lt1 in E1. unfold ratio_eq1. apply Z.ltb_ge in E0, E1. apply Z.eqb_eq. lia. }
  rewrite Eq1 in E2. cbn [andb] in E2. apply negb_true_iff in E2. rewrite I2 in E2.
  destruct (const_sum_all ps Er E2 I3) as (t & Ec & Eqt). rewrite Ec.
  apply ratio_eq1_Q. rewrite Eqt. apply ratio_eq1_Q in Eq1. rewrite I4 in Eq1. rewrite <- Eq1. ring.
Qed.

(* the loops of visit_dest under names *)
Definition vd_inorder_go :=
  fix go (l : list (expr * kod)) : comp unit :=
    match l with
    | [] => cret tt
    | (amt, k) :: rest =>
        cdo r <- visit_expr amt true;
        expect_type TMonetary r ;;
        emit_op OP_TAKE_MAX ;; bump 2 ;; emit_op OP_DELETE ;;
        visit_kod k ;;
        emit_op OP_FUNDING_SUM ;; bump 3 ;; emit_op OP_MONETARY_ADD ;; bump 1 ;; bump 2 ;;
        push_integer 2 ;; emit_op OP_FUNDING_ASSEMBLE ;;
        go rest
    end.
Definition vd_allot_go :=
  fix go (l : list (aportion * kod)) : comp unit :=
    match l with
    | [] => cret tt
    | (_, k) :: rest =>
        bump 1 ;; emit_op OP_TAKE ;; visit_kod k ;; bump 1 ;; push_integer 2 ;; emit_op OP_FUNDING_ASSEMBLE ;;
        go rest
    end.
Lemma visit_dest_DInOrder : forall l rem,
  visit_dest (DInOrder l rem) =
  (emit_op OP_FUNDING_SUM ;; emit_op OP_ASSET ;; push_integer 0 ;; emit_op OP_MONETARY_NEW ;; bump 1 ;;
   vd_inorder_go l ;;
   emit_op OP_FUNDING_REVERSE ;; bump 1 ;; emit_op OP_TAKE ;; emit_op OP_FUNDING_REVERSE ;; bump 1 ;;
   emit_op OP_FUNDING_REVERSE ;;
   visit_kod rem ;;
   bump 1 ;; push_integer 2 ;; emit_op OP_FUNDING_ASSEMBLE).
Proof. reflexivity. Qed.
Lemma visit_dest_DAllot : forall l,
  visit_dest (DAllot l) =
  (emit_op OP_FUNDING_SUM ;; visit_allotment (map fst l) ;; emit_op OP_ALLOC ;; bump (Z.of_nat (length l)) ;;
   vd_allot_go l).
Proof. reflexivity. Qed.

Ltac cbs H := repeat (let a := fresh "a" in let s' := fresh "s" in let E := fresh "E" in
  apply cbind_inv in H; destruct H as (a & s' & E & H)).

Theorem visit_dest_static : forall d s r, visit_dest d s = Some r -> dest_static_exact d = true.
Proof.
  apply (dest_ind2 (fun d => forall s r, visit_dest d s = Some r -> dest_static_exact d = true)
                   (fun k => forall s r, visit_kod k s = Some r -> kod_static_exact k = true)).
  - intros; reflexivity.
  - intros l k HF Hk s r H. rewrite visit_dest_DInOrder in H.
    cb H. cb H. cb H. cb H. cb H. cb H. cb H. cb H. cb H. cb H. cb H. cb H. cb H.
    cbn [dest_static_exact]. apply andb_true_iff. split; [|exact (Hk _ _ E11)].
    clear - HF E4. revert s4 a4 s5 E4. induction HF as [|[e k'] l Hk' HF IH]; intros s4 a4 s5 E4; [reflexivity|].
    cbn [vd_inorder_go] in E4. fold vd_inorder_go in E4. cbn [snd] in Hk'.
    cb E4. cb E4. cb E4. cb E4. cb E4. cb E4. cb E4. cb E4. cb E4. cb E4. cb E4. cb E4. cb E4.
    apply andb_true_iff. split; [exact (Hk' _ _ E5) | exact (IH _ _ _ E4)].
  - intros l HF s r H. rewrite visit_dest_DAllot in H.
    cb H. cb H. cb H. cb H.
    cbn [dest_static_exact]. apply andb_true_iff. split; [exact (visit_allotment_static _ _ _ E0)|].
    clear - HF H. revert s3 r H. induction HF as [|[e k'] l Hk' HF IH]; intros s3 r H; [reflexivity|].
    cbn [vd_allot_go] in H. fold vd_allot_go in H. cbn [snd] in Hk'.
    cb H. cb H. cb H. cb H. cb H. cb H.
    apply andb_true_iff. split; [exact (Hk' _ _ E1) | exact (IH _ _ H)].
  - intros; reflexivity.
  - intros d Hd s r H. cbn [visit_kod] in H. cbn [kod_static_exact]. exact (Hd _ _ H).
Qed.

Definition stmt_static_exact (s : stmt) : bool :=
  match s with
  | StSend _ src d =>
      match src with VSrc _ => true | VSrcAllot l => static_exact (map fst l) end && dest_static_exact d
  | _ => true
  end.

Lemma visit_send_static : forall m src d s r, visit_send m src d s = Some r ->
  stmt_static_exact (StSend m src d) = true.
Proof.
  intros m src d s r H. unfold visit_send in H. cb H. unfold visit_destination in H. cb H.
  cbn [stmt_static_exact]. rewrite (visit_dest_static _ _ _ E0), andb_true_r.
  destruct src as [sr|l]; [reflexivity|]. destruct m as [e|ae].
  - cb E. cb E. cb E. cb E. exact (visit_allotment_static _ _ _ E4).
  - cb E. cb E. discriminate.
Qed.

Lemma visit_all_static : forall l s r, visit_all visit_stmt l s = Some r -> forallb stmt_static_exact l = true.
Proof.
  induction l as [|st l IH]; intros s r H; [reflexivity|]. cbn [visit_all] in H. cb H.
  cbn [forallb]. rewrite (IH _ _ H), andb_true_r.
  destruct st; try reflexivity. cbn [visit_stmt] in E. exact (visit_send_static _ _ _ _ _ E).
Qed.

(* every allotment of a script the compiler accepts is exact *)
Theorem compile_static_exact : forall sc p, compile sc = Some p -> forallb stmt_static_exact (s_stmts sc) = true.
Proof.
  intros sc p H. unfold compile in H. destruct (N.ltb max_vars _); [discriminate|].
  destruct ((visit_all visit_var (s_vars sc);; visit_all visit_stmt (s_stmts sc)) empty_cstate) as [[u c]|] eqn:E; [|discriminate].
  cb E. exact (visit_all_static _ _ _ E).
Qed.

Theorem compiled_send_exact : forall sc p m src d ve, compile sc = Some p -> In (StSend m src d) (s_stmts sc) ->
  src_exact ve src /\ dest_exact ve d.
Proof.
  intros sc p m src d ve Hc Hin. pose proof (compile_static_exact _ _ Hc) as F.
  rewrite forallb_forall in F. specialize (F _ Hin). cbn [stmt_static_exact] in F.
  apply andb_true_iff in F. destruct F as [F1 F2]. split.
  - destruct src as [s|l]; [exact I | exact (static_exact_ok ve _ F1)].
  - exact (dest_static_exact_ok ve d F2).
Qed.
