(* M1 proofs — compiler correctness, top level: variable declarations, the whole program, [finish] vs [sem_finish];
   theorem [compile_correct]. *)
From Coq Require Import Lia.
From FL Require Export Numscript.CompileCorrectStmt Numscript.Corr.
Open Scope Z_scope.

(* ---- variable declarations: no code, the table grows, the invariant is kept -------------------------------------- *)
Definition norm_vardecl (v : vardecl) : bool :=
  match vd_orig v with
  | None => true
  | Some (OMeta acc _) => norm_expr acc
  | Some (OBalance acc ae) => norm_expr acc && norm_expr ae
  end.
Definition norm_script (sc : script) : bool := forallb norm_vardecl (s_vars sc) && forallb norm_stmt (s_stmts sc).

(* the plain (origin-less) variables a declaration list introduces: (declared type, name) *)
Definition rvars_of (l : list vardecl) : list (vtype * N) :=
  flat_map (fun v => match vd_orig v with None => [(vd_type v, vd_name v)] | Some _ => [] end) l.

Record vstep (new : list (vtype * N)) (cs cs' : cstate) : Prop := {
  vs_code : c_code cs' = c_code cs;
  vs_res : prefix (c_res cs) (c_res cs');
  vs_wf : wf cs -> wf cs';
  vs_rvar : forall t n, In (RVar t n) (c_res cs') -> In (RVar t n) (c_res cs) \/ In (t, n) new
}.
Lemma vstep_refl : forall cs, vstep [] cs cs.
Proof. intros; constructor; auto using prefix_refl. Qed.
Lemma vstep_trans : forall n1 n2 a b c, vstep n1 a b -> vstep n2 b c -> vstep (n1 ++ n2) a c.
Proof.
  intros n1 n2 a b c [C1 R1 W1 X1] [C2 R2 W2 X2]. constructor; [congruence|eapply prefix_trans; eassumption|auto|].
  intros t n I. destruct (X2 _ _ I) as [I2|I2]; [|right; apply in_or_app; auto].
  destruct (X1 _ _ I2) as [I1|I1]; [auto|right; apply in_or_app; auto].
Qed.
Lemma cstep_vstep : forall a b, cstep a b [] -> vstep [] a b.
Proof. intros a b [C R V W X]. constructor; auto. rewrite C, app_nil_r. reflexivity. Qed.
Lemma vstep_weaken : forall n1 n2 a b, vstep n1 a b -> incl n1 n2 -> vstep n2 a b.
Proof. intros n1 n2 a b [C R W X] I. constructor; auto. intros t n Hn. destruct (X _ _ Hn); auto. Qed.

Lemma bind_var_ok : forall name addr cs u cs' r, bind_var name addr cs = Some (u, cs') ->
  nth_error (c_res cs) addr = Some r -> is_var_res r = true -> vstep [] cs cs'.
Proof.
  intros name addr cs u cs' r H N1 V. unfold bind_var in H. injection H as _ <-. constructor; cbn; auto using prefix_refl.
  intros [Wr Wv Wn]. constructor; cbn; auto.
  intros n i [E|I]; [injection E as <- <-; eauto|exact (Wv _ _ I)].
Qed.

Lemma visit_var_ok : forall v cs u cs', visit_var v cs = Some (u, cs') -> wf cs -> norm_vardecl v = true ->
  vstep (rvars_of [v]) cs cs'.
Proof.
  intros v cs u cs' H W Nm. unfold visit_var in H. unfold norm_vardecl in Nm. unfold rvars_of. cbn [flat_map]. rewrite app_nil_r.
  cb H dup cs0 Hd. unfold var_declared in Hd. injection Hd as _ <-.
  cb H u1 cs1 Hg. apply guard_inv in Hg as [_ ->]. cb H u2 cs1 Hg. apply guard_inv in Hg as [Dc ->].
  cb H addr cs1 Ha.
  assert (G : exists r, is_var_res r = true /\
                vstep (match vd_orig v with None => [(vd_type v, vd_name v)] | Some _ => [] end) cs cs1 /\
                nth_error (c_res cs1) addr = Some r).
  { destruct (vd_orig v) as [[acc key|acc ae]|].
    - cb Ha r cs2 He. cb Ha a cs3 Hx. apply expect_inv in Hx as [-> ->].
      destruct (visit_expr_ok _ _ _ _ _ _ He W Nm) as (ce & Se & Cn & Te & _). rewrite (Cn eq_refl) in Se.
      pose proof (cs_wf _ _ _ Se W) as W2. apply alloc_ok in Ha as [Sa Na]; auto.
      + eexists. split; [|split; [exact (vstep_trans _ _ _ _ _ (cstep_vstep _ _ Se) (cstep_vstep _ _ Sa))|exact Na]]. reflexivity.
      + cbn [res_ok]. split; [assumption|]. apply Te. reflexivity.
    - apply andb_prop in Nm as [Nacc Nae].
      cb Ha u3 cs2 Hg. apply guard_inv in Hg as [_ ->].
      cb Ha r cs2 He. cb Ha a cs3 Hx. apply expect_inv in Hx as [-> ->].
      destruct (visit_expr_ok _ _ _ _ _ _ He W Nacc) as (ce & Se & Cn & Te & _). rewrite (Cn eq_refl) in Se.
      pose proof (cs_wf _ _ _ Se W) as W2.
      cb Ha r2 cs4 He2. cb Ha s cs5 Hx. apply expect_inv in Hx as [-> ->].
      destruct (visit_expr_ok _ _ _ _ _ _ He2 W2 Nae) as (ce2 & Se2 & Cn2 & Te2 & _). rewrite (Cn2 eq_refl) in Se2.
      pose proof (cs_wf _ _ _ Se2 W2) as W4. apply alloc_ok in Ha as [Sa Na]; auto.
      + eexists. split; [|split; [|exact Na]]; [reflexivity|].
        exact (vstep_trans _ _ _ _ _ (cstep_vstep _ _ Se) (vstep_trans _ _ _ _ _ (cstep_vstep _ _ Se2) (cstep_vstep _ _ Sa))).
      + cbn [res_ok]. split; [|apply Te2; reflexivity]. eapply typed_mono; [apply (cs_res _ _ _ Se2)|apply Te; reflexivity].
    - (* a plain variable: the one place a [RVar] resource is appended *)
      unfold alloc in Ha. apply append_resource_ok in Ha as (-> & E1 & E2 & E3 & E4).
      eexists. split; [|split; [|rewrite E1, nth_error_app2, Nat.sub_diag by lia; reflexivity]]; [reflexivity|].
      constructor; auto.
      + rewrite E1. apply prefix_app.
      + intros W'. eapply wf_append; try eassumption. exact Dc.
      + intros t n I. rewrite E1 in I. apply in_app_or in I as [I|[I|[]]]; [auto|]. injection I as <- <-. right; left; reflexivity. }
  destruct G as (r & V & S1 & N1).
  pose proof (vstep_trans _ _ _ _ _ S1 (bind_var_ok _ _ _ _ _ _ H N1 V)) as S. rewrite app_nil_r in S. exact S.
Qed.

Lemma visit_vars_ok : forall l cs u cs', visit_all visit_var l cs = Some (u, cs') -> wf cs -> forallb norm_vardecl l = true ->
  vstep (rvars_of l) cs cs'.
Proof.
  induction l as [|v l IH]; intros cs u cs' H W Nm; cbn [visit_all] in H.
  - apply cret_inv in H as [_ ->]. apply vstep_refl.
  - cbn [forallb] in Nm. apply andb_prop in Nm as [Nv Nl]. cb H u1 cs1 H1.
    pose proof (visit_var_ok _ _ _ _ H1 W Nv) as S1.
    replace (rvars_of (v :: l)) with (rvars_of [v] ++ rvars_of l)
      by (unfold rvars_of; cbn [flat_map]; rewrite app_nil_r; reflexivity).
    eapply vstep_trans; [exact S1|]. eapply IH; eauto. apply (vs_wf _ _ _ S1 W).
Qed.

Lemma wf_empty : wf empty_cstate.
Proof. constructor; cbn. - apply wf_res_nil. - intros n i []. - intros k v []. Qed.

(* ---- the source-level environment read off the resolved table ------------------------------------------------------ *)
Lemma venv_of_env_ok : forall p vals,
  (forall name idx, In (name, idx) (p_vars p) -> exists v, nth_error vals idx = Some v) ->
  env_ok (p_vars p) vals (venv_of p vals).
Proof.
  intros p vals. unfold venv_of. induction (p_vars p) as [|[n i] l IH]; intros H name; [reflexivity|].
  cbn [fold_right assoc_N fst snd]. destruct (H n i (or_introl eq_refl)) as (v & Nv). rewrite Nv. cbn [assoc_N].
  destruct (N.eqb name n); [congruence|]. apply IH. intros n' i' I. apply (H n' i'). right; exact I.
Qed.

(* ---- metadata values are printable, so vm.Run never fails to render them -------------------------------------------- *)
Definition printable_ty (t : vtype) : bool := match t with TAllotment | TFunding => false | _ => true end.
Lemma printable_type_of : forall v, printable v = printable_ty (type_of v).
Proof. destruct v; reflexivity. Qed.

Definition ve_printable (ve : venv) : Prop := forall name v, assoc_N name ve = Some v -> printable v = true.
Lemma eval_printable : forall ve e v, ve_printable ve -> eval ve e = SOk v -> printable v = true.
Proof.
  intros ve e v P. revert v. induction e as [a|a|n|s|p|ae IHae amt|name|is_add l IHl r IHr]; intros v H; cbn [eval] in H.
  - injection H as <-; reflexivity.
  - injection H as <-; reflexivity.
  - injection H as <-; reflexivity.
  - injection H as <-; reflexivity.
  - destruct p; [injection H as <-; reflexivity|discriminate].
  - destruct (eval ve ae) as [w|]; [|discriminate]. cbn [sbind] in H. destruct w; try discriminate. injection H as <-. reflexivity.
  - destruct (assoc_N name ve) as [w|] eqn:A; [|discriminate]. injection H as <-. eapply P; eassumption.
  - destruct (eval ve l) as [a|]; [|discriminate]. cbn [sbind] in H. destruct (eval ve r) as [b|]; [|discriminate]. cbn [sbind] in H.
    destruct a, b; try discriminate.
    + injection H as <-; reflexivity.
    + destruct (N.eqb a a0); [injection H as <-; reflexivity|discriminate].
Qed.

Definition meta_printable (st : sstate) : Prop :=
  Forall (fun e => printable (snd e) = true) (s_txmeta st) /\ Forall (fun e => printable (snd e) = true) (s_accmeta st).

Lemma send_src_sext : forall ve m src st f st1, send_src_sem ve m src st = SOk (f, st1) -> sext st st1.
Proof.
  intros ve [e|ae] [s|l] st f st1 H; cbn [send_src_sem] in H.
  - destruct (lead_asset ve e) as [za|]; [|discriminate]. cbn [sbind] in H.
    destruct (sem_source ve za s st) as [[f0 st0]|] eqn:E0; [|discriminate]. cbn [sbind] in H.
    destruct (sem_source_tracked _ _ _ _ _ _ E0) as [M0 T0].
    destruct (eval_monetary ve e) as [[sm mamt]|]; [|discriminate]. cbn [sbind] in H.
    apply take_from_tracked in H as [M1 _]; [|assumption]. eapply sext_trans; eassumption.
  - destruct (lead_asset ve e) as [za|]; [|discriminate]. cbn [sbind] in H.
    destruct (eval_monetary ve e) as [[sm mamt]|]; [|discriminate]. cbn [sbind] in H.
    destruct (make_allotment ve (map fst l)) as [al|]; [|discriminate]. cbn [sbind] in H.
    destruct (sem_allot_sources ve za sm l (allocate al mamt) st) as [[fs st0]|] eqn:E; [|discriminate]. cbn [sbind] in H.
    destruct (assemble fs) as [r|] eqn:A; [|discriminate]. cbn [sbind] in H. injection H as <- <-.
    apply sem_allot_sources_tr in E as (M & _ & _). exact M.
  - destruct (eval_asset ve ae) as [a|]; [|discriminate]. cbn [sbind] in H.
    apply sem_source_tracked in H as [M _]. exact M.
  - discriminate.
Qed.

Lemma sem_send_sext : forall ve m src d st st', sem_send ve m src d st = SOk st' -> sext st st'.
Proof.
  intros ve m src d st st' H. rewrite sem_send_eq in H.
  destruct (send_src_sem ve m src st) as [[f st1]|] eqn:E1; [|discriminate]. cbn [sbind] in H.
  pose proof (send_src_sext _ _ _ _ _ _ E1) as M1. apply send_src_tracked in E1.
  destruct (sem_dest ve d f st1) as [[lo st2]|] eqn:E2; [|discriminate]. cbn [sbind] in H.
  destruct (sem_dest_tracked ve d _ _ _ _ E2 E1) as [M2 T2].
  destruct (do_repay_tracked _ _ T2) as (b' & _ & D & M3). rewrite D in H. injection H as <-.
  eapply sext_trans; [exact M1|]. eapply sext_trans; [exact M2|]. apply sext_bals. exact M3.
Qed.

Lemma sem_stmt_printable : forall ve s st st1, ve_printable ve -> sem_stmt ve s st = SOk st1 ->
  meta_printable st -> meta_printable st1.
Proof.
  intros ve s st st1 P H [Mt Ma]. unfold meta_printable. destruct s as [e|m acc|key v|acc key v| |m src d]; cbn [sem_stmt] in H.
  - destruct (eval ve e); [|discriminate]. injection H as <-. split; assumption.
  - assert (G : s_txmeta st1 = s_txmeta st /\ s_accmeta st1 = s_accmeta st).
    { unfold sem_save in H. destruct m as [e|ae].
      - destruct (eval_monetary ve e) as [[sm amt]|]; [|discriminate]. cbn [sbind] in H.
        destruct (eval_account ve acc) as [a|]; [|discriminate]. cbn [sbind] in H.
        destruct (amt <? 0); [discriminate|]. destruct (bal_get (s_bals st) a sm); injection H as <-; auto.
      - destruct (eval_asset ve ae) as [sa|]; [|discriminate]. cbn [sbind] in H.
        destruct (eval_account ve acc) as [a|]; [|discriminate]. cbn [sbind] in H.
        destruct (bal_get (s_bals st) a sa) as [z|]; [destruct (0 <? z)|]; injection H as <-; auto. }
    destruct G as [-> ->]. split; assumption.
  - destruct (eval ve v) as [w|] eqn:E; [|discriminate]. injection H as <-. split; [|assumption]. cbn [s_txmeta].
    apply Forall_app. split; [assumption|]. constructor; [|constructor]. eapply eval_printable; eassumption.
  - destruct (eval ve v) as [w|] eqn:E; [|discriminate]. cbn [sbind] in H. destruct (eval_account ve acc); [|discriminate].
    injection H as <-. split; [assumption|]. cbn [s_accmeta].
    apply Forall_app. split; [assumption|]. constructor; [|constructor]. eapply eval_printable; eassumption.
  - discriminate.
  - apply sem_send_sext in H as (_ & -> & -> & _). split; assumption.
Qed.
Lemma sem_stmts_printable : forall ve l st st1, ve_printable ve -> sem_stmts ve l st = SOk st1 ->
  meta_printable st -> meta_printable st1.
Proof.
  induction l as [|s l IH]; intros st st1 P H M; cbn [sem_stmts] in H; [injection H as <-; assumption|].
  destruct (sem_stmt ve s st) as [st0|] eqn:E; [|discriminate]. cbn [sbind] in H.
  eapply IH; [assumption|exact H|]. eapply sem_stmt_printable; eassumption.
Qed.

Lemma meta_final_printable : forall K (eqb : K -> K -> bool) log acc,
  Forall (fun e => printable (snd e) = true) log -> Forall (fun e => printable (snd e) = true) acc ->
  forallb (fun e => printable (snd e)) (meta_final eqb log acc) = true.
Proof.
  induction log as [|[k v] log IH]; intros acc Hl Ha; cbn [meta_final].
  - apply forallb_forall. rewrite Forall_forall in Ha. assumption.
  - inversion Hl as [|? ? Hv Hl']; subst. apply IH; [assumption|]. apply Forall_app. split; [|constructor; [assumption|constructor]].
    rewrite Forall_forall in *. intros e He. apply filter_In in He as [He _]. auto.
Qed.

Definition lift {A} (r : sres A) : outcome A := match r with SOk a => Done a | SErr e => Err e end.

Lemma finish_sem_finish : forall st extra, meta_printable st -> finish (ms [] st) extra = lift (sem_finish st extra).
Proof.
  intros st extra [Mt Ma]. unfold finish, sem_finish. cbn [ms txmeta accmeta posts printed].
  rewrite (meta_final_printable _ N.eqb (s_txmeta st) []); [|assumption|constructor].
  rewrite (meta_final_printable _ pair_eqb); [|clear - Ma; induction Ma; cbn [map]; constructor; auto|constructor].
  cbn [andb negb]. match goal with |- context [existsb ?f extra] => destruct (existsb f extra) end; reflexivity.
Qed.

(* ---- the theorem ---------------------------------------------------------------------------------------------------------- *)
Definition resources_resolved (p : program) (vals : list value) : Prop := compat (p_res p) vals.

Lemma compile_inv : forall sc p, compile sc = Some p -> norm_script sc = true ->
  exists csV c, vstep (rvars_of (s_vars sc)) empty_cstate csV /\ cstep csV c (p_code p) /\ wf c /\
    p_res p = c_res c /\ p_vars p = c_vars c /\ p_needed p = c_needed c /\ p_sources p = c_sources c /\
    (s_stmts sc <> [] -> p_code p <> []) /\
    forall vals ve, ctx_ok c vals ve -> forall stk st,
      exec vals (p_code p) (ms stk st) = lift_st (sem_stmts ve (s_stmts sc) st) (fun st1 => Done (ms stk st1)).
Proof.
  intros sc p H Nm. unfold compile in H. destruct (N.ltb max_vars (N.of_nat (length (s_vars sc)))); [discriminate|].
  destruct ((visit_all visit_var (s_vars sc);; visit_all visit_stmt (s_stmts sc)) empty_cstate) as [[u c]|] eqn:E; [|discriminate].
  injection H as <-. cbn [p_code p_res p_vars p_needed p_sources].
  unfold norm_script in Nm. apply andb_prop in Nm as [Nv Ns].
  cb E u1 csV Hv. pose proof (visit_vars_ok _ _ _ _ Hv wf_empty Nv) as SV. pose proof (vs_wf _ _ _ SV wf_empty) as WV.
  destruct (visit_stmts_ok _ _ _ _ E WV Ns) as (code & S & Nn & D).
  assert (Ec : c_code c = code). { rewrite (cs_code _ _ _ S), (vs_code _ _ _ SV). reflexivity. }
  rewrite Ec. exists csV, c. split; [exact SV|]. split; [exact S|]. split; [apply (cs_wf _ _ _ S WV)|]. repeat split; auto.
Qed.

Lemma execute_nonempty : forall vals code b, code <> [] ->
  execute vals code b = do st <- exec vals code (init_state b); match stack st with [] => Done st | _ => Panic PStackNotEmpty end.
Proof. intros vals [|i code] b H; [contradiction|reflexivity]. Qed.

Theorem compile_correct : forall sc p, compile sc = Some p -> norm_script sc = true -> s_stmts sc <> [] ->
  forall vals b extra, resources_resolved p vals ->
    (do st <- execute vals (p_code p) b; finish st extra) = lift (sem sc (venv_of p vals) b extra).
Proof.
  intros sc p H Nm Ne vals b extra R.
  destruct (compile_inv _ _ H Nm) as (csV & c & SV & S & W & Er & Ev & _ & _ & Nn & D).
  unfold resources_resolved in R. rewrite Er in R.
  assert (Hidx : forall name idx, In (name, idx) (p_vars p) -> exists v, nth_error vals idx = Some v).
  { intros name idx I. rewrite Ev in I. destruct (wf_v _ W _ _ I) as (r & N1 & _). destruct (R _ _ N1) as (v & Nv & _). eauto. }
  pose proof (venv_of_env_ok p vals Hidx) as En. rewrite Ev in En.
  assert (Cx : ctx_ok c vals (venv_of p vals)) by (split; assumption).
  assert (P : ve_printable (venv_of p vals)).
  { intros name v A. rewrite (En name) in A. destruct (assoc_N name (c_vars c)) as [idx|] eqn:Ai; [|discriminate].
    apply assoc_N_in in Ai. destruct (wf_v _ W _ _ Ai) as (r & N1 & V). destruct (R _ _ N1) as (v' & Nv & Tv & _).
    assert (v' = v) by congruence. subst v'. rewrite printable_type_of, Tv.
    pose proof (wf_res_ok _ _ _ (wf_r _ W) N1) as K. destruct r; try discriminate; cbn [res_ok res_type] in *.
    - destruct t; try discriminate; reflexivity.
    - destruct K as [K _]. destruct t; try discriminate; reflexivity.
    - reflexivity. }
  rewrite execute_nonempty by (apply Nn; exact Ne).
  change (init_state b) with (ms [] {| s_bals := b; s_posts := []; s_txmeta := []; s_accmeta := []; s_printed := [] |}).
  rewrite (D _ _ Cx). unfold sem.
  destruct (sem_stmts (venv_of p vals) (s_stmts sc) _) as [st1|] eqn:E; cbn [lift_st sbind bind]; [|reflexivity].
  cbn [ms stack]. apply finish_sem_finish. eapply sem_stmts_printable; [exact P|exact E|]. split; constructor.
Qed.
