(* M1 proofs — compiler correctness, allotments: [visit_allotment ps] builds the allotment [make_allotment ve ps]. *)
From Coq Require Import Lia.
From FL Require Export Numscript.CompileCorrectSource.
Open Scope Z_scope.

Definition norm_aportion (p : aportion) : bool :=
  match p with APConst (Some r) => ratio_normb r | _ => true end.

Lemma eval_portions_F2 : forall ve l qs, Forall2 (fun p q => eval_portion ve p = SOk q) l qs -> eval_portions ve l = SOk qs.
Proof.
  induction 1 as [|p q l qs Hp _ IH]; [reflexivity|]. cbn [eval_portions]. rewrite Hp, IH. reflexivity.
Qed.
Lemma Forall2_rev' : forall A B (R : A -> B -> Prop) l1 l2, Forall2 R l1 l2 -> Forall2 R (rev l1) (rev l2).
Proof.
  induction 1 as [|a b l1 l2 Hab _ IH]; [constructor|]. cbn [rev]. apply Forall2_app; [assumption|]. constructor; [assumption|constructor].
Qed.
Lemma Forall2_length' : forall A B (R : A -> B -> Prop) l1 l2, Forall2 R l1 l2 -> length l1 = length l2.
Proof. induction 1; cbn [length]; congruence. Qed.

Lemma visit_portions_rev_ok : forall l acc cs acc' cs', visit_portions_rev l acc cs = Some (acc', cs') -> wf cs ->
  forallb norm_aportion l = true ->
  exists code, cstep cs cs' code /\
    forall vals ve, ctx_ok cs' vals ve ->
      exists qs, Forall2 (fun p q => eval_portion ve p = SOk q) l qs /\
                 forall stk st, exec vals code (ms stk st) = Done (ms (map VPortion (rev qs) ++ stk) st).
Proof.
  induction l as [|p l IH]; intros acc cs acc' cs' H W Nm; cbn [visit_portions_rev] in H.
  - apply cret_inv in H as [_ ->]. exists []. split; [apply cstep_refl|]. intros vals ve Cx. exists []. split; [constructor|].
    intros; reflexivity.
  - cbn [forallb] in Nm. apply andb_prop in Nm as [Np Nl]. destruct p as [[r|]|name|].
    + cb H a cs1 H1. apply alloc_const_ok in H1 as [S1 N1]; auto. pose proof (cs_wf _ _ _ S1 W) as W1.
      cb H u cs2 H2. apply push_addr_ok in H2. pose proof (cs_wf _ _ _ H2 W1) as W2.
      destruct (IH _ _ _ _ H W2 Nl) as (c & S3 & D3).
      eexists. split; [exact (S1 +> H2 +> S3)|]. intros vals ve Cx. lift_res. ctx_back. const_vals.
      destruct (D3 vals ve) as (qs & F & X); [assumption|]. exists (PSpecific r :: qs). split; [constructor; [reflexivity|assumption]|].
      intros stk st. cbn [app]. erewrite x_push by eassumption. rewrite X. cbn [rev]. rewrite map_app, <- app_assoc. reflexivity.
    + discriminate.
    + cb H r1 cs1 H1. destruct r1 as [ty idx]. apply visit_variable_ok in H1 as (A & T & S1). pose proof (cs_wf _ _ _ S1 W) as W1.
      cb H u cs2 Hg. apply guard_inv in Hg as [G ->]. apply vtype_eqb_eq in G. subst ty.
      destruct (IH _ _ _ _ H W1 Nl) as (c & S3 & D3).
      eexists. split; [exact (S1 +> S3)|]. intros vals ve Cx. lift_res. ctx_back.
      destruct (D3 vals ve) as (qs & F & X); [assumption|].
      match goal with C : ctx_ok cs vals ve |- _ => destruct C as [Cp En] end.
      destruct (compat_typed _ _ _ _ Cp T) as (v & Nv & Tv). apply type_portion in Tv as (q & ->).
      exists (q :: qs). split.
      * constructor; [|assumption]. cbn [eval_portion]. rewrite (En name), A, Nv. reflexivity.
      * intros stk st. cbn [app]. erewrite x_push by eassumption. rewrite X. cbn [rev]. rewrite map_app, <- app_assoc. reflexivity.
    + cb H u0 cs0 Hg. apply guard_inv in Hg as [_ ->].
      cb H a cs1 H1. apply alloc_const_ok in H1 as [S1 N1]; auto. pose proof (cs_wf _ _ _ S1 W) as W1.
      cb H u cs2 H2. apply push_addr_ok in H2. pose proof (cs_wf _ _ _ H2 W1) as W2.
      destruct (IH _ _ _ _ H W2 Nl) as (c & S3 & D3).
      eexists. split; [exact (S1 +> H2 +> S3)|]. intros vals ve Cx. lift_res. ctx_back. const_vals.
      destruct (D3 vals ve) as (qs & F & X); [assumption|]. exists (PRemaining :: qs). split; [constructor; [reflexivity|assumption]|].
      intros stk st. cbn [app]. erewrite x_push by eassumption. rewrite X. cbn [rev]. rewrite map_app, <- app_assoc. reflexivity.
Qed.

Lemma visit_allotment_ok : forall ps cs u cs', visit_allotment ps cs = Some (u, cs') -> wf cs ->
  forallb norm_aportion ps = true ->
  exists code, cstep cs cs' code /\
    forall vals ve, ctx_ok cs' vals ve -> forall stk st,
      exec vals code (ms stk st) = lift_st (make_allotment ve ps) (fun al => Done (ms (VAllotment al :: stk) st)).
Proof.
  intros ps cs u cs' H W Nm. unfold visit_allotment in H.
  cb H acc cs1 H1. apply visit_portions_rev_ok in H1 as (c1 & S1 & D1); auto.
  2:{ rewrite forallb_rev. assumption. }
  pose proof (cs_wf _ _ _ S1 W) as W1.
  cb H u1 cs2 Hg. apply guard_inv in Hg as [_ ->]. cb H u2 cs2 Hg. apply guard_inv in Hg as [_ ->].
  cb H u3 cs2 Hg. apply guard_inv in Hg as [_ ->]. cb H u4 cs2 Hg. apply guard_inv in Hg as [_ ->].
  cb H u5 cs2 Hp. apply push_integer_ok in Hp as (a & Sp & N1); auto. apply emit_ok in H.
  eexists. split; [exact (S1 +> Sp +> H)|]. intros vals ve Cx stk st. lift_res. ctx_back. const_vals.
  destruct (D1 vals ve) as (qs & F & X); [assumption|].
  apply Forall2_rev' in F. rewrite rev_involutive in F.
  rewrite exec_app, X. cbn [bind app]. rewrite (Forall2_length' _ _ _ _ _ F) in *.
  erewrite x_make_allotment by eassumption. unfold make_allotment. rewrite (eval_portions_F2 _ _ _ F). cbn [sbind].
  destruct (new_allotment (rev qs)); reflexivity.
Qed.

(* lengths: the shares of an allotment are as many as its portions *)
Lemma distribute_length : forall parts short, length (distribute short parts) = length parts.
Proof. induction parts as [|x r IH]; intros short; cbn [distribute]; [reflexivity|]. destruct (0 <? short); cbn [length]; rewrite IH; reflexivity. Qed.
Lemma allocate_length : forall a amt, length (allocate a amt) = length a.
Proof. intros. unfold allocate. rewrite distribute_length, map_length. reflexivity. Qed.
Lemma new_allotment_length : forall ps a, new_allotment ps = inr a -> length a = length ps.
Proof.
  intros ps a H. unfold new_allotment in H. destruct (Nat.ltb 1 (count_remaining ps)); [discriminate|].
  destruct (ratio_gt1 (sum_specific ps)); [discriminate|]. injection H as <-. apply map_length.
Qed.
Lemma eval_portions_length : forall ve ps qs, eval_portions ve ps = SOk qs -> length qs = length ps.
Proof.
  induction ps as [|p ps IH]; intros qs H; cbn [eval_portions] in H.
  - injection H as <-. reflexivity.
  - destruct (eval_portion ve p); [|discriminate]. cbn [sbind] in H. destruct (eval_portions ve ps) as [qs'|]; [|discriminate].
    cbn [sbind] in H. injection H as <-. cbn [length]. f_equal. auto.
Qed.
Lemma make_allotment_length : forall ve ps a amt, make_allotment ve ps = SOk a -> length (allocate a amt) = length ps.
Proof.
  intros ve ps a amt H. unfold make_allotment in H. destruct (eval_portions ve ps) as [qs|] eqn:E; [|discriminate].
  cbn [sbind] in H. destruct (new_allotment qs) as [|a'] eqn:N1; [discriminate|]. injection H as <-.
  rewrite allocate_length, (new_allotment_length _ _ N1). eapply eval_portions_length; eassumption.
Qed.
