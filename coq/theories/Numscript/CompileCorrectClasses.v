(* M1 proofs — which error classes the source semantics can return (a syntactic fact about Sem.v), and hence, through
   [compile_correct], which classes the run of a COMPILED program can return: never "resource not found". *)
From Coq Require Import Lia.
From FL Require Export Numscript.CompileCorrectProps.
Open Scope Z_scope.

Definition sem_class (e : eclass) : bool :=
  match e with
  | ECompile | EInvalidScript | EOtherRun | EInsufficient | EResolveOther | EScriptFailed | EMetaOverride => true
  | _ => false
  end.

Create HintDb cls.
Ltac scrush H :=
  unfold sbind in H;
  repeat (match type of H with
          | context [match ?x with _ => _ end] =>
              lazymatch x with
              | context [match _ with _ => _ end] => fail
              | _ => let E := fresh "E" in destruct x eqn:E; try discriminate H
              end
          end);
  try discriminate H;
  try (match type of H with ?lhs = SErr _ =>
         lazymatch lhs with SErr _ => fail | SOk _ => fail | _ => solve [eauto 2 with cls] end end);
  try (injection H as <-; first [reflexivity | eauto 2 with cls]).

Lemma eval_cls : forall ve e x, eval ve e = SErr x -> sem_class x = true.
Proof.
  intros ve. induction e as [a|a|n|s|p|ae IHae amt|name|is_add l IHl r IHr]; intros x H; cbn [eval] in H; try discriminate.
  - destruct p; [discriminate|injection H as <-; reflexivity].
  - scrush H.
  - scrush H.
  - scrush H; try (destruct is_add; reflexivity).
Qed.
#[export] Hint Resolve eval_cls : cls.
Lemma eval_account_cls : forall ve e x, eval_account ve e = SErr x -> sem_class x = true.
Proof. intros ve e x H. unfold eval_account in H. scrush H. Qed.
Lemma eval_monetary_cls : forall ve e x, eval_monetary ve e = SErr x -> sem_class x = true.
Proof. intros ve e x H. unfold eval_monetary in H. scrush H. Qed.
Lemma eval_asset_cls : forall ve e x, eval_asset ve e = SErr x -> sem_class x = true.
Proof. intros ve e x H. unfold eval_asset in H. scrush H. Qed.
#[export] Hint Resolve eval_account_cls eval_monetary_cls eval_asset_cls : cls.
Lemma lead_asset_cls : forall ve e x, lead_asset ve e = SErr x -> sem_class x = true.
Proof.
  intros ve. induction e; intros x H; cbn [lead_asset] in H; try (scrush H; fail); eauto.
Qed.
Lemma assemble_cls : forall fs x, assemble fs = SErr x -> sem_class x = true.
Proof. intros fs x H. unfold assemble in H. scrush H. Qed.
Lemma do_repay_cls : forall st f x, do_repay st f = SErr x -> sem_class x = true.
Proof. intros st f x H. unfold do_repay in H. scrush H. Qed.
#[export] Hint Resolve lead_asset_cls assemble_cls do_repay_cls : cls.
Lemma take_from_cls : forall ve fb st f s amt x, take_from ve fb st f s amt = SErr x -> sem_class x = true.
Proof. intros ve fb st f s amt x H. unfold take_from in H. cbv zeta in H. scrush H. Qed.
#[export] Hint Resolve take_from_cls : cls.

Lemma sem_source_cls : forall ve za s st x, sem_source ve za s st = SErr x -> sem_class x = true.
Proof.
  intros ve za s. induction s as [acc ov|m s IH|l IH] using source_ind2; intros st x H.
  - cbn [sem_source] in H. scrush H.
  - cbn [sem_source] in H. cbv zeta in H. scrush H.
  - rewrite sem_source_inorder in H.
    assert (G : forall st x, sem_sources ve za l st = SErr x -> sem_class x = true).
    { clear H. induction IH as [|s l Hs _ IHl]; intros st' x' H'; cbn [sem_sources] in H'; [discriminate|]. scrush H'. }
    scrush H.
Qed.
#[export] Hint Resolve sem_source_cls : cls.

Lemma eval_portions_cls : forall ve ps x, eval_portions ve ps = SErr x -> sem_class x = true.
Proof.
  induction ps as [|p ps IH]; intros x H; cbn [eval_portions] in H; [discriminate|].
  unfold eval_portion in H. scrush H.
Qed.
#[export] Hint Resolve eval_portions_cls : cls.
Lemma make_allotment_cls : forall ve ps x, make_allotment ve ps = SErr x -> sem_class x = true.
Proof. intros ve ps x H. unfold make_allotment in H. scrush H. Qed.
#[export] Hint Resolve make_allotment_cls : cls.

Definition dest_cls (ve : venv) (d : dest) : Prop := forall f st x, sem_dest ve d f st = SErr x -> sem_class x = true.
Definition kod_cls (ve : venv) (k : kod) : Prop := forall f st x, sem_kod ve k f st = SErr x -> sem_class x = true.
Theorem sem_dest_cls : forall ve d, dest_cls ve d.
Proof.
  intros ve. apply (dest_ind2 (dest_cls ve) (kod_cls ve)).
  - intros e f st x H. cbn [sem_dest] in H. scrush H.
  - intros l rem F Prem f st x H. rewrite sem_dest_inorder in H.
    assert (G : forall f acc st x, sem_inorder_entries ve l f acc st = SErr x -> sem_class x = true).
    { clear H. induction F as [|[amt_e k] rest Pk _ IH]; intros f' acc st' x' H'.
      - rewrite sem_inorder_nil in H'. discriminate.
      - rewrite sem_inorder_cons in H'. cbn [snd] in Pk. unfold kod_cls in Pk. scrush H'. }
    unfold kod_cls in Prem. scrush H.
  - intros l F f st x H. rewrite sem_dest_allot in H.
    assert (G : forall parts f st x, sem_allot_entries ve l parts f st = SErr x -> sem_class x = true).
    { clear H. induction F as [|[ap k] rest Pk _ IH]; intros parts f' st' x' H'.
      - rewrite sem_allot_nil in H'. discriminate.
      - destruct parts as [|p ps]; [injection H' as <-; reflexivity|]. rewrite sem_allot_cons in H'.
        cbn [snd] in Pk. unfold kod_cls in Pk. scrush H'. }
    scrush H.
  - intros f st x H. discriminate.
  - intros d IH f st x H. exact (IH _ _ _ H).
Qed.
#[export] Hint Resolve sem_dest_cls : cls.

Lemma sem_allot_sources_cls : forall ve za ms l parts st x, sem_allot_sources ve za ms l parts st = SErr x -> sem_class x = true.
Proof.
  induction l as [|[ap s] rest IH]; intros parts st x H.
  - rewrite sem_allot_sources_nil in H. discriminate.
  - destruct parts as [|p ps]; [injection H as <-; reflexivity|]. rewrite sem_allot_sources_cons in H. scrush H.
Qed.
#[export] Hint Resolve sem_allot_sources_cls : cls.

Lemma sem_send_cls : forall ve m src d st x, sem_send ve m src d st = SErr x -> sem_class x = true.
Proof.
  intros ve m src d st x H. rewrite sem_send_eq in H. pose proof (sem_dest_cls ve d) as Dd. unfold dest_cls in Dd.
  destruct m, src; cbn [send_src_sem] in H; scrush H.
Qed.
Lemma sem_stmt_cls : forall ve s st x, sem_stmt ve s st = SErr x -> sem_class x = true.
Proof.
  intros ve s st x H. destruct s; cbn [sem_stmt] in H; try (scrush H; fail).
  - unfold sem_save in H. destruct m; scrush H.
  - eapply sem_send_cls; exact H.
Qed.
Lemma sem_cls : forall sc ve b extra x, sem sc ve b extra = SErr x -> sem_class x = true.
Proof.
  intros sc ve b extra x H. unfold sem in H.
  assert (G : forall l st x, sem_stmts ve l st = SErr x -> sem_class x = true).
  { clear. induction l as [|s l IH]; intros st x H; cbn [sem_stmts] in H; [discriminate|].
    pose proof (sem_stmt_cls ve s st) as K. scrush H. }
  unfold sem_finish in H. scrush H.
Qed.

(* ---- compiled programs: the run fails only with one of five classes (or a negative stored balance) ---------------- *)
Definition compiled_run_class (e : eclass) : bool :=
  match e with
  | ENegBalance | EInsufficient | EInvalidScript | EScriptFailed | EOtherRun | EMetaOverride => true
  | _ => false
  end.

Theorem error_classes_compiled : forall sc vars s extra, norm_script sc = true -> s_stmts sc <> [] ->
  (forall p vs, compile sc = Some p -> vars = Some vs -> vars_typed (p_res p) vs) -> parse_typed s ->
  match compile_and_run sc vars s extra with
  | Err e => stage_class e = true
  | Done ro => match ro_result ro with Done _ => True | Err e => compiled_run_class e = true | Panic _ => False end
  | Panic _ => False
  end.
Proof.
  intros sc vars s extra Nm Ne VT PT.
  pose proof (error_classes sc vars s extra) as EC. pose proof (run_no_panic sc vars s extra Nm Ne VT PT) as NP.
  destruct (compile_and_run sc vars s extra) as [ro|e|ps] eqn:CR; [|exact EC|exact NP].
  destruct (ro_result ro) as [res|e|ps] eqn:RR; [exact I| |exact NP].
  (* look inside: which stage produced the error *)
  unfold compile_and_run in CR. destruct (compile sc) as [p|] eqn:C; [|discriminate].
  unfold run_program in CR. destruct vars as [vs|]; [|discriminate].
  pose proof (resolve_ok _ _ vs s C Nm (VT p vs eq_refl eq_refl) PT) as R. fold init_resolved in CR.
  destruct (resolve_resources (p_res p) vs s init_resolved) as [r| |]; cbn [bind] in CR; [|discriminate|discriminate].
  injection CR as <-. cbn [ro_result] in RR.
  destruct (fill_pending (r_pending r) s (r_vals r)) as [vals|e'|] eqn:F; cbn [bind] in RR; [| |discriminate].
  - destruct R as [Cp _]. destruct (resolve_balances (p_needed p) vals s []) as [b|e'|] eqn:B; cbn [bind] in RR; [| |discriminate].
    + rewrite (compile_correct _ _ C Nm Ne vals b extra Cp) in RR.
      assert (V : run_class e = true).
      { rewrite <- (compile_correct _ _ C Nm Ne vals b extra Cp) in RR. eapply run_result_class; exact RR. }
      destruct (sem sc (venv_of p vals) b extra) as [res|e'] eqn:S; [discriminate|]. injection RR as <-.
      apply sem_cls in S. destruct e'; try discriminate; reflexivity.
    + exfalso. eapply resolve_balances_noerr; exact B.
  - injection RR as <-. apply fill_pending_class in F. subst e'. reflexivity.
Qed.
