(* M1 proofs — compiler correctness, destinations: the code of [visit_dest d], started with a funding on top of
   the stack, leaves the funding [sem_dest] returns (what was not sent) and performs the same sends. *)
From Coq Require Import Lia.
From FL Require Export Numscript.CompileCorrectAllot.
Open Scope Z_scope.

(* ---- the local loops of the compiler and of the semantics, as top-level functions (convertible) -------------------- *)
Fixpoint visit_inorder_entries (l : list (expr * kod)) : comp unit :=
  match l with
  | [] => cret tt
  | (amt, k) :: rest =>
      cdo r <- visit_expr amt true;
      expect_type TMonetary r ;;
      emit_op OP_TAKE_MAX ;; bump 2 ;; emit_op OP_DELETE ;;
      visit_kod k ;;
      emit_op OP_FUNDING_SUM ;; bump 3 ;; emit_op OP_MONETARY_ADD ;; bump 1 ;; bump 2 ;;
      push_integer 2 ;; emit_op OP_FUNDING_ASSEMBLE ;;
      visit_inorder_entries rest
  end.
Fixpoint visit_allot_entries (l : list (aportion * kod)) : comp unit :=
  match l with
  | [] => cret tt
  | (_, k) :: rest =>
      bump 1 ;; emit_op OP_TAKE ;; visit_kod k ;; bump 1 ;; push_integer 2 ;; emit_op OP_FUNDING_ASSEMBLE ;;
      visit_allot_entries rest
  end.
Lemma visit_dest_inorder : forall l rem,
  visit_dest (DInOrder l rem) =
  (emit_op OP_FUNDING_SUM ;; emit_op OP_ASSET ;; push_integer 0 ;; emit_op OP_MONETARY_NEW ;; bump 1 ;;
   visit_inorder_entries l ;;
   emit_op OP_FUNDING_REVERSE ;; bump 1 ;; emit_op OP_TAKE ;; emit_op OP_FUNDING_REVERSE ;; bump 1 ;;
   emit_op OP_FUNDING_REVERSE ;;
   visit_kod rem ;;
   bump 1 ;; push_integer 2 ;; emit_op OP_FUNDING_ASSEMBLE).
Proof. reflexivity. Qed.
Lemma visit_dest_allot : forall l,
  visit_dest (DAllot l) =
  (emit_op OP_FUNDING_SUM ;; visit_allotment (map fst l) ;; emit_op OP_ALLOC ;; bump (Z.of_nat (length l)) ;;
   visit_allot_entries l).
Proof. reflexivity. Qed.

Definition sem_inorder_entries (ve : venv) :=
  fix go (l : list (expr * kod)) (f : funding) (acc : Z) (st : sstate) : sres (funding * Z * sstate) :=
  match l with
  | [] => SOk (f, acc, st)
  | (amt_e, k) :: rest =>
      sdo '(ms, mamt) <- eval_monetary ve amt_e;
      if mamt <? 0 then SErr EOtherRun
      else if negb (N.eqb (f_asset f) ms) then SErr EInvalidScript
      else
        let '(res, rem) := take_max f mamt in
        sdo '(x, st1) <- sem_kod ve k res st;
        sdo f' <- assemble [x; rem];
        go rest f' (acc + total x) st1
  end.
Definition sem_allot_entries (ve : venv) :=
  fix go (l : list (aportion * kod)) (parts : list Z) (f : funding) (st : sstate) : sres (funding * sstate) :=
  match l, parts with
  | [], _ => SOk (f, st)
  | (_, k) :: rest, p :: ps =>
      match take f p with
      | None => SErr EInsufficient
      | Some (res, rem) =>
          sdo '(x, st1) <- sem_kod ve k res st;
          sdo f' <- assemble [x; rem];
          go rest ps f' st1
      end
  | _ :: _, [] => SErr EInvalidScript
  end.
Lemma sem_inorder_nil : forall ve f acc st, sem_inorder_entries ve [] f acc st = SOk (f, acc, st).
Proof. reflexivity. Qed.
Lemma sem_inorder_cons : forall ve amt_e k rest f acc st,
  sem_inorder_entries ve ((amt_e, k) :: rest) f acc st =
  sdo '(ms, mamt) <- eval_monetary ve amt_e;
  if mamt <? 0 then SErr EOtherRun
  else if negb (N.eqb (f_asset f) ms) then SErr EInvalidScript
  else
    let '(res, rem) := take_max f mamt in
    sdo '(x, st1) <- sem_kod ve k res st;
    sdo f' <- assemble [x; rem];
    sem_inorder_entries ve rest f' (acc + total x) st1.
Proof. reflexivity. Qed.
Lemma sem_allot_nil : forall ve parts f st, sem_allot_entries ve [] parts f st = SOk (f, st).
Proof. reflexivity. Qed.
Lemma sem_allot_cons : forall ve ap k rest p ps f st,
  sem_allot_entries ve ((ap, k) :: rest) (p :: ps) f st =
  match take f p with
  | None => SErr EInsufficient
  | Some (res, rem) =>
      sdo '(x, st1) <- sem_kod ve k res st;
      sdo f' <- assemble [x; rem];
      sem_allot_entries ve rest ps f' st1
  end.
Proof. reflexivity. Qed.
Lemma sem_dest_inorder : forall ve l rem_k f st,
  sem_dest ve (DInOrder l rem_k) f st =
  sdo '(f1, kept_total, st1) <- sem_inorder_entries ve l f 0 st;
  match take (freverse f1) kept_total with
  | None => SErr EInsufficient
  | Some (res, rem) =>
      sdo '(x, st2) <- sem_kod ve rem_k (freverse rem) st1;
      sdo r <- assemble [x; freverse res];
      SOk (r, st2)
  end.
Proof. reflexivity. Qed.
Lemma sem_dest_allot : forall ve l f st,
  sem_dest ve (DAllot l) f st =
  sdo a <- make_allotment ve (map fst l); sem_allot_entries ve l (allocate a (total f)) f st.
Proof. reflexivity. Qed.

(* ---- induction principle and the normal-form predicate --------------------------------------------------------------- *)
Fixpoint dest_ind2 (P : dest -> Prop) (Q : kod -> Prop)
  (HA : forall e, P (DAccount e))
  (HI : forall l rem, Forall (fun x => Q (snd x)) l -> Q rem -> P (DInOrder l rem))
  (HL : forall l, Forall (fun x => Q (snd x)) l -> P (DAllot l))
  (HK : Q Kept) (HT : forall d, P d -> Q (KTo d)) (d : dest) {struct d} : P d :=
  match d with
  | DAccount e => HA e
  | DInOrder l rem =>
      HI l rem
        ((fix go (l : list (expr * kod)) : Forall (fun x => Q (snd x)) l :=
            match l with
            | [] => Forall_nil _
            | x :: r => Forall_cons x (match snd x as k return Q k with
                                       | Kept => HK
                                       | KTo d' => HT d' (dest_ind2 P Q HA HI HL HK HT d')
                                       end) (go r)
            end) l)
        (match rem as k return Q k with Kept => HK | KTo d' => HT d' (dest_ind2 P Q HA HI HL HK HT d') end)
  | DAllot l =>
      HL l
        ((fix go (l : list (aportion * kod)) : Forall (fun x => Q (snd x)) l :=
            match l with
            | [] => Forall_nil _
            | x :: r => Forall_cons x (match snd x as k return Q k with
                                       | Kept => HK
                                       | KTo d' => HT d' (dest_ind2 P Q HA HI HL HK HT d')
                                       end) (go r)
            end) l)
  end.

Fixpoint norm_dest (d : dest) : bool :=
  match d with
  | DAccount e => norm_expr e
  | DInOrder l rem =>
      forallb (fun x => norm_expr (fst x) && match snd x with Kept => true | KTo d' => norm_dest d' end) l &&
      match rem with Kept => true | KTo d' => norm_dest d' end
  | DAllot l =>
      forallb (fun x => norm_aportion (fst x) && match snd x with Kept => true | KTo d' => norm_dest d' end) l
  end.
Definition norm_kod (k : kod) : bool := match k with Kept => true | KTo d => norm_dest d end.

Definition dest_ok (d : dest) : Prop :=
  forall cs u cs', visit_dest d cs = Some (u, cs') -> wf cs -> norm_dest d = true ->
  exists code, cstep cs cs' code /\
    forall vals ve, ctx_ok cs' vals ve -> forall stk st f,
      exec vals code (ms (VFunding f :: stk) st) =
      lift_st (sem_dest ve d f st) (fun '(lo, st1) => Done (ms (VFunding lo :: stk) st1)).
Definition kod_ok (k : kod) : Prop :=
  forall cs u cs', visit_kod k cs = Some (u, cs') -> wf cs -> norm_kod k = true ->
  exists code, cstep cs cs' code /\
    forall vals ve, ctx_ok cs' vals ve -> forall stk st f,
      exec vals code (ms (VFunding f :: stk) st) =
      lift_st (sem_kod ve k f st) (fun '(lo, st1) => Done (ms (VFunding lo :: stk) st1)).

Lemma kod_kept_ok : kod_ok Kept.
Proof.
  intros cs u cs' H W _. cbn [visit_kod] in H. apply cret_inv in H as [_ ->]. exists []. split; [apply cstep_refl|].
  intros; reflexivity.
Qed.
Lemma kod_to_ok : forall d, dest_ok d -> kod_ok (KTo d).
Proof. intros d IH cs u cs' H W Nm. exact (IH cs u cs' H W Nm). Qed.

Lemma dest_account_ok : forall e, dest_ok (DAccount e).
Proof.
  intros e cs u cs' H W Nm. cbn [visit_dest] in H. cbn [norm_dest] in Nm.
  cb H u1 cs1 H1. apply emit_ok in H1. pose proof (cs_wf _ _ _ H1 W) as W1.
  cb H u2 cs2 H2. apply emit_ok in H2. pose proof (cs_wf _ _ _ H2 W1) as W2.
  cb H r cs3 He. destruct r as [ty oa]. cb H u3 cs4 Ht. apply expect_type_inv in Ht as [Ht ->]. cbn [fst] in Ht. subst ty.
  destruct (visit_expr_ok _ _ _ _ _ _ He W2 Nm) as (ce & Se & _ & _ & De). apply emit_ok in H.
  eexists. split; [exact (H1 +> H2 +> Se +> H)|]. intros vals ve Cx stk st f. ctx_back. cbn [app].
  rewrite x_fsum, x_take, N.eqb_refl. cbn [negb sem_dest].
  destruct (take f (total f)) as [[res rem]|]; [|reflexivity].
  destruct (De vals ve) as (Ty & Xe & _); [assumption|]. rewrite exec_app, (Xe eq_refl). unfold eval_account.
  destruct (eval ve e) as [v|]; cbn [lift_st sbind bind]; [|reflexivity].
  destruct (type_account _ (Ty _ eq_refl)) as (a & ->). rewrite x_send. reflexivity.
Qed.

Lemma assemble2_mismatch : forall x r, N.eqb (f_asset x) (f_asset r) = false -> assemble [x; r] = SErr EInvalidScript.
Proof. intros x r E. unfold assemble. cbn [rev app forallb]. rewrite E. reflexivity. Qed.

Lemma sem_inorder_asset : forall ve l f acc st f1 kt st1,
  sem_inorder_entries ve l f acc st = SOk (f1, kt, st1) -> f_asset f1 = f_asset f.
Proof.
  induction l as [|[amt_e k] rest IH]; intros f acc st f1 kt st1 H.
  - rewrite sem_inorder_nil in H. injection H as <- _ _. reflexivity.
  - rewrite sem_inorder_cons in H. destruct (eval_monetary ve amt_e) as [[sm mamt]|]; [|discriminate]. cbn [sbind] in H.
    destruct (mamt <? 0); [discriminate|]. destruct (negb (N.eqb (f_asset f) sm)); [discriminate|].
    destruct (take_max f mamt) as [res rem] eqn:TM. destruct (take_max_accts _ _ _ _ TM) as (_ & _ & _ & Ar).
    destruct (sem_kod ve k res st) as [[x st0]|]; [|discriminate]. cbn [sbind] in H.
    destruct (assemble [x; rem]) as [f'|] eqn:A; [|discriminate]. cbn [sbind] in H.
    apply IH in H. apply assemble_asset2 in A. congruence.
Qed.

Lemma inorder_entries_ok : forall l, Forall (fun x => kod_ok (snd x)) l ->
  forall cs u cs', visit_inorder_entries l cs = Some (u, cs') -> wf cs ->
  forallb (fun x => norm_expr (fst x) && norm_kod (snd x)) l = true ->
  exists code, cstep cs cs' code /\
    forall vals ve, ctx_ok cs' vals ve -> forall stk st f acc,
      exec vals code (ms (VFunding f :: VMonetary (f_asset f) acc :: stk) st) =
      lift_st (sem_inorder_entries ve l f acc st)
              (fun '(f1, kt, st1) => Done (ms (VFunding f1 :: VMonetary (f_asset f) kt :: stk) st1)).
Proof.
  intros l F. induction F as [|[amt k] rest Pk _ IH]; intros cs u cs' H W Nm; cbn [visit_inorder_entries] in H.
  - apply cret_inv in H as [_ ->]. exists []. split; [apply cstep_refl|]. intros; reflexivity.
  - cbn [forallb fst snd] in Nm. apply andb_prop in Nm as [Nm1 Nmr]. apply andb_prop in Nm1 as [Ne Nk].
    cbn [snd] in Pk.
    cb H r cs1 He. destruct r as [ty oa]. cb H u1 cs2 Ht. apply expect_type_inv in Ht as [Ht ->]. cbn [fst] in Ht. subst ty.
    destruct (visit_expr_ok _ _ _ _ _ _ He W Ne) as (ce & Se & _ & _ & De). pose proof (cs_wf _ _ _ Se W) as W1.
    cb H u2 cs3 Hk1. apply emit_ok in Hk1. pose proof (cs_wf _ _ _ Hk1 W1) as W3.
    cb H u3 cs4 Hb1. apply bump_ok in Hb1 as (a1 & Sb1 & N1); auto. pose proof (cs_wf _ _ _ Sb1 W3) as W4.
    cb H u4 cs5 Hk2. apply emit_ok in Hk2. pose proof (cs_wf _ _ _ Hk2 W4) as W5.
    cb H u5 cs6 Hkod. destruct (Pk _ _ _ Hkod W5 Nk) as (ck & Sk & Dk). pose proof (cs_wf _ _ _ Sk W5) as W6.
    cb H u6 cs7 Hk3. apply emit_ok in Hk3. pose proof (cs_wf _ _ _ Hk3 W6) as W7.
    cb H u7 cs8 Hb2. apply bump_ok in Hb2 as (a2 & Sb2 & N2); auto. pose proof (cs_wf _ _ _ Sb2 W7) as W8.
    cb H u8 cs9 Hk4. apply emit_ok in Hk4. pose proof (cs_wf _ _ _ Hk4 W8) as W9.
    cb H u9 cs10 Hb3. apply bump_ok in Hb3 as (a3 & Sb3 & N3); auto. pose proof (cs_wf _ _ _ Sb3 W9) as W10.
    cb H u10 cs11 Hb4. apply bump_ok in Hb4 as (a4 & Sb4 & N4); auto. pose proof (cs_wf _ _ _ Sb4 W10) as W11.
    cb H u11 cs12 Hp. apply push_integer_ok in Hp as (a5 & Sp & N5); auto. pose proof (cs_wf _ _ _ Sp W11) as W12.
    cb H u12 cs13 Hk5. apply emit_ok in Hk5. pose proof (cs_wf _ _ _ Hk5 W12) as W13.
    destruct (IH _ _ _ H W13 Nmr) as (cr & Sr & Dr).
    pose proof (Hk3 +> Sb2 +> Hk4 +> Sb3 +> Sb4 +> Sp +> Hk5 +> Sr) as Stail. cbn [app] in Stail.
    pose proof (Hk1 +> Sb1 +> Hk2 +> Sk +> Stail) as Smid. cbn [app] in Smid.
    eexists. split; [exact (Se +> Smid)|].
    intros vals ve Cx stk st f acc. lift_res. ctx_back. const_vals.
    destruct (De vals ve) as (Ty & Xe & _); [assumption|]. rewrite exec_app, (Xe eq_refl), sem_inorder_cons. unfold eval_monetary.
    destruct (eval ve amt) as [v|]; cbn [lift_st sbind bind]; [|reflexivity].
    destruct (type_monetary _ (Ty _ eq_refl)) as (sm & mamt & ->). cbn [sbind].
    rewrite x_take_max. destruct (mamt <? 0); [reflexivity|]. destruct (negb (N.eqb (f_asset f) sm)); [reflexivity|]. cbv zeta.
    destruct (take_max f mamt) as [res rem] eqn:TM. destruct (take_max_accts _ _ _ _ TM) as (_ & _ & _ & Ar).
    erewrite x_bump2 by eassumption. rewrite x_delete_mon.
    rewrite exec_app, (Dk vals ve) by assumption.
    destruct (sem_kod ve k res st) as [[x st1]|]; cbn [lift_st sbind bind]; [|reflexivity].
    rewrite x_fsum. erewrite x_bump3 by eassumption. rewrite x_madd.
    destruct (N.eqb (f_asset x) (f_asset f)) eqn:Ex.
    + apply N.eqb_eq in Ex. erewrite x_bump1 by eassumption. erewrite x_bump2 by eassumption.
      erewrite x_assemble2 by eassumption.
      destruct (assemble [x; rem]) as [f'|] eqn:A; cbn [lift_st sbind]; [|reflexivity].
      apply assemble_asset2 in A. rewrite Ex. replace (f_asset f) with (f_asset f') by congruence.
      rewrite (Dr vals ve) by assumption. rewrite (Z.add_comm (total x) acc). reflexivity.
    + rewrite assemble2_mismatch by congruence. reflexivity.
Qed.

Lemma allot_entries_ok : forall l, Forall (fun x => kod_ok (snd x)) l ->
  forall cs u cs', visit_allot_entries l cs = Some (u, cs') -> wf cs ->
  forallb (fun x => norm_aportion (fst x) && norm_kod (snd x)) l = true ->
  exists code, cstep cs cs' code /\
    forall vals ve, ctx_ok cs' vals ve -> forall parts stk st f, length parts = length l ->
      exec vals code (ms (VFunding f :: map (fun x => VMonetary (f_asset f) x) parts ++ stk) st) =
      lift_st (sem_allot_entries ve l parts f st) (fun '(f1, st1) => Done (ms (VFunding f1 :: stk) st1)).
Proof.
  intros l F. induction F as [|[ap k] rest Pk _ IH]; intros cs u cs' H W Nm; cbn [visit_allot_entries] in H.
  - apply cret_inv in H as [_ ->]. exists []. split; [apply cstep_refl|]. intros vals ve Cx parts stk st f L.
    destruct parts; [reflexivity|discriminate].
  - cbn [forallb fst snd] in Nm. apply andb_prop in Nm as [Nm1 Nmr]. apply andb_prop in Nm1 as [_ Nk]. cbn [snd] in Pk.
    cb H u1 cs1 Hb1. apply bump_ok in Hb1 as (a1 & Sb1 & N1); auto. pose proof (cs_wf _ _ _ Sb1 W) as W1.
    cb H u2 cs2 Hk1. apply emit_ok in Hk1. pose proof (cs_wf _ _ _ Hk1 W1) as W2.
    cb H u3 cs3 Hkod. destruct (Pk _ _ _ Hkod W2 Nk) as (ck & Sk & Dk). pose proof (cs_wf _ _ _ Sk W2) as W3.
    cb H u4 cs4 Hb2. apply bump_ok in Hb2 as (a2 & Sb2 & N2); auto. pose proof (cs_wf _ _ _ Sb2 W3) as W4.
    cb H u5 cs5 Hp. apply push_integer_ok in Hp as (a3 & Sp & N3); auto. pose proof (cs_wf _ _ _ Sp W4) as W5.
    cb H u6 cs6 Hk2. apply emit_ok in Hk2. pose proof (cs_wf _ _ _ Hk2 W5) as W6.
    destruct (IH _ _ _ H W6 Nmr) as (cr & Sr & Dr).
    pose proof (Sb2 +> Sp +> Hk2 +> Sr) as Stail. cbn [app] in Stail.
    pose proof (Sb1 +> Hk1 +> Sk +> Stail) as S. cbn [app] in S.
    eexists. split; [exact S|].
    intros vals ve Cx parts stk st f L. lift_res. ctx_back. const_vals.
    destruct parts as [|p ps]; [discriminate|]. cbn [length] in L. injection L as L.
    cbn [map app]. erewrite x_bump1 by eassumption. rewrite x_take, N.eqb_refl, sem_allot_cons. cbn [negb].
    destruct (take f p) as [[res rem]|] eqn:TK; [|reflexivity]. destruct (take_accts _ _ _ _ TK) as (_ & _ & _ & Ar).
    rewrite exec_app, (Dk vals ve) by assumption.
    destruct (sem_kod ve k res st) as [[x st1]|]; cbn [lift_st sbind bind]; [|reflexivity].
    erewrite x_bump1 by eassumption. erewrite x_assemble2 by eassumption.
    destruct (assemble [x; rem]) as [f'|] eqn:A; cbn [lift_st sbind]; [|reflexivity].
    apply assemble_asset2 in A. replace (f_asset f) with (f_asset f') by congruence.
    apply (Dr vals ve); assumption.
Qed.

Lemma dest_inorder_ok : forall l rem, Forall (fun x => kod_ok (snd x)) l -> kod_ok rem -> dest_ok (DInOrder l rem).
Proof.
  intros l rem F Prem cs u cs' H W Nm. rewrite visit_dest_inorder in H. cbn [norm_dest] in Nm.
  apply andb_prop in Nm as [Nl Nrem]. fold (norm_kod rem) in Nrem.
  cb H u1 cs1 Hk1. apply emit_ok in Hk1. pose proof (cs_wf _ _ _ Hk1 W) as W1.
  cb H u2 cs2 Hk2. apply emit_ok in Hk2. pose proof (cs_wf _ _ _ Hk2 W1) as W2.
  cb H u3 cs3 Hp. apply push_integer_ok in Hp as (a0 & Sp & N0); auto. pose proof (cs_wf _ _ _ Sp W2) as W3.
  cb H u4 cs4 Hk3. apply emit_ok in Hk3. pose proof (cs_wf _ _ _ Hk3 W3) as W4.
  cb H u5 cs5 Hb1. apply bump_ok in Hb1 as (a1 & Sb1 & N1); auto. pose proof (cs_wf _ _ _ Sb1 W4) as W5.
  cb H u6 cs6 Hl. destruct (inorder_entries_ok l F _ _ _ Hl W5 Nl) as (cl & Sl & Dl). pose proof (cs_wf _ _ _ Sl W5) as W6.
  cb H u7 cs7 Hk4. apply emit_ok in Hk4. pose proof (cs_wf _ _ _ Hk4 W6) as W7.
  cb H u8 cs8 Hb2. apply bump_ok in Hb2 as (a2 & Sb2 & N2); auto. pose proof (cs_wf _ _ _ Sb2 W7) as W8.
  cb H u9 cs9 Hk5. apply emit_ok in Hk5. pose proof (cs_wf _ _ _ Hk5 W8) as W9.
  cb H u10 cs10 Hk6. apply emit_ok in Hk6. pose proof (cs_wf _ _ _ Hk6 W9) as W10.
  cb H u11 cs11 Hb3. apply bump_ok in Hb3 as (a3 & Sb3 & N3); auto. pose proof (cs_wf _ _ _ Sb3 W10) as W11.
  cb H u12 cs12 Hk7. apply emit_ok in Hk7. pose proof (cs_wf _ _ _ Hk7 W11) as W12.
  cb H u13 cs13 Hrem. destruct (Prem _ _ _ Hrem W12 Nrem) as (crem & Srem & Drem). pose proof (cs_wf _ _ _ Srem W12) as W13.
  cb H u14 cs14 Hb4. apply bump_ok in Hb4 as (a4 & Sb4 & N4); auto. pose proof (cs_wf _ _ _ Sb4 W13) as W14.
  cb H u15 cs15 Hp2. apply push_integer_ok in Hp2 as (a5 & Sp2 & N5); auto. apply emit_ok in H.
  pose proof (Sb4 +> Sp2 +> H) as Stail. cbn [app] in Stail.
  pose proof (Hk4 +> Sb2 +> Hk5 +> Hk6 +> Sb3 +> Hk7 +> Srem +> Stail) as Smid. cbn [app] in Smid.
  pose proof (Hk1 +> Hk2 +> Sp +> Hk3 +> Sb1 +> Sl +> Smid) as S. cbn [app] in S.
  eexists. split; [exact S|].
  intros vals ve Cx stk st f. lift_res. ctx_back. const_vals.
  rewrite x_fsum, x_asset_mon. erewrite x_push by eassumption. rewrite x_mnew. erewrite x_bump1 by eassumption.
  rewrite exec_app, (Dl vals ve) by assumption. rewrite sem_dest_inorder.
  destruct (sem_inorder_entries ve l f 0 st) as [[[f1 kt] st1]|] eqn:E; cbn [lift_st sbind bind]; [|reflexivity].
  apply sem_inorder_asset in E. rewrite x_frev. erewrite x_bump1 by eassumption. rewrite x_take.
  replace (N.eqb (f_asset (freverse f1)) (f_asset f)) with true by (symmetry; apply N.eqb_eq; exact E). cbn [negb].
  destruct (take (freverse f1) kt) as [[res rem0]|]; [|reflexivity].
  rewrite x_frev. erewrite x_bump1 by eassumption. rewrite x_frev.
  rewrite exec_app, (Drem vals ve) by assumption.
  destruct (sem_kod ve rem (freverse rem0) st1) as [[x st2]|]; cbn [lift_st sbind bind]; [|reflexivity].
  erewrite x_bump1 by eassumption. erewrite x_assemble2 by eassumption.
  destruct (assemble [x; freverse res]); reflexivity.
Qed.

Lemma dest_allot_ok : forall l, Forall (fun x => kod_ok (snd x)) l -> dest_ok (DAllot l).
Proof.
  intros l F cs u cs' H W Nm. rewrite visit_dest_allot in H. cbn [norm_dest] in Nm.
  cb H u1 cs1 Hk1. apply emit_ok in Hk1. pose proof (cs_wf _ _ _ Hk1 W) as W1.
  cb H u2 cs2 Ha. apply visit_allotment_ok in Ha as (ca & Sa & Da); auto.
  2:{ rewrite forallb_forall in Nm. apply forallb_forall. intros p Hp. apply in_map_iff in Hp as (x & <- & Hx).
      apply Nm in Hx. apply andb_prop in Hx as [Hx _]. exact Hx. }
  pose proof (cs_wf _ _ _ Sa W1) as W2.
  cb H u3 cs3 Hk2. apply emit_ok in Hk2. pose proof (cs_wf _ _ _ Hk2 W2) as W3.
  cb H u4 cs4 Hb. apply bump_ok in Hb as (a1 & Sb & N1); auto. pose proof (cs_wf _ _ _ Sb W3) as W4.
  destruct (allot_entries_ok l F _ _ _ H W4 Nm) as (cl & Sl & Dl).
  pose proof (Hk2 +> Sb +> Sl) as Stail. cbn [app] in Stail.
  eexists. split; [exact (Hk1 +> Sa +> Stail)|].
  intros vals ve Cx stk st f. lift_res. ctx_back. const_vals. cbn [app].
  rewrite x_fsum, exec_app, (Da vals ve) by assumption. rewrite sem_dest_allot.
  destruct (make_allotment ve (map fst l)) as [al|] eqn:E; cbn [lift_st sbind bind]; [|reflexivity].
  rewrite x_alloc. pose proof (make_allotment_length _ _ _ (total f) E) as L. rewrite map_length in L.
  erewrite (x_bumpn vals _ st a1 (map (fun x => VMonetary (f_asset f) x) (allocate al (total f))) (VFunding f) stk (length l));
    [|eassumption|rewrite map_length; exact L].
  apply (Dl vals ve); assumption.
Qed.

Theorem visit_dest_ok : forall d, dest_ok d.
Proof.
  apply (dest_ind2 dest_ok kod_ok);
    auto using dest_account_ok, dest_inorder_ok, dest_allot_ok, kod_kept_ok, kod_to_ok.
Qed.
Theorem visit_kod_ok : forall k, kod_ok k.
Proof. destruct k; [apply kod_kept_ok|apply kod_to_ok, visit_dest_ok]. Qed.

(* ---- destinations keep the "tracked" invariant (so the final REPAY of a send is a [do_repay]) ---------------------- *)
Definition dest_tr (ve : venv) (d : dest) : Prop :=
  forall f st lo st1, sem_dest ve d f st = SOk (lo, st1) -> tracked (s_bals st) f -> sext st st1 /\ tracked (s_bals st1) lo.
Definition kod_tr (ve : venv) (k : kod) : Prop :=
  forall f st lo st1, sem_kod ve k f st = SOk (lo, st1) -> tracked (s_bals st) f -> sext st st1 /\ tracked (s_bals st1) lo.

Lemma freverse_accts : forall f, incl (accts (freverse f)) (accts f).
Proof. intros f a Ha. unfold accts, freverse in *. cbn [f_parts] in Ha. rewrite map_rev in Ha. apply in_rev in Ha. exact Ha. Qed.

Lemma assemble2_tracked : forall b x r f', assemble [x; r] = SOk f' -> tracked b x -> tracked b r -> tracked b f'.
Proof. intros b x r f' A Tx Tr. eapply assemble_tracked; [exact A|]. repeat constructor; assumption. Qed.

Lemma inorder_entries_tr : forall ve l, Forall (fun x => kod_tr ve (snd x)) l ->
  forall f acc st f1 kt st1, sem_inorder_entries ve l f acc st = SOk (f1, kt, st1) -> tracked (s_bals st) f ->
  sext st st1 /\ tracked (s_bals st1) f1.
Proof.
  intros ve l F. induction F as [|[amt_e k] rest Pk _ IH]; intros f acc st f1 kt st1 H T.
  - rewrite sem_inorder_nil in H. injection H as <- _ <-. split; [apply sext_refl|assumption].
  - rewrite sem_inorder_cons in H. destruct (eval_monetary ve amt_e) as [[sm mamt]|]; [|discriminate]. cbn [sbind] in H.
    destruct (mamt <? 0); [discriminate|]. destruct (negb (N.eqb (f_asset f) sm)); [discriminate|].
    destruct (take_max f mamt) as [res rem] eqn:TM. destruct (take_max_accts _ _ _ _ TM) as (I1 & I2 & _).
    destruct (sem_kod ve k res st) as [[x st0]|] eqn:Ek; [|discriminate]. cbn [sbind] in H.
    destruct (Pk _ _ _ _ Ek (tracked_incl _ _ _ I1 T)) as [M0 Tx].
    destruct (assemble [x; rem]) as [f'|] eqn:A; [|discriminate]. cbn [sbind] in H.
    assert (Tf' : tracked (s_bals st0) f').
    { eapply assemble2_tracked; [exact A|exact Tx|]. eapply tracked_mono; [apply sext_bmono; exact M0|].
      eapply tracked_incl; eassumption. }
    destruct (IH _ _ _ _ _ _ H Tf') as [M1 T1]. split; [eapply sext_trans; eassumption|assumption].
Qed.

Lemma allot_entries_tr : forall ve l, Forall (fun x => kod_tr ve (snd x)) l ->
  forall parts f st f1 st1, sem_allot_entries ve l parts f st = SOk (f1, st1) -> tracked (s_bals st) f ->
  sext st st1 /\ tracked (s_bals st1) f1.
Proof.
  intros ve l F. induction F as [|[ap k] rest Pk _ IH]; intros parts f st f1 st1 H T.
  - rewrite sem_allot_nil in H. injection H as <- <-. split; [apply sext_refl|assumption].
  - destruct parts as [|p ps]; [discriminate|]. rewrite sem_allot_cons in H.
    destruct (take f p) as [[res rem]|] eqn:TK; [|discriminate]. destruct (take_accts _ _ _ _ TK) as (I1 & I2 & _).
    destruct (sem_kod ve k res st) as [[x st0]|] eqn:Ek; [|discriminate]. cbn [sbind] in H.
    destruct (Pk _ _ _ _ Ek (tracked_incl _ _ _ I1 T)) as [M0 Tx].
    destruct (assemble [x; rem]) as [f'|] eqn:A; [|discriminate]. cbn [sbind] in H.
    assert (Tf' : tracked (s_bals st0) f').
    { eapply assemble2_tracked; [exact A|exact Tx|]. eapply tracked_mono; [apply sext_bmono; exact M0|].
      eapply tracked_incl; eassumption. }
    destruct (IH _ _ _ _ _ H Tf') as [M1 T1]. split; [eapply sext_trans; eassumption|assumption].
Qed.

Theorem sem_dest_tracked : forall ve d, dest_tr ve d.
Proof.
  intros ve. apply (dest_ind2 (dest_tr ve) (kod_tr ve)).
  - intros e f st lo st1 H T. cbn [sem_dest] in H.
    destruct (take f (total f)) as [[res rem]|] eqn:TK; [|discriminate]. destruct (take_accts _ _ _ _ TK) as (I1 & I2 & _).
    destruct (eval_account ve e) as [a|]; [|discriminate]. cbn [sbind] in H. injection H as <- <-.
    split; [split; [apply credit_mono|repeat split]|]. cbn [do_send s_bals].
    eapply tracked_mono; [apply credit_mono|]. eapply tracked_incl; eassumption.
  - intros l rem F Prem f st lo st1 H T. rewrite sem_dest_inorder in H.
    destruct (sem_inorder_entries ve l f 0 st) as [[[f1 kt] st0]|] eqn:E; [|discriminate]. cbn [sbind] in H.
    destruct (inorder_entries_tr ve l F _ _ _ _ _ _ E T) as [M0 T0].
    destruct (take (freverse f1) kt) as [[res rem0]|] eqn:TK; [|discriminate]. destruct (take_accts _ _ _ _ TK) as (I1 & I2 & _).
    assert (Tr : tracked (s_bals st0) (freverse f1)) by (apply freverse_tracked; exact T0).
    destruct (sem_kod ve rem (freverse rem0) st0) as [[x st2]|] eqn:Ek; [|discriminate]. cbn [sbind] in H.
    destruct (Prem _ _ _ _ Ek) as [M2 Tx].
    { apply freverse_tracked. eapply tracked_incl; eassumption. }
    destruct (assemble [x; freverse res]) as [r|] eqn:A; [|discriminate]. cbn [sbind] in H. injection H as <- <-.
    split; [eapply sext_trans; eassumption|]. eapply assemble2_tracked; [exact A|exact Tx|].
    eapply tracked_mono; [apply sext_bmono; exact M2|]. apply freverse_tracked. eapply tracked_incl; eassumption.
  - intros l F f st lo st1 H T. rewrite sem_dest_allot in H.
    destruct (make_allotment ve (map fst l)) as [al|]; [|discriminate]. cbn [sbind] in H.
    eapply allot_entries_tr; eassumption.
  - intros f st lo st1 H T. cbn [sem_kod] in H. injection H as <- <-. split; [apply sext_refl|assumption].
  - intros d IH f st lo st1 H T. exact (IH _ _ _ _ H T).
Qed.
