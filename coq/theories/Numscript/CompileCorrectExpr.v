(* M1 proofs — compiler correctness, expressions: [visit_expr e true] emits code that pushes [eval ve e]
   (or fails with the same error class); [visit_expr e false] emits nothing and returns a typed address. *)
From Coq Require Import Lia.
From FL Require Export Numscript.CompilerLemmas.
Open Scope Z_scope.

Ltac cb H a cs1 H1 := apply cbind_inv in H; destruct H as (a & cs1 & H1 & H).

(* every ratio literal is in lowest terms *)
Fixpoint norm_expr (e : expr) : bool :=
  match e with
  | ELitPortion (Some r) => ratio_normb r
  | ELitMonetary ae _ => norm_expr ae
  | EAddSub _ l r => norm_expr l && norm_expr r
  | _ => true
  end.

Lemma find_monetary_sound : forall rs aa amt j, find_monetary rs aa amt = Some j -> nth_error rs j = Some (RMonetary aa amt).
Proof.
  intros rs aa amt j. unfold find_monetary.
  match goal with |- ?f rs O None = _ -> _ => set (go := f) end.
  assert (G : forall rs i found j, go rs i found = Some j ->
              found = Some j \/ ((i <= j)%nat /\ nth_error rs (j - i) = Some (RMonetary aa amt))).
  { clear. induction rs as [|r rs IH]; intros i found j H; cbn in H; [auto|].
    assert (K : forall found', go rs (S i) found' = Some j -> found' = found ->
                found = Some j \/ ((i <= j)%nat /\ nth_error (r :: rs) (j - i) = Some (RMonetary aa amt))).
    { intros found' H' ->. destruct (IH _ _ _ H') as [|[L N1]]; [auto|right]. split; [lia|].
      replace (j - i)%nat with (S (j - S i)) by lia. exact N1. }
    destruct r; try (eapply K; [exact H|reflexivity]).
    destruct (Nat.eqb asset_a aa && Z.eqb amt0 amt) eqn:E; [|eapply K; [exact H|reflexivity]].
    destruct (IH _ _ _ H) as [F|[L N1]].
    - injection F as <-. right. split; [lia|]. rewrite Nat.sub_diag. cbn.
      apply andb_prop in E as [E1 E2]. apply Nat.eqb_eq in E1. apply Z.eqb_eq in E2. congruence.
    - right. split; [lia|]. replace (j - i)%nat with (S (j - S i)) by lia. exact N1. }
  intros H. destruct (G _ _ _ _ H) as [F|[_ N1]]; [discriminate|]. rewrite Nat.sub_0_r in N1. exact N1.
Qed.

Lemma visit_variable_ok : forall name push cs ty idx cs', visit_variable name push cs = Some ((ty, idx), cs') ->
  assoc_N name (c_vars cs) = Some idx /\ typed (c_res cs) idx ty /\ cstep cs cs' (if push then [IPush idx] else []).
Proof.
  intros name push cs ty idx cs' H. unfold visit_variable in H.
  destruct (assoc_N name (c_vars cs)) as [i|] eqn:A; [|discriminate].
  destruct (nth_error (c_res cs) i) as [r|] eqn:N1; [|discriminate].
  cb H u cs1 H1. apply cret_inv in H as [E ->]. injection E as -> ->.
  split; [reflexivity|]. split; [exists r; auto|].
  destruct push; [eapply push_addr_ok; eassumption|]. apply cret_inv in H1 as [_ ->]. apply cstep_refl.
Qed.

Lemma lit_const_ok : forall v push cs ty oa cs', lit_const v push cs = Some ((ty, oa), cs') -> wf cs -> const_ok v = true ->
  ty = type_of v /\ exists a, oa = Some a /\ nth_error (c_res cs') a = Some (RConst v) /\
  cstep cs cs' (if push then [IPush a] else []).
Proof.
  intros v push cs ty oa cs' H W C. unfold lit_const in H.
  cb H a cs1 H1. cb H u cs2 H2. apply cret_inv in H as [E ->]. injection E as -> ->.
  apply alloc_const_ok in H1 as [S1 N1]; auto. split; [reflexivity|]. exists a. split; [reflexivity|].
  destruct push.
  - apply push_addr_ok in H2. split; [eapply prefix_nth; [apply (cs_res _ _ _ H2)|exact N1]|].
    apply (cstep_trans _ _ _ _ _ S1 H2).
  - apply cret_inv in H2 as [_ ->]. auto.
Qed.

(* what the emitted code does, for every resolved table compatible with the final resource table *)
Definition expr_dyn (vals : list value) (ve : venv) (e : expr) (push : bool) (ty : vtype) (oa : option nat)
           (code : list instr) : Prop :=
  (forall v, eval ve e = SOk v -> type_of v = ty) /\
  (push = true -> forall stk st, exec vals code (ms stk st) = lift_st (eval ve e) (fun v => Done (ms (v :: stk) st))) /\
  (forall a, oa = Some a ->
     exists w, nth_error vals a = Some w /\ type_of w = ty /\
               (ty = TMonetary -> exists x n, w = VMonetary x n /\ lead_asset ve e = SOk x) /\
               (ty <> TMonetary -> eval ve e = SOk w)).

Lemma exec_push1 : forall vals a v stk st, nth_error vals a = Some v ->
  exec vals [IPush a] (ms stk st) = Done (ms (v :: stk) st).
Proof. intros. erewrite x_push by eassumption. reflexivity. Qed.

Lemma lit_dyn : forall vals ve e push v a cs',
  const_ok v = true -> eval ve e = SOk v -> (type_of v = TMonetary -> False) ->
  nth_error (c_res cs') a = Some (RConst v) -> ctx_ok cs' vals ve ->
  expr_dyn vals ve e push (type_of v) (Some a) (if push then [IPush a] else []).
Proof.
  intros vals ve e push v a cs' C E NM N1 [Cp _]. pose proof (compat_const _ _ _ _ Cp N1) as Hv.
  split; [|split].
  - intros v' E'. congruence.
  - intros -> stk st. rewrite E. cbn [lift_st]. apply exec_push1; assumption.
  - intros a' Ha. injection Ha as <-. exists v. split; [assumption|]. split; [reflexivity|]. split; [intros T; contradiction|intros _; assumption].
Qed.

Lemma visit_expr_ok : forall e push cs ty oa cs', visit_expr e push cs = Some ((ty, oa), cs') -> wf cs -> norm_expr e = true ->
  exists code, cstep cs cs' code /\ (push = false -> code = []) /\
    (forall a, oa = Some a -> typed (c_res cs') a ty) /\
    forall vals ve, ctx_ok cs' vals ve -> expr_dyn vals ve e push ty oa code.
Proof.
  induction e as [a|a|n|s|p|ae IHae amt|name|is_add l IHl r IHr]; intros push cs ty oa cs' H W Nm.
  - (* account *)
    cbn [visit_expr] in H. apply lit_const_ok in H as (-> & ad & -> & N1 & S); auto.
    exists (if push then [IPush ad] else []). split; [assumption|]. split; [intros ->; reflexivity|]. split.
    + intros a' E; injection E as <-. eexists; split; [eassumption|reflexivity].
    + intros vals ve Cx. eapply (lit_dyn vals ve (ELitAccount a) push (VAccount a)); eauto. discriminate.
  - cbn [visit_expr] in H. apply lit_const_ok in H as (-> & ad & -> & N1 & S); auto.
    exists (if push then [IPush ad] else []). split; [assumption|]. split; [intros ->; reflexivity|]. split.
    + intros a' E; injection E as <-. eexists; split; [eassumption|reflexivity].
    + intros vals ve Cx. eapply (lit_dyn vals ve (ELitAsset a) push (VAsset a)); eauto. discriminate.
  - cbn [visit_expr] in H. apply lit_const_ok in H as (-> & ad & -> & N1 & S); auto.
    exists (if push then [IPush ad] else []). split; [assumption|]. split; [intros ->; reflexivity|]. split.
    + intros a' E; injection E as <-. eexists; split; [eassumption|reflexivity].
    + intros vals ve Cx. eapply (lit_dyn vals ve (ELitNumber n) push (VNumber n)); eauto. discriminate.
  - cbn [visit_expr] in H. apply lit_const_ok in H as (-> & ad & -> & N1 & S); auto.
    exists (if push then [IPush ad] else []). split; [assumption|]. split; [intros ->; reflexivity|]. split.
    + intros a' E; injection E as <-. eexists; split; [eassumption|reflexivity].
    + intros vals ve Cx. eapply (lit_dyn vals ve (ELitString s) push (VString s)); eauto. discriminate.
  - (* portion *)
    destruct p as [q|]; [|discriminate]. cbn [visit_expr] in H. cbn [norm_expr] in Nm.
    apply lit_const_ok in H as (-> & ad & -> & N1 & S); auto.
    exists (if push then [IPush ad] else []). split; [assumption|]. split; [intros ->; reflexivity|]. split.
    + intros a' E; injection E as <-. eexists; split; [eassumption|reflexivity].
    + intros vals ve Cx. eapply (lit_dyn vals ve (ELitPortion (Some q)) push (VPortion (PSpecific q))); eauto. discriminate.
  - (* monetary literal *)
    cbn [visit_expr] in H. cbn [norm_expr] in Nm.
    cb H r1 cs1 H1. destruct r1 as [aty aaddr].
    destruct (IHae _ _ _ _ _ H1 W Nm) as (c1 & S1 & Cn1 & T1 & D1). rewrite (Cn1 eq_refl) in S1. clear Cn1.
    pose proof (cs_wf _ _ _ S1 W) as W1.
    destruct aty; try discriminate. destruct aaddr as [aa|]; [|discriminate].
    specialize (T1 _ eq_refl).
    cb H found cs2 H2. injection H2 as <- <-.
    cb H ma cs2 H2. cb H u cs3 H3. apply cret_inv in H as [E ->]. injection E as -> ->.
    assert (S2 : cstep cs1 cs2 [] /\ nth_error (c_res cs2) ma = Some (RMonetary aa amt)).
    { destruct (find_monetary (c_res cs1) aa amt) as [i|] eqn:F.
      - apply cret_inv in H2 as [-> ->]. split; [apply cstep_refl|]. apply find_monetary_sound; assumption.
      - apply alloc_ok in H2; auto. }
    destruct S2 as [S2 N2].
    assert (S3 : cstep cs2 cs3 (if push then [IPush ma] else [])).
    { destruct push; [eapply push_addr_ok; eassumption|]. apply cret_inv in H3 as [_ ->]. apply cstep_refl. }
    pose proof (cstep_trans _ _ _ _ _ S1 (cstep_trans _ _ _ _ _ S2 S3)) as S. cbn [app] in S.
    exists (if push then [IPush ma] else []). split; [assumption|]. split; [intros ->; reflexivity|].
    assert (N3 : nth_error (c_res cs3) ma = Some (RMonetary aa amt)) by (eapply prefix_nth; [apply (cs_res _ _ _ S3)|exact N2]).
    split.
    + intros a' E; injection E as <-. eexists; split; [eassumption|reflexivity].
    + intros vals ve Cx.
      pose proof (ctx_ok_back _ _ _ _ _ (cstep_trans _ _ _ _ _ S2 S3) Cx) as Cx1.
      destruct (D1 _ _ Cx1) as (Ty1 & _ & A1). destruct (A1 _ eq_refl) as (w & Nw & Tw & _ & Ew).
      specialize (Ew ltac:(discriminate)).
      destruct Cx as [Cp En]. destruct (Cp _ _ N3) as (v & Nv & Tv & x & Nx & ->).
      assert (w = VAsset x) by congruence. subst w.
      assert (Ev : eval ve (ELitMonetary ae amt) = SOk (VMonetary x amt)) by (cbn [eval]; rewrite Ew; reflexivity).
      split; [|split].
      * intros v' E'. rewrite Ev in E'. injection E' as <-. reflexivity.
      * intros -> stk st. rewrite Ev. cbn [lift_st]. apply exec_push1; assumption.
      * intros a' E; injection E as <-. exists (VMonetary x amt). split; [assumption|]. split; [reflexivity|]. split.
        -- intros _. exists x, amt. split; [reflexivity|]. cbn [lead_asset]. unfold eval_monetary. rewrite Ev. reflexivity.
        -- intros K; contradiction.
  - (* variable *)
    cbn [visit_expr] in H. cb H r1 cs1 H1. destruct r1 as [vt idx]. apply cret_inv in H as [E ->]. injection E as -> ->.
    apply visit_variable_ok in H1 as (A & T & S).
    exists (if push then [IPush idx] else []). split; [assumption|]. split; [intros ->; reflexivity|]. split.
    + intros a' E; injection E as <-. eapply typed_mono; [apply (cs_res _ _ _ S)|assumption].
    + intros vals ve Cx. pose proof (ctx_ok_back _ _ _ _ _ S Cx) as [Cp En].
      destruct (compat_typed _ _ _ _ Cp T) as (v & Nv & Tv).
      assert (Ev : eval ve (EVar name) = SOk v) by (cbn [eval]; rewrite (En name), A, Nv; reflexivity).
      split; [|split].
      * intros v' E'. rewrite Ev in E'. injection E' as <-. assumption.
      * intros -> stk st. rewrite Ev. cbn [lift_st]. apply exec_push1; assumption.
      * intros a' E; injection E as <-. exists v. split; [assumption|]. split; [assumption|]. split; [|intros _; assumption].
        intros ->. apply type_monetary in Tv as (x & n & ->). exists x, n. split; [reflexivity|].
        cbn [lead_asset]. unfold eval_monetary. rewrite Ev. reflexivity.
  - (* arithmetic *)
    cbn [visit_expr] in H. cbn [norm_expr] in Nm. apply andb_prop in Nm as [Nl Nr].
    cb H r1 cs1 H1. destruct r1 as [lt la].
    destruct (IHl _ _ _ _ _ H1 W Nl) as (c1 & S1 & Cn1 & T1 & D1). pose proof (cs_wf _ _ _ S1 W) as W1.
    assert (Two : forall op t res_a,
      (cdo '(rt, _) <- visit_expr r push; guard (vtype_eqb rt t) ;;
       (if push then emit_op op else cret tt) ;; cret (t, res_a)) cs1 = Some (ty, oa, cs') ->
      exists c2 rao, ty = t /\ oa = res_a /\ cstep cs cs' (c1 ++ c2 ++ (if push then [IOp op] else [])) /\
        (push = false -> c2 = []) /\ exists cs2, cstep cs2 cs' (if push then [IOp op] else []) /\
        cstep cs1 cs2 c2 /\
        forall vals ve, ctx_ok cs2 vals ve -> expr_dyn vals ve r push t rao c2).
    { intros op t res_a H'. cb H' r2 cs2 H2. destruct r2 as [rt ra].
      destruct (IHr _ _ _ _ _ H2 W1 Nr) as (c2 & S2 & Cn2 & T2 & D2).
      cb H' u cs3 H3. apply guard_inv in H3 as [G ->]. apply vtype_eqb_eq in G. subst rt.
      cb H' u2 cs3 H3. apply cret_inv in H' as [E ->]. injection E as -> ->.
      assert (S3 : cstep cs2 cs3 (if push then [IOp op] else [])).
      { destruct push; [eapply emit_ok; eassumption|]. apply cret_inv in H3 as [_ ->]. apply cstep_refl. }
      exists c2, ra. split; [reflexivity|]. split; [reflexivity|].
      split; [apply (cstep_trans _ _ _ _ _ S1 (cstep_trans _ _ _ _ _ S2 S3))|]. split; [assumption|].
      exists cs2. auto. }
    destruct lt; try discriminate.
    + (* numbers *)
      destruct (Two _ _ _ H) as (c2 & rao & -> & -> & S & Cn2 & cs2 & S3 & S2 & D2).
      exists (c1 ++ c2 ++ (if push then [IOp (if is_add then OP_IADD else OP_ISUB)] else [])).
      split; [assumption|]. split; [intros ->; rewrite Cn1, Cn2; reflexivity|]. split; [discriminate|].
      intros vals ve Cx. pose proof (ctx_ok_back _ _ _ _ _ S3 Cx) as Cx2.
      pose proof (ctx_ok_back _ _ _ _ _ S2 Cx2) as Cx1.
      destruct (D1 _ _ Cx1) as (Ty1 & X1 & _). destruct (D2 _ _ Cx2) as (Ty2 & X2 & _).
      split; [|split; [|discriminate]].
      * intros v E. cbn [eval] in E. destruct (eval ve l) as [a|]; [|discriminate]. cbn [sbind] in E.
        destruct (eval ve r) as [b|]; [|discriminate]. cbn [sbind] in E.
        destruct (type_number _ (Ty1 _ eq_refl)) as (x & ->). destruct (type_number _ (Ty2 _ eq_refl)) as (y & ->).
        injection E as <-. reflexivity.
      * intros -> stk st. specialize (X1 eq_refl). specialize (X2 eq_refl).
        rewrite exec_app, X1. cbn [eval]. destruct (eval ve l) as [a|]; cbn [lift_st bind sbind]; [|reflexivity].
        rewrite exec_app, X2. destruct (eval ve r) as [b|]; cbn [lift_st bind sbind]; [|reflexivity].
        destruct (type_number _ (Ty1 _ eq_refl)) as (x & ->). destruct (type_number _ (Ty2 _ eq_refl)) as (y & ->).
        destruct is_add; [rewrite x_iadd|rewrite x_isub]; reflexivity.
    + (* monetaries *)
      destruct (Two _ _ _ H) as (c2 & rao & -> & -> & S & Cn2 & cs2 & S3 & S2 & D2).
      exists (c1 ++ c2 ++ (if push then [IOp (if is_add then OP_MONETARY_ADD else OP_MONETARY_SUB)] else [])).
      split; [assumption|]. split; [intros ->; rewrite Cn1, Cn2; reflexivity|]. split.
      { intros a E. eapply typed_mono; [|apply T1; exact E]. apply (cs_res _ _ _ (cstep_trans _ _ _ _ _ S2 S3)). }
      intros vals ve Cx. pose proof (ctx_ok_back _ _ _ _ _ S3 Cx) as Cx2.
      pose proof (ctx_ok_back _ _ _ _ _ S2 Cx2) as Cx1.
      destruct (D1 _ _ Cx1) as (Ty1 & X1 & A1). destruct (D2 _ _ Cx2) as (Ty2 & X2 & _).
      split; [|split].
      * intros v E. cbn [eval] in E. destruct (eval ve l) as [a|]; [|discriminate]. cbn [sbind] in E.
        destruct (eval ve r) as [b|]; [|discriminate]. cbn [sbind] in E.
        destruct (type_monetary _ (Ty1 _ eq_refl)) as (sx & x & ->). destruct (type_monetary _ (Ty2 _ eq_refl)) as (sy & y & ->).
        destruct (N.eqb sx sy); [|discriminate]. injection E as <-. reflexivity.
      * intros -> stk st. specialize (X1 eq_refl). specialize (X2 eq_refl).
        rewrite exec_app, X1. cbn [eval]. destruct (eval ve l) as [a|]; cbn [lift_st bind sbind]; [|reflexivity].
        rewrite exec_app, X2. destruct (eval ve r) as [b|]; cbn [lift_st bind sbind]; [|reflexivity].
        destruct (type_monetary _ (Ty1 _ eq_refl)) as (sx & x & ->). destruct (type_monetary _ (Ty2 _ eq_refl)) as (sy & y & ->).
        destruct is_add; [rewrite x_madd|rewrite x_msub]; destruct (N.eqb sx sy); reflexivity.
      * intros a E. destruct (A1 _ E) as (w & Nw & Tw & Lw & _). exists w. split; [assumption|]. split; [assumption|]. split; [assumption|].
        intros K; contradiction.
Qed.

(* ---- is the account expression the literal @world? (decided by the compiler on the resource table) ------------- *)
Definition world_at (rs : list resource) (a : nat) : bool :=
  match nth_error rs a with Some (RConst (VAccount x)) => N.eqb x world | _ => false end.

Lemma visit_expr_world : forall e push cs a cs', visit_expr e push cs = Some ((TAccount, Some a), cs') -> wf cs ->
  world_at (c_res cs') a = is_world_lit e.
Proof.
  intros e push cs a cs' H W. destruct e as [x|x|n|s|p|ae amt|name|is_add l r]; cbn [visit_expr] in H.
  - apply lit_const_ok in H as (_ & ad & E & N1 & _); auto. injection E as <-. unfold world_at. rewrite N1. reflexivity.
  - apply lit_const_ok in H as (T & _); auto. discriminate.
  - apply lit_const_ok in H as (T & _); auto. discriminate.
  - apply lit_const_ok in H as (T & _); auto. discriminate.
  - destruct p as [q|]; [|discriminate]. unfold lit_const in H. cb H a1 cs1 H1. cb H u cs2 H2.
    apply cret_inv in H as [E _]. discriminate.
  - cb H r1 cs1 H1. destruct r1 as [[] [aa|]]; try discriminate.
    cb H f cs2 H2. cb H ma cs3 H3. cb H u cs4 H4. apply cret_inv in H as [E _]. discriminate.
  - cb H r1 cs1 H1. destruct r1 as [vt idx]. apply cret_inv in H as [E ->]. injection E as <- <-.
    apply visit_variable_ok in H1 as (A & (r & N1 & T) & S).
    destruct (wf_v _ W _ _ (assoc_N_in _ _ _ _ A)) as (r' & N2 & V). assert (r' = r) by congruence. subst r'.
    unfold world_at. rewrite (prefix_nth _ _ _ _ _ (cs_res _ _ _ S) N1). destruct r; try discriminate; reflexivity.
  - cb H r1 cs1 H1. destruct r1 as [[] la]; try discriminate.
    + cb H r2 cs2 H2. destruct r2 as [rt ra]. cb H u cs3 H3. cb H u2 cs4 H4. apply cret_inv in H as [E _]. discriminate.
    + cb H r2 cs2 H2. destruct r2 as [rt ra]. cb H u cs3 H3. cb H u2 cs4 H4. apply cret_inv in H as [E _]. discriminate.
Qed.

(* ---- bookkeeping helpers used by all later files ------------------------------------------------------------------ *)
Notation "a +> b" := (cstep_trans _ _ _ _ _ a b) (at level 61, right associativity).

Lemma expect_inv : forall t r cs a cs', expect t r cs = Some (a, cs') -> r = (t, Some a) /\ cs' = cs.
Proof.
  intros t [ty [x|]] cs a cs' H; cbn in H; [|discriminate].
  destruct (vtype_eqb ty t) eqn:E; [|discriminate]. apply vtype_eqb_eq in E. apply cret_inv in H as [-> ->]. subst; auto.
Qed.
Lemma expect_type_inv : forall t r cs u cs', expect_type t r cs = Some (u, cs') -> fst r = t /\ cs' = cs.
Proof.
  intros t r cs u cs' H. unfold expect_type in H. apply guard_inv in H as [E ->]. apply vtype_eqb_eq in E. auto.
Qed.

(* transport facts about an intermediate resource table to every later compiler state *)
Ltac lift_res :=
  repeat match goal with
  | [ N1 : nth_error (c_res ?c) ?a = Some ?r, S : cstep ?c ?d _ |- _ ] =>
      lazymatch goal with
      | [ _ : nth_error (c_res d) a = Some r |- _ ] => fail
      | _ => pose proof (prefix_nth _ _ _ _ _ (cs_res _ _ _ S) N1)
      end
  | [ T : typed (c_res ?c) ?a ?t, S : cstep ?c ?d _ |- _ ] =>
      lazymatch goal with
      | [ _ : typed (c_res d) a t |- _ ] => fail
      | _ => pose proof (typed_mono _ _ _ _ (cs_res _ _ _ S) T)
      end
  end.
(* ... and the context assumption back to every earlier one *)
Ltac ctx_back :=
  repeat match goal with
  | [ S : cstep ?a ?b _, C : ctx_ok ?b ?vals ?ve |- _ ] =>
      lazymatch goal with
      | [ _ : ctx_ok a vals ve |- _ ] => fail
      | _ => pose proof (ctx_ok_back _ _ _ _ _ S C)
      end
  end.
(* constants of the table in the resolved values *)
Ltac const_vals :=
  repeat match goal with
  | [ N1 : nth_error (c_res ?c) ?a = Some (RConst ?v), C : ctx_ok ?c ?vals _ |- _ ] =>
      lazymatch goal with
      | [ _ : nth_error vals a = Some v |- _ ] => fail
      | _ => pose proof (compat_const _ _ _ _ (proj1 C) N1)
      end
  end.
