(* M1 proofs — the remaining lemmas behind the C08 / C12 property theorems: the executable side condition
   [in_fragment], the compilation cache, rejection, error classes, determinism. *)
From Coq Require Import Lia.
From FL Require Export Numscript.CompileCorrectRun.
Open Scope Z_scope.

(* the only syntactic side conditions of [compile_correct]: ratio literals in lowest terms (what big.Rat gives) and
   at least one statement (what the grammar gives).  NOT a language fragment: every construct is covered. *)
Definition in_fragment (sc : script) : bool :=
  norm_script sc && match s_stmts sc with [] => false | _ => true end.
Lemma in_fragment_spec : forall sc, in_fragment sc = true -> norm_script sc = true /\ s_stmts sc <> [].
Proof. intros sc H. unfold in_fragment in H. apply andb_prop in H as [H1 H2]. split; [assumption|]. destruct (s_stmts sc); [discriminate|discriminate]. Qed.

Lemma compile_correct_frag : forall sc p, compile sc = Some p -> in_fragment sc = true ->
  forall vals b extra, resources_resolved p vals ->
    (do st <- execute vals (p_code p) b; finish st extra) = lift (sem sc (venv_of p vals) b extra).
Proof. intros sc p H F. apply in_fragment_spec in F as [Nm Ne]. apply compile_correct; assumption. Qed.

Lemma pipeline_correct_frag : forall sc p vars s extra, compile sc = Some p -> in_fragment sc = true ->
  (forall vs, vars = Some vs -> vars_typed (p_res p) vs) -> parse_typed s ->
  result_of (run_program p vars s extra) = sem_pipeline sc p vars s extra.
Proof. intros sc p vars s extra H F. apply in_fragment_spec in F as [Nm Ne]. apply pipeline_correct; assumption. Qed.

Lemma run_no_panic_frag : forall sc vars s extra, in_fragment sc = true ->
  (forall p vs, compile sc = Some p -> vars = Some vs -> vars_typed (p_res p) vs) -> parse_typed s ->
  match compile_and_run sc vars s extra with
  | Done ro => no_panic (ro_result ro)
  | Err _ => True
  | Panic _ => False
  end.
Proof. intros sc vars s extra F. apply in_fragment_spec in F as [Nm Ne]. apply run_no_panic; assumption. Qed.

(* what ResolveResources / fill_pending produce is what [compile_correct] assumes (so the pipeline theorem has no
   hypothesis about the resolved table) *)
Lemma resolve_establishes : forall sc p vs s r vals, compile sc = Some p -> norm_script sc = true ->
  vars_typed (p_res p) vs -> parse_typed s ->
  resolve_resources (p_res p) vs s init_resolved = Done r -> fill_pending (r_pending r) s (r_vals r) = Done vals ->
  resources_resolved p vals.
Proof.
  intros sc p vs s r vals H Nm VT PT R F. pose proof (resolve_ok _ _ vs s H Nm VT PT) as K. rewrite R, F in K. apply K.
Qed.

Lemma reject_no_run : forall sc vars s extra, compile sc = None -> compile_and_run sc vars s extra = Err ECompile.
Proof. intros sc vars s extra H. unfold compile_and_run. rewrite H. reflexivity. Qed.

(* ---- command.Compiler: a cache in front of the compiler ----------------------------------------------------------- *)
(* texts T, keys K = SHA-256 digests, [compile_text] the uncached compiler.  The cache is ANY partial map (any size,
   any eviction policy, any history) whose entries were put there by [Compile]: that is [cache_sound]. *)
Definition cached_compile {T K} (sha : T -> K) (compile_text : T -> option program) (cache : K -> option program) (t : T)
  : option program :=
  match cache (sha t) with Some p => Some p | None => compile_text t end.
Definition cache_sound {T K} (sha : T -> K) (compile_text : T -> option program) (cache : K -> option program) : Prop :=
  forall t p, cache (sha t) = Some p -> compile_text t = Some p.
(* the cache after a call: the new entry is stored on success (or not: [stored] is arbitrary, Set may fail), and any
   set of entries may have been evicted ([keep] is arbitrary) *)
Definition cache_after {T K} (keq : K -> K -> bool) (sha : T -> K) (compile_text : T -> option program)
  (cache : K -> option program) (t : T) (stored : bool) (keep : K -> bool) : K -> option program :=
  fun k => if keep k then
             if keq k (sha t) && stored then
               match cached_compile sha compile_text cache t with Some p => Some p | None => cache k end
             else cache k
           else None.

Lemma cache_transparent : forall T K (sha : T -> K) compile_text cache,
  cache_sound sha compile_text cache -> forall t, cached_compile sha compile_text cache t = compile_text t.
Proof.
  intros T K sha ct cache S t. unfold cached_compile. destruct (cache (sha t)) as [p|] eqn:E; [|reflexivity].
  symmetry. apply S. exact E.
Qed.
Lemma cache_sound_empty : forall T K (sha : T -> K) compile_text, cache_sound sha compile_text (fun _ => None).
Proof. intros T K sha ct t p H. discriminate. Qed.
Lemma cache_sound_after : forall T K (keq : K -> K -> bool) (sha : T -> K) compile_text cache t stored keep,
  (forall a b, keq a b = true -> a = b) -> (forall t1 t2, sha t1 = sha t2 -> t1 = t2) ->
  cache_sound sha compile_text cache -> cache_sound sha compile_text (cache_after keq sha compile_text cache t stored keep).
Proof.
  intros T K keq sha ct cache t stored keep Keq Inj S t' p H. unfold cache_after in H.
  destruct (keep (sha t')); [|discriminate].
  destruct (keq (sha t') (sha t) && stored) eqn:E; [|apply S; exact H].
  apply andb_prop in E as [E _]. apply Keq in E. apply Inj in E. subst t'.
  rewrite (cache_transparent _ _ _ _ _ S) in H. destruct (ct t) as [q|] eqn:C; [exact H|]. apply S in H. congruence.
Qed.
(* every sequence of calls, with arbitrary eviction in between, returns what fresh compilations return *)
Fixpoint cache_run {T K} (keq : K -> K -> bool) (sha : T -> K) (compile_text : T -> option program)
  (cache : K -> option program) (calls : list (T * bool * (K -> bool))) : list (option program) :=
  match calls with
  | [] => []
  | (t, stored, keep) :: rest =>
      cached_compile sha compile_text cache t ::
      cache_run keq sha compile_text (cache_after keq sha compile_text cache t stored keep) rest
  end.
Lemma cache_run_transparent : forall T K (keq : K -> K -> bool) (sha : T -> K) compile_text,
  (forall a b, keq a b = true -> a = b) -> (forall t1 t2, sha t1 = sha t2 -> t1 = t2) ->
  forall calls cache, cache_sound sha compile_text cache ->
  cache_run keq sha compile_text cache calls = map (fun c => compile_text (fst (fst c))) calls.
Proof.
  intros T K keq sha ct Keq Inj. induction calls as [|[[t stored] keep] rest IH]; intros cache S; [reflexivity|].
  cbn [cache_run map fst]. rewrite (cache_transparent _ _ _ _ _ S). f_equal. apply IH. apply cache_sound_after; assumption.
Qed.

(* ---- error classes ------------------------------------------------------------------------------------------------------ *)
Definition stage_class (e : eclass) : bool :=      (* errors of Compile / SetVars / ResolveResources *)
  match e with ECompile | EInvalidVars | EMissingVar | EMissingMeta | EBadMetaValue | EResolveOther => true | _ => false end.
Definition run_class (e : eclass) : bool :=        (* errors of ResolveBalances / Execute / vm.Run *)
  match e with
  | ENegBalance | EInsufficient | EInvalidScript | EScriptFailed | EOtherRun | EMetaOverride | EResNotFound => true
  | _ => false
  end.

Lemma resolve_resources_class : forall rest vs s acc e, resolve_resources rest vs s acc = Err e -> stage_class e = true.
Proof.
  induction rest as [|r rest IH]; intros vs s acc e H; cbn [resolve_resources] in H; [discriminate|].
  match type of H with (do x <- ?m; _) = _ => destruct m as [[[v inv] pend]|e'|p] eqn:E end; cbn [bind] in H.
  - eapply IH; exact H.
  - injection H as <-. clear IH. destruct r.
    + discriminate.
    + destruct (assoc_N name vs); [discriminate|]. injection E as <-. reflexivity.
    + destruct (as_account _) eqn:A; cbn [bind] in E.
      * destruct (meta_lookup _ _ _); [|injection E as <-; reflexivity].
        destruct (parse_lookup _ _ _); [discriminate|injection E as <-; reflexivity].
      * unfold as_account in A. destruct (nth_error _ _) as [[]|]; discriminate.
      * discriminate.
    + destruct (as_account _) eqn:A; cbn [bind] in E.
      * destruct (nth_error (r_vals acc) asset_a) as [[]|]; try discriminate; injection E as <-; reflexivity.
      * unfold as_account in A. destruct (nth_error _ _) as [[]|]; discriminate.
      * discriminate.
    + destruct (as_asset _) eqn:A; cbn [bind] in E; [discriminate| |discriminate].
      unfold as_asset in A. destruct (nth_error _ _) as [[]|]; discriminate.
  - discriminate.
Qed.
Lemma fill_pending_class : forall pend s vals e, fill_pending pend s vals = Err e -> e = ENegBalance.
Proof.
  induction pend as [|[[idx a] x] pend IH]; intros s vals e H; cbn [fill_pending] in H; [discriminate|].
  destruct (_ <? 0); [injection H as <-; reflexivity|eauto].
Qed.
Lemma needed_assets_noerr : forall vals s a assets b e, needed_assets vals s a assets b <> Err e.
Proof.
  induction assets as [|x assets IH]; intros b e; cbn [needed_assets]; [discriminate|].
  destruct (asset_of_value (nth_error vals x)) as [y|e'|p] eqn:A; cbn [bind]; [apply IH| |discriminate].
  unfold asset_of_value in A. destruct (nth_error vals x) as [[]|]; discriminate.
Qed.
Lemma resolve_balances_noerr : forall nd vals s b e, resolve_balances nd vals s b <> Err e.
Proof.
  induction nd as [|[k v] nd IH]; intros vals s b e; cbn [resolve_balances]; [discriminate|].
  destruct (as_account (nth_error vals k)) as [a|e'|p] eqn:A; cbn [bind]; [| |discriminate].
  - destruct (needed_assets vals s a v b) as [b'|e'|p] eqn:E; cbn [bind]; [apply IH| |discriminate].
    exfalso. eapply needed_assets_noerr; exact E.
  - unfold as_account in A. destruct (nth_error vals k) as [[]|]; discriminate.
Qed.

(* the machine itself: which error classes [exec] can return *)
Definition vm_class (e : eclass) : bool :=
  match e with EInsufficient | EInvalidScript | EScriptFailed | EOtherRun | EResNotFound => true | _ => false end.

Lemma pop_n_portions_noerr : forall n st e, pop_n_portions n st <> Err e.
Proof.
  induction n as [|n IH]; intros st e; cbn [pop_n_portions]; [discriminate|].
  unfold pop_portion, pop, bind. destruct (stack st) as [|v r]; [discriminate|]. destruct v; try discriminate.
  specialize (IH (set_stack st r) e). destruct (pop_n_portions n (set_stack st r)) as [[ps st2]| |]; [discriminate|congruence|discriminate].
Qed.
Lemma pop_n_fundings_err : forall n s st e, pop_n_fundings n s st = Err e -> e = EInvalidScript.
Proof.
  induction n as [|n IH]; intros s st e; cbn [pop_n_fundings]; [discriminate|].
  unfold pop_funding, pop, bind. destruct (stack st) as [|v r]; [discriminate|]. destruct v; try discriminate.
  destruct (N.eqb (f_asset f) s); [|intros H; injection H as <-; reflexivity].
  specialize (IH s (set_stack st r) e). destruct (pop_n_fundings n s (set_stack st r)) as [[fs st2]| |]; [discriminate|auto|discriminate].
Qed.

Ltac crush_match H :=
  repeat (match type of H with
          | context [match ?x with _ => _ end] =>
              lazymatch x with
              | context [match _ with _ => _ end] => fail
              | _ => let E := fresh "E" in destruct x eqn:E; try discriminate H
              end
          end);
  try discriminate H; try (injection H as <-; reflexivity).

Lemma exec_op_class : forall o st e, exec_op o st = Err e -> vm_class e = true.
Proof.
  intros o st e H. destruct o;
    try (unfold exec_op, pop_number, pop_asset, pop_account, pop_string, pop_monetary, pop_portion, pop_allotment,
           pop_funding, pop, bind in H; crush_match H; fail).
  - (* MAKE_ALLOTMENT *)
    unfold exec_op in H. destruct (pop_number st) as [[n st1]|e'|p] eqn:P; cbn [bind] in H; [| |discriminate].
    + destruct (pop_n_portions (Z.to_nat n) st1) as [[ps st2]|e'|p] eqn:Q; cbn [bind] in H; [| |discriminate].
      * destruct (new_allotment ps); [injection H as <-; reflexivity|discriminate].
      * exfalso. eapply pop_n_portions_noerr; exact Q.
    + unfold pop_number, pop, bind in P. crush_match P.
  - (* FUNDING_ASSEMBLE *)
    unfold exec_op in H. destruct (pop_number st) as [[n st1]|e'|p] eqn:P; cbn [bind] in H; [| |discriminate].
    + destruct (Z.to_nat n) as [|k]; [injection H as <-; reflexivity|].
      destruct (pop_funding st1) as [[f st2]|e'|p] eqn:Q; cbn [bind] in H; [| |discriminate].
      * destruct (pop_n_fundings k (f_asset f) st2) as [[fs st3]|e'|p] eqn:R; cbn [bind] in H; [discriminate| |discriminate].
        injection H as <-. apply pop_n_fundings_err in R. subst e'. reflexivity.
      * unfold pop_funding, pop, bind in Q. crush_match Q.
    + unfold pop_number, pop, bind in P. crush_match P.
Qed.

Lemma exec_class : forall vals code st e, exec vals code st = Err e -> vm_class e = true.
Proof.
  induction code as [|i code IH]; intros st e H; cbn [exec] in H; [discriminate|].
  destruct (exec_instr vals i st) as [st'|e'|p] eqn:E; cbn [bind] in H; [eauto| |discriminate].
  injection H as <-. destruct i; cbn [exec_instr] in E.
  - destruct (nth_error vals addr); [discriminate|injection E as <-; reflexivity].
  - eapply exec_op_class; exact E.
  - injection E as <-; reflexivity.
Qed.

Lemma run_result_class : forall vals code b extra e,
  (do st <- execute vals code b; finish st extra) = Err e -> run_class e = true.
Proof.
  intros vals code b extra e H. unfold execute in H. destruct code as [|i code]; [discriminate|].
  destruct (exec vals (i :: code) (init_state b)) as [st|e'|p] eqn:E; cbn [bind] in H; [| |discriminate].
  - destruct (stack st); [|discriminate]. cbn [bind] in H. unfold finish in H.
    destruct (negb _); [discriminate|]. match type of H with (if ?c then _ else _) = _ => destruct c end; [injection H as <-; reflexivity|discriminate].
  - injection H as <-. apply exec_class in E. destruct e'; try discriminate; reflexivity.
Qed.

(* every reported failure belongs to the stage's defined classes (holds for every input, no side condition) *)
Theorem error_classes : forall sc vars s extra,
  match compile_and_run sc vars s extra with
  | Err e => stage_class e = true
  | Done ro => match ro_result ro with Err e => run_class e = true | _ => True end
  | Panic _ => True
  end.
Proof.
  intros sc vars s extra. unfold compile_and_run. destruct (compile sc) as [p|]; [|reflexivity].
  unfold run_program. destruct vars as [vs|]; [|reflexivity].
  destruct (resolve_resources (p_res p) vs s _) as [r|e|ps] eqn:R; cbn [bind ro_result]; [|eapply resolve_resources_class; exact R|exact I].
  destruct (fill_pending (r_pending r) s (r_vals r)) as [vals|e|ps] eqn:F; cbn [bind]; [|apply fill_pending_class in F; subst e; reflexivity|exact I].
  destruct (resolve_balances (p_needed p) vals s []) as [b|e|ps] eqn:B; cbn [bind]; [|exfalso; eapply resolve_balances_noerr; exact B|exact I].
  destruct (do st <- execute vals (p_code p) b; finish st extra) as [res|e|ps] eqn:X; [exact I| |exact I].
  eapply run_result_class; exact X.
Qed.

(* ---- determinism / no residue: by construction of the model ----------------------------------------------------------- *)
(* the model is a function: the outcome depends on (script, variables, store, extra metadata keys) only *)
Lemma run_deterministic : forall sc vars s extra o1 o2,
  compile_and_run sc vars s extra = o1 -> compile_and_run sc vars s extra = o2 -> o1 = o2.
Proof. intros; congruence. Qed.
(* a cached program serving a sequence of executions: execution k returns what a fresh machine returns on
   (program, vars_k, store_k); nothing is carried over.  [run_seq] threads the program exactly as the Go code shares
   the *Program between machines; the model's program is immutable, which is what the run-twice oracle of the harness
   checks of the real code. *)
Fixpoint run_seq (p : program) (runs : list (option (list (N * value)) * store * list str)) : list (outcome run_out) :=
  match runs with
  | [] => []
  | (vars, s, extra) :: rest => run_program p vars s extra :: run_seq p rest
  end.
Lemma run_no_residue : forall p before r after,
  nth_error (run_seq p (before ++ r :: after)) (length before) =
  Some (run_program p (fst (fst r)) (snd (fst r)) (snd r)).
Proof.
  intros p before [[vars s] extra] after. induction before as [|[[v0 s0] e0] before IH]; [reflexivity|]. exact IH.
Qed.
