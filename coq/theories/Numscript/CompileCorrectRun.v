(* M1 proofs — the run pipeline: ResolveResources / ResolveBalances establish what [compile_correct] assumes and
   never panic on a compiled program; the end-to-end corollaries; the tick loop needs no fuel. *)
From Coq Require Import Lia.
From FL Require Export Numscript.CompileCorrect.
Open Scope Z_scope.

(* glue assumptions: SetVarsFromJSON / NewValueFromString produce values of the requested type *)
Definition vars_typed (rs : list resource) (vs : list (N * value)) : Prop :=
  forall t name v, In (RVar t name) rs -> assoc_N name vs = Some v -> type_of v = t.
Definition parse_typed (s : store) : Prop :=
  forall t raw v, parse_lookup (st_parse s) t raw = Some v -> type_of v = t.

(* ---- ResolveResources ------------------------------------------------------------------------------------------------ *)
Definition pending_ok (rs : list resource) (vals : list value) (pend : list (nat * account * asset)) : Prop :=
  forall idx a x, In (idx, a, x) pend ->
    (exists n a' s', nth_error rs idx = Some (RVarBalance n a' s')) /\ exists y z, nth_error vals idx = Some (VMonetary y z).

Lemma denotes_ext : forall vals v' r v, denotes vals r v -> denotes (vals ++ [v']) r v.
Proof.
  intros vals v' r v [T D]. split; [assumption|]. destruct r; auto.
  destruct D as (x & Nx & E). exists x. split; [|assumption]. rewrite nth_error_app1; [assumption|].
  apply nth_error_Some. congruence.
Qed.
Lemma compat_snoc : forall rs vals r v, compat rs vals -> length vals = length rs -> denotes (vals ++ [v]) r v ->
  compat (rs ++ [r]) (vals ++ [v]).
Proof.
  intros rs vals r v C L D i r' H. destruct (Nat.lt_ge_cases i (length rs)) as [Lt|Ge].
  - rewrite nth_error_app1 in H by assumption. destruct (C _ _ H) as (w & Nw & Dw). exists w.
    split; [rewrite nth_error_app1 by lia; assumption|apply denotes_ext; assumption].
  - rewrite nth_error_app2 in H by assumption. destruct (i - length rs)%nat as [|k] eqn:E; [|destruct k; discriminate].
    cbn in H. injection H as <-. exists v. split; [|assumption].
    rewrite nth_error_app2 by lia. replace (i - length vals)%nat with O by lia. reflexivity.
Qed.

Lemma pending_ext : forall rs vals pend r v, pending_ok rs vals pend -> pending_ok (rs ++ [r]) (vals ++ [v]) pend.
Proof.
  intros rs vals pend r v P idx a x I. destruct (P _ _ _ I) as ((n & a' & s' & N1) & y & z & N2). split.
  - exists n, a', s'. rewrite nth_error_app1; [assumption|apply nth_error_Some; congruence].
  - exists y, z. rewrite nth_error_app1; [assumption|apply nth_error_Some; congruence].
Qed.

Lemma resolve_resources_inv : forall rest rs0 vs s acc,
  wf_res (rs0 ++ rest) -> vars_typed (rs0 ++ rest) vs -> parse_typed s ->
  compat rs0 (r_vals acc) -> length (r_vals acc) = length rs0 -> pending_ok rs0 (r_vals acc) (r_pending acc) ->
  match resolve_resources rest vs s acc with
  | Done r => compat (rs0 ++ rest) (r_vals r) /\ length (r_vals r) = length (rs0 ++ rest) /\
              pending_ok (rs0 ++ rest) (r_vals r) (r_pending r)
  | Err _ => True
  | Panic _ => False
  end.
Proof.
  induction rest as [|r rest IH]; intros rs0 vs s acc W VT PT C L P.
  - cbn [resolve_resources]. rewrite app_nil_r. auto.
  - cbn [resolve_resources].
    assert (Rok : res_ok rs0 r).
    { pose proof (W (length rs0) r) as K. rewrite nth_error_app2, Nat.sub_diag in K by lia. specialize (K eq_refl).
      rewrite firstn_app, Nat.sub_diag, firstn_all in K. cbn [firstn] in K. rewrite app_nil_r in K. exact K. }
    assert (Step : forall v inv pend, denotes (r_vals acc ++ [v]) r v ->
              (forall idx a x, In (idx, a, x) pend -> idx = length rs0 /\ (exists n a' s', r = RVarBalance n a' s') /\ exists y z, v = VMonetary y z) ->
              match resolve_resources rest vs s {| r_vals := r_vals acc ++ [v]; r_involved := r_involved acc ++ inv;
                                                  r_pending := r_pending acc ++ pend |} with
              | Done r0 => compat (rs0 ++ r :: rest) (r_vals r0) /\ length (r_vals r0) = length (rs0 ++ r :: rest) /\
                           pending_ok (rs0 ++ r :: rest) (r_vals r0) (r_pending r0)
              | Err _ => True
              | Panic _ => False
              end).
    { intros v inv pend D Pd.
      replace (rs0 ++ r :: rest) with ((rs0 ++ [r]) ++ rest) by (rewrite <- app_assoc; reflexivity).
      apply IH; cbn [r_vals r_pending].
      - rewrite <- app_assoc. exact W.
      - rewrite <- app_assoc. exact VT.
      - exact PT.
      - apply compat_snoc; assumption.
      - rewrite !app_length. cbn [length]. lia.
      - intros idx a x I. apply in_app_or in I as [I|I].
        + apply (pending_ext _ _ _ r v P _ _ _ I).
        + destruct (Pd _ _ _ I) as (-> & (n & a' & s' & ->) & y & z & ->). split.
          * exists n, a', s'. rewrite nth_error_app2, Nat.sub_diag by lia. reflexivity.
          * exists y, z. rewrite nth_error_app2 by lia. replace (length rs0 - length (r_vals acc))%nat with O by lia. reflexivity. }
    destruct r as [c|t name|t name a key|name a sa|aa amt]; cbn [res_ok] in Rok.
    + cbn [bind]. apply Step; [split; reflexivity|intros ? ? ? []].
    + destruct (assoc_N name vs) as [v|] eqn:A; cbn [bind]; [|exact I].
      apply Step; [|intros ? ? ? []]. split; [|exact I]. cbn [res_type]. eapply VT; [|exact A]. apply in_or_app. right; left; reflexivity.
    + destruct Rok as [_ Ta]. destruct (compat_typed _ _ _ _ C Ta) as (w & Nw & Tw). apply type_account in Tw as (x & ->).
      rewrite Nw. cbn [as_account bind]. destruct (meta_lookup (st_meta s) x key) as [raw|]; cbn [bind]; [|exact I].
      destruct (parse_lookup (st_parse s) t raw) as [v|] eqn:Pl; cbn [bind]; [|exact I].
      apply Step; [|intros ? ? ? []]. split; [|exact I]. cbn [res_type]. eapply PT; exact Pl.
    + destruct Rok as [Ta Ts]. destruct (compat_typed _ _ _ _ C Ta) as (w & Nw & Tw). apply type_account in Tw as (x & ->).
      destruct (compat_typed _ _ _ _ C Ts) as (w2 & Nw2 & Tw2). apply type_asset in Tw2 as (y & ->).
      rewrite Nw, Nw2. cbn [as_account bind]. apply Step; [split; [reflexivity|exact I]|].
      intros idx a0 x0 [E|[]]. injection E as <- _ _. split; [congruence|]. split; eauto.
    + destruct (compat_typed _ _ _ _ C Rok) as (w & Nw & Tw). apply type_asset in Tw as (y & ->).
      rewrite Nw. cbn [as_asset bind]. apply Step; [|intros ? ? ? []]. split; [reflexivity|].
      exists y. split; [|reflexivity]. rewrite nth_error_app1; [assumption|apply nth_error_Some; congruence].
Qed.

(* ---- ResolveBalances, first loop -------------------------------------------------------------------------------------- *)
Lemma list_set_length : forall A (l : list A) i x, length (list_set l i x) = length l.
Proof. induction l as [|y l IH]; intros [|i] x; cbn [list_set length]; auto. Qed.
Lemma list_set_nth : forall A (l : list A) i x j,
  nth_error (list_set l i x) j = if Nat.eqb j i then (match nth_error l j with Some _ => Some x | None => None end) else nth_error l j.
Proof.
  induction l as [|y l IH]; intros i x j.
  - destruct i; cbn [list_set]; destruct j; cbn [nth_error]; destruct (Nat.eqb _ _); reflexivity.
  - destruct i as [|i]; cbn [list_set]; destruct j as [|j]; cbn [nth_error Nat.eqb]; auto.
Qed.

Lemma compat_list_set : forall rs vals idx x b n a' s' y z,
  compat rs vals -> nth_error rs idx = Some (RVarBalance n a' s') -> nth_error vals idx = Some (VMonetary y z) ->
  compat rs (list_set vals idx (VMonetary x b)).
Proof.
  intros rs vals idx x b n a' s' y z C N1 N2 i r H. destruct (C _ _ H) as (v & Nv & D).
  rewrite list_set_nth. destruct (Nat.eqb i idx) eqn:E.
  - apply Nat.eqb_eq in E. subst i. rewrite Nv. eexists. split; [reflexivity|].
    assert (r = RVarBalance n a' s') by congruence. subst r. split; [reflexivity|exact I].
  - exists v. split; [assumption|]. destruct D as [T D]. split; [assumption|]. destruct r; auto.
    destruct D as (w & Nw & Ew). exists w. split; [|assumption]. rewrite list_set_nth.
    destruct (Nat.eqb asset_a idx) eqn:E2; [|assumption]. apply Nat.eqb_eq in E2. subst asset_a. congruence.
Qed.

Lemma fill_pending_inv : forall pend s rs vals,
  compat rs vals -> pending_ok rs vals pend ->
  match fill_pending pend s vals with
  | Done vals' => compat rs vals' /\ length vals' = length vals
  | Err _ => True
  | Panic _ => False
  end.
Proof.
  induction pend as [|[[idx a] x] pend IH]; intros s rs vals C P; cbn [fill_pending]; [auto|].
  destruct (store_balance s a x <? 0); [exact I|].
  destruct (P idx a x (or_introl eq_refl)) as ((n & a' & s' & N1) & y & z & N2).
  specialize (IH s rs (list_set vals idx (VMonetary x (store_balance s a x)))).
  destruct (fill_pending pend s _) as [vals'| |].
  - rewrite list_set_length in IH. apply IH.
    + eapply compat_list_set; eassumption.
    + intros idx' a0 x0 I0. destruct (P idx' a0 x0 (or_intror I0)) as (R0 & y0 & z0 & N0). split; [assumption|].
      rewrite list_set_nth, N0. destruct (Nat.eqb idx' idx); eauto.
  - exact I.
  - apply IH.
    + eapply compat_list_set; eassumption.
    + intros idx' a0 x0 I0. destruct (P idx' a0 x0 (or_intror I0)) as (R0 & y0 & z0 & N0). split; [assumption|].
      rewrite list_set_nth, N0. destruct (Nat.eqb idx' idx); eauto.
Qed.

(* ---- ResolveBalances, second loop: no panic -------------------------------------------------------------------------- *)
Lemma needed_assets_nopanic : forall rs vals s a assets b, compat rs vals ->
  (forall x, In x assets -> typed rs x TAsset \/ typed rs x TMonetary) ->
  forall ps, needed_assets vals s a assets b <> Panic ps.
Proof.
  induction assets as [|x assets IH]; intros b C T ps; cbn [needed_assets]; [discriminate|].
  assert (G : exists y, asset_of_value (nth_error vals x) = Done y).
  { destruct (T x (or_introl eq_refl)) as [Tx|Tx]; destruct (compat_typed _ _ _ _ C Tx) as (w & Nw & Tw); rewrite Nw.
    - apply type_asset in Tw as (y & ->). eexists; reflexivity.
    - apply type_monetary in Tw as (y & n & ->). eexists; reflexivity. }
  destruct G as (y & ->). cbn [bind]. apply IH; [assumption|]. intros z Hz. apply T. right; exact Hz.
Qed.
Lemma resolve_balances_nopanic : forall rs vals s nd b, compat rs vals -> needed_ok nd rs ->
  forall ps, resolve_balances nd vals s b <> Panic ps.
Proof.
  induction nd as [|[k v] nd IH]; intros b C N ps; cbn [resolve_balances]; [discriminate|].
  destruct (N k v (or_introl eq_refl)) as [Tk Tv]. destruct (compat_typed _ _ _ _ C Tk) as (w & Nw & Tw).
  apply type_account in Tw as (a & ->). rewrite Nw. cbn [as_account bind].
  destruct (needed_assets vals s a v b) as [b'| |p] eqn:E; cbn [bind]; [|discriminate|].
  - apply IH; [assumption|]. intros k' v' I. apply N. right; exact I.
  - exfalso. eapply needed_assets_nopanic; eassumption.
Qed.

(* ---- the pipeline ---------------------------------------------------------------------------------------------------------- *)
Definition result_of (o : outcome run_out) : outcome result := do ro <- o; ro_result ro.

Definition init_resolved : resolved := {| r_vals := []; r_involved := []; r_pending := [] |}.

Lemma resolve_ok : forall sc p vs s, compile sc = Some p -> norm_script sc = true -> vars_typed (p_res p) vs -> parse_typed s ->
  match resolve_resources (p_res p) vs s init_resolved with
  | Done r => match fill_pending (r_pending r) s (r_vals r) with
              | Done vals => resources_resolved p vals /\ (forall b ps, resolve_balances (p_needed p) vals s b <> Panic ps)
              | Err _ => True
              | Panic _ => False
              end
  | Err _ => True
  | Panic _ => False
  end.
Proof.
  intros sc p vs s H Nm VT PT. destruct (compile_inv _ _ H Nm) as (csV & c & _ & _ & W & Er & _ & En & _).
  pose proof (resolve_resources_inv (p_res p) [] vs s init_resolved) as R. cbn [app init_resolved r_vals r_pending length] in R.
  rewrite Er in *. specialize (R (wf_r _ W) VT PT).
  destruct (resolve_resources (c_res c) vs s init_resolved) as [r| |]; [|exact I|].
  - destruct R as (C & L & P); [intros i r0 Hn; destruct i; discriminate|reflexivity|intros ? ? ? []|].
    pose proof (fill_pending_inv (r_pending r) s (c_res c) (r_vals r) C P) as F.
    destruct (fill_pending (r_pending r) s (r_vals r)) as [vals| |]; [|exact I|exact F].
    destruct F as [C' _]. split; [unfold resources_resolved; rewrite Er; exact C'|].
    intros b ps. eapply resolve_balances_nopanic; [exact C'|]. rewrite En. apply (wf_n _ W).
  - apply R; [intros i r0 Hn; destruct i; discriminate|reflexivity|intros ? ? ? []].
Qed.

Theorem pipeline_correct : forall sc p vars s extra, compile sc = Some p -> norm_script sc = true -> s_stmts sc <> [] ->
  (forall vs, vars = Some vs -> vars_typed (p_res p) vs) -> parse_typed s ->
  result_of (run_program p vars s extra) = sem_pipeline sc p vars s extra.
Proof.
  intros sc p vars s extra H Nm Ne VT PT. unfold result_of, run_program, sem_pipeline. destruct vars as [vs|]; [|reflexivity].
  pose proof (resolve_ok _ _ vs s H Nm (VT vs eq_refl) PT) as R. fold init_resolved.
  destruct (resolve_resources (p_res p) vs s init_resolved) as [r| |]; cbn [bind ro_result]; [|reflexivity|contradiction].
  destruct (fill_pending (r_pending r) s (r_vals r)) as [vals| |]; cbn [bind]; [|reflexivity|contradiction].
  destruct R as [C _]. destruct (resolve_balances (p_needed p) vals s []) as [b| |]; cbn [bind]; [|reflexivity|reflexivity].
  apply (compile_correct _ _ H Nm Ne). exact C.
Qed.

Definition no_panic {A} (o : outcome A) : Prop := match o with Panic _ => False | _ => True end.
Lemma lift_no_panic : forall A (r : sres A), no_panic (lift r).
Proof. intros A [a|e]; exact I. Qed.

Theorem run_no_panic : forall sc vars s extra, norm_script sc = true -> s_stmts sc <> [] ->
  (forall p vs, compile sc = Some p -> vars = Some vs -> vars_typed (p_res p) vs) -> parse_typed s ->
  match compile_and_run sc vars s extra with
  | Done ro => no_panic (ro_result ro)
  | Err _ => True
  | Panic _ => False
  end.
Proof.
  intros sc vars s extra Nm Ne VT PT. unfold compile_and_run. destruct (compile sc) as [p|] eqn:H; [|exact I].
  unfold run_program. destruct vars as [vs|]; [|exact I].
  pose proof (resolve_ok _ _ vs s H Nm (VT p vs eq_refl eq_refl) PT) as R. fold init_resolved.
  destruct (resolve_resources (p_res p) vs s init_resolved) as [r| |]; cbn [bind ro_result]; [|exact I|contradiction].
  destruct (fill_pending (r_pending r) s (r_vals r)) as [vals| |]; cbn [bind]; [|exact I|contradiction].
  destruct R as [C NP]. destruct (resolve_balances (p_needed p) vals s []) as [b| |ps] eqn:E; cbn [bind]; [|exact I|].
  - rewrite (compile_correct _ _ H Nm Ne vals b extra C). apply lift_no_panic.
  - exact (NP _ _ E).
Qed.

(* ---- the Go tick loop, with an explicit program counter and fuel ------------------------------------------------------ *)
Fixpoint tick_loop (fuel : nat) (res : list value) (code : list instr) (pc : nat) (st : mstate) : option (outcome mstate) :=
  match fuel with
  | O => None                                   (* out of fuel *)
  | S f =>
      match nth_error code pc with
      | None => Some (Panic PNoInstr)            (* Instructions[P] out of range *)
      | Some i =>
          match exec_instr res i st with
          | Done st' => if Nat.leb (length code) (S pc) then Some (Done st') else tick_loop f res code (S pc) st'
          | Err e => Some (Err e)
          | Panic p => Some (Panic p)
          end
      end
  end.

Lemma tick_loop_exec : forall res code fuel pc st, (pc < length code)%nat -> (length code - pc <= fuel)%nat ->
  tick_loop fuel res code pc st = Some (exec res (skipn pc code) st).
Proof.
  intros res code. induction fuel as [|f IH]; intros pc st Lt Le; [lia|].
  cbn [tick_loop]. destruct (nth_error code pc) as [i|] eqn:N1; [|apply nth_error_None in N1; lia].
  assert (Sk : skipn pc code = i :: skipn (S pc) code).
  { clear - N1. revert pc N1. induction code as [|j code IHc]; intros [|pc] N1; try discriminate.
    - injection N1 as ->. reflexivity.
    - cbn [skipn nth_error] in *. rewrite (IHc _ N1). reflexivity. }
  rewrite Sk. cbn [exec]. destruct (exec_instr res i st) as [st'|e|p]; cbn [bind]; [|reflexivity|reflexivity].
  destruct (Nat.leb (length code) (S pc)) eqn:E.
  - apply Nat.leb_le in E. rewrite skipn_all2 by lia. reflexivity.
  - apply Nat.leb_gt in E. apply IH; lia.
Qed.

(* Machine.Execute as a loop over ticks; [length code] ticks always suffice *)
Definition execute_ticks (fuel : nat) (res : list value) (code : list instr) (b : balances) : option (outcome mstate) :=
  match tick_loop fuel res code 0 (init_state b) with
  | None => None
  | Some o => Some (do st <- o; match stack st with [] => Done st | _ => Panic PStackNotEmpty end)
  end.
Theorem execute_needs_no_fuel : forall res code b fuel, (length code <= fuel)%nat -> (1 <= fuel)%nat ->
  execute_ticks fuel res code b = Some (execute res code b).
Proof.
  intros res code b fuel Le L1. unfold execute_ticks. destruct code as [|i code].
  - destruct fuel; [lia|]. reflexivity.
  - rewrite tick_loop_exec by (cbn [length] in *; lia). reflexivity.
Qed.

(* ---- the typing assumption stated on the script: "every supplied variable has its declared type" ------------------- *)
Definition vars_typed_script (sc : script) (vs : list (N * value)) : Prop :=
  forall t n, In (t, n) (rvars_of (s_vars sc)) -> forall v, assoc_N n vs = Some v -> type_of v = t.

Lemma vars_typed_of_script : forall sc p vs, compile sc = Some p -> norm_script sc = true ->
  vars_typed_script sc vs -> vars_typed (p_res p) vs.
Proof.
  intros sc p vs H Nm VT t name v I A. destruct (compile_inv _ _ H Nm) as (csV & c & SV & S & _ & Er & _).
  rewrite Er in I. apply (cs_rvar _ _ _ S) in I. apply (vs_rvar _ _ _ SV) in I as [[]|I]. eapply VT; eassumption.
Qed.

Theorem pipeline_correct_script : forall sc p vars s extra, compile sc = Some p -> norm_script sc = true -> s_stmts sc <> [] ->
  (forall vs, vars = Some vs -> vars_typed_script sc vs) -> parse_typed s ->
  result_of (run_program p vars s extra) = sem_pipeline sc p vars s extra.
Proof.
  intros sc p vars s extra H Nm Ne VT PT. apply pipeline_correct; auto.
  intros vs E. eapply vars_typed_of_script; eauto.
Qed.

Theorem run_no_panic_script : forall sc vars s extra, norm_script sc = true -> s_stmts sc <> [] ->
  (forall vs, vars = Some vs -> vars_typed_script sc vs) -> parse_typed s ->
  match compile_and_run sc vars s extra with
  | Done ro => no_panic (ro_result ro)
  | Err _ => True
  | Panic _ => False
  end.
Proof.
  intros sc vars s extra Nm Ne VT PT. apply run_no_panic; auto.
  intros p vs C E. eapply vars_typed_of_script; eauto.
Qed.
