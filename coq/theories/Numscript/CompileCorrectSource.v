(* M1 proofs — compiler correctness, sources: [visit_source] emits code that pushes the funding [sem_source]
   computes (same balances afterwards, same error class), and [take_from_source] is [take_from]. *)
From Coq Require Import Lia.
From FL Require Export Numscript.CompileCorrectExpr Numscript.CompileCorrectTracked.
Open Scope Z_scope.

(* the compiler's fallback address denotes the account of the source-level fallback expression *)
Definition fb_rel' (vals : list value) (ve : venv) (fb : option nat) (ofe : option expr) : Prop :=
  match fb with
  | Some a => exists fbe acc, ofe = Some fbe /\ eval_account ve fbe = SOk acc /\ nth_error vals a = Some (VAccount acc)
  | None => ofe = None
  end.

(* TAKE_MAX; bump 1; REPAY; push fallback; bump 2; TAKE_ALWAYS; push 2; ASSEMBLE *)
Definition max_fb (st : sstate) (f : funding) (s : asset) (amt : Z) (acc : account) : sres (funding * sstate) :=
  if amt <? 0 then SErr EOtherRun
  else if negb (N.eqb (f_asset f) s) then SErr EInvalidScript
  else
    let tot := total f in
    let missing := if tot <? amt then amt - tot else 0 in
    let '(res, rem) := take_max f amt in
    sdo st1 <- do_repay st rem;
    match withdraw_always (s_bals st1) acc s missing with
    | None => SErr EInvalidScript
    | Some (extra, b) => sdo r <- assemble [res; extra]; SOk (r, with_bals st1 b)
    end.

Lemma x_max_fb : forall vals rest stk st f s amt a1 a2 a3 afb acc,
  nth_error vals a1 = Some (VNumber 1) -> nth_error vals a2 = Some (VNumber 2) -> nth_error vals a3 = Some (VNumber 2) ->
  nth_error vals afb = Some (VAccount acc) -> tracked (s_bals st) f ->
  exec vals (IOp OP_TAKE_MAX :: IPush a1 :: IOp OP_BUMP :: IOp OP_REPAY :: IPush afb :: IPush a2 :: IOp OP_BUMP ::
             IOp OP_TAKE_ALWAYS :: IPush a3 :: IOp OP_FUNDING_ASSEMBLE :: rest) (ms (VMonetary s amt :: VFunding f :: stk) st) =
  lift_st (max_fb st f s amt acc) (fun '(r, st1) => exec vals rest (ms (VFunding r :: stk) st1)).
Proof.
  intros vals rest stk st f s amt a1 a2 a3 afb acc N1 N2 N3 Nf T.
  rewrite x_take_max. unfold max_fb. destruct (amt <? 0); [reflexivity|].
  destruct (negb (N.eqb (f_asset f) s)); [reflexivity|]. cbv zeta.
  destruct (take_max f amt) as [res rem] eqn:TM. destruct (take_max_accts _ _ _ _ TM) as (I1 & I2 & _).
  erewrite x_bump1 by eassumption. rewrite x_repay_tracked by (eapply tracked_incl; eassumption).
  destruct (do_repay st rem) as [st1|]; cbn [lift_st sbind]; [|reflexivity].
  erewrite x_push by eassumption. erewrite x_bump2 by eassumption. rewrite x_take_always.
  destruct (withdraw_always (s_bals st1) acc s (if total f <? amt then amt - total f else 0)) as [[extra b]|]; [|reflexivity].
  erewrite x_assemble2 by eassumption. destruct (assemble [res; extra]); reflexivity.
Qed.

Lemma take_from_source_ok : forall fb cs u cs', take_from_source fb cs = Some (u, cs') -> wf cs ->
  exists code, cstep cs cs' code /\
    forall vals ve ofe, ctx_ok cs' vals ve -> fb_rel' vals ve fb ofe ->
    forall stk st f s amt, tracked (s_bals st) f ->
      exec vals code (ms (VMonetary s amt :: VFunding f :: stk) st) =
      lift_st (take_from ve ofe st f s amt) (fun '(r, st1) => Done (ms (VFunding r :: stk) st1)).
Proof.
  intros fb cs u cs' H W. unfold take_from_source in H. destruct fb as [fb|].
  - cb H u1 cs1 H1. apply emit_ok in H1. pose proof (cs_wf _ _ _ H1 W) as W1.
    cb H u2 cs2 H2. apply bump_ok in H2 as (a1 & S2 & N1); auto. pose proof (cs_wf _ _ _ S2 W1) as W2.
    cb H u3 cs3 H3. apply emit_ok in H3. pose proof (cs_wf _ _ _ H3 W2) as W3.
    cb H u4 cs4 H4. apply push_addr_ok in H4. pose proof (cs_wf _ _ _ H4 W3) as W4.
    cb H u5 cs5 H5. apply bump_ok in H5 as (a2 & S5 & N2); auto. pose proof (cs_wf _ _ _ S5 W4) as W5.
    cb H u6 cs6 H6. apply emit_ok in H6. pose proof (cs_wf _ _ _ H6 W5) as W6.
    cb H u7 cs7 H7. apply push_integer_ok in H7 as (a3 & S7 & N3); auto.
    apply emit_ok in H.
    pose proof (H1 +> S2 +> H3 +> H4 +> S5 +> H6 +> S7 +> H) as S. cbn [app] in S.
    eexists. split; [exact S|].
    intros vals ve ofe Cx Fb stk st f s amt T. lift_res. const_vals.
    destruct Fb as (fbe & acc & -> & Ea & Na).
    erewrite x_max_fb by eassumption. unfold take_from, max_fb.
    destruct (amt <? 0); [reflexivity|]. destruct (negb (N.eqb (f_asset f) s)); [reflexivity|]. cbv zeta.
    destruct (take_max f amt) as [res rem]. destruct (do_repay st rem) as [st1|]; cbn [lift_st sbind]; [|reflexivity].
    rewrite Ea. cbn [sbind]. destruct (withdraw_always _ _ _ _) as [[extra b]|]; [|reflexivity].
    destruct (assemble [res; extra]); reflexivity.
  - cb H u1 cs1 H1. apply emit_ok in H1. pose proof (cs_wf _ _ _ H1 W) as W1.
    cb H u2 cs2 H2. apply bump_ok in H2 as (a1 & S2 & N1); auto.
    apply emit_ok in H.
    pose proof (H1 +> S2 +> H) as S. cbn [app] in S.
    eexists. split; [exact S|].
    intros vals ve ofe Cx Fb stk st f s amt T. lift_res. const_vals. cbn [fb_rel'] in Fb. subst ofe.
    rewrite x_take. unfold take_from. destruct (negb (N.eqb (f_asset f) s)); [reflexivity|].
    destruct (take f amt) as [[res rem]|] eqn:TK; [|reflexivity]. destruct (take_accts _ _ _ _ TK) as (I1 & I2 & _).
    erewrite x_bump1 by eassumption. rewrite x_repay_tracked by (eapply tracked_incl; eassumption).
    destruct (do_repay st rem) as [st1|]; reflexivity.
Qed.

(* ---- sources ------------------------------------------------------------------------------------------------------ *)
Fixpoint norm_source (s : source) : bool :=
  match s with
  | SAccount acc ov => norm_expr acc && match ov with OvSpecific e => norm_expr e | _ => true end
  | SMaxed m s => norm_expr m && norm_source s
  | SInOrder l => forallb norm_source l
  end.

(* the code that pushes the asset of the zero overdraft *)
Definition pa_ok (vals : list value) (pa : list instr) (za : asset) : Prop :=
  forall stk st, exec vals pa (ms stk st) = Done (ms (VAsset za :: stk) st).

Definition source_dyn (vals : list value) (ve : venv) (za : asset) (s : source) (code : list instr) (fb : option nat) : Prop :=
  fb_rel' vals ve fb (fallback_of s) /\
  forall stk st, exec vals code (ms stk st) =
                 lift_st (sem_source ve za s st) (fun '(f, st1) => Done (ms (VFunding f :: stk) st1)).

Definition source_ok (s : source) : Prop :=
  forall pa is_all cs needed emptied fb cs',
  visit_source s pa is_all cs = Some ((needed, emptied, fb), cs') -> wf cs -> norm_source s = true ->
  exists code, cstep cs cs' code /\ Forall (fun a => typed (c_res cs') a TAccount) needed /\
    forall vals ve za, ctx_ok cs' vals ve -> pa_ok vals pa za -> source_dyn vals ve za s code fb.

Lemma zero_ov_ok : forall pa (X : option nat) cs fb cs',
  (emit_all pa ;; push_integer 0 ;; emit_op OP_MONETARY_NEW ;; emit_op OP_TAKE_ALL ;; cret X) cs = Some (fb, cs') -> wf cs ->
  fb = X /\ exists a0, cstep cs cs' (pa ++ [IPush a0; IOp OP_MONETARY_NEW; IOp OP_TAKE_ALL]) /\
                       nth_error (c_res cs') a0 = Some (RConst (VNumber 0)).
Proof.
  intros pa X cs fb cs' H W.
  cb H u1 cs1 H1. apply emit_all_ok in H1. pose proof (cs_wf _ _ _ H1 W) as W1.
  cb H u2 cs2 H2. apply push_integer_ok in H2 as (a0 & S2 & N0); auto.
  cb H u3 cs3 H3. apply emit_ok in H3. cb H u4 cs4 H4. apply emit_ok in H4. apply cret_inv in H as [-> ->].
  split; [reflexivity|]. exists a0. lift_res. split; [|assumption].
  pose proof (H1 +> S2 +> H3 +> H4) as S. cbn [app] in S. exact S.
Qed.

Lemma x_zero_ov : forall vals pa za a0 acc stk st,
  pa_ok vals pa za -> nth_error vals a0 = Some (VNumber 0) ->
  exec vals (pa ++ [IPush a0; IOp OP_MONETARY_NEW; IOp OP_TAKE_ALL]) (ms (VAccount acc :: stk) st) =
  match withdraw_all (s_bals st) acc za 0 with
  | None => Err EInvalidScript
  | Some (f, b) => Done (ms (VFunding f :: stk) (with_bals st b))
  end.
Proof.
  intros vals pa za a0 acc stk st P N0. rewrite exec_app, P. cbn [bind].
  erewrite x_push by eassumption. rewrite x_mnew, x_take_all.
  destruct (withdraw_all (s_bals st) acc za 0) as [[f b]|]; reflexivity.
Qed.

Lemma source_account_ok : forall acc ov, source_ok (SAccount acc ov).
Proof.
  intros acc ov pa is_all cs needed emptied fb cs' H W Nm.
  cbn [visit_source] in H. cbn [norm_source] in Nm. apply andb_prop in Nm as [Nacc Nov].
  cb H r0 cs0 H0. destruct r0 as [[n e] f]. cb H u csA HA. apply add_sources_ok in HA.
  apply cret_inv in H as [E ->]. injection E as -> -> ->.
  cb H0 r csE HE. cb H0 a cs2 Hx. apply expect_inv in Hx as [-> ->].
  cb H0 w cs3 Hw. apply is_world_ok in Hw as [-> Hw]. fold (world_at (c_res csE) a) in Hw.
  rewrite (visit_expr_world _ _ _ _ _ HE W) in Hw.
  destruct (visit_expr_ok _ _ _ _ _ _ HE W Nacc) as (cacc & SE & _ & TE & DE). pose proof (cs_wf _ _ _ SE W) as WE.
  specialize (TE _ eq_refl).
  cb H0 fb' cs4 Hfb. cb H0 u1 cs5 Hg. apply guard_inv in Hg as [_ ->]. apply cret_inv in H0 as [E ->].
  injection E as -> -> ->.
  (* what the account expression does *)
  assert (Acc : forall vals ve, ctx_ok csE vals ve -> exists x, eval ve acc = SOk (VAccount x) /\
                  nth_error vals a = Some (VAccount x) /\
                  forall stk st, exec vals cacc (ms stk st) = Done (ms (VAccount x :: stk) st)).
  { intros vals ve Cx. destruct (DE _ _ Cx) as (_ & X & A). destruct (A _ eq_refl) as (v & Nv & Tv & _ & Ev).
    specialize (Ev ltac:(discriminate)). apply type_account in Tv as (x & ->). exists x. split; [assumption|].
    split; [assumption|]. intros stk st. rewrite (X eq_refl), Ev. reflexivity. }
  destruct ov as [|e|].
  - (* no overdraft *)
    apply zero_ov_ok in Hfb as (-> & a0 & S4 & N0); auto.
    exists (cacc ++ (pa ++ [IPush a0; IOp OP_MONETARY_NEW; IOp OP_TAKE_ALL]) ++ []).
    split; [exact (SE +> S4 +> HA)|]. lift_res. split; [constructor; [assumption|constructor]|].
    intros vals ve za Cx P. ctx_back. const_vals. destruct (Acc vals ve) as (x & Ev & Nx & X); [assumption|].
    split.
    + cbn [fallback_of]. subst w. destruct (is_world_lit acc); cbn [fb_rel']; [|reflexivity].
      exists acc, x. unfold eval_account. rewrite Ev. auto.
    + intros stk st. rewrite app_nil_r, exec_app, X. cbn [bind]. erewrite x_zero_ov by eassumption.
      cbn [sem_source]. unfold eval_account. rewrite Ev. cbn [sbind].
      destruct (withdraw_all (s_bals st) x za 0) as [[f b]|]; reflexivity.
  - (* bounded overdraft *)
    cb Hfb u2 cs6 Hg. apply guard_inv in Hg as [_ ->].
    cb Hfb r2 cs7 He. cb Hfb u3 cs8 Ht. apply expect_type_inv in Ht as [Ht ->].
    cb Hfb u4 cs9 Hk. apply emit_ok in Hk. apply cret_inv in Hfb as [-> ->].
    destruct r2 as [ty2 oa2]. cbn [fst] in Ht. subst ty2.
    destruct (visit_expr_ok _ _ _ _ _ _ He WE Nov) as (ce & Se & _ & _ & De).
    exists (cacc ++ ce ++ [IOp OP_TAKE_ALL] ++ []).
    split; [exact (SE +> Se +> Hk +> HA)|]. lift_res. split; [constructor; [assumption|constructor]|].
    intros vals ve za Cx P. ctx_back. destruct (Acc vals ve) as (x & Ev & Nx & X); [assumption|].
    split; [reflexivity|].
    intros stk st. rewrite exec_app, X. cbn [bind].
    destruct (De vals ve) as (Ty & Xe & _); [assumption|]. rewrite exec_app, (Xe eq_refl).
    cbn [sem_source]. unfold eval_account, eval_monetary. rewrite Ev. cbn [sbind].
    destruct (eval ve e) as [v|] eqn:Ee; cbn [lift_st sbind bind]; [|reflexivity].
    destruct (type_monetary _ (Ty _ eq_refl)) as (s & amt & ->). cbn [app sbind]. rewrite x_take_all.
    destruct (withdraw_all (s_bals st) x s amt) as [[f b]|]; reflexivity.
  - (* unbounded overdraft *)
    cb Hfb u2 cs6 Hg. apply guard_inv in Hg as [_ ->].
    apply zero_ov_ok in Hfb as (-> & a0 & S4 & N0); auto.
    exists (cacc ++ (pa ++ [IPush a0; IOp OP_MONETARY_NEW; IOp OP_TAKE_ALL]) ++ []).
    split; [exact (SE +> S4 +> HA)|]. lift_res. split; [constructor; [assumption|constructor]|].
    intros vals ve za Cx P. ctx_back. const_vals. destruct (Acc vals ve) as (x & Ev & Nx & X); [assumption|].
    split.
    + cbn [fallback_of fb_rel']. exists acc, x. unfold eval_account. rewrite Ev. auto.
    + intros stk st. rewrite app_nil_r, exec_app, X. cbn [bind]. erewrite x_zero_ov by eassumption.
      cbn [sem_source]. unfold eval_account. rewrite Ev. cbn [sbind].
      destruct (withdraw_all (s_bals st) x za 0) as [[f b]|]; reflexivity.
Qed.

Lemma source_maxed_ok : forall m s, source_ok s -> source_ok (SMaxed m s).
Proof.
  intros m s IH pa is_all cs needed emptied fb cs' H W Nm.
  cbn [visit_source] in H. cbn [norm_source] in Nm. apply andb_prop in Nm as [Nm_m Nm_s].
  cb H r0 cs0 H0. destruct r0 as [[n e] f]. cb H u csA HA. apply add_sources_ok in HA.
  apply cret_inv in H as [E ->]. injection E as -> -> ->.
  cb H0 r1 cs1 H1. destruct r1 as [[accounts emp1] subfb].
  destruct (IH _ _ _ _ _ _ _ H1 W Nm_s) as (csrc & S1 & F1 & D1). pose proof (cs_wf _ _ _ S1 W) as W1.
  cb H0 r cs2 He. destruct r as [ty oa]. cb H0 u1 cs3 Ht. apply expect_type_inv in Ht as [Ht ->]. cbn [fst] in Ht. subst ty.
  destruct (visit_expr_ok _ _ _ _ _ _ He W1 Nm_m) as (ce & Se & _ & _ & De). pose proof (cs_wf _ _ _ Se W1) as W2.
  cb H0 u2 cs4 Hk1. apply emit_ok in Hk1. pose proof (cs_wf _ _ _ Hk1 W2) as W4.
  cb H0 u3 cs5 Hb. apply bump_ok in Hb as (a1 & Sb & N1); auto. pose proof (cs_wf _ _ _ Sb W4) as W5.
  cb H0 u4 cs6 Hr. apply emit_ok in Hr. pose proof (cs_wf _ _ _ Hr W5) as W6.
  cb H0 u5 cs7 Hm. apply cret_inv in H0 as [E ->]. injection E as -> -> ->.
  assert (Fn : forall csX c, cstep cs1 csX c -> Forall (fun a => typed (c_res csX) a TAccount) accounts).
  { intros csX c SX. eapply Forall_impl; [|exact F1]. intros a Ta. eapply typed_mono; [apply (cs_res _ _ _ SX)|exact Ta]. }
  destruct subfb as [fbA|].
  - cb Hm u6 cs8 Hp. apply push_addr_ok in Hp. pose proof (cs_wf _ _ _ Hp W6) as W8.
    cb Hm u7 cs9 Hb2. apply bump_ok in Hb2 as (a2 & Sb2 & N2); auto. pose proof (cs_wf _ _ _ Sb2 W8) as W9.
    cb Hm u8 cs10 Hk2. apply emit_ok in Hk2. pose proof (cs_wf _ _ _ Hk2 W9) as W10.
    cb Hm u9 cs11 Hp2. apply push_integer_ok in Hp2 as (a3 & Sp2 & N3); auto. apply emit_ok in Hm.
    pose proof (Hk1 +> Sb +> Hr +> Hp +> Sb2 +> Hk2 +> Sp2 +> Hm +> HA) as Stail. cbn [app] in Stail.
    eexists. split; [exact (S1 +> Se +> Stail)|]. split; [eapply Fn; exact (Se +> Stail)|].
    intros vals ve za Cx P. lift_res. ctx_back. const_vals.
    destruct (D1 vals ve za) as [Fb X1]; [assumption|assumption|]. destruct Fb as (fbe & acc & Ff & Ea & Na).
    split; [reflexivity|]. intros stk st. rewrite exec_app, X1. cbn [sem_source].
    destruct (sem_source ve za s st) as [[f0 st0]|] eqn:E0; cbn [lift_st sbind bind]; [|reflexivity].
    destruct (sem_source_tracked _ _ _ _ _ _ E0) as [_ T0].
    destruct (De vals ve) as (Ty & Xe & _); [assumption|]. rewrite exec_app, (Xe eq_refl). unfold eval_monetary.
    destruct (eval ve m) as [v|] eqn:Em; cbn [lift_st sbind bind]; [|reflexivity].
    destruct (type_monetary _ (Ty _ eq_refl)) as (sm & mamt & ->). cbn [sbind].
    erewrite x_max_fb by eassumption. unfold max_fb. rewrite Ff.
    destruct (mamt <? 0); [reflexivity|]. destruct (negb (N.eqb (f_asset f0) sm)); [reflexivity|]. cbv zeta.
    destruct (take_max f0 mamt) as [res rem]. destruct (do_repay st0 rem) as [st1|]; cbn [lift_st sbind]; [|reflexivity].
    rewrite Ea. cbn [sbind]. destruct (withdraw_always _ _ _ _) as [[extra b]|]; [|reflexivity].
    destruct (assemble [res; extra]); reflexivity.
  - cb Hm u6 cs8 Hb2. apply bump_ok in Hb2 as (a2 & Sb2 & N2); auto. apply emit_ok in Hm.
    pose proof (Hk1 +> Sb +> Hr +> Sb2 +> Hm +> HA) as Stail. cbn [app] in Stail.
    eexists. split; [exact (S1 +> Se +> Stail)|]. split; [eapply Fn; exact (Se +> Stail)|].
    intros vals ve za Cx P. lift_res. ctx_back. const_vals.
    destruct (D1 vals ve za) as [Fb X1]; [assumption|assumption|]. cbn [fb_rel'] in Fb.
    split; [reflexivity|]. intros stk st. rewrite exec_app, X1. cbn [sem_source].
    destruct (sem_source ve za s st) as [[f0 st0]|] eqn:E0; cbn [lift_st sbind bind]; [|reflexivity].
    destruct (sem_source_tracked _ _ _ _ _ _ E0) as [_ T0].
    destruct (De vals ve) as (Ty & Xe & _); [assumption|]. rewrite exec_app, (Xe eq_refl). unfold eval_monetary.
    destruct (eval ve m) as [v|] eqn:Em; cbn [lift_st sbind bind]; [|reflexivity].
    destruct (type_monetary _ (Ty _ eq_refl)) as (sm & mamt & ->). cbn [sbind].
    rewrite x_take_max, Fb.
    destruct (mamt <? 0); [reflexivity|]. destruct (negb (N.eqb (f_asset f0) sm)); [reflexivity|]. cbv zeta.
    destruct (take_max f0 mamt) as [res rem] eqn:TM. destruct (take_max_accts _ _ _ _ TM) as (I1 & I2 & _).
    erewrite x_bump1 by eassumption. rewrite x_repay_tracked by (eapply tracked_incl; eassumption).
    destruct (do_repay st0 rem) as [st1|]; cbn [lift_st sbind]; [|reflexivity].
    erewrite x_bump1 by eassumption. rewrite x_delete_mon. reflexivity.
Qed.

(* ---- sources in order: the compiler's loop as a top-level function ------------------------------------------------- *)
Fixpoint visit_sources (l : list source) (pa : list instr) (is_all : bool) (needed emptied : list nat) (fb : option nat)
  : comp src_result :=
  match l with
  | [] => cret (needed, emptied, fb)
  | s1 :: rest =>
      cdo '(acc1, emp1, fb1) <- visit_source s1 pa is_all;
      guard (negb (match fb1, rest with Some _, _ :: _ => true | _, _ => false end)) ;;
      guard (negb (existsb (fun k => set_mem k emptied) emp1)) ;;
      visit_sources rest pa is_all (set_union acc1 needed) (set_union emp1 emptied) fb1
  end.

Lemma visit_source_inorder : forall srcs pa is_all cs,
  visit_source (SInOrder srcs) pa is_all cs =
  (cdo '(needed, emptied, fb) <-
     (cdo '(needed, emptied, fb) <- visit_sources srcs pa is_all [] [] None;
      push_integer (Z.of_nat (length srcs)) ;; emit_op OP_FUNDING_ASSEMBLE ;; cret (needed, emptied, fb));
   add_sources needed ;; cret (needed, emptied, fb)) cs.
Proof.
  intros. cbn [visit_source]. unfold cbind at 1 2 5 6.
  match goal with |- match match ?g srcs [] [] None cs with _ => _ end with _ => _ end = _ =>
    assert (E : forall l n e f cs, g l n e f cs = visit_sources l pa is_all n e f cs) end.
  { clear. induction l as [|s1 rest IH]; intros n e f cs; [reflexivity|].
    cbn [visit_sources]. unfold cbind. destruct (visit_source s1 pa is_all cs) as [[[[a1 e1] f1] cs1]|]; [|reflexivity].
    destruct (guard _ cs1) as [[u cs2]|]; [|reflexivity]. destruct (guard _ cs2) as [[u2 cs3]|]; [|reflexivity].
    apply IH. }
  rewrite E. reflexivity.
Qed.

Lemma set_insert_in : forall x y l, In x (set_insert y l) -> x = y \/ In x l.
Proof.
  induction l as [|z l IH]; cbn [set_insert]; intros H.
  - destruct H as [<-|[]]; auto.
  - destruct (Nat.ltb y z); [destruct H as [<-|H]; auto|].
    destruct (Nat.eqb y z); [auto|]. destruct H as [<-|H]; [right; left; reflexivity|].
    destruct (IH H); [auto|right; right; assumption].
Qed.
Lemma set_union_in : forall x a b, In x (set_union a b) -> In x a \/ In x b.
Proof.
  induction a as [|y a IH]; intros b H; cbn [set_union fold_right] in H; [auto|].
  apply set_insert_in in H as [->|H]; [left; left; reflexivity|].
  destruct (IH _ H); [left; right; assumption|auto].
Qed.
Lemma Forall_set_union : forall (P : nat -> Prop) a b, Forall P a -> Forall P b -> Forall P (set_union a b).
Proof.
  intros P a b Fa Fb. apply Forall_forall. intros x Hx. apply set_union_in in Hx as [Hx|Hx];
  [eapply Forall_forall in Fa|eapply Forall_forall in Fb]; eauto.
Qed.

Lemma sem_sources_length : forall ve za l st fs st1, sem_sources ve za l st = SOk (fs, st1) -> length fs = length l.
Proof.
  induction l as [|s l IH]; intros st fs st1 H; cbn [sem_sources] in H.
  - injection H as <- _. reflexivity.
  - destruct (sem_source ve za s st) as [[f st0]|]; [|discriminate]. cbn [sbind] in H.
    destruct (sem_sources ve za l st0) as [[fs' st2]|] eqn:E; [|discriminate]. cbn [sbind] in H.
    injection H as <- _. cbn [length]. f_equal. eapply IH; eassumption.
Qed.

Lemma visit_sources_ok : forall pa is_all l, Forall source_ok l ->
  forall needed0 emptied0 fb0 cs needed emptied fb cs',
  visit_sources l pa is_all needed0 emptied0 fb0 cs = Some ((needed, emptied, fb), cs') -> wf cs ->
  forallb norm_source l = true -> Forall (fun a => typed (c_res cs) a TAccount) needed0 ->
  exists code, cstep cs cs' code /\ Forall (fun a => typed (c_res cs') a TAccount) needed /\
    forall vals ve za, ctx_ok cs' vals ve -> pa_ok vals pa za ->
      match l with [] => fb = fb0 | _ => fb_rel' vals ve fb (fallback_of (SInOrder l)) end /\
      forall stk st, exec vals code (ms stk st) =
                     lift_st (sem_sources ve za l st) (fun '(fs, st1) => Done (ms (map VFunding (rev fs) ++ stk) st1)).
Proof.
  intros pa is_all l F. induction F as [|s1 rest P1 _ IH]; intros needed0 emptied0 fb0 cs needed emptied fb cs' H W Nm F0;
    cbn [visit_sources] in H.
  - apply cret_inv in H as [E ->]. injection E as -> -> ->. exists []. split; [apply cstep_refl|]. split; [assumption|].
    intros vals ve za Cx P. split; [reflexivity|]. intros stk st. reflexivity.
  - cbn [forallb] in Nm. apply andb_prop in Nm as [Nm1 Nmr].
    cb H r1 cs1 H1. destruct r1 as [[acc1 emp1] fb1].
    destruct (P1 _ _ _ _ _ _ _ H1 W Nm1) as (c1 & S1 & F1 & D1). pose proof (cs_wf _ _ _ S1 W) as W1.
    cb H u1 cs2 Hg1. apply guard_inv in Hg1 as [G1 ->]. cb H u2 cs3 Hg2. apply guard_inv in Hg2 as [_ ->].
    assert (F0' : Forall (fun a => typed (c_res cs1) a TAccount) (set_union acc1 needed0)).
    { apply Forall_set_union; [assumption|]. eapply Forall_impl; [|exact F0]. intros a Ta.
      eapply typed_mono; [apply (cs_res _ _ _ S1)|exact Ta]. }
    destruct (IH _ _ _ _ _ _ _ _ H W1 Nmr F0') as (c2 & S2 & F2 & D2).
    exists (c1 ++ c2). split; [exact (S1 +> S2)|]. split; [assumption|].
    intros vals ve za Cx P. ctx_back.
    destruct (D1 vals ve za) as [Fb1 X1]; [assumption|assumption|].
    destruct (D2 vals ve za) as [Fb2 X2]; [assumption|assumption|].
    split.
    + destruct rest as [|s2 rest']; [cbv beta iota in Fb2; subst fb; exact Fb1|exact Fb2].
    + intros stk st. rewrite exec_app, X1. cbn [sem_sources].
      destruct (sem_source ve za s1 st) as [[f1 st1]|]; cbn [lift_st sbind bind]; [|reflexivity].
      rewrite X2. destruct (sem_sources ve za rest st1) as [[fs st2]|]; cbn [lift_st sbind]; [|reflexivity].
      cbn [rev]. rewrite map_app, <- app_assoc. reflexivity.
Qed.

Lemma source_inorder_ok : forall l, Forall source_ok l -> source_ok (SInOrder l).
Proof.
  intros l F pa is_all cs needed emptied fb cs' H W Nm.
  rewrite visit_source_inorder in H. cbn [norm_source] in Nm.
  cb H r0 cs0 H0. destruct r0 as [[n e] f]. cb H u csA HA. apply add_sources_ok in HA.
  apply cret_inv in H as [E ->]. injection E as -> -> ->.
  cb H0 r1 cs1 H1. destruct r1 as [[n1 e1] f1].
  destruct (visit_sources_ok _ _ _ F _ _ _ _ _ _ _ _ H1 W Nm (Forall_nil _)) as (c1 & S1 & F1 & D1).
  pose proof (cs_wf _ _ _ S1 W) as W1.
  cb H0 u1 cs2 Hp. apply push_integer_ok in Hp as (a1 & Sp & N1); auto.
  cb H0 u2 cs3 Hk. apply emit_ok in Hk. apply cret_inv in H0 as [E ->]. injection E as -> -> ->.
  pose proof (Sp +> Hk +> HA) as Stail. cbn [app] in Stail.
  eexists. split; [exact (S1 +> Stail)|].
  split. { eapply Forall_impl; [|exact F1]. intros a Ta. eapply typed_mono; [apply (cs_res _ _ _ Stail)|exact Ta]. }
  intros vals ve za Cx P. lift_res. ctx_back. const_vals.
  destruct (D1 vals ve za) as [Fb X1]; [assumption|assumption|].
  split.
  - destruct l; [cbv beta iota in Fb; subst f1; reflexivity|exact Fb].
  - intros stk st. rewrite exec_app, X1, sem_source_inorder.
    destruct (sem_sources ve za l st) as [[fs st1]|] eqn:E; cbn [lift_st sbind bind]; [|reflexivity].
    apply sem_sources_length in E. rewrite <- E in *.
    erewrite x_assemble by eassumption. destruct (assemble fs); reflexivity.
Qed.

Theorem visit_source_ok : forall s, source_ok s.
Proof.
  induction s using source_ind2; auto using source_account_ok, source_maxed_ok, source_inorder_ok.
Qed.
