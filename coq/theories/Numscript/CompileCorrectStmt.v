(* M1 proofs — compiler correctness, statements: send (all four source shapes), save, metadata, print, fail;
   statement lists. *)
From Coq Require Import Lia.
From FL Require Export Numscript.CompileCorrectDest.
Open Scope Z_scope.

(* ---- source allotments --------------------------------------------------------------------------------------------- *)
Definition sem_allot_sources (ve : venv) (za ms : asset) :=
  fix go (l : list (aportion * source)) (parts : list Z) (st : sstate) : sres (list funding * sstate) :=
    match l, parts with
    | [], _ => SOk ([], st)
    | (_, s) :: rest, p :: ps =>
        sdo '(f, st1) <- sem_source ve za s st;
        sdo '(r, st2) <- take_from ve (fallback_of s) st1 f ms p;
        sdo '(rs, st3) <- go rest ps st2;
        SOk (r :: rs, st3)
    | _ :: _, [] => SErr EInvalidScript
    end.
Lemma sem_allot_sources_nil : forall ve za ms parts st, sem_allot_sources ve za ms [] parts st = SOk ([], st).
Proof. reflexivity. Qed.
Lemma sem_allot_sources_cons : forall ve za ms ap s rest p ps st,
  sem_allot_sources ve za ms ((ap, s) :: rest) (p :: ps) st =
  sdo '(f, st1) <- sem_source ve za s st;
  sdo '(r, st2) <- take_from ve (fallback_of s) st1 f ms p;
  sdo '(rs, st3) <- sem_allot_sources ve za ms rest ps st2;
  SOk (r :: rs, st3).
Proof. reflexivity. Qed.

Lemma sem_allot_sources_tr : forall ve za ms l parts st fs st1,
  sem_allot_sources ve za ms l parts st = SOk (fs, st1) ->
  sext st st1 /\ Forall (tracked (s_bals st1)) fs /\ length fs = length l.
Proof.
  induction l as [|[ap s] rest IH]; intros parts st fs st1 H.
  - rewrite sem_allot_sources_nil in H. injection H as <- <-. split; [apply sext_refl|split; [constructor|reflexivity]].
  - destruct parts as [|p ps]; [discriminate|]. rewrite sem_allot_sources_cons in H.
    destruct (sem_source ve za s st) as [[f st0]|] eqn:E0; [|discriminate]. cbn [sbind] in H.
    destruct (sem_source_tracked _ _ _ _ _ _ E0) as [M0 T0].
    destruct (take_from ve (fallback_of s) st0 f ms p) as [[r st2]|] eqn:E1; [|discriminate]. cbn [sbind] in H.
    destruct (take_from_tracked _ _ _ _ _ _ _ _ E1 T0) as [M1 T1].
    destruct (sem_allot_sources ve za ms rest ps st2) as [[rs st3]|] eqn:E2; [|discriminate]. cbn [sbind] in H.
    injection H as <- <-. destruct (IH _ _ _ _ E2) as (M2 & F2 & L2).
    split; [eauto using sext_trans|]. split; [|cbn [length]; congruence].
    constructor; [eapply tracked_mono; [apply sext_bmono; exact M2|exact T1]|assumption].
Qed.

Lemma x_bumpn_cons : forall vals rest st a x pre v post k,
  nth_error vals a = Some (VNumber (Z.of_nat (S k))) -> length pre = k ->
  exec vals (IPush a :: IOp OP_BUMP :: rest) (ms (x :: pre ++ v :: post) st) = exec vals rest (ms (v :: x :: pre ++ post) st).
Proof. intros. apply (x_bumpn vals rest st a (x :: pre) v post (S k)); [assumption|cbn [length]; congruence]. Qed.

Lemma allot_sources_ok : forall l i pa ma cs u cs',
  visit_allot_sources (map snd l) i pa ma cs = Some (u, cs') -> wf cs ->
  forallb norm_source (map snd l) = true -> typed (c_res cs) ma TMonetary ->
  exists code, cstep cs cs' code /\
    forall vals ve za, ctx_ok cs' vals ve -> pa_ok vals pa za ->
    forall rs parts stk st sm, i = Z.of_nat (S (length rs)) -> length parts = length l ->
      exec vals code (ms (map VFunding rs ++ map (fun x => VMonetary sm x) parts ++ stk) st) =
      lift_st (sem_allot_sources ve za sm l parts st)
              (fun '(fs, st1) => Done (ms (map VFunding (rev fs) ++ map VFunding rs ++ stk) st1)).
Proof.
  induction l as [|[ap s] rest IH]; intros i pa ma cs u cs' H W Nm Tm; cbn [map snd visit_allot_sources] in H.
  - apply cret_inv in H as [_ ->]. exists []. split; [apply cstep_refl|].
    intros vals ve za Cx P rs parts stk st sm Hi L. destruct parts; [reflexivity|discriminate].
  - cbn [map snd forallb] in Nm. apply andb_prop in Nm as [Ns Nr].
    cb H r1 cs1 H1. destruct r1 as [[accounts emp] fb].
    destruct (visit_source_ok s _ _ _ _ _ _ _ H1 W Ns) as (c1 & S1 & F1 & D1). pose proof (cs_wf _ _ _ S1 W) as W1.
    cb H u1 cs2 Hn. apply set_needed_ok in Hn; [|assumption|right; eapply typed_mono; [apply (cs_res _ _ _ S1)|exact Tm]].
    pose proof (cs_wf _ _ _ Hn W1) as W2.
    cb H u2 cs3 Hb. apply bump_ok in Hb as (a1 & Sb & N1); auto. pose proof (cs_wf _ _ _ Sb W2) as W3.
    cb H u3 cs4 Ht. apply take_from_source_ok in Ht as (ct & St & Dt); auto. pose proof (cs_wf _ _ _ St W3) as W4.
    destruct (IH _ _ _ _ _ _ H W4 Nr) as (cr & Sr & Dr).
    { eapply typed_mono; [apply (cs_res _ _ _ (S1 +> Hn +> Sb +> St))|exact Tm]. }
    eexists. split; [exact (S1 +> Hn +> Sb +> St +> Sr)|].
    intros vals ve za Cx P rs parts stk st sm Hi L. lift_res. ctx_back. const_vals.
    destruct parts as [|p ps]; [discriminate|]. cbn [length] in L. injection L as L.
    destruct (D1 vals ve za) as [Fb X1]; [assumption|assumption|].
    rewrite exec_app, X1, sem_allot_sources_cons.
    destruct (sem_source ve za s st) as [[f st0]|] eqn:E0; cbn [lift_st sbind bind]; [|reflexivity].
    destruct (sem_source_tracked _ _ _ _ _ _ E0) as [_ T0].
    cbn [app map]. subst i.
    erewrite (x_bumpn_cons vals _ st0 a1 (VFunding f) (map VFunding rs) (VMonetary sm p) _ (length rs));
      [|eassumption|rewrite map_length; reflexivity].
    rewrite exec_app, (Dt vals ve (fallback_of s)) by assumption.
    destruct (take_from ve (fallback_of s) st0 f sm p) as [[r st2]|]; cbn [lift_st sbind bind]; [|reflexivity].
    assert (Hi : Z.of_nat (S (length rs)) + 1 = Z.of_nat (S (length (r :: rs)))) by (cbn [length]; lia).
    pose proof (Dr vals ve za ltac:(assumption) P (r :: rs) ps stk st2 sm Hi L) as Xr. cbn [map app] in Xr. rewrite Xr.
    destruct (sem_allot_sources ve za sm rest ps st2) as [[fs st3]|]; cbn [lift_st sbind]; [|reflexivity].
    cbn [rev map]. rewrite map_app, <- app_assoc. reflexivity.
Qed.

(* ---- send ------------------------------------------------------------------------------------------------------------- *)
Definition norm_send_amount (m : send_amount) : bool :=
  match m with SendMon e => norm_expr e | SendAll ae => norm_expr ae end.
Definition norm_vasource (v : vasource) : bool :=
  match v with
  | VSrc s => norm_source s
  | VSrcAllot l => forallb norm_aportion (map fst l) && forallb norm_source (map snd l)
  end.

(* the part of [sem_send] that produces the funding handed to the destination *)
Definition send_src_sem (ve : venv) (m : send_amount) (src : vasource) (st : sstate) : sres (funding * sstate) :=
  match m, src with
  | SendAll ae, VSrc s => sdo a <- eval_asset ve ae; sem_source ve a s st
  | SendAll _, VSrcAllot _ => SErr ECompile
  | SendMon e, VSrc s =>
      sdo za <- lead_asset ve e;
      sdo '(f, st1) <- sem_source ve za s st;
      sdo '(ms, mamt) <- eval_monetary ve e;
      take_from ve (fallback_of s) st1 f ms mamt
  | SendMon e, VSrcAllot l =>
      sdo za <- lead_asset ve e;
      sdo '(ms, mamt) <- eval_monetary ve e;
      sdo a <- make_allotment ve (map fst l);
      sdo '(fs, st1) <- sem_allot_sources ve za ms l (allocate a mamt) st;
      sdo r <- assemble fs;
      SOk (r, st1)
  end.
Lemma sem_send_eq : forall ve m src d st,
  sem_send ve m src d st =
  sdo '(f, st1) <- send_src_sem ve m src st; sdo '(lo, st2) <- sem_dest ve d f st1; do_repay st2 lo.
Proof. intros ve [e|ae] [s|l] d st; reflexivity. Qed.

Lemma send_src_tracked : forall ve m src st f st1, send_src_sem ve m src st = SOk (f, st1) -> tracked (s_bals st1) f.
Proof.
  intros ve [e|ae] [s|l] st f st1 H; cbn [send_src_sem] in H.
  - destruct (lead_asset ve e) as [za|]; [|discriminate]. cbn [sbind] in H.
    destruct (sem_source ve za s st) as [[f0 st0]|] eqn:E0; [|discriminate]. cbn [sbind] in H.
    destruct (sem_source_tracked _ _ _ _ _ _ E0) as [_ T0].
    destruct (eval_monetary ve e) as [[sm mamt]|]; [|discriminate]. cbn [sbind] in H.
    apply take_from_tracked in H as [_ T]; assumption.
  - destruct (lead_asset ve e) as [za|]; [|discriminate]. cbn [sbind] in H.
    destruct (eval_monetary ve e) as [[sm mamt]|]; [|discriminate]. cbn [sbind] in H.
    destruct (make_allotment ve (map fst l)) as [al|]; [|discriminate]. cbn [sbind] in H.
    destruct (sem_allot_sources ve za sm l (allocate al mamt) st) as [[fs st0]|] eqn:E; [|discriminate]. cbn [sbind] in H.
    destruct (assemble fs) as [r|] eqn:A; [|discriminate]. cbn [sbind] in H. injection H as <- <-.
    apply sem_allot_sources_tr in E as (_ & F & _). eapply assemble_tracked; eassumption.
  - destruct (eval_asset ve ae) as [a|]; [|discriminate]. cbn [sbind] in H.
    apply sem_source_tracked in H as [_ T]. exact T.
  - discriminate.
Qed.

Definition visit_send_src (m : send_amount) (src : vasource) : comp unit :=
  match m with
  | SendAll ae =>
      cdo r <- visit_expr ae false;
      cdo aa <- expect TAsset r;
      match src with
      | VSrc s =>
          cdo '(accounts, _, _) <- visit_source s [IPush aa] true;
          set_needed accounts aa
      | VSrcAllot _ => cfail
      end
  | SendMon e =>
      cdo r <- visit_expr e false;
      cdo ma <- expect TMonetary r;
      let push_asset := [IPush ma; IOp OP_ASSET] in
      match src with
      | VSrc s =>
          cdo '(accounts, _, fb) <- visit_source s push_asset false;
          set_needed accounts ma ;;
          cdo _ <- visit_expr e true;
          take_from_source fb
      | VSrcAllot l =>
          cdo _ <- visit_expr e true;
          visit_allotment (map fst l) ;;
          emit_op OP_ALLOC ;;
          visit_allot_sources (map snd l) 1 push_asset ma ;;
          push_integer (Z.of_nat (length l)) ;;
          emit_op OP_FUNDING_ASSEMBLE
      end
  end.
Lemma visit_send_eq : forall m src d, visit_send m src d = (visit_send_src m src ;; visit_dest d ;; emit_op OP_REPAY).
Proof. reflexivity. Qed.

Lemma send_src_ok : forall m src cs u cs', visit_send_src m src cs = Some (u, cs') -> wf cs ->
  norm_send_amount m = true -> norm_vasource src = true ->
  exists code, cstep cs cs' code /\
    forall vals ve, ctx_ok cs' vals ve -> forall stk st,
      exec vals code (ms stk st) =
      lift_st (send_src_sem ve m src st) (fun '(f, st1) => Done (ms (VFunding f :: stk) st1)).
Proof.
  intros m src cs u cs' H W Nm Ns. destruct m as [e|ae]; cbn [visit_send_src] in H; cbn [norm_send_amount] in Nm.
  - (* send [monetary] *)
    cb H r cs1 He. cb H ma cs2 Hx. apply expect_inv in Hx as [-> ->].
    destruct (visit_expr_ok _ _ _ _ _ _ He W Nm) as (ce & Se & Cn & Te & De). rewrite (Cn eq_refl) in Se. clear Cn.
    pose proof (cs_wf _ _ _ Se W) as W1. specialize (Te _ eq_refl).
    assert (Lead : forall vals ve, ctx_ok cs1 vals ve ->
              (forall v, eval ve e = SOk v -> type_of v = TMonetary) /\
              exists x, lead_asset ve e = SOk x /\ pa_ok vals [IPush ma; IOp OP_ASSET] x).
    { intros vals ve Cx. destruct (De _ _ Cx) as (Ty & _ & A). split; [exact Ty|].
      destruct (A _ eq_refl) as (w & Nw & _ & Lw & _). destruct (Lw eq_refl) as (x & n & -> & Ll).
      exists x. split; [assumption|]. intros stk st. erewrite x_push by eassumption. rewrite x_asset_mon. reflexivity. }
    destruct src as [s|l]; cbn [norm_vasource] in Ns.
    + cb H r1 cs3 Hs. destruct r1 as [[accounts emp] fb].
      destruct (visit_source_ok s _ _ _ _ _ _ _ Hs W1 Ns) as (c1 & S1 & F1 & D1). pose proof (cs_wf _ _ _ S1 W1) as W3.
      cb H u1 cs4 Hn. apply set_needed_ok in Hn; [|assumption|right; eapply typed_mono; [apply (cs_res _ _ _ S1)|exact Te]].
      pose proof (cs_wf _ _ _ Hn W3) as W4.
      cb H r2 cs5 He2. destruct r2 as [ty2 oa2].
      destruct (visit_expr_ok _ _ _ _ _ _ He2 W4 Nm) as (ce2 & Se2 & _ & _ & De2). pose proof (cs_wf _ _ _ Se2 W4) as W5.
      apply take_from_source_ok in H as (ct & St & Dt); auto.
      eexists. split; [exact (Se +> S1 +> Hn +> Se2 +> St)|].
      intros vals ve Cx stk st. ctx_back. cbn [app].
      destruct (Lead vals ve) as (Ty & x & Ll & Pa); [assumption|].
      destruct (D1 vals ve x) as [Fb X1]; [assumption|assumption|].
      rewrite exec_app, X1. cbn [send_src_sem]. rewrite Ll. cbn [sbind].
      destruct (sem_source ve x s st) as [[f st0]|] eqn:E0; cbn [lift_st sbind bind]; [|reflexivity].
      destruct (sem_source_tracked _ _ _ _ _ _ E0) as [_ T0].
      destruct (De2 vals ve) as (_ & Xe2 & _); [assumption|]. rewrite exec_app, (Xe2 eq_refl). unfold eval_monetary.
      destruct (eval ve e) as [v|] eqn:Ee; cbn [lift_st sbind bind]; [|reflexivity].
      destruct (type_monetary _ (Ty _ eq_refl)) as (sm & mamt & ->). cbn [sbind].
      apply (Dt vals ve (fallback_of s)); assumption.
    + apply andb_prop in Ns as [Np Nss].
      cb H r2 cs3 He2. destruct r2 as [ty2 oa2].
      destruct (visit_expr_ok _ _ _ _ _ _ He2 W1 Nm) as (ce2 & Se2 & _ & _ & De2). pose proof (cs_wf _ _ _ Se2 W1) as W3.
      cb H u1 cs4 Ha. apply visit_allotment_ok in Ha as (ca & Sa & Da); auto. pose proof (cs_wf _ _ _ Sa W3) as W4.
      cb H u2 cs5 Hk. apply emit_ok in Hk. pose proof (cs_wf _ _ _ Hk W4) as W5.
      cb H u3 cs6 Hl. apply allot_sources_ok in Hl as (cl & Sl & Dl); auto.
      2:{ eapply typed_mono; [apply (cs_res _ _ _ (Se2 +> Sa +> Hk))|exact Te]. }
      pose proof (cs_wf _ _ _ Sl W5) as W6.
      cb H u4 cs7 Hp. apply push_integer_ok in Hp as (a1 & Sp & N1); auto. apply emit_ok in H.
      pose proof (Hk +> Sl +> Sp +> H) as Stail.
      eexists. split; [exact (Se +> Se2 +> Sa +> Stail)|].
      intros vals ve Cx stk st. lift_res. ctx_back. const_vals. cbn [app].
      destruct (Lead vals ve) as (Ty & x & Ll & Pa); [assumption|].
      destruct (De2 vals ve) as (_ & Xe2 & _); [assumption|]. rewrite exec_app, (Xe2 eq_refl).
      cbn [send_src_sem]. rewrite Ll. cbn [sbind]. unfold eval_monetary.
      destruct (eval ve e) as [v|] eqn:Ee; cbn [lift_st sbind bind]; [|reflexivity].
      destruct (type_monetary _ (Ty _ eq_refl)) as (sm & mamt & ->). cbn [sbind].
      rewrite exec_app, (Da vals ve) by assumption.
      destruct (make_allotment ve (map fst l)) as [al|] eqn:Ea; cbn [lift_st sbind bind]; [|reflexivity].
      pose proof (make_allotment_length _ _ _ mamt Ea) as L. rewrite map_length in L.
      cbn [app]. rewrite x_alloc.
      pose proof (Dl vals ve x ltac:(assumption) Pa [] (allocate al mamt) stk st sm eq_refl L) as Xl. cbn [map app] in Xl.
      rewrite exec_app, Xl.
      destruct (sem_allot_sources ve x sm l (allocate al mamt) st) as [[fs st1]|] eqn:El; cbn [lift_st sbind bind]; [|reflexivity].
      apply sem_allot_sources_tr in El as (_ & _ & Lf). rewrite <- Lf in *.
      erewrite x_assemble by eassumption. destruct (assemble fs); reflexivity.
  - (* send [asset *] *)
    cb H r cs1 He. cb H aa cs2 Hx. apply expect_inv in Hx as [-> ->].
    destruct (visit_expr_ok _ _ _ _ _ _ He W Nm) as (ce & Se & Cn & Te & De). rewrite (Cn eq_refl) in Se. clear Cn.
    pose proof (cs_wf _ _ _ Se W) as W1. specialize (Te _ eq_refl).
    destruct src as [s|l]; [|discriminate]. cbn [norm_vasource] in Ns.
    cb H r1 cs3 Hs. destruct r1 as [[accounts emp] fb].
    destruct (visit_source_ok s _ _ _ _ _ _ _ Hs W1 Ns) as (c1 & S1 & F1 & D1).
    apply set_needed_ok in H; [|assumption|left; eapply typed_mono; [apply (cs_res _ _ _ S1)|exact Te]].
    eexists. split; [exact (Se +> S1 +> H)|].
    intros vals ve Cx stk st. ctx_back. cbn [app]. rewrite app_nil_r.
    destruct (De vals ve) as (_ & _ & A); [assumption|]. destruct (A _ eq_refl) as (w & Nw & Tw & _ & Ew).
    specialize (Ew ltac:(discriminate)). apply type_asset in Tw as (za & ->).
    destruct (D1 vals ve za) as [_ X1]; [assumption| |].
    { intros stk' st'. apply exec_push1. assumption. }
    rewrite X1. cbn [send_src_sem]. unfold eval_asset. rewrite Ew. reflexivity.
Qed.

Ltac nonnil := let E := fresh "E" in intro E; repeat (apply app_eq_nil in E; destruct E as [_ E]); discriminate.

Lemma visit_send_ok : forall m src d cs u cs', visit_send m src d cs = Some (u, cs') -> wf cs ->
  norm_send_amount m = true -> norm_vasource src = true -> norm_dest d = true ->
  exists code, cstep cs cs' code /\ code <> [] /\
    forall vals ve, ctx_ok cs' vals ve -> forall stk st,
      exec vals code (ms stk st) = lift_st (sem_send ve m src d st) (fun st1 => Done (ms stk st1)).
Proof.
  intros m src d cs u cs' H W Nm Ns Nd. rewrite visit_send_eq in H.
  cb H u1 cs1 H1. apply send_src_ok in H1 as (c1 & S1 & D1); auto. pose proof (cs_wf _ _ _ S1 W) as W1.
  cb H u2 cs2 H2. destruct (visit_dest_ok d _ _ _ H2 W1 Nd) as (c2 & S2 & D2). apply emit_ok in H.
  eexists. split; [exact (S1 +> S2 +> H)|]. split; [nonnil|].
  intros vals ve Cx stk st. ctx_back. rewrite exec_app, (D1 vals ve) by assumption. rewrite sem_send_eq.
  destruct (send_src_sem ve m src st) as [[f st1]|] eqn:E1; cbn [lift_st sbind bind]; [|reflexivity].
  apply send_src_tracked in E1.
  rewrite exec_app, (D2 vals ve) by assumption.
  destruct (sem_dest ve d f st1) as [[lo st2]|] eqn:E2; cbn [lift_st sbind bind]; [|reflexivity].
  destruct (sem_dest_tracked ve d _ _ _ _ E2 E1) as [_ T2].
  rewrite x_repay_tracked by assumption. destruct (do_repay st2 lo); reflexivity.
Qed.

(* ---- statements ------------------------------------------------------------------------------------------------------- *)
Definition norm_stmt (s : stmt) : bool :=
  match s with
  | StPrint e => norm_expr e
  | StSave m acc => norm_send_amount m && norm_expr acc
  | StTxMeta _ v => norm_expr v
  | StAccMeta acc _ v => norm_expr acc && norm_expr v
  | StFail => true
  | StSend m src d => norm_send_amount m && norm_vasource src && norm_dest d
  end.

(* an account expression compiled without pushing: its address holds the account it evaluates to *)
Lemma account_addr : forall acc cs a cs', visit_expr acc false cs = Some ((TAccount, Some a), cs') -> wf cs ->
  norm_expr acc = true ->
  cstep cs cs' [] /\ forall vals ve, ctx_ok cs' vals ve -> exists x, eval_account ve acc = SOk x /\ nth_error vals a = Some (VAccount x).
Proof.
  intros acc cs a cs' H W Nm. destruct (visit_expr_ok _ _ _ _ _ _ H W Nm) as (ce & Se & Cn & _ & De).
  rewrite (Cn eq_refl) in Se. split; [exact Se|]. intros vals ve Cx.
  destruct (De vals ve Cx) as (_ & _ & A). destruct (A _ eq_refl) as (w & Nw & Tw & _ & Ew).
  specialize (Ew ltac:(discriminate)). apply type_account in Tw as (x & ->). exists x. unfold eval_account. rewrite Ew. auto.
Qed.

Lemma visit_stmt_ok : forall s cs u cs', visit_stmt s cs = Some (u, cs') -> wf cs -> norm_stmt s = true ->
  exists code, cstep cs cs' code /\ code <> [] /\
    forall vals ve, ctx_ok cs' vals ve -> forall stk st,
      exec vals code (ms stk st) = lift_st (sem_stmt ve s st) (fun st1 => Done (ms stk st1)).
Proof.
  intros s cs u cs' H W Nm. destruct s as [e|m acc|key v|acc key v| |m src d]; cbn [visit_stmt] in H; cbn [norm_stmt] in Nm.
  - (* print *)
    cb H r cs1 He. destruct r as [ty oa]. destruct (visit_expr_ok _ _ _ _ _ _ He W Nm) as (ce & Se & _ & _ & De).
    apply emit_ok in H. eexists. split; [exact (Se +> H)|]. split; [nonnil|].
    intros vals ve Cx stk st. ctx_back. destruct (De vals ve) as (_ & Xe & _); [assumption|].
    rewrite exec_app, (Xe eq_refl). cbn [sem_stmt]. destruct (eval ve e); cbn [lift_st sbind bind]; [|reflexivity].
    rewrite x_print. reflexivity.
  - (* save *)
    apply andb_prop in Nm as [Nmm Nacc].
    cb H u0 cs0 Hm. cb H r cs1 Ha. cb H a cs2 Hx. apply expect_inv in Hx as [-> ->].
    cb H u1 cs3 Hp. apply push_addr_ok in Hp. apply emit_ok in H.
    destruct m as [e|ae]; cbn [norm_send_amount] in Nmm.
    + cb Hm r2 cs4 He. destruct r2 as [ty oa]. apply expect_type_inv in Hm as [Ht ->]. cbn [fst] in Ht. subst ty.
      destruct (visit_expr_ok _ _ _ _ _ _ He W Nmm) as (ce & Se & _ & _ & De). pose proof (cs_wf _ _ _ Se W) as W0.
      destruct (account_addr _ _ _ _ Ha W0 Nacc) as [Sa Da].
      eexists. split; [exact (Se +> Sa +> Hp +> H)|]. split; [nonnil|].
      intros vals ve Cx stk st. ctx_back. destruct (De vals ve) as (Ty & Xe & _); [assumption|].
      destruct (Da vals ve) as (x & Ex & Nx); [assumption|].
      rewrite exec_app, (Xe eq_refl). cbn [sem_stmt sem_save]. unfold eval_monetary.
      destruct (eval ve e) as [v|]; cbn [lift_st sbind bind]; [|reflexivity].
      destruct (type_monetary _ (Ty _ eq_refl)) as (sm & amt & ->). cbn [sbind app]. rewrite Ex. cbn [sbind].
      erewrite x_push by eassumption. rewrite x_save_mon.
      destruct (amt <? 0); [reflexivity|]. destruct (bal_get (s_bals st) x sm); reflexivity.
    + cb Hm r2 cs4 He. cb Hm aa cs5 Hx. apply expect_inv in Hx as [-> ->]. apply push_addr_ok in Hm.
      destruct (visit_expr_ok _ _ _ _ _ _ He W Nmm) as (ce & Se & Cn & _ & De). rewrite (Cn eq_refl) in Se.
      pose proof (cs_wf _ _ _ (Se +> Hm) W) as W0.
      destruct (account_addr _ _ _ _ Ha W0 Nacc) as [Sa Da].
      eexists. split; [exact (Se +> Hm +> Sa +> Hp +> H)|]. split; [nonnil|].
      intros vals ve Cx stk st. ctx_back. destruct (De vals ve) as (_ & _ & A); [assumption|].
      destruct (A _ eq_refl) as (w & Nw & Tw & _ & Ew). specialize (Ew ltac:(discriminate)). apply type_asset in Tw as (sa & ->).
      destruct (Da vals ve) as (x & Ex & Nx); [assumption|]. cbn [app].
      erewrite x_push by eassumption. erewrite x_push by eassumption. rewrite x_save_asset.
      cbn [sem_stmt sem_save]. unfold eval_asset. rewrite Ew. cbn [sbind]. rewrite Ex. cbn [sbind].
      destruct (bal_get (s_bals st) x sa) as [z|]; [destruct (0 <? z)|]; reflexivity.
  - (* set_tx_meta *)
    cb H r cs1 He. destruct r as [ty oa]. destruct (visit_expr_ok _ _ _ _ _ _ He W Nm) as (ce & Se & _ & _ & De).
    pose proof (cs_wf _ _ _ Se W) as W1.
    cb H k cs2 Hk. apply alloc_const_ok in Hk as [Sk Nk]; auto. cb H u1 cs3 Hp. apply push_addr_ok in Hp. apply emit_ok in H.
    eexists. split; [exact (Se +> Sk +> Hp +> H)|]. split; [nonnil|].
    intros vals ve Cx stk st. lift_res. ctx_back. const_vals. destruct (De vals ve) as (_ & Xe & _); [assumption|].
    rewrite exec_app, (Xe eq_refl). cbn [sem_stmt]. destruct (eval ve v); cbn [lift_st sbind bind app]; [|reflexivity].
    erewrite x_push by eassumption. rewrite x_txmeta. reflexivity.
  - (* set_account_meta *)
    apply andb_prop in Nm as [Nacc Nv].
    cb H r cs1 He. destruct r as [ty oa]. destruct (visit_expr_ok _ _ _ _ _ _ He W Nv) as (ce & Se & _ & _ & De).
    pose proof (cs_wf _ _ _ Se W) as W1.
    cb H k cs2 Hk. apply alloc_const_ok in Hk as [Sk Nk]; auto. pose proof (cs_wf _ _ _ Sk W1) as W2.
    cb H u1 cs3 Hp. apply push_addr_ok in Hp. pose proof (cs_wf _ _ _ Hp W2) as W3.
    cb H r2 cs4 Ha. cb H a cs5 Hx. apply expect_inv in Hx as [-> ->].
    destruct (account_addr _ _ _ _ Ha W3 Nacc) as [Sa Da].
    cb H u2 cs6 Hp2. apply push_addr_ok in Hp2. apply emit_ok in H.
    eexists. split; [exact (Se +> Sk +> Hp +> Sa +> Hp2 +> H)|]. split; [nonnil|].
    intros vals ve Cx stk st. lift_res. ctx_back. const_vals. destruct (De vals ve) as (_ & Xe & _); [assumption|].
    destruct (Da vals ve) as (x & Ex & Nx); [assumption|].
    rewrite exec_app, (Xe eq_refl). cbn [sem_stmt]. destruct (eval ve v); cbn [lift_st sbind bind app]; [|reflexivity].
    rewrite Ex. cbn [sbind]. erewrite x_push by eassumption. erewrite x_push by eassumption. rewrite x_accmeta. reflexivity.
  - (* fail *)
    apply emit_ok in H. eexists. split; [exact H|]. split; [discriminate|]. intros vals ve Cx stk st. reflexivity.
  - (* send *)
    apply andb_prop in Nm as [Nm Nd]. apply andb_prop in Nm as [Nm Ns]. eapply visit_send_ok; eassumption.
Qed.

Lemma visit_stmts_ok : forall l cs u cs', visit_all visit_stmt l cs = Some (u, cs') -> wf cs -> forallb norm_stmt l = true ->
  exists code, cstep cs cs' code /\ (l <> [] -> code <> []) /\
    forall vals ve, ctx_ok cs' vals ve -> forall stk st,
      exec vals code (ms stk st) = lift_st (sem_stmts ve l st) (fun st1 => Done (ms stk st1)).
Proof.
  induction l as [|s l IH]; intros cs u cs' H W Nm; cbn [visit_all] in H.
  - apply cret_inv in H as [_ ->]. exists []. split; [apply cstep_refl|]. split; [congruence|]. intros; reflexivity.
  - cbn [forallb] in Nm. apply andb_prop in Nm as [Ns Nl].
    cb H u1 cs1 H1. destruct (visit_stmt_ok _ _ _ _ H1 W Ns) as (c1 & S1 & Nn & D1). pose proof (cs_wf _ _ _ S1 W) as W1.
    destruct (IH _ _ _ H W1 Nl) as (c2 & S2 & _ & D2).
    exists (c1 ++ c2). split; [exact (S1 +> S2)|]. split.
    + intros _ E. apply app_eq_nil in E as [E _]. contradiction.
    + intros vals ve Cx stk st. ctx_back. rewrite exec_app, (D1 vals ve) by assumption. cbn [sem_stmts].
      destruct (sem_stmt ve s st); cbn [lift_st sbind bind]; [|reflexivity]. apply (D2 vals ve); assumption.
Qed.
