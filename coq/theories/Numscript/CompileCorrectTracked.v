(* M1 proofs — a property of the source semantics alone: every funding it builds only mentions accounts that have
   an entry in the machine's balance table, so OP_REPAY never writes to a nil map ([do_repay] never fails). *)
From Coq Require Import Lia.
From FL Require Export Numscript.CompilerLemmas.
Open Scope Z_scope.

Definition accts (f : funding) : list account := map fst (f_parts f).
Definition tracked (b : balances) (f : funding) : Prop := forall a, In a (accts f) -> bal_has_account b a = true.
Definition bmono (b b' : balances) : Prop := forall a, bal_has_account b a = true -> bal_has_account b' a = true.

Lemma bmono_refl : forall b, bmono b b.
Proof. intros b a H; exact H. Qed.
Lemma bmono_trans : forall a b c, bmono a b -> bmono b c -> bmono a c.
Proof. intros a b c H1 H2 x Hx. auto. Qed.
Lemma tracked_mono : forall b b' f, bmono b b' -> tracked b f -> tracked b' f.
Proof. intros b b' f M T a Ha. auto. Qed.
Lemma tracked_incl : forall b f g, incl (accts g) (accts f) -> tracked b f -> tracked b g.
Proof. intros b f g I T a Ha. auto. Qed.

Lemma has_account_cons : forall a x s z b, bal_has_account ((x, s, z) :: b) a = N.eqb a x || bal_has_account b a.
Proof. reflexivity. Qed.

Lemma bal_set_nil : forall a s z, bal_set [] a s z = [(a, s, z)].
Proof. reflexivity. Qed.
Lemma bal_set_cons : forall a' s' z' r a s z, bal_set ((a', s', z') :: r) a s z =
  if N.eqb a a' && N.eqb s s' then (a, s, z) :: r else (a', s', z') :: bal_set r a s z.
Proof. reflexivity. Qed.
Lemma bal_get_cons : forall a' s' z' r a s, bal_get ((a', s', z') :: r) a s =
  if N.eqb a a' && N.eqb s s' then Some z' else bal_get r a s.
Proof. reflexivity. Qed.

Lemma bal_set_has : forall b a s z, bal_has_account (bal_set b a s z) a = true.
Proof.
  induction b as [|[[a' s'] z'] b IH]; intros a s z; [rewrite bal_set_nil|rewrite bal_set_cons].
  - rewrite has_account_cons, N.eqb_refl. reflexivity.
  - destruct (N.eqb a a' && N.eqb s s'); rewrite has_account_cons.
    + rewrite N.eqb_refl. reflexivity.
    + rewrite IH. apply orb_true_r.
Qed.
Lemma bal_set_mono : forall b a s z, bmono b (bal_set b a s z).
Proof.
  induction b as [|[[a' s'] z'] b IH]; intros a s z x Hx; [rewrite bal_set_nil|rewrite bal_set_cons].
  - discriminate.
  - rewrite has_account_cons in Hx. destruct (N.eqb a a' && N.eqb s s') eqn:E; rewrite has_account_cons.
    + apply andb_prop in E as [E _]. apply N.eqb_eq in E. subst a'. exact Hx.
    + apply orb_prop in Hx as [Hx|Hx]; [rewrite Hx; reflexivity|]. rewrite (IH _ _ _ _ Hx). apply orb_true_r.
Qed.
Lemma bal_get_has : forall b a s z, bal_get b a s = Some z -> bal_has_account b a = true.
Proof.
  induction b as [|[[a' s'] z'] b IH]; intros a s z H; [discriminate|].
  rewrite bal_get_cons in H. rewrite has_account_cons. destruct (N.eqb a a' && N.eqb s s') eqn:E.
  - apply andb_prop in E as [E _]. rewrite E. reflexivity.
  - rewrite (IH _ _ _ H). apply orb_true_r.
Qed.

Lemma withdraw_all_tracked : forall b a s ov f b', withdraw_all b a s ov = Some (f, b') -> bmono b b' /\ tracked b' f.
Proof.
  intros b a s ov f b' H. unfold withdraw_all in H. destruct (bal_get b a s) as [bal|] eqn:G; [|discriminate].
  apply bal_get_has in G.
  destruct (0 <? bal + ov); injection H as <- <-.
  - split; [apply bal_set_mono|]. intros x [<-|[]]. apply bal_set_has.
  - split; [apply bmono_refl|]. intros x [<-|[]]. exact G.
Qed.
Lemma withdraw_always_tracked : forall b a s amt f b', withdraw_always b a s amt = Some (f, b') -> bmono b b' /\ tracked b' f.
Proof.
  intros b a s amt f b' H. unfold withdraw_always in H. destruct (bal_get b a s) as [bal|] eqn:G; [|discriminate].
  injection H as <- <-. split; [apply bal_set_mono|]. intros x [<-|[]]. apply bal_set_has.
Qed.

Lemma take_loop_accts : forall ps rem t r m, take_loop rem ps = (t, r, m) ->
  incl (map fst t) (map fst ps) /\ incl (map fst r) (map fst ps).
Proof.
  induction ps as [|[a amt] ps IH]; intros rem t r m H; cbn [take_loop] in H.
  - injection H as <- <- _. split; apply incl_refl.
  - destruct (0 <? rem).
    + destruct (rem <? amt).
      * injection H as <- <- _. cbn [map fst]. split; [|apply incl_refl].
        intros x [<-|[]]. left; reflexivity.
      * destruct (take_loop (rem - amt) ps) as [[t' r'] m'] eqn:E. injection H as <- <- _.
        destruct (IH _ _ _ _ E) as [I1 I2]. cbn [map fst]. split.
        -- intros x [<-|Hx]; [left; reflexivity|right; auto].
        -- intros x Hx. right; auto.
    + injection H as <- <- _. split; [intros x []|apply incl_refl].
Qed.
Lemma take_accts : forall f amt res rem, take f amt = Some (res, rem) ->
  incl (accts res) (accts f) /\ incl (accts rem) (accts f) /\ f_asset res = f_asset f /\ f_asset rem = f_asset f.
Proof.
  intros f amt res rem H. unfold take in H. destruct (take_loop amt (f_parts f)) as [[t r] m] eqn:E.
  destruct (m =? 0); [|discriminate]. injection H as <- <-. destruct (take_loop_accts _ _ _ _ _ E) as [I1 I2].
  unfold accts; cbn [f_parts f_asset]. repeat split; auto.
  rewrite map_app. apply incl_app; [|assumption].
  destruct (f_parts f) as [|[a x] ps]; [intros y []|]. destruct (amt =? 0); [|intros y []].
  intros y [<-|[]]. left; reflexivity.
Qed.
Lemma take_max_accts : forall f amt res rem, take_max f amt = (res, rem) ->
  incl (accts res) (accts f) /\ incl (accts rem) (accts f) /\ f_asset res = f_asset f /\ f_asset rem = f_asset f.
Proof.
  intros f amt res rem H. unfold take_max in H. destruct (take_loop amt (f_parts f)) as [[t r] m] eqn:E.
  injection H as <- <-. destruct (take_loop_accts _ _ _ _ _ E) as [I1 I2]. unfold accts; cbn [f_parts f_asset]. auto.
Qed.

Lemma concat_parts_accts : forall l1 l2, incl (map fst (concat_parts l1 l2)) (map fst l1 ++ map fst l2).
Proof.
  induction l1 as [|[a x] l1 IH]; intros l2.
  - apply incl_refl.
  - unfold concat_parts; fold concat_parts. destruct l1 as [|p l1].
    + destruct l2 as [|[b y] r2]; [apply incl_refl|].
      destruct (N.eqb a b) eqn:E; [|apply incl_refl].
      apply N.eqb_eq in E; subst b. cbn [map fst app]. intros z [<-|Hz]; [left; reflexivity|right; right; assumption].
    + cbn [map fst app]. intros z [<-|Hz]; [left; reflexivity|right]. apply (IH l2). exact Hz.
Qed.

Lemma fold_concat_accts : forall fs acc b,
  (forall a, In a (map fst acc) -> bal_has_account b a = true) -> Forall (tracked b) fs ->
  forall a, In a (map fst (fold_left (fun acc f => concat_parts acc (f_parts f)) fs acc)) -> bal_has_account b a = true.
Proof.
  induction fs as [|f fs IH]; intros acc b Ha Hf; cbn [fold_left]; [assumption|].
  inversion Hf as [|? ? T Hf']; subst. apply IH; [|assumption].
  intros a Hin. apply concat_parts_accts in Hin. apply in_app_or in Hin as [Hin|Hin]; auto.
Qed.

Lemma assemble_tracked : forall b fs r, assemble fs = SOk r -> Forall (tracked b) fs -> tracked b r.
Proof.
  intros b fs r H F. unfold assemble in H. destruct (rev fs) as [|last o]; [discriminate|].
  destruct (forallb _ fs); [|discriminate]. injection H as <-. intros a Ha. unfold accts in Ha; cbn [f_parts] in Ha.
  eapply fold_concat_accts; [|eassumption|eassumption]. intros x [].
Qed.
Lemma assemble_asset2 : forall f g r, assemble [f; g] = SOk r -> f_asset r = f_asset g.
Proof.
  intros f g r H. unfold assemble in H. cbn [rev app] in H. destruct (forallb _ [f; g]); [|discriminate].
  injection H as <-. reflexivity.
Qed.

Lemma freverse_tracked : forall b f, tracked b f -> tracked b (freverse f).
Proof.
  intros b f T a Ha. apply T. unfold accts, freverse in *. cbn [f_parts] in Ha. rewrite map_rev in Ha.
  apply in_rev in Ha. exact Ha.
Qed.

Lemma repay_tracked : forall s ps b, (forall a, In a (map fst ps) -> bal_has_account b a = true) ->
  exists b', repay b s ps = Some b' /\ bmono b b'.
Proof.
  induction ps as [|[a amt] ps IH]; intros b H; unfold repay; fold repay.
  - exists b. split; [reflexivity|apply bmono_refl].
  - destruct (N.eqb a world).
    + apply IH. intros x Hx. apply H. right; exact Hx.
    + rewrite (H a (or_introl eq_refl)).
      destruct (IH (bal_set b a s (match bal_get b a s with Some z => z | None => 0 end + amt))) as (b' & R & M).
      { intros x Hx. apply bal_set_mono. apply H. right; exact Hx. }
      exists b'. split; [exact R|]. eapply bmono_trans; [apply bal_set_mono|exact M].
Qed.

Lemma do_repay_tracked : forall st f, tracked (s_bals st) f ->
  exists b', repay (s_bals st) (f_asset f) (f_parts f) = Some b' /\ do_repay st f = SOk (with_bals st b') /\ bmono (s_bals st) b'.
Proof.
  intros st f T. destruct (repay_tracked (f_asset f) (f_parts f) (s_bals st) T) as (b' & R & M).
  exists b'. unfold do_repay. rewrite R. auto.
Qed.

Lemma credit_mono : forall b d f, bmono b (credit b d f).
Proof.
  intros b d f. unfold credit. destruct (N.eqb d world); [apply bmono_refl|].
  destruct (bal_get b d (f_asset f)); [apply bal_set_mono|apply bmono_refl].
Qed.

(* machine REPAY = source-level [do_repay] on a tracked funding *)
Lemma x_repay_tracked : forall vals rest stk st f, tracked (s_bals st) f ->
  exec vals (IOp OP_REPAY :: rest) (ms (VFunding f :: stk) st) =
  lift_st (do_repay st f) (fun st' => exec vals rest (ms stk st')).
Proof.
  intros vals rest stk st f T. destruct (do_repay_tracked _ _ T) as (b' & R & D & _).
  rewrite x_repay, R, D. reflexivity.
Qed.

(* ---- the semantic functions preserve the invariant ------------------------------------------------------------ *)
(* what sources, destinations and repayments may change: balances (never dropping an account); not the metadata *)
Definition sext (st st1 : sstate) : Prop :=
  bmono (s_bals st) (s_bals st1) /\ s_txmeta st1 = s_txmeta st /\ s_accmeta st1 = s_accmeta st /\ s_printed st1 = s_printed st.
Lemma sext_refl : forall st, sext st st.
Proof. intros st. split; [apply bmono_refl|auto]. Qed.
Lemma sext_trans : forall a b c, sext a b -> sext b c -> sext a c.
Proof. intros a b c (M1 & A1 & B1 & C1) (M2 & A2 & B2 & C2). split; [eapply bmono_trans; eassumption|]. repeat split; congruence. Qed.
Lemma sext_bals : forall st b, bmono (s_bals st) b -> sext st (with_bals st b).
Proof. intros st b M. split; [exact M|]. repeat split. Qed.
Lemma sext_bmono : forall st st1, sext st st1 -> bmono (s_bals st) (s_bals st1).
Proof. intros st st1 [M _]. exact M. Qed.

Lemma take_from_tracked : forall ve fb st f s amt r st1,
  take_from ve fb st f s amt = SOk (r, st1) -> tracked (s_bals st) f ->
  sext st st1 /\ tracked (s_bals st1) r.
Proof.
  intros ve fb st f s amt r st1 H T. unfold take_from in H. destruct fb as [fbe|].
  - destruct (amt <? 0); [discriminate|]. destruct (negb (N.eqb (f_asset f) s)); [discriminate|].
    cbv zeta in H. destruct (take_max f amt) as [res rem] eqn:TM.
    destruct (take_max_accts _ _ _ _ TM) as (I1 & I2 & _).
    destruct (do_repay_tracked st rem (tracked_incl _ _ _ I2 T)) as (b1 & _ & D & M1). rewrite D in H. cbn [sbind] in H.
    destruct (eval_account ve fbe) as [a|]; [|discriminate]. cbn [sbind] in H.
    cbn [s_bals with_bals] in H.
    destruct (withdraw_always b1 a s (if total f <? amt then amt - total f else 0)) as [[extra b2]|] eqn:WA; [|discriminate].
    destruct (withdraw_always_tracked _ _ _ _ _ _ WA) as [M2 T2].
    destruct (assemble [res; extra]) as [r'|] eqn:A; [|discriminate]. cbn [sbind] in H. injection H as <- <-.
    split; [eapply sext_trans; [apply sext_bals; exact M1|apply sext_bals; exact M2]|]. cbn [s_bals with_bals].
    eapply assemble_tracked; [exact A|]. constructor; [|constructor; [assumption|constructor]].
    eapply tracked_mono; [|eapply tracked_incl; [exact I1|exact T]]. eapply bmono_trans; eassumption.
  - destruct (negb (N.eqb (f_asset f) s)); [discriminate|].
    destruct (take f amt) as [[res rem]|] eqn:TK; [|discriminate].
    destruct (take_accts _ _ _ _ TK) as (I1 & I2 & _).
    destruct (do_repay_tracked st rem (tracked_incl _ _ _ I2 T)) as (b1 & _ & D & M1). rewrite D in H. cbn [sbind] in H.
    injection H as <- <-. split; [apply sext_bals; assumption|]. cbn [s_bals with_bals].
    eapply tracked_mono; [eassumption|]. eapply tracked_incl; eassumption.
Qed.

(* the in-order loop of [sem_source], as a top-level function *)
Fixpoint sem_sources (ve : venv) (za : asset) (l : list source) (st : sstate) : sres (list funding * sstate) :=
  match l with
  | [] => SOk ([], st)
  | s1 :: rest =>
      sdo '(f, st1) <- sem_source ve za s1 st;
      sdo '(fs, st2) <- sem_sources ve za rest st1;
      SOk (f :: fs, st2)
  end.
Lemma sem_source_inorder : forall ve za l st,
  sem_source ve za (SInOrder l) st = sdo '(fs, st1) <- sem_sources ve za l st; sdo r <- assemble fs; SOk (r, st1).
Proof.
  intros. cbn [sem_source].
  match goal with |- (sdo x <- ?g l st; _) = _ => assert (E : forall l st, g l st = sem_sources ve za l st) end.
  { clear. induction l as [|s1 rest IH]; intros st; [reflexivity|].
    cbn [sem_sources]. destruct (sem_source ve za s1 st) as [[f st1]|]; [|reflexivity]. cbn [sbind].
    rewrite IH. reflexivity. }
  rewrite E. reflexivity.
Qed.

Fixpoint source_ind2 (P : source -> Prop)
  (HA : forall acc ov, P (SAccount acc ov)) (HM : forall m s, P s -> P (SMaxed m s))
  (HI : forall l, Forall P l -> P (SInOrder l)) (s : source) {struct s} : P s :=
  match s with
  | SAccount acc ov => HA acc ov
  | SMaxed m s' => HM m s' (source_ind2 P HA HM HI s')
  | SInOrder l => HI l ((fix go (l : list source) : Forall P l :=
                           match l with
                           | [] => Forall_nil P
                           | x :: r => Forall_cons x (source_ind2 P HA HM HI x) (go r)
                           end) l)
  end.

Lemma sem_source_tracked : forall ve za s st f st1,
  sem_source ve za s st = SOk (f, st1) -> sext st st1 /\ tracked (s_bals st1) f.
Proof.
  intros ve za s. induction s as [acc ov|m s IH|l IH] using source_ind2; intros st f st1 H.
  - cbn [sem_source] in H. destruct (eval_account ve acc) as [a|]; [|discriminate]. cbn [sbind] in H.
    destruct (match ov with OvSpecific e => eval_monetary ve e | _ => SOk (za, 0) end) as [[oa oamt]|]; [|discriminate].
    cbn [sbind] in H. destruct (withdraw_all (s_bals st) a oa oamt) as [[f' b]|] eqn:WA; [|discriminate].
    injection H as <- <-. apply withdraw_all_tracked in WA as [M T]. split; [apply sext_bals; exact M|exact T].
  - cbn [sem_source] in H. destruct (sem_source ve za s st) as [[f0 st0]|] eqn:E0; [|discriminate]. cbn [sbind] in H.
    destruct (IH _ _ _ E0) as [M0 T0].
    destruct (eval_monetary ve m) as [[ms mamt]|]; [|discriminate]. cbn [sbind] in H.
    destruct (mamt <? 0); [discriminate|]. destruct (negb (N.eqb (f_asset f0) ms)); [discriminate|].
    cbv zeta in H. destruct (take_max f0 mamt) as [res rem] eqn:TM.
    destruct (take_max_accts _ _ _ _ TM) as (I1 & I2 & _).
    destruct (do_repay_tracked st0 rem (tracked_incl _ _ _ I2 T0)) as (b1 & _ & D & M1). rewrite D in H. cbn [sbind] in H.
    assert (Tres : tracked b1 res) by (eapply tracked_mono; [exact M1|eapply tracked_incl; eassumption]).
    destruct (fallback_of s) as [fbe|].
    + destruct (eval_account ve fbe) as [a|]; [|discriminate]. cbn [sbind s_bals with_bals] in H.
      destruct (withdraw_always b1 a ms (if total f0 <? mamt then mamt - total f0 else 0)) as [[extra b2]|] eqn:WA; [|discriminate].
      destruct (withdraw_always_tracked _ _ _ _ _ _ WA) as [M2 T2].
      destruct (assemble [res; extra]) as [r'|] eqn:A; [|discriminate]. cbn [sbind] in H. injection H as <- <-.
      split; [eapply sext_trans; [exact M0|eapply sext_trans; [apply sext_bals; exact M1|apply sext_bals; exact M2]]|].
      cbn [s_bals with_bals].
      eapply assemble_tracked; [exact A|]. constructor; [eapply tracked_mono; eassumption|constructor; [assumption|constructor]].
    + injection H as <- <-. split; [eapply sext_trans; [exact M0|apply sext_bals; exact M1]|assumption].
  - rewrite sem_source_inorder in H.
    destruct (sem_sources ve za l st) as [[fs st2]|] eqn:E; [|discriminate]. cbn [sbind] in H.
    destruct (assemble fs) as [r|] eqn:A; [|discriminate]. cbn [sbind] in H. injection H as <- <-.
    assert (G : sext st st2 /\ Forall (tracked (s_bals st2)) fs).
    { clear A. revert st fs st2 E. induction IH as [|s l Hs _ IHl]; intros st fs st2 E; cbn [sem_sources] in E.
      - injection E as <- <-. split; [apply sext_refl|constructor].
      - destruct (sem_source ve za s st) as [[f1 st1]|] eqn:E1; [|discriminate]. cbn [sbind] in E.
        destruct (sem_sources ve za l st1) as [[fs' st2']|] eqn:E2; [|discriminate]. cbn [sbind] in E.
        injection E as <- <-. destruct (Hs _ _ _ E1) as [M1 T1]. destruct (IHl _ _ _ E2) as [M2 F2].
        split; [eauto using sext_trans|]. constructor; [eapply tracked_mono; [apply sext_bmono|]; eassumption|assumption]. }
    destruct G as [M F]. split; [assumption|]. eapply assemble_tracked; eassumption.
Qed.
