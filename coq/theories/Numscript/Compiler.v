(* M1 — internal/machine/script/compiler/{compiler,source,destination,allotment,program}.go.
   A state monad over (instructions, resources, sources, varIdx, neededBalances); definitions only.
   Models the tree WITH the repairs "fix: numscript ..." (save evaluates its whole expression; the error of a
   source allotment is not dropped). *)
From FL Require Export Numscript.Syntax.
Open Scope Z_scope.

Inductive resource :=
| RConst (v : value)
| RVar (t : vtype) (name : N)
| RVarMeta (t : vtype) (name : N) (acc : nat) (key : str)
| RVarBalance (name : N) (acc : nat) (asset_a : nat)
| RMonetary (asset_a : nat) (amt : Z).

Definition res_type (r : resource) : vtype :=
  match r with
  | RConst v => type_of v
  | RVar t _ => t
  | RVarMeta t _ _ _ => t
  | RVarBalance _ _ _ => TMonetary
  | RMonetary _ _ => TMonetary
  end.

(* machine.ValueEquals restricted to what can be a constant *)
Definition const_eqb (a b : value) : bool :=
  match a, b with
  | VAccount x, VAccount y => N.eqb x y
  | VAsset x, VAsset y => N.eqb x y
  | VNumber x, VNumber y => Z.eqb x y
  | VString x, VString y => N.eqb x y
  | VMonetary x n, VMonetary y m => N.eqb x y && Z.eqb n m
  | VPortion p, VPortion q => portion_eqb p q
  | _, _ => false
  end.

Record cstate := {
  c_code : list instr;
  c_res : list resource;
  c_sources : list nat;               (* sorted, no duplicates *)
  c_vars : list (N * nat);
  c_needed : list (nat * list nat)    (* account address -> sorted set of asset/monetary addresses; sorted by key *)
}.

Definition comp (A : Type) := cstate -> option (A * cstate).   (* None = a compile error *)
Definition cret {A} (a : A) : comp A := fun s => Some (a, s).
Definition cbind {A B} (m : comp A) (f : A -> comp B) : comp B :=
  fun s => match m s with None => None | Some (a, s') => f a s' end.
Definition cfail {A} : comp A := fun _ => None.
Notation "'cdo' x <- m ; f" := (cbind m (fun x => f)) (at level 200, x name, m at level 100, f at level 200, right associativity).
Notation "'cdo' ' p <- m ; f" := (cbind m (fun x => match x with p => f end))
  (at level 200, p pattern, m at level 100, f at level 200, right associativity).
Notation "m ;; f" := (cbind m (fun _ => f)) (at level 199, right associativity).

Definition guard (b : bool) : comp unit := if b then cret tt else cfail.

Definition emit (i : instr) : comp unit :=
  fun s => Some (tt, {| c_code := c_code s ++ [i]; c_res := c_res s; c_sources := c_sources s;
                        c_vars := c_vars s; c_needed := c_needed s |}).
Definition emit_op (o : opcode) : comp unit := emit (IOp o).
Fixpoint emit_all (l : list instr) : comp unit :=
  match l with [] => cret tt | i :: r => emit i ;; emit_all r end.

Fixpoint find_const (rs : list resource) (v : value) (i : nat) : option nat :=
  match rs with
  | [] => None
  | RConst c :: r => if const_eqb c v then Some i else find_const r v (S i)
  | _ :: r => find_const r v (S i)
  end.

Definition max_resources : N := 65536.
Definition append_resource (r : resource) : comp nat :=
  fun s => if N.leb max_resources (N.of_nat (length (c_res s))) then None
           else Some (length (c_res s),
                      {| c_code := c_code s; c_res := c_res s ++ [r]; c_sources := c_sources s;
                         c_vars := c_vars s; c_needed := c_needed s |}).
(* AllocateResource *)
Definition alloc (r : resource) : comp nat :=
  fun s => match r with
           | RConst v => match find_const (c_res s) v 0 with
                         | Some i => Some (i, s)
                         | None => append_resource r s
                         end
           | _ => append_resource r s
           end.
Definition alloc_const (v : value) : comp nat := alloc (RConst v).

Definition push_addr (a : nat) : comp unit := emit (IPush a).
Definition push_integer (n : Z) : comp unit := cdo a <- alloc_const (VNumber n); push_addr a.
Definition bump (n : Z) : comp unit := push_integer n ;; emit_op OP_BUMP.

Definition get_res (a : nat) : comp (option resource) := fun s => Some (nth_error (c_res s) a, s).
Definition is_world (a : nat) : comp bool :=
  cdo r <- get_res a;
  cret (match r with Some (RConst (VAccount w)) => N.eqb w world | _ => false end).

Fixpoint set_insert (x : nat) (l : list nat) : list nat :=
  match l with
  | [] => [x]
  | y :: r => if Nat.ltb x y then x :: l else if Nat.eqb x y then l else y :: set_insert x r
  end.
Definition set_union (a b : list nat) : list nat := fold_right set_insert b a.
Definition set_mem (x : nat) (l : list nat) : bool := existsb (Nat.eqb x) l.

Fixpoint needed_insert (acc addr : nat) (m : list (nat * list nat)) : list (nat * list nat) :=
  match m with
  | [] => [(acc, [addr])]
  | (k, v) :: r => if Nat.ltb acc k then (acc, [addr]) :: m
                   else if Nat.eqb acc k then (k, set_insert addr v) :: r
                   else (k, v) :: needed_insert acc addr r
  end.
Definition set_needed (accounts : list nat) (addr : nat) : comp unit :=
  fun s => Some (tt, {| c_code := c_code s; c_res := c_res s; c_sources := c_sources s; c_vars := c_vars s;
                        c_needed := fold_right (fun a m => needed_insert a addr m) (c_needed s) accounts |}).
Definition add_sources (accounts : list nat) : comp unit :=
  fun s => Some (tt, {| c_code := c_code s; c_res := c_res s; c_sources := set_union accounts (c_sources s);
                        c_vars := c_vars s; c_needed := c_needed s |}).

Fixpoint assoc_N {A} (k : N) (l : list (N * A)) : option A :=
  match l with [] => None | (k', v) :: r => if N.eqb k k' then Some v else assoc_N k r end.

(* VisitVariable *)
Definition visit_variable (name : N) (push : bool) : comp (vtype * nat) :=
  fun s => match assoc_N name (c_vars s) with
           | None => None
           | Some idx =>
               match nth_error (c_res s) idx with
               | None => None
               | Some r => ((if push then push_addr idx else cret tt) ;; cret (res_type r, idx)) s
               end
           end.

Definition find_monetary (rs : list resource) (asset_a : nat) (amt : Z) : option nat :=
  (* the Go loop keeps the last match *)
  (fix go (rs : list resource) (i : nat) (found : option nat) : option nat :=
     match rs with
     | [] => found
     | RMonetary a m :: r => go r (S i) (if Nat.eqb a asset_a && Z.eqb m amt then Some i else found)
     | _ :: r => go r (S i) found
     end) rs O None.

Definition lit_const (v : value) (push : bool) : comp (vtype * option nat) :=
  cdo a <- alloc_const v;
  (if push then push_addr a else cret tt) ;;
  cret (type_of v, Some a).

(* VisitExpr / VisitLit; the address is None for number arithmetic (Go returns a nil *Address) *)
Fixpoint visit_expr (e : expr) (push : bool) : comp (vtype * option nat) :=
  match e with
  | ELitAccount a => lit_const (VAccount a) push
  | ELitAsset a => lit_const (VAsset a) push
  | ELitNumber n => lit_const (VNumber n) push
  | ELitString s => lit_const (VString s) push
  | ELitPortion None => cfail
  | ELitPortion (Some r) => lit_const (VPortion (PSpecific r)) push
  | ELitMonetary ae amt =>
      cdo '(ty, aaddr) <- visit_expr ae false;
      match ty, aaddr with
      | TAsset, Some aa =>
          cdo found <- (fun s => Some (find_monetary (c_res s) aa amt, s));
          cdo ma <- match found with Some i => cret i | None => alloc (RMonetary aa amt) end;
          (if push then push_addr ma else cret tt) ;;
          cret (TMonetary, Some ma)
      | _, _ => cfail
      end
  | EVar name => cdo '(ty, idx) <- visit_variable name push; cret (ty, Some idx)
  | EAddSub is_add l r =>
      cdo '(lt, la) <- visit_expr l push;
      match lt with
      | TNumber =>
          cdo '(rt, _) <- visit_expr r push;
          guard (vtype_eqb rt TNumber) ;;
          (if push then emit_op (if is_add then OP_IADD else OP_ISUB) else cret tt) ;;
          cret (TNumber, None)
      | TMonetary =>
          cdo '(rt, _) <- visit_expr r push;
          guard (vtype_eqb rt TMonetary) ;;
          (if push then emit_op (if is_add then OP_MONETARY_ADD else OP_MONETARY_SUB) else cret tt) ;;
          cret (TMonetary, la)
      | _ => cfail
      end
  end.

Definition expect (t : vtype) (r : vtype * option nat) : comp nat :=
  match r with
  | (ty, Some a) => if vtype_eqb ty t then cret a else cfail
  | (ty, None) => cfail
  end.
Definition expect_type (t : vtype) (r : vtype * option nat) : comp unit := guard (vtype_eqb (fst r) t).

(* VisitAllotment: portions are visited from the last to the first *)
Record allot_acc := { aa_total : ratio; aa_var : bool; aa_rem : bool }.
Fixpoint visit_portions_rev (ps : list aportion) (acc : allot_acc) : comp allot_acc :=
  match ps with
  | [] => cret acc
  | APConst None :: _ => cfail
  | APConst (Some r) :: rest =>
      cdo a <- alloc_const (VPortion (PSpecific r));
      push_addr a ;;
      visit_portions_rev rest {| aa_total := ratio_add r (aa_total acc); aa_var := aa_var acc; aa_rem := aa_rem acc |}
  | APVar name :: rest =>
      cdo '(ty, _) <- visit_variable name true;
      guard (vtype_eqb ty TPortion) ;;
      visit_portions_rev rest {| aa_total := aa_total acc; aa_var := true; aa_rem := aa_rem acc |}
  | APRemaining :: rest =>
      guard (negb (aa_rem acc)) ;;
      cdo a <- alloc_const (VPortion PRemaining);
      push_addr a ;;
      visit_portions_rev rest {| aa_total := aa_total acc; aa_var := aa_var acc; aa_rem := true |}
  end.
Definition visit_allotment (ps : list aportion) : comp unit :=
  cdo acc <- visit_portions_rev (rev ps) {| aa_total := ratio_zero; aa_var := false; aa_rem := false |};
  let t := aa_total acc in
  guard (negb (ratio_gt1 t)) ;;
  guard (negb (ratio_lt1 t && negb (aa_rem acc))) ;;
  guard (negb (ratio_eq1 t && aa_var acc)) ;;
  guard (negb (ratio_eq1 t && aa_rem acc)) ;;
  push_integer (Z.of_nat (length ps)) ;;
  emit_op OP_MAKE_ALLOTMENT.

(* TakeFromSource *)
Definition take_from_source (fallback : option nat) : comp unit :=
  match fallback with
  | None => emit_op OP_TAKE ;; bump 1 ;; emit_op OP_REPAY
  | Some fb =>
      emit_op OP_TAKE_MAX ;; bump 1 ;; emit_op OP_REPAY ;; push_addr fb ;; bump 2 ;; emit_op OP_TAKE_ALWAYS ;;
      push_integer 2 ;; emit_op OP_FUNDING_ASSEMBLE
  end.

(* VisitSource: returns (needed accounts, emptied accounts, fallback) *)
Definition src_result := (list nat * list nat * option nat)%type.

Fixpoint visit_source (s : source) (push_asset : list instr) (is_all : bool) : comp src_result :=
  cdo '(needed, emptied, fb) <-
    match s with
    | SAccount acc ov =>
        cdo r <- visit_expr acc true;
        cdo a <- expect TAccount r;
        cdo w <- is_world a;
        cdo fb <-
          match ov with
          | OvNone =>
              emit_all push_asset ;; push_integer 0 ;; emit_op OP_MONETARY_NEW ;; emit_op OP_TAKE_ALL ;;
              cret (if w then Some a else None)
          | OvSpecific e =>
              guard (negb w) ;;
              cdo r2 <- visit_expr e true;
              expect_type TMonetary r2 ;;
              emit_op OP_TAKE_ALL ;; cret None
          | OvUnbounded =>
              guard (negb w) ;;
              emit_all push_asset ;; push_integer 0 ;; emit_op OP_MONETARY_NEW ;; emit_op OP_TAKE_ALL ;;
              cret (Some a)
          end;
        guard (negb (match fb with Some _ => is_all | None => false end)) ;;
        cret ([a], [a], fb)
    | SMaxed max src =>
        cdo '(accounts, _, subfb) <- visit_source src push_asset false;
        cdo r <- visit_expr max true;
        expect_type TMonetary r ;;
        emit_op OP_TAKE_MAX ;; bump 1 ;; emit_op OP_REPAY ;;
        match subfb with
        | Some fb => push_addr fb ;; bump 2 ;; emit_op OP_TAKE_ALWAYS ;; push_integer 2 ;; emit_op OP_FUNDING_ASSEMBLE
        | None => bump 1 ;; emit_op OP_DELETE
        end ;;
        cret (accounts, [], None)
    | SInOrder srcs =>
        cdo '(needed, emptied, fb) <-
          (fix go (l : list source) (needed emptied : list nat) (fb : option nat) : comp src_result :=
             match l with
             | [] => cret (needed, emptied, fb)
             | s1 :: rest =>
                 cdo '(acc1, emp1, fb1) <- visit_source s1 push_asset is_all;
                 guard (negb (match fb1, rest with Some _, _ :: _ => true | _, _ => false end)) ;;
                 guard (negb (existsb (fun k => set_mem k emptied) emp1)) ;;
                 go rest (set_union acc1 needed) (set_union emp1 emptied) fb1
             end) srcs [] [] None;
        push_integer (Z.of_nat (length srcs)) ;; emit_op OP_FUNDING_ASSEMBLE ;;
        cret (needed, emptied, fb)
    end;
  add_sources needed ;;
  cret (needed, emptied, fb).

(* the allotment-source loop shared by VisitMonetary (SrcAllotment) *)
Fixpoint visit_allot_sources (l : list source) (i : Z) (push_asset : list instr) (mon_addr : nat) : comp unit :=
  match l with
  | [] => cret tt
  | s :: rest =>
      cdo '(accounts, _, fb) <- visit_source s push_asset false;
      set_needed accounts mon_addr ;;
      bump i ;;
      take_from_source fb ;;
      visit_allot_sources rest (i + 1) push_asset mon_addr
  end.

(* VisitDestinationRecursive / VisitKeptOrDestination / VisitDestinationAllotment / VisitAllocDestination *)
Fixpoint visit_dest (d : dest) : comp unit :=
  match d with
  | DAccount e =>
      emit_op OP_FUNDING_SUM ;; emit_op OP_TAKE ;;
      cdo r <- visit_expr e true;
      expect_type TAccount r ;;
      emit_op OP_SEND
  | DInOrder l rem =>
      emit_op OP_FUNDING_SUM ;; emit_op OP_ASSET ;; push_integer 0 ;; emit_op OP_MONETARY_NEW ;; bump 1 ;;
      (fix go (l : list (expr * kod)) : comp unit :=
         match l with
         | [] => cret tt
         | (amt, k) :: rest =>
             cdo r <- visit_expr amt true;
             expect_type TMonetary r ;;
             emit_op OP_TAKE_MAX ;; bump 2 ;; emit_op OP_DELETE ;;
             visit_kod k ;;
             emit_op OP_FUNDING_SUM ;; bump 3 ;; emit_op OP_MONETARY_ADD ;; bump 1 ;; bump 2 ;;
             push_integer 2 ;; emit_op OP_FUNDING_ASSEMBLE ;;
             go rest
         end) l ;;
      emit_op OP_FUNDING_REVERSE ;; bump 1 ;; emit_op OP_TAKE ;; emit_op OP_FUNDING_REVERSE ;; bump 1 ;;
      emit_op OP_FUNDING_REVERSE ;;
      visit_kod rem ;;
      bump 1 ;; push_integer 2 ;; emit_op OP_FUNDING_ASSEMBLE
  | DAllot l =>
      emit_op OP_FUNDING_SUM ;;
      visit_allotment (map fst l) ;;
      emit_op OP_ALLOC ;;
      bump (Z.of_nat (length l)) ;;
      (fix go (l : list (aportion * kod)) : comp unit :=
         match l with
         | [] => cret tt
         | (_, k) :: rest =>
             bump 1 ;; emit_op OP_TAKE ;; visit_kod k ;; bump 1 ;; push_integer 2 ;; emit_op OP_FUNDING_ASSEMBLE ;;
             go rest
         end) l
  end
with visit_kod (k : kod) : comp unit :=
  match k with
  | Kept => cret tt
  | KTo d => visit_dest d
  end.

Definition visit_destination (d : dest) : comp unit := visit_dest d ;; emit_op OP_REPAY.

Definition visit_send (m : send_amount) (src : vasource) (d : dest) : comp unit :=
  match m with
  | SendAll ae =>
      cdo r <- visit_expr ae false;
      cdo aa <- expect TAsset r;
      match src with
      | VSrc s =>
          cdo '(accounts, _, _) <- visit_source s [IPush aa] true;
          set_needed accounts aa
      | VSrcAllot _ => cfail
      end
  | SendMon e =>
      cdo r <- visit_expr e false;
      cdo ma <- expect TMonetary r;
      let push_asset := [IPush ma; IOp OP_ASSET] in
      match src with
      | VSrc s =>
          cdo '(accounts, _, fb) <- visit_source s push_asset false;
          set_needed accounts ma ;;
          cdo _ <- visit_expr e true;
          take_from_source fb
      | VSrcAllot l =>
          cdo _ <- visit_expr e true;
          visit_allotment (map fst l) ;;
          emit_op OP_ALLOC ;;
          visit_allot_sources (map snd l) 1 push_asset ma ;;
          push_integer (Z.of_nat (length l)) ;;
          emit_op OP_FUNDING_ASSEMBLE
      end
  end ;;
  visit_destination d.

Definition visit_stmt (st : stmt) : comp unit :=
  match st with
  | StPrint e => cdo _ <- visit_expr e true; emit_op OP_PRINT
  | StFail => emit_op OP_FAIL
  | StSend m src d => visit_send m src d
  | StTxMeta key v =>
      cdo _ <- visit_expr v true;
      cdo k <- alloc_const (VString key);
      push_addr k ;; emit_op OP_TX_META
  | StAccMeta acc key v =>
      cdo _ <- visit_expr v true;
      cdo k <- alloc_const (VString key);
      push_addr k ;;
      cdo r <- visit_expr acc false;
      cdo a <- expect TAccount r;
      push_addr a ;; emit_op OP_ACCOUNT_META
  | StSave m acc =>
      match m with
      | SendAll ae => cdo r <- visit_expr ae false; cdo aa <- expect TAsset r; push_addr aa
      | SendMon e => cdo r <- visit_expr e true; expect_type TMonetary r
      end ;;
      cdo r <- visit_expr acc false;
      cdo a <- expect TAccount r;
      push_addr a ;; emit_op OP_SAVE
  end.

Definition max_vars : N := 32768.

Definition bind_var (name : N) (addr : nat) : comp unit :=
  fun s => Some (tt, {| c_code := c_code s; c_res := c_res s; c_sources := c_sources s;
                        c_vars := (name, addr) :: c_vars s; c_needed := c_needed s |}).
Definition var_declared (name : N) : comp bool :=
  fun s => Some (match assoc_N name (c_vars s) with Some _ => true | None => false end, s).
Definition declarable (t : vtype) : bool :=
  match t with TAccount | TAsset | TNumber | TString | TMonetary | TPortion => true | _ => false end.

Definition visit_var (v : vardecl) : comp unit :=
  cdo dup <- var_declared (vd_name v);
  guard (negb dup) ;;
  guard (declarable (vd_type v)) ;;
  cdo addr <-
    match vd_orig v with
    | None => alloc (RVar (vd_type v) (vd_name v))
    | Some (OMeta acc key) =>
        cdo r <- visit_expr acc false;
        cdo a <- expect TAccount r;
        alloc (RVarMeta (vd_type v) (vd_name v) a key)
    | Some (OBalance acc ae) =>
        guard (vtype_eqb (vd_type v) TMonetary) ;;
        cdo r <- visit_expr acc false;
        cdo a <- expect TAccount r;
        cdo r2 <- visit_expr ae false;
        cdo s <- expect TAsset r2;
        alloc (RVarBalance (vd_name v) a s)
    end;
  bind_var (vd_name v) addr.

Fixpoint visit_all {A} (f : A -> comp unit) (l : list A) : comp unit :=
  match l with [] => cret tt | x :: r => f x ;; visit_all f r end.

Record program := {
  p_code : list instr;
  p_res : list resource;
  p_sources : list nat;
  p_needed : list (nat * list nat);
  p_vars : list (N * nat)    (* varIdx: name -> resource address (not part of the Go Program; used to relate to Sem) *)
}.

Definition empty_cstate : cstate := {| c_code := []; c_res := []; c_sources := []; c_vars := []; c_needed := [] |}.

Definition compile (s : script) : option program :=
  if N.ltb max_vars (N.of_nat (length (s_vars s))) then None
  else match (visit_all visit_var (s_vars s) ;; visit_all visit_stmt (s_stmts s)) empty_cstate with
       | None => None
       | Some (_, c) => Some {| p_code := c_code c; p_res := c_res c; p_sources := c_sources c; p_needed := c_needed c;
                               p_vars := c_vars c |}
       end.
