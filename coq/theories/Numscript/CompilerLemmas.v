(* M1 proofs — the compiler monad: resource-table prefixes, well-formedness of the compiler state, what a resolved
   resource table must satisfy ([compat]), and the specification of the primitive compiler actions. *)
From Coq Require Import Lia Znumtheory.
From FL Require Export Numscript.ExecLemmas.
Open Scope Z_scope.

(* ---- prefixes ---------------------------------------------------------------------------------------------- *)
Definition prefix {A} (l1 l2 : list A) : Prop := exists t, l2 = l1 ++ t.
Lemma prefix_refl : forall A (l : list A), prefix l l.
Proof. intros; exists []; rewrite app_nil_r; reflexivity. Qed.
Lemma prefix_trans : forall A (a b c : list A), prefix a b -> prefix b c -> prefix a c.
Proof. intros A a b c [t ->] [u ->]. exists (t ++ u). rewrite app_assoc. reflexivity. Qed.
Lemma prefix_app : forall A (l t : list A), prefix l (l ++ t).
Proof. intros; exists t; reflexivity. Qed.
Lemma prefix_nth : forall A (l1 l2 : list A) i x, prefix l1 l2 -> nth_error l1 i = Some x -> nth_error l2 i = Some x.
Proof.
  intros A l1 l2 i x [t ->] H. rewrite nth_error_app1; [assumption|]. apply nth_error_Some. congruence.
Qed.
Lemma prefix_length : forall A (l1 l2 : list A), prefix l1 l2 -> (length l1 <= length l2)%nat.
Proof. intros A l1 l2 [t ->]. rewrite app_length. lia. Qed.
Lemma prefix_firstn : forall A (l : list A) i, prefix (firstn i l) l.
Proof. intros. exists (skipn i l). symmetry. apply firstn_skipn. Qed.

(* ---- normalised ratio literals (Go's big.Rat is always in lowest terms) ------------------------------------ *)
Definition ratio_normb (r : ratio) : bool := Z.gcd (fst r) (Zpos (snd r)) =? 1.

Lemma ratio_eqb_norm : forall p q, ratio_normb p = true -> ratio_normb q = true -> ratio_eqb p q = true -> p = q.
Proof.
  intros [n1 d1] [n2 d2]. unfold ratio_normb, ratio_eqb. cbn [fst snd]. intros G1 G2 E.
  apply Z.eqb_eq in G1, G2, E.
  assert (D12 : (Zpos d1 | Zpos d2)).
  { apply Z.gauss with n1. - exists n2. exact E. - rewrite Z.gcd_comm. exact G1. }
  assert (D21 : (Zpos d2 | Zpos d1)).
  { apply Z.gauss with n2. - exists n1. symmetry; exact E. - rewrite Z.gcd_comm. exact G2. }
  clear G1 G2.
  assert (Hd : Zpos d1 = Zpos d2) by (apply Z.divide_antisym_nonneg; [lia|lia|assumption|assumption]).
  assert (d1 = d2) by congruence. subst d2.
  f_equal. apply Z.mul_cancel_r with (Zpos d1); lia.
Qed.

Definition const_ok (v : value) : bool :=
  match v with
  | VAccount _ | VAsset _ | VNumber _ | VString _ => true
  | VPortion PRemaining => true
  | VPortion (PSpecific r) => ratio_normb r
  | _ => false
  end.

Lemma const_eqb_eq : forall c v, const_ok c = true -> const_ok v = true -> const_eqb c v = true -> c = v.
Proof.
  intros c v Hc Hv E. destruct c, v; cbn in E; try discriminate; try (cbn in Hc; discriminate).
  - apply N.eqb_eq in E; congruence.
  - apply N.eqb_eq in E; congruence.
  - apply Z.eqb_eq in E; congruence.
  - apply N.eqb_eq in E; congruence.
  - destruct p as [|p], p0 as [|q]; cbn in E; try discriminate; [reflexivity|].
    cbn in Hc, Hv. f_equal. f_equal. apply ratio_eqb_norm; assumption.
Qed.

(* ---- static well-formedness of a resource table ------------------------------------------------------------ *)
Definition typed (rs : list resource) (a : nat) (t : vtype) : Prop :=
  exists r, nth_error rs a = Some r /\ res_type r = t.

Lemma typed_mono : forall rs rs' a t, prefix rs rs' -> typed rs a t -> typed rs' a t.
Proof. intros rs rs' a t P (r & H & T). exists r. split; [eapply prefix_nth; eassumption|assumption]. Qed.
Lemma typed_lt : forall rs a t, typed rs a t -> (a < length rs)%nat.
Proof. intros rs a t (r & H & _). apply nth_error_Some. congruence. Qed.

Definition is_var_res (r : resource) : bool :=
  match r with RVar _ _ | RVarMeta _ _ _ _ | RVarBalance _ _ _ => true | _ => false end.

Definition res_ok (rs : list resource) (r : resource) : Prop :=
  match r with
  | RConst v => const_ok v = true
  | RVar t _ => declarable t = true
  | RVarMeta t _ a _ => declarable t = true /\ typed rs a TAccount
  | RVarBalance _ a s => typed rs a TAccount /\ typed rs s TAsset
  | RMonetary a _ => typed rs a TAsset
  end.
Lemma res_ok_mono : forall rs rs' r, prefix rs rs' -> res_ok rs r -> res_ok rs' r.
Proof.
  intros rs rs' r P H. destruct r; cbn in *; auto.
  - destruct H; split; eauto using typed_mono.
  - destruct H; split; eauto using typed_mono.
  - eauto using typed_mono.
Qed.

Definition wf_res (rs : list resource) : Prop := forall i r, nth_error rs i = Some r -> res_ok (firstn i rs) r.

Lemma wf_res_nil : wf_res [].
Proof. intros i r H. destruct i; discriminate. Qed.
Lemma wf_res_snoc : forall rs r, wf_res rs -> res_ok rs r -> wf_res (rs ++ [r]).
Proof.
  intros rs r W R i r' H. destruct (Nat.lt_ge_cases i (length rs)) as [L|L].
  - rewrite nth_error_app1 in H by assumption. rewrite firstn_app.
    replace (i - length rs)%nat with O by lia. cbn [firstn]. rewrite app_nil_r. auto.
  - rewrite nth_error_app2 in H by assumption.
    destruct (i - length rs)%nat as [|k] eqn:E; [|destruct k; discriminate].
    cbn in H. injection H as <-. assert (i = length rs) by lia. subst i.
    rewrite firstn_app, Nat.sub_diag, firstn_all. cbn [firstn]. rewrite app_nil_r. assumption.
Qed.
Lemma wf_res_ok : forall rs i r, wf_res rs -> nth_error rs i = Some r -> res_ok rs r.
Proof. intros rs i r W H. eapply res_ok_mono; [apply (prefix_firstn _ rs i)|auto]. Qed.

Lemma assoc_N_in : forall A k (l : list (N * A)) v, assoc_N k l = Some v -> In (k, v) l.
Proof.
  induction l as [|[k' v'] l IH]; intros v H; [discriminate|]. cbn [assoc_N] in H.
  destruct (N.eqb k k') eqn:E; [|right; auto]. apply N.eqb_eq in E. injection H as <-. subst k'. left; reflexivity.
Qed.
Definition vars_ok (cv : list (N * nat)) (rs : list resource) : Prop :=
  forall name idx, In (name, idx) cv -> exists r, nth_error rs idx = Some r /\ is_var_res r = true.
Definition needed_ok (nd : list (nat * list nat)) (rs : list resource) : Prop :=
  forall k v, In (k, v) nd -> typed rs k TAccount /\ forall x, In x v -> typed rs x TAsset \/ typed rs x TMonetary.

Record wf (cs : cstate) : Prop := {
  wf_r : wf_res (c_res cs);
  wf_v : vars_ok (c_vars cs) (c_res cs);
  wf_n : needed_ok (c_needed cs) (c_res cs)
}.

Lemma vars_ok_mono : forall cv rs rs', prefix rs rs' -> vars_ok cv rs -> vars_ok cv rs'.
Proof. intros cv rs rs' P H name idx A. destruct (H _ _ A) as (r & N1 & V). exists r; split; [eapply prefix_nth; eauto|auto]. Qed.
Lemma needed_ok_mono : forall nd rs rs', prefix rs rs' -> needed_ok nd rs -> needed_ok nd rs'.
Proof.
  intros nd rs rs' P H k v I. destruct (H _ _ I) as [T A]. split; [eauto using typed_mono|].
  intros x Hx. destruct (A _ Hx); eauto using typed_mono.
Qed.

(* ---- what the resolved values must satisfy ------------------------------------------------------------------ *)
Definition denotes (vals : list value) (r : resource) (v : value) : Prop :=
  type_of v = res_type r /\
  match r with
  | RConst c => v = c
  | RMonetary aa amt => exists x, nth_error vals aa = Some (VAsset x) /\ v = VMonetary x amt
  | _ => True
  end.
Definition compat (rs : list resource) (vals : list value) : Prop :=
  forall i r, nth_error rs i = Some r -> exists v, nth_error vals i = Some v /\ denotes vals r v.
Lemma compat_mono : forall rs rs' vals, prefix rs rs' -> compat rs' vals -> compat rs vals.
Proof. intros rs rs' vals P C i r H. apply C. eapply prefix_nth; eauto. Qed.

(* the source-level environment is the resolved table read through the variable index *)
Definition env_ok (cv : list (N * nat)) (vals : list value) (ve : venv) : Prop :=
  forall name, assoc_N name ve = match assoc_N name cv with Some idx => nth_error vals idx | None => None end.

Definition ctx_ok (cs : cstate) (vals : list value) (ve : venv) : Prop :=
  compat (c_res cs) vals /\ env_ok (c_vars cs) vals ve.

Lemma compat_typed : forall rs vals a t, compat rs vals -> typed rs a t ->
  exists v, nth_error vals a = Some v /\ type_of v = t.
Proof.
  intros rs vals a t C (r & H & T). destruct (C _ _ H) as (v & Hv & D & _). exists v. split; [assumption|congruence].
Qed.
Lemma compat_const : forall rs vals a c, compat rs vals -> nth_error rs a = Some (RConst c) -> nth_error vals a = Some c.
Proof. intros rs vals a c C H. destruct (C _ _ H) as (v & Hv & _ & E). cbn in E. congruence. Qed.

Lemma type_account : forall v, type_of v = TAccount -> exists a, v = VAccount a.
Proof. destruct v; try discriminate; eauto. Qed.
Lemma type_asset : forall v, type_of v = TAsset -> exists a, v = VAsset a.
Proof. destruct v; try discriminate; eauto. Qed.
Lemma type_number : forall v, type_of v = TNumber -> exists a, v = VNumber a.
Proof. destruct v; try discriminate; eauto. Qed.
Lemma type_string : forall v, type_of v = TString -> exists a, v = VString a.
Proof. destruct v; try discriminate; eauto. Qed.
Lemma type_monetary : forall v, type_of v = TMonetary -> exists a n, v = VMonetary a n.
Proof. destruct v; try discriminate; eauto. Qed.
Lemma type_portion : forall v, type_of v = TPortion -> exists p, v = VPortion p.
Proof. destruct v; try discriminate; eauto. Qed.
Lemma vtype_eqb_eq : forall a b, vtype_eqb a b = true -> a = b.
Proof. destruct a, b; cbn; congruence. Qed.

(* ---- the monad ----------------------------------------------------------------------------------------------- *)
Lemma cbind_inv : forall A B (m : comp A) (f : A -> comp B) cs r,
  cbind m f cs = Some r -> exists a cs1, m cs = Some (a, cs1) /\ f a cs1 = Some r.
Proof. intros A B m f cs r H. unfold cbind in H. destruct (m cs) as [[a cs1]|]; [eauto|discriminate]. Qed.
Lemma cret_inv : forall A (a b : A) cs cs', cret a cs = Some (b, cs') -> b = a /\ cs' = cs.
Proof. intros A a b cs cs' H. unfold cret in H. injection H as -> ->. auto. Qed.
Lemma guard_inv : forall b cs u cs', guard b cs = Some (u, cs') -> b = true /\ cs' = cs.
Proof. intros b cs u cs' H. destruct b; cbn in H; [injection H as _ ->; auto|discriminate]. Qed.

(* one compiler step: code is appended, the resource table is extended, the variable index is untouched *)
Record cstep (cs cs' : cstate) (code : list instr) : Prop := {
  cs_code : c_code cs' = c_code cs ++ code;
  cs_res : prefix (c_res cs) (c_res cs');
  cs_vars : c_vars cs' = c_vars cs;
  cs_wf : wf cs -> wf cs';
  cs_rvar : forall t n, In (RVar t n) (c_res cs') -> In (RVar t n) (c_res cs)   (* plain variables are only declared up front *)
}.
Lemma cstep_refl : forall cs, cstep cs cs [].
Proof. intros; constructor; auto using prefix_refl. rewrite app_nil_r; reflexivity. Qed.
Lemma cstep_trans : forall a b c c1 c2, cstep a b c1 -> cstep b c c2 -> cstep a c (c1 ++ c2).
Proof.
  intros a b c c1 c2 [C1 R1 V1 W1 X1] [C2 R2 V2 W2 X2]. constructor.
  - rewrite C2, C1, app_assoc. reflexivity.
  - eapply prefix_trans; eassumption.
  - congruence.
  - auto.
  - auto.
Qed.
Lemma ctx_ok_back : forall cs cs' code vals ve, cstep cs cs' code -> ctx_ok cs' vals ve -> ctx_ok cs vals ve.
Proof.
  intros cs cs' code vals ve [_ R V _ _] [C E]. split; [eapply compat_mono; eassumption|rewrite <- V; assumption].
Qed.

Lemma emit_ok : forall i cs u cs', emit i cs = Some (u, cs') -> cstep cs cs' [i].
Proof.
  intros i cs u cs' H. unfold emit in H. injection H as _ <-. constructor; cbn; auto using prefix_refl.
  intros [W V N]; constructor; assumption.
Qed.
Lemma emit_all_ok : forall l cs u cs', emit_all l cs = Some (u, cs') -> cstep cs cs' l.
Proof.
  induction l as [|i l IH]; intros cs u cs' H; cbn [emit_all] in H.
  - apply cret_inv in H as [_ ->]. apply cstep_refl.
  - apply cbind_inv in H as (a & cs1 & H1 & H2). apply emit_ok in H1. apply IH in H2.
    apply (cstep_trans _ _ _ _ _ H1 H2).
Qed.

(* ---- allocation ---------------------------------------------------------------------------------------------- *)
Lemma find_const_sound : forall rs v i j, find_const rs v i = Some j ->
  exists c, nth_error rs (j - i) = Some (RConst c) /\ const_eqb c v = true /\ (i <= j)%nat.
Proof.
  induction rs as [|r rs IH]; intros v i j H; [discriminate|].
  cbn [find_const] in H.
  assert (Hrec : find_const rs v (S i) = Some j ->
                 exists c, nth_error (r :: rs) (j - i) = Some (RConst c) /\ const_eqb c v = true /\ (i <= j)%nat).
  { intros H'. destruct (IH _ _ _ H') as (c & N1 & E & L). exists c. split; [|split; [assumption|lia]].
    replace (j - i)%nat with (S (j - S i)) by lia. exact N1. }
  destruct r; auto.
  destruct (const_eqb v0 v) eqn:E; auto.
  injection H as <-. exists v0. rewrite Nat.sub_diag. auto.
Qed.

Lemma append_resource_ok : forall r cs i cs', append_resource r cs = Some (i, cs') ->
  i = length (c_res cs) /\ c_res cs' = c_res cs ++ [r] /\ c_code cs' = c_code cs /\ c_vars cs' = c_vars cs /\
  c_needed cs' = c_needed cs.
Proof.
  intros r cs i cs' H. unfold append_resource in H.
  destruct (N.leb max_resources (N.of_nat (length (c_res cs)))); [discriminate|].
  injection H as <- <-. cbn. auto.
Qed.

Lemma wf_append : forall cs cs' r, wf cs -> res_ok (c_res cs) r -> c_res cs' = c_res cs ++ [r] ->
  c_vars cs' = c_vars cs -> c_needed cs' = c_needed cs -> wf cs'.
Proof.
  intros cs cs' r [W V N] R E1 E2 E3. constructor; rewrite ?E1, ?E2, ?E3.
  - apply wf_res_snoc; assumption.
  - eapply vars_ok_mono; [apply prefix_app|assumption].
  - eapply needed_ok_mono; [apply prefix_app|assumption].
Qed.

Definition is_rvar (r : resource) : bool := match r with RVar _ _ => true | _ => false end.

(* the address returned by [alloc] holds exactly the requested resource *)
Lemma alloc_ok : forall r cs i cs', alloc r cs = Some (i, cs') -> wf cs -> res_ok (c_res cs) r -> is_rvar r = false ->
  cstep cs cs' [] /\ nth_error (c_res cs') i = Some r.
Proof.
  intros r cs i cs' H W R NV.
  assert (App : append_resource r cs = Some (i, cs') -> cstep cs cs' [] /\ nth_error (c_res cs') i = Some r).
  { intros A. apply append_resource_ok in A as (-> & E1 & E2 & E3 & E4). split.
    - constructor; rewrite ?E1, ?E2, ?E3, ?app_nil_r; auto using prefix_app.
      + intros W'. eapply wf_append; eassumption.
      + intros t n I. apply in_app_or in I as [I|[I|[]]]; [exact I|]. subst r. discriminate.
    - rewrite E1, nth_error_app2, Nat.sub_diag by lia. reflexivity. }
  unfold alloc in H. destruct r; auto.
  destruct (find_const (c_res cs) v 0) as [j|] eqn:F; auto.
  injection H as <- <-. split; [apply cstep_refl|].
  apply find_const_sound in F as (c & N1 & E & _). rewrite Nat.sub_0_r in N1.
  assert (c = v).
  { apply const_eqb_eq; auto. pose proof (wf_res_ok _ _ _ (wf_r _ W) N1) as K. exact K. }
  subst c. exact N1.
Qed.

Lemma alloc_const_ok : forall v cs i cs', alloc_const v cs = Some (i, cs') -> wf cs -> const_ok v = true ->
  cstep cs cs' [] /\ nth_error (c_res cs') i = Some (RConst v).
Proof. intros. eapply alloc_ok; eauto. Qed.

Lemma push_addr_ok : forall a cs u cs', push_addr a cs = Some (u, cs') -> cstep cs cs' [IPush a].
Proof. intros. eapply emit_ok; eassumption. Qed.

Lemma push_integer_ok : forall n cs u cs', push_integer n cs = Some (u, cs') -> wf cs ->
  exists a, cstep cs cs' [IPush a] /\ nth_error (c_res cs') a = Some (RConst (VNumber n)).
Proof.
  intros n cs u cs' H W. unfold push_integer in H. apply cbind_inv in H as (a & cs1 & H1 & H2).
  apply alloc_const_ok in H1 as [S1 N1]; auto. apply push_addr_ok in H2.
  exists a. split; [apply (cstep_trans _ _ _ _ _ S1 H2)|]. eapply prefix_nth; [apply (cs_res _ _ _ H2)|exact N1].
Qed.

Lemma bump_ok : forall n cs u cs', bump n cs = Some (u, cs') -> wf cs ->
  exists a, cstep cs cs' [IPush a; IOp OP_BUMP] /\ nth_error (c_res cs') a = Some (RConst (VNumber n)).
Proof.
  intros n cs u cs' H W. unfold bump in H. apply cbind_inv in H as (a & cs1 & H1 & H2).
  apply push_integer_ok in H1 as (ad & S1 & N1); auto. apply emit_ok in H2.
  exists ad. split; [apply (cstep_trans _ _ _ _ _ S1 H2)|]. eapply prefix_nth; [apply (cs_res _ _ _ H2)|exact N1].
Qed.

(* ---- frame-only actions ---------------------------------------------------------------------------------------- *)
Lemma set_needed_ok : forall accounts addr cs u cs', set_needed accounts addr cs = Some (u, cs') ->
  Forall (fun a => typed (c_res cs) a TAccount) accounts ->
  typed (c_res cs) addr TAsset \/ typed (c_res cs) addr TMonetary ->
  cstep cs cs' [].
Proof.
  intros accounts addr cs u cs' H FA TA. unfold set_needed in H. injection H as _ <-.
  constructor; cbn; rewrite ?app_nil_r; auto using prefix_refl.
  intros [W V N]. constructor; cbn; auto.
  clear W V. induction FA as [|a l Ha FA IH]; cbn [fold_right]; [assumption|].
  revert IH. generalize (fold_right (fun a0 m => needed_insert a0 addr m) (c_needed cs) l). intros m IH.
  clear - IH Ha TA. induction m as [|[k v] m IHm]; cbn [needed_insert].
  - intros k v [E|[]]. injection E as <- <-. split; [assumption|]. intros x [<-|[]]. assumption.
  - assert (IHm' : needed_ok m (c_res cs)) by (intros k' v' I; apply IH; right; assumption).
    specialize (IHm IHm'). destruct (IH k v (or_introl eq_refl)) as [Tk Tv].
    destruct (Nat.ltb a k).
    + intros k' v' [E|I]; [|apply IH; assumption]. injection E as <- <-. split; [assumption|].
      intros x [<-|[]]; assumption.
    + destruct (Nat.eqb a k).
      * intros k' v' [E|I]; [|apply IH; right; assumption]. injection E as <- <-. split; [assumption|].
        intros x Hx. clear - Hx Tv TA. induction v as [|y v IHv]; cbn [set_insert] in Hx.
        -- destruct Hx as [<-|[]]; assumption.
        -- destruct (Nat.ltb addr y); [destruct Hx as [<-|Hx]; [assumption|apply Tv; assumption]|].
           destruct (Nat.eqb addr y); [apply Tv; assumption|].
           destruct Hx as [<-|Hx]; [apply Tv; left; reflexivity|]. apply IHv; [|assumption].
           intros z Hz; apply Tv; right; assumption.
      * intros k' v' [E|I]; [apply IH; left; assumption|apply IHm; assumption].
Qed.

Lemma add_sources_ok : forall accounts cs u cs', add_sources accounts cs = Some (u, cs') -> cstep cs cs' [].
Proof.
  intros accounts cs u cs' H. unfold add_sources in H. injection H as _ <-.
  constructor; cbn; rewrite ?app_nil_r; auto using prefix_refl. intros [W V N]; constructor; assumption.
Qed.

Lemma is_world_ok : forall a cs w cs', is_world a cs = Some (w, cs') ->
  cs' = cs /\ w = match nth_error (c_res cs) a with Some (RConst (VAccount x)) => N.eqb x world | _ => false end.
Proof.
  intros a cs w cs' H. unfold is_world, get_res, cbind, cret in H. injection H as <- <-. auto.
Qed.
