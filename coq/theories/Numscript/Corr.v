(* M1 — correspondence: one observation of the real compiler + machine, and its comparison with the model. *)
From FL Require Export Numscript.Run Numscript.Sem.
Open Scope Z_scope.

Inductive obs_run := ODone (r : result) | OErr (e : eclass) | OPanic.
Record obs := { ob_involved : list account;            (* sorted, without duplicates *)
                ob_sources : list (option account);    (* in Program.Sources order *)
                ob_run : obs_run }.

Record ncase := {
  n_script : script;
  n_vars : option (list (N * value));   (* None: SetVarsFromJSON failed *)
  n_store : store;
  n_extra : list str;
  n_prog : option program;              (* what compiler.Compile produced; None: compile error *)
  n_obs : obs
}.

Fixpoint list_eqb {A} (eqb : A -> A -> bool) (l1 l2 : list A) : bool :=
  match l1, l2 with
  | [], [] => true
  | x :: r1, y :: r2 => eqb x y && list_eqb eqb r1 r2
  | _, _ => false
  end.

Definition instr_eqb (a b : instr) : bool :=
  match a, b with
  | IPush x, IPush y => Nat.eqb x y
  | IBad, IBad => true
  | IOp x, IOp y =>
      match x, y with
      | OP_BUMP, OP_BUMP | OP_DELETE, OP_DELETE | OP_IADD, OP_IADD | OP_ISUB, OP_ISUB | OP_PRINT, OP_PRINT
      | OP_FAIL, OP_FAIL | OP_ASSET, OP_ASSET | OP_MONETARY_NEW, OP_MONETARY_NEW | OP_MONETARY_ADD, OP_MONETARY_ADD
      | OP_MONETARY_SUB, OP_MONETARY_SUB | OP_MAKE_ALLOTMENT, OP_MAKE_ALLOTMENT | OP_TAKE_ALL, OP_TAKE_ALL
      | OP_TAKE_ALWAYS, OP_TAKE_ALWAYS | OP_TAKE, OP_TAKE | OP_TAKE_MAX, OP_TAKE_MAX
      | OP_FUNDING_ASSEMBLE, OP_FUNDING_ASSEMBLE | OP_FUNDING_SUM, OP_FUNDING_SUM
      | OP_FUNDING_REVERSE, OP_FUNDING_REVERSE | OP_ALLOC, OP_ALLOC | OP_REPAY, OP_REPAY | OP_SEND, OP_SEND
      | OP_TX_META, OP_TX_META | OP_ACCOUNT_META, OP_ACCOUNT_META | OP_SAVE, OP_SAVE => true
      | _, _ => false
      end
  | _, _ => false
  end.

Definition part_eqb (a b : part) : bool := N.eqb (fst a) (fst b) && Z.eqb (snd a) (snd b).
Definition value_eqb (a b : value) : bool :=
  match a, b with
  | VAllotment x, VAllotment y => list_eqb ratio_eqb x y
  | VFunding f, VFunding g => N.eqb (f_asset f) (f_asset g) && list_eqb part_eqb (f_parts f) (f_parts g)
  | _, _ => const_eqb a b
  end.

Definition resource_eqb (a b : resource) : bool :=
  match a, b with
  | RConst x, RConst y => value_eqb x y
  | RVar t n, RVar u m => vtype_eqb t u && N.eqb n m
  | RVarMeta t n a k, RVarMeta u m b l => vtype_eqb t u && N.eqb n m && Nat.eqb a b && N.eqb k l
  | RVarBalance n a s, RVarBalance m b t => N.eqb n m && Nat.eqb a b && Nat.eqb s t
  | RMonetary a n, RMonetary b m => Nat.eqb a b && Z.eqb n m
  | _, _ => false
  end.

Definition program_eqb (p q : program) : bool :=
  list_eqb instr_eqb (p_code p) (p_code q) && list_eqb resource_eqb (p_res p) (p_res q) &&
  list_eqb Nat.eqb (p_sources p) (p_sources q) &&
  list_eqb (fun a b => Nat.eqb (fst a) (fst b) && list_eqb Nat.eqb (snd a) (snd b)) (p_needed p) (p_needed q).

(* error classes are compared up to what the Go error values let the harness distinguish *)
Definition coarse (e : eclass) : nat :=
  match e with
  | ECompile => 0 | EInvalidVars => 1
  | EMissingVar | EBadMetaValue | EResolveOther => 2
  | EMissingMeta => 3 | ENegBalance => 4 | EInsufficient => 5 | EInvalidScript => 6 | EScriptFailed => 7
  | EResNotFound => 8 | EOtherRun => 9 | EMetaOverride => 10
  end%nat.

Definition posting_eqb (a b : posting) : bool :=
  N.eqb (p_src a) (p_src b) && N.eqb (p_dst a) (p_dst b) && N.eqb (p_asset a) (p_asset b) && Z.eqb (p_amount a) (p_amount b).

Definition subset {A} (eqb : A -> A -> bool) (l1 l2 : list A) : bool := forallb (fun x => existsb (eqb x) l2) l1.
Definition same_set {A} (eqb : A -> A -> bool) (l1 l2 : list A) : bool :=
  Nat.eqb (length l1) (length l2) && subset eqb l1 l2 && subset eqb l2 l1.

Definition result_eqb (a b : result) : bool :=
  list_eqb posting_eqb (res_posts a) (res_posts b) &&
  same_set (fun x y => N.eqb (fst x) (fst y) && value_eqb (snd x) (snd y)) (res_txmeta a) (res_txmeta b) &&
  same_set (fun x y => N.eqb (fst (fst x)) (fst (fst y)) && N.eqb (snd (fst x)) (snd (fst y)) && value_eqb (snd x) (snd y))
           (res_accmeta a) (res_accmeta b) &&
  list_eqb value_eqb (res_printed a) (res_printed b).

Definition run_eqb (m : outcome result) (o : obs_run) : bool :=
  match m, o with
  | Done r, ODone r' => result_eqb r r'
  | Err e, OErr e' => Nat.eqb (coarse e) (coarse e')
  | Panic _, OPanic => true
  | _, _ => false
  end.

Fixpoint n_insert (x : N) (l : list N) : list N :=
  match l with
  | [] => [x]
  | y :: r => if N.ltb x y then x :: l else if N.eqb x y then l else y :: n_insert x r
  end.
Definition n_sort (l : list N) : list N := fold_right n_insert [] l.

Definition oacc_eqb (a b : option account) : bool :=
  match a, b with Some x, Some y => N.eqb x y | None, None => true | _, _ => false end.

(* the source semantics run on what the pipeline resolved: variable values by name, machine balance table *)
Definition venv_of (p : program) (vals : list value) : venv :=
  fold_right (fun nv acc => match nth_error vals (snd nv) with Some v => (fst nv, v) :: acc | None => acc end) [] (p_vars p).

Definition sem_pipeline (sc : script) (p : program) (vars : option (list (N * value))) (s : store) (extra : list str)
  : outcome result :=
  match vars with
  | None => Err EInvalidVars
  | Some vs =>
      do r <- resolve_resources (p_res p) vs s {| r_vals := []; r_involved := []; r_pending := [] |};
      do vals <- fill_pending (r_pending r) s (r_vals r);
      do b <- resolve_balances (p_needed p) vals s [];
      match sem sc (venv_of p vals) b extra with
      | SOk res => Done res
      | SErr e => Err e
      end
  end.

Definition check_case (c : ncase) : bool :=
  match compile (n_script c), n_prog c with
  | None, None => true
  | Some p, Some q =>
      program_eqb p q &&
      match run_program p (n_vars c) (n_store c) (n_extra c) with
      | Err e => match ob_run (n_obs c) with OErr e' => Nat.eqb (coarse e) (coarse e') | _ => false end
      | Panic _ => match ob_run (n_obs c) with OPanic => true | _ => false end
      | Done ro =>
          list_eqb N.eqb (n_sort (ro_involved ro)) (ob_involved (n_obs c)) &&
          list_eqb oacc_eqb (ro_sources ro) (ob_sources (n_obs c)) &&
          run_eqb (ro_result ro) (ob_run (n_obs c)) &&
          run_eqb (sem_pipeline (n_script c) p (n_vars c) (n_store c) (n_extra c)) (ob_run (n_obs c))
      end
  | _, _ => false
  end.

Fixpoint bad_cases {A} (chk : A -> bool) (n : nat) (l : list A) : list nat :=
  match l with
  | [] => []
  | c :: r => if chk c then bad_cases chk (S n) r else n :: bad_cases chk (S n) r
  end.

(* diagnosis helper used by the harness when a case disagrees: which component differs *)
Definition diagnose (c : ncase) : nat :=
  match compile (n_script c), n_prog c with
  | None, None => 0
  | None, Some _ => 1      (* model rejects, implementation compiles *)
  | Some _, None => 2      (* model compiles, implementation rejects *)
  | Some p, Some q =>
      if negb (list_eqb instr_eqb (p_code p) (p_code q)) then 3
      else if negb (list_eqb resource_eqb (p_res p) (p_res q)) then 4
      else if negb (program_eqb p q) then 5
      else match run_program p (n_vars c) (n_store c) (n_extra c) with
           | Done ro =>
               if negb (list_eqb N.eqb (n_sort (ro_involved ro)) (ob_involved (n_obs c))) then 6
               else if negb (list_eqb oacc_eqb (ro_sources ro) (ob_sources (n_obs c))) then 7
               else if negb (run_eqb (ro_result ro) (ob_run (n_obs c))) then 8
               else if negb (run_eqb (sem_pipeline (n_script c) p (n_vars c) (n_store c) (n_extra c)) (ob_run (n_obs c))) then 10
               else 0
           | _ => 9
           end
  end%nat.
