(* M1 proofs — the straight-line machine: sequencing, and one stepping lemma per opcode on states of the form
   [ms stack sstate] (the machine state seen as "operand stack + the state the source semantics threads"). *)
From Coq Require Import Lia.
From FL Require Export Numscript.Sem.
Open Scope Z_scope.

(* the funding primitives stay folded under cbn/simpl *)
Arguments take : simpl never.
Arguments take_max : simpl never.
Arguments total : simpl never.
Arguments withdraw_all : simpl never.
Arguments withdraw_always : simpl never.
Arguments credit : simpl never.
Arguments repay : simpl never.
Arguments new_allotment : simpl never.
Arguments allocate : simpl never.
Arguments concat_parts : simpl never.
Arguments freverse : simpl never.
Arguments bal_has_account : simpl never.
Arguments bal_get : simpl never.
Arguments bal_set : simpl never.
Arguments Z.to_nat : simpl never.
Arguments Z.of_nat : simpl never.
Arguments Z.add : simpl never.
Arguments Z.sub : simpl never.
Arguments Z.ltb : simpl never.
Arguments N.eqb : simpl never.
Arguments assemble : simpl never.

Lemma exec_app : forall res c1 c2 st, exec res (c1 ++ c2) st = do st' <- exec res c1 st; exec res c2 st'.
Proof.
  induction c1 as [|i c1 IH]; intros c2 st; cbn [app exec bind]; [reflexivity|].
  destruct (exec_instr res i st); cbn [bind]; auto.
Qed.

Lemma exec_cons : forall res i r st, exec res (i :: r) st = do st' <- exec_instr res i st; exec res r st'.
Proof. reflexivity. Qed.

Lemma exec_nil : forall res st, exec res [] st = Done st.
Proof. reflexivity. Qed.

(* machine state = stack + source-level state *)
Definition ms (stk : list value) (s : sstate) : mstate :=
  {| stack := stk; bals := s_bals s; posts := s_posts s; txmeta := s_txmeta s; accmeta := s_accmeta s;
     printed := s_printed s |}.
Definition sstate_of (m : mstate) : sstate :=
  {| s_bals := bals m; s_posts := posts m; s_txmeta := txmeta m; s_accmeta := accmeta m; s_printed := printed m |}.
Lemma ms_sstate_of : forall m, ms (stack m) (sstate_of m) = m.
Proof. destruct m; reflexivity. Qed.
Lemma sstate_of_ms : forall stk s, sstate_of (ms stk s) = s.
Proof. destruct s; reflexivity. Qed.

(* the machine run of a source-level computation: success continues, failure is the same error class *)
Definition lift_st {A} (r : sres A) (k : A -> outcome mstate) : outcome mstate :=
  match r with SOk a => k a | SErr e => Err e end.

Lemma with_bals_ms : forall stk st b, set_bals (ms stk st) b = ms stk (with_bals st b).
Proof. reflexivity. Qed.

Lemma pop_ms : forall v stk st, pop (ms (v :: stk) st) = Done (v, ms stk st).
Proof. reflexivity. Qed.
Lemma pop_funding_ms : forall f stk st, pop_funding (ms (VFunding f :: stk) st) = Done (f, ms stk st).
Proof. reflexivity. Qed.
Lemma pop_portion_ms : forall f stk st, pop_portion (ms (VPortion f :: stk) st) = Done (f, ms stk st).
Proof. reflexivity. Qed.
Lemma pop_number_ms : forall f stk st, pop_number (ms (VNumber f :: stk) st) = Done (f, ms stk st).
Proof. reflexivity. Qed.

(* ---- one lemma per instruction, continuation style ------------------------------------------------------ *)
Section Steps.
  Variable vals : list value.
  Variable rest : list instr.
  Variable stk : list value.
  Variable st : sstate.

  Lemma x_push : forall a v, nth_error vals a = Some v ->
    exec vals (IPush a :: rest) (ms stk st) = exec vals rest (ms (v :: stk) st).
  Proof. intros a v H. cbn [exec exec_instr]. rewrite H. reflexivity. Qed.

  Lemma x_iadd : forall a b,
    exec vals (IOp OP_IADD :: rest) (ms (VNumber b :: VNumber a :: stk) st) = exec vals rest (ms (VNumber (a + b) :: stk) st).
  Proof. reflexivity. Qed.
  Lemma x_isub : forall a b,
    exec vals (IOp OP_ISUB :: rest) (ms (VNumber b :: VNumber a :: stk) st) = exec vals rest (ms (VNumber (a - b) :: stk) st).
  Proof. reflexivity. Qed.
  Lemma x_madd : forall sa a sb b,
    exec vals (IOp OP_MONETARY_ADD :: rest) (ms (VMonetary sb b :: VMonetary sa a :: stk) st) =
    if N.eqb sa sb then exec vals rest (ms (VMonetary sa (a + b) :: stk) st) else Err EInvalidScript.
  Proof. intros. cbn. destruct (N.eqb sa sb); reflexivity. Qed.
  Lemma x_msub : forall sa a sb b,
    exec vals (IOp OP_MONETARY_SUB :: rest) (ms (VMonetary sb b :: VMonetary sa a :: stk) st) =
    if N.eqb sa sb then exec vals rest (ms (VMonetary sa (a - b) :: stk) st) else Err EOtherRun.
  Proof. intros. cbn. destruct (N.eqb sa sb); reflexivity. Qed.
  Lemma x_mnew : forall a n,
    exec vals (IOp OP_MONETARY_NEW :: rest) (ms (VNumber n :: VAsset a :: stk) st) = exec vals rest (ms (VMonetary a n :: stk) st).
  Proof. reflexivity. Qed.
  Lemma x_asset_mon : forall a n,
    exec vals (IOp OP_ASSET :: rest) (ms (VMonetary a n :: stk) st) = exec vals rest (ms (VAsset a :: stk) st).
  Proof. reflexivity. Qed.
  Lemma x_delete_mon : forall a n,
    exec vals (IOp OP_DELETE :: rest) (ms (VMonetary a n :: stk) st) = exec vals rest (ms stk st).
  Proof. reflexivity. Qed.
  Lemma x_print : forall v,
    exec vals (IOp OP_PRINT :: rest) (ms (v :: stk) st) =
    exec vals rest (ms stk {| s_bals := s_bals st; s_posts := s_posts st; s_txmeta := s_txmeta st; s_accmeta := s_accmeta st;
                              s_printed := s_printed st ++ [v] |}).
  Proof. reflexivity. Qed.
  Lemma x_fail : exec vals (IOp OP_FAIL :: rest) (ms stk st) = Err EScriptFailed.
  Proof. reflexivity. Qed.
  Lemma x_txmeta : forall k v,
    exec vals (IOp OP_TX_META :: rest) (ms (VString k :: v :: stk) st) =
    exec vals rest (ms stk {| s_bals := s_bals st; s_posts := s_posts st; s_txmeta := s_txmeta st ++ [(k, v)];
                              s_accmeta := s_accmeta st; s_printed := s_printed st |}).
  Proof. reflexivity. Qed.
  Lemma x_accmeta : forall a k v,
    exec vals (IOp OP_ACCOUNT_META :: rest) (ms (VAccount a :: VString k :: v :: stk) st) =
    exec vals rest (ms stk {| s_bals := s_bals st; s_posts := s_posts st; s_txmeta := s_txmeta st;
                              s_accmeta := s_accmeta st ++ [(a, k, v)]; s_printed := s_printed st |}).
  Proof. reflexivity. Qed.
  Lemma x_take_all : forall a s ov,
    exec vals (IOp OP_TAKE_ALL :: rest) (ms (VMonetary s ov :: VAccount a :: stk) st) =
    match withdraw_all (s_bals st) a s ov with
    | None => Err EInvalidScript
    | Some (f, b) => exec vals rest (ms (VFunding f :: stk) (with_bals st b))
    end.
  Proof. intros. cbn. destruct (withdraw_all (s_bals st) a s ov) as [[f b]|]; reflexivity. Qed.
  Lemma x_take_always : forall a s amt,
    exec vals (IOp OP_TAKE_ALWAYS :: rest) (ms (VMonetary s amt :: VAccount a :: stk) st) =
    match withdraw_always (s_bals st) a s amt with
    | None => Err EInvalidScript
    | Some (f, b) => exec vals rest (ms (VFunding f :: stk) (with_bals st b))
    end.
  Proof. intros. cbn. destruct (withdraw_always (s_bals st) a s amt) as [[f b]|]; reflexivity. Qed.
  Lemma x_take : forall s amt f,
    exec vals (IOp OP_TAKE :: rest) (ms (VMonetary s amt :: VFunding f :: stk) st) =
    if negb (N.eqb (f_asset f) s) then Err EInvalidScript
    else match take f amt with
         | None => Err EInsufficient
         | Some (res, rem) => exec vals rest (ms (VFunding res :: VFunding rem :: stk) st)
         end.
  Proof.
    intros. cbn. destruct (negb (N.eqb (f_asset f) s)); [reflexivity|].
    destruct (take f amt) as [[res rem]|]; reflexivity.
  Qed.
  Lemma x_take_max : forall s amt f,
    exec vals (IOp OP_TAKE_MAX :: rest) (ms (VMonetary s amt :: VFunding f :: stk) st) =
    if amt <? 0 then Err EOtherRun
    else if negb (N.eqb (f_asset f) s) then Err EInvalidScript
    else let tot := total f in
         let missing := if tot <? amt then amt - tot else 0 in
         let '(res, rem) := take_max f amt in
         exec vals rest (ms (VFunding res :: VFunding rem :: VMonetary s missing :: stk) st).
  Proof.
    intros. cbn. destruct (amt <? 0); [reflexivity|]. cbn.
    destruct (negb (N.eqb (f_asset f) s)); [reflexivity|].
    destruct (take_max f amt) as [res rem]; reflexivity.
  Qed.
  Lemma x_fsum : forall f,
    exec vals (IOp OP_FUNDING_SUM :: rest) (ms (VFunding f :: stk) st) =
    exec vals rest (ms (VMonetary (f_asset f) (total f) :: VFunding f :: stk) st).
  Proof. reflexivity. Qed.
  Lemma x_frev : forall f,
    exec vals (IOp OP_FUNDING_REVERSE :: rest) (ms (VFunding f :: stk) st) = exec vals rest (ms (VFunding (freverse f) :: stk) st).
  Proof. reflexivity. Qed.
  Lemma x_alloc : forall a s amt,
    exec vals (IOp OP_ALLOC :: rest) (ms (VAllotment a :: VMonetary s amt :: stk) st) =
    exec vals rest (ms (map (fun x => VMonetary s x) (allocate a amt) ++ stk) st).
  Proof. reflexivity. Qed.
  Lemma x_send : forall a f,
    exec vals (IOp OP_SEND :: rest) (ms (VAccount a :: VFunding f :: stk) st) = exec vals rest (ms stk (do_send st a f)).
  Proof. reflexivity. Qed.
  Lemma x_repay : forall f,
    exec vals (IOp OP_REPAY :: rest) (ms (VFunding f :: stk) st) =
    match repay (s_bals st) (f_asset f) (f_parts f) with
    | None => Panic PRepayNilMap
    | Some b => exec vals rest (ms stk (with_bals st b))
    end.
  Proof. intros. cbn. destruct (repay (s_bals st) (f_asset f) (f_parts f)); reflexivity. Qed.
End Steps.

(* ---- BUMP ------------------------------------------------------------------------------------------------ *)
Lemma x_bump : forall vals rest st pre v post k,
  length pre = k ->
  exec vals (IOp OP_BUMP :: rest) (ms (VNumber (Z.of_nat k) :: pre ++ v :: post) st) =
  exec vals rest (ms (v :: pre ++ post) st).
Proof.
  intros vals rest st pre v post k Hk. cbn [exec exec_instr exec_op pop_number pop bind ms stack set_stack bals posts txmeta accmeta printed].
  replace (Z.of_nat k <? 0) with false by (symmetry; apply Z.ltb_ge; lia).
  rewrite Nat2Z.id. cbn [orb].
  replace (Nat.leb (length (pre ++ v :: post)) k) with false
    by (symmetry; apply Nat.leb_gt; rewrite app_length; cbn [length]; lia).
  rewrite nth_error_app2 by lia. replace (k - length pre)%nat with O by lia. cbn [nth_error].
  assert (Hf : firstn k (pre ++ v :: post) = pre).
  { rewrite firstn_app. replace (k - length pre)%nat with O by lia. cbn [firstn]. rewrite app_nil_r.
    apply firstn_all2. lia. }
  assert (Hs : skipn (S k) (pre ++ v :: post) = post).
  { rewrite skipn_app. replace (S k - length pre)%nat with 1%nat by lia.
    rewrite (skipn_all2 pre) by lia. reflexivity. }
  rewrite Hf, Hs.
  reflexivity.
Qed.

Lemma x_bumpn : forall vals rest st a pre v post k,
  nth_error vals a = Some (VNumber (Z.of_nat k)) -> length pre = k ->
  exec vals (IPush a :: IOp OP_BUMP :: rest) (ms (pre ++ v :: post) st) = exec vals rest (ms (v :: pre ++ post) st).
Proof. intros. erewrite x_push by eassumption. apply x_bump; assumption. Qed.

Lemma x_bump1 : forall vals rest st a x v stk,
  nth_error vals a = Some (VNumber 1) ->
  exec vals (IPush a :: IOp OP_BUMP :: rest) (ms (x :: v :: stk) st) = exec vals rest (ms (v :: x :: stk) st).
Proof. intros. apply (x_bumpn vals rest st a [x] v stk 1%nat); auto. Qed.
Lemma x_bump2 : forall vals rest st a x y v stk,
  nth_error vals a = Some (VNumber 2) ->
  exec vals (IPush a :: IOp OP_BUMP :: rest) (ms (x :: y :: v :: stk) st) = exec vals rest (ms (v :: x :: y :: stk) st).
Proof. intros. apply (x_bumpn vals rest st a [x; y] v stk 2%nat); auto. Qed.
Lemma x_bump3 : forall vals rest st a x y z v stk,
  nth_error vals a = Some (VNumber 3) ->
  exec vals (IPush a :: IOp OP_BUMP :: rest) (ms (x :: y :: z :: v :: stk) st) = exec vals rest (ms (v :: x :: y :: z :: stk) st).
Proof. intros. apply (x_bumpn vals rest st a [x; y; z] v stk 3%nat); auto. Qed.

(* ---- FUNDING_ASSEMBLE ------------------------------------------------------------------------------------ *)
Lemma pop_n_fundings_ok : forall fs s stk st,
  pop_n_fundings (length fs) s (ms (map VFunding fs ++ stk) st) =
  if forallb (fun f => N.eqb (f_asset f) s) fs then Done (fs, ms stk st) else Err EInvalidScript.
Proof.
  induction fs as [|f fs IH]; intros s stk st; [reflexivity|].
  cbn [length pop_n_fundings map app forallb]. rewrite pop_funding_ms. cbn [bind].
  destruct (N.eqb (f_asset f) s); cbn [andb]; [|reflexivity].
  rewrite IH.
  destruct (forallb (fun f0 => N.eqb (f_asset f0) s) fs); reflexivity.
Qed.

Lemma forallb_rev : forall A (p : A -> bool) l, forallb p (rev l) = forallb p l.
Proof.
  intros A p l. induction l as [|x l IH]; [reflexivity|].
  cbn [rev forallb]. rewrite forallb_app, IH. cbn [forallb]. rewrite andb_true_r, andb_comm. reflexivity.
Qed.

(* the fundings f1 .. fn lie on the stack with fn on top; ASSEMBLE computes [assemble [f1; ..; fn]] *)
Lemma x_assemble : forall vals rest st a fs stk,
  nth_error vals a = Some (VNumber (Z.of_nat (length fs))) ->
  exec vals (IPush a :: IOp OP_FUNDING_ASSEMBLE :: rest) (ms (map VFunding (rev fs) ++ stk) st) =
  lift_st (assemble fs) (fun r => exec vals rest (ms (VFunding r :: stk) st)).
Proof.
  intros vals rest st a fs stk Ha. erewrite x_push by eassumption.
  cbn [exec exec_instr exec_op]. rewrite pop_number_ms. cbn [bind].
  rewrite Nat2Z.id. unfold assemble.
  destruct (rev fs) as [|last others] eqn:Hrev.
  - assert (fs = []) by (apply (f_equal (@rev _)) in Hrev; rewrite rev_involutive in Hrev; exact Hrev).
    subst fs. reflexivity.
  - assert (Hlen : length fs = S (length others)) by (rewrite <- rev_length, Hrev; reflexivity).
    rewrite Hlen. cbn [map app]. rewrite pop_funding_ms. cbn [bind]. rewrite pop_n_fundings_ok.
    assert (Hfa : forallb (fun f => N.eqb (f_asset f) (f_asset last)) fs =
                  forallb (fun f => N.eqb (f_asset f) (f_asset last)) others).
    { rewrite <- (forallb_rev _ _ fs), Hrev. cbn [forallb]. rewrite N.eqb_refl. reflexivity. }
    rewrite Hfa. destruct (forallb (fun f => N.eqb (f_asset f) (f_asset last)) others); cbn [lift_st bind]; [|reflexivity].
    rewrite <- Hrev, rev_involutive. reflexivity.
Qed.

Lemma x_assemble2 : forall vals rest st a f1 f2 stk,
  nth_error vals a = Some (VNumber 2) ->
  exec vals (IPush a :: IOp OP_FUNDING_ASSEMBLE :: rest) (ms (VFunding f2 :: VFunding f1 :: stk) st) =
  lift_st (assemble [f1; f2]) (fun r => exec vals rest (ms (VFunding r :: stk) st)).
Proof. intros. apply (x_assemble vals rest st a [f1; f2] stk). assumption. Qed.

(* ---- MAKE_ALLOTMENT -------------------------------------------------------------------------------------- *)
Lemma pop_n_portions_ok : forall ps stk st,
  pop_n_portions (length ps) (ms (map VPortion ps ++ stk) st) = Done (ps, ms stk st).
Proof.
  induction ps as [|p ps IH]; intros stk st; [reflexivity|].
  cbn [length pop_n_portions map app]. rewrite pop_portion_ms. cbn [bind]. rewrite IH. reflexivity.
Qed.

Lemma x_make_allotment : forall vals rest st a ps stk,
  nth_error vals a = Some (VNumber (Z.of_nat (length ps))) ->
  exec vals (IPush a :: IOp OP_MAKE_ALLOTMENT :: rest) (ms (map VPortion ps ++ stk) st) =
  match new_allotment ps with
  | inl _ => Err EInvalidScript
  | inr al => exec vals rest (ms (VAllotment al :: stk) st)
  end.
Proof.
  intros vals rest st a ps stk Ha. erewrite x_push by eassumption.
  cbn [exec exec_instr exec_op]. rewrite pop_number_ms. cbn [bind].
  rewrite Nat2Z.id. rewrite pop_n_portions_ok. cbn [bind].
  destruct (new_allotment ps); reflexivity.
Qed.

(* ---- SAVE ------------------------------------------------------------------------------------------------ *)
Lemma x_save_asset : forall vals rest stk st a s,
  exec vals (IOp OP_SAVE :: rest) (ms (VAccount a :: VAsset s :: stk) st) =
  lift_st (match bal_get (s_bals st) a s with
           | Some z => if 0 <? z then SOk (with_bals st (bal_set (s_bals st) a s 0)) else SOk st
           | None => SOk st
           end) (fun st' => exec vals rest (ms stk st')).
Proof.
  intros. cbn. destruct (bal_get (s_bals st) a s) as [z|]; [destruct (0 <? z)|]; reflexivity.
Qed.
Lemma x_save_mon : forall vals rest stk st a s amt,
  exec vals (IOp OP_SAVE :: rest) (ms (VAccount a :: VMonetary s amt :: stk) st) =
  lift_st (if amt <? 0 then SErr EOtherRun
           else match bal_get (s_bals st) a s with
                | Some z => SOk (with_bals st (bal_set (s_bals st) a s (z - amt)))
                | None => SOk st
                end) (fun st' => exec vals rest (ms stk st')).
Proof.
  intros. cbn. destruct (amt <? 0); [reflexivity|]. destruct (bal_get (s_bals st) a s); reflexivity.
Qed.
