(* M1 — internal/machine/funding.go and allotment.go as total Gallina functions (definitions only). *)
From Coq Require Export List ZArith Bool NArith.
Export ListNotations.
Open Scope Z_scope.

Definition account := N.          (* interned by the harness; world = 0 *)
Definition asset := N.
Definition world : account := 0%N.

Definition part := (account * Z)%type.
Record funding := { f_asset : asset; f_parts : list part }.

Definition total_parts (ps : list part) : Z := fold_right (fun p acc => snd p + acc) 0 ps.
Definition total (f : funding) : Z := total_parts (f_parts f).

(* the common loop of Take and TakeMax (funding.go:65-90 / 104-129):
   returns (taken parts, remainder parts, amount still missing) *)
Fixpoint take_loop (rem : Z) (ps : list part) : list part * list part * Z :=
  match ps with
  | [] => ([], [], rem)
  | (a, amt) :: rest =>
      if 0 <? rem then
        if rem <? amt then
          (* this part has excess: only take what is needed; the loop condition then fails *)
          ([(a, rem)], (a, amt - rem) :: rest, 0)
        else
          let '(t, r, m) := take_loop (rem - amt) rest in ((a, amt) :: t, r, m)
      else ([], ps, rem)
  end.

(* Funding.Take: None = "no more fund to withdraw" *)
Definition take (f : funding) (amount : Z) : option (funding * funding) :=
  let zero_part := match f_parts f with
                   | (a, _) :: _ => if amount =? 0 then [(a, amount)] else []
                   | [] => []
                   end in
  let '(t, r, m) := take_loop amount (f_parts f) in
  if m =? 0 then Some ({| f_asset := f_asset f; f_parts := zero_part ++ t |},
                       {| f_asset := f_asset f; f_parts := r |})
  else None.

Definition take_max (f : funding) (amount : Z) : funding * funding :=
  let '(t, r, _) := take_loop amount (f_parts f) in
  ({| f_asset := f_asset f; f_parts := t |}, {| f_asset := f_asset f; f_parts := r |}).

(* Funding.Concat on parts (assets are checked by the caller): merge when the last account of the first
   equals the first account of the second *)
Fixpoint concat_parts (l1 l2 : list part) : list part :=
  match l1 with
  | [] => l2
  | [(a, x)] => match l2 with
                | (b, y) :: r2 => if N.eqb a b then (a, x + y) :: r2 else (a, x) :: l2
                | [] => [(a, x)]
                end
  | p :: r1 => p :: concat_parts r1 l2
  end.

Definition freverse (f : funding) : funding := {| f_asset := f_asset f; f_parts := rev (f_parts f) |}.

(* ---- allotment.go -------------------------------------------------------------------------------- *)
(* a ratio num/den, den > 0; Go's big.Rat is normalised, every use below is invariant under scaling *)
Definition ratio := (Z * positive)%type.
Definition ratio_eqb (p q : ratio) : bool := (fst p * Zpos (snd q) =? fst q * Zpos (snd p)).
Definition ratio_add (p q : ratio) : ratio := (fst p * Zpos (snd q) + fst q * Zpos (snd p), (snd p * snd q)%positive).
Definition ratio_sub (p q : ratio) : ratio := (fst p * Zpos (snd q) - fst q * Zpos (snd p), (snd p * snd q)%positive).
Definition ratio_gt1 (p : ratio) : bool := Zpos (snd p) <? fst p.
Definition ratio_lt1 (p : ratio) : bool := fst p <? Zpos (snd p).
Definition ratio_eq1 (p : ratio) : bool := fst p =? Zpos (snd p).
Definition ratio_zero : ratio := (0, 1%positive).
Definition ratio_one : ratio := (1, 1%positive).

Inductive portion := PRemaining | PSpecific (r : ratio).

Definition portion_eqb (p q : portion) : bool :=
  match p, q with
  | PRemaining, PRemaining => true
  | PSpecific a, PSpecific b => ratio_eqb a b
  | _, _ => false
  end.

Inductive allot_err := TwoRemaining | Exceeded.

(* NewAllotment *)
Fixpoint sum_specific (ps : list portion) : ratio :=
  match ps with
  | [] => ratio_zero
  | PRemaining :: r => sum_specific r
  | PSpecific q :: r => ratio_add q (sum_specific r)
  end.
Fixpoint count_remaining (ps : list portion) : nat :=
  match ps with
  | [] => O
  | PRemaining :: r => S (count_remaining r)
  | _ :: r => count_remaining r
  end.
Definition new_allotment (ps : list portion) : allot_err + list ratio :=
  if Nat.ltb 1 (count_remaining ps) then inl TwoRemaining
  else
    let tot := sum_specific ps in
    if ratio_gt1 tot then inl Exceeded
    else inr (map (fun p => match p with PRemaining => ratio_sub ratio_one tot | PSpecific q => q end) ps).

(* Allotment.Allocate: floors, then +1 to the earliest entries while the total is short *)
Definition floor_share (amount : Z) (q : ratio) : Z := (amount * fst q) / Zpos (snd q).
Fixpoint distribute (short : Z) (parts : list Z) : list Z :=
  match parts with
  | [] => []
  | x :: r => if 0 <? short then (x + 1) :: distribute (short - 1) r else x :: distribute short r
  end.
Definition sumZ (l : list Z) : Z := fold_right Z.add 0 l.
Definition allocate (a : list ratio) (amount : Z) : list Z :=
  let floors := map (floor_share amount) a in
  distribute (amount - sumZ floors) floors.
