(* M1 — the funding / allotment algebra: facts about Funding.v (funding.go, allotment.go) and [assemble]
   (Sem.v), stated for all lists and all of Z. General and stable: other property files import this.

   Vocabulary
     nonneg_parts ps / fnonneg f     every part has amount >= 0
     units ps / funits f             the funding as a sequence of unit coins, each labelled by its account:
                                     [(a,2);(b,0);(a,1)] |-> [a;a;a]. Two fundings with the same units hold the
                                     same money of the same accounts in the same order.
     req p q                         equality of ratios as rationals (cross multiplication)
     ratio_sum a                     the sum of a list of ratios, computed with ratio_add
     ratio_is_one r                  numerator = denominator *)
From Coq Require Import Lia ZArith List Bool QArith Qfield.
From FL Require Import Numscript.Sem.
Import ListNotations.
Open Scope Z_scope.

Ltac splits := repeat match goal with |- _ /\ _ => split end.

(* ------------------------------------------------------------------------------------------------ *)
(** * Lists of Z, totals, units *)

Definition nonneg_parts (ps : list part) : Prop := Forall (fun p => 0 <= snd p) ps.
Definition fnonneg (f : funding) : Prop := nonneg_parts (f_parts f).

Definition units (ps : list part) : list account :=
  flat_map (fun p => repeat (fst p) (Z.to_nat (snd p))) ps.
Definition funits (f : funding) : list account := units (f_parts f).

(* [total_parts []] and [units []] whatever (convertible) element type the [nil] carries *)
Ltac nilz := repeat match goal with
  | |- context [total_parts (@nil ?T)] => change (total_parts (@nil T)) with 0
  | |- context [units (@nil ?T)] => change (units (@nil T)) with (@nil N)
  end.

Lemma sumZ_nil : sumZ [] = 0.
Proof. reflexivity. Qed.
Lemma sumZ_cons : forall x l, sumZ (x :: l) = x + sumZ l.
Proof. reflexivity. Qed.
Lemma sumZ_app : forall l1 l2, sumZ (l1 ++ l2) = sumZ l1 + sumZ l2.
Proof. induction l1; intros; cbn [app]; rewrite ?sumZ_cons, ?sumZ_nil; [lia|]. rewrite IHl1. lia. Qed.

Lemma total_parts_nil : total_parts (@nil part) = 0.
Proof. reflexivity. Qed.
Lemma total_parts_cons : forall p ps, total_parts (p :: ps) = snd p + total_parts ps.
Proof. reflexivity. Qed.
Lemma total_parts_app : forall l1 l2, total_parts (l1 ++ l2) = total_parts l1 + total_parts l2.
Proof. induction l1; intros; [reflexivity|]. cbn [app]. rewrite !total_parts_cons, IHl1. lia. Qed.
Lemma total_parts_rev : forall l, total_parts (rev l) = total_parts l.
Proof.
  induction l; [reflexivity|]. cbn [rev]. rewrite total_parts_app, IHl, !total_parts_cons. nilz. lia.
Qed.

Lemma nonneg_parts_nil : nonneg_parts [].
Proof. constructor. Qed.
Lemma nonneg_parts_cons : forall p ps, nonneg_parts (p :: ps) <-> 0 <= snd p /\ nonneg_parts ps.
Proof. intros; split; intro H; [inversion H; auto | constructor; tauto]. Qed.
Lemma nonneg_parts_app : forall l1 l2, nonneg_parts (l1 ++ l2) <-> nonneg_parts l1 /\ nonneg_parts l2.
Proof. intros; apply Forall_app. Qed.
Lemma nonneg_parts_rev : forall l, nonneg_parts l -> nonneg_parts (rev l).
Proof. intros l H. apply Forall_rev; exact H. Qed.
Lemma total_parts_nonneg : forall ps, nonneg_parts ps -> 0 <= total_parts ps.
Proof.
  induction ps; intro H; [cbn; lia|]. apply nonneg_parts_cons in H. rewrite total_parts_cons.
  destruct H as [H1 H2]. specialize (IHps H2). lia.
Qed.
Lemma total_nonneg : forall f, fnonneg f -> 0 <= total f.
Proof. intros f H; apply total_parts_nonneg; exact H. Qed.

Lemma units_nil : units (@nil part) = [].
Proof. reflexivity. Qed.
Lemma units_cons : forall p ps, units (p :: ps) = repeat (fst p) (Z.to_nat (snd p)) ++ units ps.
Proof. reflexivity. Qed.
Lemma units_app : forall l1 l2, units (l1 ++ l2) = units l1 ++ units l2.
Proof. induction l1; intros; [reflexivity|]. cbn [app]. rewrite !units_cons, IHl1, app_assoc. reflexivity. Qed.

Lemma repeat_snoc : forall (A : Type) (a : A) n, repeat a n ++ [a] = a :: repeat a n.
Proof. induction n; [reflexivity|]. cbn [repeat app]. rewrite IHn. reflexivity. Qed.
Lemma rev_repeat_same : forall (A : Type) (a : A) n, rev (repeat a n) = repeat a n.
Proof. induction n; [reflexivity|]. cbn [repeat rev]. rewrite IHn. apply repeat_snoc. Qed.
Lemma units_rev : forall l, units (rev l) = rev (units l).
Proof.
  induction l; [reflexivity|]. cbn [rev]. rewrite units_app, IHl, !units_cons. nilz. rewrite app_nil_r, rev_app_distr.
  rewrite rev_repeat_same. reflexivity.
Qed.

Lemma repeat_add_Z : forall (A : Type) (a : A) x y, 0 <= x -> 0 <= y ->
  repeat a (Z.to_nat (x + y)) = repeat a (Z.to_nat x) ++ repeat a (Z.to_nat y).
Proof. intros. rewrite Z2Nat.inj_add by lia. apply repeat_app. Qed.

Lemma units_length : forall ps, nonneg_parts ps -> Z.of_nat (length (units ps)) = total_parts ps.
Proof.
  induction ps; intro H; [reflexivity|]. apply nonneg_parts_cons in H. destruct H as [H1 H2].
  rewrite units_cons, app_length, repeat_length, total_parts_cons, Nat2Z.inj_add, IHps by assumption. lia.
Qed.
Lemma funits_length : forall f, fnonneg f -> Z.of_nat (length (funits f)) = total f.
Proof. intros; apply units_length; assumption. Qed.

(* a zero part contributes nothing *)
Lemma units_zero_part : forall a ps, units ((a, 0) :: ps) = units ps.
Proof. reflexivity. Qed.

Lemma app_eq_firstn_skipn : forall (A : Type) (l1 l2 l : list A), l1 ++ l2 = l ->
  l1 = firstn (length l1) l /\ l2 = skipn (length l1) l.
Proof.
  intros A l1 l2 l <-. split.
  - rewrite firstn_app, Nat.sub_diag, firstn_all. cbn. rewrite app_nil_r. reflexivity.
  - rewrite skipn_app, Nat.sub_diag, skipn_all. reflexivity.
Qed.

(* ------------------------------------------------------------------------------------------------ *)
(** * take_loop (the common loop of Take and TakeMax) *)

(* conservation holds for every input, negative amounts included *)
Lemma take_loop_total : forall ps n t r m, take_loop n ps = (t, r, m) ->
  total_parts t + total_parts r = total_parts ps.
Proof.
  induction ps as [|[a amt] rest IH]; intros n t r m H; cbn [take_loop] in H.
  - inversion H; reflexivity.
  - destruct (0 <? n) eqn:Hn.
    + destruct (n <? amt) eqn:Hlt.
      * inversion H; subst. rewrite !total_parts_cons. nilz. cbn [snd]. lia.
      * destruct (take_loop (n - amt) rest) as [[t' r'] m'] eqn:Hrec. inversion H; subst.
        specialize (IH _ _ _ _ Hrec). rewrite !total_parts_cons. cbn [snd]. lia.
    + inversion H; subst. nilz. lia.
Qed.

Lemma take_loop_nonpos : forall ps n, n <= 0 -> take_loop n ps = ([], ps, n).
Proof.
  intros [|[a amt] rest] n Hn; cbn [take_loop]; [reflexivity|].
  destruct (0 <? n) eqn:E; [apply Z.ltb_lt in E; lia | reflexivity].
Qed.

(* the full specification on non-negative fundings *)
Lemma take_loop_spec : forall ps n t r m, take_loop n ps = (t, r, m) -> 0 <= n -> nonneg_parts ps ->
  nonneg_parts t /\ nonneg_parts r /\
  m = Z.max 0 (n - total_parts ps) /\
  total_parts t = n - m /\
  total_parts r = total_parts ps - (n - m) /\
  units t ++ units r = units ps.
Proof.
  induction ps as [|[a amt] rest IH]; intros n t r m H Hn Hnn; cbn [take_loop] in H.
  - inversion H; subst. nilz. splits; try constructor; lia.
  - apply nonneg_parts_cons in Hnn. destruct Hnn as [Ha Hrest]. cbn [snd] in Ha.
    pose proof (total_parts_nonneg _ Hrest) as Htr.
    destruct (0 <? n) eqn:Hpos.
    + apply Z.ltb_lt in Hpos. destruct (n <? amt) eqn:Hlt.
      * apply Z.ltb_lt in Hlt. inversion H; subst.
        rewrite !total_parts_cons. nilz. cbn [snd].
        splits.
        -- apply nonneg_parts_cons; cbn [snd]; split; [lia|constructor].
        -- apply nonneg_parts_cons; cbn [snd]; split; [lia|assumption].
        -- lia.
        -- lia.
        -- lia.
        -- rewrite !units_cons. nilz. rewrite app_nil_r. cbn [fst snd]. rewrite app_assoc.
           rewrite <- repeat_add_Z by lia. f_equal. f_equal. f_equal. lia.
      * apply Z.ltb_ge in Hlt.
        destruct (take_loop (n - amt) rest) as [[t' r'] m'] eqn:Hrec. inversion H; subst.
        destruct (IH _ _ _ _ Hrec ltac:(lia) Hrest) as (I1 & I2 & I3 & I4 & I5 & I6).
        rewrite !total_parts_cons. cbn [snd]. splits.
        -- apply nonneg_parts_cons; cbn [snd]; split; assumption.
        -- assumption.
        -- lia.
        -- lia.
        -- lia.
        -- rewrite !units_cons. cbn [fst snd]. rewrite <- app_assoc, I6. reflexivity.
    + apply Z.ltb_ge in Hpos. assert (n = 0) by lia. subst n. inversion H; subst.
      rewrite !total_parts_cons. nilz. cbn [snd app].
      splits; try constructor; try assumption; try lia.
Qed.

(* the taken parts are a prefix of the funding, the remainder the matching suffix, as unit sequences *)
Lemma take_loop_prefix : forall ps n t r m, take_loop n ps = (t, r, m) -> 0 <= n -> nonneg_parts ps ->
  units t = firstn (Z.to_nat (n - m)) (units ps) /\ units r = skipn (Z.to_nat (n - m)) (units ps).
Proof.
  intros ps n t r m H Hn Hnn. destruct (take_loop_spec _ _ _ _ _ H Hn Hnn) as (I1 & I2 & I3 & I4 & I5 & I6).
  destruct (app_eq_firstn_skipn _ _ _ _ I6) as [E1 E2].
  assert (L : length (units t) = Z.to_nat (n - m)).
  { rewrite <- I4, <- (units_length t I1), Nat2Z.id. reflexivity. }
  rewrite L in E1, E2. split; assumption.
Qed.

(* ------------------------------------------------------------------------------------------------ *)
(** * Take *)

Lemma take_some : forall f n res rem, take f n = Some (res, rem) -> fnonneg f ->
  0 <= n /\ total res = n /\ total rem = total f - n /\ fnonneg res /\ fnonneg rem /\
  funits res ++ funits rem = funits f /\ f_asset res = f_asset f /\ f_asset rem = f_asset f.
Proof.
  intros f n res rem H Hnn. unfold take in H.
  destruct (take_loop n (f_parts f)) as [[t r] m] eqn:Hl.
  destruct (m =? 0) eqn:Hm; [|discriminate]. apply Z.eqb_eq in Hm. subst m.
  assert (Hn : 0 <= n).
  { destruct (Z_lt_le_dec n 0) as [Hneg|]; [|assumption].
    rewrite take_loop_nonpos in Hl by lia. inversion Hl; lia. }
  destruct (take_loop_spec _ _ _ _ _ Hl Hn Hnn) as (I1 & I2 & I3 & I4 & I5 & I6).
  inversion H; subst res rem; clear H. unfold total, fnonneg, funits. cbn [f_parts f_asset].
  set (zp := match f_parts f with (a, _) :: _ => if n =? 0 then [(a, n)] else [] | [] => [] end).
  assert (Z1 : total_parts zp = 0 /\ nonneg_parts zp /\ units zp = []).
  { subst zp. destruct (f_parts f) as [|[a x] l]; [splits; constructor|].
    destruct (n =? 0) eqn:E; [|splits; constructor]. apply Z.eqb_eq in E. subst n.
    splits; [reflexivity | repeat constructor; cbn; lia | reflexivity]. }
  destruct Z1 as (Z1 & Z2 & Z3).
  rewrite total_parts_app, units_app, Z1, Z3. cbn [app].
  splits; try lia; try assumption.
  apply nonneg_parts_app; split; assumption.
Qed.

Lemma take_none_iff : forall f n, fnonneg f -> (take f n = None <-> total f < n \/ n < 0).
Proof.
  intros f n Hnn. unfold take.
  destruct (take_loop n (f_parts f)) as [[t r] m] eqn:Hl.
  destruct (Z_lt_le_dec n 0) as [Hneg|Hn].
  - rewrite take_loop_nonpos in Hl by lia. inversion Hl as [[E1 E2 E3]]. clear E1 E2. subst m.
    destruct (n =? 0) eqn:E; [apply Z.eqb_eq in E; lia|]. split; auto.
  - destruct (take_loop_spec _ _ _ _ _ Hl Hn Hnn) as (I1 & I2 & I3 & I4 & I5 & I6).
    unfold total. destruct (m =? 0) eqn:E.
    + apply Z.eqb_eq in E. split; [discriminate|]. lia.
    + apply Z.eqb_neq in E. split; [|reflexivity]. intros _. lia.
Qed.

Lemma take_succeeds : forall f n, fnonneg f -> 0 <= n <= total f -> exists res rem, take f n = Some (res, rem).
Proof.
  intros f n Hnn Hn. destruct (take f n) as [[res rem]|] eqn:E; [eauto|].
  apply (take_none_iff f n Hnn) in E. lia.
Qed.

(* the taken funding is the first n units, the remainder the rest *)
Lemma take_prefix : forall f n res rem, take f n = Some (res, rem) -> fnonneg f ->
  funits res = firstn (Z.to_nat n) (funits f) /\ funits rem = skipn (Z.to_nat n) (funits f).
Proof.
  intros f n res rem H Hnn. destruct (take_some _ _ _ _ H Hnn) as (I0 & I1 & I2 & I3 & I4 & I5 & _).
  destruct (app_eq_firstn_skipn _ _ _ _ I5) as [E1 E2].
  assert (L : length (funits res) = Z.to_nat n).
  { rewrite <- I1, <- (funits_length res I3), Nat2Z.id. reflexivity. }
  rewrite L in E1, E2. split; assumption.
Qed.

(* ------------------------------------------------------------------------------------------------ *)
(** * TakeMax *)

Lemma take_max_spec : forall f n res rem, take_max f n = (res, rem) -> 0 <= n -> fnonneg f ->
  total res = Z.min n (total f) /\ total rem = total f - Z.min n (total f) /\ fnonneg res /\ fnonneg rem /\
  funits res ++ funits rem = funits f /\ f_asset res = f_asset f /\ f_asset rem = f_asset f.
Proof.
  intros f n res rem H Hn Hnn. unfold take_max in H.
  destruct (take_loop n (f_parts f)) as [[t r] m] eqn:Hl.
  destruct (take_loop_spec _ _ _ _ _ Hl Hn Hnn) as (I1 & I2 & I3 & I4 & I5 & I6).
  inversion H; subst res rem; clear H. unfold total, fnonneg, funits in *. cbn [f_parts f_asset].
  splits; try assumption; lia.
Qed.

(* conservation needs no side condition at all *)
Lemma take_max_total : forall f n res rem, take_max f n = (res, rem) -> total res + total rem = total f.
Proof.
  intros f n res rem H. unfold take_max in H.
  destruct (take_loop n (f_parts f)) as [[t r] m] eqn:Hl. inversion H; subst. unfold total; cbn [f_parts].
  eapply take_loop_total; eassumption.
Qed.

Lemma take_max_prefix : forall f n res rem, take_max f n = (res, rem) -> 0 <= n -> fnonneg f ->
  funits res = firstn (Z.to_nat (Z.min n (total f))) (funits f) /\
  funits rem = skipn (Z.to_nat (Z.min n (total f))) (funits f).
Proof.
  intros f n res rem H Hn Hnn. destruct (take_max_spec _ _ _ _ H Hn Hnn) as (I1 & I2 & I3 & I4 & I5 & _).
  destruct (app_eq_firstn_skipn _ _ _ _ I5) as [E1 E2].
  assert (L : length (funits res) = Z.to_nat (Z.min n (total f))).
  { rewrite <- I1, <- (funits_length res I3), Nat2Z.id. reflexivity. }
  rewrite L in E1, E2. split; assumption.
Qed.

(* ------------------------------------------------------------------------------------------------ *)
(** * Concat, Reverse, Assemble *)

Lemma concat_parts_total : forall l1 l2, total_parts (concat_parts l1 l2) = total_parts l1 + total_parts l2.
Proof.
  induction l1 as [|[a x] r1 IH]; intros l2; [cbn [concat_parts]; nilz; lia|].
  destruct r1 as [|q r1'].
  - cbn [concat_parts]. destruct l2 as [|[b y] r2]; [rewrite ?total_parts_cons; nilz; lia|].
    destruct (N.eqb a b); rewrite !total_parts_cons; cbn [snd]; rewrite ?total_parts_cons; nilz;
      cbn [snd]; lia.
  - change (concat_parts ((a, x) :: q :: r1') l2) with ((a, x) :: concat_parts (q :: r1') l2).
    rewrite !total_parts_cons, IH, !total_parts_cons. lia.
Qed.

Lemma concat_parts_nonneg : forall l1 l2, nonneg_parts l1 -> nonneg_parts l2 -> nonneg_parts (concat_parts l1 l2).
Proof.
  induction l1 as [|[a x] r1 IH]; intros l2 H1 H2; [exact H2|].
  apply nonneg_parts_cons in H1. destruct H1 as [Hx Hr]. cbn [snd] in Hx.
  destruct r1 as [|q r1'].
  - cbn [concat_parts]. destruct l2 as [|[b y] r2]; [repeat constructor; assumption|].
    apply nonneg_parts_cons in H2. destruct H2 as [Hy Hr2]. cbn [snd] in Hy.
    destruct (N.eqb a b); repeat (apply nonneg_parts_cons; cbn [snd]; split); try assumption; lia.
  - change (concat_parts ((a, x) :: q :: r1') l2) with ((a, x) :: concat_parts (q :: r1') l2).
    apply nonneg_parts_cons; cbn [snd]; split; [assumption|]. apply IH; assumption.
Qed.

Lemma concat_parts_units : forall l1 l2, nonneg_parts l1 -> nonneg_parts l2 ->
  units (concat_parts l1 l2) = units l1 ++ units l2.
Proof.
  induction l1 as [|[a x] r1 IH]; intros l2 H1 H2; [reflexivity|].
  apply nonneg_parts_cons in H1. destruct H1 as [Hx Hr]. cbn [snd] in Hx.
  destruct r1 as [|q r1'].
  - cbn [concat_parts]. destruct l2 as [|[b y] r2]; [rewrite app_nil_r; reflexivity|].
    apply nonneg_parts_cons in H2. destruct H2 as [Hy Hr2]. cbn [snd] in Hy.
    destruct (N.eqb a b) eqn:E; [|rewrite !units_cons; nilz; rewrite app_nil_r; reflexivity].
    apply N.eqb_eq in E. subst b. rewrite !units_cons. nilz. rewrite app_nil_r. cbn [fst snd].
    rewrite repeat_add_Z by assumption. rewrite app_assoc. reflexivity.
  - change (concat_parts ((a, x) :: q :: r1') l2) with ((a, x) :: concat_parts (q :: r1') l2).
    rewrite !units_cons, IH by assumption. rewrite units_cons, !app_assoc. reflexivity.
Qed.

Lemma freverse_total : forall f, total (freverse f) = total f.
Proof. intro f. unfold total, freverse; cbn [f_parts]. apply total_parts_rev. Qed.
Lemma freverse_nonneg : forall f, fnonneg f -> fnonneg (freverse f).
Proof. intros f H. unfold fnonneg, freverse; cbn [f_parts]. apply nonneg_parts_rev; exact H. Qed.
Lemma freverse_units : forall f, funits (freverse f) = rev (funits f).
Proof. intro f. unfold funits, freverse; cbn [f_parts]. apply units_rev. Qed.
Lemma freverse_asset : forall f, f_asset (freverse f) = f_asset f.
Proof. reflexivity. Qed.
Lemma freverse_involutive : forall f, freverse (freverse f) = f.
Proof. intros [a ps]. unfold freverse; cbn [f_parts f_asset]. rewrite rev_involutive. reflexivity. Qed.

(* the fold of OP_FUNDING_ASSEMBLE *)
Definition concat_all (fs : list funding) (acc : list part) : list part :=
  fold_left (fun acc f => concat_parts acc (f_parts f)) fs acc.

Lemma concat_all_total : forall fs acc,
  total_parts (concat_all fs acc) = total_parts acc + sumZ (map total fs).
Proof.
  induction fs as [|f fs IH]; intro acc; cbn [concat_all fold_left map]; rewrite ?sumZ_cons, ?sumZ_nil; [lia|].
  fold (concat_all fs (concat_parts acc (f_parts f))). rewrite IH, concat_parts_total.
  unfold total. lia.
Qed.

Lemma concat_all_nonneg : forall fs acc, nonneg_parts acc -> Forall fnonneg fs -> nonneg_parts (concat_all fs acc).
Proof.
  induction fs as [|f fs IH]; intros acc Ha Hf; [exact Ha|]. inversion Hf; subst.
  cbn [concat_all fold_left]. fold (concat_all fs (concat_parts acc (f_parts f))).
  apply IH; [apply concat_parts_nonneg|]; assumption.
Qed.

Lemma concat_all_units : forall fs acc, nonneg_parts acc -> Forall fnonneg fs ->
  units (concat_all fs acc) = units acc ++ concat (map funits fs).
Proof.
  induction fs as [|f fs IH]; intros acc Ha Hf; [cbn; rewrite app_nil_r; reflexivity|]. inversion Hf; subst.
  cbn [concat_all fold_left]. fold (concat_all fs (concat_parts acc (f_parts f))).
  rewrite IH by (try apply concat_parts_nonneg; assumption).
  rewrite concat_parts_units by assumption. cbn [map concat]. rewrite app_assoc. reflexivity.
Qed.

Lemma assemble_spec : forall fs r, assemble fs = SOk r ->
  fs <> [] /\
  Forall (fun f => f_asset f = f_asset r) fs /\
  total r = sumZ (map total fs) /\
  (Forall fnonneg fs -> fnonneg r /\ funits r = concat (map funits fs)).
Proof.
  intros fs r H. unfold assemble in H.
  destruct (rev fs) as [|last l] eqn:Hrev; [discriminate|].
  destruct (forallb (fun f => N.eqb (f_asset f) (f_asset last)) fs) eqn:Hall; [|discriminate].
  inversion H; subst r; clear H. cbn [f_asset f_parts]. unfold total, fnonneg, funits. cbn [f_parts].
  fold (concat_all fs []).
  split; [intro E; subst fs; discriminate|].
  split.
  { rewrite forallb_forall in Hall. apply Forall_forall. intros f Hin. apply N.eqb_eq. apply Hall; exact Hin. }
  split.
  { rewrite concat_all_total. nilz. reflexivity. }
  intro Hnn. split.
  - apply concat_all_nonneg; [constructor|assumption].
  - rewrite concat_all_units by (try constructor; assumption). reflexivity.
Qed.

(* assembling two fundings of the same asset always succeeds *)
Lemma assemble_two : forall x y, f_asset x = f_asset y -> exists r, assemble [x; y] = SOk r.
Proof.
  intros x y E. unfold assemble. cbn [rev app forallb]. rewrite E, N.eqb_refl. cbn. eauto.
Qed.

Lemma assemble_two_spec : forall x y r, assemble [x; y] = SOk r -> fnonneg x -> fnonneg y ->
  f_asset x = f_asset r /\ f_asset y = f_asset r /\ total r = total x + total y /\ fnonneg r /\
  funits r = funits x ++ funits y.
Proof.
  intros x y r H Hx Hy. destruct (assemble_spec _ _ H) as (_ & A & T & U).
  inversion A as [|? ? A1 A2]; subst. inversion A2 as [|? ? A3 _]; subst.
  destruct (U (Forall_cons _ Hx (Forall_cons _ Hy (Forall_nil _)))) as [U1 U2].
  cbn [map concat] in T, U2. rewrite !sumZ_cons, sumZ_nil in T. rewrite app_nil_r in U2.
  splits; try assumption. lia.
Qed.

(* ------------------------------------------------------------------------------------------------ *)
(** * Ratios as rationals *)

Definition Qof (r : ratio) : Q := Qmake (fst r) (snd r).
Definition req (p q : ratio) : Prop := fst p * Zpos (snd q) = fst q * Zpos (snd p).
Definition ratio_sum (a : list ratio) : ratio := fold_right ratio_add ratio_zero a.
Definition ratio_is_one (r : ratio) : Prop := fst r = Zpos (snd r).

Lemma req_Qeq : forall p q, req p q <-> Qeq (Qof p) (Qof q).
Proof. intros; reflexivity. Qed.
Lemma ratio_eqb_req : forall p q, ratio_eqb p q = true <-> req p q.
Proof. intros; unfold ratio_eqb, req. apply Z.eqb_eq. Qed.
Lemma ratio_is_one_req : forall r, ratio_is_one r <-> req r ratio_one.
Proof. intros [n d]; unfold ratio_is_one, req, ratio_one; cbn [fst snd]. lia. Qed.
Lemma Qof_add : forall p q, Qof (ratio_add p q) = Qplus (Qof p) (Qof q).
Proof. reflexivity. Qed.
Lemma Qof_sub : forall p q, Qeq (Qof (ratio_sub p q)) (Qminus (Qof p) (Qof q)).
Proof.
  intros [a b] [c d]. unfold Qof, ratio_sub, Qminus, Qplus, Qopp, Qeq; cbn [fst snd Qnum Qden]. ring.
Qed.
Lemma Qof_zero : Qof ratio_zero = 0%Q.
Proof. reflexivity. Qed.
Lemma Qof_one : Qof ratio_one = 1%Q.
Proof. reflexivity. Qed.

(* floor_share depends only on the rational value: Go's normalised big.Rat and the model's unnormalised
   pair give the same share *)
Lemma floor_share_req : forall amount p q, req p q -> floor_share amount p = floor_share amount q.
Proof.
  intros amount [n1 d1] [n2 d2] H. unfold req, floor_share in *; cbn [fst snd] in *.
  rewrite <- (Z.div_mul_cancel_r (amount * n1) (Zpos d1) (Zpos d2)) by lia.
  rewrite <- (Z.div_mul_cancel_r (amount * n2) (Zpos d2) (Zpos d1)) by lia.
  f_equal; [|lia]. rewrite <- !Z.mul_assoc, H. reflexivity.
Qed.
Lemma floor_share_scale : forall amount n d k,
  floor_share amount (n * Zpos k, (d * k)%positive) = floor_share amount (n, d).
Proof.
  intros. apply floor_share_req. unfold req; cbn [fst snd]. rewrite Pos2Z.inj_mul. ring.
Qed.
Lemma allocate_req : forall a b amount, Forall2 req a b -> allocate a amount = allocate b amount.
Proof.
  intros a b amount H. unfold allocate.
  assert (E : map (floor_share amount) a = map (floor_share amount) b).
  { induction H; [reflexivity|]. cbn [map]. rewrite IHForall2, (floor_share_req amount x y) by assumption.
    reflexivity. }
  rewrite E. reflexivity.
Qed.

(* ------------------------------------------------------------------------------------------------ *)
(** * Allocate *)

Lemma floor_share_bounds : forall amount n d,
  let fl := floor_share amount (n, d) in 0 <= amount * n - Zpos d * fl <= Zpos d - 1.
Proof.
  intros amount n d. unfold floor_share; cbn [fst snd].
  pose proof (Z.div_mod (amount * n) (Zpos d) ltac:(lia)) as E.
  pose proof (Z.mod_pos_bound (amount * n) (Zpos d) ltac:(lia)) as B. lia.
Qed.
Lemma floor_share_nonneg : forall amount q, 0 <= amount -> 0 <= fst q -> 0 <= floor_share amount q.
Proof. intros amount [n d] Ha Hn. unfold floor_share; cbn [fst snd] in *. apply Z.div_pos; nia. Qed.

(* the heart of Allocate: the floors fall short of the exact share total by less than one unit per entry *)
Lemma floors_bound : forall amount (a : list ratio),
  let N := fst (ratio_sum a) in let D := Zpos (snd (ratio_sum a)) in
  let S := sumZ (map (floor_share amount) a) in
  0 <= amount * N - D * S <= (D - 1) * Z.of_nat (length a).
Proof.
  intros amount a. induction a as [|[n d] r IH].
  - cbn. lia.
  - cbn zeta in *. cbn [ratio_sum fold_right] in *. fold (ratio_sum r) in *.
    destruct (ratio_sum r) as [N' D'] eqn:ES. unfold ratio_add. cbn [fst snd] in *.
    cbn [map length]. rewrite sumZ_cons.
    set (S' := sumZ (map (floor_share amount) r)) in *.
    pose proof (floor_share_bounds amount n d) as B. cbn zeta in B.
    set (fl := floor_share amount (n, d)) in *.
    rewrite Pos2Z.inj_mul, Nat2Z.inj_succ.
    set (len := Z.of_nat (length r)) in *. assert (0 <= len) by (subst len; lia).
    set (e := amount * n - Zpos d * fl) in *.
    set (X := amount * N' - Zpos D' * S') in *.
    replace (amount * (n * Zpos D' + N' * Zpos d) - Zpos d * Zpos D' * (fl + S'))
      with (Zpos D' * e + Zpos d * X) by (subst e X; ring).
    assert (P1 : 0 <= Zpos D' * e <= Zpos D' * (Zpos d - 1)) by (split; [nia | apply Z.mul_le_mono_nonneg_l; lia]).
    assert (P2 : 0 <= Zpos d * X <= Zpos d * ((Zpos D' - 1) * len))
      by (split; [nia | apply Z.mul_le_mono_nonneg_l; lia]).
    split; [lia|]. nia.
Qed.

Lemma distribute_length : forall l short, length (distribute short l) = length l.
Proof. induction l; intro short; cbn [distribute length]; [reflexivity|]. destruct (0 <? short); cbn [length]; rewrite IHl; reflexivity. Qed.

Lemma distribute_sum : forall l short,
  sumZ (distribute short l) = sumZ l + Z.max 0 (Z.min short (Z.of_nat (length l))).
Proof.
  induction l as [|x r IH]; intro short; cbn [distribute length].
  - rewrite sumZ_nil. lia.
  - destruct (0 <? short) eqn:E; rewrite !sumZ_cons, IH.
    + apply Z.ltb_lt in E. lia.
    + apply Z.ltb_ge in E. lia.
Qed.

Lemma distribute_nth : forall l short i, (i < length l)%nat ->
  nth i (distribute short l) 0 = nth i l 0 + (if Z.of_nat i <? short then 1 else 0).
Proof.
  induction l as [|x r IH]; intros short i Hi; cbn [length] in Hi; [lia|].
  cbn [distribute]. destruct (0 <? short) eqn:E.
  - apply Z.ltb_lt in E. destruct i as [|i]; cbn [nth].
    + destruct (Z.of_nat 0 <? short) eqn:F; [reflexivity|]. apply Z.ltb_ge in F. lia.
    + rewrite IH by lia. f_equal.
      destruct (Z.of_nat i <? short - 1) eqn:F1, (Z.of_nat (S i) <? short) eqn:F2; try reflexivity;
        rewrite ?Z.ltb_lt, ?Z.ltb_ge in *; lia.
  - apply Z.ltb_ge in E. destruct i as [|i]; cbn [nth].
    + destruct (Z.of_nat 0 <? short) eqn:F; [apply Z.ltb_lt in F; lia | lia].
    + rewrite IH by lia. f_equal.
      destruct (Z.of_nat i <? short) eqn:F1, (Z.of_nat (S i) <? short) eqn:F2; try reflexivity;
        rewrite ?Z.ltb_lt, ?Z.ltb_ge in *; lia.
Qed.

Lemma distribute_nonneg : forall l short, Forall (fun x => 0 <= x) l -> Forall (fun x => 0 <= x) (distribute short l).
Proof.
  induction l as [|x r IH]; intros short H; cbn [distribute]; [constructor|]. inversion H; subst.
  destruct (0 <? short); constructor; try apply IH; try assumption; lia.
Qed.

Lemma allocate_length : forall (a : list ratio) amount, length (allocate a amount) = length a.
Proof. intros. unfold allocate. rewrite distribute_length, map_length. reflexivity. Qed.

(* the sum of the shares for any list of ratios: the floors plus at most one unit per entry *)
Lemma allocate_sum_general : forall (a : list ratio) amount,
  let S := sumZ (map (floor_share amount) a) in
  sumZ (allocate a amount) = S + Z.max 0 (Z.min (amount - S) (Z.of_nat (length a))).
Proof. intros. unfold allocate. rewrite distribute_sum, map_length. reflexivity. Qed.

(* (d), the part that needs no sign condition: with ratios summing to 1 the floors fall short by fewer units
   than there are entries, so the single +1 pass of the Go loop hands out the whole amount *)
Theorem allocate_exact : forall (a : list ratio) amount,
  ratio_is_one (ratio_sum a) ->
  let floors := map (floor_share amount) a in
  let leftover := amount - sumZ floors in
  sumZ (allocate a amount) = amount /\
  length (allocate a amount) = length a /\
  0 <= leftover < Z.of_nat (length a) /\
  (forall i, (i < length a)%nat ->
     nth i (allocate a amount) 0 = floor_share amount (nth i a ratio_zero) + (if Z.of_nat i <? leftover then 1 else 0)).
Proof.
  intros a amount Hone floors leftover.
  pose proof (floors_bound amount a) as B. cbn zeta in B. unfold ratio_is_one in Hone. rewrite Hone in B.
  fold floors in B. set (D := Zpos (snd (ratio_sum a))) in *. assert (HD : 0 < D) by (subst D; lia).
  set (len := Z.of_nat (length a)) in *.
  assert (Hlen : 0 < len).
  { subst len. destruct a; [|cbn [length]; lia]. cbn in Hone. discriminate. }
  assert (L : 0 <= leftover < len).
  { subst leftover len. set (x := amount - sumZ floors).
    replace (amount * D - D * sumZ floors) with (D * x) in B by (subst x; ring).
    set (l := Z.of_nat (length a)) in *. change (0 <= D * x <= (D - 1) * l) in B. clearbody x l D. split; nia. }
  split; [|split; [|split]].
  - rewrite allocate_sum_general. fold floors. fold leftover. fold len. lia.
  - apply allocate_length.
  - exact L.
  - intros i Hi. unfold allocate. fold floors. fold leftover.
    rewrite distribute_nth by (subst floors; rewrite map_length; exact Hi).
    f_equal. subst floors.
    assert (Z0 : floor_share amount ratio_zero = 0)
      by (unfold floor_share, ratio_zero; cbn [fst snd]; rewrite Z.mul_0_r; reflexivity).
    rewrite <- (map_nth (floor_share amount) a ratio_zero i), Z0. reflexivity.
Qed.

Lemma allocate_nonneg : forall (a : list ratio) amount,
  Forall (fun q : ratio => 0 <= fst q) a -> 0 <= amount -> Forall (fun x => 0 <= x) (allocate a amount).
Proof.
  intros a amount Hnn Hamt. unfold allocate. apply distribute_nonneg. apply Forall_forall. intros x Hin.
  apply in_map_iff in Hin. destruct Hin as (q & <- & Hq). apply floor_share_nonneg; [assumption|].
  rewrite Forall_forall in Hnn. apply Hnn; assumption.
Qed.

(* (d) allocate_spec *)
Theorem allocate_spec : forall (a : list ratio) amount,
  Forall (fun q : ratio => 0 <= fst q) a -> ratio_is_one (ratio_sum a) -> 0 <= amount ->
  let floors := map (floor_share amount) a in
  let leftover := amount - sumZ floors in
  sumZ (allocate a amount) = amount /\
  length (allocate a amount) = length a /\
  0 <= leftover < Z.of_nat (length a) /\
  (forall i, (i < length a)%nat ->
     nth i (allocate a amount) 0 = floor_share amount (nth i a ratio_zero) + (if Z.of_nat i <? leftover then 1 else 0)) /\
  Forall (fun x => 0 <= x) (allocate a amount).
Proof.
  intros a amount Hnn Hone Hamt floors leftover.
  destruct (allocate_exact a amount Hone) as (A1 & A2 & A3 & A4).
  split; [exact A1|split; [exact A2|split; [exact A3|split; [exact A4|apply allocate_nonneg; assumption]]]].
Qed.

(* ------------------------------------------------------------------------------------------------ *)
(** * NewAllotment *)

Definition portion_nonneg (p : portion) : Prop := match p with PRemaining => True | PSpecific q => 0 <= fst q end.

Lemma Qof_ratio_sum_cons : forall q a, Qof (ratio_sum (q :: a)) = Qplus (Qof q) (Qof (ratio_sum a)).
Proof. reflexivity. Qed.

Lemma new_allotment_sum : forall ps R,
  Qeq (Qof (ratio_sum (map (fun p => match p with PRemaining => R | PSpecific q => q end) ps)))
      (Qof (sum_specific ps) + inject_Z (Z.of_nat (count_remaining ps)) * Qof R)%Q.
Proof.
  intros ps R. induction ps as [|[|q] r IH].
  - cbn [map ratio_sum fold_right sum_specific count_remaining]. rewrite Qof_zero. cbn. ring.
  - cbn [map sum_specific count_remaining]. rewrite Qof_ratio_sum_cons, IH.
    rewrite Nat2Z.inj_succ. unfold Z.succ. rewrite inject_Z_plus. ring.
  - cbn [map sum_specific count_remaining]. rewrite Qof_ratio_sum_cons, IH, Qof_add. ring.
Qed.

(* an allotment is exact when it has a `remaining` entry or its specific portions already sum to 1; this is
   what the compiler (VisitAllotment / Compiler.visit_allotment) enforces statically *)
Lemma new_allotment_length : forall ps a, new_allotment ps = inr a -> length a = length ps.
Proof.
  intros ps a H. unfold new_allotment in H.
  destruct (Nat.ltb 1 (count_remaining ps)); [discriminate|].
  destruct (ratio_gt1 (sum_specific ps)); [discriminate|]. inversion H; subst. apply map_length.
Qed.

Lemma new_allotment_exact : forall ps a, new_allotment ps = inr a ->
  ((1 <= count_remaining ps)%nat \/ req (sum_specific ps) ratio_one) -> ratio_is_one (ratio_sum a).
Proof.
  intros ps a H Hex. unfold new_allotment in H.
  destruct (Nat.ltb 1 (count_remaining ps)) eqn:Hc; [discriminate|]. apply Nat.ltb_ge in Hc.
  destruct (ratio_gt1 (sum_specific ps)) eqn:Hg; [discriminate|].
  inversion H; subst a; clear H.
  apply ratio_is_one_req, req_Qeq. rewrite new_allotment_sum, Qof_sub, Qof_one.
  destruct Hex as [H1|H1].
  - assert (E : count_remaining ps = 1%nat) by lia. rewrite E. cbn. ring.
  - assert (H2 : Qeq (Qof (sum_specific ps)) 1%Q) by exact H1. clear H1. rename H2 into H1.
    assert (count_remaining ps = 0%nat \/ count_remaining ps = 1%nat) as [E|E] by lia; rewrite E; cbn; rewrite H1; ring.
Qed.

Lemma new_allotment_nonneg : forall ps a, new_allotment ps = inr a ->
  Forall portion_nonneg ps -> Forall (fun q : ratio => 0 <= fst q) a.
Proof.
  intros ps a H Hnn. unfold new_allotment in H.
  destruct (Nat.ltb 1 (count_remaining ps)) eqn:Hc; [discriminate|].
  destruct (ratio_gt1 (sum_specific ps)) eqn:Hg; [discriminate|].
  unfold ratio_gt1 in Hg. apply Z.ltb_ge in Hg.
  inversion H; subst a; clear H.
  apply Forall_forall. intros q Hin. apply in_map_iff in Hin. destruct Hin as (p & <- & Hp).
  rewrite Forall_forall in Hnn. specialize (Hnn p Hp). destruct p; [|exact Hnn].
  unfold ratio_sub, ratio_one; cbn [fst snd]. lia.
Qed.

Theorem new_allotment_spec : forall ps a, new_allotment ps = inr a ->
  Forall portion_nonneg ps ->
  length a = length ps /\
  Forall (fun q : ratio => 0 <= fst q) a /\
  (((1 <= count_remaining ps)%nat \/ req (sum_specific ps) ratio_one) -> ratio_is_one (ratio_sum a)).
Proof.
  intros ps a H Hnn. split; [eapply new_allotment_length; eassumption|].
  split; [eapply new_allotment_nonneg; eassumption|]. intro Hex. eapply new_allotment_exact; eassumption.
Qed.
