(* C02, lock sets of general scripts — what the outcome of the Numscript pipeline ([run_program], Run.v) depends on, and
   which accounts its postings touch, in terms of the two lock sets the engine takes before it reads any balance:
   [ro_involved] (read locks) and [ro_sources] (write locks).

   1. resolution: [resolve_resources] never reads a balance; its invariant [rr_inv] ties values, [r_involved], [r_pending];
   2. frame: the run depends on the store's balances only through [read_set] (balance() variables + needed accounts);
      [read_set] is inside [ro_involved] for EVERY program and inside [ro_sources] + balance() accounts for compiled ones;
   3. machine invariant [vm_inv], for ANY code: funding parts and posting sources are accounts of the initial balance
      table, destinations are account values of the resource table;
   4. compiler invariant [cinv]: every key of NeededBalances is in Sources, no funding constant, declared types only.
   Nothing here uses the source semantics, [norm_script] or a typing hypothesis. *)
From Coq Require Import Lia.
From FL Require Export Numscript.CompileCorrectProps.
Open Scope Z_scope.

(* ================================================================================================================ *)
(* 1. resolution                                                                                                      *)
(* ================================================================================================================ *)
Definition same_meta (s1 s2 : store) : Prop := st_meta s1 = st_meta s2 /\ st_parse s1 = st_parse s2.

Lemma same_meta_refl : forall s, same_meta s s.
Proof. intros s; split; reflexivity. Qed.

(* ResolveResources reads account metadata and the parse table, never a balance *)
Lemma resolve_resources_meta : forall rs vs s1 s2 acc, same_meta s1 s2 ->
  resolve_resources rs vs s1 acc = resolve_resources rs vs s2 acc.
Proof.
  induction rs as [|r rs IH]; intros vs s1 s2 acc SM; [reflexivity|].
  destruct SM as [M P]. cbn [resolve_resources]. rewrite M, P.
  match goal with |- bind ?m _ = bind ?m _ => destruct m as [[[v inv] pend]|e|ps] end; cbn [bind];
    [apply IH; split; assumption|reflexivity|reflexivity].
Qed.

Lemma involved_lookup_app : forall l l' i,
  involved_lookup (l ++ l') i = match involved_lookup l i with Some a => Some a | None => involved_lookup l' i end.
Proof.
  induction l as [|[j a] l IH]; intros l' i; [reflexivity|]. cbn [app involved_lookup].
  destruct (Nat.eqb i j); [reflexivity|apply IH].
Qed.
Lemma involved_lookup_none : forall l i, (forall j a, In (j, a) l -> j <> i) -> involved_lookup l i = None.
Proof.
  induction l as [|[j a] l IH]; intros i H; [reflexivity|]. cbn [involved_lookup].
  destruct (Nat.eqb i j) eqn:E.
  - apply Nat.eqb_eq in E. exfalso. apply (H j a (or_introl eq_refl)). auto.
  - apply IH. intros j' a' I. apply (H j' a'). right; exact I.
Qed.
Lemma involved_lookup_in : forall l i a, involved_lookup l i = Some a -> In a (map snd l).
Proof.
  induction l as [|[j b] l IH]; intros i a H; [discriminate|]. cbn [involved_lookup] in H. cbn [map snd].
  destruct (Nat.eqb i j); [injection H as ->; left; reflexivity|right; eauto].
Qed.

(* the invariant of the resolution loop, for every resource table *)
Record rr_inv (acc : resolved) : Prop := {
  rr_lt : forall i a, In (i, a) (r_involved acc) -> (i < length (r_vals acc))%nat;
  rr_acc : forall i a, nth_error (r_vals acc) i = Some (VAccount a) -> involved_lookup (r_involved acc) i = Some a;
  rr_pend : forall idx a x, In (idx, a, x) (r_pending acc) -> In a (map snd (r_involved acc))
}.

Lemma rr_inv_init : rr_inv init_resolved.
Proof. constructor; cbn; [intros ? ? []|intros [|i] a H; discriminate|intros ? ? ? []]. Qed.

Lemma rr_inv_step : forall acc v inv pend, rr_inv acc ->
  (inv = [] \/ exists a, inv = [(length (r_vals acc), a)]) ->
  (forall a, v = VAccount a -> inv = [(length (r_vals acc), a)]) ->
  (forall idx a x, In (idx, a, x) pend -> In a (map snd inv)) ->
  rr_inv {| r_vals := r_vals acc ++ [v]; r_involved := r_involved acc ++ inv; r_pending := r_pending acc ++ pend |}.
Proof.
  intros acc v inv pend [L A P] Hinv Hv Hp. constructor; cbn [r_vals r_involved r_pending].
  - intros i a I. rewrite app_length. cbn [length]. apply in_app_or in I as [I|I].
    + specialize (L _ _ I). lia.
    + destruct Hinv as [->|(b & ->)]; [destruct I|]. destruct I as [E|[]]. injection E as <- _. lia.
  - intros i a H. rewrite involved_lookup_app.
    destruct (Nat.lt_ge_cases i (length (r_vals acc))) as [Lt|Ge].
    + rewrite nth_error_app1 in H by assumption. rewrite (A _ _ H). reflexivity.
    + rewrite nth_error_app2 in H by assumption.
      destruct (i - length (r_vals acc))%nat as [|k] eqn:E; [|destruct k; discriminate].
      cbn in H. injection H as ->. assert (i = length (r_vals acc)) by lia. subst i.
      rewrite involved_lookup_none by (intros j b I E'; specialize (L _ _ I); lia).
      rewrite (Hv a eq_refl). cbn [involved_lookup]. rewrite Nat.eqb_refl. reflexivity.
  - intros idx a x I. rewrite map_app. apply in_or_app. apply in_app_or in I as [I|I]; [left; eauto|right; eauto].
Qed.

Lemma resolve_resources_rr : forall rs vs s acc r, rr_inv acc -> resolve_resources rs vs s acc = Done r -> rr_inv r.
Proof.
  induction rs as [|r0 rs IH]; intros vs s acc r I H; cbn [resolve_resources] in H; [injection H as <-; exact I|].
  match type of H with bind ?m _ = _ => destruct m as [[[v inv] pend]|e|ps] eqn:E end; cbn [bind] in H; try discriminate.
  eapply IH; [|exact H]. apply rr_inv_step; [exact I| | |].
  - destruct r0 as [c|t name|t name a key|name a sa|aa amt].
    + injection E as _ <- _. destruct c; eauto.
    + destruct (assoc_N name vs) as [w|]; [|discriminate]. injection E as _ <- _. destruct w; eauto.
    + destruct (as_account (nth_error (r_vals acc) a)) as [x| |]; cbn [bind] in E; try discriminate.
      destruct (meta_lookup (st_meta s) x key) as [raw|]; [|discriminate].
      destruct (parse_lookup (st_parse s) t raw) as [w|]; [|discriminate]. injection E as _ <- _. destruct w; eauto.
    + destruct (as_account (nth_error (r_vals acc) a)) as [x| |]; cbn [bind] in E; try discriminate.
      destruct (nth_error (r_vals acc) sa) as [[]|]; try discriminate. injection E as _ <- _. eauto.
    + destruct (as_asset (nth_error (r_vals acc) aa)) as [x| |]; cbn [bind] in E; try discriminate.
      injection E as _ <- _. auto.
  - intros b Ev. destruct r0 as [c|t name|t name a key|name a sa|aa amt].
    + injection E as <- <- _. subst c. reflexivity.
    + destruct (assoc_N name vs) as [w|]; [|discriminate]. injection E as <- <- _. subst w. reflexivity.
    + destruct (as_account (nth_error (r_vals acc) a)) as [x| |]; cbn [bind] in E; try discriminate.
      destruct (meta_lookup (st_meta s) x key) as [raw|]; [|discriminate].
      destruct (parse_lookup (st_parse s) t raw) as [w|]; [|discriminate]. injection E as <- <- _. subst w. reflexivity.
    + destruct (as_account (nth_error (r_vals acc) a)) as [x| |]; cbn [bind] in E; try discriminate.
      destruct (nth_error (r_vals acc) sa) as [[]|]; try discriminate. injection E as <- _ _. discriminate.
    + destruct (as_asset (nth_error (r_vals acc) aa)) as [x| |]; cbn [bind] in E; try discriminate.
      injection E as <- _ _. discriminate.
  - intros idx b x Hin. destruct r0 as [c|t name|t name a key|name a sa|aa amt].
    + injection E as _ _ <-. destruct Hin.
    + destruct (assoc_N name vs) as [w|]; [|discriminate]. injection E as _ _ <-. destruct Hin.
    + destruct (as_account (nth_error (r_vals acc) a)) as [y| |]; cbn [bind] in E; try discriminate.
      destruct (meta_lookup (st_meta s) y key) as [raw|]; [|discriminate].
      destruct (parse_lookup (st_parse s) t raw) as [w|]; [|discriminate]. injection E as _ _ <-. destruct Hin.
    + destruct (as_account (nth_error (r_vals acc) a)) as [y| |]; cbn [bind] in E; try discriminate.
      destruct (nth_error (r_vals acc) sa) as [[]|]; try discriminate. injection E as _ <- <-.
      destruct Hin as [Hin|[]]. injection Hin as _ <- _. left; reflexivity.
    + destruct (as_asset (nth_error (r_vals acc) aa)) as [y| |]; cbn [bind] in E; try discriminate.
      injection E as _ _ <-. destruct Hin.
Qed.

(* ================================================================================================================ *)
(* 2. the frame                                                                                                       *)
(* ================================================================================================================ *)
Definition pend_accounts (pend : list (nat * account * asset)) : list account := map (fun e => snd (fst e)) pend.

(* the accounts ResolveBalances reads from the store: the account values at the keys of NeededBalances, except world *)
Definition needed_accounts (nd : list (nat * list nat)) (vals : list value) : list account :=
  flat_map (fun e => match nth_error vals (fst e) with
                     | Some (VAccount a) => if N.eqb a world then [] else [a]
                     | _ => []
                     end) nd.

Lemma fill_pending_agree : forall pend s1 s2 vals,
  (forall a x, In a (pend_accounts pend) -> store_balance s1 a x = store_balance s2 a x) ->
  fill_pending pend s1 vals = fill_pending pend s2 vals.
Proof.
  induction pend as [|[[idx a] x] pend IH]; intros s1 s2 vals H; [reflexivity|].
  cbn [fill_pending]. rewrite (H a x) by (left; reflexivity).
  destruct (store_balance s2 a x <? 0); [reflexivity|]. apply IH. intros b y I. apply H. right; exact I.
Qed.

Lemma needed_assets_agree : forall vals s1 s2 a assets b,
  (a <> world -> forall x, store_balance s1 a x = store_balance s2 a x) ->
  needed_assets vals s1 a assets b = needed_assets vals s2 a assets b.
Proof.
  induction assets as [|x_a rest IH]; intros b H; [reflexivity|]. cbn [needed_assets].
  destruct (asset_of_value (nth_error vals x_a)) as [x| |]; cbn [bind]; try reflexivity.
  destruct (N.eqb a world) eqn:W; [apply IH; exact H|].
  rewrite (H (proj1 (N.eqb_neq _ _) W) x). apply IH; exact H.
Qed.

Lemma resolve_balances_agree : forall nd vals s1 s2 b,
  (forall a x, In a (needed_accounts nd vals) -> store_balance s1 a x = store_balance s2 a x) ->
  resolve_balances nd vals s1 b = resolve_balances nd vals s2 b.
Proof.
  induction nd as [|[k assets] nd IH]; intros vals s1 s2 b H; [reflexivity|]. cbn [resolve_balances].
  unfold needed_accounts in H. cbn [flat_map fst] in H.
  destruct (nth_error vals k) as [[a| | | | | | |]|]; cbn [as_account bind]; try reflexivity.
  rewrite (needed_assets_agree vals s1 s2 a assets b).
  - destruct (needed_assets vals s2 a assets b) as [b'| |]; cbn [bind]; try reflexivity.
    apply IH. intros c x I. apply H. apply in_or_app. right; exact I.
  - intros W x. apply H. apply in_or_app. left. apply N.eqb_neq in W. rewrite W. left; reflexivity.
Qed.

(* balance() variables overwrite monetary slots only: account values are those ResolveResources produced *)
Lemma fill_pending_accounts : forall pend s vals vals', fill_pending pend s vals = Done vals' ->
  forall i a, nth_error vals' i = Some (VAccount a) -> nth_error vals i = Some (VAccount a).
Proof.
  induction pend as [|[[idx b] x] pend IH]; intros s vals vals' H i a N1; cbn [fill_pending] in H.
  - injection H as <-. exact N1.
  - destruct (store_balance s b x <? 0); [discriminate|]. specialize (IH _ _ _ H _ _ N1).
    rewrite list_set_nth in IH. destruct (Nat.eqb i idx); [|exact IH].
    destruct (nth_error vals i); discriminate.
Qed.

Lemma needed_accounts_incl : forall nd vals vals',
  (forall i a, nth_error vals' i = Some (VAccount a) -> nth_error vals i = Some (VAccount a)) ->
  incl (needed_accounts nd vals') (needed_accounts nd vals).
Proof.
  intros nd vals vals' H a I. unfold needed_accounts in *. apply in_flat_map in I as ([k assets] & I1 & I2).
  apply in_flat_map. exists (k, assets). split; [exact I1|]. cbn [fst] in *.
  destruct (nth_error vals' k) as [[c| | | | | | |]|] eqn:E; try destruct I2. rewrite (H _ _ E). exact I2.
Qed.

(* the exact set of accounts whose balances the run consults *)
Definition read_set (p : program) (vars : option (list (N * value))) (s : store) : list account :=
  match vars with
  | None => []
  | Some vs =>
      match resolve_resources (p_res p) vs s init_resolved with
      | Done r => pend_accounts (r_pending r) ++ needed_accounts (p_needed p) (r_vals r)
      | _ => []
      end
  end.
(* the accounts of the balance() variables alone *)
Definition balance_var_accounts (p : program) (vars : option (list (N * value))) (s : store) : list account :=
  match vars with
  | None => []
  | Some vs =>
      match resolve_resources (p_res p) vs s init_resolved with
      | Done r => pend_accounts (r_pending r)
      | _ => []
      end
  end.

Definition agree_on (l : list account) (s1 s2 : store) : Prop :=
  forall a x, In a l -> store_balance s1 a x = store_balance s2 a x.

(* resolution (hence both lock sets, and a failure of resolution) does not depend on the balances at all *)
Lemma run_program_resolution : forall p vars s1 s2 extra, same_meta s1 s2 ->
  match run_program p vars s1 extra, run_program p vars s2 extra with
  | Done o1, Done o2 => ro_involved o1 = ro_involved o2 /\ ro_sources o1 = ro_sources o2
  | Err e1, Err e2 => e1 = e2
  | Panic p1, Panic p2 => p1 = p2
  | _, _ => False
  end.
Proof.
  intros p vars s1 s2 extra SM. unfold run_program. destruct vars as [vs|]; [|reflexivity].
  rewrite <- (resolve_resources_meta _ vs s1 s2 _ SM).
  destruct (resolve_resources (p_res p) vs s1 _) as [r|e|ps]; cbn [bind ro_involved ro_sources]; auto.
Qed.

(* FRAME, every program: the whole outcome is a function of the balances of [read_set] *)
Lemma frame_read_set : forall p vars s1 s2 extra o1,
  run_program p vars s1 extra = Done o1 -> same_meta s1 s2 -> agree_on (read_set p vars s1) s1 s2 ->
  run_program p vars s2 extra = Done o1.
Proof.
  intros p vars s1 s2 extra o1 H SM A. unfold run_program, read_set in *. destruct vars as [vs|]; [|discriminate].
  fold init_resolved in *. rewrite <- (resolve_resources_meta _ vs s1 s2 _ SM).
  destruct (resolve_resources (p_res p) vs s1 init_resolved) as [r|e|ps]; cbn [bind] in *; try discriminate.
  injection H as <-. f_equal. f_equal.
  rewrite <- (fill_pending_agree (r_pending r) s1 s2) by (intros a x I; apply A; apply in_or_app; left; exact I).
  destruct (fill_pending (r_pending r) s1 (r_vals r)) as [vals| |] eqn:F; cbn [bind]; try reflexivity.
  rewrite <- (resolve_balances_agree (p_needed p) vals s1 s2); [reflexivity|].
  intros a x I. apply A. apply in_or_app. right.
  eapply needed_accounts_incl; [|exact I]. eapply fill_pending_accounts; exact F.
Qed.

(* [read_set] is read-locked, for every program *)
Lemma read_set_involved : forall p vars s extra o, run_program p vars s extra = Done o ->
  incl (read_set p vars s) (ro_involved o).
Proof.
  intros p vars s extra o H. unfold run_program, read_set in *. destruct vars as [vs|]; [|discriminate].
  fold init_resolved in *.
  destruct (resolve_resources (p_res p) vs s init_resolved) as [r|e|ps] eqn:R; cbn [bind] in *; try discriminate.
  injection H as <-. cbn [ro_involved].
  pose proof (resolve_resources_rr _ _ _ _ _ rr_inv_init R) as I.
  intros a Ha. apply in_app_or in Ha as [Ha|Ha].
  - unfold pend_accounts in Ha. apply in_map_iff in Ha as ([[idx b] x] & E & Hin). cbn in E. subst b.
    eapply rr_pend; eassumption.
  - unfold needed_accounts in Ha. apply in_flat_map in Ha as ([k assets] & _ & Hk). cbn [fst] in Hk.
    destruct (nth_error (r_vals r) k) as [[c| | | | | | |]|] eqn:E; try destruct Hk.
    destruct (N.eqb c world); [destruct Hk|]. destruct Hk as [<-|[]].
    eapply involved_lookup_in. eapply rr_acc; eassumption.
Qed.

Lemma balance_vars_in_read_set : forall p vars s, incl (balance_var_accounts p vars s) (read_set p vars s).
Proof.
  intros p vars s a H. unfold balance_var_accounts, read_set in *. destruct vars as [vs|]; [|exact H].
  destruct (resolve_resources (p_res p) vs s init_resolved); [|exact H|exact H]. apply in_or_app. left; exact H.
Qed.

(* the write-locked accounts are read-locked too *)
Lemma sources_involved : forall p vars s extra o a, run_program p vars s extra = Done o ->
  In (Some a) (ro_sources o) -> In a (ro_involved o).
Proof.
  intros p vars s extra o a H I. unfold run_program in H. destruct vars as [vs|]; [|discriminate].
  destruct (resolve_resources (p_res p) vs s _) as [r|e|ps]; cbn [bind] in H; try discriminate.
  injection H as <-. cbn [ro_involved ro_sources] in *. apply in_map_iff in I as (k & E & _).
  eapply involved_lookup_in; exact E.
Qed.

(* a program whose NeededBalances keys are all in Sources (every compiled program: [compile_needed_in_sources]) *)
Definition needed_in_sources (p : program) : Prop := forall k v, In (k, v) (p_needed p) -> In k (p_sources p).

Lemma read_set_sources : forall p vars s extra o, needed_in_sources p -> run_program p vars s extra = Done o ->
  forall a, In a (read_set p vars s) -> In a (balance_var_accounts p vars s) \/ (In (Some a) (ro_sources o) /\ a <> world).
Proof.
  intros p vars s extra o NS H a Ha. unfold run_program, read_set, balance_var_accounts in *.
  destruct vars as [vs|]; [|discriminate]. fold init_resolved in *.
  destruct (resolve_resources (p_res p) vs s init_resolved) as [r|e|ps] eqn:R; cbn [bind] in *; try discriminate.
  injection H as <-. cbn [ro_sources].
  pose proof (resolve_resources_rr _ _ _ _ _ rr_inv_init R) as I.
  apply in_app_or in Ha as [Ha|Ha]; [left; exact Ha|right].
  unfold needed_accounts in Ha. apply in_flat_map in Ha as ([k assets] & Hin & Hk). cbn [fst] in Hk.
  destruct (nth_error (r_vals r) k) as [[c| | | | | | |]|] eqn:E; try destruct Hk.
  destruct (N.eqb c world) eqn:W; [destruct Hk|]. destruct Hk as [<-|[]]. split; [|apply N.eqb_neq; exact W].
  apply in_map_iff. exists k. split; [eapply rr_acc; eassumption|]. eapply NS; exact Hin.
Qed.

(* ================================================================================================================ *)
(* 3. the machine: where funding parts, posting sources and posting destinations come from (ANY code)               *)
(* ================================================================================================================ *)
Definition bsub (b' b : balances) : Prop := forall a, bal_has_account b' a = true -> bal_has_account b a = true.
Lemma bsub_refl : forall b, bsub b b.
Proof. intros b a H; exact H. Qed.
Lemma bsub_trans : forall a b c, bsub a b -> bsub b c -> bsub a c.
Proof. intros a b c H1 H2 x Hx. auto. Qed.

Lemma bal_set_has_inv : forall b a s z c, bal_has_account (bal_set b a s z) c = true -> c = a \/ bal_has_account b c = true.
Proof.
  induction b as [|[[a' s'] z'] b IH]; intros a s z c H; [rewrite bal_set_nil in H|rewrite bal_set_cons in H].
  - rewrite has_account_cons in H. apply orb_prop in H as [H|H]; [left; apply N.eqb_eq; exact H|discriminate].
  - destruct (N.eqb a a' && N.eqb s s') eqn:E; rewrite has_account_cons in H; rewrite has_account_cons.
    + apply orb_prop in H as [H|H]; [left; apply N.eqb_eq; exact H|right; rewrite H; apply orb_true_r].
    + apply orb_prop in H as [H|H]; [right; rewrite H; reflexivity|].
      destruct (IH _ _ _ _ H) as [->|K]; [left; reflexivity|right; rewrite K; apply orb_true_r].
Qed.
Lemma bal_set_sub : forall b a s z, bal_has_account b a = true -> bsub (bal_set b a s z) b.
Proof. intros b a s z H c Hc. destruct (bal_set_has_inv _ _ _ _ _ Hc) as [->|K]; assumption. Qed.

Lemma withdraw_all_sub : forall b a s ov f b', withdraw_all b a s ov = Some (f, b') ->
  bsub b' b /\ forall c, In c (accts f) -> bal_has_account b c = true.
Proof.
  intros b a s ov f b' H. unfold withdraw_all in H. destruct (bal_get b a s) as [bal|] eqn:G; [|discriminate].
  apply bal_get_has in G. destruct (0 <? bal + ov); injection H as <- <-.
  - split; [apply bal_set_sub; exact G|]. intros c [<-|[]]. exact G.
  - split; [apply bsub_refl|]. intros c [<-|[]]. exact G.
Qed.
Lemma withdraw_always_sub : forall b a s amt f b', withdraw_always b a s amt = Some (f, b') ->
  bsub b' b /\ forall c, In c (accts f) -> bal_has_account b c = true.
Proof.
  intros b a s amt f b' H. unfold withdraw_always in H. destruct (bal_get b a s) as [bal|] eqn:G; [|discriminate].
  apply bal_get_has in G. injection H as <- <-. split; [apply bal_set_sub; exact G|]. intros c [<-|[]]. exact G.
Qed.
Lemma credit_sub : forall b d f, bsub (credit b d f) b.
Proof.
  intros b d f. unfold credit. destruct (N.eqb d world); [apply bsub_refl|].
  destruct (bal_get b d (f_asset f)) eqn:G; [|apply bsub_refl]. apply bal_set_sub. eapply bal_get_has; exact G.
Qed.
Lemma repay_sub : forall s ps b b', repay b s ps = Some b' -> bsub b' b.
Proof.
  induction ps as [|[a amt] ps IH]; intros b b' H; unfold repay in H; fold repay in H.
  - injection H as <-. apply bsub_refl.
  - destruct (N.eqb a world); [eauto|]. destruct (bal_has_account b a) eqn:G; [|discriminate].
    eapply bsub_trans; [eapply IH; exact H|]. apply bal_set_sub. exact G.
Qed.

Lemma Forall_firstn_ : forall A (P : A -> Prop) k l, Forall P l -> Forall P (firstn k l).
Proof. induction k as [|k IH]; intros l F; [constructor|]. destruct F; cbn [firstn]; constructor; auto. Qed.
Lemma Forall_skipn_ : forall A (P : A -> Prop) k l, Forall P l -> Forall P (skipn k l).
Proof. induction k as [|k IH]; intros l F; [exact F|]. destruct F; cbn [skipn]; [constructor|auto]. Qed.

Lemma fold_concat_accts_in : forall fs acc a,
  In a (map fst (fold_left (fun acc f => concat_parts acc (f_parts f)) fs acc)) ->
  In a (map fst acc) \/ exists f, In f fs /\ In a (accts f).
Proof.
  induction fs as [|f fs IH]; intros acc a H; cbn [fold_left] in H; [left; exact H|].
  destruct (IH _ _ H) as [K|(g & I1 & I2)].
  - apply concat_parts_accts in K. apply in_app_or in K as [K|K]; [left; exact K|].
    right. exists f. split; [left; reflexivity|exact K].
  - right. exists g. split; [right; exact I1|exact I2].
Qed.

Section VMInv.
  Variable Sa : account -> Prop.   (* accounts a funding part, a balance entry, a posting source may name *)
  Variable Da : account -> Prop.   (* accounts an account value, a posting destination may name *)

  Definition vgood (v : value) : Prop :=
    match v with VFunding f => forall a, In a (accts f) -> Sa a | VAccount a => Da a | _ => True end.

  Record vm_inv (st : mstate) : Prop := {
    vi_stack : Forall vgood (stack st);
    vi_bals : forall a, bal_has_account (bals st) a = true -> Sa a;
    vi_posts : forall q, In q (posts st) -> Sa (p_src q) /\ Da (p_dst q)
  }.

  Lemma pop_vm : forall st v st1, vm_inv st -> pop st = Done (v, st1) -> vgood v /\ vm_inv st1.
  Proof.
    intros st v st1 [F B P] H. unfold pop in H. destruct (stack st) as [|w r] eqn:E; [discriminate|].
    injection H as <- <-. inversion F; subst. split; [assumption|]. constructor; cbn; assumption.
  Qed.
  Lemma push_vm : forall st v, vm_inv st -> vgood v -> vm_inv (push st v).
  Proof. intros st v [F B P] G. constructor; cbn; auto. Qed.
  Lemma set_stack_vm : forall st stk, vm_inv st -> Forall vgood stk -> vm_inv (set_stack st stk).
  Proof. intros st stk [F B P] G. constructor; cbn; auto. Qed.
  Lemma set_bals_vm : forall st b, vm_inv st -> bsub b (bals st) -> vm_inv (set_bals st b).
  Proof. intros st b [F B P] G. constructor; cbn; auto. Qed.

  Ltac pop_tac :=
    intros st x st1 I H;
    match type of H with ?f st = _ => unfold f in H end;
    destruct (pop st) as [[v st']| |] eqn:E; cbn [bind] in H; try discriminate;
    destruct (pop_vm _ _ _ I E) as [G I1];
    destruct v; try discriminate; injection H as <- <-.

  Lemma pop_number_vm : forall st x st1, vm_inv st -> pop_number st = Done (x, st1) -> vm_inv st1.
  Proof. pop_tac. exact I1. Qed.
  Lemma pop_asset_vm : forall st x st1, vm_inv st -> pop_asset st = Done (x, st1) -> vm_inv st1.
  Proof. pop_tac. exact I1. Qed.
  Lemma pop_string_vm : forall st x st1, vm_inv st -> pop_string st = Done (x, st1) -> vm_inv st1.
  Proof. pop_tac. exact I1. Qed.
  Lemma pop_monetary_vm : forall st x st1, vm_inv st -> pop_monetary st = Done (x, st1) -> vm_inv st1.
  Proof. pop_tac. exact I1. Qed.
  Lemma pop_portion_vm : forall st x st1, vm_inv st -> pop_portion st = Done (x, st1) -> vm_inv st1.
  Proof. pop_tac. exact I1. Qed.
  Lemma pop_allotment_vm : forall st x st1, vm_inv st -> pop_allotment st = Done (x, st1) -> vm_inv st1.
  Proof. pop_tac. exact I1. Qed.
  Lemma pop_account_vm : forall st x st1, vm_inv st -> pop_account st = Done (x, st1) -> Da x /\ vm_inv st1.
  Proof. pop_tac. split; [exact G|exact I1]. Qed.
  Lemma pop_funding_vm : forall st x st1, vm_inv st -> pop_funding st = Done (x, st1) ->
    (forall a, In a (accts x) -> Sa a) /\ vm_inv st1.
  Proof. pop_tac. split; [exact G|exact I1]. Qed.

  Lemma pop_n_portions_vm : forall n st ps st1, vm_inv st -> pop_n_portions n st = Done (ps, st1) -> vm_inv st1.
  Proof.
    induction n as [|n IH]; intros st ps st1 I H; cbn [pop_n_portions] in H; [injection H as _ <-; exact I|].
    destruct (pop_portion st) as [[p st2]| |] eqn:E; cbn [bind] in H; try discriminate.
    apply pop_portion_vm in E; [|exact I].
    destruct (pop_n_portions n st2) as [[ps' st3]| |] eqn:E2; cbn [bind] in H; try discriminate.
    injection H as _ <-. eapply IH; eassumption.
  Qed.
  Lemma pop_n_fundings_vm : forall n s st fs st1, vm_inv st -> pop_n_fundings n s st = Done (fs, st1) ->
    (forall f a, In f fs -> In a (accts f) -> Sa a) /\ vm_inv st1.
  Proof.
    induction n as [|n IH]; intros s st fs st1 I H; cbn [pop_n_fundings] in H.
    - injection H as <- <-. split; [intros f a []|exact I].
    - destruct (pop_funding st) as [[f st2]| |] eqn:E; cbn [bind] in H; try discriminate.
      destruct (pop_funding_vm _ _ _ I E) as [Gf I2]. destruct (N.eqb (f_asset f) s); [|discriminate].
      destruct (pop_n_fundings n s st2) as [[fs' st3]| |] eqn:E2; cbn [bind] in H; try discriminate.
      injection H as <- <-. destruct (IH _ _ _ _ I2 E2) as [Gfs I3]. split; [|exact I3].
      intros g a [<-|Hg] Ha; [auto|eauto].
  Qed.

  Ltac bd H x st1 E :=
    match type of H with bind ?m _ = _ => destruct m as [[x st1]| |] eqn:E; cbn [bind] in H; try discriminate end.

  Lemma exec_op_vm : forall o st st', vm_inv st -> exec_op o st = Done st' -> vm_inv st'.
  Proof.
    intros o st st' I H. destruct o; unfold exec_op in H.
    - (* BUMP *)
      bd H n st1 E. apply pop_number_vm in E; [|exact I].
      destruct ((n <? 0) || Nat.leb (length (stack st1)) (Z.to_nat n)); [discriminate|].
      destruct (nth_error (stack st1) (Z.to_nat n)) as [v|] eqn:N1; [|discriminate]. injection H as <-.
      apply set_stack_vm; [exact E|]. pose proof (vi_stack _ E) as F. constructor.
      + rewrite Forall_forall in F. apply F. eapply nth_error_In; exact N1.
      + apply Forall_app. split; [apply Forall_firstn_; exact F|exact (Forall_skipn_ _ _ (S (Z.to_nat n)) _ F)].
    - (* DELETE *)
      bd H v st1 E. destruct (pop_vm _ _ _ I E) as [_ I1]. destruct v; try discriminate; injection H as <-; exact I1.
    - (* IADD *)
      bd H b st1 E. apply pop_number_vm in E; [|exact I]. bd H a st2 E2. apply pop_number_vm in E2; [|exact E].
      injection H as <-. apply push_vm; [exact E2|exact Logic.I].
    - (* ISUB *)
      bd H b st1 E. apply pop_number_vm in E; [|exact I]. bd H a st2 E2. apply pop_number_vm in E2; [|exact E].
      injection H as <-. apply push_vm; [exact E2|exact Logic.I].
    - (* PRINT *)
      bd H v st1 E. destruct (pop_vm _ _ _ I E) as [_ [F B P]]. injection H as <-. constructor; cbn; assumption.
    - (* FAIL *) discriminate.
    - (* ASSET *)
      bd H v st1 E. destruct (pop_vm _ _ _ I E) as [_ I1].
      destruct v; try discriminate; injection H as <-; (apply push_vm; [exact I1|exact Logic.I]).
    - (* MONETARY_NEW *)
      bd H n st1 E. apply pop_number_vm in E; [|exact I]. bd H a st2 E2. apply pop_asset_vm in E2; [|exact E].
      injection H as <-. apply push_vm; [exact E2|exact Logic.I].
    - (* MONETARY_ADD *)
      bd H b st1 E. apply pop_monetary_vm in E; [|exact I]. destruct b as [ab nb].
      bd H a st2 E2. apply pop_monetary_vm in E2; [|exact E]. destruct a as [aa na].
      destruct (N.eqb aa ab); [|discriminate]. injection H as <-. apply push_vm; [exact E2|exact Logic.I].
    - (* MONETARY_SUB *)
      bd H b st1 E. apply pop_monetary_vm in E; [|exact I]. destruct b as [ab nb].
      bd H a st2 E2. apply pop_monetary_vm in E2; [|exact E]. destruct a as [aa na].
      destruct (N.eqb aa ab); [|discriminate]. injection H as <-. apply push_vm; [exact E2|exact Logic.I].
    - (* MAKE_ALLOTMENT *)
      bd H n st1 E. apply pop_number_vm in E; [|exact I]. bd H ps st2 E2. apply pop_n_portions_vm in E2; [|exact E].
      destruct (new_allotment ps); [discriminate|]. injection H as <-. apply push_vm; [exact E2|exact Logic.I].
    - (* TAKE_ALL *)
      bd H m st1 E. apply pop_monetary_vm in E; [|exact I]. destruct m as [s ov].
      bd H a st2 E2. destruct (pop_account_vm _ _ _ E E2) as [_ I2].
      destruct (withdraw_all (bals st2) a s ov) as [[f b]|] eqn:W; [|discriminate]. injection H as <-.
      destruct (withdraw_all_sub _ _ _ _ _ _ W) as [Sb Tf].
      apply push_vm; [apply set_bals_vm; assumption|]. intros c Hc. apply (vi_bals _ I2). auto.
    - (* TAKE_ALWAYS *)
      bd H m st1 E. apply pop_monetary_vm in E; [|exact I]. destruct m as [s amt].
      bd H a st2 E2. destruct (pop_account_vm _ _ _ E E2) as [_ I2].
      destruct (withdraw_always (bals st2) a s amt) as [[f b]|] eqn:W; [|discriminate]. injection H as <-.
      destruct (withdraw_always_sub _ _ _ _ _ _ W) as [Sb Tf].
      apply push_vm; [apply set_bals_vm; assumption|]. intros c Hc. apply (vi_bals _ I2). auto.
    - (* TAKE *)
      bd H m st1 E. apply pop_monetary_vm in E; [|exact I]. destruct m as [s amt].
      bd H f st2 E2. destruct (pop_funding_vm _ _ _ E E2) as [Gf I2].
      destruct (negb (N.eqb (f_asset f) s)); [discriminate|].
      destruct (take f amt) as [[res rem]|] eqn:T; [|discriminate]. injection H as <-.
      destruct (take_accts _ _ _ _ T) as (A1 & A2 & _).
      apply push_vm; [apply push_vm; [exact I2|]|]; intros c Hc; auto.
    - (* TAKE_MAX *)
      bd H m st1 E. apply pop_monetary_vm in E; [|exact I]. destruct m as [s amt].
      destruct (amt <? 0); [discriminate|].
      bd H f st2 E2. destruct (pop_funding_vm _ _ _ E E2) as [Gf I2].
      destruct (negb (N.eqb (f_asset f) s)); [discriminate|].
      destruct (take_max f amt) as [res rem] eqn:T. injection H as <-.
      destruct (take_max_accts _ _ _ _ T) as (A1 & A2 & _).
      apply push_vm; [apply push_vm; [apply push_vm; [exact I2|exact Logic.I]|]|]; intros c Hc; auto.
    - (* FUNDING_ASSEMBLE *)
      bd H n st1 E. apply pop_number_vm in E; [|exact I].
      destruct (Z.to_nat n) as [|k]; [discriminate|].
      bd H f1 st2 E2. destruct (pop_funding_vm _ _ _ E E2) as [Gf I2].
      bd H others st3 E3. destruct (pop_n_fundings_vm _ _ _ _ _ I2 E3) as [Go I3].
      injection H as <-. apply push_vm; [exact I3|]. intros c Hc. unfold accts in Hc. cbn [f_parts] in Hc.
      apply fold_concat_accts_in in Hc as [[]|(g & Hg & Hgc)].
      apply in_app_or in Hg as [Hg|[<-|[]]]; [apply in_rev in Hg; eauto|auto].
    - (* FUNDING_SUM *)
      bd H f st1 E. destruct (pop_funding_vm _ _ _ I E) as [Gf I1]. injection H as <-.
      apply push_vm; [apply push_vm; [exact I1|exact Gf]|exact Logic.I].
    - (* FUNDING_REVERSE *)
      bd H f st1 E. destruct (pop_funding_vm _ _ _ I E) as [Gf I1]. injection H as <-.
      apply push_vm; [exact I1|]. intros c Hc. apply Gf. unfold accts, freverse in *. cbn [f_parts] in Hc.
      rewrite map_rev in Hc. apply in_rev in Hc. exact Hc.
    - (* ALLOC *)
      bd H a st1 E. apply pop_allotment_vm in E; [|exact I]. bd H m st2 E2. apply pop_monetary_vm in E2; [|exact E].
      destruct m as [s amt]. injection H as <-. apply set_stack_vm; [exact E2|].
      apply Forall_app. split; [|exact (vi_stack _ E2)]. apply Forall_forall. intros v Hv.
      apply in_map_iff in Hv as (z & <- & _). exact Logic.I.
    - (* REPAY *)
      bd H f st1 E. destruct (pop_funding_vm _ _ _ I E) as [Gf I1].
      destruct (repay (bals st1) (f_asset f) (f_parts f)) as [b|] eqn:R; [|discriminate]. injection H as <-.
      apply set_bals_vm; [exact I1|]. eapply repay_sub; exact R.
    - (* SEND *)
      bd H dacc st1 E. destruct (pop_account_vm _ _ _ I E) as [Dd I1].
      bd H f st2 E2. destruct (pop_funding_vm _ _ _ I1 E2) as [Gf [F B P]]. injection H as <-.
      constructor; cbn [stack bals posts].
      + exact F.
      + intros c Hc. apply B. apply (credit_sub _ _ _ _ Hc).
      + intros q Hq. apply in_app_or in Hq as [Hq|Hq]; [auto|]. apply in_map_iff in Hq as (pt & <- & Hpt).
        cbn [p_src p_dst]. split; [|exact Dd]. apply Gf. unfold accts. apply in_map. exact Hpt.
    - (* TX_META *)
      bd H k st1 E. apply pop_string_vm in E; [|exact I]. bd H v st2 E2. destruct (pop_vm _ _ _ E E2) as [_ [F B P]].
      injection H as <-. constructor; cbn; assumption.
    - (* ACCOUNT_META *)
      bd H a st1 E. destruct (pop_account_vm _ _ _ I E) as [_ I1]. bd H k st2 E2. apply pop_string_vm in E2; [|exact I1].
      bd H v st3 E3. destruct (pop_vm _ _ _ E2 E3) as [_ [F B P]]. injection H as <-. constructor; cbn; assumption.
    - (* SAVE *)
      bd H a st1 E. destruct (pop_account_vm _ _ _ I E) as [_ I1]. bd H v st2 E2. destruct (pop_vm _ _ _ I1 E2) as [_ I2].
      destruct v; try discriminate.
      + destruct (bal_get (bals st2) a a0) as [z|] eqn:G; [|injection H as <-; exact I2].
        destruct (0 <? z); injection H as <-; [|exact I2]. apply set_bals_vm; [exact I2|].
        apply bal_set_sub. eapply bal_get_has; exact G.
      + destruct (n <? 0); [discriminate|].
        destruct (bal_get (bals st2) a a0) as [z|] eqn:G; injection H as <-; [|exact I2].
        apply set_bals_vm; [exact I2|]. apply bal_set_sub. eapply bal_get_has; exact G.
  Qed.

  Variable vals : list value.
  Hypothesis vals_good : forall i v, nth_error vals i = Some v -> vgood v.

  Lemma exec_vm : forall code st st', vm_inv st -> exec vals code st = Done st' -> vm_inv st'.
  Proof.
    induction code as [|i code IH]; intros st st' I H; cbn [exec] in H; [injection H as <-; exact I|].
    destruct (exec_instr vals i st) as [st1| |] eqn:E; cbn [bind] in H; try discriminate.
    eapply IH; [|exact H]. destruct i as [addr|o|]; cbn [exec_instr] in E.
    - destruct (nth_error vals addr) as [v|] eqn:N1; [|discriminate]. injection E as <-.
      apply push_vm; [exact I|eapply vals_good; exact N1].
    - eapply exec_op_vm; eassumption.
    - discriminate.
  Qed.

  Lemma execute_vm : forall code b st, (forall a, bal_has_account b a = true -> Sa a) ->
    execute vals code b = Done st -> forall q, In q (posts st) -> Sa (p_src q) /\ Da (p_dst q).
  Proof.
    intros code b st Hb H. unfold execute in H. destruct code as [|i code]; [discriminate|].
    destruct (exec vals (i :: code) (init_state b)) as [st1| |] eqn:E; cbn [bind] in H; try discriminate.
    destruct (stack st1); [|discriminate]. injection H as <-.
    apply vi_posts. eapply exec_vm; [|exact E]. constructor; cbn; [constructor|exact Hb|intros q []].
  Qed.
End VMInv.

Lemma finish_posts : forall st extra r, finish st extra = Done r -> res_posts r = posts st.
Proof.
  intros st extra r H. unfold finish in H. destruct (negb _); [discriminate|].
  match type of H with (if ?c then _ else _) = _ => destruct c end; [discriminate|]. injection H as <-. reflexivity.
Qed.

(* the accounts named by funding VALUES of the resource table (none in a compiled program run on inputs that hold no
   funding: [vals_nofund]) *)
Definition funding_account (vals : list value) (a : account) : Prop :=
  exists i f, nth_error vals i = Some (VFunding f) /\ In a (accts f).
Definition account_value (vals : list value) (a : account) : Prop := exists i, nth_error vals i = Some (VAccount a).
Definition vals_nofund (vals : list value) : Prop := forall i f, nth_error vals i <> Some (VFunding f).

(* ANY code, any resource table, any initial balances: sources are accounts of the initial table (or of a funding
   resource), destinations are account resources *)
Lemma run_postings_from : forall vals code b extra r,
  (do st <- execute vals code b; finish st extra) = Done r ->
  forall q, In q (res_posts r) ->
    (bal_has_account b (p_src q) = true \/ funding_account vals (p_src q)) /\ account_value vals (p_dst q).
Proof.
  intros vals code b extra r H q Hq.
  destruct (execute vals code b) as [st| |] eqn:E; cbn [bind] in H; try discriminate.
  rewrite (finish_posts _ _ _ H) in Hq.
  eapply (execute_vm (fun a => bal_has_account b a = true \/ funding_account vals a) (account_value vals) vals);
    [|intros a Ha; left; exact Ha|exact E|exact Hq].
  intros i v N1. destruct v; cbn [vgood]; auto.
  - exists i. exact N1.
  - intros a Ha. right. exists i, f. split; assumption.
Qed.

(* the accounts of the table ResolveBalances builds *)
Lemma needed_assets_has : forall vals s a assets b b', needed_assets vals s a assets b = Done b' ->
  forall c, bal_has_account b' c = true -> c = a \/ bal_has_account b c = true.
Proof.
  induction assets as [|x_a rest IH]; intros b b' H c Hc; cbn [needed_assets] in H; [injection H as <-; right; exact Hc|].
  destruct (asset_of_value (nth_error vals x_a)) as [x| |]; cbn [bind] in H; try discriminate.
  destruct (IH _ _ H c Hc) as [->|K]; [left; reflexivity|]. apply bal_set_has_inv in K. exact K.
Qed.
Lemma resolve_balances_has : forall nd vals s b b', resolve_balances nd vals s b = Done b' ->
  forall c, bal_has_account b' c = true ->
    bal_has_account b c = true \/ exists k assets, In (k, assets) nd /\ nth_error vals k = Some (VAccount c).
Proof.
  induction nd as [|[k assets] nd IH]; intros vals s b b' H c Hc; cbn [resolve_balances] in H; [injection H as <-; left; exact Hc|].
  destruct (nth_error vals k) as [[a| | | | | | |]|] eqn:N1; cbn [as_account bind] in H; try discriminate.
  destruct (needed_assets vals s a assets b) as [b1| |] eqn:E; cbn [bind] in H; try discriminate.
  destruct (IH _ _ _ _ H c Hc) as [K|(k' & as' & I1 & I2)].
  - destruct (needed_assets_has _ _ _ _ _ _ E c K) as [->|K2]; [|left; exact K2].
    right. exists k, assets. split; [left; reflexivity|exact N1].
  - right. exists k', as'. split; [right; exact I1|exact I2].
Qed.

Lemma fill_pending_nofund : forall pend s vals vals', fill_pending pend s vals = Done vals' -> vals_nofund vals -> vals_nofund vals'.
Proof.
  induction pend as [|[[idx b] x] pend IH]; intros s vals vals' H NF; cbn [fill_pending] in H; [injection H as <-; exact NF|].
  destruct (store_balance s b x <? 0); [discriminate|]. eapply IH; [exact H|].
  intros i f N1. rewrite list_set_nth in N1. destruct (Nat.eqb i idx); [|exact (NF _ _ N1)].
  destruct (nth_error vals i); discriminate.
Qed.

(* a successful run, taken apart *)
Lemma run_program_inv : forall p vars s extra o r, run_program p vars s extra = Done o -> ro_result o = Done r ->
  exists vs rr vals b,
    vars = Some vs /\ resolve_resources (p_res p) vs s init_resolved = Done rr /\
    fill_pending (r_pending rr) s (r_vals rr) = Done vals /\ resolve_balances (p_needed p) vals s [] = Done b /\
    (do st <- execute vals (p_code p) b; finish st extra) = Done r /\
    ro_involved o = map snd (r_involved rr) /\ ro_sources o = map (involved_lookup (r_involved rr)) (p_sources p).
Proof.
  intros p vars s extra o r H Hr. unfold run_program in H. destruct vars as [vs|]; [|discriminate]. fold init_resolved in H.
  destruct (resolve_resources (p_res p) vs s init_resolved) as [rr|e|ps] eqn:R; cbn [bind] in H; try discriminate.
  injection H as <-. cbn [ro_result ro_sources ro_involved] in *.
  destruct (fill_pending (r_pending rr) s (r_vals rr)) as [vals| |] eqn:F; cbn [bind] in Hr; try discriminate.
  destruct (resolve_balances (p_needed p) vals s []) as [b| |] eqn:B; cbn [bind] in Hr; try discriminate.
  exists vs, rr, vals, b. repeat split; auto.
Qed.

(* POSTINGS vs RESOLUTION, every program: a source is the account at a key of NeededBalances (or named by a funding
   resource), a destination is an account resource *)
Lemma postings_core : forall p vs s extra rr vals b r,
  resolve_resources (p_res p) vs s init_resolved = Done rr -> fill_pending (r_pending rr) s (r_vals rr) = Done vals ->
  resolve_balances (p_needed p) vals s [] = Done b ->
  (do st <- execute vals (p_code p) b; finish st extra) = Done r ->
  forall q, In q (res_posts r) ->
    ((exists k assets, In (k, assets) (p_needed p) /\ involved_lookup (r_involved rr) k = Some (p_src q)) \/
     funding_account vals (p_src q)) /\
    (exists i, involved_lookup (r_involved rr) i = Some (p_dst q)).
Proof.
  intros p vs s extra rr vals b r R F B Hr q Hq.
  pose proof (resolve_resources_rr _ _ _ _ _ rr_inv_init R) as I.
  destruct (run_postings_from _ _ _ _ _ Hr q Hq) as [Hs (i & Hd)].
  pose proof (fill_pending_accounts _ _ _ _ F) as FA. split.
  - destruct Hs as [Hs|Hs]; [left|right; exact Hs].
    destruct (resolve_balances_has _ _ _ _ _ B _ Hs) as [K|(k & assets & I1 & I2)]; [discriminate|].
    exists k, assets. split; [exact I1|]. eapply rr_acc; [exact I|apply FA; exact I2].
  - exists i. eapply rr_acc; [exact I|apply FA; exact Hd].
Qed.

(* ================================================================================================================ *)
(* 4. the compiler: every key of NeededBalances is in Sources; constants are never fundings; declared types only    *)
(* ================================================================================================================ *)
Definition not_balance (v : vardecl) : Prop := match vd_orig v with Some (OBalance _ _) => False | _ => True end.
Definition no_balance_vars (sc : script) : Prop := Forall not_balance (s_vars sc).
Definition no_balance_varsb (sc : script) : bool :=
  forallb (fun v => match vd_orig v with Some (OBalance _ _) => false | _ => true end) (s_vars sc).
Lemma no_balance_varsb_spec : forall sc, no_balance_varsb sc = true -> no_balance_vars sc.
Proof.
  intros sc H. unfold no_balance_varsb in H. unfold no_balance_vars. apply Forall_forall. intros v Hv.
  rewrite forallb_forall in H. specialize (H v Hv). unfold not_balance. destruct (vd_orig v) as [[|]|]; [exact I|discriminate|exact I].
Qed.

Section Cinv.
(* [nb = true]: additionally, the table holds no balance() variable (for scripts that declare none) *)
Variable nb : bool.

Definition res_clean (r : resource) : Prop :=
  match r with
  | RConst v => match v with VFunding _ => False | _ => True end
  | RVar t _ => declarable t = true
  | RVarMeta t _ _ _ => declarable t = true
  | RVarBalance _ _ _ => nb = false
  | RMonetary _ _ => True
  end.

Record cinv (cs : cstate) : Prop := {
  ci_needed : forall k v, In (k, v) (c_needed cs) -> In k (c_sources cs);
  ci_res : Forall res_clean (c_res cs)
}.

(* a step that leaves NeededBalances alone, only adds Sources, keeps the table clean *)
Record nstep (cs cs' : cstate) : Prop := {
  ns_needed : c_needed cs' = c_needed cs;
  ns_sources : incl (c_sources cs) (c_sources cs');
  ns_res : Forall res_clean (c_res cs) -> Forall res_clean (c_res cs')
}.
Lemma nstep_refl : forall cs, nstep cs cs.
Proof. intros cs. constructor; auto using incl_refl. Qed.
Lemma nstep_trans : forall a b c, nstep a b -> nstep b c -> nstep a c.
Proof. intros a b c [N1 S1 R1] [N2 S2 R2]. constructor; [congruence|eapply incl_tran; eassumption|auto]. Qed.
Lemma nstep_cinv : forall cs cs', nstep cs cs' -> cinv cs -> cinv cs'.
Proof. intros cs cs' [N S R] [Cn Cr]. constructor; [rewrite N; intros k v I; apply S; eauto|auto]. Qed.

Definition neutral {A} (m : comp A) : Prop := forall cs a cs', m cs = Some (a, cs') -> nstep cs cs'.

Lemma neutral_bind : forall A B (m : comp A) (f : A -> comp B), neutral m -> (forall a, neutral (f a)) -> neutral (cbind m f).
Proof.
  intros A B m f Hm Hf cs b cs' H. apply cbind_inv in H as (a & cs1 & H1 & H2).
  eapply nstep_trans; [eapply Hm; exact H1|eapply Hf; exact H2].
Qed.
Lemma neutral_ret : forall A (a : A), neutral (cret a).
Proof. intros A a cs b cs' H. apply cret_inv in H as [_ ->]. apply nstep_refl. Qed.
Lemma neutral_fail : forall A, neutral (@cfail A).
Proof. intros A cs b cs' H. discriminate. Qed.
Lemma neutral_guard : forall b, neutral (guard b).
Proof. intros b cs u cs' H. apply guard_inv in H as [_ ->]. apply nstep_refl. Qed.
Lemma neutral_read : forall A (g : cstate -> A), neutral (fun s => Some (g s, s)).
Proof. intros A g cs a cs' H. injection H as _ <-. apply nstep_refl. Qed.
Lemma neutral_emit : forall i, neutral (emit i).
Proof. intros i cs u cs' H. unfold emit in H. injection H as _ <-. constructor; cbn; auto using incl_refl. Qed.
Lemma neutral_emit_op : forall o, neutral (emit_op o).
Proof. intros o. apply neutral_emit. Qed.
Lemma neutral_push_addr : forall a, neutral (push_addr a).
Proof. intros a. apply neutral_emit. Qed.
Lemma neutral_emit_all : forall l, neutral (emit_all l).
Proof.
  induction l as [|i l IH]; cbn [emit_all]; [apply neutral_ret|]. apply neutral_bind; [apply neutral_emit|intros _; exact IH].
Qed.
Lemma neutral_append : forall r, res_clean r -> neutral (append_resource r).
Proof.
  intros r C cs i cs' H. unfold append_resource in H.
  destruct (N.leb max_resources (N.of_nat (length (c_res cs)))); [discriminate|]. injection H as _ <-.
  constructor; cbn; auto using incl_refl. intros F. apply Forall_app. split; [exact F|constructor; [exact C|constructor]].
Qed.
Lemma neutral_alloc : forall r, res_clean r -> neutral (alloc r).
Proof.
  intros r C cs i cs' H. unfold alloc in H. destruct r; try (eapply neutral_append; eassumption).
  destruct (find_const (c_res cs) v 0); [|eapply neutral_append; eassumption]. injection H as _ <-. apply nstep_refl.
Qed.
Lemma neutral_alloc_const : forall v, res_clean (RConst v) -> neutral (alloc_const v).
Proof. intros v C. apply neutral_alloc. exact C. Qed.
Lemma neutral_push_integer : forall n, neutral (push_integer n).
Proof. intros n. apply neutral_bind; [apply neutral_alloc_const; exact I|intros a; apply neutral_push_addr]. Qed.
Lemma neutral_bump : forall n, neutral (bump n).
Proof. intros n. apply neutral_bind; [apply neutral_push_integer|intros _; apply neutral_emit_op]. Qed.
Lemma neutral_is_world : forall a, neutral (is_world a).
Proof. intros a cs w cs' H. apply is_world_ok in H as [-> _]. apply nstep_refl. Qed.
Lemma neutral_expect : forall t r, neutral (expect t r).
Proof. intros t [ty [a|]]; cbn [expect]; [destruct (vtype_eqb ty t); [apply neutral_ret|apply neutral_fail]|apply neutral_fail]. Qed.
Lemma neutral_expect_type : forall t r, neutral (expect_type t r).
Proof. intros t r. apply neutral_guard. Qed.

Lemma set_insert_in_l : forall x l, In x (set_insert x l).
Proof.
  induction l as [|z l IH]; cbn [set_insert]; [left; reflexivity|].
  destruct (Nat.ltb x z); [left; reflexivity|]. destruct (Nat.eqb x z) eqn:E; [apply Nat.eqb_eq in E; left; auto|right; exact IH].
Qed.
Lemma set_insert_in_r : forall x y l, In x l -> In x (set_insert y l).
Proof.
  induction l as [|z l IH]; cbn [set_insert]; intros H; [destruct H|].
  destruct (Nat.ltb y z); [right; exact H|]. destruct (Nat.eqb y z); [exact H|].
  destruct H as [<-|H]; [left; reflexivity|right; auto].
Qed.
Lemma set_union_incl_l : forall a b, incl a (set_union a b).
Proof.
  induction a as [|y a IH]; intros b x H; [destruct H|]. cbn [set_union fold_right].
  destruct H as [<-|H]; [apply set_insert_in_l|apply set_insert_in_r; apply IH; exact H].
Qed.
Lemma set_union_incl_r : forall a b, incl b (set_union a b).
Proof.
  induction a as [|y a IH]; intros b x H; [exact H|]. cbn [set_union fold_right]. apply set_insert_in_r. apply IH; exact H.
Qed.

Lemma neutral_add_sources : forall l, neutral (add_sources l).
Proof.
  intros l cs u cs' H. unfold add_sources in H. injection H as _ <-. constructor; cbn; auto. apply set_union_incl_r.
Qed.
Lemma neutral_visit_variable : forall name push, neutral (visit_variable name push).
Proof.
  intros name push cs r cs' H. unfold visit_variable in H. destruct (assoc_N name (c_vars cs)) as [idx|]; [|discriminate].
  destruct (nth_error (c_res cs) idx) as [r0|]; [|discriminate]. revert H. generalize (res_type r0, idx). intros x H.
  refine (neutral_bind _ _ _ _ _ _ cs r cs' H); [|intros _; apply neutral_ret].
  destruct push; [apply neutral_push_addr|apply neutral_ret].
Qed.
Lemma neutral_lit_const : forall v push, res_clean (RConst v) -> neutral (lit_const v push).
Proof.
  intros v push C. unfold lit_const. apply neutral_bind; [apply neutral_alloc_const; exact C|intros a].
  apply neutral_bind; [destruct push; [apply neutral_push_addr|apply neutral_ret]|intros _; apply neutral_ret].
Qed.

Ltac neu1 :=
  match goal with
  | |- neutral (cbind _ _) => apply neutral_bind; [|intros ?]
  | |- neutral (cret _) => apply neutral_ret
  | |- neutral cfail => apply neutral_fail
  | |- neutral (guard _) => apply neutral_guard
  | |- neutral (emit_op _) => apply neutral_emit_op
  | |- neutral (emit _) => apply neutral_emit
  | |- neutral (emit_all _) => apply neutral_emit_all
  | |- neutral (push_addr _) => apply neutral_push_addr
  | |- neutral (push_integer _) => apply neutral_push_integer
  | |- neutral (bump _) => apply neutral_bump
  | |- neutral (is_world _) => apply neutral_is_world
  | |- neutral (expect_type _ _) => apply neutral_expect_type
  | |- neutral (expect _ _) => apply neutral_expect
  | |- neutral (add_sources _) => apply neutral_add_sources
  | |- neutral (visit_variable _ _) => apply neutral_visit_variable
  | |- neutral (lit_const _ _) => apply neutral_lit_const; exact I
  | |- neutral (alloc_const _) => apply neutral_alloc_const; exact I
  | |- neutral (alloc _) => apply neutral_alloc; exact I
  | |- neutral (fun s => Some (_, s)) => apply neutral_read
  | H : forall p, neutral (visit_expr ?e p) |- neutral (visit_expr ?e _) => apply H
  | |- neutral (match ?x with _ => _ end) => destruct x
  end.

Lemma neutral_visit_expr : forall e push, neutral (visit_expr e push).
Proof.
  induction e as [a|a|n|s|p|ae IHae amt|name|is_add l IHl r IHr]; intros push; cbn [visit_expr]; repeat neu1.
Qed.

Ltac neu := repeat first [neu1 | apply neutral_visit_expr].

Lemma neutral_visit_portions_rev : forall ps acc, neutral (visit_portions_rev ps acc).
Proof. induction ps as [|p ps IH]; intros acc; cbn [visit_portions_rev]; [apply neutral_ret|]. destruct p as [[r|]|name|]; neu; apply IH. Qed.
Lemma neutral_visit_allotment : forall ps, neutral (visit_allotment ps).
Proof. intros ps. unfold visit_allotment. apply neutral_bind; [apply neutral_visit_portions_rev|intros acc]. neu. Qed.
Lemma neutral_take_from_source : forall fb, neutral (take_from_source fb).
Proof. intros [fb|]; cbn [take_from_source]; neu. Qed.

(* sources: neutral, and the returned "needed accounts" are Sources afterwards *)
Definition source_neutral (s : source) : Prop := forall pa ia, neutral (visit_source s pa ia).

Lemma neutral_visit_sources : forall l, Forall source_neutral l ->
  forall pa ia needed emptied fb, neutral (visit_sources l pa ia needed emptied fb).
Proof.
  induction 1 as [|s l Hs _ IH]; intros pa ia needed emptied fb; cbn [visit_sources]; [apply neutral_ret|].
  apply neutral_bind; [apply Hs|intros [[acc1 emp1] fb1]]. neu. apply IH.
Qed.

Lemma neutral_visit_source : forall s, source_neutral s.
Proof.
  apply source_ind2.
  - intros acc ov pa ia. cbn [visit_source]. neu.
  - intros m s IH pa ia. cbn [visit_source]. apply neutral_bind; [|intros [[n e] fb]; neu].
    apply neutral_bind; [apply IH|intros [[accounts e] subfb]]. neu.
  - intros l F pa ia cs r cs' H. rewrite visit_source_inorder in H. revert cs r cs' H.
    change (neutral (cdo '(needed, emptied, fb) <-
              (cdo '(needed, emptied, fb) <- visit_sources l pa ia [] [] None;
               push_integer (Z.of_nat (length l)) ;; emit_op OP_FUNDING_ASSEMBLE ;; cret (needed, emptied, fb));
              add_sources needed ;; cret (needed, emptied, fb))).
    apply neutral_bind; [|intros [[n e] fb]; neu].
    apply neutral_bind; [apply neutral_visit_sources; exact F|intros [[n e] fb]; neu].
Qed.

Lemma visit_source_needed : forall s pa ia cs needed emptied fb cs',
  visit_source s pa ia cs = Some ((needed, emptied, fb), cs') -> incl needed (c_sources cs').
Proof.
  intros s pa ia cs needed emptied fb cs' H.
  assert (G : forall (inner : comp src_result),
            (cdo '(n, e, f) <- inner; add_sources n ;; cret (n, e, f)) cs = Some ((needed, emptied, fb), cs') ->
            incl needed (c_sources cs')).
  { intros inner K. apply cbind_inv in K as ([[n e] f] & cs1 & _ & K). apply cbind_inv in K as (u & cs2 & K1 & K2).
    apply cret_inv in K2 as [K2 ->]. injection K2 as -> _ _. unfold add_sources in K1. injection K1 as _ <-. cbn.
    apply set_union_incl_l. }
  destruct s; cbn [visit_source] in H; eapply G; exact H.
Qed.

(* destinations *)
Definition dest_neutral (d : dest) : Prop := neutral (visit_dest d).
Definition kod_neutral (k : kod) : Prop := neutral (visit_kod k).

Lemma neutral_inorder_entries : forall l, Forall (fun x => kod_neutral (snd x)) l -> neutral (visit_inorder_entries l).
Proof.
  induction 1 as [|[amt k] l Hk _ IH]; cbn [visit_inorder_entries]; [apply neutral_ret|]. cbn [snd] in Hk.
  repeat first [apply IH | apply Hk | neu1 | apply neutral_visit_expr].
Qed.
Lemma neutral_allot_entries : forall l, Forall (fun x => kod_neutral (snd x)) l -> neutral (visit_allot_entries l).
Proof.
  induction 1 as [|[ap k] l Hk _ IH]; cbn [visit_allot_entries]; [apply neutral_ret|]. cbn [snd] in Hk.
  repeat first [apply IH | apply Hk | neu1].
Qed.

Lemma neutral_visit_dest : forall d, dest_neutral d.
Proof.
  apply (dest_ind2 dest_neutral kod_neutral).
  - intros e. unfold dest_neutral. cbn [visit_dest]. neu.
  - intros l rem F Hrem. unfold dest_neutral. rewrite visit_dest_inorder.
    repeat first [apply neutral_inorder_entries; exact F | apply Hrem | neu1].
  - intros l F. unfold dest_neutral. rewrite visit_dest_allot.
    repeat first [apply neutral_allot_entries; exact F | apply neutral_visit_allotment | neu1].
  - unfold kod_neutral. cbn [visit_kod]. apply neutral_ret.
  - intros d Hd. exact Hd.
Qed.
Lemma neutral_visit_kod : forall k, kod_neutral k.
Proof. destruct k; [apply neutral_ret|apply neutral_visit_dest]. Qed.

(* ---- the steps that write NeededBalances ------------------------------------------------------------------------- *)
Definition good {A} (m : comp A) : Prop := forall cs a cs', m cs = Some (a, cs') -> cinv cs -> cinv cs'.
Lemma neutral_good : forall A (m : comp A), neutral m -> good m.
Proof. intros A m N cs a cs' H I. eapply nstep_cinv; [eapply N; exact H|exact I]. Qed.
Lemma good_bind : forall A B (m : comp A) (f : A -> comp B), good m -> (forall a, good (f a)) -> good (cbind m f).
Proof. intros A B m f Hm Hf cs b cs' H I. apply cbind_inv in H as (a & cs1 & H1 & H2). eapply Hf; [exact H2|]. eapply Hm; eassumption. Qed.

Lemma needed_insert_keys : forall acc addr m k v, In (k, v) (needed_insert acc addr m) -> k = acc \/ exists v', In (k, v') m.
Proof.
  induction m as [|[k0 v0] m IH]; intros k v H; cbn [needed_insert] in H.
  - destruct H as [E|[]]. injection E as <- _. left; reflexivity.
  - destruct (Nat.ltb acc k0).
    + destruct H as [E|H]; [injection E as <- _; left; reflexivity|right; exists v; exact H].
    + destruct (Nat.eqb acc k0) eqn:Ek.
      * destruct H as [E|H]; [injection E as <- _; right; exists v0; left; reflexivity|right; exists v; right; exact H].
      * destruct H as [E|H]; [injection E as <- <-; right; exists v0; left; reflexivity|].
        destruct (IH _ _ H) as [->|(v' & Hv)]; [left; reflexivity|right; exists v'; right; exact Hv].
Qed.

Lemma set_needed_cinv : forall accounts addr cs u cs', set_needed accounts addr cs = Some (u, cs') ->
  incl accounts (c_sources cs) -> cinv cs -> cinv cs'.
Proof.
  intros accounts addr cs u cs' H Inc [Cn Cr]. unfold set_needed in H. injection H as _ <-. constructor; cbn; [|exact Cr].
  induction accounts as [|a l IH]; cbn [fold_right]; [exact Cn|].
  intros k v Hk. apply needed_insert_keys in Hk as [->|(v' & Hv)].
  - apply Inc. left; reflexivity.
  - eapply IH; [|exact Hv]. intros x Hx. apply Inc. right; exact Hx.
Qed.

Lemma good_visit_allot_sources : forall l i pa ma, good (visit_allot_sources l i pa ma).
Proof.
  induction l as [|s l IH]; intros i pa ma cs u cs' H I; cbn [visit_allot_sources] in H.
  - apply cret_inv in H as [_ ->]. exact I.
  - cb H r cs1 H1. destruct r as [[accounts e] fb].
    pose proof (nstep_cinv _ _ (neutral_visit_source s pa false _ _ _ H1) I) as I1.
    pose proof (visit_source_needed _ _ _ _ _ _ _ _ H1) as Inc.
    cb H u1 cs2 H2. pose proof (set_needed_cinv _ _ _ _ _ H2 Inc I1) as I2.
    cb H u2 cs3 H3. pose proof (nstep_cinv _ _ (neutral_bump _ _ _ _ H3) I2) as I3.
    cb H u3 cs4 H4. pose proof (nstep_cinv _ _ (neutral_take_from_source _ _ _ _ H4) I3) as I4.
    eapply IH; eassumption.
Qed.

Lemma good_visit_send_src : forall m src, good (visit_send_src m src).
Proof.
  intros m src cs u cs' H I. destruct m as [e|ae]; cbn [visit_send_src] in H.
  - cb H r cs1 H1. pose proof (nstep_cinv _ _ (neutral_visit_expr _ _ _ _ _ H1) I) as I1.
    cb H ma cs2 H2. pose proof (nstep_cinv _ _ (neutral_expect _ _ _ _ _ H2) I1) as I2.
    destruct src as [s|l].
    + cb H res cs3 H3. destruct res as [[accounts em] fb].
      pose proof (nstep_cinv _ _ (neutral_visit_source s _ _ _ _ _ H3) I2) as I3.
      pose proof (visit_source_needed _ _ _ _ _ _ _ _ H3) as Inc.
      cb H u1 cs4 H4. pose proof (set_needed_cinv _ _ _ _ _ H4 Inc I3) as I4.
      cb H x cs5 H5. pose proof (nstep_cinv _ _ (neutral_visit_expr _ _ _ _ _ H5) I4) as I5.
      exact (nstep_cinv _ _ (neutral_take_from_source _ _ _ _ H) I5).
    + cb H x cs3 H3. pose proof (nstep_cinv _ _ (neutral_visit_expr _ _ _ _ _ H3) I2) as I3.
      cb H u1 cs4 H4. pose proof (nstep_cinv _ _ (neutral_visit_allotment _ _ _ _ H4) I3) as I4.
      cb H u2 cs5 H5. pose proof (nstep_cinv _ _ (neutral_emit_op _ _ _ _ H5) I4) as I5.
      cb H u3 cs6 H6. pose proof (good_visit_allot_sources _ _ _ _ _ _ _ H6 I5) as I6.
      cb H u4 cs7 H7. pose proof (nstep_cinv _ _ (neutral_push_integer _ _ _ _ H7) I6) as I7.
      exact (nstep_cinv _ _ (neutral_emit_op _ _ _ _ H) I7).
  - cb H r cs1 H1. pose proof (nstep_cinv _ _ (neutral_visit_expr _ _ _ _ _ H1) I) as I1.
    cb H aa cs2 H2. pose proof (nstep_cinv _ _ (neutral_expect _ _ _ _ _ H2) I1) as I2.
    destruct src as [s|l]; [|discriminate].
    cb H res cs3 H3. destruct res as [[accounts em] fb].
    pose proof (nstep_cinv _ _ (neutral_visit_source s _ _ _ _ _ H3) I2) as I3.
    pose proof (visit_source_needed _ _ _ _ _ _ _ _ H3) as Inc.
    exact (set_needed_cinv _ _ _ _ _ H Inc I3).
Qed.

Lemma good_visit_stmt : forall st, good (visit_stmt st).
Proof.
  intros st. destruct st as [e|m acc|key v|acc key v| |m src d]; cbn [visit_stmt].
  - apply neutral_good. neu.
  - apply neutral_good. destruct m; neu.
  - apply neutral_good. neu.
  - apply neutral_good. neu.
  - apply neutral_good. neu.
  - rewrite visit_send_eq. apply good_bind; [apply good_visit_send_src|intros _]. apply neutral_good.
    apply neutral_bind; [apply neutral_visit_dest|intros _; neu].
Qed.

Lemma good_visit_var : forall v, (nb = true -> not_balance v) -> good (visit_var v).
Proof.
  intros v Hnb cs u cs' H I. unfold visit_var in H. unfold not_balance in Hnb.
  cb H dup cs0 Hd. unfold var_declared in Hd. injection Hd as _ <-.
  cb H u1 cs1 Hg. apply guard_inv in Hg as [_ ->]. cb H u2 cs1 Hg. apply guard_inv in Hg as [Dc ->].
  cb H addr cs1 Ha.
  assert (I1 : cinv cs1).
  { eapply nstep_cinv; [|exact I]. revert Ha. generalize cs addr cs1. change (neutral
      match vd_orig v with
      | None => alloc (RVar (vd_type v) (vd_name v))
      | Some (OMeta acc key) => cdo r <- visit_expr acc false; cdo a <- expect TAccount r; alloc (RVarMeta (vd_type v) (vd_name v) a key)
      | Some (OBalance acc ae) =>
          guard (vtype_eqb (vd_type v) TMonetary) ;; cdo r <- visit_expr acc false; cdo a <- expect TAccount r;
          cdo r2 <- visit_expr ae false; cdo s <- expect TAsset r2; alloc (RVarBalance (vd_name v) a s)
      end).
    destruct (vd_orig v) as [[acc key|acc ae]|].
    - repeat first [apply neutral_alloc; exact Dc | neu1 | apply neutral_visit_expr].
    - repeat first [apply neutral_alloc; cbn [res_clean]; destruct nb; [exfalso; apply Hnb; reflexivity|reflexivity]
                   | neu1 | apply neutral_visit_expr].
    - apply neutral_alloc. exact Dc. }
  unfold bind_var in H. injection H as _ <-. destruct I1 as [Cn Cr]. constructor; cbn; assumption.
Qed.

Lemma good_visit_all : forall A (f : A -> comp unit) l, Forall (fun x => good (f x)) l -> good (visit_all f l).
Proof.
  intros A f l F. induction F as [|x l Hx _ IH]; cbn [visit_all]; [apply neutral_good, neutral_ret|].
  apply good_bind; [exact Hx|intros _; exact IH].
Qed.

Lemma cinv_empty : cinv empty_cstate.
Proof. constructor; cbn; [intros k v []|constructor]. Qed.

(* what compilation guarantees about a program, for EVERY script (no side condition) *)
Record prog_ok (p : program) : Prop := {
  po_needed : needed_in_sources p;
  po_res : Forall res_clean (p_res p)
}.

Theorem compile_prog_ok : forall sc p, (nb = true -> no_balance_vars sc) -> compile sc = Some p -> prog_ok p.
Proof.
  intros sc p Hnb H. unfold compile in H. destruct (N.ltb max_vars (N.of_nat (length (s_vars sc)))); [discriminate|].
  destruct ((visit_all visit_var (s_vars sc);; visit_all visit_stmt (s_stmts sc)) empty_cstate) as [[u c]|] eqn:E; [|discriminate].
  injection H as <-.
  assert (I : cinv c).
  { refine (good_bind _ _ _ _ _ _ _ _ _ E cinv_empty); [apply good_visit_all|intros _].
    - apply Forall_forall. intros v Hv. apply good_visit_var. intros Hb. specialize (Hnb Hb).
      unfold no_balance_vars in Hnb. rewrite Forall_forall in Hnb. auto.
    - apply good_visit_all. apply Forall_forall. intros st _. apply good_visit_stmt. }
  destruct I as [Cn Cr]. constructor; [exact Cn|exact Cr].
Qed.
End Cinv.

(* ================================================================================================================ *)
(* 5. inputs without funding values; the lock-set theorems                                                          *)
(* ================================================================================================================ *)
(* what is needed of the caller-supplied variables and of the metadata parse table: a value read for a resource of a
   declarable type is not a funding.  Implied by "no funding value anywhere" ([inputs_nofund]) and by the typing glue
   of the pipeline theorems ([vars_typed], [parse_typed]: SetVarsFromJSON / NewValueFromString) *)
Definition inputs_clean (rs : list resource) (vs : list (N * value)) (s : store) : Prop :=
  (forall t name v, In (RVar t name) rs -> declarable t = true -> assoc_N name vs = Some v -> forall f, v <> VFunding f) /\
  (forall t raw v, declarable t = true -> parse_lookup (st_parse s) t raw = Some v -> forall f, v <> VFunding f).
Definition inputs_nofund (vs : list (N * value)) (s : store) : Prop :=
  (forall name f, assoc_N name vs <> Some (VFunding f)) /\ (forall t raw f, parse_lookup (st_parse s) t raw <> Some (VFunding f)).

Lemma inputs_nofund_clean : forall rs vs s, inputs_nofund vs s -> inputs_clean rs vs s.
Proof. intros rs vs s [Hv Hp]. split; [intros t name v _ _ A f ->; exact (Hv _ _ A)|intros t raw v _ A f ->; exact (Hp _ _ _ A)]. Qed.
Lemma inputs_typed_clean : forall rs vs s, vars_typed rs vs -> parse_typed s -> inputs_clean rs vs s.
Proof.
  intros rs vs s VT PT. split.
  - intros t name v I D A f ->. specialize (VT _ _ _ I A). cbn in VT. subst t. discriminate.
  - intros t raw v D A f ->. specialize (PT _ _ _ A). cbn in PT. subst t. discriminate.
Qed.

Lemma vals_nofund_snoc : forall vals v, vals_nofund vals -> (forall f, v <> VFunding f) -> vals_nofund (vals ++ [v]).
Proof.
  intros vals v NF Hv i f N1. destruct (Nat.lt_ge_cases i (length vals)) as [Lt|Ge].
  - rewrite nth_error_app1 in N1 by assumption. exact (NF _ _ N1).
  - rewrite nth_error_app2 in N1 by assumption. destruct (i - length vals)%nat as [|k]; [|destruct k; discriminate].
    cbn in N1. injection N1 as ->. exact (Hv f eq_refl).
Qed.

Lemma resolve_resources_nofund : forall nb rs vs s acc r, Forall (res_clean nb) rs -> inputs_clean rs vs s ->
  vals_nofund (r_vals acc) -> resolve_resources rs vs s acc = Done r -> vals_nofund (r_vals r).
Proof.
  intros nb. induction rs as [|r0 rs IH]; intros vs s acc r C IC NF H; cbn [resolve_resources] in H; [injection H as <-; exact NF|].
  inversion C as [|? ? C0 C']; subst.
  match type of H with bind ?m _ = _ => destruct m as [[[v inv] pend]|e|ps] eqn:E end; cbn [bind] in H; try discriminate.
  eapply IH; [exact C'| |cbn [r_vals]|exact H].
  - destruct IC as [Hv Hp]. split; [|exact Hp]. intros t name w I. apply Hv. right; exact I.
  - apply vals_nofund_snoc; [exact NF|]. destruct IC as [Hv Hp].
    destruct r0 as [c|t name|t name a key|name a sa|aa amt]; cbn [res_clean] in C0.
    + injection E as <- _ _. intros f ->. exact C0.
    + destruct (assoc_N name vs) as [w|] eqn:A; [|discriminate]. injection E as <- _ _.
      eapply Hv; [left; reflexivity|exact C0|exact A].
    + destruct (as_account (nth_error (r_vals acc) a)) as [x| |]; cbn [bind] in E; try discriminate.
      destruct (meta_lookup (st_meta s) x key) as [raw|]; [|discriminate].
      destruct (parse_lookup (st_parse s) t raw) as [w|] eqn:P; [|discriminate]. injection E as <- _ _.
      eapply Hp; [exact C0|exact P].
    + destruct (as_account (nth_error (r_vals acc) a)) as [x| |]; cbn [bind] in E; try discriminate.
      destruct (nth_error (r_vals acc) sa) as [[]|]; try discriminate. injection E as <- _ _. discriminate.
    + destruct (as_asset (nth_error (r_vals acc) aa)) as [x| |]; cbn [bind] in E; try discriminate.
      injection E as <- _ _. discriminate.
Qed.

(* no balance() resource, no pending balance *)
Lemma resolve_resources_nopending : forall rs vs s acc r, Forall (res_clean true) rs ->
  resolve_resources rs vs s acc = Done r -> r_pending r = r_pending acc.
Proof.
  induction rs as [|r0 rs IH]; intros vs s acc r C H; cbn [resolve_resources] in H; [injection H as <-; reflexivity|].
  inversion C as [|? ? C0 C']; subst.
  match type of H with bind ?m _ = _ => destruct m as [[[v inv] pend]|e|ps] eqn:E end; cbn [bind] in H; try discriminate.
  rewrite (IH _ _ _ _ C' H). cbn [r_pending].
  assert (pend = []); [|subst pend; apply app_nil_r].
  destruct r0 as [c|t name|t name a key|name a sa|aa amt]; cbn [res_clean] in C0; try discriminate.
  - injection E as _ _ <-. reflexivity.
  - destruct (assoc_N name vs) as [w|]; [|discriminate]. injection E as _ _ <-. reflexivity.
  - destruct (as_account (nth_error (r_vals acc) a)) as [x| |]; cbn [bind] in E; try discriminate.
    destruct (meta_lookup (st_meta s) x key) as [raw|]; [|discriminate].
    destruct (parse_lookup (st_parse s) t raw) as [w|]; [|discriminate]. injection E as _ _ <-. reflexivity.
  - destruct (as_asset (nth_error (r_vals acc) aa)) as [x| |]; cbn [bind] in E; try discriminate.
    injection E as _ _ <-. reflexivity.
Qed.

(* ---- (1) frame on the read-locked accounts: EVERY program ------------------------------------------------------------ *)
Theorem locks_frame : forall p vars s1 s2 extra o1,
  run_program p vars s1 extra = Done o1 -> same_meta s1 s2 -> agree_on (ro_involved o1) s1 s2 ->
  run_program p vars s2 extra = Done o1.
Proof.
  intros p vars s1 s2 extra o1 H SM A. eapply frame_read_set; [exact H|exact SM|].
  intros a x I. apply A. eapply read_set_involved; eassumption.
Qed.

(* ---- (2) frame on the write-locked accounts + the accounts of balance() variables: compiled programs ----------------- *)
Theorem locks_frame_sources : forall sc p vars s1 s2 extra o1, compile sc = Some p ->
  run_program p vars s1 extra = Done o1 -> same_meta s1 s2 ->
  (forall a x, In (Some a) (ro_sources o1) -> a <> world -> store_balance s1 a x = store_balance s2 a x) ->
  agree_on (balance_var_accounts p vars s1) s1 s2 ->
  run_program p vars s2 extra = Done o1.
Proof.
  intros sc p vars s1 s2 extra o1 C H SM A1 A2. eapply frame_read_set; [exact H|exact SM|].
  pose proof (compile_prog_ok false sc p (fun e => match Bool.diff_false_true e with end) C) as [NS _].
  intros a x I. destruct (read_set_sources _ _ _ _ _ NS H a I) as [K|[K W]]; [apply A2; exact K|apply A1; assumption].
Qed.

Lemma no_balance_vars_none : forall sc p vars s, compile sc = Some p -> no_balance_vars sc -> balance_var_accounts p vars s = [].
Proof.
  intros sc p vars s C NB. pose proof (compile_prog_ok true sc p (fun _ => NB) C) as [_ Cr].
  unfold balance_var_accounts. destruct vars as [vs|]; [|reflexivity].
  destruct (resolve_resources (p_res p) vs s init_resolved) as [r| |] eqn:R; try reflexivity.
  rewrite (resolve_resources_nopending _ _ _ _ _ Cr R). reflexivity.
Qed.

Theorem locks_frame_no_balance_vars : forall sc p vars s1 s2 extra o1, compile sc = Some p -> no_balance_vars sc ->
  run_program p vars s1 extra = Done o1 -> same_meta s1 s2 ->
  (forall a x, In (Some a) (ro_sources o1) -> a <> world -> store_balance s1 a x = store_balance s2 a x) ->
  run_program p vars s2 extra = Done o1.
Proof.
  intros sc p vars s1 s2 extra o1 C NB H SM A. eapply locks_frame_sources; try eassumption.
  rewrite (no_balance_vars_none _ _ _ _ C NB). intros a x [].
Qed.

(* ---- (3) postings and lock sets ------------------------------------------------------------------------------------------ *)
(* destinations are read-locked: EVERY program, every input *)
Theorem locks_involved_cover_destinations : forall p vars s extra o r,
  run_program p vars s extra = Done o -> ro_result o = Done r ->
  forall q, In q (res_posts r) -> In (p_dst q) (ro_involved o).
Proof.
  intros p vars s extra o r H Hr q Hq. destruct (run_program_inv _ _ _ _ _ _ H Hr) as (vs & rr & vals & b & _ & R & F & B & X & Ei & _).
  destruct (postings_core _ _ _ _ _ _ _ _ R F B X q Hq) as [_ (i & Hd)]. rewrite Ei. eapply involved_lookup_in; exact Hd.
Qed.

(* sources are write-locked, compiled programs, no hypothesis: ... unless a funding VALUE was smuggled into the
   resource table through a variable or the metadata parse table *)
Theorem locks_sources_cover_debits_gen : forall sc p vars s extra o r, compile sc = Some p ->
  run_program p vars s extra = Done o -> ro_result o = Done r ->
  forall q, In q (res_posts r) ->
    In (Some (p_src q)) (ro_sources o) \/
    exists vs rr vals, vars = Some vs /\ resolve_resources (p_res p) vs s init_resolved = Done rr /\
      fill_pending (r_pending rr) s (r_vals rr) = Done vals /\ funding_account vals (p_src q).
Proof.
  intros sc p vars s extra o r C H Hr q Hq.
  pose proof (compile_prog_ok false sc p (fun e => match Bool.diff_false_true e with end) C) as [NS _].
  destruct (run_program_inv _ _ _ _ _ _ H Hr) as (vs & rr & vals & b & Ev & R & F & B & X & _ & Es).
  destruct (postings_core _ _ _ _ _ _ _ _ R F B X q Hq) as [[(k & assets & I1 & I2)|Hf] _].
  - left. rewrite Es. apply in_map_iff. exists k. split; [exact I2|eapply NS; exact I1].
  - right. exists vs, rr, vals. auto.
Qed.

Theorem locks_sources_cover_debits : forall sc p vs s extra o r, compile sc = Some p -> inputs_clean (p_res p) vs s ->
  run_program p (Some vs) s extra = Done o -> ro_result o = Done r ->
  forall q, In q (res_posts r) -> In (Some (p_src q)) (ro_sources o).
Proof.
  intros sc p vs s extra o r C IC H Hr q Hq.
  destruct (locks_sources_cover_debits_gen _ _ _ _ _ _ _ C H Hr q Hq) as [K|(vs' & rr & vals & Ev & R & F & (i & f & N1 & _))]; [exact K|].
  injection Ev as <-. exfalso.
  pose proof (compile_prog_ok false sc p (fun e => match Bool.diff_false_true e with end) C) as [_ Cr].
  assert (NF : vals_nofund (r_vals rr)).
  { eapply resolve_resources_nofund; [exact Cr|exact IC| |exact R]. intros [|j] g; discriminate. }
  exact (fill_pending_nofund _ _ _ _ F NF _ _ N1).
Qed.

(* both ends of every posting are read-locked *)
Theorem locks_involved_cover_postings : forall sc p vs s extra o r, compile sc = Some p -> inputs_clean (p_res p) vs s ->
  run_program p (Some vs) s extra = Done o -> ro_result o = Done r ->
  forall q, In q (res_posts r) -> In (p_src q) (ro_involved o) /\ In (p_dst q) (ro_involved o).
Proof.
  intros sc p vs s extra o r C IC H Hr q Hq. split.
  - eapply sources_involved; [exact H|]. eapply locks_sources_cover_debits; eassumption.
  - eapply locks_involved_cover_destinations; eassumption.
Qed.

(* the two ways the hypothesis is met in practice *)
Theorem locks_sources_cover_debits_nofund : forall sc p vs s extra o r, compile sc = Some p -> inputs_nofund vs s ->
  run_program p (Some vs) s extra = Done o -> ro_result o = Done r ->
  forall q, In q (res_posts r) -> In (Some (p_src q)) (ro_sources o).
Proof. intros sc p vs s extra o r C IN. eapply locks_sources_cover_debits; [exact C|apply inputs_nofund_clean; exact IN]. Qed.
Theorem locks_sources_cover_debits_typed : forall sc p vs s extra o r, compile sc = Some p ->
  vars_typed (p_res p) vs -> parse_typed s ->
  run_program p (Some vs) s extra = Done o -> ro_result o = Done r ->
  forall q, In q (res_posts r) -> In (Some (p_src q)) (ro_sources o).
Proof. intros sc p vs s extra o r C VT PT. eapply locks_sources_cover_debits; [exact C|apply inputs_typed_clean; assumption]. Qed.

(* ---- the same through [compile_and_run], and the compile facts without the flag ---------------------------------------- *)
Theorem locks_frame_script : forall sc vars s1 s2 extra o1,
  compile_and_run sc vars s1 extra = Done o1 -> same_meta s1 s2 -> agree_on (ro_involved o1) s1 s2 ->
  compile_and_run sc vars s2 extra = Done o1.
Proof.
  intros sc vars s1 s2 extra o1. unfold compile_and_run.
  destruct (compile sc) as [p|]; [exact (locks_frame p vars s1 s2 extra o1)|discriminate].
Qed.

Theorem compile_prog_ok_plain : forall sc p, compile sc = Some p -> prog_ok false p.
Proof. intros sc p. exact (compile_prog_ok false sc p (fun e => match Bool.diff_false_true e with end)). Qed.

Theorem read_set_sources_compiled : forall sc p vars s extra o, compile sc = Some p -> run_program p vars s extra = Done o ->
  forall a, In a (read_set p vars s) ->
    In a (balance_var_accounts p vars s) \/ (In (Some a) (ro_sources o) /\ a <> world).
Proof. intros sc p vars s extra o C. apply read_set_sources. exact (po_needed _ _ (compile_prog_ok_plain _ _ C)). Qed.
