(* The resource-table limit (compiler.go AllocateResource: `if len(p.resources) >= 65536 { return error }`).
   A program.Address is a uint16.  What keeps an address from wrapping onto resource 0 is that the allocation which
   would make the table longer than [max_resources] = 2^16 is refused.  Here, about the allocator of the model:
     - a table within the limit stays within it, and every address [alloc] hands out is below 2^16;
     - the limit is exact: a table of exactly 2^16 entries refuses every further entry, a shorter one never refuses.
   These are statements about [alloc]/[append_resource], the only writers of [c_res]; the lift to [compile_script] as a
   whole is not proved here (the harness family resource-limit:* of obs-numscript observes it on the real compiler at
   65 535 / 65 536 / 65 537 / 65 538 distinct resources). *)
From Coq Require Import Lia NArith.
From FL Require Export Numscript.CompilerLemmas.
Open Scope nat_scope.

Definition fits (cs : cstate) : Prop := (N.of_nat (length (c_res cs)) <= max_resources)%N.
Definition addr_u16 (i : nat) : Prop := (N.of_nat i < 2 ^ 16)%N.

Lemma max_resources_is_2_16 : max_resources = (2 ^ 16)%N.
Proof. reflexivity. Qed.

Lemma append_resource_fits : forall r cs i cs', append_resource r cs = Some (i, cs') -> addr_u16 i /\ fits cs'.
Proof.
  intros r cs i cs' H. unfold append_resource in H.
  destruct (N.leb max_resources (N.of_nat (length (c_res cs)))) eqn:L; [discriminate|].
  apply N.leb_gt in L. injection H as <- <-. unfold addr_u16, fits. cbn [c_res]. rewrite app_length. cbn [length].
  rewrite <- max_resources_is_2_16. split; lia.
Qed.

Lemma find_const_lt : forall rs v i j, find_const rs v i = Some j -> j < i + length rs.
Proof.
  intros rs v i j H. destruct (find_const_sound _ _ _ _ H) as (c & N1 & _ & L).
  assert (j - i < length rs) by (apply nth_error_Some; congruence). lia.
Qed.

Lemma alloc_fits : forall r cs i cs', fits cs -> alloc r cs = Some (i, cs') -> addr_u16 i /\ fits cs'.
Proof.
  intros r cs i cs' F H. unfold alloc in H.
  destruct r as [v| | | |]; try (eapply append_resource_fits; eassumption).
  destruct (find_const (c_res cs) v 0) as [j|] eqn:E; [|eapply append_resource_fits; eassumption].
  injection H as <- <-. apply find_const_lt in E. split; [|exact F].
  unfold addr_u16, fits in *. rewrite <- max_resources_is_2_16. lia.
Qed.

Lemma append_resource_full : forall r cs, length (c_res cs) = N.to_nat max_resources -> append_resource r cs = None.
Proof.
  intros r cs E. unfold append_resource. rewrite E, N2Nat.id, N.leb_refl. reflexivity.
Qed.

Lemma append_resource_room : forall r cs, (N.of_nat (length (c_res cs)) < max_resources)%N -> append_resource r cs <> None.
Proof.
  intros r cs L. unfold append_resource. apply N.leb_gt in L. rewrite L. discriminate.
Qed.

(* a full table refuses a constant it does not hold yet (65 537th distinct constant), still serves one it holds *)
Lemma alloc_full_new : forall v cs, length (c_res cs) = N.to_nat max_resources -> find_const (c_res cs) v 0 = None ->
  alloc (RConst v) cs = None.
Proof. intros v cs E F. unfold alloc. rewrite F. apply append_resource_full. exact E. Qed.

Lemma alloc_full_known : forall v cs j, find_const (c_res cs) v 0 = Some j -> alloc (RConst v) cs = Some (j, cs).
Proof. intros v cs j F. unfold alloc. rewrite F. reflexivity. Qed.

Theorem resource_addresses_fit : forall r cs i cs', fits cs -> alloc r cs = Some (i, cs') -> addr_u16 i /\ fits cs'.
Proof. exact alloc_fits. Qed.

Theorem resource_limit_exact : forall r cs,
  (length (c_res cs) = N.to_nat max_resources -> append_resource r cs = None) /\
  ((N.of_nat (length (c_res cs)) < max_resources)%N -> append_resource r cs <> None).
Proof. intros r cs. split; [apply append_resource_full|apply append_resource_room]. Qed.
