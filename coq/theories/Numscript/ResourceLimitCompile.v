(* The lift of ResourceLimit.v to the compiler as a whole, with no hypothesis on the script:
     [compile_fits] : compile sc = Some p -> length (p_res p) <= 2^16.
   [keeps m] says the action [m] of the compiler monad takes a table within the limit to a table within the limit.  It is
   closed under [cret], [cfail], [cbind], holds of the allocator (ResourceLimit.alloc_fits) and of every action that
   leaves the table alone; the tactic [kp] walks through the code of each compiler function once (structural
   induction for the recursive ones, [source_ind2] / [dest_ind2] for sources and destinations). *)
From Coq Require Import Lia NArith ZArith List Bool.
From FL Require Import Numscript.CompileCorrectStmt Numscript.Run Numscript.TypingProofs Numscript.ResourceLimit.
Import ListNotations.
Open Scope nat_scope.

Definition keeps {A} (m : comp A) : Prop := forall cs a cs', fits cs -> m cs = Some (a, cs') -> fits cs'.

Lemma keeps_ret : forall A (a : A), keeps (cret a).
Proof. intros A a cs b cs' F H. injection H as _ <-. exact F. Qed.
Lemma keeps_fail : forall A, keeps (@cfail A).
Proof. intros A cs a cs' _ H. discriminate. Qed.
Lemma keeps_bind : forall A B (m : comp A) (f : A -> comp B), keeps m -> (forall a, keeps (f a)) -> keeps (cbind m f).
Proof.
  intros A B m f Km Kf cs b cs' F H. unfold cbind in H. destruct (m cs) as [[a cs1]|] eqn:E; [|discriminate].
  eapply Kf; [eapply Km; eassumption|eassumption].
Qed.
Lemma keeps_guard : forall b, keeps (guard b).
Proof. intros []; [apply keeps_ret|apply keeps_fail]. Qed.
Lemma keeps_same : forall A (m : comp A), (forall cs a cs', m cs = Some (a, cs') -> c_res cs' = c_res cs) -> keeps m.
Proof. intros A m S cs a cs' F H. unfold fits in *. rewrite (S _ _ _ H). exact F. Qed.
Lemma keeps_emit : forall i, keeps (emit i).
Proof. intros i. apply keeps_same. intros cs a cs' H. injection H as _ <-. reflexivity. Qed.
Lemma keeps_read : forall A (g : cstate -> A), keeps (fun s => Some (g s, s)).
Proof. intros A g. apply keeps_same. intros cs a cs' H. injection H as _ <-. reflexivity. Qed.
Lemma keeps_set_needed : forall l a, keeps (set_needed l a).
Proof. intros l a. apply keeps_same. intros cs u cs' H. injection H as _ <-. reflexivity. Qed.
Lemma keeps_add_sources : forall l, keeps (add_sources l).
Proof. intros l. apply keeps_same. intros cs u cs' H. injection H as _ <-. reflexivity. Qed.
Lemma keeps_bind_var : forall n a, keeps (bind_var n a).
Proof. intros n a. apply keeps_same. intros cs u cs' H. injection H as _ <-. reflexivity. Qed.
Lemma keeps_alloc : forall r, keeps (alloc r).
Proof. intros r cs i cs' F H. eapply alloc_fits; eassumption. Qed.

Create HintDb kp.
Ltac kp :=
  repeat first
    [ assumption
    | solve [auto with kp]
    | match goal with |- keeps (let _ := _ in _) => cbv zeta end
    | apply keeps_ret | apply keeps_fail | apply keeps_guard | apply keeps_emit | apply keeps_alloc
    | apply keeps_set_needed | apply keeps_add_sources | apply keeps_bind_var | apply keeps_read
    | apply keeps_bind; [|intros]
    | match goal with
      | |- keeps (match ?x with _ => _ end) => destruct x
      | |- keeps (if ?b then _ else _) => destruct b
      | H : forall _, keeps _ |- keeps _ => apply H
      end ].

Lemma keeps_emit_op : forall o, keeps (emit_op o). Proof. intros; unfold emit_op; kp. Qed.
Lemma keeps_emit_all : forall l, keeps (emit_all l).
Proof. induction l; cbn [emit_all]; kp. Qed.
Lemma keeps_push_addr : forall a, keeps (push_addr a). Proof. intros; unfold push_addr; kp. Qed.
Lemma keeps_alloc_const : forall v, keeps (alloc_const v). Proof. intros; unfold alloc_const; kp. Qed.
Lemma keeps_push_integer : forall n, keeps (push_integer n).
Proof. intros; unfold push_integer; kp; apply keeps_alloc_const || apply keeps_push_addr. Qed.
Lemma keeps_bump : forall n, keeps (bump n).
Proof. intros; unfold bump; kp; apply keeps_push_integer || apply keeps_emit_op. Qed.
Lemma keeps_get_res : forall a, keeps (get_res a). Proof. intros; unfold get_res; kp. Qed.
Lemma keeps_is_world : forall a, keeps (is_world a).
Proof. intros; unfold is_world; kp; apply keeps_get_res. Qed.
Lemma keeps_var_declared : forall n, keeps (var_declared n). Proof. intros; unfold var_declared; kp. Qed.
Lemma keeps_visit_variable : forall n p, keeps (visit_variable n p).
Proof.
  intros n p cs a cs' F H. unfold visit_variable in H.
  destruct (assoc_N n (c_vars cs)); [|discriminate]. destruct (nth_error (c_res cs) n0); [|discriminate].
  revert H. generalize (res_type r, n0). intros q H.
  assert (K : keeps ((if p then push_addr n0 else cret tt);; cret q)) by (kp; apply keeps_push_addr).
  eapply K; eassumption.
Qed.
Lemma keeps_lit_const : forall v p, keeps (lit_const v p).
Proof. intros; unfold lit_const; kp; apply keeps_alloc_const || apply keeps_push_addr. Qed.
Lemma keeps_expect : forall t r, keeps (expect t r). Proof. intros; unfold expect; kp. Qed.
Lemma keeps_expect_type : forall t r, keeps (expect_type t r). Proof. intros; unfold expect_type; kp. Qed.

Global Hint Resolve keeps_emit_op keeps_emit_all keeps_push_addr keeps_alloc_const keeps_push_integer keeps_bump
  keeps_get_res keeps_is_world keeps_var_declared keeps_visit_variable keeps_lit_const keeps_expect keeps_expect_type : kp.
Ltac kpp := repeat (kp; auto with kp).

Lemma keeps_visit_expr : forall e p, keeps (visit_expr e p).
Proof.
  induction e; intros psh; cbn [visit_expr]; kpp.
Qed.

Global Hint Resolve keeps_visit_expr : kp.

Lemma keeps_visit_portions_rev : forall ps acc, keeps (visit_portions_rev ps acc).
Proof.
  induction ps as [|a ps IH]; intros acc; cbn [visit_portions_rev]; kpp.
Qed.
Global Hint Resolve keeps_visit_portions_rev : kp.
Lemma keeps_visit_allotment : forall ps, keeps (visit_allotment ps).
Proof. intros; unfold visit_allotment; cbv zeta; kpp. Qed.
Lemma keeps_take_from_source : forall fb, keeps (take_from_source fb).
Proof. intros; unfold take_from_source; kpp. Qed.
Global Hint Resolve keeps_visit_allotment keeps_take_from_source : kp.

Lemma keeps_visit_source : forall s pa ia, keeps (visit_source s pa ia).
Proof.
  induction s as [acc ov|m s IH|l IH] using source_ind2; intros pa ia; cbn [visit_source].
  - kpp.
  - kpp.
  - apply keeps_bind; [|intros; kpp]. apply keeps_bind; [|intros; kpp].
    generalize (@None nat). generalize (@nil nat) at 1. generalize (@nil nat).
    induction IH as [|s1 rest H1 _ IHr]; intros nd1 nd2 fb; [kpp|].
    apply keeps_bind; [apply H1|]. intros [[a1 e1] f1]. kpp.
Qed.
Global Hint Resolve keeps_visit_source : kp.

Lemma keeps_visit_allot_sources : forall l i pa ma, keeps (visit_allot_sources l i pa ma).
Proof. induction l as [|s l IH]; intros i pa ma; cbn [visit_allot_sources]; kpp. Qed.
Global Hint Resolve keeps_visit_allot_sources : kp.

Lemma keeps_visit_dest : forall d, keeps (visit_dest d).
Proof.
  apply (dest_ind2 (fun d => keeps (visit_dest d)) (fun k => keeps (visit_kod k))).
  - intros e. cbn [visit_dest]. kpp.
  - intros l k Hl Hk. cbn [visit_dest].
    do 5 (apply keeps_bind; [kpp|intros _]).
    apply keeps_bind; [|intros; kpp].
    induction Hl as [|[amt k1] rest H1 _ IHr]; [kpp|]. cbn [snd] in H1. kpp.
  - intros l Hl. cbn [visit_dest].
    do 4 (apply keeps_bind; [kpp|intros _]).
    induction Hl as [|[ap k1] rest H1 _ IHr]; [kpp|]. cbn [snd] in H1. kpp.
  - cbn [visit_kod]. kpp.
  - intros d H. cbn [visit_kod]. exact H.
Qed.
Global Hint Resolve keeps_visit_dest : kp.
Lemma keeps_visit_destination : forall d, keeps (visit_destination d).
Proof. intros; unfold visit_destination; kpp. Qed.
Global Hint Resolve keeps_visit_destination : kp.
Lemma keeps_visit_send : forall m src d, keeps (visit_send m src d).
Proof. intros; unfold visit_send; cbv zeta; kpp. Qed.
Global Hint Resolve keeps_visit_send : kp.
Lemma keeps_visit_stmt : forall st, keeps (visit_stmt st).
Proof. intros st; unfold visit_stmt; kpp. Qed.
Lemma keeps_visit_var : forall v, keeps (visit_var v).
Proof. intros v; unfold visit_var; kpp. Qed.
Lemma keeps_visit_all : forall A (f : A -> comp unit), (forall x, keeps (f x)) -> forall l, keeps (visit_all f l).
Proof. intros A f Hf l. induction l as [|x l IH]; cbn [visit_all]; kpp. Qed.

Lemma fits_empty : fits empty_cstate.
Proof. unfold fits. cbn. lia. Qed.

Theorem compile_fits : forall sc p, compile sc = Some p -> (N.of_nat (length (p_res p)) <= max_resources)%N.
Proof.
  intros sc p H. unfold compile in H. destruct (N.ltb max_vars (N.of_nat (length (s_vars sc)))); [discriminate|].
  destruct ((visit_all visit_var (s_vars sc);; visit_all visit_stmt (s_stmts sc)) empty_cstate) as [[u c]|] eqn:E; [|discriminate].
  injection H as <-. cbn [p_res].
  assert (K : keeps (visit_all visit_var (s_vars sc);; visit_all visit_stmt (s_stmts sc))).
  { apply keeps_bind; [apply keeps_visit_all, keeps_visit_var|intros _; apply keeps_visit_all, keeps_visit_stmt]. }
  exact (K _ _ _ fits_empty E).
Qed.
