(* The resource table of a whole accepted script (complement of ResourceLimit.v, which is about the allocator).
   [compile_table_bound]: whatever [compile] accepts, its table is no longer than the syntactic count of allocations
   [script_allocs] (Typing.v) - duplicates of a constant share one entry, so the table is usually shorter.  Hence for a
   script [within_limits] the table fits the 16-bit address space without any appeal to the allocator's refusal; the
   refusal (ResourceLimit.v) is what covers the scripts beyond that syntactic bound. *)
From Coq Require Import Lia NArith List.
From FL Require Import Numscript.CompileCorrectStmt Numscript.Run Numscript.TypingProofs.
Import ListNotations.
Open Scope nat_scope.

(* whole compiler: the table of an accepted script is never longer than the syntactic count of its allocations *)
Theorem compile_table_bound : forall sc p, compile sc = Some p -> length (p_res p) <= script_allocs sc.
Proof.
  intros sc p H. unfold compile in H. destruct (N.ltb max_vars (N.of_nat (length (s_vars sc)))); [discriminate|].
  destruct ((visit_all visit_var (s_vars sc);; visit_all visit_stmt (s_stmts sc)) empty_cstate) as [[u c]|] eqn:E; [|discriminate].
  injection H as <-. cbn [p_res].
  apply cbind_inv in E as (u1 & cs1 & H1 & H2).
  destruct (visit_vars_sound _ _ _ _ _ inv_empty H1) as (G & W & HI & L1).
  destruct (spec_visit_all _ visit_stmt stmt_allocs (wf_stmt G) G (spec_visit_stmt G) (s_stmts sc) cs1 HI) as [S _].
  destruct (S _ _ H2) as (_ & _ & X). destruct X as [_ _ L2].
  cbn [empty_cstate c_res length] in L1. unfold script_allocs. lia.
Qed.

Corollary compile_within_limits_fits : forall sc p, compile sc = Some p -> within_limits sc ->
  (N.of_nat (length (p_res p)) <= max_resources)%N.
Proof. intros sc p H [_ L]. apply compile_table_bound in H. lia. Qed.
