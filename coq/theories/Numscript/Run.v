(* M1 — ResolveResources / ResolveBalances (vm/machine.go), vm.Run (vm/run.go) and the whole pipeline
   compile -> set vars -> resolve -> run. Definitions only. Models the tree WITH the repairs
   (metadata-derived accounts are lock-relevant; balance() variables are resolved per resource). *)
From FL Require Export Numscript.Compiler.
Open Scope Z_scope.

Record store := {
  st_bal : list (account * asset * Z);          (* absent = 0 *)
  st_meta : list (account * str * str);         (* account metadata: key -> raw string *)
  st_parse : list (vtype * str * option value)  (* machine.NewValueFromString as a table (harness-computed glue) *)
}.

Definition store_balance (s : store) (a : account) (x : asset) : Z :=
  match bal_get (st_bal s) a x with Some z => z | None => 0 end.
Fixpoint meta_lookup (l : list (account * str * str)) (a : account) (k : str) : option str :=
  match l with
  | [] => None
  | (a', k', v) :: r => if N.eqb a a' && N.eqb k k' then Some v else meta_lookup r a k
  end.
Fixpoint parse_lookup (l : list (vtype * str * option value)) (t : vtype) (raw : str) : option value :=
  match l with
  | [] => None
  | (t', raw', v) :: r => if vtype_eqb t t' && N.eqb raw raw' then v else parse_lookup r t raw
  end.

(* what ResolveResources returns besides the values: resource index -> account (the lock sets derive from it),
   and the balance() variables still to be filled: (resource index, account, asset) *)
Record resolved := { r_vals : list value; r_involved : list (nat * account); r_pending : list (nat * account * asset) }.

Definition as_account (v : option value) : outcome account :=
  match v with Some (VAccount a) => Done a | _ => Panic PResolveType end.
Definition as_asset (v : option value) : outcome asset :=
  match v with Some (VAsset a) => Done a | _ => Panic PResolveType end.

Fixpoint resolve_resources (rs : list resource) (vars : list (N * value)) (s : store) (acc : resolved) : outcome resolved :=
  match rs with
  | [] => Done acc
  | r :: rest =>
      let idx := length (r_vals acc) in
      do '(v, inv, pend) <-
        match r with
        | RConst v => Done (v, match v with VAccount a => [(idx, a)] | _ => [] end, [])
        | RVar _ name =>
            match assoc_N name vars with
            | None => Err EMissingVar
            | Some v => Done (v, match v with VAccount a => [(idx, a)] | _ => [] end, [])
            end
        | RVarMeta t _ acc_a key =>
            do a <- as_account (nth_error (r_vals acc) acc_a);
            match meta_lookup (st_meta s) a key with
            | None => Err EMissingMeta
            | Some raw =>
                match parse_lookup (st_parse s) t raw with
                | None => Err EBadMetaValue
                | Some v => Done (v, match v with VAccount x => [(idx, x)] | _ => [] end, [])
                end
            end
        | RVarBalance _ acc_a asset_a =>
            do a <- as_account (nth_error (r_vals acc) acc_a);
            match nth_error (r_vals acc) asset_a with
            | Some (VAsset x) => Done (VMonetary x 0, [(idx, a)], [(idx, a, x)])
            | _ => Err EResolveOther
            end
        | RMonetary asset_a amt =>
            do x <- as_asset (nth_error (r_vals acc) asset_a);
            Done (VMonetary x amt, [], [])
        end;
      resolve_resources rest vars s
        {| r_vals := r_vals acc ++ [v]; r_involved := r_involved acc ++ inv; r_pending := r_pending acc ++ pend |}
  end.

Fixpoint list_set {A} (l : list A) (i : nat) (x : A) : list A :=
  match l, i with
  | [], _ => []
  | _ :: r, O => x :: r
  | y :: r, S k => y :: list_set r k x
  end.

(* ResolveBalances, first loop: balance() variables *)
Fixpoint fill_pending (pend : list (nat * account * asset)) (s : store) (vals : list value) : outcome (list value) :=
  match pend with
  | [] => Done vals
  | (idx, a, x) :: rest =>
      let b := store_balance s a x in
      if b <? 0 then Err ENegBalance else fill_pending rest s (list_set vals idx (VMonetary x b))
  end.

Definition asset_of_value (v : option value) : outcome asset :=
  match v with
  | Some (VAsset a) => Done a
  | Some (VMonetary a _) => Done a
  | Some (VFunding f) => Done (f_asset f)
  | _ => Panic PResolveType
  end.

(* ResolveBalances, second loop: the machine's balance table *)
Fixpoint needed_assets (vals : list value) (s : store) (a : account) (assets : list nat) (b : balances) : outcome balances :=
  match assets with
  | [] => Done b
  | x_a :: rest =>
      do x <- asset_of_value (nth_error vals x_a);
      needed_assets vals s a rest (bal_set b a x (if N.eqb a world then 0 else store_balance s a x))
  end.
Fixpoint resolve_balances (needed : list (nat * list nat)) (vals : list value) (s : store) (b : balances) : outcome balances :=
  match needed with
  | [] => Done b
  | (acc_a, assets) :: rest =>
      do a <- as_account (nth_error vals acc_a);
      do b' <- needed_assets vals s a assets b;
      resolve_balances rest vals s b'
  end.

Fixpoint involved_lookup (l : list (nat * account)) (i : nat) : option account :=
  match l with [] => None | (j, a) :: r => if Nat.eqb i j then Some a else involved_lookup r i end.

(* the last write to a key wins (Go map assignment) *)
Fixpoint meta_final {K} (eqb : K -> K -> bool) (log : list (K * value)) (acc : list (K * value)) : list (K * value) :=
  match log with
  | [] => acc
  | (k, v) :: r => meta_final eqb r (filter (fun e => negb (eqb k (fst e))) acc ++ [(k, v)])
  end.

Definition printable (v : value) : bool :=
  match v with VAllotment _ | VFunding _ => false | _ => true end.

Record result := {
  res_posts : list posting;
  res_txmeta : list (str * value);
  res_accmeta : list (account * str * value);
  res_printed : list value
}.

Record run_out := {
  ro_involved : list account;          (* involvedAccounts (as a list with duplicates, in resource order) *)
  ro_sources : list (option account);  (* involvedSources, one per Program.Sources entry *)
  ro_result : outcome result
}.

Definition pair_eqb (a b : account * str) : bool := N.eqb (fst a) (fst b) && N.eqb (snd a) (snd b).

(* vm.Run after Execute *)
Definition finish (st : mstate) (extra_meta : list str) : outcome result :=
  let tm := meta_final N.eqb (txmeta st) [] in
  let am := meta_final pair_eqb (map (fun e => (fst (fst e), snd (fst e), snd e)) (accmeta st)) [] in
  if negb (forallb (fun e => printable (snd e)) tm && forallb (fun e => printable (snd e)) am) then Panic PMetaString
  else if existsb (fun k => existsb (fun e => N.eqb k (fst e)) tm) extra_meta then Err EMetaOverride
  else Done {| res_posts := posts st; res_txmeta := tm;
               res_accmeta := map (fun e => (fst (fst e), snd (fst e), snd e)) am; res_printed := printed st |}.

(* the machine pipeline on a compiled program *)
Definition run_program (p : program) (vars : option (list (N * value))) (s : store) (extra_meta : list str)
  : outcome run_out :=
  match vars with
  | None => Err EInvalidVars
  | Some vs =>
      do r <- resolve_resources (p_res p) vs s {| r_vals := []; r_involved := []; r_pending := [] |};
      let inv := map snd (r_involved r) in
      let srcs := map (involved_lookup (r_involved r)) (p_sources p) in
      Done {| ro_involved := inv; ro_sources := srcs;
              ro_result :=
                do vals <- fill_pending (r_pending r) s (r_vals r);
                do b <- resolve_balances (p_needed p) vals s [];
                do st <- execute vals (p_code p) b;
                finish st extra_meta |}
  end.

Definition compile_and_run (sc : script) vars s extra_meta : outcome run_out :=
  match compile sc with
  | None => Err ECompile
  | Some p => run_program p vars s extra_meta
  end.
