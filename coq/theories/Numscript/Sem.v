(* M1 — implementation-level source semantics of Numscript: structural recursion on the AST over
   (balances, postings, metadata), built from the same funding primitives as the machine but with no stack,
   no resource table and NO panic outcome in its result type. [compile_correct] (Proofs) states that the
   compiled program run by the machine computes exactly this; C01/C03/C09 are proved about it. Definitions only. *)
From FL Require Export Numscript.Run.
Open Scope Z_scope.

Inductive sres (A : Type) := SOk (a : A) | SErr (e : eclass).
Arguments SOk {A} a.
Arguments SErr {A} e.
Definition sbind {A B} (o : sres A) (f : A -> sres B) : sres B :=
  match o with SOk a => f a | SErr e => SErr e end.
Notation "'sdo' x <- o ; f" := (sbind o (fun x => f)) (at level 200, x name, o at level 100, f at level 200, right associativity).
Notation "'sdo' ' p <- o ; f" := (sbind o (fun x => match x with p => f end))
  (at level 200, p pattern, o at level 100, f at level 200, right associativity).

(* values of the declared variables, by name *)
Definition venv := list (N * value).

(* ---- expressions -------------------------------------------------------------------------------------- *)
Fixpoint eval (ve : venv) (e : expr) : sres value :=
  match e with
  | ELitAccount a => SOk (VAccount a)
  | ELitAsset a => SOk (VAsset a)
  | ELitNumber n => SOk (VNumber n)
  | ELitString s => SOk (VString s)
  | ELitPortion (Some r) => SOk (VPortion (PSpecific r))
  | ELitPortion None => SErr ECompile
  | ELitMonetary ae amt =>
      sdo v <- eval ve ae;
      match v with VAsset a => SOk (VMonetary a amt) | _ => SErr ECompile end
  | EVar name => match assoc_N name ve with Some v => SOk v | None => SErr ECompile end
  | EAddSub is_add l r =>
      sdo a <- eval ve l;
      sdo b <- eval ve r;
      match a, b with
      | VNumber x, VNumber y => SOk (VNumber (if is_add then x + y else x - y))
      | VMonetary s x, VMonetary t y =>
          if N.eqb s t then SOk (VMonetary s (if is_add then x + y else x - y))
          else SErr (if is_add then EInvalidScript else EOtherRun)
      | _, _ => SErr ECompile
      end
  end.

Definition eval_account ve e : sres account :=
  sdo v <- eval ve e; match v with VAccount a => SOk a | _ => SErr ECompile end.
Definition eval_monetary ve e : sres (asset * Z) :=
  sdo v <- eval ve e; match v with VMonetary a n => SOk (a, n) | _ => SErr ECompile end.
Definition eval_asset ve e : sres asset :=
  sdo v <- eval ve e; match v with VAsset a => SOk a | _ => SErr ECompile end.

(* the asset the compiler obtains with `APUSH monAddr; OP_ASSET`: the leftmost monetary leaf of the amount *)
Fixpoint lead_asset (ve : venv) (e : expr) : sres asset :=
  match e with
  | EAddSub _ l _ => lead_asset ve l
  | _ => sdo '(a, _) <- eval_monetary ve e; SOk a
  end.

(* the state a script execution threads: machine balances, postings, metadata logs, printed values *)
Record sstate := { s_bals : balances; s_posts : list posting; s_txmeta : list (str * value);
                   s_accmeta : list (account * str * value); s_printed : list value }.
Definition with_bals (st : sstate) (b : balances) : sstate :=
  {| s_bals := b; s_posts := s_posts st; s_txmeta := s_txmeta st; s_accmeta := s_accmeta st; s_printed := s_printed st |}.

(* OP_FUNDING_ASSEMBLE on fundings listed in priority order; all assets must agree with the last one *)
Definition assemble (fs : list funding) : sres funding :=
  match rev fs with
  | [] => SErr EInvalidScript
  | last :: _ =>
      if forallb (fun f => N.eqb (f_asset f) (f_asset last)) fs
      then SOk {| f_asset := f_asset last; f_parts := fold_left (fun acc f => concat_parts acc (f_parts f)) fs [] |}
      else SErr EInvalidScript
  end.

Definition do_repay (st : sstate) (f : funding) : sres sstate :=
  match repay (s_bals st) (f_asset f) (f_parts f) with
  | Some b => SOk (with_bals st b)
  | None => SErr EResolveOther   (* never: repaid accounts are tracked; excluded by [repay_tracked] in the proofs *)
  end.

(* ---- sources ---------------------------------------------------------------------------------------- *)
(* the fallback account of a source (source.go): @world as a literal, or `allowing unbounded overdraft` *)
Definition is_world_lit (e : expr) : bool :=
  match e with ELitAccount a => N.eqb a world | _ => false end.
Fixpoint fallback_of (s : source) : option expr :=
  match s with
  | SAccount acc OvUnbounded => Some acc
  | SAccount acc OvNone => if is_world_lit acc then Some acc else None
  | SAccount _ (OvSpecific _) => None
  | SMaxed _ _ => None
  | SInOrder srcs =>
      (fix go (l : list source) : option expr :=
         match l with
         | [] => None
         | [x] => fallback_of x
         | _ :: r => go r
         end) srcs
  end.

(* TakeFromSource applied to the funding a source produced *)
Definition take_from (ve : venv) (fb : option expr) (st : sstate) (f : funding) (s : asset) (amt : Z)
  : sres (funding * sstate) :=
  match fb with
  | None =>
      if negb (N.eqb (f_asset f) s) then SErr EInvalidScript
      else match take f amt with
           | None => SErr EInsufficient
           | Some (res, rem) => sdo st1 <- do_repay st rem; SOk (res, st1)
           end
  | Some fbe =>
      if amt <? 0 then SErr EOtherRun
      else if negb (N.eqb (f_asset f) s) then SErr EInvalidScript
      else
        let tot := total f in
        let missing := if tot <? amt then amt - tot else 0 in
        let '(res, rem) := take_max f amt in
        sdo st1 <- do_repay st rem;
        sdo a <- eval_account ve fbe;
        match withdraw_always (s_bals st1) a s missing with
        | None => SErr EInvalidScript
        | Some (extra, b) => sdo r <- assemble [res; extra]; SOk (r, with_bals st1 b)
        end
  end.

(* [zero_asset] is the asset of the zero overdraft the compiler builds for accounts without an explicit one *)
Fixpoint sem_source (ve : venv) (zero_asset : asset) (s : source) (st : sstate) : sres (funding * sstate) :=
  match s with
  | SAccount acc ov =>
      sdo a <- eval_account ve acc;
      sdo '(oa, oamt) <- match ov with
                         | OvSpecific e => eval_monetary ve e
                         | _ => SOk (zero_asset, 0)
                         end;
      match withdraw_all (s_bals st) a oa oamt with
      | None => SErr EInvalidScript
      | Some (f, b) => SOk (f, with_bals st b)
      end
  | SMaxed max src =>
      sdo '(f, st1) <- sem_source ve zero_asset src st;
      sdo '(ms, mamt) <- eval_monetary ve max;
      if mamt <? 0 then SErr EOtherRun
      else if negb (N.eqb (f_asset f) ms) then SErr EInvalidScript
      else
        let tot := total f in
        let missing := if tot <? mamt then mamt - tot else 0 in
        let '(res, rem) := take_max f mamt in
        sdo st2 <- do_repay st1 rem;
        match fallback_of src with
        | Some fbe =>
            sdo a <- eval_account ve fbe;
            match withdraw_always (s_bals st2) a ms missing with
            | None => SErr EInvalidScript
            | Some (extra, b) => sdo r <- assemble [res; extra]; SOk (r, with_bals st2 b)
            end
        | None => SOk (res, st2)
        end
  | SInOrder srcs =>
      sdo '(fs, st1) <-
        (fix go (l : list source) (st : sstate) : sres (list funding * sstate) :=
           match l with
           | [] => SOk ([], st)
           | s1 :: rest =>
               sdo '(f, st1) <- sem_source ve zero_asset s1 st;
               sdo '(fs, st2) <- go rest st1;
               SOk (f :: fs, st2)
           end) srcs st;
      sdo r <- assemble fs;
      SOk (r, st1)
  end.

(* ---- allotments ------------------------------------------------------------------------------------- *)
Definition eval_portion (ve : venv) (p : aportion) : sres portion :=
  match p with
  | APConst (Some r) => SOk (PSpecific r)
  | APConst None => SErr ECompile
  | APVar name => match assoc_N name ve with Some (VPortion q) => SOk q | _ => SErr ECompile end
  | APRemaining => SOk PRemaining
  end.
Fixpoint eval_portions (ve : venv) (ps : list aportion) : sres (list portion) :=
  match ps with
  | [] => SOk []
  | p :: r => sdo q <- eval_portion ve p; sdo qs <- eval_portions ve r; SOk (q :: qs)
  end.
Definition make_allotment (ve : venv) (ps : list aportion) : sres (list ratio) :=
  sdo qs <- eval_portions ve ps;
  match new_allotment qs with inl _ => SErr EInvalidScript | inr a => SOk a end.

(* ---- destinations ----------------------------------------------------------------------------------- *)
(* a destination consumes the funding it is given, emits postings, and returns what it did not send *)
Definition do_send (st : sstate) (dest : account) (f : funding) : sstate :=
  {| s_bals := credit (s_bals st) dest f;
     s_posts := s_posts st ++ map (fun p => {| p_src := fst p; p_dst := dest; p_asset := f_asset f; p_amount := snd p |}) (f_parts f);
     s_txmeta := s_txmeta st; s_accmeta := s_accmeta st; s_printed := s_printed st |}.

Fixpoint sem_dest (ve : venv) (d : dest) (f : funding) (st : sstate) : sres (funding * sstate) :=
  match d with
  | DAccount e =>
      match take f (total f) with
      | None => SErr EInsufficient
      | Some (res, rem) => sdo a <- eval_account ve e; SOk (rem, do_send st a res)
      end
  | DInOrder l rem_k =>
      sdo '(f1, kept_total, st1) <-
        (fix go (l : list (expr * kod)) (f : funding) (acc : Z) (st : sstate) : sres (funding * Z * sstate) :=
           match l with
           | [] => SOk (f, acc, st)
           | (amt_e, k) :: rest =>
               sdo '(ms, mamt) <- eval_monetary ve amt_e;
               if mamt <? 0 then SErr EOtherRun
               else if negb (N.eqb (f_asset f) ms) then SErr EInvalidScript
               else
                 let '(res, rem) := take_max f mamt in
                 sdo '(x, st1) <- sem_kod ve k res st;
                 sdo f' <- assemble [x; rem];
                 go rest f' (acc + total x) st1
           end) l f 0 st;
      match take (freverse f1) kept_total with
      | None => SErr EInsufficient
      | Some (res, rem) =>
          sdo '(x, st2) <- sem_kod ve rem_k (freverse rem) st1;
          sdo r <- assemble [x; freverse res];
          SOk (r, st2)
      end
  | DAllot l =>
      sdo a <- make_allotment ve (map fst l);
      let parts := allocate a (total f) in
      (fix go (l : list (aportion * kod)) (parts : list Z) (f : funding) (st : sstate) : sres (funding * sstate) :=
         match l, parts with
         | [], _ => SOk (f, st)
         | (_, k) :: rest, p :: ps =>
             match take f p with
             | None => SErr EInsufficient
             | Some (res, rem) =>
                 sdo '(x, st1) <- sem_kod ve k res st;
                 sdo f' <- assemble [x; rem];
                 go rest ps f' st1
             end
         | _ :: _, [] => SErr EInvalidScript   (* never: |allocate a _| = |a| = |l| *)
         end) l parts f st
  end
with sem_kod (ve : venv) (k : kod) (f : funding) (st : sstate) : sres (funding * sstate) :=
  match k with
  | Kept => SOk (f, st)
  | KTo d => sem_dest ve d f st
  end.

(* ---- statements --------------------------------------------------------------------------------------- *)
Definition sem_send (ve : venv) (m : send_amount) (src : vasource) (d : dest) (st : sstate) : sres sstate :=
  sdo '(f, st1) <-
    match m, src with
    | SendAll ae, VSrc s => sdo a <- eval_asset ve ae; sem_source ve a s st
    | SendAll _, VSrcAllot _ => SErr ECompile
    | SendMon e, VSrc s =>
        sdo za <- lead_asset ve e;
        sdo '(f, st1) <- sem_source ve za s st;
        sdo '(ms, mamt) <- eval_monetary ve e;
        take_from ve (fallback_of s) st1 f ms mamt
    | SendMon e, VSrcAllot l =>
        sdo za <- lead_asset ve e;
        sdo '(ms, mamt) <- eval_monetary ve e;
        sdo a <- make_allotment ve (map fst l);
        let parts := allocate a mamt in
        sdo '(fs, st1) <-
          (fix go (l : list (aportion * source)) (parts : list Z) (st : sstate) : sres (list funding * sstate) :=
             match l, parts with
             | [], _ => SOk ([], st)
             | (_, s) :: rest, p :: ps =>
                 sdo '(f, st1) <- sem_source ve za s st;
                 sdo '(r, st2) <- take_from ve (fallback_of s) st1 f ms p;
                 sdo '(rs, st3) <- go rest ps st2;
                 SOk (r :: rs, st3)
             | _ :: _, [] => SErr EInvalidScript
             end) l parts st;
        sdo r <- assemble fs;
        SOk (r, st1)
    end;
  sdo '(lo, st2) <- sem_dest ve d f st1;
  do_repay st2 lo.

Definition sem_save (ve : venv) (m : send_amount) (acc : expr) (st : sstate) : sres sstate :=
  match m with
  | SendAll ae =>
      sdo s <- eval_asset ve ae;
      sdo a <- eval_account ve acc;
      match bal_get (s_bals st) a s with
      | Some z => if 0 <? z then SOk (with_bals st (bal_set (s_bals st) a s 0)) else SOk st
      | None => SOk st
      end
  | SendMon e =>
      sdo '(s, amt) <- eval_monetary ve e;
      sdo a <- eval_account ve acc;
      if amt <? 0 then SErr EOtherRun
      else match bal_get (s_bals st) a s with
           | Some z => SOk (with_bals st (bal_set (s_bals st) a s (z - amt)))
           | None => SOk st
           end
  end.

Definition sem_stmt (ve : venv) (s : stmt) (st : sstate) : sres sstate :=
  match s with
  | StPrint e =>
      sdo v <- eval ve e;
      SOk {| s_bals := s_bals st; s_posts := s_posts st; s_txmeta := s_txmeta st; s_accmeta := s_accmeta st;
             s_printed := s_printed st ++ [v] |}
  | StFail => SErr EScriptFailed
  | StSend m src d => sem_send ve m src d st
  | StTxMeta key e =>
      sdo v <- eval ve e;
      SOk {| s_bals := s_bals st; s_posts := s_posts st; s_txmeta := s_txmeta st ++ [(key, v)];
             s_accmeta := s_accmeta st; s_printed := s_printed st |}
  | StAccMeta acc key e =>
      sdo v <- eval ve e;
      sdo a <- eval_account ve acc;
      SOk {| s_bals := s_bals st; s_posts := s_posts st; s_txmeta := s_txmeta st;
             s_accmeta := s_accmeta st ++ [(a, key, v)]; s_printed := s_printed st |}
  | StSave m acc => sem_save ve m acc st
  end.

Fixpoint sem_stmts (ve : venv) (l : list stmt) (st : sstate) : sres sstate :=
  match l with
  | [] => SOk st
  | s :: r => sdo st1 <- sem_stmt ve s st; sem_stmts ve r st1
  end.

Definition sem_finish (st : sstate) (extra_meta : list str) : sres result :=
  let tm := meta_final N.eqb (s_txmeta st) [] in
  let am := meta_final pair_eqb (map (fun e => (fst (fst e), snd (fst e), snd e)) (s_accmeta st)) [] in
  if existsb (fun k => existsb (fun e => N.eqb k (fst e)) tm) extra_meta then SErr EMetaOverride
  else SOk {| res_posts := s_posts st; res_txmeta := tm;
              res_accmeta := map (fun e => (fst (fst e), snd (fst e), snd e)) am; res_printed := s_printed st |}.

(* the script run against variable values [ve] (declared variables, already resolved) and the machine's
   initial balance table [b] *)
Definition sem (sc : script) (ve : venv) (b : balances) (extra_meta : list str) : sres result :=
  sdo st <- sem_stmts ve (s_stmts sc) {| s_bals := b; s_posts := []; s_txmeta := []; s_accmeta := []; s_printed := [] |};
  sem_finish st extra_meta.
