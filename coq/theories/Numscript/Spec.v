(* M1 — the readable specification of a send (DESIGN 4 "Spec.v"): what "the source says".
   Definitions only; the refinement theorems (Sem refines this) are in C03Proofs.v.

   A send's postings are [flow source_parts demands]:
     source_parts  the funding the sources provide: accounts with their available amounts, in written order;
     demands       the non-`kept` destination leaves in written order, each with the amount the language gives
                   it (portions: floored shares plus one leftover unit each to the earliest entries; ordered
                   destinations: each entry gets min(max_i, what is left of the amount *given to this
                   destination* after the earlier entries' shares), `remaining` gets the rest);
     flow          consumes the first list front to back to fill the second, front to back.
   The `kept` amounts are not sent: they stay with the sources (the tail of the funding). *)
From FL Require Export Numscript.Sem.
Open Scope Z_scope.

Definition demand := (account * Z)%type.            (* destination account, amount *)
Definition move := (account * account * Z)%type.    (* source, destination, amount *)

(* fill one demand from the front of the parts: the moves made, and the parts left *)
Fixpoint fill (ps : list part) (dst : account) (need : Z) : list move * list part :=
  match ps with
  | [] => ([], [])
  | (a, amt) :: rest =>
      if need <=? 0 then ([], ps)
      else if need <? amt then ([(a, dst, need)], (a, amt - need) :: rest)
      else let '(ms, r) := fill rest dst (need - amt) in ((a, dst, amt) :: ms, r)
  end.

Fixpoint flow (ps : list part) (ds : list demand) : list move :=
  match ds with
  | [] => []
  | (dst, need) :: r => let '(ms, ps') := fill ps dst need in ms ++ flow ps' r
  end.

(* moves and demands as sequences of unit coins *)
Definition move_pairs (ms : list move) : list (account * account) :=
  flat_map (fun m => repeat (fst (fst m), snd (fst m)) (Z.to_nat (snd m))) ms.
Definition dunits (ds : list demand) : list account :=
  flat_map (fun d => repeat (fst d) (Z.to_nat (snd d))) ds.
Definition demands_total (ds : list demand) : Z := fold_right (fun d acc => snd d + acc) 0 ds.

(* the demands of a destination that is given the amount T, and the amount it keeps.
   Ordered destination: R is what is left of T for the entries still to come; entry i is offered
   t_i = min(max_i, R) -- the language's meaning, NOT the implementation's min(max_i, R + kept so far). *)
Fixpoint demands (ve : venv) (d : dest) (T : Z) : sres (list demand * Z) :=
  match d with
  | DAccount e => sdo a <- eval_account ve e; SOk ([(a, T)], 0)
  | DInOrder l rem_k =>
      sdo '(ds, kp, R) <-
        (fix go (l : list (expr * kod)) (R : Z) : sres (list demand * Z * Z) :=
           match l with
           | [] => SOk ([], 0, R)
           | (amt_e, k) :: rest =>
               sdo '(_, m) <- eval_monetary ve amt_e;
               sdo '(ds1, kp1) <- kod_demands ve k (Z.min m R);
               sdo '(ds2, kp2, R') <- go rest (R - Z.min m R);
               SOk (ds1 ++ ds2, kp1 + kp2, R')
           end) l T;
      sdo '(ds2, kp2) <- kod_demands ve rem_k R;
      SOk (ds ++ ds2, kp + kp2)
  | DAllot l =>
      sdo a <- make_allotment ve (map fst l);
      let shares := allocate a T in
      sdo '(ds, kp) <-
        (fix go (l : list (aportion * kod)) (shares : list Z) : sres (list demand * Z) :=
           match l, shares with
           | [], _ => SOk ([], 0)
           | (_, k) :: rest, s :: ss =>
               sdo '(ds1, kp1) <- kod_demands ve k s;
               sdo '(ds2, kp2) <- go rest ss;
               SOk (ds1 ++ ds2, kp1 + kp2)
           | _ :: _, [] => SErr EInvalidScript
           end) l shares;
      (* an allotment that does not sum to 1 (only possible with variable portions and no `remaining`,
         which the compiler rejects) leaves T - sum shares unsent *)
      SOk (ds, kp + (T - sumZ shares))
  end
with kod_demands (ve : venv) (k : kod) (T : Z) : sres (list demand * Z) :=
  match k with
  | Kept => SOk ([], T)
  | KTo d => demands ve d T
  end.

(* the postings of a send, as the specification gives them, from the funding the sources provide *)
Definition spec_moves (ve : venv) (d : dest) (source_parts : list part) : sres (list move) :=
  sdo '(ds, _) <- demands ve d (total_parts source_parts);
  SOk (flow source_parts ds).

(* ---- sources ------------------------------------------------------------------------------------------ *)
(* [clip m ps]: the first m units of ps, and the rest *)
Fixpoint clip (m : Z) (ps : list part) : list part * list part :=
  match ps with
  | [] => ([], [])
  | (a, x) :: r =>
      if m <=? 0 then ([], ps)
      else if m <? x then ([(a, m)], (a, x - m) :: r)
      else let '(k, g) := clip (m - x) r in ((a, x) :: k, g)
  end.

(* what was not used goes back to the accounts it came from (@world has no balance) *)
Definition give_back (b : balances) (s : asset) (g : list part) : balances :=
  fold_left (fun b p =>
               if N.eqb (fst p) world then b
               else bal_set b (fst p) s (match bal_get b (fst p) s with Some z => z | None => 0 end + snd p))
            g b.

(* the fallback account (@world, or `allowing unbounded overdraft`) covers what is missing up to [want] *)
Definition cover (ve : venv) (fb : option expr) (b : balances) (s : asset) (have want : Z) (k : list part)
  : sres (list part * balances) :=
  match fb with
  | None => SOk (k, b)
  | Some e =>
      sdo a <- eval_account ve e;
      match bal_get b a s with
      | None => SErr EInvalidScript
      | Some bal =>
          let missing := Z.max 0 (want - have) in
          SOk (concat_parts k [(a, missing)], bal_set b a s (bal - missing))
      end
  end.

(* the parts a source provides from the balance table b, in written order, and the table it leaves:
   an account gives max 0 (balance + overdraft); `max m from S` keeps the first m units of S, gives the rest
   back, and lets S's fallback account cover the difference; `{ S1 S2 .. }` concatenates (Concat merges two
   adjacent parts of the same account), each member reading the table its predecessors left *)
Fixpoint source_parts (ve : venv) (za : asset) (s : source) (b : balances) : sres (list part * balances) :=
  match s with
  | SAccount acc ov =>
      sdo a <- eval_account ve acc;
      sdo '(oa, ovd) <- match ov with OvSpecific e => eval_monetary ve e | _ => SOk (za, 0) end;
      match bal_get b a oa with
      | None => SErr EInvalidScript
      | Some bal => let avail := Z.max 0 (bal + ovd) in SOk ([(a, avail)], bal_set b a oa (bal - avail))
      end
  | SMaxed max src =>
      sdo '(ps, b1) <- source_parts ve za src b;
      sdo '(ms, m) <- eval_monetary ve max;
      let '(k, g) := clip m ps in
      cover ve (fallback_of src) (give_back b1 ms g) ms (total_parts ps) m k
  | SInOrder srcs =>
      (fix go (l : list source) (acc : list part) (b : balances) : sres (list part * balances) :=
         match l with
         | [] => SOk (acc, b)
         | s1 :: rest => sdo '(ps, b1) <- source_parts ve za s1 b; go rest (concat_parts acc ps) b1
         end) srcs [] b
  end.

(* TakeFromSource: of what source s provides, the first n units; the rest goes back; s's fallback account
   covers what is missing *)
Definition taken_parts (ve : venv) (s : source) (za ms : asset) (n : Z) (b : balances) : sres (list part * balances) :=
  sdo '(ps, b1) <- source_parts ve za s b;
  let '(k, g) := clip n ps in
  cover ve (fallback_of s) (give_back b1 ms g) ms (total_parts ps) n k.

(* the parts handed to the destination:
     send [A *] (source = S ..)                      everything S provides
     send [A n] (source = S ..)                      the first n units of S (+ fallback)
     send [A n] (source = { p1 from S1 ... } ..)     share_i = allocate(n)_i units of S_i (+ its fallback), concatenated,
                                                     each S_i reading the table its predecessors left *)
Definition send_parts (ve : venv) (m : send_amount) (src : vasource) (b : balances) : sres (list part) :=
  match m, src with
  | SendAll ae, VSrc s => sdo a <- eval_asset ve ae; sdo '(ps, _) <- source_parts ve a s b; SOk ps
  | SendAll _, VSrcAllot _ => SErr ECompile
  | SendMon e, VSrc s =>
      sdo za <- lead_asset ve e;
      sdo '(ms, n) <- eval_monetary ve e;
      sdo '(ps, _) <- taken_parts ve s za ms n b;
      SOk ps
  | SendMon e, VSrcAllot l =>
      sdo za <- lead_asset ve e;
      sdo '(ms, n) <- eval_monetary ve e;
      sdo a <- make_allotment ve (map fst l);
      (fix go (l : list (aportion * source)) (shares : list Z) (acc : list part) (b : balances) : sres (list part) :=
         match l, shares with
         | [], _ => SOk acc
         | (_, s) :: rest, p :: ps =>
             sdo '(x, b1) <- taken_parts ve s za ms p b;
             go rest ps (concat_parts acc x) b1
         | _ :: _, [] => SErr EInvalidScript
         end) l (allocate a n) [] b
  end.

(* THE SPEC of a send: flow of what the sources provide into what the destination demands *)
Definition spec_send (ve : venv) (m : send_amount) (src : vasource) (d : dest) (b : balances) : sres (list move) :=
  sdo ps <- send_parts ve m src b;
  spec_moves ve d ps.
