(* M1 — abstract syntax of internal/machine/script/NumScript.g4 as produced by the real ANTLR parser
   (the harness dumps the parse tree into this form; literals are pre-lexed: account/asset/string names are
   interned, portion literals are given as the ratio ParsePortionSpecific computes or None when it rejects). *)
From FL Require Export Numscript.VM.

Inductive expr :=
| ELitAccount (a : account)
| ELitAsset (a : asset)
| ELitNumber (n : Z)
| ELitString (s : str)
| ELitPortion (p : option ratio)
| ELitMonetary (asset_e : expr) (amt : Z)
| EVar (name : N)
| EAddSub (is_add : bool) (lhs rhs : expr).

Inductive aportion := APConst (p : option ratio) | APVar (name : N) | APRemaining.

Inductive overdraft := OvNone | OvSpecific (e : expr) | OvUnbounded.

Inductive source :=
| SAccount (acc : expr) (ov : overdraft)
| SMaxed (max : expr) (src : source)
| SInOrder (srcs : list source).

Inductive vasource :=
| VSrc (s : source)
| VSrcAllot (l : list (aportion * source)).

Inductive dest :=
| DAccount (e : expr)
| DInOrder (l : list (expr * kod)) (rem : kod)
| DAllot (l : list (aportion * kod))
with kod := Kept | KTo (d : dest).

Inductive send_amount := SendMon (e : expr) | SendAll (asset_e : expr).

Inductive stmt :=
| StPrint (e : expr)
| StSave (m : send_amount) (acc : expr)
| StTxMeta (key : str) (v : expr)
| StAccMeta (acc : expr) (key : str) (v : expr)
| StFail
| StSend (m : send_amount) (src : vasource) (d : dest).

Inductive origin := OMeta (acc : expr) (key : str) | OBalance (acc : expr) (asset_e : expr).
Record vardecl := { vd_type : vtype; vd_name : N; vd_orig : option origin }.
Record script := { s_vars : list vardecl; s_stmts : list stmt }.
