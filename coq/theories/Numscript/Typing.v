(* M1 — which Numscript programs the language ACCEPTS, stated on the syntax alone.

   Definitions only (no proofs, no reference to the compiler's monad, state, resource table or addresses; the only
   names used from Compiler.v are the association-list lookup [assoc_N], the set [declarable] of types a [vars] block
   may mention, and the two numeric limits [max_vars], [max_resources]).
   Every judgement is a total, syntax-directed function into [bool] / [option]: one clause per production of
   Syntax.v, each clause the conjunction of the premises of the corresponding typing rule.  (For expressions the
   same rules are also given as an [Inductive]; TypingProofs.v proves the two presentations equivalent.)

   [TypingProofs.v] proves  [compile sc <> None <-> well_formed sc]  for every script within the two
   implementation limits [within_limits] (compiler/compiler.go: 32 768 variables, 65 536 resources).

   Conventions.  A typing environment [tenv] lists the declared variables, most recent first.  Types are the
   machine's value types ([vtype], VM.v); only the six [declarable] ones can be written in a [vars] block. *)
From Coq Require Import List NArith ZArith Bool.
From FL Require Export Numscript.Compiler.
Import ListNotations.
Local Open Scope nat_scope.

Definition tenv := list (N * vtype).

Definition lookup (G : tenv) (name : N) : option vtype := assoc_N name G.
Definition declared (G : tenv) (name : N) : bool :=
  match lookup G name with Some _ => true | None => false end.

(* ---- expressions ------------------------------------------------------------------------------------------------
   literals have their own type; a portion literal must be one ParsePortionSpecific accepts ([Some r]);
   a monetary literal [ae n] needs an asset-typed [ae]; a variable must be declared;
   [+]/[-] are defined on number×number and monetary×monetary only. *)
Fixpoint type_expr (G : tenv) (e : expr) : option vtype :=
  match e with
  | ELitAccount _ => Some TAccount
  | ELitAsset _ => Some TAsset
  | ELitNumber _ => Some TNumber
  | ELitString _ => Some TString
  | ELitPortion (Some _) => Some TPortion
  | ELitPortion None => None
  | ELitMonetary ae _ =>
      match type_expr G ae with Some TAsset => Some TMonetary | _ => None end
  | EVar name => lookup G name
  | EAddSub _ l r =>
      match type_expr G l, type_expr G r with
      | Some TNumber, Some TNumber => Some TNumber
      | Some TMonetary, Some TMonetary => Some TMonetary
      | _, _ => None
      end
  end.

Definition has_type (G : tenv) (e : expr) (t : vtype) : bool :=
  match type_expr G e with Some t' => vtype_eqb t' t | None => false end.
Definition well_typed (G : tenv) (e : expr) : bool :=
  match type_expr G e with Some _ => true | None => false end.

(* the same rules as a relation *)
Inductive expr_type (G : tenv) : expr -> vtype -> Prop :=
| T_account : forall a, expr_type G (ELitAccount a) TAccount
| T_asset : forall a, expr_type G (ELitAsset a) TAsset
| T_number : forall n, expr_type G (ELitNumber n) TNumber
| T_string : forall s, expr_type G (ELitString s) TString
| T_portion : forall r, expr_type G (ELitPortion (Some r)) TPortion
| T_monetary : forall ae n, expr_type G ae TAsset -> expr_type G (ELitMonetary ae n) TMonetary
| T_var : forall name t, lookup G name = Some t -> expr_type G (EVar name) t
| T_arith_number : forall b l r, expr_type G l TNumber -> expr_type G r TNumber -> expr_type G (EAddSub b l r) TNumber
| T_arith_monetary : forall b l r, expr_type G l TMonetary -> expr_type G r TMonetary -> expr_type G (EAddSub b l r) TMonetary.

(* ---- the identity of a source account ---------------------------------------------------------------------------
   The rule "no account is emptied twice inside one ordered source" is about WHICH account a leaf names, before
   any value is known: two leaves name the same account iff they are the same literal, or the same variable.
   (An account-typed expression is a literal or a variable: arithmetic yields numbers and monetaries only.) *)
Inductive lkey := LKLit (a : account) | LKVar (name : N).
Definition lkey_eqb (k1 k2 : lkey) : bool :=
  match k1, k2 with
  | LKLit a, LKLit b => N.eqb a b
  | LKVar a, LKVar b => N.eqb a b
  | _, _ => false
  end.
Definition leaf_key (e : expr) : option lkey :=
  match e with ELitAccount a => Some (LKLit a) | EVar name => Some (LKVar name) | _ => None end.
Definition world_literal (e : expr) : bool :=
  match e with ELitAccount a => N.eqb a world | _ => false end.

Definition mem_key (k : lkey) (l : list lkey) : bool := existsb (lkey_eqb k) l.
Definition disjoint_keys (l1 l2 : list lkey) : bool := negb (existsb (fun k => mem_key k l2) l1).

(* ---- sources ----------------------------------------------------------------------------------------------------
   [src_unbounded s]: [s] can always deliver the whole amount (it ends in the literal [@world] or in an account
   with [allowing unbounded overdraft]); a [max] cap makes a source bounded; an ordered source is as unbounded as
   its last member.
   [emptied_keys s]: the accounts [s] takes everything from (a [max]-capped source empties nothing). *)
Fixpoint src_unbounded (s : source) : bool :=
  match s with
  | SAccount acc OvNone => world_literal acc
  | SAccount _ (OvSpecific _) => false
  | SAccount _ OvUnbounded => true
  | SMaxed _ _ => false
  | SInOrder l => last (map src_unbounded l) false
  end.

Fixpoint emptied_keys (s : source) : list lkey :=
  match s with
  | SAccount acc _ => match leaf_key acc with Some k => [k] | None => [] end
  | SMaxed _ _ => []
  | SInOrder l => flat_map emptied_keys l
  end.

Definition is_nil {A} (l : list A) : bool := match l with [] => true | _ => false end.

(* [all] = the send is a [send [ASSET *]]: such a send cannot draw on an unbounded source.
   account     : the account expression is account-typed; [@world] (the literal) carries no overdraft clause;
                 a bounded overdraft is a monetary
   max         : the cap is a monetary; below a cap the [all] restriction no longer applies
   { s1 … sn } : every member well-formed; only the last may be unbounded; no account emptied twice *)
Fixpoint wf_source (G : tenv) (all : bool) (s : source) : bool :=
  match s with
  | SAccount acc ov =>
      has_type G acc TAccount &&
      match ov with
      | OvNone => true
      | OvSpecific e => negb (world_literal acc) && has_type G e TMonetary
      | OvUnbounded => negb (world_literal acc)
      end &&
      negb (all && src_unbounded (SAccount acc ov))
  | SMaxed cap s' => wf_source G false s' && has_type G cap TMonetary
  | SInOrder srcs =>
      (fix members (l : list source) (seen : list lkey) : bool :=
         match l with
         | [] => true
         | s1 :: rest =>
             wf_source G all s1 &&
             (negb (src_unbounded s1) || is_nil rest) &&
             disjoint_keys (emptied_keys s1) seen &&
             members rest (emptied_keys s1 ++ seen)
         end) srcs []
  end.

(* ---- allotments -------------------------------------------------------------------------------------------------
   every portion is a valid literal, a portion-typed variable, or [remaining]; at most one [remaining];
   with S = the exact sum of the literal portions:  S <= 1;  S < 1 needs [remaining];
   S = 1 forbids [remaining] and variables. *)
Definition portion_ok (G : tenv) (p : aportion) : bool :=
  match p with
  | APConst (Some _) => true
  | APConst None => false
  | APVar name => match lookup G name with Some TPortion => true | _ => false end
  | APRemaining => true
  end.
Definition is_remaining (p : aportion) : bool := match p with APRemaining => true | _ => false end.
Definition is_pvar (p : aportion) : bool := match p with APVar _ => true | _ => false end.
Definition known_ratios (ps : list aportion) : list ratio :=
  flat_map (fun p => match p with APConst (Some r) => [r] | _ => [] end) ps.
Definition known_sum (ps : list aportion) : ratio := fold_right ratio_add ratio_zero (known_ratios ps).

Definition wf_allotment (G : tenv) (ps : list aportion) : bool :=
  forallb (portion_ok G) ps &&
  (length (filter is_remaining ps) <=? 1) &&
  (let total := known_sum ps in
   let rem := existsb is_remaining ps in
   let var := existsb is_pvar ps in
   negb (ratio_gt1 total) &&
   (negb (ratio_lt1 total) || rem) &&
   negb (ratio_eq1 total && (var || rem))).

(* ---- destinations ----------------------------------------------------------------------------------------------- *)
Fixpoint wf_dest (G : tenv) (d : dest) : bool :=
  match d with
  | DAccount e => has_type G e TAccount
  | DInOrder l rem =>
      forallb (fun x => has_type G (fst x) TMonetary &&
                        match snd x with Kept => true | KTo d' => wf_dest G d' end) l &&
      match rem with Kept => true | KTo d' => wf_dest G d' end
  | DAllot l =>
      wf_allotment G (map fst l) &&
      forallb (fun x => match snd x with Kept => true | KTo d' => wf_dest G d' end) l
  end.
Definition wf_kod (G : tenv) (k : kod) : bool := match k with Kept => true | KTo d => wf_dest G d end.

(* ---- statements ------------------------------------------------------------------------------------------------- *)
Definition wf_amount (G : tenv) (m : send_amount) : bool :=
  match m with SendMon e => has_type G e TMonetary | SendAll ae => has_type G ae TAsset end.

Definition wf_send_source (G : tenv) (m : send_amount) (src : vasource) : bool :=
  match m, src with
  | SendAll _, VSrc s => wf_source G true s
  | SendAll _, VSrcAllot _ => false                      (* [A *] cannot be split by an allotment *)
  | SendMon _, VSrc s => wf_source G false s
  | SendMon _, VSrcAllot l => wf_allotment G (map fst l) && forallb (wf_source G false) (map snd l)
  end.

Definition wf_stmt (G : tenv) (st : stmt) : bool :=
  match st with
  | StPrint e => well_typed G e
  | StFail => true
  | StTxMeta _ v => well_typed G v
  | StAccMeta acc _ v => well_typed G v && has_type G acc TAccount
  | StSave m acc => wf_amount G m && has_type G acc TAccount
  | StSend m src d => wf_amount G m && wf_send_source G m src && wf_dest G d
  end.

(* ---- the [vars] block ------------------------------------------------------------------------------------------
   names are distinct; the type is one of the six declarable ones; [meta(acc, key)] needs an account-typed [acc];
   [balance(acc, asset)] is only for [monetary] variables and needs an account and an asset.  The arguments are
   typed in the environment of the variables declared BEFORE. *)
Definition wf_origin (G : tenv) (t : vtype) (o : option origin) : bool :=
  match o with
  | None => true
  | Some (OMeta acc _) => has_type G acc TAccount
  | Some (OBalance acc ae) => vtype_eqb t TMonetary && has_type G acc TAccount && has_type G ae TAsset
  end.
Definition wf_var (G : tenv) (v : vardecl) : bool :=
  negb (declared G (vd_name v)) && declarable (vd_type v) && wf_origin G (vd_type v) (vd_orig v).

Fixpoint wf_vars (G : tenv) (vs : list vardecl) : option tenv :=
  match vs with
  | [] => Some G
  | v :: rest => if wf_var G v then wf_vars ((vd_name v, vd_type v) :: G) rest else None
  end.

Definition wf_script (sc : script) : bool :=
  match wf_vars [] (s_vars sc) with
  | Some G => forallb (wf_stmt G) (s_stmts sc)
  | None => false
  end.

Definition well_formed (sc : script) : Prop := wf_script sc = true.

(* ---- implementation limits --------------------------------------------------------------------------------------
   The compiler refuses more than 32 768 variables and more than 65 536 resources (constants, variables, monetary
   literals: addresses are 2 bytes).  These are not language rules; they are excluded by a size hypothesis.
   [*_allocs] counts the constants / variables / monetaries a construct can add to the table (an upper bound: equal
   constants are shared). *)
Fixpoint expr_allocs (e : expr) : nat :=
  match e with
  | ELitMonetary ae _ => S (expr_allocs ae)
  | EVar _ => 0
  | EAddSub _ l r => expr_allocs l + expr_allocs r
  | _ => 1
  end.
Fixpoint source_allocs (s : source) : nat :=
  match s with
  | SAccount acc ov => expr_allocs acc + match ov with OvSpecific e => expr_allocs e | _ => 1 end
  | SMaxed cap s' => source_allocs s' + expr_allocs cap + 3
  | SInOrder l => list_sum (map source_allocs l) + 1
  end.
Definition allotment_allocs (ps : list aportion) : nat := length ps + 1.
Fixpoint dest_allocs (d : dest) : nat :=
  match d with
  | DAccount e => expr_allocs e
  | DInOrder l rem =>
      list_sum (map (fun x => expr_allocs (fst x) + match snd x with Kept => 0 | KTo d' => dest_allocs d' end + 5) l) +
      match rem with Kept => 0 | KTo d' => dest_allocs d' end + 6
  | DAllot l =>
      allotment_allocs (map fst l) +
      list_sum (map (fun x => match snd x with Kept => 0 | KTo d' => dest_allocs d' end + 3) l) + 1
  end.
Definition kod_allocs (k : kod) : nat := match k with Kept => 0 | KTo d => dest_allocs d end.
Definition amount_allocs (m : send_amount) : nat := match m with SendMon e => expr_allocs e | SendAll ae => expr_allocs ae end.
Definition vasource_allocs (src : vasource) : nat :=
  match src with
  | VSrc s => source_allocs s + 3
  | VSrcAllot l => allotment_allocs (map fst l) + list_sum (map (fun s => source_allocs s + 4) (map snd l)) + 1
  end.
Definition stmt_allocs (st : stmt) : nat :=
  match st with
  | StPrint e => expr_allocs e
  | StFail => 0
  | StTxMeta _ v => expr_allocs v + 1
  | StAccMeta acc _ v => expr_allocs v + 1 + expr_allocs acc
  | StSave m acc => amount_allocs m + expr_allocs acc
  | StSend m src d => 2 * amount_allocs m + vasource_allocs src + dest_allocs d
  end.
Definition var_allocs (v : vardecl) : nat :=
  match vd_orig v with
  | None => 1
  | Some (OMeta acc _) => expr_allocs acc + 1
  | Some (OBalance acc ae) => expr_allocs acc + expr_allocs ae + 1
  end.
Definition script_allocs (sc : script) : nat :=
  list_sum (map var_allocs (s_vars sc)) + list_sum (map stmt_allocs (s_stmts sc)).

Definition within_limits (sc : script) : Prop :=
  (N.of_nat (length (s_vars sc)) <= max_vars)%N /\ (N.of_nat (script_allocs sc) <= max_resources)%N.
