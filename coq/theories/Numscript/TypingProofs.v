(* M1 proofs — the compiler accepts exactly the well-formed scripts (Typing.v).

   Architecture.  [spec m cs n ok Q] is a two-sided Hoare triple for one action [m] of the compiler's state monad
   started in state [cs]:
     (sound)    if [m cs] succeeds then the declarative premise [ok] holds, the result satisfies [Q], and the new
                state extends the old one by at most [n] resources, with the same variable index ([ext]);
     (complete) if [ok] holds and there is room for [n] more resources then [m cs] succeeds.
   [spec_bind] composes them; one lemma per construct walks through the compiler's code once and yields both
   directions.  The link between the typing environment [G] and the compiler state is [inv G cs].

   The only place where resource ADDRESSES matter to acceptance is the "already emptied" check of ordered sources;
   [addr_of cs k j] says address [j] is where the compiler keeps leaf [k] (a literal account: the first equal constant
   of the table; a variable: its entry of the variable index).  It is a partial injection, stable when the table
   grows, so the compiler's comparison of addresses is the comparison of leaves ([disjoint_agree]). *)
From Coq Require Import Lia List NArith ZArith Bool.
From FL Require Import Numscript.CompileCorrectStmt Numscript.Run.
From FL Require Export Numscript.Typing.
Import ListNotations.
Local Open Scope nat_scope.

(* ---- expressions: the relation and the function agree ------------------------------------------------------------ *)
Lemma vtype_eqb_refl : forall t, vtype_eqb t t = true.
Proof. destruct t; reflexivity. Qed.
Lemma vtype_eqb_iff : forall a b, vtype_eqb a b = true <-> a = b.
Proof. split; [apply vtype_eqb_eq|intros ->; apply vtype_eqb_refl]. Qed.

Lemma expr_type_iff : forall G e t, expr_type G e t <-> type_expr G e = Some t.
Proof.
  intros G e t. split.
  - induction 1; cbn [type_expr]; try reflexivity; try assumption.
    + rewrite IHexpr_type. reflexivity.
    + rewrite IHexpr_type1, IHexpr_type2. reflexivity.
    + rewrite IHexpr_type1, IHexpr_type2. reflexivity.
  - revert t. induction e as [a|a|n|s|p|ae IH amt|name|b l IHl r IHr]; intros t H; cbn [type_expr] in H.
    + injection H as <-. constructor.
    + injection H as <-. constructor.
    + injection H as <-. constructor.
    + injection H as <-. constructor.
    + destruct p; [injection H as <-; constructor|discriminate].
    + destruct (type_expr G ae) as [[]|]; try discriminate. injection H as <-. constructor. apply IH. reflexivity.
    + constructor. exact H.
    + destruct (type_expr G l) as [[]|]; try discriminate; destruct (type_expr G r) as [[]|]; try discriminate;
        injection H as <-; [apply T_arith_number|apply T_arith_monetary]; auto.
Qed.

Lemma has_type_iff : forall G e t, has_type G e t = true <-> type_expr G e = Some t.
Proof.
  intros G e t. unfold has_type. destruct (type_expr G e) as [t'|]; [|split; discriminate].
  rewrite vtype_eqb_iff. split; congruence.
Qed.
Lemma well_typed_iff : forall G e, well_typed G e = true <-> type_expr G e <> None.
Proof. intros G e. unfold well_typed. destruct (type_expr G e); split; congruence. Qed.

(* an account-typed expression is a leaf *)
Lemma account_leaf : forall G e, type_expr G e = Some TAccount -> leaf_key e <> None.
Proof.
  intros G e H. destruct e; cbn [leaf_key]; try discriminate; cbn [type_expr] in H.
  - destruct p; discriminate.
  - destruct (type_expr G e) as [[]|]; discriminate.
  - destruct (type_expr G e1) as [[]|]; try discriminate; destruct (type_expr G e2) as [[]|]; discriminate.
Qed.

(* ---- the two-sided triple ----------------------------------------------------------------------------------------- *)
Definition room (cs : cstate) (n : nat) : Prop := (N.of_nat (length (c_res cs) + n) <= max_resources)%N.

Record ext (cs cs' : cstate) (n : nat) : Prop := {
  ext_res : prefix (c_res cs) (c_res cs');
  ext_vars : c_vars cs' = c_vars cs;
  ext_len : length (c_res cs') <= length (c_res cs) + n
}.

Definition spec {A} (m : comp A) (cs : cstate) (n : nat) (ok : Prop) (Q : A -> cstate -> Prop) : Prop :=
  (forall a cs', m cs = Some (a, cs') -> ok /\ Q a cs' /\ ext cs cs' n) /\
  (ok -> room cs n -> exists a cs', m cs = Some (a, cs')).

Lemma ext_refl : forall cs n, ext cs cs n.
Proof. intros. constructor; [apply prefix_refl|reflexivity|lia]. Qed.
Lemma ext_trans : forall a b c n1 n2, ext a b n1 -> ext b c n2 -> ext a c (n1 + n2).
Proof.
  intros a b c n1 n2 [R1 V1 L1] [R2 V2 L2]. constructor; [eapply prefix_trans; eassumption|congruence|lia].
Qed.
Lemma ext_le : forall a b n n', ext a b n -> n <= n' -> ext a b n'.
Proof. intros a b n n' [R V L] H. constructor; auto. lia. Qed.
Lemma room_le : forall cs n n', room cs n' -> n <= n' -> room cs n.
Proof. unfold room. intros. lia. Qed.
Lemma room_ext : forall cs cs1 n n1 n2, room cs n -> ext cs cs1 n1 -> n1 + n2 <= n -> room cs1 n2.
Proof. unfold room. intros cs cs1 n n1 n2 R [_ _ L] H. lia. Qed.

Lemma spec_bind : forall A B (m : comp A) (f : A -> comp B) cs n n1 (ok ok1 : Prop) Q1 Q,
  spec m cs n1 ok1 Q1 -> n1 <= n -> (ok -> ok1) ->
  (forall a cs1, ok1 -> Q1 a cs1 -> ext cs cs1 n1 -> spec (f a) cs1 (n - n1) ok Q) ->
  spec (cbind m f) cs n ok Q.
Proof.
  intros A B m f cs n n1 ok ok1 Q1 Q [S1 C1] Le Imp K. split.
  - intros b cs' H. apply cbind_inv in H as (a & cs1 & H1 & H2).
    destruct (S1 _ _ H1) as (O1 & q1 & E1). destruct (K a cs1 O1 q1 E1) as [S2 _].
    destruct (S2 _ _ H2) as (O & q & E2). split; [assumption|]. split; [assumption|].
    eapply ext_le; [eapply ext_trans; eassumption|lia].
  - intros O R. destruct C1 as (a & cs1 & H1); [auto|eapply room_le; eassumption|].
    destruct (S1 _ _ H1) as (O1 & q1 & E1). destruct (K a cs1 O1 q1 E1) as [_ C2].
    destruct C2 as (b & cs' & H2); [assumption|eapply room_ext; [exact R|exact E1|lia]|].
    exists b, cs'. unfold cbind. rewrite H1. exact H2.
Qed.

(* the frequent case: the first action has no premise *)
Lemma spec_bind_T : forall A B (m : comp A) (f : A -> comp B) cs n n1 (ok : Prop) Q1 Q,
  spec m cs n1 True Q1 -> n1 <= n ->
  (forall a cs1, Q1 a cs1 -> ext cs cs1 n1 -> spec (f a) cs1 (n - n1) ok Q) ->
  spec (cbind m f) cs n ok Q.
Proof. intros. eapply spec_bind; eauto. Qed.

Lemma spec_ret : forall A (a : A) cs n (ok : Prop) (Q : A -> cstate -> Prop), ok -> Q a cs -> spec (cret a) cs n ok Q.
Proof.
  intros A a cs n ok Q O q. split.
  - intros b cs' H. apply cret_inv in H as [-> ->]. split; [assumption|]. split; [assumption|apply ext_refl].
  - intros _ _. exists a, cs. reflexivity.
Qed.
Lemma spec_fail : forall A cs n (ok : Prop) (Q : A -> cstate -> Prop), (ok -> False) -> spec cfail cs n ok Q.
Proof. intros A cs n ok Q F. split; [intros a cs' H; discriminate|intros O; destruct (F O)]. Qed.
Lemma spec_le : forall A (m : comp A) cs n n' ok Q, spec m cs n ok Q -> n <= n' -> spec m cs n' ok Q.
Proof.
  intros A m cs n n' ok Q [S C] Le. split.
  - intros a cs' H. destruct (S _ _ H) as (O & q & E). split; [assumption|]. split; [assumption|eapply ext_le; eassumption].
  - intros O R. apply C; [assumption|eapply room_le; eassumption].
Qed.
Lemma spec_conseq : forall A (m : comp A) cs n n' (ok ok' : Prop) (Q Q' : A -> cstate -> Prop),
  spec m cs n ok Q -> n <= n' -> (ok' -> ok) ->
  (forall a cs', ok -> Q a cs' -> ext cs cs' n -> ok' /\ Q' a cs') ->
  spec m cs n' ok' Q'.
Proof.
  intros A m cs n n' ok ok' Q Q' [S C] Le I1 I2. split.
  - intros a cs' H. destruct (S _ _ H) as (O & q & E). destruct (I2 _ _ O q E) as [O' q'].
    split; [assumption|]. split; [assumption|eapply ext_le; eassumption].
  - intros O R. apply C; [auto|eapply room_le; eassumption].
Qed.
Lemma spec_eq : forall A (m m' : comp A) cs n ok Q, m cs = m' cs -> spec m' cs n ok Q -> spec m cs n ok Q.
Proof. intros A m m' cs n ok Q E S. unfold spec in *. rewrite E. exact S. Qed.

(* ---- primitive actions ----------------------------------------------------------------------------------------------- *)
Definition any {A} : A -> cstate -> Prop := fun _ _ => True.

Lemma spec_guard : forall b cs, spec (guard b) cs 0 (b = true) any.
Proof.
  intros b cs. split.
  - intros u cs' H. apply guard_inv in H as [-> ->]. split; [reflexivity|]. split; [exact I|apply ext_refl].
  - intros -> _. exists tt, cs. reflexivity.
Qed.
Lemma spec_emit : forall i cs, spec (emit i) cs 0 True any.
Proof.
  intros i cs. split.
  - intros u cs' H. unfold emit in H. injection H as _ <-. split; [exact I|]. split; [exact I|].
    constructor; cbn; [apply prefix_refl|reflexivity|lia].
  - intros _ _. eexists _, _. reflexivity.
Qed.
Lemma spec_emit_op : forall o cs, spec (emit_op o) cs 0 True any.
Proof. intros. apply spec_emit. Qed.
Lemma spec_push_addr : forall a cs, spec (push_addr a) cs 0 True any.
Proof. intros. apply spec_emit. Qed.
Lemma spec_emit_all : forall l cs, spec (emit_all l) cs 0 True any.
Proof.
  induction l as [|i l IH]; intros cs; cbn [emit_all].
  - apply spec_ret; exact I.
  - eapply spec_bind_T; [apply spec_emit|lia|]. intros _ cs1 _ _. apply IH.
Qed.
Lemma spec_opt_emit : forall (b : bool) i cs, spec (if b then emit i else cret tt) cs 0 True any.
Proof. intros [] i cs; [apply spec_emit|apply spec_ret; exact I]. Qed.
Lemma spec_set_needed : forall accounts addr cs, spec (set_needed accounts addr) cs 0 True any.
Proof.
  intros accounts addr cs. split.
  - intros u cs' H. unfold set_needed in H. injection H as _ <-. split; [exact I|]. split; [exact I|].
    constructor; cbn; [apply prefix_refl|reflexivity|lia].
  - intros _ _. eexists _, _. reflexivity.
Qed.
Lemma spec_add_sources : forall accounts cs, spec (add_sources accounts) cs 0 True any.
Proof.
  intros accounts cs. split.
  - intros u cs' H. unfold add_sources in H. injection H as _ <-. split; [exact I|]. split; [exact I|].
    constructor; cbn; [apply prefix_refl|reflexivity|lia].
  - intros _ _. eexists _, _. reflexivity.
Qed.
Lemma spec_read : forall A (g : cstate -> A) cs, spec (fun s => Some (g s, s)) cs 0 True (fun a cs' => a = g cs /\ cs' = cs).
Proof.
  intros A g cs. split.
  - intros a cs' H. injection H as <- <-. split; [exact I|]. split; [auto|apply ext_refl].
  - intros _ _. eexists _, _. reflexivity.
Qed.

Lemma spec_append_resource : forall r cs,
  spec (append_resource r) cs 1 True (fun j cs' => j = length (c_res cs) /\ c_res cs' = c_res cs ++ [r]).
Proof.
  intros r cs. unfold spec, append_resource.
  destruct (N.leb max_resources (N.of_nat (length (c_res cs)))) eqn:L.
  - split; [intros a cs' H; discriminate|]. intros _ R. apply N.leb_le in L. unfold room in R. lia.
  - split.
    + intros j cs' H. injection H as <- <-. split; [exact I|]. split; [cbn; auto|].
      constructor; cbn; [apply prefix_app|reflexivity|rewrite app_length; cbn; lia].
    + intros _ _. eexists _, _. reflexivity.
Qed.

Lemma find_const_app : forall rs t v i j, find_const rs v i = Some j -> find_const (rs ++ t) v i = Some j.
Proof.
  induction rs as [|r rs IH]; intros t v i j H; [discriminate|]. cbn [find_const app] in *.
  destruct r; auto. destruct (const_eqb v0 v); auto.
Qed.
Lemma find_const_app_none : forall rs t v i, find_const rs v i = None -> find_const (rs ++ t) v i = find_const t v (i + length rs).
Proof.
  induction rs as [|r rs IH]; intros t v i H; cbn [find_const app length] in *.
  - rewrite Nat.add_0_r. reflexivity.
  - replace (i + S (length rs)) with (S i + length rs) by lia.
    destruct r; auto. destruct (const_eqb v0 v); [discriminate|auto].
Qed.

Lemma spec_alloc_const : forall v cs,
  spec (alloc_const v) cs 1 True (fun j cs' => const_eqb v v = true -> find_const (c_res cs') v 0 = Some j).
Proof.
  intros v cs. unfold alloc_const. apply spec_eq with (m' := fun s =>
    match find_const (c_res s) v 0 with Some i => Some (i, s) | None => append_resource (RConst v) s end); [reflexivity|].
  destruct (find_const (c_res cs) v 0) as [i|] eqn:F.
  - split.
    + intros j cs' H. rewrite F in H. injection H as <- <-. split; [exact I|]. split; [auto|apply ext_refl].
    + intros _ _. rewrite F. eexists _, _. reflexivity.
  - eapply spec_eq with (m' := append_resource (RConst v)); [cbv beta; rewrite F; reflexivity|].
    eapply spec_conseq; [apply spec_append_resource|lia|auto|].
    intros j cs' _ [-> E] _. split; [exact I|]. intros Rf. rewrite E, find_const_app_none by assumption.
    cbn [find_const]. rewrite Rf. reflexivity.
Qed.

Lemma spec_alloc_nonconst : forall r cs, (forall v, r <> RConst v) ->
  spec (alloc r) cs 1 True (fun j cs' => j = length (c_res cs) /\ c_res cs' = c_res cs ++ [r]).
Proof.
  intros r cs NC. eapply spec_eq; [|apply spec_append_resource].
  unfold alloc. destruct r; try reflexivity. destruct (NC v eq_refl).
Qed.

Lemma spec_push_integer : forall n cs, spec (push_integer n) cs 1 True any.
Proof.
  intros n cs. unfold push_integer. eapply spec_bind_T; [apply spec_alloc_const|lia|].
  intros a cs1 _ _. eapply spec_le; [apply spec_push_addr|lia].
Qed.
Lemma spec_bump : forall n cs, spec (bump n) cs 1 True any.
Proof.
  intros n cs. unfold bump. eapply spec_bind_T; [apply spec_push_integer|lia|].
  intros a cs1 _ _. eapply spec_le; [apply spec_emit_op|lia].
Qed.

Lemma spec_expect : forall t r cs, spec (expect t r) cs 0 (fst r = t /\ snd r <> None) (fun a _ => snd r = Some a).
Proof.
  intros t [ty [a|]] cs; cbn [expect fst snd].
  - destruct (vtype_eqb ty t) eqn:E.
    + apply vtype_eqb_eq in E. apply spec_ret; [split; [assumption|discriminate]|reflexivity].
    + apply spec_fail. intros [-> _]. rewrite vtype_eqb_refl in E. discriminate.
  - apply spec_fail. intros [_ F]. apply F. reflexivity.
Qed.
Lemma spec_expect_type : forall t r cs, spec (expect_type t r) cs 0 (fst r = t) any.
Proof.
  intros t r cs. unfold expect_type. eapply spec_conseq; [apply spec_guard|lia| |].
  - intros ->. apply vtype_eqb_refl.
  - intros u cs' E _ _. apply vtype_eqb_eq in E. split; [assumption|exact I].
Qed.

(* ---- typing environment vs compiler state ---------------------------------------------------------------------------- *)
Record inv (G : tenv) (cs : cstate) : Prop := {
  inv_dom : forall name, assoc_N name (c_vars cs) = None -> lookup G name = None;
  inv_typ : forall name i, assoc_N name (c_vars cs) = Some i ->
            exists r, nth_error (c_res cs) i = Some r /\ is_var_res r = true /\ lookup G name = Some (res_type r);
  inv_inj : forall n1 n2 i, assoc_N n1 (c_vars cs) = Some i -> assoc_N n2 (c_vars cs) = Some i -> n1 = n2
}.

Lemma inv_ext : forall G cs cs' n, inv G cs -> ext cs cs' n -> inv G cs'.
Proof.
  intros G cs cs' n [D T J] [R V _]. constructor; rewrite V; auto.
  intros name i A. destruct (T _ _ A) as (r & N1 & X). exists r. split; [eapply prefix_nth; eassumption|assumption].
Qed.

(* where the compiler keeps a source leaf *)
Definition addr_of (cs : cstate) (k : lkey) (j : nat) : Prop :=
  match k with
  | LKLit a => find_const (c_res cs) (VAccount a) 0 = Some j
  | LKVar name => assoc_N name (c_vars cs) = Some j
  end.

Lemma addr_of_ext : forall cs cs' n k j, ext cs cs' n -> addr_of cs k j -> addr_of cs' k j.
Proof.
  intros cs cs' n k j [[t R] V _] H. destruct k; cbn [addr_of] in *.
  - rewrite R. apply find_const_app. exact H.
  - rewrite V. exact H.
Qed.
Lemma addr_of_fun : forall cs k j1 j2, addr_of cs k j1 -> addr_of cs k j2 -> j1 = j2.
Proof. intros cs [a|name] j1 j2 H1 H2; cbn [addr_of] in *; congruence. Qed.

Lemma addr_of_lit : forall cs a j, addr_of cs (LKLit a) j -> nth_error (c_res cs) j = Some (RConst (VAccount a)).
Proof.
  intros cs a j H. cbn [addr_of] in H. apply find_const_sound in H as (c & N1 & E & _). rewrite Nat.sub_0_r in N1.
  destruct c; cbn [const_eqb] in E; try discriminate. apply N.eqb_eq in E. subst. exact N1.
Qed.
Lemma addr_of_inj : forall G cs k1 k2 j, inv G cs -> addr_of cs k1 j -> addr_of cs k2 j -> k1 = k2.
Proof.
  intros G cs k1 k2 j HI H1 H2. destruct k1 as [a|n1], k2 as [b|n2].
  - apply addr_of_lit in H1, H2. congruence.
  - apply addr_of_lit in H1. destruct (inv_typ _ _ HI _ _ H2) as (r & N1 & V & _).
    rewrite H1 in N1. injection N1 as <-. discriminate.
  - apply addr_of_lit in H2. destruct (inv_typ _ _ HI _ _ H1) as (r & N1 & V & _).
    rewrite H2 in N1. injection N1 as <-. discriminate.
  - f_equal. eapply inv_inj; eassumption.
Qed.

(* the compiler's test "is this address the constant @world" is the syntactic test "is this leaf the literal @world" *)
Lemma world_at_leaf : forall G cs e k j, inv G cs -> leaf_key e = Some k -> addr_of cs k j ->
  world_at (c_res cs) j = world_literal e.
Proof.
  intros G cs e k j HI L H. unfold world_at. destruct e; try discriminate; cbn [leaf_key] in L; injection L as <-.
  - apply addr_of_lit in H. rewrite H. reflexivity.
  - destruct (inv_typ _ _ HI _ _ H) as (r & N1 & V & _). rewrite N1. destruct r; try discriminate; reflexivity.
Qed.

Lemma spec_is_world : forall a cs, spec (is_world a) cs 0 True (fun w cs' => w = world_at (c_res cs) a).
Proof.
  intros a cs. split.
  - intros w cs' H. apply is_world_ok in H as [-> ->]. split; [exact I|]. split; [reflexivity|apply ext_refl].
  - intros _ _. eexists _, _. reflexivity.
Qed.

(* bookkeeping in continuations: carry the invariant and the address facts to the current state *)
Ltac carry_inv :=
  repeat match goal with
  | HI : inv ?G ?c, E : ext ?c ?c' _ |- _ =>
      lazymatch goal with
      | _ : inv G c' |- _ => fail
      | _ => pose proof (inv_ext _ _ _ _ HI E)
      end
  end.
Ltac carry_addr :=
  repeat match goal with
  | H : addr_of ?c ?k ?j, E : ext ?c ?c' _ |- _ => apply (addr_of_ext _ _ _ _ _ E) in H
  end.

(* ---- variables and expressions ---------------------------------------------------------------------------------------- *)
Lemma spec_visit_variable : forall G name push cs, inv G cs ->
  spec (visit_variable name push) cs 0 (lookup G name <> None)
       (fun r cs' => lookup G name = Some (fst r) /\ assoc_N name (c_vars cs') = Some (snd r)).
Proof.
  intros G name push cs HI. unfold spec, visit_variable.
  destruct (assoc_N name (c_vars cs)) as [idx|] eqn:A.
  - destruct (inv_typ _ _ HI _ _ A) as (r & N1 & _ & L). rewrite N1, L.
    assert (E : exists cs', ((if push then push_addr idx else cret tt);; cret (res_type r, idx)) cs = Some ((res_type r, idx), cs') /\
                            ext cs cs' 0).
    { destruct push; eexists; (split; [reflexivity|]); [|apply ext_refl].
      constructor; cbn; [apply prefix_refl|reflexivity|lia]. }
    destruct E as (cs1 & E & X). rewrite E. split.
    + intros a cs' H. injection H as <- <-. split; [discriminate|]. split; [|assumption]. cbn [fst snd].
      split; [reflexivity|]. rewrite (ext_vars _ _ _ X). exact A.
    + intros _ _. eexists _, _. reflexivity.
  - rewrite (inv_dom _ _ HI _ A). split; [intros a cs' H; discriminate|]. intros F. destruct F. reflexivity.
Qed.

Definition expr_post (G : tenv) (e : expr) (r : vtype * option nat) (cs' : cstate) : Prop :=
  type_expr G e = Some (fst r) /\
  (fst r <> TNumber -> snd r <> None) /\
  (forall k, leaf_key e = Some k -> exists j, snd r = Some j /\ addr_of cs' k j).

Lemma spec_lit_const : forall v push cs,
  spec (lit_const v push) cs 1 True
       (fun r cs' => fst r = type_of v /\ exists j, snd r = Some j /\ (const_eqb v v = true -> find_const (c_res cs') v 0 = Some j)).
Proof.
  intros v push cs. unfold lit_const. eapply spec_bind_T; [apply spec_alloc_const|lia|].
  intros a cs1 F E1. eapply spec_bind_T; [apply spec_opt_emit|lia|]. intros _ cs2 _ E2.
  apply spec_ret; [exact I|]. cbn [fst snd]. split; [reflexivity|]. exists a. split; [reflexivity|].
  intros Rf. destruct E2 as [[t R] _ _]. rewrite R. apply find_const_app. auto.
Qed.

Ltac lit_case G :=
  eapply spec_conseq; [apply spec_lit_const|cbn [expr_allocs]; lia|auto|];
  let r := fresh "r" in let cs' := fresh "cs'" in let T := fresh "T" in let j := fresh "j" in
  let Ej := fresh "Ej" in let F := fresh "F" in
  intros r cs' _ (T & j & Ej & F) _; split; [reflexivity|];
  unfold expr_post; rewrite T, Ej; cbn [type_expr type_of leaf_key snd];
  split; [reflexivity|]; split; [discriminate|]; try (intros k Hk; discriminate).

Lemma spec_visit_expr : forall G e push cs, inv G cs ->
  spec (visit_expr e push) cs (expr_allocs e) (well_typed G e = true) (expr_post G e).
Proof.
  intros G e. induction e as [a|a|n|s|p|ae IH amt|name|b l IHl r IHr]; intros push cs HI; cbn [visit_expr].
  - lit_case G. intros k Hk. injection Hk as <-. exists j. split; [reflexivity|]. apply F. cbn. apply N.eqb_refl.
  - lit_case G.
  - lit_case G.
  - lit_case G.
  - destruct p as [q|]; [lit_case G|]. apply spec_fail. discriminate.
  - cbn [expr_allocs].
    eapply spec_bind; [apply IH; assumption|lia| |].
    { unfold well_typed. cbn [type_expr]. destruct (type_expr G ae) as [[]|]; congruence. }
    intros [ty oa] cs1 _ (Ty & Ad & _) E1. cbn [fst snd] in Ty, Ad. carry_inv.
    assert (Bad : ty <> TAsset -> well_typed G (ELitMonetary ae amt) = true -> False).
    { intros NE. unfold well_typed. cbn [type_expr]. rewrite Ty. destruct ty; congruence. }
    destruct ty; try (destruct oa; apply spec_fail; apply Bad; discriminate).
    destruct oa as [aa|]; [|exfalso; apply Ad; [discriminate|reflexivity]].
    eapply spec_bind_T; [apply spec_read|lia|]. intros found cs2 [_ ->] _.
    eapply spec_bind_T with (n1 := 1) (Q1 := any).
    { destruct found; [eapply spec_ret; exact I|].
      eapply spec_conseq; [apply spec_alloc_nonconst; discriminate|lia|auto|]. intros; split; exact I. }
    { lia. }
    intros ma cs3 _ E3. eapply spec_bind_T; [apply spec_opt_emit|lia|]. intros _ cs4 _ E4.
    apply spec_ret.
    + unfold well_typed. cbn [type_expr]. rewrite Ty. reflexivity.
    + unfold expr_post. cbn [type_expr fst snd leaf_key]. rewrite Ty. split; [reflexivity|]. split; [discriminate|].
      intros k Hk; discriminate.
  - cbn [expr_allocs]. eapply spec_bind; [apply spec_visit_variable; eassumption|lia| |].
    { unfold well_typed. cbn [type_expr]. destruct (lookup G name); congruence. }
    intros [ty idx] cs1 _ [Ty Ad] E1. cbn [fst snd] in Ty, Ad.
    apply spec_ret.
    + unfold well_typed. cbn [type_expr]. rewrite Ty. reflexivity.
    + unfold expr_post. cbn [type_expr fst snd leaf_key]. split; [assumption|]. split; [discriminate|].
      intros k Hk. injection Hk as <-. exists idx. split; [reflexivity|exact Ad].
  - cbn [expr_allocs]. eapply spec_bind; [apply IHl; assumption|lia| |].
    { unfold well_typed. cbn [type_expr]. destruct (type_expr G l) as [[]|]; congruence. }
    intros [lt la] cs1 _ (Tl & Al & _) E1. cbn [fst snd] in Tl, Al. carry_inv.
    assert (Bad : lt <> TNumber -> lt <> TMonetary -> well_typed G (EAddSub b l r) = true -> False).
    { intros N1 N2. unfold well_typed. cbn [type_expr]. rewrite Tl. destruct lt; congruence. }
    destruct lt; try (apply spec_fail; apply Bad; discriminate).
    + eapply spec_bind; [apply IHr; eassumption|lia| |].
      { unfold well_typed. cbn [type_expr]. rewrite Tl. destruct (type_expr G r) as [[]|]; cbn; congruence. }
      intros [rt ra] cs2 _ (Tr & _ & _) E2. cbn [fst snd] in Tr.
      eapply spec_bind; [apply spec_guard|lia| |].
      { unfold well_typed. cbn [type_expr]. rewrite Tl, Tr. destruct rt; cbn; congruence. }
      intros _ cs3 G3 _ E3. apply vtype_eqb_eq in G3. subst rt.
      eapply spec_bind_T; [apply spec_opt_emit|lia|]. intros _ cs4 _ E4.
      apply spec_ret.
      * unfold well_typed. cbn [type_expr]. rewrite Tl, Tr. reflexivity.
      * unfold expr_post. cbn [type_expr fst snd leaf_key]. rewrite Tl, Tr. split; [reflexivity|].
        split; [congruence|]. intros k Hk; discriminate.
    + eapply spec_bind; [apply IHr; eassumption|lia| |].
      { unfold well_typed. cbn [type_expr]. rewrite Tl. destruct (type_expr G r) as [[]|]; cbn; congruence. }
      intros [rt ra] cs2 _ (Tr & _ & _) E2. cbn [fst snd] in Tr.
      eapply spec_bind; [apply spec_guard|lia| |].
      { unfold well_typed. cbn [type_expr]. rewrite Tl, Tr. destruct rt; cbn; congruence. }
      intros _ cs3 G3 _ E3. apply vtype_eqb_eq in G3. subst rt.
      eapply spec_bind_T; [apply spec_opt_emit|lia|]. intros _ cs4 _ E4.
      apply spec_ret.
      * unfold well_typed. cbn [type_expr]. rewrite Tl, Tr. reflexivity.
      * unfold expr_post. cbn [type_expr fst snd leaf_key]. rewrite Tl, Tr. split; [reflexivity|].
        split; [intros _; apply Al; discriminate|]. intros k Hk; discriminate.
Qed.

(* ---- address sets vs leaf lists ------------------------------------------------------------------------------------------ *)
Definition is_some {A} (o : option A) : bool := match o with Some _ => true | None => false end.

Lemma set_insert_in_iff : forall x y l, In x (set_insert y l) <-> x = y \/ In x l.
Proof.
  intros x y l. split; [apply set_insert_in|].
  induction l as [|z l IH]; cbn [set_insert]; intros H.
  - destruct H as [->|[]]. left; reflexivity.
  - destruct (Nat.ltb y z); [destruct H as [->|H]; [left; reflexivity|right; assumption]|].
    destruct (Nat.eqb y z) eqn:E.
    + apply Nat.eqb_eq in E. subst z. destruct H as [->|H]; [left; reflexivity|assumption].
    + destruct H as [->|[->|H]]; [right; apply IH; left; reflexivity|left; reflexivity|right; apply IH; right; assumption].
Qed.
Lemma set_union_in_iff : forall x a b, In x (set_union a b) <-> In x a \/ In x b.
Proof.
  intros x a b. split; [apply set_union_in|].
  induction a as [|y a IH]; cbn [set_union fold_right]; intros H.
  - destruct H as [[]|H]. exact H.
  - apply set_insert_in_iff. destruct H as [[->|H]|H]; [left; reflexivity|right; apply IH; left; assumption|right; apply IH; right; assumption].
Qed.
Lemma set_mem_in : forall x l, set_mem x l = true <-> In x l.
Proof.
  intros x l. unfold set_mem. rewrite existsb_exists. split.
  - intros (y & Hy & E). apply Nat.eqb_eq in E. subst; assumption.
  - intros H. exists x. split; [assumption|apply Nat.eqb_refl].
Qed.
Lemma lkey_eqb_iff : forall a b, lkey_eqb a b = true <-> a = b.
Proof.
  intros [a|a] [b|b]; cbn [lkey_eqb]; try (split; discriminate); rewrite N.eqb_eq; split; congruence.
Qed.
Lemma mem_key_in : forall k l, mem_key k l = true <-> In k l.
Proof.
  intros k l. unfold mem_key. rewrite existsb_exists. split.
  - intros (y & Hy & E). apply lkey_eqb_iff in E. subst; assumption.
  - intros H. exists k. split; [assumption|apply lkey_eqb_iff; reflexivity].
Qed.

Definition keys_rel (cs : cstate) (ks : list lkey) (js : list nat) : Prop :=
  (forall j, In j js -> exists k, In k ks /\ addr_of cs k j) /\
  (forall k, In k ks -> exists j, In j js /\ addr_of cs k j).

Lemma keys_rel_nil : forall cs, keys_rel cs [] [].
Proof. intros cs. split; intros x [] . Qed.
Lemma keys_rel_single : forall cs k j, addr_of cs k j -> keys_rel cs [k] [j].
Proof.
  intros cs k j H. split.
  - intros j' [<-|[]]. exists k. split; [left; reflexivity|assumption].
  - intros k' [<-|[]]. exists j. split; [left; reflexivity|assumption].
Qed.
Lemma keys_rel_ext : forall cs cs' n ks js, ext cs cs' n -> keys_rel cs ks js -> keys_rel cs' ks js.
Proof.
  intros cs cs' n ks js E [A B]. split.
  - intros j Hj. destruct (A _ Hj) as (k & Hk & Ad). exists k. split; [assumption|eapply addr_of_ext; eassumption].
  - intros k Hk. destruct (B _ Hk) as (j & Hj & Ad). exists j. split; [assumption|eapply addr_of_ext; eassumption].
Qed.
Lemma keys_rel_union : forall cs k1 j1 k2 j2, keys_rel cs k1 j1 -> keys_rel cs k2 j2 -> keys_rel cs (k1 ++ k2) (set_union j1 j2).
Proof.
  intros cs k1 j1 k2 j2 [A1 B1] [A2 B2]. split.
  - intros j Hj. apply set_union_in_iff in Hj as [Hj|Hj].
    + destruct (A1 _ Hj) as (k & Hk & Ad). exists k. split; [apply in_or_app; left; assumption|assumption].
    + destruct (A2 _ Hj) as (k & Hk & Ad). exists k. split; [apply in_or_app; right; assumption|assumption].
  - intros k Hk. apply in_app_or in Hk as [Hk|Hk].
    + destruct (B1 _ Hk) as (j & Hj & Ad). exists j. split; [apply set_union_in_iff; left; assumption|assumption].
    + destruct (B2 _ Hk) as (j & Hj & Ad). exists j. split; [apply set_union_in_iff; right; assumption|assumption].
Qed.
Lemma keys_rel_perm : forall cs ks ks' js, (forall k, In k ks <-> In k ks') -> keys_rel cs ks js -> keys_rel cs ks' js.
Proof.
  intros cs ks ks' js P [A B]. split.
  - intros j Hj. destruct (A _ Hj) as (k & Hk & Ad). exists k. split; [apply P; assumption|assumption].
  - intros k Hk. apply P in Hk. auto.
Qed.

(* the compiler's "already emptied" test on addresses is the disjointness of the leaf lists *)
Lemma disjoint_agree : forall G cs ks1 js1 ks2 js2, inv G cs -> keys_rel cs ks1 js1 -> keys_rel cs ks2 js2 ->
  negb (existsb (fun j => set_mem j js2) js1) = disjoint_keys ks1 ks2.
Proof.
  intros G cs ks1 js1 ks2 js2 HI [A1 B1] [A2 B2]. unfold disjoint_keys. f_equal.
  apply eq_iff_eq_true. rewrite !existsb_exists. split.
  - intros (j & Hj & M). apply set_mem_in in M.
    destruct (A1 _ Hj) as (k1 & Hk1 & Ad1). destruct (A2 _ M) as (k2 & Hk2 & Ad2).
    assert (k1 = k2) by (eapply addr_of_inj; eassumption). subst k2.
    exists k1. split; [assumption|apply mem_key_in; assumption].
  - intros (k & Hk & M). apply mem_key_in in M.
    destruct (B1 _ Hk) as (j1 & Hj1 & Ad1). destruct (B2 _ M) as (j2 & Hj2 & Ad2).
    assert (j1 = j2) by (eapply addr_of_fun; eassumption). subst j2.
    exists j1. split; [assumption|apply set_mem_in; assumption].
Qed.

(* ---- sources ------------------------------------------------------------------------------------------------------------------ *)
Definition source_post (s : source) (r : src_result) (cs' : cstate) : Prop :=
  keys_rel cs' (emptied_keys s) (snd (fst r)) /\ is_some (snd r) = src_unbounded s.

Definition source_spec (G : tenv) (s : source) : Prop :=
  forall pa all cs, inv G cs ->
  spec (visit_source s pa all) cs (source_allocs s) (wf_source G all s = true) (source_post s).

Lemma source_wrap : forall (inner : comp src_result) cs n (ok : Prop) s,
  spec inner cs n ok (source_post s) ->
  spec (cdo '(needed, emptied, fb) <- inner; add_sources needed ;; cret (needed, emptied, fb)) cs n ok (source_post s).
Proof.
  intros inner cs n ok s H. eapply spec_bind; [exact H|lia|auto|]. intros [[needed emptied] fb] cs1 O [K U] E1.
  eapply spec_bind_T; [apply spec_add_sources|lia|]. intros _ cs2 _ E2. apply spec_ret; [assumption|].
  split; [eapply keys_rel_ext; eassumption|assumption].
Qed.

Ltac t_emit_op := eapply spec_bind_T; [apply spec_emit_op|lia|]; intros _ ? _ ?.
Ltac t_push_addr := eapply spec_bind_T; [apply spec_push_addr|lia|]; intros _ ? _ ?.
Ltac t_bump := eapply spec_bind_T; [apply spec_bump|lia|]; intros _ ? _ ?.
Ltac t_push_integer := eapply spec_bind_T; [apply spec_push_integer|lia|]; intros _ ? _ ?.
Ltac t_emit_all := eapply spec_bind_T; [apply spec_emit_all|lia|]; intros _ ? _ ?.

Lemma spec_source_account : forall G acc ov, source_spec G (SAccount acc ov).
Proof.
  intros G acc ov pa all cs HI. cbn [visit_source]. apply source_wrap. cbn [source_allocs].
  eapply spec_bind; [apply spec_visit_expr; eassumption|lia| |].
  { cbn [wf_source]. intros W. apply andb_prop in W as [W _]. apply andb_prop in W as [W _].
    apply has_type_iff in W. apply well_typed_iff. congruence. }
  intros [ty oa] cs1 _ (Ty & Ad & Lf) E1. cbn [fst snd] in Ty, Ad, Lf. carry_inv.
  eapply spec_bind; [apply spec_expect|lia| |].
  { cbn [fst snd wf_source]. intros W. apply andb_prop in W as [W _]. apply andb_prop in W as [W _].
    apply has_type_iff in W. assert (ty = TAccount) by congruence. split; [assumption|]. apply Ad. subst; discriminate. }
  intros a cs2 [Ety _] Ea E2. cbn [fst snd] in Ety, Ea. subst ty oa.
  destruct (leaf_key acc) as [k|] eqn:Lk; [|exfalso; eapply account_leaf; eassumption].
  destruct (Lf k eq_refl) as (j & Ej & Aj). injection Ej as <-. carry_inv. carry_addr.
  eapply spec_bind_T; [apply spec_is_world|lia|]. intros w cs3 -> E3.
  rewrite (world_at_leaf G cs2 acc k a) by assumption. carry_inv.
  match goal with |- spec (cbind ?m _) _ _ _ _ =>
    assert (Hov : spec m cs3 (match ov with OvSpecific e => expr_allocs e | _ => 1 end)
                    (match ov with
                     | OvNone => True
                     | OvSpecific e => world_literal acc = false /\ has_type G e TMonetary = true
                     | OvUnbounded => world_literal acc = false
                     end)
                    (fun fb _ => is_some fb = src_unbounded (SAccount acc ov))) end.
  { destruct ov as [|e|].
    - t_emit_all. t_push_integer. t_emit_op. t_emit_op. apply spec_ret; [exact I|].
      cbn [src_unbounded]. destruct (world_literal acc); reflexivity.
    - eapply spec_bind; [apply spec_guard|lia| |]. { intros [W _]. rewrite W. reflexivity. }
      intros _ c1 Gw _ X1. carry_inv.
      eapply spec_bind; [apply spec_visit_expr; eassumption|lia| |].
      { intros [_ T]. apply has_type_iff in T. apply well_typed_iff. congruence. }
      intros [t2 a2] c2 _ (T2 & _ & _) X2. cbn [fst] in T2.
      eapply spec_bind; [apply spec_expect_type|lia| |].
      { cbn [fst]. intros [_ T]. apply has_type_iff in T. congruence. }
      intros _ c3 T3 _ X3. cbn [fst] in T3. subst t2. t_emit_op.
      apply spec_ret; [|reflexivity].
      split; [destruct (world_literal acc); [discriminate|reflexivity]|apply has_type_iff; assumption].
    - eapply spec_bind; [apply spec_guard|lia| |]. { intros W. rewrite W. reflexivity. }
      intros _ c1 Gw _ X1. t_emit_all. t_push_integer. t_emit_op. t_emit_op.
      apply spec_ret; [|reflexivity]. destruct (world_literal acc); [discriminate|reflexivity]. }
  eapply spec_bind; [exact Hov|lia| |].
  { cbn [wf_source]. intros W. apply andb_prop in W as [W _]. apply andb_prop in W as [_ W].
    destruct ov; [exact I| |].
    - apply andb_prop in W as [W1 W2]. split; [destruct (world_literal acc); [discriminate|reflexivity]|assumption].
    - destruct (world_literal acc); [discriminate|reflexivity]. }
  intros fb cs4 Oov Ufb E4.
  eapply spec_bind; [apply spec_guard|lia| |].
  { cbn [wf_source]. intros W. apply andb_prop in W as [_ W]. rewrite <- Ufb in W. destruct fb, all; cbn in *; congruence. }
  intros _ cs5 Gd _ E5. apply spec_ret.
  - cbn [wf_source]. apply has_type_iff in Ty. rewrite Ty, <- Ufb. cbn [andb].
    replace (negb (all && is_some fb)) with true by (destruct fb, all; cbn in *; congruence).
    rewrite andb_true_r. destruct ov; [reflexivity| |].
    + destruct Oov as [-> ->]. reflexivity.
    + rewrite Oov. reflexivity.
  - unfold source_post. cbn [fst snd emptied_keys]. rewrite Lk. split; [|assumption].
    apply keys_rel_single. carry_addr. assumption.
Qed.

Lemma spec_source_maxed : forall G m s, source_spec G s -> source_spec G (SMaxed m s).
Proof.
  intros G m s IH pa all cs HI. cbn [visit_source]. apply source_wrap. cbn [source_allocs].
  eapply spec_bind; [apply IH; assumption|lia| |].
  { cbn [wf_source]. intros W. apply andb_prop in W as [W _]. exact W. }
  intros [[accounts emp] subfb] cs1 W1 _ E1. carry_inv.
  eapply spec_bind; [apply spec_visit_expr; eassumption|lia| |].
  { cbn [wf_source]. intros W. apply andb_prop in W as [_ W]. apply has_type_iff in W. apply well_typed_iff. congruence. }
  intros [ty oa] cs2 _ (Ty & _ & _) E2. cbn [fst] in Ty.
  eapply spec_bind; [apply spec_expect_type|lia| |].
  { cbn [fst wf_source]. intros W. apply andb_prop in W as [_ W]. apply has_type_iff in W. congruence. }
  intros _ cs3 T3 _ E3. cbn [fst] in T3. subst ty.
  t_emit_op. t_bump. t_emit_op.
  eapply spec_bind_T with (n1 := 2) (Q1 := any).
  { destruct subfb.
    - t_push_addr. t_bump. t_emit_op. t_push_integer. eapply spec_le; [apply spec_emit_op|lia].
    - t_bump. eapply spec_le; [apply spec_emit_op|lia]. }
  { lia. }
  intros _ cs7 _ E7. apply spec_ret.
  - cbn [wf_source]. rewrite W1. apply has_type_iff in Ty. rewrite Ty. reflexivity.
  - split; [apply keys_rel_nil|reflexivity].
Qed.

(* the members of an ordered source: the spec's local loop as a top-level function (convertible) *)
Definition wf_members (G : tenv) (all : bool) : list source -> list lkey -> bool :=
  fix members (l : list source) (seen : list lkey) : bool :=
  match l with
  | [] => true
  | s1 :: rest =>
      wf_source G all s1 &&
      (negb (src_unbounded s1) || is_nil rest) &&
      disjoint_keys (emptied_keys s1) seen &&
      members rest (emptied_keys s1 ++ seen)
  end.
Lemma wf_members_cons : forall G all s1 rest seen,
  wf_members G all (s1 :: rest) seen =
  wf_source G all s1 && (negb (src_unbounded s1) || is_nil rest) && disjoint_keys (emptied_keys s1) seen &&
  wf_members G all rest (emptied_keys s1 ++ seen).
Proof. reflexivity. Qed.
Lemma wf_source_inorder : forall G all l, wf_source G all (SInOrder l) = wf_members G all l [].
Proof. reflexivity. Qed.

Lemma spec_visit_sources : forall G pa all l, Forall (source_spec G) l ->
  forall needed emptied fb seen cs, inv G cs -> keys_rel cs seen emptied ->
  spec (visit_sources l pa all needed emptied fb) cs (list_sum (map source_allocs l))
       (wf_members G all l seen = true)
       (fun r cs' => keys_rel cs' (flat_map emptied_keys l ++ seen) (snd (fst r)) /\
                     is_some (snd r) = match l with [] => is_some fb | _ => last (map src_unbounded l) false end).
Proof.
  intros G pa all l F. induction F as [|s1 rest P1 _ IH]; intros needed emptied fb seen cs HI KR;
    cbn [visit_sources map list_sum fold_right flat_map]; rewrite ?wf_members_cons.
  - apply spec_ret; [reflexivity|]. cbn [fst snd app]. split; [assumption|reflexivity].
  - eapply spec_bind; [apply P1; assumption|lia| |].
    { intros W. apply andb_prop in W as [W _]. apply andb_prop in W as [W _]. apply andb_prop in W as [W _]. exact W. }
    intros [[acc1 emp1] fb1] cs1 W1 [K1 U1] E1. cbn [fst snd] in K1, U1. carry_inv.
    pose proof (keys_rel_ext _ _ _ _ _ E1 KR) as KR1.
    eapply spec_bind; [apply spec_guard|lia| |].
    { intros W. apply andb_prop in W as [W _]. apply andb_prop in W as [W _]. apply andb_prop in W as [_ W].
      rewrite <- U1 in W. destruct fb1, rest; cbn in *; congruence. }
    intros _ cs2 G2 _ E2.
    eapply spec_bind; [apply spec_guard|lia| |].
    { intros W. apply andb_prop in W as [W _]. apply andb_prop in W as [_ W].
      rewrite (disjoint_agree G cs1 (emptied_keys s1) emp1 seen emptied); assumption. }
    intros _ cs3 G3 _ E3.
    assert (E13 : ext cs1 cs3 0) by (eapply ext_le; [eapply ext_trans; eassumption|lia]).
    carry_inv.
    eapply spec_conseq; [apply (IH (set_union acc1 needed) (set_union emp1 emptied) fb1 (emptied_keys s1 ++ seen) cs3)|unfold list_sum; lia| |].
    + eapply inv_ext; [|exact E13]. assumption.
    + eapply keys_rel_ext; [exact E13|]. apply keys_rel_union; assumption.
    + intros W. apply andb_prop in W as [_ W]. exact W.
    + intros [[n' e'] f'] cs' Wr [Kr Ur] Er. cbn [fst snd] in Kr, Ur |- *. split.
      * rewrite W1, Wr. rewrite (disjoint_agree G cs1 (emptied_keys s1) emp1 seen emptied) in G3 by assumption.
        rewrite G3. rewrite <- U1. replace (negb (is_some fb1) || is_nil rest) with true; [reflexivity|].
        destruct fb1, rest; cbn in *; congruence.
      * split.
        -- eapply keys_rel_perm; [|exact Kr]. intros k. rewrite !in_app_iff. tauto.
        -- rewrite Ur. destruct rest; [cbn; assumption|reflexivity].
Qed.

Lemma spec_source_inorder : forall G l, Forall (source_spec G) l -> source_spec G (SInOrder l).
Proof.
  intros G l F pa all cs HI. eapply spec_eq; [apply visit_source_inorder|]. apply source_wrap.
  cbn [source_allocs]. rewrite wf_source_inorder.
  eapply spec_bind; [apply (spec_visit_sources G pa all l F [] [] None [] cs HI (keys_rel_nil cs))|lia|auto|].
  intros [[needed emptied] fb] cs1 W1 [K1 U1] E1. cbn [fst snd] in K1, U1.
  t_push_integer. t_emit_op. apply spec_ret; [assumption|].
  unfold source_post. cbn [fst snd emptied_keys src_unbounded]. rewrite app_nil_r in K1. split.
  - eapply keys_rel_ext; [|exact K1]. eapply ext_trans; eassumption.
  - rewrite U1. destruct l; reflexivity.
Qed.

Theorem spec_visit_source : forall G s, source_spec G s.
Proof.
  intros G s. induction s using source_ind2;
    auto using spec_source_account, spec_source_maxed, spec_source_inorder.
Qed.

(* ---- allotments ----------------------------------------------------------------------------------------------------------------- *)
Lemma spec_last : forall A (m : comp A) cs n0 n (ok : Prop), spec m cs n0 True any -> n0 <= n -> ok -> spec m cs n ok any.
Proof. intros A m cs n0 n ok S Le O. eapply spec_conseq; [exact S|exact Le|auto|]. intros; split; [assumption|exact I]. Qed.

Lemma forallb_rev : forall A (f : A -> bool) l, forallb f (rev l) = forallb f l.
Proof.
  intros A f l. apply eq_iff_eq_true. rewrite !forallb_forall. split; intros H x Hx.
  - apply H. apply -> in_rev. exact Hx.
  - apply H. apply in_rev. exact Hx.
Qed.
Lemma existsb_rev : forall A (f : A -> bool) l, existsb f (rev l) = existsb f l.
Proof.
  intros A f l. apply eq_iff_eq_true. rewrite !existsb_exists.
  split; intros (x & Hx & E); exists x; (split; [|assumption]).
  - apply in_rev. exact Hx.
  - apply -> in_rev. exact Hx.
Qed.
Lemma filter_rev_length : forall A (f : A -> bool) l, length (filter f (rev l)) = length (filter f l).
Proof.
  intros A f l. induction l as [|x l IH]; [reflexivity|]. cbn [rev filter]. rewrite filter_app, app_length, IH. cbn [filter].
  destruct (f x); cbn [length]; lia.
Qed.
Lemma known_ratios_app : forall a b, known_ratios (a ++ b) = known_ratios a ++ known_ratios b.
Proof. intros a b. unfold known_ratios. apply flat_map_app. Qed.
Lemma known_ratios_rev : forall l, known_ratios (rev l) = rev (known_ratios l).
Proof.
  induction l as [|p l IH]; [reflexivity|]. cbn [rev]. rewrite known_ratios_app, IH.
  destruct p as [[r|]|name|]; cbn; rewrite ?app_nil_r; reflexivity.
Qed.

Lemma spec_visit_portions_rev : forall G l acc cs, inv G cs ->
  spec (visit_portions_rev l acc) cs (length l)
    (forallb (portion_ok G) l = true /\ length (filter is_remaining l) + (if aa_rem acc then 1 else 0) <= 1)
    (fun acc' _ => aa_total acc' = fold_left (fun t r => ratio_add r t) (known_ratios l) (aa_total acc) /\
                   aa_var acc' = aa_var acc || existsb is_pvar l /\
                   aa_rem acc' = aa_rem acc || existsb is_remaining l).
Proof.
  intros G l. induction l as [|p rest IH]; intros acc cs HI; cbn [visit_portions_rev length].
  - apply spec_ret.
    + split; [reflexivity|]. cbn. destruct (aa_rem acc); lia.
    + cbn. rewrite !orb_false_r. auto.
  - destruct p as [[r|]|name|].
    + eapply spec_bind_T; [apply spec_alloc_const|lia|]. intros a cs1 _ E1. t_push_addr. carry_inv.
      eapply spec_conseq; [apply IH; eassumption|lia| |].
      * cbn [forallb portion_ok filter is_remaining andb aa_rem]. auto.
      * intros acc' cs' O (T & V & R) _. cbn [aa_total aa_var aa_rem] in T, V, R. split; [exact O|].
        cbn [existsb is_pvar is_remaining orb]. unfold known_ratios in *. cbn [flat_map app fold_left]. auto.
    + apply spec_fail. intros [F _]. discriminate.
    + eapply spec_bind; [apply spec_visit_variable; eassumption|lia| |].
      { intros [F _]. cbn [forallb portion_ok] in F. destruct (lookup G name); [discriminate|discriminate]. }
      intros [ty idx] cs1 _ [Ty _] E1. cbn [fst] in Ty.
      eapply spec_bind; [apply spec_guard|lia| |].
      { intros [F _]. cbn [forallb portion_ok] in F. rewrite Ty in F. destruct ty; try discriminate. reflexivity. }
      intros _ cs2 G2 _ E2. apply vtype_eqb_eq in G2. subst ty. carry_inv.
      eapply spec_conseq; [apply IH; eassumption|lia| |].
      * cbn [forallb portion_ok filter is_remaining aa_rem]. rewrite Ty. auto.
      * intros acc' cs' O (T & V & R) _. cbn [aa_total aa_var aa_rem] in T, V, R. split.
        -- cbn [forallb portion_ok filter is_remaining]. rewrite Ty. exact O.
        -- cbn [existsb is_pvar is_remaining orb]. unfold known_ratios in *. cbn [flat_map app]. rewrite orb_true_r. auto.
    + eapply spec_bind; [apply spec_guard|lia| |].
      { intros [_ C]. cbn [filter is_remaining length] in C. destruct (aa_rem acc); [lia|reflexivity]. }
      intros _ cs1 G1 _ E1. eapply spec_bind_T; [apply spec_alloc_const|lia|]. intros a cs2 _ E2. t_push_addr. carry_inv.
      eapply spec_conseq; [apply IH; eassumption|lia| |].
      * cbn [forallb portion_ok filter is_remaining length andb aa_rem]. intros [F C]. split; [assumption|lia].
      * intros acc' cs' [F C] (T & V & R) _. cbn [aa_total aa_var aa_rem] in T, V, R, C.
        destruct (aa_rem acc); [discriminate|]. split.
        -- cbn [forallb portion_ok filter is_remaining length andb]. split; [assumption|lia].
        -- cbn [existsb is_pvar is_remaining orb]. unfold known_ratios in *. cbn [flat_map app]. auto.
Qed.

Lemma spec_visit_allotment : forall G ps cs, inv G cs ->
  spec (visit_allotment ps) cs (allotment_allocs ps) (wf_allotment G ps = true) any.
Proof.
  intros G ps cs HI. unfold visit_allotment, allotment_allocs, wf_allotment. cbv zeta.
  eapply spec_bind; [apply spec_visit_portions_rev; eassumption|rewrite rev_length; lia| |].
  { intros W. apply andb_prop in W as [W _]. apply andb_prop in W as [F C]. rewrite forallb_rev, filter_rev_length.
    split; [assumption|]. apply Nat.leb_le in C. cbn [aa_rem]. lia. }
  intros [t v r] cs1 [F C] (T & V & R) E1. cbn [aa_total aa_var aa_rem orb] in T, V, R, C |- *.
  rewrite forallb_rev in F. rewrite filter_rev_length in C. rewrite existsb_rev in V, R.
  rewrite rev_length in *.
  assert (Et : t = known_sum ps).
  { rewrite T, known_ratios_rev. unfold known_sum. rewrite <- fold_left_rev_right, rev_involutive. reflexivity. }
  clear T. subst t v r.
  assert (C' : (length (filter is_remaining ps) <=? 1) = true) by (apply Nat.leb_le; lia).
  rewrite F, C'. cbn [andb].
  set (gt := ratio_gt1 (known_sum ps)). set (lt := ratio_lt1 (known_sum ps)). set (eq := ratio_eq1 (known_sum ps)).
  set (rm := existsb is_remaining ps). set (vr := existsb is_pvar ps).
  eapply spec_bind; [apply spec_guard|lia| |]. { destruct gt, lt, eq, rm, vr; cbn; congruence. } intros _ cs2 G1 _ E2.
  eapply spec_bind; [apply spec_guard|lia| |]. { destruct gt, lt, eq, rm, vr; cbn; congruence. } intros _ cs3 G2 _ E3.
  eapply spec_bind; [apply spec_guard|lia| |]. { destruct gt, lt, eq, rm, vr; cbn; congruence. } intros _ cs4 G3 _ E4.
  eapply spec_bind; [apply spec_guard|lia| |]. { destruct gt, lt, eq, rm, vr; cbn; congruence. } intros _ cs5 G4 _ E5.
  t_push_integer. apply spec_last with (n0 := 0); [apply spec_emit_op|lia|].
  destruct gt, lt, eq, rm, vr; cbn in *; congruence.
Qed.

(* ---- destinations --------------------------------------------------------------------------------------------------------------- *)
Definition dest_spec (G : tenv) (d : dest) : Prop :=
  forall cs, inv G cs -> spec (visit_dest d) cs (dest_allocs d) (wf_dest G d = true) any.
Definition kod_spec (G : tenv) (k : kod) : Prop :=
  forall cs, inv G cs -> spec (visit_kod k) cs (kod_allocs k) (wf_kod G k = true) any.

Lemma spec_dest_account : forall G e, dest_spec G (DAccount e).
Proof.
  intros G e cs HI. cbn [visit_dest dest_allocs wf_dest]. t_emit_op. t_emit_op. carry_inv.
  eapply spec_bind; [apply spec_visit_expr; eassumption|lia| |].
  { intros W. apply has_type_iff in W. apply well_typed_iff. congruence. }
  intros [ty oa] cs3 _ (Ty & _ & _) E3. cbn [fst] in Ty.
  eapply spec_bind; [apply spec_expect_type|lia| |].
  { cbn [fst]. intros W. apply has_type_iff in W. congruence. }
  intros _ cs4 T4 _ E4. cbn [fst] in T4. subst ty.
  apply spec_last with (n0 := 0); [apply spec_emit_op|lia|]. apply has_type_iff. assumption.
Qed.

Lemma spec_inorder_entries : forall G l, Forall (fun x => kod_spec G (snd x)) l -> forall cs, inv G cs ->
  spec (visit_inorder_entries l) cs (list_sum (map (fun x => expr_allocs (fst x) + kod_allocs (snd x) + 5) l))
       (forallb (fun x => has_type G (fst x) TMonetary && wf_kod G (snd x)) l = true) any.
Proof.
  intros G l F. induction F as [|[amt k] rest Pk _ IH]; intros cs HI; cbn [visit_inorder_entries map list_sum fold_right forallb fst snd].
  - apply spec_ret; [reflexivity|exact I].
  - cbn [snd] in Pk. fold (list_sum (map (fun x => expr_allocs (fst x) + kod_allocs (snd x) + 5) rest)).
    eapply spec_bind; [apply spec_visit_expr; eassumption|lia| |].
    { intros W. apply andb_prop in W as [W _]. apply andb_prop in W as [W _]. apply has_type_iff in W. apply well_typed_iff. congruence. }
    intros [ty oa] cs1 _ (Ty & _ & _) E1. cbn [fst] in Ty.
    eapply spec_bind; [apply spec_expect_type|lia| |].
    { cbn [fst]. intros W. apply andb_prop in W as [W _]. apply andb_prop in W as [W _]. apply has_type_iff in W. congruence. }
    intros _ cs2 T2 _ E2. cbn [fst] in T2. subst ty.
    t_emit_op. t_bump. t_emit_op. carry_inv.
    eapply spec_bind; [apply Pk; eassumption|lia| |].
    { intros W. apply andb_prop in W as [W _]. apply andb_prop in W as [_ W]. exact W. }
    intros _ cs6 Wk _ E6.
    t_emit_op. t_bump. t_emit_op. t_bump. t_bump. t_push_integer. t_emit_op. carry_inv.
    eapply spec_conseq; [apply IH; eassumption|lia| |].
    + intros W. apply andb_prop in W as [_ W]. exact W.
    + intros u cs' Wr _ _. split; [|exact I]. apply has_type_iff in Ty. rewrite Ty, Wk, Wr. reflexivity.
Qed.

Lemma spec_allot_entries : forall G l, Forall (fun x => kod_spec G (snd x)) l -> forall cs, inv G cs ->
  spec (visit_allot_entries l) cs (list_sum (map (fun x : aportion * kod => kod_allocs (snd x) + 3) l))
       (forallb (fun x : aportion * kod => wf_kod G (snd x)) l = true) any.
Proof.
  intros G l F. induction F as [|[ap k] rest Pk _ IH]; intros cs HI; cbn [visit_allot_entries map list_sum fold_right forallb fst snd].
  - apply spec_ret; [reflexivity|exact I].
  - cbn [snd] in Pk. fold (list_sum (map (fun x : aportion * kod => kod_allocs (snd x) + 3) rest)).
    t_bump. t_emit_op. carry_inv.
    eapply spec_bind; [apply Pk; eassumption|lia| |].
    { intros W. apply andb_prop in W as [W _]. exact W. }
    intros _ cs3 Wk _ E3. t_bump. t_push_integer. t_emit_op. carry_inv.
    eapply spec_conseq; [apply IH; eassumption|lia| |].
    + intros W. apply andb_prop in W as [_ W]. exact W.
    + intros u cs' Wr _ _. split; [|exact I]. rewrite Wk, Wr. reflexivity.
Qed.

Lemma spec_dest_inorder : forall G l rem, Forall (fun x => kod_spec G (snd x)) l -> kod_spec G rem -> dest_spec G (DInOrder l rem).
Proof.
  intros G l rem F Pr cs HI. rewrite visit_dest_inorder.
  change (dest_allocs (DInOrder l rem)) with
    (list_sum (map (fun x => expr_allocs (fst x) + kod_allocs (snd x) + 5) l) + kod_allocs rem + 6).
  change (wf_dest G (DInOrder l rem)) with
    (forallb (fun x => has_type G (fst x) TMonetary && wf_kod G (snd x)) l && wf_kod G rem).
  t_emit_op. t_emit_op. t_push_integer. t_emit_op. t_bump. carry_inv.
  eapply spec_bind; [apply spec_inorder_entries; eassumption|lia| |].
  { intros W. apply andb_prop in W as [W _]. exact W. }
  intros _ cs6 Wl _ E6. t_emit_op. t_bump. t_emit_op. t_emit_op. t_bump. t_emit_op. carry_inv.
  eapply spec_bind; [apply Pr; eassumption|lia| |].
  { intros W. apply andb_prop in W as [_ W]. exact W. }
  intros _ cs13 Wr _ E13. t_bump. t_push_integer.
  apply spec_last with (n0 := 0); [apply spec_emit_op|lia|]. rewrite Wl, Wr. reflexivity.
Qed.

Lemma spec_dest_allot : forall G l, Forall (fun x => kod_spec G (snd x)) l -> dest_spec G (DAllot l).
Proof.
  intros G l F cs HI. rewrite visit_dest_allot.
  change (dest_allocs (DAllot l)) with
    (allotment_allocs (map fst l) + list_sum (map (fun x : aportion * kod => kod_allocs (snd x) + 3) l) + 1).
  change (wf_dest G (DAllot l)) with
    (wf_allotment G (map fst l) && forallb (fun x : aportion * kod => wf_kod G (snd x)) l).
  t_emit_op. carry_inv.
  eapply spec_bind; [apply spec_visit_allotment; eassumption|lia| |].
  { intros W. apply andb_prop in W as [W _]. exact W. }
  intros _ cs2 Wa _ E2. t_emit_op. t_bump. carry_inv.
  eapply spec_conseq; [apply spec_allot_entries; eassumption|lia| |].
  - intros W. apply andb_prop in W as [_ W]. exact W.
  - intros u cs' Wr _ _. split; [|exact I]. rewrite Wa, Wr. reflexivity.
Qed.

Theorem spec_visit_dest : forall G d, dest_spec G d.
Proof.
  intros G. apply (dest_ind2 (dest_spec G) (kod_spec G)).
  - apply spec_dest_account.
  - apply spec_dest_inorder.
  - apply spec_dest_allot.
  - intros cs HI. cbn [visit_kod kod_allocs wf_kod]. apply spec_ret; [reflexivity|exact I].
  - intros d IH cs HI. exact (IH cs HI).
Qed.

(* ---- send, statements --------------------------------------------------------------------------------------------------------- *)
Lemma spec_take_from_source : forall fb cs, spec (take_from_source fb) cs 3 True any.
Proof.
  intros [fb|] cs; cbn [take_from_source].
  - t_emit_op. t_bump. t_emit_op. t_push_addr. t_bump. t_emit_op. t_push_integer. eapply spec_le; [apply spec_emit_op|lia].
  - t_emit_op. t_bump. eapply spec_le; [apply spec_emit_op|lia].
Qed.

Lemma spec_visit_allot_sources : forall G l i pa ma cs, inv G cs ->
  spec (visit_allot_sources l i pa ma) cs (list_sum (map (fun s => source_allocs s + 4) l))
       (forallb (wf_source G false) l = true) any.
Proof.
  intros G l. induction l as [|s rest IH]; intros i pa ma cs HI; cbn [visit_allot_sources map list_sum fold_right forallb].
  - apply spec_ret; [reflexivity|exact I].
  - fold (list_sum (map (fun s => source_allocs s + 4) rest)).
    eapply spec_bind; [apply spec_visit_source; eassumption|lia| |].
    { intros W. apply andb_prop in W as [W _]. exact W. }
    intros [[accounts emp] fb] cs1 Ws _ E1.
    eapply spec_bind_T; [apply spec_set_needed|lia|]. intros _ cs2 _ E2. t_bump.
    eapply spec_bind_T; [apply spec_take_from_source|lia|]. intros _ cs4 _ E4. carry_inv.
    eapply spec_conseq; [apply IH; eassumption|lia| |].
    + intros W. apply andb_prop in W as [_ W]. exact W.
    + intros u cs' Wr _ _. split; [|exact I]. rewrite Ws, Wr. reflexivity.
Qed.

Lemma spec_visit_send_src : forall G m src cs, inv G cs ->
  spec (visit_send_src m src) cs (2 * amount_allocs m + vasource_allocs src)
       (wf_amount G m && wf_send_source G m src = true) any.
Proof.
  intros G m src cs HI. destruct m as [e|ae]; cbn [visit_send_src amount_allocs wf_amount].
  - (* send [ASSET n] *)
    eapply spec_bind; [apply spec_visit_expr; eassumption|lia| |].
    { intros W. apply andb_prop in W as [W _]. apply has_type_iff in W. apply well_typed_iff. congruence. }
    intros [ty oa] cs1 _ (Ty & Ad & _) E1. cbn [fst snd] in Ty, Ad.
    eapply spec_bind; [apply spec_expect|lia| |].
    { cbn [fst snd]. intros W. apply andb_prop in W as [W _]. apply has_type_iff in W.
      assert (ty = TMonetary) by congruence. split; [assumption|]. apply Ad. subst; discriminate. }
    intros ma cs2 [Ety _] _ E2. cbn [fst] in Ety. subst ty. apply has_type_iff in Ty. rewrite Ty. cbn [andb]. carry_inv.
    destruct src as [s|l]; cbn [vasource_allocs wf_send_source].
    + eapply spec_bind; [apply spec_visit_source; eassumption|lia|auto|].
      intros [[accounts emp] fb] cs3 Ws _ E3.
      eapply spec_bind_T; [apply spec_set_needed|lia|]. intros _ cs4 _ E4. carry_inv.
      eapply spec_bind; [apply spec_visit_expr; eassumption|lia| |].
      { intros _. apply has_type_iff in Ty. apply well_typed_iff. congruence. }
      intros _ cs5 _ _ E5. apply spec_last with (n0 := 3); [apply spec_take_from_source|lia|assumption].
    + eapply spec_bind; [apply spec_visit_expr; eassumption|lia| |].
      { intros _. apply has_type_iff in Ty. apply well_typed_iff. congruence. }
      intros _ cs3 _ _ E3. carry_inv.
      eapply spec_bind; [apply spec_visit_allotment; eassumption|lia| |].
      { intros W. apply andb_prop in W as [W _]. exact W. }
      intros _ cs4 Wa _ E4. t_emit_op. carry_inv.
      eapply spec_bind; [apply spec_visit_allot_sources; eassumption|lia| |].
      { intros W. apply andb_prop in W as [_ W]. exact W. }
      intros _ cs6 Wl _ E6. t_push_integer.
      apply spec_last with (n0 := 0); [apply spec_emit_op|lia|]. rewrite Wa, Wl. reflexivity.
  - (* send [ASSET *] *)
    eapply spec_bind; [apply spec_visit_expr; eassumption|lia| |].
    { intros W. apply andb_prop in W as [W _]. apply has_type_iff in W. apply well_typed_iff. congruence. }
    intros [ty oa] cs1 _ (Ty & Ad & _) E1. cbn [fst snd] in Ty, Ad.
    eapply spec_bind; [apply spec_expect|lia| |].
    { cbn [fst snd]. intros W. apply andb_prop in W as [W _]. apply has_type_iff in W.
      assert (ty = TAsset) by congruence. split; [assumption|]. apply Ad. subst; discriminate. }
    intros aa cs2 [Ety _] _ E2. cbn [fst] in Ety. subst ty. apply has_type_iff in Ty. rewrite Ty. cbn [andb]. carry_inv.
    destruct src as [s|l]; cbn [vasource_allocs wf_send_source].
    + eapply spec_bind; [apply spec_visit_source; eassumption|lia|auto|].
      intros [[accounts emp] fb] cs3 Ws _ E3.
      apply spec_last with (n0 := 0); [apply spec_set_needed|lia|assumption].
    + apply spec_fail. discriminate.
Qed.

Lemma spec_visit_send : forall G m src d cs, inv G cs ->
  spec (visit_send m src d) cs (stmt_allocs (StSend m src d)) (wf_stmt G (StSend m src d) = true) any.
Proof.
  intros G m src d cs HI. rewrite visit_send_eq. cbn [stmt_allocs wf_stmt].
  eapply spec_bind; [apply spec_visit_send_src; eassumption|lia| |].
  { intros W. apply andb_prop in W as [W _]. exact W. }
  intros _ cs1 Ws _ E1. carry_inv.
  eapply spec_bind; [apply spec_visit_dest; eassumption|lia| |].
  { intros W. apply andb_prop in W as [_ W]. exact W. }
  intros _ cs2 Wd _ E2. apply spec_last with (n0 := 0); [apply spec_emit_op|lia|]. rewrite Ws, Wd. reflexivity.
Qed.

Lemma spec_visit_stmt : forall G st cs, inv G cs ->
  spec (visit_stmt st) cs (stmt_allocs st) (wf_stmt G st = true) any.
Proof.
  intros G st cs HI. destruct st as [e|m acc|key v|acc key v| |m src d].
  - cbn [visit_stmt stmt_allocs wf_stmt].
    eapply spec_bind; [apply spec_visit_expr; eassumption|lia|auto|].
    intros _ cs1 W _ E1. apply spec_last with (n0 := 0); [apply spec_emit_op|lia|assumption].
  - cbn [visit_stmt stmt_allocs wf_stmt].
    eapply spec_bind with (n1 := amount_allocs m) (ok1 := wf_amount G m = true) (Q1 := any).
    { destruct m as [e|ae]; cbn [amount_allocs wf_amount].
      - eapply spec_bind; [apply spec_visit_expr; eassumption|lia| |].
        { intros W. apply has_type_iff in W. apply well_typed_iff. congruence. }
        intros [ty oa] cs1 _ (Ty & _ & _) E1. cbn [fst] in Ty.
        eapply spec_conseq; [apply spec_expect_type|lia| |].
        + cbn [fst]. intros W. apply has_type_iff in W. congruence.
        + cbn [fst]. intros u cs' T _ _. subst ty. split; [apply has_type_iff; assumption|exact I].
      - eapply spec_bind; [apply spec_visit_expr; eassumption|lia| |].
        { intros W. apply has_type_iff in W. apply well_typed_iff. congruence. }
        intros [ty oa] cs1 _ (Ty & Ad & _) E1. cbn [fst snd] in Ty, Ad.
        eapply spec_bind; [apply spec_expect|lia| |].
        { cbn [fst snd]. intros W. apply has_type_iff in W. assert (ty = TAsset) by congruence.
          split; [assumption|]. apply Ad. subst; discriminate. }
        intros aa cs2 [Ety _] _ E2. cbn [fst] in Ety. subst ty.
        apply spec_last with (n0 := 0); [apply spec_push_addr|lia|]. apply has_type_iff. assumption. }
    { lia. }
    { intros W. apply andb_prop in W as [W _]. exact W. }
    intros _ cs1 Wm _ E1. carry_inv.
    eapply spec_bind; [apply spec_visit_expr; eassumption|lia| |].
    { intros W. apply andb_prop in W as [_ W]. apply has_type_iff in W. apply well_typed_iff. congruence. }
    intros [ty oa] cs2 _ (Ty & Ad & _) E2. cbn [fst snd] in Ty, Ad.
    eapply spec_bind; [apply spec_expect|lia| |].
    { cbn [fst snd]. intros W. apply andb_prop in W as [_ W]. apply has_type_iff in W. assert (ty = TAccount) by congruence.
      split; [assumption|]. apply Ad. subst; discriminate. }
    intros a cs3 [Ety _] _ E3. cbn [fst] in Ety. subst ty. t_push_addr.
    apply spec_last with (n0 := 0); [apply spec_emit_op|lia|]. apply has_type_iff in Ty. rewrite Wm, Ty. reflexivity.
  - cbn [visit_stmt stmt_allocs wf_stmt].
    eapply spec_bind; [apply spec_visit_expr; eassumption|lia|auto|].
    intros _ cs1 W _ E1. eapply spec_bind_T; [apply spec_alloc_const|lia|]. intros k cs2 _ E2. t_push_addr.
    apply spec_last with (n0 := 0); [apply spec_emit_op|lia|assumption].
  - cbn [visit_stmt stmt_allocs wf_stmt].
    eapply spec_bind; [apply spec_visit_expr; eassumption|lia| |].
    { intros W. apply andb_prop in W as [W _]. exact W. }
    intros _ cs1 Wv _ E1. eapply spec_bind_T; [apply spec_alloc_const|lia|]. intros k cs2 _ E2. t_push_addr. carry_inv.
    eapply spec_bind; [apply spec_visit_expr; eassumption|lia| |].
    { intros W. apply andb_prop in W as [_ W]. apply has_type_iff in W. apply well_typed_iff. congruence. }
    intros [ty oa] cs4 _ (Ty & Ad & _) E4. cbn [fst snd] in Ty, Ad.
    eapply spec_bind; [apply spec_expect|lia| |].
    { cbn [fst snd]. intros W. apply andb_prop in W as [_ W]. apply has_type_iff in W. assert (ty = TAccount) by congruence.
      split; [assumption|]. apply Ad. subst; discriminate. }
    intros a cs5 [Ety _] _ E5. cbn [fst] in Ety. subst ty. t_push_addr.
    apply spec_last with (n0 := 0); [apply spec_emit_op|lia|]. apply has_type_iff in Ty. rewrite Wv, Ty. reflexivity.
  - cbn [visit_stmt stmt_allocs wf_stmt]. apply spec_last with (n0 := 0); [apply spec_emit_op|lia|reflexivity].
  - apply spec_visit_send. assumption.
Qed.

Lemma spec_visit_all : forall A (f : A -> comp unit) (cost : A -> nat) (chk : A -> bool) G,
  (forall x cs, inv G cs -> spec (f x) cs (cost x) (chk x = true) any) ->
  forall l cs, inv G cs -> spec (visit_all f l) cs (list_sum (map cost l)) (forallb chk l = true) any.
Proof.
  intros A f cost chk G Hf l. induction l as [|x rest IH]; intros cs HI; cbn [visit_all map list_sum fold_right forallb].
  - apply spec_ret; [reflexivity|exact I].
  - fold (list_sum (map cost rest)).
    eapply spec_bind; [apply Hf; eassumption|lia| |].
    { intros W. apply andb_prop in W as [W _]. exact W. }
    intros _ cs1 Wx _ E1. carry_inv.
    eapply spec_conseq; [apply IH; eassumption|lia| |].
    + intros W. apply andb_prop in W as [_ W]. exact W.
    + intros u cs' Wr _ _. split; [|exact I]. rewrite Wx, Wr. reflexivity.
Qed.

(* ---- the vars block ------------------------------------------------------------------------------------------------------------- *)
(* the resource a declaration allocates (the part of visit_var before the name is bound) *)
Definition var_resource (v : vardecl) : comp nat :=
  match vd_orig v with
  | None => alloc (RVar (vd_type v) (vd_name v))
  | Some (OMeta acc key) =>
      cdo r <- visit_expr acc false;
      cdo a <- expect TAccount r;
      alloc (RVarMeta (vd_type v) (vd_name v) a key)
  | Some (OBalance acc ae) =>
      guard (vtype_eqb (vd_type v) TMonetary) ;;
      cdo r <- visit_expr acc false;
      cdo a <- expect TAccount r;
      cdo r2 <- visit_expr ae false;
      cdo s <- expect TAsset r2;
      alloc (RVarBalance (vd_name v) a s)
  end.

Definition var_post (v : vardecl) (cs0 : cstate) (addr : nat) (cs' : cstate) : Prop :=
  exists r, nth_error (c_res cs') addr = Some r /\ is_var_res r = true /\ res_type r = vd_type v /\
            length (c_res cs0) <= addr.

Lemma nth_error_snoc : forall A (l : list A) x, nth_error (l ++ [x]) (length l) = Some x.
Proof. intros. rewrite nth_error_app2, Nat.sub_diag by lia. reflexivity. Qed.

Lemma spec_var_resource : forall G v cs, inv G cs ->
  spec (var_resource v) cs (var_allocs v) (wf_origin G (vd_type v) (vd_orig v) = true) (var_post v cs).
Proof.
  intros G v cs HI. unfold var_resource, var_allocs. destruct (vd_orig v) as [[acc key|acc ae]|]; cbn [wf_origin].
  - eapply spec_bind; [apply spec_visit_expr; eassumption|lia| |].
    { intros W. apply has_type_iff in W. apply well_typed_iff. congruence. }
    intros [ty oa] cs1 _ (Ty & Ad & _) E1. cbn [fst snd] in Ty, Ad.
    eapply spec_bind; [apply spec_expect|lia| |].
    { cbn [fst snd]. intros W. apply has_type_iff in W. assert (ty = TAccount) by congruence.
      split; [assumption|]. apply Ad. subst; discriminate. }
    intros a cs2 [Ety _] _ E2. cbn [fst] in Ety. subst ty.
    eapply spec_conseq; [apply spec_alloc_nonconst; discriminate|lia|auto|].
    intros j cs' _ [-> Er] _. split; [apply has_type_iff; assumption|].
    eexists. rewrite Er. split; [apply nth_error_snoc|]. split; [reflexivity|]. split; [reflexivity|].
    pose proof (prefix_length _ _ _ (ext_res _ _ _ E1)). pose proof (prefix_length _ _ _ (ext_res _ _ _ E2)). lia.
  - eapply spec_bind; [apply spec_guard|lia| |].
    { intros W. apply andb_prop in W as [W _]. apply andb_prop in W as [W _]. exact W. }
    intros _ cs0 Gm _ E0. carry_inv.
    eapply spec_bind; [apply spec_visit_expr; eassumption|lia| |].
    { intros W. apply andb_prop in W as [W _]. apply andb_prop in W as [_ W]. apply has_type_iff in W. apply well_typed_iff. congruence. }
    intros [ty oa] cs1 _ (Ty & Ad & _) E1. cbn [fst snd] in Ty, Ad.
    eapply spec_bind; [apply spec_expect|lia| |].
    { cbn [fst snd]. intros W. apply andb_prop in W as [W _]. apply andb_prop in W as [_ W]. apply has_type_iff in W.
      assert (ty = TAccount) by congruence. split; [assumption|]. apply Ad. subst; discriminate. }
    intros a cs2 [Ety _] _ E2. cbn [fst] in Ety. subst ty. carry_inv.
    eapply spec_bind; [apply spec_visit_expr; eassumption|lia| |].
    { intros W. apply andb_prop in W as [_ W]. apply has_type_iff in W. apply well_typed_iff. congruence. }
    intros [ty2 oa2] cs3 _ (Ty2 & Ad2 & _) E3. cbn [fst snd] in Ty2, Ad2.
    eapply spec_bind; [apply spec_expect|lia| |].
    { cbn [fst snd]. intros W. apply andb_prop in W as [_ W]. apply has_type_iff in W.
      assert (ty2 = TAsset) by congruence. split; [assumption|]. apply Ad2. subst; discriminate. }
    intros s cs4 [Ety _] _ E4. cbn [fst] in Ety. subst ty2.
    eapply spec_conseq; [apply spec_alloc_nonconst; discriminate|lia|auto|].
    intros j cs' _ [-> Er] _. split.
    { apply has_type_iff in Ty, Ty2. rewrite Gm, Ty, Ty2. reflexivity. }
    eexists. rewrite Er. split; [apply nth_error_snoc|]. split; [reflexivity|].
    split; [cbn [res_type]; apply vtype_eqb_eq in Gm; congruence|].
    pose proof (prefix_length _ _ _ (ext_res _ _ _ E0)). pose proof (prefix_length _ _ _ (ext_res _ _ _ E1)).
    pose proof (prefix_length _ _ _ (ext_res _ _ _ E2)). pose proof (prefix_length _ _ _ (ext_res _ _ _ E3)).
    pose proof (prefix_length _ _ _ (ext_res _ _ _ E4)). lia.
  - eapply spec_conseq; [apply spec_alloc_nonconst; discriminate|lia|auto|].
    intros j cs' _ [-> Er] _. split; [reflexivity|].
    eexists. rewrite Er. split; [apply nth_error_snoc|]. split; [reflexivity|]. split; [reflexivity|]. lia.
Qed.

Lemma visit_var_eq : forall v cs,
  visit_var v cs =
  match assoc_N (vd_name v) (c_vars cs) with
  | Some _ => None
  | None => if declarable (vd_type v) then cbind (var_resource v) (bind_var (vd_name v)) cs else None
  end.
Proof.
  intros v cs. unfold visit_var, var_declared, cbind at 1.
  destruct (assoc_N (vd_name v) (c_vars cs)); [reflexivity|]. cbn [negb guard]. unfold cbind at 1. cbn [cret].
  unfold cbind at 1. destruct (declarable (vd_type v)); reflexivity.
Qed.

Lemma declared_inv : forall G cs name, inv G cs ->
  declared G name = match assoc_N name (c_vars cs) with Some _ => true | None => false end.
Proof.
  intros G cs name HI. unfold declared. destruct (assoc_N name (c_vars cs)) as [i|] eqn:A.
  - destruct (inv_typ _ _ HI _ _ A) as (r & _ & _ & L). rewrite L. reflexivity.
  - rewrite (inv_dom _ _ HI _ A). reflexivity.
Qed.

Lemma inv_bind_var : forall G cs cs1 v addr, inv G cs -> ext cs cs1 (var_allocs v) -> var_post v cs addr cs1 ->
  assoc_N (vd_name v) (c_vars cs) = None ->
  inv ((vd_name v, vd_type v) :: G)
      {| c_code := c_code cs1; c_res := c_res cs1; c_sources := c_sources cs1;
         c_vars := (vd_name v, addr) :: c_vars cs1; c_needed := c_needed cs1 |}.
Proof.
  intros G cs cs1 v addr HI E (r & N1 & V & T & L) Fresh.
  pose proof (inv_ext _ _ _ _ HI E) as HI1. rewrite <- (ext_vars _ _ _ E) in Fresh.
  assert (Below : forall n i, assoc_N n (c_vars cs1) = Some i -> i < addr).
  { intros n i A. rewrite (ext_vars _ _ _ E) in A. destruct (inv_typ _ _ HI _ _ A) as (r' & N' & _).
    assert (i < length (c_res cs)) by (apply nth_error_Some; congruence). lia. }
  constructor; cbn [c_vars c_res assoc_N lookup].
  - intros name A. unfold lookup. cbn [assoc_N]. destruct (N.eqb name (vd_name v)); [discriminate|].
    apply (inv_dom _ _ HI1). exact A.
  - intros name i A. unfold lookup. cbn [assoc_N]. destruct (N.eqb name (vd_name v)) eqn:Eq.
    + injection A as <-. exists r. rewrite T. auto.
    + apply (inv_typ _ _ HI1). exact A.
  - intros n1 n2 i A1 A2. destruct (N.eqb n1 (vd_name v)) eqn:Eq1, (N.eqb n2 (vd_name v)) eqn:Eq2.
    + apply N.eqb_eq in Eq1, Eq2. congruence.
    + injection A1 as <-. apply Below in A2. lia.
    + injection A2 as <-. apply Below in A1. lia.
    + eapply (inv_inj _ _ HI1); eassumption.
Qed.

Lemma visit_var_sound : forall G v cs u cs', inv G cs -> visit_var v cs = Some (u, cs') ->
  wf_var G v = true /\ inv ((vd_name v, vd_type v) :: G) cs' /\ length (c_res cs') <= length (c_res cs) + var_allocs v.
Proof.
  intros G v cs u cs' HI H. rewrite visit_var_eq in H. unfold wf_var. rewrite (declared_inv G cs) by assumption.
  destruct (assoc_N (vd_name v) (c_vars cs)) eqn:A; [discriminate|].
  destruct (declarable (vd_type v)); [|discriminate].
  apply cbind_inv in H as (addr & cs1 & H1 & H2).
  destruct (spec_var_resource G v cs HI) as [S _]. destruct (S _ _ H1) as (O & P & E).
  unfold bind_var in H2. injection H2 as _ <-. cbn [negb andb]. split; [exact O|]. split.
  - eapply inv_bind_var; eassumption.
  - cbn [c_res]. apply (ext_len _ _ _ E).
Qed.

Lemma visit_var_complete : forall G v cs, inv G cs -> wf_var G v = true -> room cs (var_allocs v) ->
  exists cs', visit_var v cs = Some (tt, cs').
Proof.
  intros G v cs HI W R. rewrite visit_var_eq. unfold wf_var in W. rewrite (declared_inv G cs) in W by assumption.
  destruct (assoc_N (vd_name v) (c_vars cs)); [discriminate|].
  destruct (declarable (vd_type v)); [|discriminate]. cbn [negb andb] in W.
  destruct (spec_var_resource G v cs HI) as [_ C]. destruct (C W R) as (addr & cs1 & H1).
  unfold cbind. rewrite H1. unfold bind_var. eexists. reflexivity.
Qed.

Lemma visit_vars_sound : forall vs G cs u cs', inv G cs -> visit_all visit_var vs cs = Some (u, cs') ->
  exists G', wf_vars G vs = Some G' /\ inv G' cs' /\
             length (c_res cs') <= length (c_res cs) + list_sum (map var_allocs vs).
Proof.
  induction vs as [|v rest IH]; intros G cs u cs' HI H; cbn [visit_all wf_vars map list_sum fold_right] in *.
  - apply cret_inv in H as [_ ->]. exists G. split; [reflexivity|]. split; [assumption|lia].
  - apply cbind_inv in H as (u1 & cs1 & H1 & H2). destruct (visit_var_sound _ _ _ _ _ HI H1) as (W & HI1 & L1).
    rewrite W. destruct (IH _ _ _ _ HI1 H2) as (G' & Wr & HI' & L2). exists G'. split; [assumption|]. split; [assumption|].
    unfold list_sum in L2. lia.
Qed.

Lemma visit_vars_complete : forall vs G G' cs, inv G cs -> wf_vars G vs = Some G' ->
  room cs (list_sum (map var_allocs vs)) -> exists cs', visit_all visit_var vs cs = Some (tt, cs').
Proof.
  induction vs as [|v rest IH]; intros G G' cs HI W R; cbn [visit_all wf_vars map list_sum fold_right] in *.
  - eexists. reflexivity.
  - destruct (wf_var G v) eqn:Wv; [|discriminate].
    destruct (visit_var_complete G v cs HI Wv) as (cs1 & H1). { eapply room_le; [exact R|lia]. }
    destruct (visit_var_sound _ _ _ _ _ HI H1) as (_ & HI1 & L1).
    destruct (IH _ _ cs1 HI1 W) as (cs' & H2). { unfold room in *. unfold list_sum. lia. }
    exists cs'. unfold cbind. rewrite H1. exact H2.
Qed.

(* ---- the whole script -------------------------------------------------------------------------------------------------------- *)
Lemma inv_empty : inv [] empty_cstate.
Proof. constructor; cbn; [reflexivity|discriminate|discriminate]. Qed.

(* accepted by the compiler => well-formed; no size hypothesis *)
Theorem compile_well_formed : forall sc p, compile sc = Some p -> well_formed sc.
Proof.
  intros sc p H. unfold compile in H. destruct (N.ltb max_vars (N.of_nat (length (s_vars sc)))); [discriminate|].
  destruct ((visit_all visit_var (s_vars sc);; visit_all visit_stmt (s_stmts sc)) empty_cstate) as [[u c]|] eqn:E; [|discriminate].
  apply cbind_inv in E as (u1 & cs1 & H1 & H2).
  destruct (visit_vars_sound _ _ _ _ _ inv_empty H1) as (G & W & HI & _).
  unfold well_formed, wf_script. rewrite W.
  destruct (spec_visit_all _ visit_stmt stmt_allocs (wf_stmt G) G (spec_visit_stmt G) (s_stmts sc) cs1 HI) as [S _].
  destruct (S _ _ H2) as (O & _). exact O.
Qed.

(* well-formed and within the two size limits => accepted *)
Theorem well_formed_compile : forall sc, within_limits sc -> well_formed sc -> compile sc <> None.
Proof.
  intros sc [Lv Lr] W. unfold compile.
  destruct (N.ltb max_vars (N.of_nat (length (s_vars sc)))) eqn:E; [apply N.ltb_lt in E; lia|].
  unfold well_formed, wf_script in W. destruct (wf_vars [] (s_vars sc)) as [G|] eqn:Wv; [|discriminate].
  unfold script_allocs in Lr.
  destruct (visit_vars_complete _ _ _ _ inv_empty Wv) as (cs1 & H1).
  { unfold room. cbn [empty_cstate c_res length]. lia. }
  destruct (visit_vars_sound _ _ _ _ _ inv_empty H1) as (G' & Wv' & HI & L1).
  assert (G' = G) by congruence. subst G'.
  destruct (spec_visit_all _ visit_stmt stmt_allocs (wf_stmt G) G (spec_visit_stmt G) (s_stmts sc) cs1 HI) as [_ C].
  destruct (C W) as (u & cs2 & H2).
  { unfold room. cbn [empty_cstate c_res length] in L1. lia. }
  unfold cbind. rewrite H1, H2. discriminate.
Qed.

Theorem reject_sound : forall sc, within_limits sc -> (compile sc <> None <-> well_formed sc).
Proof.
  intros sc L. split.
  - intros H. destruct (compile sc) as [p|] eqn:E; [|congruence]. eapply compile_well_formed; eassumption.
  - apply well_formed_compile. assumption.
Qed.

(* the contrapositive reading of the property: what the language rejects the compiler refuses *)
Corollary ill_formed_rejected : forall sc, ~ well_formed sc -> compile sc = None.
Proof.
  intros sc NW. destruct (compile sc) as [p|] eqn:E; [|reflexivity]. destruct NW. eapply compile_well_formed; eassumption.
Qed.

Corollary ill_formed_not_run : forall sc vars s extra, ~ well_formed sc -> compile_and_run sc vars s extra = Err ECompile.
Proof. intros sc vars s extra NW. unfold compile_and_run. rewrite (ill_formed_rejected sc NW). reflexivity. Qed.

Corollary well_formed_runs : forall sc vars s extra, within_limits sc -> well_formed sc ->
  exists p, compile sc = Some p /\ compile_and_run sc vars s extra = run_program p vars s extra.
Proof.
  intros sc vars s extra L W. pose proof (well_formed_compile sc L W) as H. unfold compile_and_run.
  destruct (compile sc) as [p|]; [|congruence]. exists p. split; reflexivity.
Qed.

(* ---- addresses and leaves, in one statement ----------------------------------------------------------------------------------
   Two source leaves are kept at the same address iff they are the same leaf (same literal account / same variable):
   [find_const] finds a literal again (completeness: [spec_alloc_const], stability: [find_const_app]) and only it
   (soundness: [addr_of_lit]); variables are allocated at distinct fresh addresses ([inv_inj], [inv_bind_var]). *)
Theorem leaf_address_identity : forall G cs k1 k2 j1 j2, inv G cs -> addr_of cs k1 j1 -> addr_of cs k2 j2 ->
  (j1 = j2 <-> k1 = k2).
Proof.
  intros G cs k1 k2 j1 j2 HI A1 A2. split.
  - intros <-. eapply addr_of_inj; eassumption.
  - intros <-. eapply addr_of_fun; eassumption.
Qed.

(* the address the compiler returns for an account expression is the address of its leaf, now and later *)
Theorem account_expr_address : forall G e push cs ty j cs', inv G cs -> visit_expr e push cs = Some ((ty, Some j), cs') ->
  forall k, leaf_key e = Some k -> forall cs'' n, ext cs' cs'' n -> addr_of cs'' k j.
Proof.
  intros G e push cs ty j cs' HI H k Lk cs'' n E. destruct (spec_visit_expr G e push cs HI) as [S _].
  destruct (S _ _ H) as (_ & (_ & _ & Lf) & _). destruct (Lf k Lk) as (j' & Ej & Ad). cbn [snd] in Ej. injection Ej as <-.
  eapply addr_of_ext; eassumption.
Qed.

(* ---- the ordered-source rule, read declaratively -----------------------------------------------------------------------------
   [wf_source] threads the list of leaves seen so far; the same rule without an accumulator:
   an ordered source is well-formed iff every member is, every member but the last is bounded, and the leaves it
   empties (through all nested ordered sources) are pairwise distinct. *)
Lemma disjoint_keys_iff : forall l1 l2, disjoint_keys l1 l2 = true <-> forall k, In k l1 -> ~ In k l2.
Proof.
  intros l1 l2. unfold disjoint_keys. rewrite negb_true_iff. split.
  - intros H k H1 H2. assert (X : existsb (fun k => mem_key k l2) l1 = true); [|congruence].
    apply existsb_exists. exists k. split; [assumption|apply mem_key_in; assumption].
  - intros H. destruct (existsb (fun k => mem_key k l2) l1) eqn:E; [|reflexivity].
    apply existsb_exists in E as (k & H1 & M). apply mem_key_in in M. destruct (H _ H1 M).
Qed.
Lemma NoDup_app_intro : forall A (a b : list A), NoDup a -> NoDup b -> (forall x, In x a -> ~ In x b) -> NoDup (a ++ b).
Proof.
  intros A a b Na Nb D. induction Na as [|x a Hx Na IH]; [exact Nb|]. cbn [app]. constructor.
  - intros I. apply in_app_or in I as [I|I]; [auto|]. apply (D x); [left; reflexivity|assumption].
  - apply IH. intros y Hy. apply D. right; assumption.
Qed.
Lemma NoDup_app_inv : forall A (a b : list A), NoDup (a ++ b) -> NoDup a /\ NoDup b /\ forall x, In x a -> ~ In x b.
Proof.
  intros A a b. induction a as [|x a IH]; cbn [app]; intros H.
  - split; [constructor|]. split; [assumption|]. intros x [].
  - inversion H as [|x' l' Hx N]; subst. destruct (IH N) as (Na & Nb & D). split.
    + constructor; [|assumption]. intros I. apply Hx. apply in_or_app. left; assumption.
    + split; [assumption|]. intros y [<-|Hy]; [|auto]. intros I. apply Hx. apply in_or_app. right; assumption.
Qed.

Definition nodup_spec (G : tenv) (s : source) : Prop := forall all, wf_source G all s = true -> NoDup (emptied_keys s).

Lemma wf_members_spec : forall G all l, Forall (nodup_spec G) l -> forall seen,
  wf_members G all l seen = true <->
  forallb (wf_source G all) l = true /\
  forallb (fun s => negb (src_unbounded s)) (removelast l) = true /\
  NoDup (flat_map emptied_keys l) /\
  (forall k, In k (flat_map emptied_keys l) -> ~ In k seen).
Proof.
  intros G all l F. induction F as [|s1 rest P1 _ IH]; intros seen.
  - cbn. split; [intros _|reflexivity]. repeat split; try reflexivity; [constructor|intros k []].
  - rewrite wf_members_cons, !andb_true_iff, IH, disjoint_keys_iff. cbn [forallb flat_map]. rewrite andb_true_iff. split.
    + intros (((W1 & B1) & D1) & Wr & Br & Nr & Dr). split; [auto|]. split.
      { destruct rest as [|s2 rest']; [reflexivity|]. cbn [removelast forallb] in *. rewrite andb_true_iff. split; [|exact Br].
        cbn [is_nil] in B1. rewrite orb_false_r in B1. exact B1. }
      split.
      { apply NoDup_app_intro; [apply (P1 all W1)|assumption|].
        intros k H1 H2. apply (Dr _ H2). apply in_or_app. left; assumption. }
      intros k Hk Hs. apply in_app_or in Hk as [Hk|Hk]; [apply (D1 _ Hk Hs)|]. apply (Dr _ Hk). apply in_or_app. right; assumption.
    + intros ((W1 & Wr) & B & N & D). apply NoDup_app_inv in N as (N1 & Nr & D1r). split; [split; [split|]|].
      * exact W1.
      * destruct rest as [|s2 rest']; [apply orb_true_r|]. cbn [removelast forallb] in B. apply andb_prop in B as [B _]. rewrite B. reflexivity.
      * intros k Hk. apply D. apply in_or_app. left; assumption.
      * split; [assumption|]. split.
        { destruct rest as [|s2 rest']; [reflexivity|]. cbn [removelast forallb] in B. apply andb_prop in B as [_ B]. exact B. }
        split; [assumption|]. intros k Hk Hs. apply in_app_or in Hs as [Hs|Hs]; [apply (D1r _ Hs Hk)|].
        apply (D k); [apply in_or_app; right; assumption|assumption].
Qed.

Theorem wf_source_nodup : forall G s, nodup_spec G s.
Proof.
  intros G s. induction s as [acc ov|m s IH|l IH] using source_ind2; intros all W.
  - cbn [emptied_keys]. destruct (leaf_key acc); [constructor; [intros []|constructor]|constructor].
  - constructor.
  - rewrite wf_source_inorder in W. apply (wf_members_spec G all l IH) in W as (_ & _ & N & _). exact N.
Qed.

Theorem wf_ordered_source_iff : forall G all l,
  wf_source G all (SInOrder l) = true <->
  forallb (wf_source G all) l = true /\
  forallb (fun s => negb (src_unbounded s)) (removelast l) = true /\
  NoDup (emptied_keys (SInOrder l)).
Proof.
  intros G all l. rewrite wf_source_inorder, wf_members_spec.
  - cbn [emptied_keys]. split; [intros (A & B & C & _); auto|intros (A & B & C); repeat split; auto].
  - apply Forall_forall. intros s _. apply wf_source_nodup.
Qed.
