(* M1 — internal/machine/vm/machine.go: values, instructions, the straight-line interpreter.
   Every Go panic site is an explicit [Panic]; every error return an [Err] with its class. Definitions only. *)
From FL Require Export Numscript.Funding.
Open Scope Z_scope.

Definition str := N.   (* strings are interned by the harness *)

Inductive value :=
| VAccount (a : account)
| VAsset (a : asset)
| VNumber (n : Z)
| VString (s : str)
| VMonetary (a : asset) (n : Z)
| VPortion (p : portion)
| VAllotment (l : list ratio)
| VFunding (f : funding).

Inductive vtype := TAccount | TAsset | TNumber | TString | TMonetary | TPortion | TAllotment | TFunding.
Definition type_of (v : value) : vtype :=
  match v with
  | VAccount _ => TAccount | VAsset _ => TAsset | VNumber _ => TNumber | VString _ => TString
  | VMonetary _ _ => TMonetary | VPortion _ => TPortion | VAllotment _ => TAllotment | VFunding _ => TFunding
  end.
Definition vtype_eqb (a b : vtype) : bool :=
  match a, b with
  | TAccount, TAccount | TAsset, TAsset | TNumber, TNumber | TString, TString | TMonetary, TMonetary
  | TPortion, TPortion | TAllotment, TAllotment | TFunding, TFunding => true
  | _, _ => false
  end.

Inductive opcode :=
| OP_BUMP | OP_DELETE | OP_IADD | OP_ISUB | OP_PRINT | OP_FAIL | OP_ASSET | OP_MONETARY_NEW | OP_MONETARY_ADD
| OP_MONETARY_SUB | OP_MAKE_ALLOTMENT | OP_TAKE_ALL | OP_TAKE_ALWAYS | OP_TAKE | OP_TAKE_MAX | OP_FUNDING_ASSEMBLE
| OP_FUNDING_SUM | OP_FUNDING_REVERSE | OP_ALLOC | OP_REPAY | OP_SEND | OP_TX_META | OP_ACCOUNT_META | OP_SAVE.

(* OP_APUSH carries its 2-byte address; the harness decodes the byte string into this form *)
Inductive instr := IPush (addr : nat) | IOp (o : opcode) | IBad (* unknown opcode byte *).

Inductive eclass :=
| ECompile | EInvalidVars | EMissingVar | EMissingMeta | EBadMetaValue | ENegBalance | EResolveOther
| EInsufficient | EInvalidScript | EScriptFailed | EResNotFound | EOtherRun | EMetaOverride.

Inductive psite :=
| PPopEmpty | PPopType | PBumpRange | PSaveNilMap | PSaveType | PRepayNilMap | PStackNotEmpty | PNoInstr | PMetaString
| PResolveType.

Inductive outcome (A : Type) := Done (a : A) | Err (e : eclass) | Panic (p : psite).
Arguments Done {A} a.
Arguments Err {A} e.
Arguments Panic {A} p.

Definition bind {A B} (o : outcome A) (f : A -> outcome B) : outcome B :=
  match o with Done a => f a | Err e => Err e | Panic p => Panic p end.
Notation "'do' x <- o ; f" := (bind o (fun x => f)) (at level 200, x name, o at level 100, f at level 200, right associativity).
Notation "'do' ' p <- o ; f" := (bind o (fun x => match x with p => f end))
  (at level 200, p pattern, o at level 100, f at level 200, right associativity).

Record posting := { p_src : account; p_dst : account; p_asset : asset; p_amount : Z }.

(* balances: entries exist only for (account, asset) pairs the machine tracks *)
Definition balances := list (account * asset * Z).
Fixpoint bal_get (b : balances) (a : account) (s : asset) : option Z :=
  match b with
  | [] => None
  | (a', s', z) :: r => if N.eqb a a' && N.eqb s s' then Some z else bal_get r a s
  end.
Fixpoint bal_set (b : balances) (a : account) (s : asset) (z : Z) : balances :=
  match b with
  | [] => [(a, s, z)]
  | (a', s', z') :: r => if N.eqb a a' && N.eqb s s' then (a, s, z) :: r else (a', s', z') :: bal_set r a s z
  end.
Definition bal_has_account (b : balances) (a : account) : bool :=
  existsb (fun e => N.eqb a (fst (fst e))) b.

Record mstate := {
  stack : list value;            (* head = top *)
  bals : balances;
  posts : list posting;          (* in emission order *)
  txmeta : list (str * value);   (* last write wins; kept as a log, read through [meta_get] *)
  accmeta : list (account * str * value);
  printed : list value
}.

Definition set_stack (st : mstate) (s : list value) : mstate :=
  {| stack := s; bals := bals st; posts := posts st; txmeta := txmeta st; accmeta := accmeta st; printed := printed st |}.
Definition set_bals (st : mstate) (b : balances) : mstate :=
  {| stack := stack st; bals := b; posts := posts st; txmeta := txmeta st; accmeta := accmeta st; printed := printed st |}.
Definition push (st : mstate) (v : value) : mstate := set_stack st (v :: stack st).

Definition pop (st : mstate) : outcome (value * mstate) :=
  match stack st with
  | [] => Panic PPopEmpty
  | v :: r => Done (v, set_stack st r)
  end.
Definition pop_number st := do '(v, st') <- pop st; match v with VNumber n => Done (n, st') | _ => Panic PPopType end.
Definition pop_asset st := do '(v, st') <- pop st; match v with VAsset a => Done (a, st') | _ => Panic PPopType end.
Definition pop_account st := do '(v, st') <- pop st; match v with VAccount a => Done (a, st') | _ => Panic PPopType end.
Definition pop_string st := do '(v, st') <- pop st; match v with VString a => Done (a, st') | _ => Panic PPopType end.
Definition pop_monetary st := do '(v, st') <- pop st; match v with VMonetary a n => Done ((a, n), st') | _ => Panic PPopType end.
Definition pop_portion st := do '(v, st') <- pop st; match v with VPortion p => Done (p, st') | _ => Panic PPopType end.
Definition pop_allotment st := do '(v, st') <- pop st; match v with VAllotment p => Done (p, st') | _ => Panic PPopType end.
Definition pop_funding st := do '(v, st') <- pop st; match v with VFunding p => Done (p, st') | _ => Panic PPopType end.

Fixpoint pop_n_portions (n : nat) (st : mstate) : outcome (list portion * mstate) :=
  match n with
  | O => Done ([], st)
  | S k => do '(p, st1) <- pop_portion st; do '(ps, st2) <- pop_n_portions k st1; Done (p :: ps, st2)
  end.

(* withdrawAll / withdrawAlways / credit / repay *)
Definition withdraw_all (b : balances) (a : account) (s : asset) (overdraft : Z) : option (funding * balances) :=
  match bal_get b a s with
  | None => None
  | Some bal =>
      let bo := bal + overdraft in
      if 0 <? bo then Some ({| f_asset := s; f_parts := [(a, bo)] |}, bal_set b a s (- overdraft))
      else Some ({| f_asset := s; f_parts := [(a, 0)] |}, b)
  end.
Definition withdraw_always (b : balances) (a : account) (s : asset) (amt : Z) : option (funding * balances) :=
  match bal_get b a s with
  | None => None
  | Some bal => Some ({| f_asset := s; f_parts := [(a, amt)] |}, bal_set b a s (bal - amt))
  end.
Definition credit (b : balances) (dest : account) (f : funding) : balances :=
  if N.eqb dest world then b
  else match bal_get b dest (f_asset f) with
       | None => b
       | Some bal => bal_set b dest (f_asset f) (bal + total f)
       end.
Fixpoint repay (b : balances) (s : asset) (ps : list part) : option balances :=   (* None = write to a nil map *)
  match ps with
  | [] => Some b
  | (a, amt) :: r =>
      if N.eqb a world then repay b s r
      else if bal_has_account b a then
        repay (bal_set b a s (match bal_get b a s with Some z => z | None => 0 end + amt)) s r
      else None
  end.

(* the n fundings popped by OP_FUNDING_ASSEMBLE: first popped = last in the result *)
Fixpoint pop_n_fundings (n : nat) (s : asset) (st : mstate) : outcome (list funding * mstate) :=
  match n with
  | O => Done ([], st)
  | S k => do '(f, st1) <- pop_funding st;
           if N.eqb (f_asset f) s then do '(fs, st2) <- pop_n_fundings k s st1; Done (f :: fs, st2)
           else Err EInvalidScript
  end.

Definition Z_to_count (n : Z) : nat := Z.to_nat n.

Definition exec_op (o : opcode) (st : mstate) : outcome mstate :=
  match o with
  | OP_BUMP =>
      do '(n, st1) <- pop_number st;
      let k := Z.to_nat n in
      if (n <? 0) || Nat.leb (length (stack st1)) k then Panic PBumpRange
      else match nth_error (stack st1) k with
           | None => Panic PBumpRange
           | Some v => Done (set_stack st1 (v :: firstn k (stack st1) ++ skipn (S k) (stack st1)))
           end
  | OP_DELETE =>
      do '(v, st1) <- pop st;
      match v with VFunding _ => Err EInvalidScript | _ => Done st1 end
  | OP_IADD => do '(b, st1) <- pop_number st; do '(a, st2) <- pop_number st1; Done (push st2 (VNumber (a + b)))
  | OP_ISUB => do '(b, st1) <- pop_number st; do '(a, st2) <- pop_number st1; Done (push st2 (VNumber (a - b)))
  | OP_PRINT =>
      do '(v, st1) <- pop st;
      Done {| stack := stack st1; bals := bals st1; posts := posts st1; txmeta := txmeta st1; accmeta := accmeta st1;
              printed := printed st1 ++ [v] |}
  | OP_FAIL => Err EScriptFailed
  | OP_ASSET =>
      do '(v, st1) <- pop st;
      match v with
      | VAsset a => Done (push st1 (VAsset a))
      | VMonetary a _ => Done (push st1 (VAsset a))
      | VFunding f => Done (push st1 (VAsset (f_asset f)))
      | _ => Err EInvalidScript
      end
  | OP_MONETARY_NEW =>
      do '(n, st1) <- pop_number st; do '(a, st2) <- pop_asset st1; Done (push st2 (VMonetary a n))
  | OP_MONETARY_ADD =>
      do '((ab, nb), st1) <- pop_monetary st; do '((aa, na), st2) <- pop_monetary st1;
      if N.eqb aa ab then Done (push st2 (VMonetary aa (na + nb))) else Err EInvalidScript
  | OP_MONETARY_SUB =>
      do '((ab, nb), st1) <- pop_monetary st; do '((aa, na), st2) <- pop_monetary st1;
      if N.eqb aa ab then Done (push st2 (VMonetary aa (na - nb))) else Err EOtherRun
  | OP_MAKE_ALLOTMENT =>
      do '(n, st1) <- pop_number st;
      do '(ps, st2) <- pop_n_portions (Z.to_nat n) st1;
      match new_allotment ps with
      | inl _ => Err EInvalidScript
      | inr a => Done (push st2 (VAllotment a))
      end
  | OP_TAKE_ALL =>
      do '((s, ov), st1) <- pop_monetary st; do '(a, st2) <- pop_account st1;
      match withdraw_all (bals st2) a s ov with
      | None => Err EInvalidScript
      | Some (f, b) => Done (push (set_bals st2 b) (VFunding f))
      end
  | OP_TAKE_ALWAYS =>
      do '((s, amt), st1) <- pop_monetary st; do '(a, st2) <- pop_account st1;
      match withdraw_always (bals st2) a s amt with
      | None => Err EInvalidScript
      | Some (f, b) => Done (push (set_bals st2 b) (VFunding f))
      end
  | OP_TAKE =>
      do '((s, amt), st1) <- pop_monetary st; do '(f, st2) <- pop_funding st1;
      if negb (N.eqb (f_asset f) s) then Err EInvalidScript
      else match take f amt with
           | None => Err EInsufficient
           | Some (res, rem) => Done (push (push st2 (VFunding rem)) (VFunding res))
           end
  | OP_TAKE_MAX =>
      do '((s, amt), st1) <- pop_monetary st;
      if amt <? 0 then Err EOtherRun
      else
        do '(f, st2) <- pop_funding st1;
        if negb (N.eqb (f_asset f) s) then Err EInvalidScript
        else
          let tot := total f in
          let missing := if tot <? amt then amt - tot else 0 in
          let '(res, rem) := take_max f amt in
          Done (push (push (push st2 (VMonetary s missing)) (VFunding rem)) (VFunding res))
  | OP_FUNDING_ASSEMBLE =>
      do '(n, st1) <- pop_number st;
      match Z.to_nat n with
      | O => Err EInvalidScript
      | S k =>
          do '(first, st2) <- pop_funding st1;
          do '(others, st3) <- pop_n_fundings k (f_asset first) st2;
          (* first popped is concatenated last *)
          let parts := fold_left (fun acc f => concat_parts acc (f_parts f)) (rev (first :: others)) [] in
          Done (push st3 (VFunding {| f_asset := f_asset first; f_parts := parts |}))
      end
  | OP_FUNDING_SUM =>
      do '(f, st1) <- pop_funding st;
      Done (push (push st1 (VFunding f)) (VMonetary (f_asset f) (total f)))
  | OP_FUNDING_REVERSE => do '(f, st1) <- pop_funding st; Done (push st1 (VFunding (freverse f)))
  | OP_ALLOC =>
      do '(a, st1) <- pop_allotment st; do '((s, amt), st2) <- pop_monetary st1;
      let parts := allocate a amt in
      (* pushed from the last to the first: the first share ends on top *)
      Done (set_stack st2 (map (fun x => VMonetary s x) parts ++ stack st2))
  | OP_REPAY =>
      do '(f, st1) <- pop_funding st;
      match repay (bals st1) (f_asset f) (f_parts f) with
      | None => Panic PRepayNilMap
      | Some b => Done (set_bals st1 b)
      end
  | OP_SEND =>
      do '(dest, st1) <- pop_account st; do '(f, st2) <- pop_funding st1;
      let b := credit (bals st2) dest f in
      let ps := map (fun p => {| p_src := fst p; p_dst := dest; p_asset := f_asset f; p_amount := snd p |}) (f_parts f) in
      Done {| stack := stack st2; bals := b; posts := posts st2 ++ ps; txmeta := txmeta st2; accmeta := accmeta st2;
              printed := printed st2 |}
  | OP_TX_META =>
      do '(k, st1) <- pop_string st; do '(v, st2) <- pop st1;
      Done {| stack := stack st2; bals := bals st2; posts := posts st2; txmeta := txmeta st2 ++ [(k, v)];
              accmeta := accmeta st2; printed := printed st2 |}
  | OP_ACCOUNT_META =>
      do '(a, st1) <- pop_account st; do '(k, st2) <- pop_string st1; do '(v, st3) <- pop st2;
      Done {| stack := stack st3; bals := bals st3; posts := posts st3; txmeta := txmeta st3;
              accmeta := accmeta st3 ++ [(a, k, v)]; printed := printed st3 |}
  | OP_SAVE =>
      do '(a, st1) <- pop_account st; do '(v, st2) <- pop st1;
      match v with
      | VAsset s =>
          (* only a tracked, positive balance is lowered; untracked pairs are left alone *)
          match bal_get (bals st2) a s with
          | Some z => if 0 <? z then Done (set_bals st2 (bal_set (bals st2) a s 0)) else Done st2
          | None => Done st2
          end
      | VMonetary s amt =>
          if amt <? 0 then Err EOtherRun
          else match bal_get (bals st2) a s with
               | Some z => Done (set_bals st2 (bal_set (bals st2) a s (z - amt)))
               | None => Done st2
               end
      | _ => Panic PSaveType
      end
  end.

Definition exec_instr (res : list value) (i : instr) (st : mstate) : outcome mstate :=
  match i with
  | IPush addr => match nth_error res addr with
                  | Some v => Done (push st v)
                  | None => Err EResNotFound
                  end
  | IOp o => exec_op o st
  | IBad => Err EInvalidScript
  end.

(* straight-line code: a fold; no jumps exist in the instruction set, so the program counter of machine.go
   strictly increases and execution takes exactly [length code] ticks unless it stops early *)
Fixpoint exec (res : list value) (code : list instr) (st : mstate) : outcome mstate :=
  match code with
  | [] => Done st
  | i :: r => do st' <- exec_instr res i st; exec res r st'
  end.

Definition init_state (b : balances) : mstate :=
  {| stack := []; bals := b; posts := []; txmeta := []; accmeta := []; printed := [] |}.

(* Machine.Execute: an empty program indexes Instructions[0]; a non-empty stack at the end panics *)
Definition execute (res : list value) (code : list instr) (b : balances) : outcome mstate :=
  match code with
  | [] => Panic PNoInstr
  | _ => do st <- exec res code (init_state b);
         match stack st with [] => Done st | _ => Panic PStackNotEmpty end
  end.
