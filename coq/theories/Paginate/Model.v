(* M5 — model of libs/bun/bunpaginate (UsingColumn, UsingOffset, the cursor codec, GetPageSize), of the JSON
   form of the filter builders of libs/query, and of the two pieces of glue the enumeration property depends on
   (ledger restriction of the listings in internal/storage/ledgerstore, page-size parsing).
   Definitions only; proofs are in Paginate/Proofs.v, property theorems in Properties/C17.v.

   The database is abstracted by [fetch]: "the first size+1 keys, in the effective order, that satisfy the
   bound" over the list of sort keys the query ranges over (in table order). Everything after the Scan of
   pagination_column.go is reproduced line by line by [page]. *)
From Coq Require Export List Bool Arith ZArith NArith String.
Export ListNotations.
Local Open Scope string_scope.
Local Open Scope list_scope.
Local Open Scope nat_scope.

(* ---- orders ------------------------------------------------------------------------------------------ *)
(* bunpaginate.OrderAsc = 0, OrderDesc = 1; Order.Reverse = (o+1)%2 *)
Inductive order := Asc | Desc.
Definition order_reverse (o : order) : order := match o with Asc => Desc | Desc => Asc end.

(* a comes no later than b / strictly before b, in the order *)
Definition ole (o : order) (a b : Z) : bool := match o with Asc => Z.leb a b | Desc => Z.leb b a end.
Definition olt (o : order) (a b : Z) : bool := match o with Asc => Z.ltb a b | Desc => Z.ltb b a end.

(* ORDER BY: a stable sort (rows with equal keys stay in table order; the fake driver does the same) *)
Fixpoint insert (o : order) (x : Z) (l : list Z) : list Z :=
  match l with
  | [] => [x]
  | y :: r => if ole o x y then x :: y :: r else y :: insert o x r
  end.
Fixpoint sort (o : order) (l : list Z) : list Z :=
  match l with
  | [] => []
  | x :: r => insert o x (sort o r)
  end.

(* ---- JSON values and filter expressions ---------------------------------------------------------------- *)
Inductive json :=
| JNull
| JBool (b : bool)
| JNum (z : Z)
| JStr (s : string)
| JArr (l : list json)
| JObj (fs : list (string * json)).

(* libs/query/expression.go: set{operator, items}, not{expression}, keyValue{operator, key, value} *)
Inductive setop := SAnd | SOr.
Inductive kvop := OpMatch | OpLt | OpLte | OpGt | OpGte.
Inductive qexpr :=
| QSet (op : setop) (items : list qexpr)
| QNot (e : qexpr)
| QKV (op : kvop) (key : string) (value : json).

(* ledgerstore.PITFilterWithVolumes, ledgerstore.PaginatedQueryOptions[T] (T = PITFilterWithVolumes, or any = nil
   for the log listing) *)
Record pitopts := { po_pit : option string; po_volumes : bool; po_evolumes : bool }.
Record qopts := { qo_qb : option qexpr; qo_psize : nat; qo_options : option pitopts }.

(* bunpaginate.ColumnPaginatedQuery / OffsetPaginatedQuery, fields in declaration order *)
Record colq := { c_size : nat; c_bottom : option Z; c_column : string; c_pid : option Z; c_order : order;
                 c_opts : qopts; c_reverse : bool }.
Record offq := { f_offset : nat; f_order : order; f_size : nat; f_opts : qopts }.

Definition set_bottom (q : colq) (b : option Z) : colq :=
  {| c_size := c_size q; c_bottom := b; c_column := c_column q; c_pid := c_pid q; c_order := c_order q;
     c_opts := c_opts q; c_reverse := c_reverse q |}.
Definition set_pid (q : colq) (p : Z) : colq :=
  {| c_size := c_size q; c_bottom := c_bottom q; c_column := c_column q; c_pid := Some p; c_order := c_order q;
     c_opts := c_opts q; c_reverse := c_reverse q |}.
Definition set_reverse (q : colq) (r : bool) : colq :=
  {| c_size := c_size q; c_bottom := c_bottom q; c_column := c_column q; c_pid := c_pid q; c_order := c_order q;
     c_opts := c_opts q; c_reverse := r |}.
Definition set_offset (q : offq) (o : nat) : offq :=
  {| f_offset := o; f_order := f_order q; f_size := f_size q; f_opts := f_opts q |}.

(* ---- UsingColumn ------------------------------------------------------------------------------------- *)
(* the WHERE clause added by pagination_column.go:27-41 *)
Definition bound (q : colq) (k : Z) : bool :=
  match c_pid q with
  | None => true
  | Some p => if c_reverse q then olt (c_order q) k p      (* Asc: k < p   Desc: k > p  *)
              else ole (c_order q) p k                      (* Asc: k >= p  Desc: k <= p *)
  end.
Definition eff_order (q : colq) : order := if c_reverse q then order_reverse (c_order q) else c_order q.

(* SELECT ... WHERE bound ORDER BY column eff_order LIMIT size+1 *)
Definition fetch (rows : list Z) (q : colq) : list Z :=
  firstn (S (c_size q)) (sort (eff_order q) (filter (bound q) rows)).

Inductive outcome (A : Type) := Ok (a : A) | Panic.
Arguments Ok {A} a.
Arguments Panic {A}.

(* api.Cursor: Data, PageSize, HasMore, Previous, Next (the two cursors before base64(json(.))) *)
Record cursor := { k_data : list Z; k_size : nat; k_has_more : bool; k_previous : option colq; k_next : option colq }.

Definition page (rows : list Z) (q : colq) : outcome cursor :=
  let ret := fetch rows q in
  (* if query.Bottom == nil { query.Bottom = first id } *)
  let q1 := match c_bottom q with Some _ => q | None => set_bottom q (hd_error ret) end in
  let hasMore := c_size q <? List.length ret in
  let ret1 := if hasMore then removelast ret else ret in
  if c_reverse q then
    let data := rev ret1 in
    let next := Some (set_reverse q1 false) in
    if hasMore then
      (* paginationIDs[len(paginationIDs)-2] *)
      if List.length ret <? 2 then Panic
      else match nth_error ret (List.length ret - 2) with
           | Some p => Ok {| k_data := data; k_size := c_size q; k_has_more := true;
                             k_previous := Some (set_pid q1 p); k_next := next |}
           | None => Panic
           end
    else Ok {| k_data := data; k_size := c_size q; k_has_more := true; k_previous := None; k_next := next |}
  else
    let next := if hasMore then option_map (set_pid q1) (nth_error ret (List.length ret - 1)) else None in
    match c_pid q1 with
    | None => Ok {| k_data := ret1; k_size := c_size q; k_has_more := hasMore; k_previous := None; k_next := next |}
    | Some p =>
        match c_bottom q1 with
        | None => Panic                                   (* PaginationID.Cmp(nil) *)
        | Some b =>
            let previous := if olt (c_order q) b p then Some (set_reverse q1 true) else None in
            Ok {| k_data := ret1; k_size := c_size q; k_has_more := hasMore; k_previous := previous; k_next := next |}
        end
    end.

(* the first page of a listing: NewGetTransactionsQuery / NewGetLogsQuery *)
Definition first_query (n : nat) (o : order) (col : string) (opts : qopts) : colq :=
  {| c_size := n; c_bottom := None; c_column := col; c_pid := None; c_order := o; c_opts := opts; c_reverse := false |}.

(* a client following `next` (bunpaginate.Iterate, api.FetchAllPaginated), at most [fuel] requests *)
Fixpoint walk (rows : list Z) (fuel : nat) (q : colq) : list cursor :=
  match fuel with
  | 0 => []
  | S f => match page rows q with
           | Panic => []
           | Ok c => c :: match k_next c with Some q' => walk rows f q' | None => [] end
           end
  end.

(* one step back: the page designated by `previous` *)
Definition prev_page (rows : list Z) (c : cursor) : option cursor :=
  match k_previous c with
  | None => None
  | Some q => match page rows q with Ok c' => Some c' | Panic => None end
  end.
Fixpoint back (rows : list Z) (j : nat) (c : cursor) : option cursor :=
  match j with
  | 0 => Some c
  | S j' => match prev_page rows c with Some c' => back rows j' c' | None => None end
  end.
Definition next_page (rows : list Z) (c : cursor) : option cursor :=
  match k_next c with
  | None => None
  | Some q => match page rows q with Ok c' => Some c' | Panic => None end
  end.

(* ---- UsingOffset ------------------------------------------------------------------------------------- *)
(* [rows] is the result of the caller's query in the caller's ORDER BY; UsingOffset adds OFFSET and LIMIT only *)
Record ocursor := { ok_data : list Z; ok_size : nat; ok_has_more : bool; ok_previous : option offq; ok_next : option offq }.

Definition fetch_off (rows : list Z) (q : offq) : list Z :=
  let r := skipn (f_offset q) rows in
  if 0 <? f_size q then firstn (S (f_size q)) r else r.

Definition page_off (rows : list Z) (q : offq) : ocursor :=
  let ret := fetch_off rows q in
  let previous := if 0 <? f_offset q then Some (set_offset q (f_offset q - f_size q)) else None in
  let more := negb (f_size q =? 0) && (f_size q <? List.length ret) in
  {| ok_data := if more then removelast ret else ret; ok_size := f_size q; ok_has_more := more;
     ok_previous := previous; ok_next := if more then Some (set_offset q (f_offset q + f_size q)) else None |}.

Definition first_offq (n : nat) (o : order) (opts : qopts) : offq :=
  {| f_offset := 0; f_order := o; f_size := n; f_opts := opts |}.

Fixpoint walk_off (rows : list Z) (fuel : nat) (q : offq) : list ocursor :=
  match fuel with
  | 0 => []
  | S f => let c := page_off rows q in
           c :: match ok_next c with Some q' => walk_off rows f q' | None => [] end
  end.
Definition prev_page_off (rows : list Z) (c : ocursor) : option ocursor := option_map (page_off rows) (ok_previous c).

(* ---- cursor codec: query <-> JSON value (base64 is left to the tie) -------------------------------------- *)
Definition set_key (op : setop) : string := match op with SAnd => "$and" | SOr => "$or" end.
Definition kv_key (op : kvop) : string :=
  match op with OpMatch => "$match" | OpLt => "$lt" | OpLte => "$lte" | OpGt => "$gt" | OpGte => "$gte" end.

(* MarshalJSON of set / not / keyValue *)
Fixpoint enc_qexpr (e : qexpr) : json :=
  match e with
  | QSet op items => JObj [(set_key op, JArr (map enc_qexpr items))]
  | QNot e' => JObj [("$not", enc_qexpr e')]
  | QKV op k v => JObj [(kv_key op, JObj [(k, v)])]
  end.

Definition dec_kvop (s : string) : option kvop :=
  if String.eqb s "$match" then Some OpMatch else if String.eqb s "$lt" then Some OpLt
  else if String.eqb s "$lte" then Some OpLte else if String.eqb s "$gt" then Some OpGt
  else if String.eqb s "$gte" then Some OpGte else None.

Definition omap {A B} (f : A -> option B) : list A -> option (list B) :=
  fix go (l : list A) : option (list B) :=
    match l with
    | [] => Some []
    | x :: r => match f x, go r with
                | Some y, Some ys => Some (y :: ys)
                | _, _ => None
                end
    end.

(* query.ParseJSON / mapMapToExpression: a single-key object; $and/$or over an array of objects; $not over an
   object; the comparison operators over a single-key object *)
Fixpoint dec_qexpr (j : json) : option qexpr :=
  match j with
  | JObj [(k, v)] =>
      if String.eqb k "$and" || String.eqb k "$or" then
        match v with
        | JArr l =>
            match omap dec_qexpr l with
            | Some es => Some (QSet (if String.eqb k "$and" then SAnd else SOr) es)
            | None => None
            end
        | _ => None
        end
      else if String.eqb k "$not" then
        match dec_qexpr v with Some e => Some (QNot e) | None => None end
      else match dec_kvop k, v with
           | Some op, JObj [(key, value)] => Some (QKV op key value)
           | _, _ => None
           end
  | _ => None
  end.

Fixpoint field (k : string) (fs : list (string * json)) : option json :=
  match fs with
  | [] => None
  | (k', v) :: r => if String.eqb k k' then Some v else field k r
  end.

Definition enc_oz (o : option Z) : json := match o with Some z => JNum z | None => JNull end.
Definition enc_nat (n : nat) : json := JNum (Z.of_nat n).
Definition enc_order (o : order) : json := JNum (match o with Asc => 0 | Desc => 1 end)%Z.
Definition enc_ostr (o : option string) : json := match o with Some s => JStr s | None => JNull end.

Definition enc_pitopts (p : pitopts) : json :=
  JObj [("pit", enc_ostr (po_pit p)); ("volumes", JBool (po_volumes p)); ("effectiveVolumes", JBool (po_evolumes p))].
Definition enc_qopts (o : qopts) : json :=
  JObj [("qb", match qo_qb o with Some e => enc_qexpr e | None => JNull end);
        ("pageSize", enc_nat (qo_psize o));
        ("options", match qo_options o with Some p => enc_pitopts p | None => JNull end)].
Definition enc_colq (q : colq) : json :=
  JObj [("pageSize", enc_nat (c_size q)); ("bottom", enc_oz (c_bottom q)); ("column", JStr (c_column q));
        ("paginationID", enc_oz (c_pid q)); ("order", enc_order (c_order q)); ("filters", enc_qopts (c_opts q));
        ("reverse", JBool (c_reverse q))].
Definition enc_offq (q : offq) : json :=
  JObj [("offset", enc_nat (f_offset q)); ("order", enc_order (f_order q)); ("pageSize", enc_nat (f_size q));
        ("filters", enc_qopts (f_opts q))].

(* decoding: a missing member leaves the zero value, a member of the wrong type is an error (encoding/json) *)
Definition dec_nat (j : option json) : option nat :=
  match j with
  | None => Some 0
  | Some (JNum z) => if (0 <=? z)%Z then Some (Z.to_nat z) else None
  | _ => None
  end.
Definition dec_oz (j : option json) : option (option Z) :=
  match j with None | Some JNull => Some None | Some (JNum z) => Some (Some z) | _ => None end.
Definition dec_bool (j : option json) : option bool :=
  match j with None | Some JNull => Some false | Some (JBool b) => Some b | _ => None end.
Definition dec_str (j : option json) : option string :=
  match j with None | Some JNull => Some EmptyString | Some (JStr s) => Some s | _ => None end.
Definition dec_ostr (j : option json) : option (option string) :=
  match j with None | Some JNull => Some None | Some (JStr s) => Some (Some s) | _ => None end.
Definition dec_order (j : option json) : option order :=
  match j with
  | None => Some Asc
  | Some (JNum z) => if (z =? 0)%Z then Some Asc else if (z =? 1)%Z then Some Desc else None
  | _ => None
  end.

Definition dec_pitopts (j : option json) : option (option pitopts) :=
  match j with
  | None | Some JNull => Some None
  | Some (JObj fs) =>
      match dec_ostr (field "pit" fs), dec_bool (field "volumes" fs), dec_bool (field "effectiveVolumes" fs) with
      | Some p, Some v, Some e => Some (Some {| po_pit := p; po_volumes := v; po_evolumes := e |})
      | _, _, _ => None
      end
  | _ => None
  end.

(* PaginatedQueryOptions.UnmarshalJSON: qb absent or null = no filter, otherwise query.ParseJSON *)
Definition dec_qb (j : option json) : option (option qexpr) :=
  match j with
  | None | Some JNull => Some None
  | Some v => match dec_qexpr v with Some e => Some (Some e) | None => None end
  end.

Definition dec_qopts_with (dqb : option json -> option (option qexpr)) (j : option json) : option qopts :=
  match j with
  | None | Some JNull => Some {| qo_qb := None; qo_psize := 0; qo_options := None |}
  | Some (JObj fs) =>
      match dqb (field "qb" fs), dec_nat (field "pageSize" fs), dec_pitopts (field "options" fs) with
      | Some qb, Some n, Some o => Some {| qo_qb := qb; qo_psize := n; qo_options := o |}
      | _, _, _ => None
      end
  | _ => None
  end.

Definition dec_colq_with (dqb : option json -> option (option qexpr)) (j : json) : option colq :=
  match j with
  | JObj fs =>
      match dec_nat (field "pageSize" fs), dec_oz (field "bottom" fs), dec_str (field "column" fs),
            dec_oz (field "paginationID" fs), dec_order (field "order" fs),
            dec_qopts_with dqb (field "filters" fs), dec_bool (field "reverse" fs) with
      | Some n, Some b, Some col, Some p, Some o, Some f, Some r =>
          Some {| c_size := n; c_bottom := b; c_column := col; c_pid := p; c_order := o; c_opts := f; c_reverse := r |}
      | _, _, _, _, _, _, _ => None
      end
  | _ => None
  end.
Definition dec_offq_with (dqb : option json -> option (option qexpr)) (j : json) : option offq :=
  match j with
  | JObj fs =>
      match dec_nat (field "offset" fs), dec_order (field "order" fs), dec_nat (field "pageSize" fs),
            dec_qopts_with dqb (field "filters" fs) with
      | Some off, Some o, Some n, Some f => Some {| f_offset := off; f_order := o; f_size := n; f_opts := f |}
      | _, _, _, _ => None
      end
  | _ => None
  end.

Definition dec_colq := dec_colq_with dec_qb.
Definition dec_offq := dec_offq_with dec_qb.

(* ---- the tree before "fix: cursors carry their filter" (kept for the refutation theorem only) ---------- *)
(* the builders had unexported fields only and no JSON methods: any filter is encoded as {} ; decoding an
   object into the interface type query.Builder is an error *)
Definition enc_qopts_legacy (o : qopts) : json :=
  JObj [("qb", match qo_qb o with Some _ => JObj [] | None => JNull end);
        ("pageSize", enc_nat (qo_psize o));
        ("options", match qo_options o with Some p => enc_pitopts p | None => JNull end)].
Definition enc_colq_legacy (q : colq) : json :=
  JObj [("pageSize", enc_nat (c_size q)); ("bottom", enc_oz (c_bottom q)); ("column", JStr (c_column q));
        ("paginationID", enc_oz (c_pid q)); ("order", enc_order (c_order q)); ("filters", enc_qopts_legacy (c_opts q));
        ("reverse", JBool (c_reverse q))].
Definition dec_qb_legacy (j : option json) : option (option qexpr) :=
  match j with None | Some JNull => Some None | _ => None end.
Definition dec_colq_legacy := dec_colq_with dec_qb_legacy.

(* ---- glue 1: bunpaginate.GetPageSize ------------------------------------------------------------------- *)
Inductive psparam := PAbsent | PInvalid | PNum (n : N).
(* None = ErrInvalidPageSize (HTTP 400); N because the parameter is any 32-bit number *)
Definition get_page_size (dflt max : N) (p : psparam) : option N :=
  match p with
  | PAbsent => Some dflt
  | PInvalid => None
  | PNum n => if N.eqb n 0 then Some dflt else if N.ltb max n then Some max else Some n
  end.
(* before "fix: pageSize=0": zero was handed to the store as is *)
Definition get_page_size_legacy (dflt max : N) (p : psparam) : option N :=
  match p with
  | PAbsent => Some dflt
  | PInvalid => None
  | PNum n => if N.ltb max n then Some max else Some n
  end.

(* ---- glue 2: what a ledger's listing ranges over ---------------------------------------------------------- *)
(* rows of logs / transactions in a bucket: several ledgers share the tables; the unique index is (ledger, id) *)
Record lrow := { lr_ledger : N; lr_id : Z }.
Definition lrow_key (r : lrow) : N * Z := (lr_ledger r, lr_id r).
(* the sort keys the listing of ledger [l] ranges over; [restrict] = the query has `ledger = l` in its WHERE *)
Definition ranged (restrict : bool) (l : N) (t : list lrow) : list Z :=
  map lr_id (if restrict then filter (fun r => N.eqb (lr_ledger r) l) t else t).

(* strings with bytes outside printable ASCII are written by the harness as byte lists *)
Definition bytes_to_string (l : list nat) : string :=
  fold_right (fun n s => String (Ascii.ascii_of_nat n) s) EmptyString l.

(* ---- correspondence: one observation of the real code ---------------------------------------------------- *)
Fixpoint list_eqb {A} (eqb : A -> A -> bool) (l1 l2 : list A) : bool :=
  match l1, l2 with
  | [], [] => true
  | x :: r1, y :: r2 => eqb x y && list_eqb eqb r1 r2
  | _, _ => false
  end.
Definition opt_eqb {A} (eqb : A -> A -> bool) (a b : option A) : bool :=
  match a, b with Some x, Some y => eqb x y | None, None => true | _, _ => false end.

Fixpoint json_eqb (a b : json) : bool :=
  match a, b with
  | JNull, JNull => true
  | JBool x, JBool y => Bool.eqb x y
  | JNum x, JNum y => Z.eqb x y
  | JStr x, JStr y => String.eqb x y
  | JArr x, JArr y =>
      (fix le (l1 l2 : list json) : bool :=
         match l1, l2 with
         | [], [] => true
         | u :: r1, v :: r2 => json_eqb u v && le r1 r2
         | _, _ => false
         end) x y
  | JObj x, JObj y =>
      (fix le (l1 l2 : list (string * json)) : bool :=
         match l1, l2 with
         | [], [] => true
         | (k1, u) :: r1, (k2, v) :: r2 => String.eqb k1 k2 && json_eqb u v && le r1 r2
         | _, _ => false
         end) x y
  | _, _ => false
  end.

Definition setop_eqb (a b : setop) : bool := match a, b with SAnd, SAnd | SOr, SOr => true | _, _ => false end.
Definition kvop_eqb (a b : kvop) : bool :=
  match a, b with
  | OpMatch, OpMatch | OpLt, OpLt | OpLte, OpLte | OpGt, OpGt | OpGte, OpGte => true
  | _, _ => false
  end.
Fixpoint qexpr_eqb (a b : qexpr) : bool :=
  match a, b with
  | QSet o1 l1, QSet o2 l2 =>
      setop_eqb o1 o2 &&
      (fix le (l1 l2 : list qexpr) : bool :=
         match l1, l2 with
         | [], [] => true
         | u :: r1, v :: r2 => qexpr_eqb u v && le r1 r2
         | _, _ => false
         end) l1 l2
  | QNot x, QNot y => qexpr_eqb x y
  | QKV o1 k1 v1, QKV o2 k2 v2 => kvop_eqb o1 o2 && String.eqb k1 k2 && json_eqb v1 v2
  | _, _ => false
  end.
Definition order_eqb (a b : order) : bool := match a, b with Asc, Asc | Desc, Desc => true | _, _ => false end.
Definition pitopts_eqb (a b : pitopts) : bool :=
  opt_eqb String.eqb (po_pit a) (po_pit b) && Bool.eqb (po_volumes a) (po_volumes b)
  && Bool.eqb (po_evolumes a) (po_evolumes b).
Definition qopts_eqb (a b : qopts) : bool :=
  opt_eqb qexpr_eqb (qo_qb a) (qo_qb b) && Nat.eqb (qo_psize a) (qo_psize b)
  && opt_eqb pitopts_eqb (qo_options a) (qo_options b).
Definition colq_eqb (a b : colq) : bool :=
  Nat.eqb (c_size a) (c_size b) && opt_eqb Z.eqb (c_bottom a) (c_bottom b) && String.eqb (c_column a) (c_column b)
  && opt_eqb Z.eqb (c_pid a) (c_pid b) && order_eqb (c_order a) (c_order b) && qopts_eqb (c_opts a) (c_opts b)
  && Bool.eqb (c_reverse a) (c_reverse b).
Definition offq_eqb (a b : offq) : bool :=
  Nat.eqb (f_offset a) (f_offset b) && order_eqb (f_order a) (f_order b) && Nat.eqb (f_size a) (f_size b)
  && qopts_eqb (f_opts a) (f_opts b).

(* what the harness saw: the api.Cursor of one call (cursors decoded from their wire form), or a panic *)
Record obs_col := { oc_panic : bool; oc_data : list Z; oc_size : nat; oc_has_more : bool;
                    oc_previous : option colq; oc_next : option colq }.
Record obs_off := { oo_data : list Z; oo_size : nat; oo_has_more : bool;
                    oo_previous : option offq; oo_next : option offq }.

Inductive case :=
| CaseCol (rows : list Z) (q : colq) (ob : obs_col)        (* one UsingColumn call on a table with these keys *)
| CaseOff (rows : list Z) (q : offq) (ob : obs_off)        (* one UsingOffset call; rows in the query's order *)
| CaseEncCol (q : colq) (wire : json) (accepted : bool)    (* EncodeCursor, then UnmarshalCursor of the result *)
| CaseEncOff (q : offq) (wire : json) (accepted : bool)
| CaseDecCol (wire : json) (decoded : option colq)          (* UnmarshalCursor of a (possibly foreign) document *)
| CasePageSize (dflt max : N) (p : psparam) (res : option N)
| CaseWalkCol (rows : list Z) (n : nat) (o : order) (items : list Z)   (* what a client following next collected *)
| CaseWalkOff (rows : list Z) (n : nat) (items : list Z).

Definition check_case (c : case) : bool :=
  match c with
  | CaseCol rows q ob =>
      match page rows q with
      | Panic => oc_panic ob
      | Ok k => negb (oc_panic ob) && list_eqb Z.eqb (k_data k) (oc_data ob) && Nat.eqb (k_size k) (oc_size ob)
                && Bool.eqb (k_has_more k) (oc_has_more ob)
                && opt_eqb colq_eqb (k_previous k) (oc_previous ob) && opt_eqb colq_eqb (k_next k) (oc_next ob)
      end
  | CaseOff rows q ob =>
      let k := page_off rows q in
      list_eqb Z.eqb (ok_data k) (oo_data ob) && Nat.eqb (ok_size k) (oo_size ob)
      && Bool.eqb (ok_has_more k) (oo_has_more ob)
      && opt_eqb offq_eqb (ok_previous k) (oo_previous ob) && opt_eqb offq_eqb (ok_next k) (oo_next ob)
  | CaseEncCol q wire accepted =>
      json_eqb (enc_colq q) wire && accepted && opt_eqb colq_eqb (dec_colq wire) (Some q)
  | CaseEncOff q wire accepted =>
      json_eqb (enc_offq q) wire && accepted && opt_eqb offq_eqb (dec_offq wire) (Some q)
  | CaseDecCol wire decoded => opt_eqb colq_eqb (dec_colq wire) decoded
  | CasePageSize dflt max p res => opt_eqb N.eqb (get_page_size dflt max p) res
  | CaseWalkCol rows n o items =>
      list_eqb Z.eqb (List.concat (map k_data (walk rows (S (List.length rows))
                                                 (first_query n o "id" {| qo_qb := None; qo_psize := 0; qo_options := None |})))) items
  | CaseWalkOff rows n items =>
      list_eqb Z.eqb (List.concat (map ok_data (walk_off rows (S (List.length rows))
                                                  (first_offq n Asc {| qo_qb := None; qo_psize := 0; qo_options := None |})))) items
  end.

Fixpoint bad_cases {A} (chk : A -> bool) (n : nat) (l : list A) : list nat :=
  match l with
  | [] => []
  | c :: r => if chk c then bad_cases chk (S n) r else n :: bad_cases chk (S n) r
  end.
