(* Lemmas about Paginate/Model.v; the property theorems of Properties/C17.v are closed by [exact] from here. *)
From Coq Require Import Lia ZArith NArith List Bool Arith Sorted Permutation String.
From FL Require Import Paginate.Model.
Import ListNotations.
Local Open Scope list_scope.
Local Open Scope nat_scope.

(* ---- the two orders ------------------------------------------------------------------------------------ *)
Ltac ord o := destruct o; unfold ole, olt, order_reverse in *;
              rewrite ?Z.leb_le, ?Z.ltb_lt, ?Z.leb_gt, ?Z.ltb_ge in *; try lia.

Lemma ole_refl : forall o a, ole o a a = true.
Proof. intros o a. ord o. Qed.
Lemma ole_total : forall o a b, ole o a b = false -> ole o b a = true.
Proof. intros o a b H. ord o. Qed.
Lemma ole_trans : forall o a b c, ole o a b = true -> ole o b c = true -> ole o a c = true.
Proof. intros o a b c H1 H2. ord o. Qed.
Lemma olt_negb_ole : forall o a b, olt o a b = negb (ole o b a).
Proof.
  intros o a b. destruct o; unfold olt, ole.
  - rewrite Z.ltb_antisym. reflexivity.
  - rewrite Z.ltb_antisym. reflexivity.
Qed.
Lemma olt_iff : forall o a b, olt o a b = true <-> ole o a b = true /\ a <> b.
Proof. intros o a b. split; [intros H | intros [H1 H2]]; ord o. Qed.
Lemma olt_irrefl : forall o a, olt o a a = false.
Proof. intros o a. destruct o; unfold olt; apply Z.ltb_irrefl. Qed.
Lemma olt_trans : forall o a b c, olt o a b = true -> olt o b c = true -> olt o a c = true.
Proof. intros o a b c H1 H2. ord o. Qed.
Lemma olt_asym : forall o a b, olt o a b = true -> olt o b a = false.
Proof. intros o a b H. destruct (olt o b a) eqn:E; [|reflexivity]. ord o. Qed.
Lemma olt_ole : forall o a b, olt o a b = true -> ole o a b = true.
Proof. intros o a b H. ord o. Qed.
Lemma olt_not_ole : forall o a b, olt o a b = true -> ole o b a = false.
Proof. intros o a b H. rewrite olt_negb_ole in H. destruct (ole o b a); [discriminate | reflexivity]. Qed.
Lemma olt_reverse : forall o a b, olt (order_reverse o) a b = olt o b a.
Proof. intros o a b. destruct o; reflexivity. Qed.
Lemma olt_trichotomy : forall o a b, olt o a b = true \/ a = b \/ olt o b a = true.
Proof. intros o a b. destruct o; unfold olt; rewrite !Z.ltb_lt; lia. Qed.

(* ---- sorting --------------------------------------------------------------------------------------------- *)
Lemma insert_In : forall o a l x, In x (insert o a l) <-> x = a \/ In x l.
Proof.
  intros o a l x. induction l as [|y r IH]; simpl.
  - intuition.
  - destruct (ole o a y); simpl; [intuition|]. rewrite IH. intuition.
Qed.
Lemma sort_In : forall o l x, In x (sort o l) <-> In x l.
Proof.
  intros o l x. induction l as [|a r IH]; simpl; [tauto|].
  rewrite insert_In, IH. intuition.
Qed.
Lemma insert_perm : forall o a l, Permutation (a :: l) (insert o a l).
Proof.
  intros o a l. induction l as [|y r IH]; simpl; [apply Permutation_refl|].
  destruct (ole o a y); [apply Permutation_refl|].
  eapply perm_trans; [apply perm_swap|]. apply perm_skip. exact IH.
Qed.
Lemma sort_perm : forall o l, Permutation l (sort o l).
Proof.
  intros o l. induction l as [|a r IH]; simpl; [apply perm_nil|].
  eapply perm_trans; [apply perm_skip; exact IH|]. apply insert_perm.
Qed.
Lemma sort_length : forall o l, List.length (sort o l) = List.length l.
Proof. intros o l. symmetry. apply Permutation_length, sort_perm. Qed.
Lemma sort_NoDup : forall o l, NoDup l -> NoDup (sort o l).
Proof. intros o l H. eapply Permutation_NoDup; [apply sort_perm | exact H]. Qed.

(* sorted, and strictly sorted *)
Notation lesorted o := (StronglySorted (fun a b => ole o a b = true)).
Notation strict o := (StronglySorted (fun a b => olt o a b = true)).

Lemma insert_lesorted : forall o a l, lesorted o l -> lesorted o (insert o a l).
Proof.
  intros o a l H. induction H as [|y r Hr IH Hy]; simpl.
  - constructor; constructor.
  - destruct (ole o a y) eqn:E.
    + constructor; [constructor; assumption|].
      constructor; [exact E|]. rewrite Forall_forall in *. intros z Hz. eapply ole_trans; [exact E | auto].
    + constructor; [exact IH|]. rewrite Forall_forall in *. intros z Hz.
      apply insert_In in Hz. destruct Hz as [-> | Hz]; [apply ole_total; exact E | auto].
Qed.
Lemma sort_lesorted : forall o l, lesorted o (sort o l).
Proof. intros o l. induction l as [|a r IH]; simpl; [constructor | apply insert_lesorted; exact IH]. Qed.
Lemma lesorted_strict : forall o l, lesorted o l -> NoDup l -> strict o l.
Proof.
  intros o l H. induction H as [|a r Hr IH Ha]; intros Hnd; [constructor|].
  inversion Hnd as [|? ? Hnin Hnd']; subst. constructor; [auto|].
  rewrite Forall_forall in *. intros z Hz. apply olt_iff. split; [auto|]. intros ->. contradiction.
Qed.
Lemma sort_strict : forall o l, NoDup l -> strict o (sort o l).
Proof. intros o l H. apply lesorted_strict; [apply sort_lesorted | apply sort_NoDup; exact H]. Qed.

Lemma strict_NoDup : forall o l, strict o l -> NoDup l.
Proof.
  intros o l H. induction H as [|a r Hr IH Ha]; constructor; [|exact IH].
  intros Hin. rewrite Forall_forall in Ha. specialize (Ha a Hin). rewrite olt_irrefl in Ha. discriminate.
Qed.

(* a strictly sorted list is determined by its elements *)
Lemma strict_unique : forall o l1 l2, strict o l1 -> strict o l2 -> (forall x, In x l1 <-> In x l2) -> l1 = l2.
Proof.
  intros o l1 l2 H1. revert l2. induction H1 as [|a r Hr IH Ha]; intros l2 H2 Hin.
  - destruct l2 as [|b l2]; [reflexivity|]. exfalso. apply (proj2 (Hin b)). left. reflexivity.
  - inversion H2 as [|b r2 Hr2 Hb]; subst.
    + exfalso. apply (proj1 (Hin a)). left. reflexivity.
    + rewrite Forall_forall in Ha, Hb.
      assert (Hab : a = b).
      { destruct (proj1 (Hin a) (or_introl eq_refl)) as [E | Hin2]; [auto|].
        destruct (proj2 (Hin b) (or_introl eq_refl)) as [E | Hin1]; [auto|].
        specialize (Ha b Hin1). specialize (Hb a Hin2). apply olt_asym in Ha. congruence. }
      subst b. f_equal. apply IH; [exact Hr2|]. intros x. split; intros Hx.
      * destruct (proj1 (Hin x) (or_intror Hx)) as [E | Hx2]; [|exact Hx2].
        subst x. specialize (Ha a Hx). rewrite olt_irrefl in Ha. discriminate.
      * destruct (proj2 (Hin x) (or_intror Hx)) as [E | Hx1]; [|exact Hx1].
        subst x. specialize (Hb a Hx). rewrite olt_irrefl in Hb. discriminate.
Qed.

Lemma strict_app_inv : forall o l1 l2, strict o (l1 ++ l2) ->
  strict o l1 /\ strict o l2 /\ (forall a b, In a l1 -> In b l2 -> olt o a b = true).
Proof.
  intros o l1 l2. induction l1 as [|x r IH]; simpl; intros H.
  - split; [constructor|]. split; [exact H|]. intros a b [].
  - inversion H as [|? ? Hr Hx]; subst. destruct (IH Hr) as (S1 & S2 & S3).
    rewrite Forall_forall in Hx. split.
    + constructor; [exact S1|]. rewrite Forall_forall. intros z Hz. apply Hx, in_or_app. left. exact Hz.
    + split; [exact S2|]. intros a b [-> | Ha] Hb; [apply Hx, in_or_app; right; exact Hb | auto].
Qed.
Lemma strict_app : forall o l1 l2, strict o l1 -> strict o l2 ->
  (forall a b, In a l1 -> In b l2 -> olt o a b = true) -> strict o (l1 ++ l2).
Proof.
  intros o l1 l2 H1 H2 H. induction H1 as [|x r Hr IH Hx]; simpl; [exact H2|].
  constructor.
  - apply IH. intros a b Ha Hb. apply H; [right; exact Ha | exact Hb].
  - rewrite Forall_forall in *. intros z Hz. apply in_app_or in Hz. destruct Hz as [Hz | Hz]; [auto|].
    apply H; [left; reflexivity | exact Hz].
Qed.
Lemma strict_rev : forall o l, strict o l -> strict (order_reverse o) (rev l).
Proof.
  intros o l H. induction H as [|x r Hr IH Hx]; simpl; [constructor|].
  apply strict_app; [exact IH | constructor; constructor|].
  intros a b Ha [<- | []]. rewrite olt_reverse. rewrite Forall_forall in Hx. apply Hx. apply in_rev. exact Ha.
Qed.

(* ---- list facts ------------------------------------------------------------------------------------------ *)
Lemma filter_all : forall (A : Type) (f : A -> bool) (l : list A), (forall x, In x l -> f x = true) -> filter f l = l.
Proof.
  intros A f l H. induction l as [|a r IH]; simpl; [reflexivity|].
  rewrite (H a (or_introl eq_refl)). f_equal. apply IH. intros x Hx. apply H. right. exact Hx.
Qed.
Lemma NoDup_filter : forall (A : Type) (f : A -> bool) (l : list A), NoDup l -> NoDup (filter f l).
Proof.
  intros A f l H. induction H as [|a r Hn Hr IH]; simpl; [constructor|].
  destruct (f a); [|exact IH]. constructor; [|exact IH]. intros Hin. apply filter_In in Hin. tauto.
Qed.

Lemma firstn_S_length : forall (n : nat) (l : list Z), (n <? List.length (firstn (S n) l)) = (n <? List.length l).
Proof.
  intros n l. rewrite firstn_length. destruct (Nat.ltb_spec n (List.length l)) as [H | H].
  - apply Nat.ltb_lt. lia.
  - apply Nat.ltb_ge. lia.
Qed.
Lemma firstn_S_short : forall (n : nat) (l : list Z), List.length l <= n -> firstn (S n) l = l.
Proof. intros n l H. apply firstn_all2. lia. Qed.
Lemma removelast_firstn_S : forall (n : nat) (l : list Z), n < List.length l -> removelast (firstn (S n) l) = firstn n l.
Proof. intros n l H. apply removelast_firstn. exact H. Qed.
Lemma nth_error_firstn_lt : forall (A : Type) (m k : nat) (l : list A), k < m -> nth_error (firstn m l) k = nth_error l k.
Proof.
  intros A m. induction m as [|m IH]; intros k l H; [lia|].
  destruct l as [|a r]; [destruct k; reflexivity|]. destruct k as [|k]; simpl; [reflexivity|]. apply IH. lia.
Qed.
Lemma hd_error_firstn_S : forall (n : nat) (l : list Z), hd_error (firstn (S n) l) = hd_error l.
Proof. intros n l. destruct l; reflexivity. Qed.
Lemma nth_error_app_mid : forall (A : Type) (l1 : list A) (x : A) (l2 : list A), nth_error (l1 ++ x :: l2) (List.length l1) = Some x.
Proof. intros A l1 x l2. rewrite nth_error_app2; [|lia]. rewrite Nat.sub_diag. reflexivity. Qed.
Lemma split_at : forall (A : Type) (i : nat) (l : list A) (x : A), nth_error l i = Some x ->
  l = firstn i l ++ x :: skipn (S i) l.
Proof.
  intros A i. induction i as [|i IH]; intros l x H; destruct l as [|a r]; simpl in *; try discriminate.
  - congruence.
  - f_equal. apply IH. exact H.
Qed.

Lemma nth_error_skipn_add : forall (A : Type) (i k : nat) (l : list A), nth_error (skipn i l) k = nth_error l (i + k).
Proof.
  intros A i. induction i as [|i IH]; intros k l; [reflexivity|].
  destruct l as [|a r]; [destruct k; reflexivity|]. simpl. apply IH.
Qed.
Lemma skipn_add : forall (A : Type) (i k : nat) (l : list A), skipn (i + k) l = skipn k (skipn i l).
Proof.
  intros A i. induction i as [|i IH]; intros k l; [reflexivity|].
  destruct l as [|a r]; [destruct k; reflexivity|]. simpl. apply IH.
Qed.
Lemma nth_error_key : forall (i : nat) (l : list Z), i < List.length l -> nth_error l i = Some (nth i l 0%Z).
Proof. intros i l H. apply nth_error_nth'. exact H. Qed.
Lemma skipn_cons_nth : forall (i : nat) (l : list Z), i < List.length l -> skipn i l = nth i l 0%Z :: skipn (S i) l.
Proof.
  intros i. induction i as [|i IH]; intros l H; destruct l as [|a r]; simpl in *; try lia; [reflexivity|].
  apply IH. lia.
Qed.
Lemma nth_error_rev : forall (k : nat) (l : list Z), k < List.length l -> nth_error (rev l) k = nth_error l (List.length l - S k).
Proof.
  intros k l H. rewrite (nth_error_key k) by (rewrite rev_length; exact H).
  rewrite (nth_error_key (List.length l - S k)) by lia. f_equal. apply rev_nth. exact H.
Qed.
Lemma strict_nth : forall o l i j, strict o l -> i < j -> j < List.length l -> olt o (nth i l 0%Z) (nth j l 0%Z) = true.
Proof.
  intros o l i j H. revert i j. induction H as [|a r Hr IH Ha]; intros i j Hij Hj; simpl in Hj; [lia|].
  destruct j as [|j]; [lia|]. destruct i as [|i]; simpl.
  - rewrite Forall_forall in Ha. apply Ha, nth_In. lia.
  - apply IH; lia.
Qed.

(* ---- UsingColumn over a table with distinct keys ---------------------------------------------------------- *)
Section Column.
  Variables (rows : list Z) (o : order) (n : nat) (col : string) (opts : qopts).
  Hypothesis Hnd : NoDup rows.
  Hypothesis Hn : 1 <= n.

  (* the collection in the order of the listing *)
  Definition srt : list Z := sort o rows.

  Lemma srt_strict : strict o srt.
  Proof. apply sort_strict. exact Hnd. Qed.
  Lemma srt_In : forall x, In x srt <-> In x rows.
  Proof. intros x. apply sort_In. Qed.

  (* the queries of one listing differ by position only *)
  Definition qf (b p : option Z) (r : bool) : colq :=
    {| c_size := n; c_bottom := b; c_column := col; c_pid := p; c_order := o; c_opts := opts; c_reverse := r |}.

  Lemma first_query_qf : first_query n o col opts = qf None None false.
  Proof. reflexivity. Qed.

  Lemma fetch_first : forall b, fetch rows (qf b None false) = firstn (S n) srt.
  Proof.
    intros b. unfold fetch, eff_order, bound. cbn [qf c_pid c_reverse c_order c_size].
    rewrite filter_all by reflexivity. reflexivity.
  Qed.

  Lemma fetch_fwd : forall A p B b, srt = A ++ p :: B -> fetch rows (qf b (Some p) false) = firstn (S n) (p :: B).
  Proof.
    intros A p B b HS. unfold fetch, eff_order, bound. cbn [qf c_pid c_reverse c_order c_size].
    f_equal. pose proof srt_strict as Hs. rewrite HS in Hs. apply strict_app_inv in Hs. destruct Hs as (SA & SB & SAB).
    apply strict_unique with (o := o); [apply sort_strict, NoDup_filter, Hnd | exact SB |].
    intros x. rewrite sort_In, filter_In, <- srt_In, HS, in_app_iff. split.
    - intros [[HA | HB] Hle]; [|exact HB]. exfalso.
      assert (Hlt : olt o x p = true) by (apply SAB; [exact HA | left; reflexivity]).
      apply olt_not_ole in Hlt. congruence.
    - intros HB. split; [right; exact HB|]. destruct HB as [<- | HB]; [apply ole_refl|].
      inversion SB as [|? ? _ Hp]; subst. rewrite Forall_forall in Hp. apply olt_ole, Hp, HB.
  Qed.

  Lemma fetch_rev : forall A p B b, srt = A ++ p :: B -> fetch rows (qf b (Some p) true) = firstn (S n) (rev A).
  Proof.
    intros A p B b HS. unfold fetch, eff_order, bound. cbn [qf c_pid c_reverse c_order c_size].
    f_equal. pose proof srt_strict as Hs. rewrite HS in Hs. apply strict_app_inv in Hs. destruct Hs as (SA & SB & SAB).
    apply strict_unique with (o := order_reverse o); [apply sort_strict, NoDup_filter, Hnd | apply strict_rev, SA |].
    intros x. rewrite sort_In, filter_In, <- srt_In, HS, in_app_iff, <- in_rev. split.
    - intros [[HA | HB] Hlt]; [exact HA|]. exfalso. destruct HB as [<- | HB].
      + rewrite olt_irrefl in Hlt. discriminate.
      + inversion SB as [|? ? _ Hp]; subst. rewrite Forall_forall in Hp. apply Hp in HB. apply olt_asym in HB. congruence.
    - intros HA. split; [left; exact HA|]. apply SAB; [exact HA | left; reflexivity].
  Qed.

  (* the first page *)
  Definition P0 : cursor :=
    {| k_data := firstn n srt; k_size := n; k_has_more := n <? List.length srt; k_previous := None;
       k_next := if n <? List.length srt then option_map (fun p => qf (hd_error srt) (Some p) false) (nth_error srt n) else None |}.

  Lemma page_first : page rows (qf None None false) = Ok P0.
  Proof.
    unfold page, P0. rewrite fetch_first. cbv zeta. cbn [qf c_bottom c_reverse c_size c_pid c_order set_bottom].
    rewrite firstn_S_length, hd_error_firstn_S. destruct (n <? List.length srt) eqn:E.
    - apply Nat.ltb_lt in E. rewrite removelast_firstn_S by exact E. rewrite firstn_length_le by lia.
      replace (S n - 1) with n by lia. rewrite nth_error_firstn_lt by lia.
      destruct (nth_error srt n); reflexivity.
    - apply Nat.ltb_ge in E. rewrite firstn_S_short by exact E. rewrite (firstn_all2 srt) by exact E. reflexivity.
  Qed.

  (* a forward page positioned at [p], and the page `previous` of it designates *)
  Lemma page_fwd : forall A p B b, srt = A ++ p :: B ->
    page rows (qf (Some b) (Some p) false) =
    Ok {| k_data := firstn n (p :: B); k_size := n; k_has_more := n <? List.length (p :: B);
          k_previous := if olt o b p then Some (qf (Some b) (Some p) true) else None;
          k_next := if n <? List.length (p :: B)
                    then option_map (fun p' => qf (Some b) (Some p') false) (nth_error (p :: B) n) else None |}.
  Proof.
    intros A p B b HS. unfold page. rewrite (fetch_fwd A p B (Some b) HS). cbv zeta.
    cbn [qf c_bottom c_reverse c_size c_pid c_order set_bottom set_reverse].
    rewrite firstn_S_length. destruct (n <? List.length (p :: B)) eqn:E.
    - apply Nat.ltb_lt in E. rewrite removelast_firstn_S by exact E. rewrite firstn_length_le by lia.
      replace (S n - 1) with n by lia. rewrite nth_error_firstn_lt by lia.
      destruct (nth_error (p :: B) n); reflexivity.
    - apply Nat.ltb_ge in E. rewrite firstn_S_short by exact E. rewrite (firstn_all2 (p :: B)) by exact E. reflexivity.
  Qed.

  Lemma page_rev : forall A p B b, srt = A ++ p :: B ->
    page rows (qf (Some b) (Some p) true) =
    Ok {| k_data := rev (firstn n (rev A)); k_size := n; k_has_more := true;
          k_previous := if n <? List.length A
                        then option_map (fun p' => qf (Some b) (Some p') true) (nth_error (rev A) (n - 1)) else None;
          k_next := Some (qf (Some b) (Some p) false) |}.
  Proof.
    intros A p B b HS. unfold page. rewrite (fetch_rev A p B (Some b) HS). cbv zeta.
    cbn [qf c_bottom c_reverse c_size c_pid c_order set_bottom set_reverse].
    rewrite firstn_S_length, rev_length. destruct (n <? List.length A) eqn:E.
    - apply Nat.ltb_lt in E. assert (EL : n < List.length (rev A)) by (rewrite rev_length; exact E).
      rewrite removelast_firstn_S by exact EL. rewrite firstn_length_le by lia.
      replace (S n <? 2) with false by (symmetry; apply Nat.ltb_ge; lia).
      replace (S n - 2) with (n - 1) by lia. rewrite nth_error_firstn_lt by lia.
      destruct (nth_error (rev A) (n - 1)) eqn:E2; [reflexivity|].
      apply nth_error_None in E2. lia.
    - apply Nat.ltb_ge in E. assert (EL : List.length (rev A) <= n) by (rewrite rev_length; exact E).
      rewrite firstn_S_short by exact EL. rewrite (firstn_all2 (rev A)) by exact EL. reflexivity.
  Qed.

  (* ---- positions by index in [srt] ---- *)
  Definition bot : option Z := hd_error srt.
  Definition key (i : nat) : Z := nth i srt 0%Z.
  Definition QF (i : nat) : colq := qf bot (Some (key i)) false.
  Definition QR (i : nat) : colq := qf bot (Some (key i)) true.
  Definition PF (i : nat) : cursor :=
    {| k_data := firstn n (skipn i srt); k_size := n; k_has_more := i + n <? List.length srt;
       k_previous := if 0 <? i then Some (QR i) else None;
       k_next := if i + n <? List.length srt then Some (QF (i + n)) else None |}.
  Definition PR (i : nat) : cursor :=
    {| k_data := skipn (i - n) (firstn i srt); k_size := n; k_has_more := true;
       k_previous := if n <? i then Some (QR (i - n)) else None;
       k_next := Some (QF i) |}.

  Lemma bot_key : 0 < List.length srt -> bot = Some (key 0).
  Proof. unfold bot, key. destruct srt; simpl; [lia | reflexivity]. Qed.

  Lemma srt_split : forall i, i < List.length srt -> srt = firstn i srt ++ key i :: skipn (S i) srt.
  Proof. intros i H. apply split_at. apply nth_error_key. exact H. Qed.

  Lemma page_QF : forall i, i < List.length srt -> page rows (QF i) = Ok (PF i).
  Proof.
    intros i Hi. unfold QF. rewrite bot_key by lia.
    rewrite (page_fwd _ _ _ (key 0) (srt_split i Hi)). unfold PF.
    replace (key i :: skipn (S i) srt) with (skipn i srt) by (apply skipn_cons_nth; exact Hi).
    rewrite skipn_length.
    replace (n <? List.length srt - i) with (i + n <? List.length srt)
      by (destruct (Nat.ltb_spec (i + n) (List.length srt)); symmetry; [apply Nat.ltb_lt | apply Nat.ltb_ge]; lia).
    f_equal. f_equal.
    - destruct i as [|i].
      + unfold key. rewrite olt_irrefl. reflexivity.
      + unfold key. rewrite (strict_nth o srt 0 (S i) srt_strict) by lia. unfold QR. rewrite bot_key by lia. reflexivity.
    - destruct (i + n <? List.length srt) eqn:E; [|reflexivity]. apply Nat.ltb_lt in E.
      rewrite nth_error_skipn_add, (nth_error_key (i + n)) by exact E. simpl. unfold QF. rewrite bot_key by lia. reflexivity.
  Qed.

  Lemma page_QR : forall i, 0 < i -> i < List.length srt -> page rows (QR i) = Ok (PR i).
  Proof.
    intros i H0 Hi. unfold QR. rewrite bot_key by lia.
    rewrite (page_rev _ _ _ (key 0) (srt_split i Hi)). unfold PR.
    assert (HL : List.length (firstn i srt) = i) by (apply firstn_length_le; lia).
    rewrite HL, firstn_rev, rev_involutive, HL. f_equal. f_equal;
      [|unfold QF; rewrite bot_key by lia; reflexivity].
    destruct (n <? i) eqn:E; [|reflexivity]. apply Nat.ltb_lt in E.
    rewrite nth_error_rev by lia. rewrite HL. replace (i - S (n - 1)) with (i - n) by lia.
    rewrite nth_error_firstn_lt by lia. rewrite (nth_error_key (i - n)) by lia. simpl.
    unfold QR. rewrite bot_key by lia. reflexivity.
  Qed.

  (* ---- following next ---- *)
  Lemma P0_PF0 : P0 = PF 0.
  Proof.
    unfold P0, PF. cbn [skipn Nat.add]. f_equal.
    destruct (n <? List.length srt) eqn:E; [|reflexivity]. apply Nat.ltb_lt in E.
    rewrite (nth_error_key n) by exact E. reflexivity.
  Qed.

  Lemma walk_step : forall f i, i < List.length srt ->
    walk rows (S f) (QF i) = PF i :: (if i + n <? List.length srt then walk rows f (QF (i + n)) else []).
  Proof.
    intros f i Hi. cbn [walk]. rewrite page_QF by exact Hi. cbn [PF k_next].
    destruct (i + n <? List.length srt); reflexivity.
  Qed.

  Lemma walk_first : forall f,
    walk rows (S f) (qf None None false) = PF 0 :: (if n <? List.length srt then walk rows f (QF n) else []).
  Proof.
    intros f. cbn [walk]. rewrite page_first, P0_PF0. cbn [PF k_next Nat.add].
    destruct (n <? List.length srt); reflexivity.
  Qed.

  Lemma walk_from : forall f i, i < List.length srt -> List.length srt - i <= f ->
    List.concat (map k_data (walk rows f (QF i))) = skipn i srt /\
    forall k, nth_error (walk rows f (QF i)) k = if i + k * n <? List.length srt then Some (PF (i + k * n)) else None.
  Proof.
    induction f as [|f IH]; intros i Hi Hf; [lia|].
    rewrite walk_step by exact Hi. destruct (i + n <? List.length srt) eqn:E.
    - apply Nat.ltb_lt in E. destruct (IH (i + n) E ltac:(lia)) as [IH1 IH2]. split.
      + cbn [map List.concat PF k_data]. rewrite IH1. rewrite skipn_add. apply firstn_skipn.
      + intros [|k].
        * cbn [nth_error Nat.mul]. rewrite Nat.add_0_r. replace (i <? List.length srt) with true by (symmetry; apply Nat.ltb_lt; exact Hi). reflexivity.
        * cbn [nth_error]. rewrite IH2. replace (i + n + k * n) with (i + S k * n) by (simpl; lia). reflexivity.
    - apply Nat.ltb_ge in E. split.
      + cbn [map List.concat PF k_data]. rewrite app_nil_r. apply firstn_all2. rewrite skipn_length. lia.
      + intros [|k].
        * cbn [nth_error Nat.mul]. rewrite Nat.add_0_r. replace (i <? List.length srt) with true by (symmetry; apply Nat.ltb_lt; exact Hi). reflexivity.
        * cbn [nth_error]. replace (i + S k * n <? List.length srt) with false by (symmetry; apply Nat.ltb_ge; simpl; lia).
          destruct k; reflexivity.
  Qed.

  (* the pages a client sees when it follows next from the first page: page k is PF (k * n) *)
  Lemma walk_all : forall f, List.length srt < f ->
    List.concat (map k_data (walk rows f (qf None None false))) = srt /\
    nth_error (walk rows f (qf None None false)) 0 = Some (PF 0) /\
    forall k, nth_error (walk rows f (qf None None false)) (S k) =
              if S k * n <? List.length srt then Some (PF (S k * n)) else None.
  Proof.
    intros f Hf. destruct f as [|f]; [lia|]. rewrite walk_first. destruct (n <? List.length srt) eqn:E.
    - apply Nat.ltb_lt in E. destruct (walk_from f n E ltac:(lia)) as [W1 W2]. split; [|split].
      + cbn [map List.concat PF k_data skipn]. rewrite W1. apply firstn_skipn.
      + reflexivity.
      + intros k. cbn [nth_error]. rewrite W2. replace (n + k * n) with (S k * n) by (simpl; lia). reflexivity.
    - apply Nat.ltb_ge in E. split; [|split].
      + cbn [map List.concat PF k_data skipn]. rewrite app_nil_r. apply firstn_all2. exact E.
      + reflexivity.
      + intros k. cbn [nth_error]. replace (S k * n <? List.length srt) with false by (symmetry; apply Nat.ltb_ge; simpl; lia).
        destruct k; reflexivity.
  Qed.

  Lemma walk_page : forall f k c, List.length srt < f -> nth_error (walk rows f (qf None None false)) k = Some c ->
    c = PF (k * n) /\ (k = 0 \/ k * n < List.length srt).
  Proof.
    intros f k c Hf H. destruct (walk_all f Hf) as (_ & W0 & WS). destruct k as [|k].
    - rewrite W0 in H. injection H as <-. split; [reflexivity | left; reflexivity].
    - rewrite WS in H. destruct (S k * n <? List.length srt) eqn:E; [|discriminate].
      injection H as <-. split; [reflexivity | right; apply Nat.ltb_lt; exact E].
  Qed.

  Lemma walk_has : forall f k, List.length srt < f ->
    (S k < List.length (walk rows f (qf None None false)) <-> S k * n < List.length srt).
  Proof.
    intros f k Hf. destruct (walk_all f Hf) as (_ & _ & WS). rewrite <- nth_error_Some, WS.
    destruct (Nat.ltb_spec (S k * n) (List.length srt)) as [H | H]; split; intros; try congruence; try lia.
  Qed.

  (* ---- following previous ---- *)
  Lemma prev_PF : forall i, 0 < i -> i < List.length srt -> prev_page rows (PF i) = Some (PR i).
  Proof.
    intros i H0 Hi. unfold prev_page. cbn [PF k_previous].
    replace (0 <? i) with true by (symmetry; apply Nat.ltb_lt; exact H0). rewrite page_QR by assumption. reflexivity.
  Qed.
  Lemma prev_PF0 : prev_page rows (PF 0) = None.
  Proof. reflexivity. Qed.
  Lemma prev_PR : forall i, n < i -> i < List.length srt -> prev_page rows (PR i) = Some (PR (i - n)).
  Proof.
    intros i H0 Hi. unfold prev_page. cbn [PR k_previous].
    replace (n <? i) with true by (symmetry; apply Nat.ltb_lt; exact H0). rewrite page_QR by lia. reflexivity.
  Qed.
  Lemma prev_PR_end : forall i, i <= n -> prev_page rows (PR i) = None.
  Proof.
    intros i H. unfold prev_page. cbn [PR k_previous].
    replace (n <? i) with false by (symmetry; apply Nat.ltb_ge; exact H). reflexivity.
  Qed.
  Lemma next_PR : forall i, i < List.length srt -> next_page rows (PR i) = Some (PF i).
  Proof. intros i Hi. unfold next_page. cbn [PR k_next]. rewrite page_QF by exact Hi. reflexivity. Qed.

  Lemma back_PR : forall j m, j < m -> m * n < List.length srt -> back rows j (PR (m * n)) = Some (PR ((m - j) * n)).
  Proof.
    induction j as [|j IH]; intros m Hj Hm.
    - rewrite Nat.sub_0_r. reflexivity.
    - destruct m as [|m]; [lia|]. cbn [back]. rewrite prev_PR; [|destruct m; [lia | simpl; lia] | exact Hm].
      replace (S m * n - n) with (m * n) by (simpl; lia). rewrite IH; [|lia | simpl in Hm; lia].
      replace (S m - S j) with (m - j) by lia. reflexivity.
  Qed.
  Lemma back_PR_end : forall m, 1 <= m -> m * n < List.length srt -> back rows m (PR (m * n)) = None.
  Proof.
    induction m as [|m IH]; intros H1 Hm; [lia|]. cbn [back]. destruct m as [|m].
    - rewrite prev_PR_end by (simpl; lia). reflexivity.
    - rewrite prev_PR; [|simpl; lia | exact Hm]. replace (S (S m) * n - n) with (S m * n) by (simpl; lia).
      apply IH; [lia | simpl in *; lia].
  Qed.
  Lemma data_PR : forall m, 1 <= m -> m * n <= List.length srt -> k_data (PR (m * n)) = k_data (PF ((m - 1) * n)).
  Proof.
    intros m H1 Hm. destruct m as [|m]; [lia|]. cbn [PR PF k_data].
    replace (S m - 1) with m by lia. replace (S m * n - n) with (m * n) by (simpl; lia).
    replace (S m * n) with (m * n + n) by (simpl; lia). symmetry. apply firstn_skipn_comm.
  Qed.

  (* from page k of the walk: j steps back show page k - j; k+1 steps back do not exist; one step back and one
     forward is page k again *)
  Lemma back_walk : forall k j, 1 <= j -> j <= k -> k * n < List.length srt ->
    exists c', back rows j (PF (k * n)) = Some c' /\ k_data c' = k_data (PF ((k - j) * n)).
  Proof.
    intros k j Hj Hjk Hk. destruct j as [|j]; [lia|]. cbn [back].
    rewrite prev_PF; [|destruct k; [lia | simpl; lia] | exact Hk].
    rewrite back_PR by (try lia; exact Hk). eexists. split; [reflexivity|].
    rewrite data_PR; [| lia |].
    - replace (k - j - 1) with (k - S j) by lia. reflexivity.
    - assert (E : (k - j) * n <= k * n) by (apply Nat.mul_le_mono_r; lia). lia.
  Qed.
  Lemma back_walk_end : forall k, k = 0 \/ k * n < List.length srt -> back rows (S k) (PF (k * n)) = None.
  Proof.
    intros k Hk. cbn [back]. destruct k as [|k]; [reflexivity|]. destruct Hk as [Hk | Hk]; [discriminate|].
    rewrite prev_PF; [|simpl; lia | exact Hk]. apply back_PR_end; [lia | exact Hk].
  Qed.
  Lemma back_forth : forall k, 1 <= k -> k * n < List.length srt ->
    exists cp, prev_page rows (PF (k * n)) = Some cp /\ next_page rows cp = Some (PF (k * n)).
  Proof.
    intros k H1 Hk. exists (PR (k * n)). split.
    - apply prev_PF; [destruct k; [lia | simpl; lia] | exact Hk].
    - apply next_PR. exact Hk.
  Qed.
End Column.

(* ---- the column theorems, closed ---------------------------------------------------------------------------- *)
Lemma col_walk : forall rows o n col opts fuel, NoDup rows -> 1 <= n -> List.length rows < fuel ->
  let ps := walk rows fuel (first_query n o col opts) in
  List.concat (map k_data ps) = sort o rows /\
  ps <> [] /\
  (forall k c, nth_error ps k = Some c -> (k_has_more c = true <-> S k < List.length ps)) /\
  (forall k c, nth_error ps k = Some c -> S k < List.length ps -> List.length (k_data c) = n) /\
  (forall k c, nth_error ps k = Some c -> List.length (k_data c) <= n /\ (rows <> [] -> k_data c <> [])).
Proof.
  intros rows o n col opts fuel Hnd Hn Hf ps. subst ps. rewrite first_query_qf.
  assert (Hf' : List.length (srt rows o) < fuel) by (unfold srt; rewrite sort_length; exact Hf).
  destruct (walk_all rows o n col opts Hnd Hn fuel Hf') as (W1 & W0 & WS).
  split; [exact W1|]. split; [intros E; rewrite E in W0; discriminate|].
  split; [|split].
  - intros k c H. destruct (walk_page rows o n col opts Hnd Hn fuel k c Hf' H) as [-> _].
    rewrite (walk_has rows o n col opts Hnd Hn fuel k Hf'). cbn [PF k_has_more].
    replace (k * n + n) with (S k * n) by (simpl; lia). apply Nat.ltb_lt.
  - intros k c H Hk. destruct (walk_page rows o n col opts Hnd Hn fuel k c Hf' H) as [-> _].
    apply (walk_has rows o n col opts Hnd Hn fuel k Hf') in Hk. cbn [PF k_data].
    rewrite firstn_length, skipn_length. simpl in Hk. lia.
  - intros k c H. destruct (walk_page rows o n col opts Hnd Hn fuel k c Hf' H) as [-> Hk]. cbn [PF k_data]. split.
    + apply firstn_le_length.
    + intros Hne Hd. apply (f_equal (@List.length Z)) in Hd. rewrite firstn_length, skipn_length in Hd. simpl in Hd.
      assert (0 < List.length (srt rows o)).
      { unfold srt. rewrite sort_length. destruct rows; [congruence | simpl; lia]. }
      destruct Hk as [-> | Hk]; simpl in Hd; lia.
Qed.

Lemma col_exactly_once : forall rows o n col opts fuel, NoDup rows -> 1 <= n -> List.length rows < fuel ->
  let items := List.concat (map k_data (walk rows fuel (first_query n o col opts))) in
  NoDup items /\ (forall x, In x items <-> In x rows) /\ StronglySorted (fun a b => olt o a b = true) items.
Proof.
  intros rows o n col opts fuel Hnd Hn Hf items. subst items.
  destruct (col_walk rows o n col opts fuel Hnd Hn Hf) as (-> & _).
  split; [apply sort_NoDup; exact Hnd|]. split; [intros x; apply sort_In | apply sort_strict; exact Hnd].
Qed.

Lemma col_previous : forall rows o n col opts fuel, NoDup rows -> 1 <= n -> List.length rows < fuel ->
  let ps := walk rows fuel (first_query n o col opts) in
  forall k c, nth_error ps k = Some c ->
    (forall j cj, 1 <= j -> j <= k -> nth_error ps (k - j) = Some cj ->
       exists c', back rows j c = Some c' /\ k_data c' = k_data cj) /\
    back rows (S k) c = None /\
    (1 <= k -> exists cp, prev_page rows c = Some cp /\ next_page rows cp = Some c).
Proof.
  intros rows o n col opts fuel Hnd Hn Hf ps k c H. subst ps. rewrite first_query_qf in *.
  assert (Hf' : List.length (srt rows o) < fuel) by (unfold srt; rewrite sort_length; exact Hf).
  destruct (walk_page rows o n col opts Hnd Hn fuel k c Hf' H) as [-> Hk]. split; [|split].
  - intros j cj Hj Hjk Hcj.
    destruct (walk_page rows o n col opts Hnd Hn fuel (k - j) cj Hf' Hcj) as [-> _].
    apply back_walk; [exact Hnd | exact Hn | exact Hj | exact Hjk | destruct Hk; [lia | assumption]].
  - apply back_walk_end; assumption.
  - intros H1. apply back_forth; [exact Hnd | exact Hn | exact H1 | destruct Hk; [lia | assumption]].
Qed.

(* ---- UsingOffset ------------------------------------------------------------------------------------------ *)
Section Offset.
  Variables (rows : list Z) (o : order) (n : nat) (opts : qopts).
  Hypothesis Hn : 1 <= n.

  Definition QO (i : nat) : offq := {| f_offset := i; f_order := o; f_size := n; f_opts := opts |}.
  Definition PO (i : nat) : ocursor :=
    {| ok_data := firstn n (skipn i rows); ok_size := n; ok_has_more := i + n <? List.length rows;
       ok_previous := if 0 <? i then Some (QO (i - n)) else None;
       ok_next := if i + n <? List.length rows then Some (QO (i + n)) else None |}.

  Lemma page_QO : forall i, page_off rows (QO i) = PO i.
  Proof.
    intros i. unfold page_off, fetch_off, PO. cbn [QO f_offset f_size set_offset].
    replace (0 <? n) with true by (symmetry; apply Nat.ltb_lt; lia).
    replace (n =? 0) with false by (symmetry; apply Nat.eqb_neq; lia). cbn [negb andb].
    rewrite firstn_S_length, skipn_length.
    replace (n <? List.length rows - i) with (i + n <? List.length rows)
      by (destruct (Nat.ltb_spec (i + n) (List.length rows)); symmetry; [apply Nat.ltb_lt | apply Nat.ltb_ge]; lia).
    destruct (i + n <? List.length rows) eqn:E.
    - apply Nat.ltb_lt in E. rewrite removelast_firstn_S by (rewrite skipn_length; lia). reflexivity.
    - apply Nat.ltb_ge in E. rewrite firstn_S_short by (rewrite skipn_length; lia).
      rewrite (firstn_all2 (skipn i rows)) by (rewrite skipn_length; lia). reflexivity.
  Qed.

  Lemma walk_off_step : forall f i,
    walk_off rows (S f) (QO i) = PO i :: (if i + n <? List.length rows then walk_off rows f (QO (i + n)) else []).
  Proof.
    intros f i. cbn [walk_off]. rewrite page_QO. cbn [PO ok_next]. destruct (i + n <? List.length rows); reflexivity.
  Qed.

  Lemma walk_off_from : forall f i, i < List.length rows -> List.length rows - i <= f ->
    List.concat (map ok_data (walk_off rows f (QO i))) = skipn i rows /\
    forall k, nth_error (walk_off rows f (QO i)) k = if i + k * n <? List.length rows then Some (PO (i + k * n)) else None.
  Proof.
    induction f as [|f IH]; intros i Hi Hf; [lia|].
    rewrite walk_off_step. destruct (i + n <? List.length rows) eqn:E.
    - apply Nat.ltb_lt in E. destruct (IH (i + n) E ltac:(lia)) as [IH1 IH2]. split.
      + cbn [map List.concat PO ok_data]. rewrite IH1. rewrite skipn_add. apply firstn_skipn.
      + intros [|k].
        * cbn [nth_error Nat.mul]. rewrite Nat.add_0_r. replace (i <? List.length rows) with true by (symmetry; apply Nat.ltb_lt; exact Hi). reflexivity.
        * cbn [nth_error]. rewrite IH2. replace (i + n + k * n) with (i + S k * n) by (simpl; lia). reflexivity.
    - apply Nat.ltb_ge in E. split.
      + cbn [map List.concat PO ok_data]. rewrite app_nil_r. apply firstn_all2. rewrite skipn_length. lia.
      + intros [|k].
        * cbn [nth_error Nat.mul]. rewrite Nat.add_0_r. replace (i <? List.length rows) with true by (symmetry; apply Nat.ltb_lt; exact Hi). reflexivity.
        * cbn [nth_error]. replace (i + S k * n <? List.length rows) with false by (symmetry; apply Nat.ltb_ge; simpl; lia).
          destruct k; reflexivity.
  Qed.

  Lemma walk_off_all : forall f, List.length rows < f ->
    List.concat (map ok_data (walk_off rows f (QO 0))) = rows /\
    nth_error (walk_off rows f (QO 0)) 0 = Some (PO 0) /\
    forall k, nth_error (walk_off rows f (QO 0)) (S k) =
              if S k * n <? List.length rows then Some (PO (S k * n)) else None.
  Proof.
    intros f Hf. destruct f as [|f]; [lia|]. rewrite walk_off_step. cbn [Nat.add]. destruct (n <? List.length rows) eqn:E.
    - apply Nat.ltb_lt in E. destruct (walk_off_from f n E ltac:(lia)) as [W1 W2]. split; [|split].
      + cbn [map List.concat PO ok_data skipn]. rewrite W1. apply firstn_skipn.
      + reflexivity.
      + intros k. cbn [nth_error]. rewrite W2. replace (n + k * n) with (S k * n) by (simpl; lia). reflexivity.
    - apply Nat.ltb_ge in E. split; [|split].
      + cbn [map List.concat PO ok_data skipn]. rewrite app_nil_r. apply firstn_all2. exact E.
      + reflexivity.
      + intros k. cbn [nth_error]. replace (S k * n <? List.length rows) with false by (symmetry; apply Nat.ltb_ge; simpl; lia).
        destruct k; reflexivity.
  Qed.
End Offset.

Lemma first_offq_QO : forall n o opts, first_offq n o opts = QO o n opts 0.
Proof. reflexivity. Qed.

Lemma off_walk : forall rows o n opts fuel, 1 <= n -> List.length rows < fuel ->
  let ps := walk_off rows fuel (first_offq n o opts) in
  List.concat (map ok_data ps) = rows /\
  ps <> [] /\
  (forall k c, nth_error ps k = Some c -> (ok_has_more c = true <-> S k < List.length ps)) /\
  (forall k c, nth_error ps k = Some c -> S k < List.length ps -> List.length (ok_data c) = n).
Proof.
  intros rows o n opts fuel Hn Hf ps. subst ps. rewrite first_offq_QO.
  destruct (walk_off_all rows o n opts Hn fuel Hf) as (W1 & W0 & WS).
  assert (Hhas : forall k, S k < List.length (walk_off rows fuel (QO o n opts 0)) <-> S k * n < List.length rows).
  { intros k. rewrite <- nth_error_Some, WS.
    destruct (Nat.ltb_spec (S k * n) (List.length rows)) as [H | H]; split; intros; try congruence; try lia. }
  assert (Hpage : forall k c, nth_error (walk_off rows fuel (QO o n opts 0)) k = Some c -> c = PO rows o n opts (k * n)).
  { intros [|k] c H.
    - rewrite W0 in H. injection H as <-. reflexivity.
    - rewrite WS in H. destruct (S k * n <? List.length rows); [|discriminate]. injection H as <-. reflexivity. }
  split; [exact W1|]. split; [intros E; rewrite E in W0; discriminate|]. split.
  - intros k c H. rewrite (Hpage k c H), Hhas. cbn [PO ok_has_more].
    replace (k * n + n) with (S k * n) by (simpl; lia). apply Nat.ltb_lt.
  - intros k c H Hk. rewrite (Hpage k c H). apply Hhas in Hk. cbn [PO ok_data].
    rewrite firstn_length, skipn_length. simpl in Hk. lia.
Qed.

Lemma off_previous : forall rows o n opts fuel, 1 <= n -> List.length rows < fuel ->
  let ps := walk_off rows fuel (first_offq n o opts) in
  (forall c, nth_error ps 0 = Some c -> prev_page_off rows c = None) /\
  (forall k c, nth_error ps (S k) = Some c ->
     exists cp, nth_error ps k = Some cp /\ prev_page_off rows c = Some cp).
Proof.
  intros rows o n opts fuel Hn Hf ps. subst ps. rewrite first_offq_QO.
  destruct (walk_off_all rows o n opts Hn fuel Hf) as (_ & W0 & WS). split.
  - intros c H. rewrite W0 in H. injection H as <-. reflexivity.
  - intros k c H. rewrite WS in H. destruct (S k * n <? List.length rows) eqn:E; [|discriminate].
    injection H as <-. apply Nat.ltb_lt in E. exists (PO rows o n opts (k * n)). split.
    + destruct k as [|k]; [exact W0|]. rewrite WS.
      replace (S k * n <? List.length rows) with true by (symmetry; apply Nat.ltb_lt; simpl in *; lia). reflexivity.
    + unfold prev_page_off. unfold PO at 1. cbn [ok_previous].
      assert (E0 : (0 <? S k * n) = true) by (apply Nat.ltb_lt; simpl; lia).
      assert (E1 : S k * n - n = k * n) by (simpl; lia).
      simpl Nat.mul in E0, E1 |- *. rewrite E0, E1.
      cbn [option_map]. rewrite page_QO by exact Hn. reflexivity.
Qed.

(* ---- cursor codec ------------------------------------------------------------------------------------------- *)
Lemma omap_map : forall (A B : Type) (f : A -> option B) (g : B -> A) (l : list B),
  Forall (fun x => f (g x) = Some x) l -> omap f (map g l) = Some l.
Proof.
  intros A B f g l H. induction H as [|x r Hx Hr IH]; [reflexivity|].
  cbn [map]. change (omap f (g x :: map g r)) with
    (match f (g x), omap f (map g r) with Some y, Some ys => Some (y :: ys) | _, _ => None end).
  rewrite Hx, IH. reflexivity.
Qed.

(* induction over filter expressions (nested through list) *)
Fixpoint qexpr_ind2 (P : qexpr -> Prop)
  (Hset : forall op items, Forall P items -> P (QSet op items))
  (Hnot : forall e, P e -> P (QNot e))
  (Hkv : forall op k v, P (QKV op k v)) (e : qexpr) : P e :=
  match e with
  | QSet op items =>
      Hset op items ((fix go (l : list qexpr) : Forall P l :=
                        match l with
                        | [] => Forall_nil P
                        | x :: r => Forall_cons x (qexpr_ind2 P Hset Hnot Hkv x) (go r)
                        end) items)
  | QNot e' => Hnot e' (qexpr_ind2 P Hset Hnot Hkv e')
  | QKV op k v => Hkv op k v
  end.

Lemma dec_enc_qexpr : forall e, dec_qexpr (enc_qexpr e) = Some e.
Proof.
  induction e as [op items IH | e IH | op k v] using qexpr_ind2.
  - cbn [enc_qexpr]. destruct op; cbn [dec_qexpr set_key]; simpl String.eqb; cbn [orb];
      rewrite (omap_map _ _ dec_qexpr enc_qexpr items IH); reflexivity.
  - cbn [enc_qexpr dec_qexpr]. simpl String.eqb. cbn [orb]. rewrite IH. reflexivity.
  - destruct op; reflexivity.
Qed.

Lemma dec_qb_enc : forall e, dec_qb (Some (enc_qexpr e)) = Some (Some e).
Proof.
  intros e. unfold dec_qb. pose proof (dec_enc_qexpr e) as H.
  destruct (enc_qexpr e) eqn:E; try (destruct e; discriminate); rewrite H; reflexivity.
Qed.

Lemma dec_nat_enc : forall n, dec_nat (Some (enc_nat n)) = Some n.
Proof.
  intros n. unfold dec_nat, enc_nat.
  replace (0 <=? Z.of_nat n)%Z with true by (symmetry; apply Z.leb_le; lia). rewrite Nat2Z.id. reflexivity.
Qed.
Lemma dec_oz_enc : forall z, dec_oz (Some (enc_oz z)) = Some z.
Proof. intros [z|]; reflexivity. Qed.
Lemma dec_order_enc : forall o, dec_order (Some (enc_order o)) = Some o.
Proof. intros []; reflexivity. Qed.
Lemma dec_ostr_enc : forall s, dec_ostr (Some (enc_ostr s)) = Some s.
Proof. intros [s|]; reflexivity. Qed.

Lemma dec_enc_pitopts : forall p,
  dec_pitopts (Some (match p with Some x => enc_pitopts x | None => JNull end)) = Some p.
Proof.
  intros [[pit v e]|]; [|reflexivity]. unfold dec_pitopts, enc_pitopts. cbn [po_pit po_volumes po_evolumes].
  simpl field. rewrite dec_ostr_enc. reflexivity.
Qed.

Lemma dec_enc_qopts : forall o, dec_qopts_with dec_qb (Some (enc_qopts o)) = Some o.
Proof.
  intros [qb ps op]. unfold dec_qopts_with, enc_qopts. cbn [qo_qb qo_psize qo_options]. simpl field.
  rewrite dec_nat_enc, dec_enc_pitopts. destruct qb as [e|]; [rewrite dec_qb_enc|]; reflexivity.
Qed.

Lemma colq_roundtrip : forall q, dec_colq (enc_colq q) = Some q.
Proof.
  intros [n b col p o f r]. unfold dec_colq, dec_colq_with, enc_colq.
  cbn [c_size c_bottom c_column c_pid c_order c_opts c_reverse]. simpl field.
  rewrite dec_nat_enc, !dec_oz_enc, dec_order_enc, dec_enc_qopts. reflexivity.
Qed.
Lemma offq_roundtrip : forall q, dec_offq (enc_offq q) = Some q.
Proof.
  intros [off o n f]. unfold dec_offq, dec_offq_with, enc_offq.
  cbn [f_offset f_order f_size f_opts]. simpl field.
  rewrite !dec_nat_enc, dec_order_enc, dec_enc_qopts. reflexivity.
Qed.

(* before the repair a filter did not survive the cursor *)
Lemma colq_legacy_filter_lost : forall q e, qo_qb (c_opts q) = Some e -> dec_colq_legacy (enc_colq_legacy q) = None.
Proof.
  intros [n b col p o [qb ps op] r] e H. cbn in H. subst qb.
  unfold dec_colq_legacy, dec_colq_with, enc_colq_legacy, enc_qopts_legacy.
  cbn [c_size c_bottom c_column c_pid c_order c_opts c_reverse qo_qb qo_psize qo_options]. simpl field.
  rewrite dec_nat_enc, !dec_oz_enc, dec_order_enc. unfold dec_qopts_with. simpl field. reflexivity.
Qed.

(* ---- glue -------------------------------------------------------------------------------------------------- *)
Lemma page_size_positive : forall dflt max p s, (1 <= dflt)%N -> (1 <= max)%N ->
  get_page_size dflt max p = Some s -> (1 <= s /\ (s <= max \/ s = dflt))%N.
Proof.
  intros dflt max p s Hd Hm H. destruct p as [| |k]; cbn in H; try discriminate.
  - injection H as <-. lia.
  - destruct (N.eqb_spec k 0) as [-> | Hk]; [injection H as <-; lia|].
    destruct (N.ltb_spec max k); injection H as <-; lia.
Qed.

Lemma ranged_NoDup : forall l t, NoDup (map lrow_key t) -> NoDup (ranged true l t).
Proof.
  intros l t. unfold ranged. induction t as [|r t IH]; intros H; [constructor|].
  cbn [map] in H. inversion H as [|? ? Hnin Hnd]; subst. cbn [filter].
  destruct (N.eqb_spec (lr_ledger r) l) as [E | E]; [|apply IH; exact Hnd].
  cbn [map]. constructor; [|apply IH; exact Hnd].
  intros Hin. apply in_map_iff in Hin. destruct Hin as (r' & Hid & Hr'). apply filter_In in Hr'.
  destruct Hr' as [Hr' E']. apply N.eqb_eq in E'. apply Hnin. apply in_map_iff. exists r'. split; [|exact Hr'].
  unfold lrow_key. congruence.
Qed.
Lemma ranged_In : forall l t x, In x (ranged true l t) <-> In {| lr_ledger := l; lr_id := x |} t.
Proof.
  intros l t x. unfold ranged. rewrite in_map_iff. split.
  - intros (r & <- & Hr). apply filter_In in Hr. destruct Hr as [Hr E]. apply N.eqb_eq in E. subst l. destruct r; exact Hr.
  - intros H. exists {| lr_ledger := l; lr_id := x |}. split; [reflexivity|]. apply filter_In. split; [exact H|]. apply N.eqb_refl.
Qed.

Lemma filter_len_le : forall (A : Type) (f : A -> bool) (l : list A), List.length (filter f l) <= List.length l.
Proof. intros A f l. induction l as [|a r IH]; simpl; [lia|]. destruct (f a); simpl; lia. Qed.

Lemma listing_restricted : forall t l o n col opts fuel, NoDup (map lrow_key t) -> 1 <= n -> List.length t < fuel ->
  let items := List.concat (map k_data (walk (ranged true l t) fuel (first_query n o col opts))) in
  NoDup items /\ (forall x, In x items <-> In {| lr_ledger := l; lr_id := x |} t) /\
  StronglySorted (fun a b => olt o a b = true) items.
Proof.
  intros t l o n col opts fuel Hk Hn Hf items. subst items.
  assert (Hlen : List.length (ranged true l t) < fuel).
  { unfold ranged. rewrite map_length. pose proof (filter_len_le _ (fun r => N.eqb (lr_ledger r) l) t). lia. }
  destruct (col_exactly_once (ranged true l t) o n col opts fuel (ranged_NoDup l t Hk) Hn Hlen) as (H1 & H2 & H3).
  split; [exact H1|]. split; [|exact H3]. intros x. rewrite H2. apply ranged_In.
Qed.

(* ---- the hypotheses are needed: page size 0 never ends -------------------------------------------------------- *)
Definition no_opts : qopts := {| qo_qb := None; qo_psize := 0; qo_options := None |}.
Definition q1_size0 : colq :=
  {| c_size := 0; c_bottom := Some 1%Z; c_column := "id"%string; c_pid := Some 1%Z; c_order := Desc;
     c_opts := no_opts; c_reverse := false |}.
Definition c1_size0 : cursor :=
  {| k_data := []; k_size := 0; k_has_more := true; k_previous := None; k_next := Some q1_size0 |}.

Lemma size0_loop : forall f, walk [1%Z] f q1_size0 = repeat c1_size0 f.
Proof.
  induction f as [|f IH]; [reflexivity|]. cbn [walk repeat].
  change (page [1%Z] q1_size0) with (Ok c1_size0). cbn [c1_size0 k_next]. rewrite IH. reflexivity.
Qed.

Lemma size0_endless : forall fuel,
  let ps := walk [1%Z] fuel (first_query 0 Desc "id"%string no_opts) in
  List.length ps = fuel /\ Forall (fun c => k_data c = [] /\ k_has_more c = true) ps.
Proof.
  intros [|f]; [split; [reflexivity | constructor]|]. cbn [walk].
  change (page [1%Z] (first_query 0 Desc "id"%string no_opts)) with (Ok c1_size0).
  cbn [c1_size0 k_next]. rewrite size0_loop. split.
  - cbn [List.length]. rewrite repeat_length. reflexivity.
  - constructor; [split; reflexivity|]. apply Forall_forall. intros c Hc. apply repeat_spec in Hc. subst c. split; reflexivity.
Qed.
