(* M9 — postings: internal/numscript.go (TxToScriptData), internal/posting.go (Postings.Reverse, Postings.Validate),
   internal/account.go / asset.go (AccountPattern, AssetPattern), internal/transaction.go (TransactionData.Reverse,
   TransactionRequest.ToRunScript) and the posting branch of the v1 / v2 / bulk create-transaction handlers.
   Definitions only; proofs in Posting/Proofs.v, property theorems in Properties/C09.v and Properties/C10_pure.v.

   Requests are lists of [posting] (VM.v: source, destination, asset, amount in Z) over interned names
   (world = 0, as everywhere in M1). Validation works on the raw strings ([sposting]); a correspondence case carries
   both and [interned_ok] checks that the interning the harness used is injective and maps "world" to 0. *)
From FL Require Export Numscript.Sem.
From FL Require Import Numscript.Corr.
From Coq Require Export String Ascii.
Open Scope Z_scope.

(* ---- variable names -------------------------------------------------------------------------------------- *)
(* "va<i>" and "vm<j>" (fmt.Sprintf("va%d", i) / ("vm%d", j)); the harness interns exactly these names to these numbers *)
Definition va (i : nat) : N := (2 * N.of_nat i)%N.
Definition vm (j : nat) : N := (2 * N.of_nat j + 1)%N.

(* ---- first loop of TxToScriptData: the two maps, keyed by account text and by "[amount asset]" text ------- *)
(* Both Go maps only ever grow and each new key gets the next counter value, so a map is the list of its keys in
   insertion order and the variable number is the position. amount.String() is the canonical decimal text and the
   asset follows the first space of the key, so two keys are equal exactly when amount and asset are. *)
Fixpoint index_of {A} (eqb : A -> A -> bool) (x : A) (l : list A) : option nat :=
  match l with
  | [] => None
  | y :: r => if eqb x y then Some O else match index_of eqb x r with Some k => Some (S k) | None => None end
  end.

Definition mon_eqb (x y : asset * Z) : bool := N.eqb (fst x) (fst y) && Z.eqb (snd x) (snd y).

Definition acc_add (a : account) (m : list account) : list account :=
  match index_of N.eqb a m with
  | Some _ => m
  | None => if N.eqb a world then m else m ++ [a]        (* `if p.Source != WORLD` *)
  end.
Definition mon_add (x : asset * Z) (m : list (asset * Z)) : list (asset * Z) :=
  match index_of mon_eqb x m with Some _ => m | None => m ++ [x] end.

Fixpoint collect (ps : list posting) (am : list account) (mm : list (asset * Z)) : list account * list (asset * Z) :=
  match ps with
  | [] => (am, mm)
  | p :: r => collect r (acc_add (p_dst p) (acc_add (p_src p) am)) (mon_add (p_asset p, p_amount p) mm)
  end.

(* ---- the `vars { … }` block: names sorted with sort.Strings ------------------------------------------------ *)
(* All account names share the prefix "va", all monetary names "vm": byte-wise string order is the lexicographic
   order of the decimal digit strings ("va10" < "va2"). *)
Fixpoint udigits (u : Decimal.uint) : list nat :=
  match u with
  | Decimal.Nil => []
  | Decimal.D0 r => 0%nat :: udigits r | Decimal.D1 r => 1%nat :: udigits r | Decimal.D2 r => 2%nat :: udigits r
  | Decimal.D3 r => 3%nat :: udigits r | Decimal.D4 r => 4%nat :: udigits r | Decimal.D5 r => 5%nat :: udigits r
  | Decimal.D6 r => 6%nat :: udigits r | Decimal.D7 r => 7%nat :: udigits r | Decimal.D8 r => 8%nat :: udigits r
  | Decimal.D9 r => 9%nat :: udigits r
  end.
Definition dec_digits (n : nat) : list nat := udigits (N.to_uint (N.of_nat n)).
Fixpoint lex_leb (a b : list nat) : bool :=
  match a, b with
  | [], _ => true
  | _ :: _, [] => false
  | x :: r, y :: q => if Nat.ltb x y then true else if Nat.ltb y x then false else lex_leb r q
  end.
Definition name_leb (i j : nat) : bool := lex_leb (dec_digits i) (dec_digits j).
Fixpoint name_insert (i : nat) (l : list nat) : list nat :=
  match l with
  | [] => [i]
  | j :: r => if name_leb i j then i :: l else j :: name_insert i r
  end.
Definition name_sort (l : list nat) : list nat := fold_right name_insert [] l.

Definition var_decls (n_acc n_mon : nat) : list vardecl :=
  map (fun i => {| vd_type := TAccount; vd_name := va i; vd_orig := None |}) (name_sort (seq 0 n_acc)) ++
  map (fun j => {| vd_type := TMonetary; vd_name := vm j; vd_orig := None |}) (name_sort (seq 0 n_mon)).

(* ---- second loop: one send per posting, in order ------------------------------------------------------------- *)
(* Go panics when a key is missing from its map; that cannot happen ([acc_expr_found] / [mon_found] in Proofs)
   and the model falls back to variable 0 there. *)
Definition acc_expr (am : list account) (a : account) : expr :=
  if N.eqb a world then ELitAccount world
  else EVar (va (match index_of N.eqb a am with Some i => i | None => O end)).
Definition mon_expr (mm : list (asset * Z)) (x : asset * Z) : expr :=
  EVar (vm (match index_of mon_eqb x mm with Some j => j | None => O end)).

Definition send_of (am : list account) (mm : list (asset * Z)) (unb : bool) (p : posting) : stmt :=
  StSend (SendMon (mon_expr mm (p_asset p, p_amount p)))
         (VSrc (SAccount (acc_expr am (p_src p))
                         (if N.eqb (p_src p) world then OvNone else if unb then OvUnbounded else OvNone)))
         (DAccount (acc_expr am (p_dst p))).

(* the `vars` map of the RunScript, as the values SetVarsFromJSON makes of the texts *)
Fixpoint acc_vars (k : nat) (am : list account) : list (N * value) :=
  match am with [] => [] | a :: r => (va k, VAccount a) :: acc_vars (S k) r end.
Fixpoint mon_vars (k : nat) (mm : list (asset * Z)) : list (N * value) :=
  match mm with [] => [] | x :: r => (vm k, VMonetary (fst x) (snd x)) :: mon_vars (S k) r end.

Definition tx_to_script (ps : list posting) (unb : bool) : script * list (N * value) :=
  let '(am, mm) := collect ps [] [] in
  ({| s_vars := var_decls (List.length am) (List.length mm); s_stmts := map (send_of am mm unb) ps |},
   acc_vars 0 am ++ mon_vars 0 mm).

(* ---- Postings.Reverse / TransactionData.Reverse ------------------------------------------------------------------ *)
Definition swap (p : posting) : posting :=
  {| p_src := p_dst p; p_dst := p_src p; p_asset := p_asset p; p_amount := p_amount p |}.
(* first loop swaps the endpoints of every element, second loop reverses the slice in place *)
Definition reverse_postings (ps : list posting) : list posting := rev (map swap ps).

(* ---- the arithmetic meaning of a posting list on a balance map ---------------------------------------------------- *)
Definition bmap := account -> asset -> Z.
Definition delta (p : posting) (a : account) (s : asset) : Z :=
  (if N.eqb a (p_dst p) && N.eqb s (p_asset p) then p_amount p else 0) -
  (if N.eqb a (p_src p) && N.eqb s (p_asset p) then p_amount p else 0).
Definition apply1 (p : posting) (f : bmap) : bmap := fun a s => f a s + delta p a s.
Fixpoint apply (ps : list posting) (f : bmap) : bmap :=
  match ps with [] => f | p :: r => apply r (apply1 p f) end.

(* can posting [p] be taken from a source whose balance is [bal]: amount not negative, and the source is @world,
   or may be overdrawn without bound, or holds enough (a negative balance offers 0) *)
Definition covered (unb : bool) (p : posting) (bal : Z) : bool :=
  (0 <=? p_amount p) && (N.eqb (p_src p) world || unb || (p_amount p <=? Z.max 0 bal)).
(* replaying the postings in order, funds received earlier counting *)
Fixpoint replay_ok (unb : bool) (f : bmap) (ps : list posting) : bool :=
  match ps with
  | [] => true
  | p :: r => covered unb p (f (p_src p) (p_asset p)) && replay_ok unb (apply1 p f) r
  end.
(* each posting could be taken back right after it was applied *)
Fixpoint revertible (f : bmap) (ps : list posting) : bool :=
  match ps with
  | [] => true
  | p :: r => let g := apply1 p f in covered false (swap p) (g (p_dst p) (p_asset p)) && revertible g r
  end.

(* the machine's balance table seen as a balance map *)
Definition view (b : balances) : bmap := fun a s => match bal_get b a s with Some z => z | None => 0 end.
(* the table has an entry for the source of every posting (ResolveBalances creates them, @world included) *)
Definition tracks (b : balances) (ps : list posting) : Prop :=
  forall p, In p ps -> bal_get b (p_src p) (p_asset p) <> None.

(* ---- Postings.Validate: AccountPattern and AssetPattern as character-class recursions ------------------------------ *)
Definition code (c : ascii) : N := N_of_ascii c.
Definition between (lo hi : N) (c : ascii) : bool := (lo <=? code c)%N && (code c <=? hi)%N.
Definition is_digit c := between 48 57 c.
Definition is_upper c := between 65 90 c.
Definition is_lower c := between 97 122 c.
Definition is_word c := is_lower c || is_upper c || is_digit c || (code c =? 95)%N.          

(* AccountPattern (segments of word characters joined by '-', segments joined by ':', anchored): a non-empty string
   of word characters, '-' and ':' that starts and ends with a word character and has no two separators in a row *)
Fixpoint addr_go (in_word : bool) (s : string) : bool :=
  match s with
  | EmptyString => in_word
  | String c r =>
      if is_word c then addr_go true r
      else if (code c =? 45)%N || (code c =? 58)%N then in_word && addr_go false r
      else false
  end.
Definition valid_address (s : string) : bool := addr_go false s.

(* AssetPattern, anchored: one upper-case letter, at most 16 upper-case letters or digits, then optionally
   a slash followed by one to six digits *)
Fixpoint asset_digits (n : nat) (seen : bool) (s : string) : bool :=
  match s with
  | EmptyString => seen
  | String c r => match n with O => false | S k => is_digit c && asset_digits k true r end
  end.
Fixpoint asset_body (n : nat) (s : string) : bool :=
  match s with
  | EmptyString => true
  | String c r =>
      if (code c =? 47)%N then asset_digits 6 false r
      else match n with O => false | S k => (is_upper c || is_digit c) && asset_body k r end
  end.
Definition valid_asset (s : string) : bool :=
  match s with String c r => is_upper c && asset_body 16 r | EmptyString => false end.

(* a posting as the API receives it; the amount is None when the JSON has no amount / null *)
Record sposting := { sp_src : string; sp_dst : string; sp_asset : string; sp_amount : option Z }.

Definition valid_posting (p : sposting) : bool :=
  match sp_amount p with Some z => 0 <=? z | None => false end &&
  valid_address (sp_src p) && valid_address (sp_dst p) && valid_asset (sp_asset p).
(* Postings.Validate returns the index of the first offending posting *)
Fixpoint first_invalid (k : nat) (ps : list sposting) : option nat :=
  match ps with
  | [] => None
  | p :: r => if valid_posting p then first_invalid (S k) r else Some k
  end.

(* ---- the posting branch of the create-transaction handlers ---------------------------------------------------------- *)
Inductive api := ApiV1 | ApiV2 | ApiBulk.
Inductive hres :=
| HReject                (* 400 before the backend is called *)
| HPostings              (* backend called with TxToScriptData(postings, metadata, reference, timestamp) *)
| HScript.               (* backend called with the script the request carries (possibly empty) *)
Definition handler (a : api) (ps : list sposting) (has_script : bool) : hres :=
  let some := match ps with [] => false | _ => true end in
  match a with
  | ApiV1 =>
      if (some && has_script) || (negb some && negb has_script) then HReject
      else if some then match first_invalid 0 ps with Some _ => HReject | None => HPostings end
      else HScript
  | ApiV2 => if some && has_script then HReject else if some then HPostings else HScript
  | ApiBulk => if some then HPostings else HScript
  end.

(* ---- correspondence ------------------------------------------------------------------------------------------------ *)
(* structural equality of scripts (the real parser's AST against [tx_to_script]) *)
Definition opt_eqb {A} (eqb : A -> A -> bool) (a b : option A) : bool :=
  match a, b with Some x, Some y => eqb x y | None, None => true | _, _ => false end.
Definition ratio_same (p q : ratio) : bool := Z.eqb (fst p) (fst q) && Pos.eqb (snd p) (snd q).

Fixpoint expr_eqb (a b : expr) : bool :=
  match a, b with
  | ELitAccount x, ELitAccount y => N.eqb x y
  | ELitAsset x, ELitAsset y => N.eqb x y
  | ELitNumber x, ELitNumber y => Z.eqb x y
  | ELitString x, ELitString y => N.eqb x y
  | ELitPortion x, ELitPortion y => opt_eqb ratio_same x y
  | ELitMonetary e x, ELitMonetary f y => expr_eqb e f && Z.eqb x y
  | EVar x, EVar y => N.eqb x y
  | EAddSub o l r, EAddSub o' l' r' => Bool.eqb o o' && expr_eqb l l' && expr_eqb r r'
  | _, _ => false
  end.
Definition aportion_eqb (a b : aportion) : bool :=
  match a, b with
  | APConst x, APConst y => opt_eqb ratio_same x y
  | APVar x, APVar y => N.eqb x y
  | APRemaining, APRemaining => true
  | _, _ => false
  end.
Definition overdraft_eqb (a b : overdraft) : bool :=
  match a, b with
  | OvNone, OvNone => true
  | OvSpecific e, OvSpecific f => expr_eqb e f
  | OvUnbounded, OvUnbounded => true
  | _, _ => false
  end.
Fixpoint source_eqb (a b : source) : bool :=
  match a, b with
  | SAccount e o, SAccount f q => expr_eqb e f && overdraft_eqb o q
  | SMaxed m s, SMaxed n t => expr_eqb m n && source_eqb s t
  | SInOrder l, SInOrder k =>
      (fix go (l k : list source) : bool :=
         match l, k with
         | [], [] => true
         | x :: r, y :: q => source_eqb x y && go r q
         | _, _ => false
         end) l k
  | _, _ => false
  end.
Definition vasource_eqb (a b : vasource) : bool :=
  match a, b with
  | VSrc s, VSrc t => source_eqb s t
  | VSrcAllot l, VSrcAllot k => list_eqb (fun x y => aportion_eqb (fst x) (fst y) && source_eqb (snd x) (snd y)) l k
  | _, _ => false
  end.
Fixpoint dest_eqb (a b : dest) : bool :=
  match a, b with
  | DAccount e, DAccount f => expr_eqb e f
  | DInOrder l r, DInOrder k q =>
      (fix go (l k : list (expr * kod)) : bool :=
         match l, k with
         | [], [] => true
         | (e, x) :: r, (f, y) :: q => expr_eqb e f && kod_eqb x y && go r q
         | _, _ => false
         end) l k && kod_eqb r q
  | DAllot l, DAllot k =>
      (fix go (l k : list (aportion * kod)) : bool :=
         match l, k with
         | [], [] => true
         | (e, x) :: r, (f, y) :: q => aportion_eqb e f && kod_eqb x y && go r q
         | _, _ => false
         end) l k
  | _, _ => false
  end
with kod_eqb (a b : kod) : bool :=
  match a, b with
  | Kept, Kept => true
  | KTo d, KTo e => dest_eqb d e
  | _, _ => false
  end.
Definition send_amount_eqb (a b : send_amount) : bool :=
  match a, b with
  | SendMon e, SendMon f => expr_eqb e f
  | SendAll e, SendAll f => expr_eqb e f
  | _, _ => false
  end.
Definition stmt_eqb (a b : stmt) : bool :=
  match a, b with
  | StPrint e, StPrint f => expr_eqb e f
  | StSave m e, StSave n f => send_amount_eqb m n && expr_eqb e f
  | StTxMeta k e, StTxMeta l f => N.eqb k l && expr_eqb e f
  | StAccMeta a k e, StAccMeta b l f => expr_eqb a b && N.eqb k l && expr_eqb e f
  | StFail, StFail => true
  | StSend m s d, StSend n t e => send_amount_eqb m n && vasource_eqb s t && dest_eqb d e
  | _, _ => false
  end.
Definition origin_eqb (a b : origin) : bool :=
  match a, b with
  | OMeta e k, OMeta f l => expr_eqb e f && N.eqb k l
  | OBalance e x, OBalance f y => expr_eqb e f && expr_eqb x y
  | _, _ => false
  end.
Definition vardecl_eqb (a b : vardecl) : bool :=
  vtype_eqb (vd_type a) (vd_type b) && N.eqb (vd_name a) (vd_name b) && opt_eqb origin_eqb (vd_orig a) (vd_orig b).
Definition script_eqb (a b : script) : bool :=
  list_eqb vardecl_eqb (s_vars a) (s_vars b) && list_eqb stmt_eqb (s_stmts a) (s_stmts b).

(* the interning of the case is injective and sends "world" to 0 *)
Definition pairs_consistent (l : list (string * N)) : bool :=
  forallb (fun x => forallb (fun y => Bool.eqb (String.eqb (fst x) (fst y)) (N.eqb (snd x) (snd y))) l) l.
Definition amount_same (a : option Z) (z : Z) : bool := match a with Some x => Z.eqb x z | None => false end.
Fixpoint interned_pairs (sps : list sposting) (ps : list posting)
  : option (list (string * N) * list (string * N)) :=
  match sps, ps with
  | [], [] => Some ([], [])
  | sp :: r, p :: q =>
      if amount_same (sp_amount sp) (p_amount p) then
        match interned_pairs r q with
        | Some (accs, assets) =>
            Some ((sp_src sp, p_src p) :: (sp_dst sp, p_dst p) :: accs, (sp_asset sp, p_asset p) :: assets)
        | None => None
        end
      else None
  | _, _ => None
  end.
Definition interned_ok (sps : list sposting) (ps : list posting) : bool :=
  match interned_pairs sps ps with
  | Some (accs, assets) => pairs_consistent (("world"%string, world) :: accs) && pairs_consistent assets
  | None => false
  end.

(* what the theorems of C09 predict for the run of the produced script on a store, without running anything:
   every posting exactly as requested and no metadata set by the script, or insufficient funds *)
Definition predict (ps : list posting) (unb : bool) (st : store) : obs_run :=
  if replay_ok unb (store_balance st) ps
  then ODone {| res_posts := ps; res_txmeta := []; res_accmeta := []; res_printed := [] |}
  else OErr EInsufficient.

Definition vars_eqb (a b : list (N * value)) : bool :=
  same_set (fun x y => N.eqb (fst x) (fst y) && value_eqb (snd x) (snd y)) a b.

Inductive pcase :=
(* TxToScriptData on [ps] (interned form of [sps], amounts all present): the text through the real parser, the vars
   through the real SetVarsFromJSON (None = rejected), the real compiler's program and the real machine's run *)
| PCScript (sps : list sposting) (ps : list posting) (unb : bool)
           (ast : option script) (vars : option (list (N * value)))
           (st : store) (extra : list str) (prog : option program) (run : obs_run)
(* Postings.Validate: index of the first invalid posting *)
| PCValidate (sps : list sposting) (first_bad : option nat)
(* ValidateAddress / AssetIsValid on one string *)
| PCAddress (s : string) (ok : bool)
| PCAsset (s : string) (ok : bool)
(* Postings.Reverse *)
| PCReverse (ps : list posting) (reversed : list posting)
(* a create-transaction request through the real handler with a recording backend *)
| PCHandler (a : api) (sps : list sposting) (has_script : bool) (res : hres).

Definition hres_eqb (a b : hres) : bool :=
  match a, b with HReject, HReject | HPostings, HPostings | HScript, HScript => true | _, _ => false end.

Definition check_case (c : pcase) : bool :=
  match c with
  | PCScript sps ps unb ast vars st extra prog run =>
      let '(sc, vs) := tx_to_script ps unb in
      interned_ok sps ps &&
      opt_eqb script_eqb ast (Some sc) &&
      match vars with
      | None => negb (forallb valid_posting sps) &&
                match run with OErr EInvalidVars => true | _ => false end
      | Some got =>
          forallb valid_posting sps && vars_eqb got vs &&
          match compile sc, prog with
          | Some p, Some q =>
              program_eqb p q &&
              run_eqb (sem_pipeline sc p (Some vs) st extra) run &&
              match predict ps unb st, run with
              | ODone r, ODone r' => result_eqb r r'
              | OErr e, OErr e' => Nat.eqb (coarse e) (coarse e')
              | _, _ => false
              end
          | _, _ => false
          end
      end
  | PCValidate sps fb => opt_eqb Nat.eqb (first_invalid 0 sps) fb
  | PCAddress s ok => Bool.eqb (valid_address s) ok
  | PCAsset s ok => Bool.eqb (valid_asset s) ok
  | PCReverse ps rv => list_eqb posting_eqb (reverse_postings ps) rv
  | PCHandler a sps hs res => hres_eqb (handler a sps hs) res
  end.

(* which clause of [check_case] fails (harness diagnosis only) *)
Definition diagnose (c : pcase) : nat :=
  match c with
  | PCScript sps ps unb ast vars st extra prog run =>
      let '(sc, vs) := tx_to_script ps unb in
      if negb (interned_ok sps ps) then 1
      else if negb (opt_eqb script_eqb ast (Some sc)) then 2
      else match vars with
           | None => if forallb valid_posting sps then 3 else 0
           | Some got =>
               if negb (forallb valid_posting sps) then 4
               else if negb (vars_eqb got vs) then 5
               else match compile sc, prog with
                    | Some p, Some q =>
                        if negb (program_eqb p q) then 6
                        else if negb (run_eqb (sem_pipeline sc p (Some vs) st extra) run) then 7
                        else 8
                    | _, _ => 9
                    end
           end
  | _ => 10
  end%nat.

Fixpoint bad_cases {A} (chk : A -> bool) (n : nat) (l : list A) : list nat :=
  match l with
  | [] => []
  | c :: r => if chk c then bad_cases chk (S n) r else n :: bad_cases chk (S n) r
  end.

Fixpoint bytes_to_string (l : list nat) : string :=
  match l with [] => EmptyString | n :: r => String (ascii_of_nat n) (bytes_to_string r) end.
