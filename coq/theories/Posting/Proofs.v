(* M9 — proofs about Posting/Model.v: what the script produced by TxToScriptData does under the source semantics
   (Numscript/Sem.v), for every posting list and every balance table; Postings.Reverse as an arithmetic inverse. *)
From FL Require Import Numscript.Sem Numscript.Corr Posting.Model.
From Coq Require Import Lia ZArith List Bool.
Import ListNotations.
Open Scope Z_scope.

(* ================================================================================================================ *)
(* 1. the machine's balance table                                                                                    *)
(* ================================================================================================================ *)

Lemma bal_get_set : forall b a s z a' s',
  bal_get (bal_set b a s z) a' s' = if N.eqb a' a && N.eqb s' s then Some z else bal_get b a' s'.
Proof.
  induction b as [|[[a0 s0] z0] r IH]; intros a s z a' s'; cbn [bal_set bal_get].
  - reflexivity.
  - destruct (N.eqb_spec a a0) as [Ea|Ea], (N.eqb_spec s s0) as [Es|Es]; cbn [andb bal_get]; subst;
      try (rewrite IH);
      destruct (N.eqb_spec a' a0), (N.eqb_spec s' s0); cbn [andb]; subst;
      try reflexivity;
      repeat match goal with
             | |- context [N.eqb ?x ?y] => destruct (N.eqb_spec x y); cbn [andb]; subst; try congruence
             end.
Qed.

Lemma bal_has_account_get : forall b a s z, bal_get b a s = Some z -> bal_has_account b a = true.
Proof.
  induction b as [|[[a0 s0] z0] r IH]; intros a s z H; cbn in *; [discriminate|].
  destruct (N.eqb_spec a a0); cbn in *; [reflexivity|].
  eapply IH; eauto.
Qed.

Lemma repay_nil : forall b s, repay b s [] = Some b.
Proof. reflexivity. Qed.

Lemma repay_world : forall b s y, repay b s [(world, y)] = Some b.
Proof. reflexivity. Qed.

Lemma repay_single : forall b a s v y,
  a <> world -> bal_get b a s = Some v -> repay b s [(a, y)] = Some (bal_set b a s (v + y)).
Proof.
  intros b a s v y Ha Hg. cbn [repay].
  destruct (N.eqb_spec a world); [contradiction|].
  rewrite (bal_has_account_get _ _ _ _ Hg), Hg. reflexivity.
Qed.

(* ================================================================================================================ *)
(* 2. fundings with a single part                                                                                    *)
(* ================================================================================================================ *)

Definition one (s : asset) (a : account) (x : Z) : funding := {| f_asset := s; f_parts := [(a, x)] |}.
Definition mkf (s : asset) (l : list part) : funding := {| f_asset := s; f_parts := l |}.

Lemma total_one : forall s a x, total (one s a x) = x.
Proof. intros. unfold total, one; cbn. lia. Qed.

Lemma take_one : forall s a x z, 0 <= x ->
  take (one s a x) z =
  if (0 <=? z) && (z <=? x)
  then Some (one s a z, mkf s (if z =? 0 then [(a, x)] else if z =? x then [] else [(a, x - z)]))
  else None.
Proof.
  intros s a x z Hx. unfold take, one, mkf; cbn [f_parts f_asset take_loop].
  destruct (Z.leb_spec 0 z) as [Hz|Hz]; cbn [andb].
  - destruct (Z.eqb_spec z 0) as [E0|E0].
    + subst z. destruct (Z.leb_spec 0 x); [|lia]. cbn. reflexivity.
    + destruct (Z.ltb_spec 0 z); [|lia].
      destruct (Z.ltb_spec z x) as [Hlt|Hge].
      * destruct (Z.leb_spec z x); [|lia]. cbn.
        destruct (Z.eqb_spec z x); [lia|]. reflexivity.
      * cbn [take_loop].
        destruct (Z.leb_spec z x) as [Hle|Hgt].
        -- assert (z = x) by lia. subst z. rewrite Z.sub_diag. cbn.
           rewrite Z.eqb_refl. reflexivity.
        -- destruct (Z.eqb_spec (z - x) 0); [lia|]. reflexivity.
  - destruct (Z.ltb_spec 0 z); [lia|].
    destruct (Z.eqb_spec z 0); [lia|]. reflexivity.
Qed.

Lemma take_max_one : forall s a x z, 0 <= x -> 0 <= z ->
  take_max (one s a x) z =
  (mkf s (if z =? 0 then [] else if z <? x then [(a, z)] else [(a, x)]),
   mkf s (if z =? 0 then [(a, x)] else if z <? x then [(a, x - z)] else [])).
Proof.
  intros s a x z Hx Hz. unfold take_max, one, mkf; cbn [f_parts f_asset take_loop].
  destruct (Z.eqb_spec z 0) as [E0|E0].
  - subst z. cbn. reflexivity.
  - destruct (Z.ltb_spec 0 z); [|lia].
    destruct (Z.ltb_spec z x); cbn; reflexivity.
Qed.

(* what the fallback path assembles from the capped take and the forced withdrawal: one part of exactly [z] *)
Lemma concat_fallback : forall a x z, 0 <= x -> 0 <= z ->
  concat_parts (if z =? 0 then [] else if z <? x then [(a, z)] else [(a, x)])
               [(a, if x <? z then z - x else 0)] = [(a, z)].
Proof.
  intros a x z Hx Hz.
  destruct (Z.eqb_spec z 0) as [E0|E0].
  - subst z. destruct (Z.ltb_spec x 0); [lia|]. reflexivity.
  - destruct (Z.ltb_spec z x); cbn [concat_parts]; rewrite N.eqb_refl.
    + destruct (Z.ltb_spec x z); [lia|]. f_equal. f_equal. lia.
    + destruct (Z.ltb_spec x z); f_equal; f_equal; lia.
Qed.

(* ================================================================================================================ *)
(* 3. one send of the produced script                                                                                *)
(* ================================================================================================================ *)

(* the expression the script uses for an account denotes it: the literal @world, or a variable bound to it *)
Definition denotes (ve : venv) (e : expr) (a : account) : Prop :=
  (e = ELitAccount world /\ a = world) \/
  (exists i, e = EVar i /\ assoc_N i ve = Some (VAccount a) /\ a <> world).

Lemma denotes_eval : forall ve e a, denotes ve e a -> eval_account ve e = SOk a.
Proof.
  intros ve e a [[-> ->]|[i [-> [H _]]]]; unfold eval_account; cbn; [reflexivity|].
  rewrite H. reflexivity.
Qed.
Lemma denotes_lit : forall ve e a, denotes ve e a -> is_world_lit e = N.eqb a world.
Proof.
  intros ve e a [[-> ->]|[i [-> [_ H]]]]; cbn; [reflexivity|].
  destruct (N.eqb_spec a world); congruence.
Qed.

(* effect of a posting on the table: tracked entries move by [delta]; nothing is created or lost *)
Definition send_rel (p : posting) (b b' : balances) : Prop :=
  forall a' s',
    match bal_get b a' s' with
    | None => bal_get b' a' s' = None
    | Some v => exists v', bal_get b' a' s' = Some v' /\ (a' <> world -> v' = v + delta p a' s')
    end.

Definition set_posts (st : sstate) (b : balances) (p : posting) : sstate :=
  {| s_bals := b; s_posts := s_posts st ++ [p]; s_txmeta := s_txmeta st; s_accmeta := s_accmeta st;
     s_printed := s_printed st |}.

Section OneSend.
  Variable ve : venv.
  Variables (mj : N) (se de : expr) (a d : account) (s : asset) (z : Z).
  Hypothesis Hmon : assoc_N mj ve = Some (VMonetary s z).
  Hypothesis Hsrc : denotes ve se a.
  Hypothesis Hdst : denotes ve de d.

  Let p := {| p_src := a; p_dst := d; p_asset := s; p_amount := z |}.

  Lemma eval_mon : eval_monetary ve (EVar mj) = SOk (s, z).
  Proof. unfold eval_monetary; cbn. rewrite Hmon. reflexivity. Qed.
  Lemma lead_mon : lead_asset ve (EVar mj) = SOk s.
  Proof. cbn [lead_asset]. rewrite eval_mon. reflexivity. Qed.

  (* --- destination phase: the single part goes to [d], the zero remainder is repaid ----------------------------- *)
  Definition after_dest (b1 b2 : balances) : Prop :=
    forall a' s',
      bal_get b2 a' s' =
      if negb (N.eqb d world) && (N.eqb a' d && N.eqb s' s)
      then option_map (fun v => v + z) (bal_get b1 a' s')
      else bal_get b1 a' s'.

  Lemma dest_phase : forall st1,
    0 <= z -> (a = world \/ bal_get (s_bals st1) a s <> None) ->
    exists b2,
      (sdo '(lo, st2) <- sem_dest ve (DAccount de) (one s a z) st1; do_repay st2 lo) = SOk (set_posts st1 b2 p)
      /\ after_dest (s_bals st1) b2.
  Proof.
    intros st1 Hz Htr. cbn [sem_dest]. rewrite total_one, (take_one s a z z Hz).
    destruct (Z.leb_spec 0 z); [|lia]. destruct (Z.leb_spec z z); [|lia]. cbn [andb].
    rewrite (denotes_eval _ _ _ Hdst). cbn [sbind].
    (* the table after the credit *)
    set (bc := credit (s_bals st1) d (one s a z)).
    assert (Hbc : after_dest (s_bals st1) bc).
    { intros a' s'. subst bc. unfold credit. rewrite total_one. cbn [f_asset one].
      destruct (N.eqb_spec d world) as [Ed|Ed]; cbn [negb andb]; [reflexivity|].
      destruct (bal_get (s_bals st1) d s) as [vd|] eqn:Hd.
      - rewrite bal_get_set. destruct (N.eqb a' d && N.eqb s' s) eqn:E; [|reflexivity].
        apply andb_prop in E. destruct E as [E1 E2]. apply N.eqb_eq in E1, E2. subst. rewrite Hd. reflexivity.
      - destruct (N.eqb a' d && N.eqb s' s) eqn:E; [|reflexivity].
        apply andb_prop in E. destruct E as [E1 E2]. apply N.eqb_eq in E1, E2. subst. rewrite Hd. reflexivity. }
    unfold do_send, do_repay, mkf. cbn [f_parts f_asset s_bals map fst snd one].
    fold bc.
    destruct (Z.eqb_spec z 0) as [E0|E0].
    - (* zero amount: the remainder [(a, 0)] is repaid *)
      destruct (N.eqb_spec a world) as [Ea|Ea].
      + subst a. rewrite repay_world. eexists. split; [reflexivity|]. exact Hbc.
      + destruct Htr as [Htr|Htr]; [contradiction|].
        destruct (bal_get bc a s) as [vc|] eqn:Hc.
        * rewrite (repay_single bc a s vc z Ea Hc). eexists. split; [reflexivity|].
          intros a' s'. cbn [s_bals with_bals]. rewrite bal_get_set.
          destruct (N.eqb a' a && N.eqb s' s) eqn:E; [|apply Hbc].
          apply andb_prop in E. destruct E as [E1 E2]. apply N.eqb_eq in E1, E2. subst a' s'.
          rewrite <- Hbc, Hc. f_equal. lia.
        * exfalso. rewrite Hbc in Hc. destruct (bal_get (s_bals st1) a s); [|congruence].
          destruct (negb (N.eqb d world) && (N.eqb a d && N.eqb s s)); discriminate.
    - rewrite Z.eqb_refl, repay_nil. eexists. split; [reflexivity|]. exact Hbc.
  Qed.

  (* --- source phase ---------------------------------------------------------------------------------------------- *)
  Definition after_src (b b1 : balances) (w : Z) : Prop :=
    forall a' s', bal_get b1 a' s' = if N.eqb a' a && N.eqb s' s then Some w else bal_get b a' s'.


  Lemma src_phase : forall (unb : bool) st bal,
    bal_get (s_bals st) a s = Some bal ->
    let ov := if N.eqb a world then OvNone else if unb then OvUnbounded else OvNone in
    let fb := N.eqb a world || unb in
    let r := (sdo '(f, st1) <- sem_source ve s (SAccount se ov) st;
              sdo '(ms, mamt) <- eval_monetary ve (EVar mj);
              take_from ve (fallback_of (SAccount se ov)) st1 f ms mamt) in
    if (0 <=? z) && (fb || (z <=? Z.max 0 bal))
    then exists b1 w, r = SOk (one s a z, with_bals st b1) /\ after_src (s_bals st) b1 w /\ (a <> world -> w = bal - z)
    else r = SErr (if fb then EOtherRun else EInsufficient).
  Proof.
    intros unb st bal Hbal ov fb r.
    assert (Hfb : fallback_of (SAccount se ov) = if fb then Some se else None).
    { subst ov fb. cbn [fallback_of]. rewrite (denotes_lit _ _ _ Hsrc).
      destruct (N.eqb a world); cbn; [reflexivity|]. destruct unb; reflexivity. }
    assert (Hov : match ov with OvSpecific e => eval_monetary ve e | _ => SOk (s, 0) end = SOk (s, 0)).
    { subst ov. destruct (N.eqb a world); [reflexivity|]. destruct unb; reflexivity. }
    subst r. cbn [sem_source]. rewrite (denotes_eval _ _ _ Hsrc). cbn [sbind].
    rewrite Hov. cbn [sbind]. unfold withdraw_all. rewrite Hbal. rewrite Z.add_0_r.
    rewrite eval_mon, Hfb.
    (* the funding taken from the account: max 0 bal, and the table with the account emptied *)
    set (x := Z.max 0 bal).
    assert (Hx : 0 <= x) by (subst x; lia).
    set (b0 := if 0 <? bal then bal_set (s_bals st) a s (- 0) else s_bals st).
    assert (Hb0 : forall a' s', bal_get b0 a' s' = if N.eqb a' a && N.eqb s' s then Some (bal - x) else bal_get (s_bals st) a' s').
    { intros a' s'. subst b0 x. destruct (Z.ltb_spec 0 bal).
      - rewrite bal_get_set. destruct (N.eqb a' a && N.eqb s' s); [|reflexivity]. f_equal. lia.
      - destruct (N.eqb_spec a' a), (N.eqb_spec s' s); cbn [andb]; subst; try reflexivity.
        rewrite Hbal. f_equal. lia. }
    assert (Hw : (if 0 <? bal
                  then Some ({| f_asset := s; f_parts := [(a, bal)] |}, bal_set (s_bals st) a s (- 0))
                  else Some ({| f_asset := s; f_parts := [(a, 0)] |}, s_bals st))
                 = Some (one s a x, b0)).
    { subst b0 x. unfold one. destruct (Z.ltb_spec 0 bal); repeat f_equal; lia. }
    rewrite Hw. cbn [sbind]. clear Hw.
    destruct fb eqn:Efb; cbn [orb].
    - (* fallback path: @world, or unbounded overdraft *)
      unfold take_from. cbn [s_bals with_bals].
      destruct (Z.leb_spec 0 z) as [Hz|Hz]; cbn [andb].
      + destruct (Z.ltb_spec z 0); [lia|].
        cbn [one f_asset]. rewrite N.eqb_refl. cbn [negb].
        fold (one s a x). rewrite total_one, (take_max_one s a x z Hx Hz).
        set (missing := if x <? z then z - x else 0).
        rewrite (denotes_eval _ _ _ Hsrc).
        destruct (N.eqb_spec a world) as [Ea|Ea].
        * (* @world: repay skips it *)
          assert (Hrep : do_repay (with_bals st b0)
                           (mkf s (if z =? 0 then [(a, x)] else if z <? x then [(a, x - z)] else []))
                         = SOk (with_bals st b0)).
          { unfold do_repay, mkf. cbn [f_asset f_parts s_bals with_bals]. subst a.
            destruct (z =? 0); [rewrite repay_world; reflexivity|].
            destruct (z <? x); [rewrite repay_world|rewrite repay_nil]; reflexivity. }
          rewrite Hrep. cbn [sbind s_bals with_bals]. unfold withdraw_always.
          rewrite Hb0, !N.eqb_refl. cbn [andb sbind].
          unfold assemble. cbn [rev app forallb f_asset mkf]. rewrite !N.eqb_refl. cbn [andb fold_left f_parts mkf]. cbn [concat_parts].
          subst missing. rewrite (concat_fallback a x z Hx Hz).
          eexists. eexists. split; [reflexivity|]. split; [|intros; contradiction].
          intros a' s'. cbn [with_bals s_bals]. rewrite bal_get_set.
          destruct (N.eqb a' a && N.eqb s' s) eqn:E; [reflexivity|]. rewrite Hb0, E. reflexivity.
        * (* unbounded overdraft on an ordinary account *)
          assert (Hrep : exists br, do_repay (with_bals st b0)
                           (mkf s (if z =? 0 then [(a, x)] else if z <? x then [(a, x - z)] else []))
                         = SOk (with_bals st br) /\
                         forall a' s', bal_get br a' s' =
                           if N.eqb a' a && N.eqb s' s then Some (bal - x + (if z =? 0 then x else if z <? x then x - z else 0))
                           else bal_get (s_bals st) a' s').
          { unfold do_repay, mkf. cbn [f_asset f_parts s_bals with_bals].
            assert (Hg : bal_get b0 a s = Some (bal - x)) by (rewrite Hb0, !N.eqb_refl; reflexivity).
            destruct (z =? 0).
            - rewrite (repay_single _ _ _ _ _ Ea Hg). eexists. split; [reflexivity|].
              intros a' s'. rewrite bal_get_set. destruct (N.eqb a' a && N.eqb s' s) eqn:E; [reflexivity|].
              rewrite Hb0, E. reflexivity.
            - destruct (z <? x).
              + rewrite (repay_single _ _ _ _ _ Ea Hg). eexists. split; [reflexivity|].
                intros a' s'. rewrite bal_get_set. destruct (N.eqb a' a && N.eqb s' s) eqn:E; [reflexivity|].
                rewrite Hb0, E. reflexivity.
              + rewrite repay_nil. eexists. split; [reflexivity|].
                intros a' s'. rewrite Hb0. destruct (N.eqb a' a && N.eqb s' s); [|reflexivity]. f_equal. lia. }
          destruct Hrep as [br [Hrep Hbr]]. rewrite Hrep. cbn [sbind s_bals with_bals]. unfold withdraw_always.
          rewrite Hbr, !N.eqb_refl. cbn [andb sbind].
          unfold assemble. cbn [rev app forallb f_asset mkf]. rewrite !N.eqb_refl. cbn [andb fold_left f_parts mkf]. cbn [concat_parts].
          subst missing. rewrite (concat_fallback a x z Hx Hz).
          eexists. eexists. split; [reflexivity|]. split.
          -- intros a' s'. cbn [with_bals s_bals]. rewrite bal_get_set.
             destruct (N.eqb a' a && N.eqb s' s) eqn:E; [reflexivity|]. rewrite Hbr, E. reflexivity.
          -- intros _. subst x.
             destruct (Z.eqb_spec z 0); [subst; destruct (Z.ltb_spec (Z.max 0 bal) 0); lia|].
             destruct (Z.ltb_spec z (Z.max 0 bal)), (Z.ltb_spec (Z.max 0 bal) z); lia.
      + destruct (Z.ltb_spec z 0); [|lia]. reflexivity.
    - (* no fallback: Take *)
      apply orb_false_elim in Efb. destruct Efb as [Ea Eu].
      destruct (N.eqb_spec a world) as [|Ea']; [discriminate|]. clear Ea.
      unfold take_from. cbn [one f_asset]. rewrite N.eqb_refl. cbn [negb].
      fold (one s a x). rewrite (take_one s a x z Hx). fold x.
      destruct ((0 <=? z) && (z <=? x)) eqn:Ecov; [|reflexivity].
      apply andb_prop in Ecov. destruct Ecov as [Hz Hzx]. apply Z.leb_le in Hz. apply Z.leb_le in Hzx.
      assert (Hg : bal_get b0 a s = Some (bal - x)) by (rewrite Hb0, !N.eqb_refl; reflexivity).
      unfold do_repay, mkf. cbn [f_asset f_parts s_bals with_bals].
      destruct (Z.eqb_spec z 0) as [E0|E0].
      + rewrite (repay_single _ _ _ _ _ Ea' Hg). cbn [sbind]. eexists. eexists. split; [reflexivity|]. split.
        * intros a' s'. cbn [with_bals s_bals]. rewrite bal_get_set.
          destruct (N.eqb a' a && N.eqb s' s) eqn:E; [reflexivity|]. rewrite Hb0, E. reflexivity.
        * intros _. lia.
      + destruct (Z.eqb_spec z x) as [Ex|Ex].
        * rewrite repay_nil. cbn [sbind]. eexists. eexists. split; [reflexivity|]. split.
          -- intros a' s'. cbn [with_bals s_bals]. apply Hb0.
          -- intros _. lia.
        * rewrite (repay_single _ _ _ _ _ Ea' Hg). cbn [sbind]. eexists. eexists. split; [reflexivity|]. split.
          -- intros a' s'. cbn [with_bals s_bals]. rewrite bal_get_set.
             destruct (N.eqb a' a && N.eqb s' s) eqn:E; [reflexivity|]. rewrite Hb0, E. reflexivity.
          -- intros _. lia.
  Qed.
End OneSend.

Definition mkp (a d : account) (s : asset) (z : Z) : posting :=
  {| p_src := a; p_dst := d; p_asset := s; p_amount := z |}.

Definition send_stmt (mj : N) (se de : expr) (a : account) (unb : bool) : stmt :=
  StSend (SendMon (EVar mj))
         (VSrc (SAccount se (if N.eqb a world then OvNone else if unb then OvUnbounded else OvNone)))
         (DAccount de).

(* the error a posting that is not covered produces *)
Definition fail_class (unb : bool) (a : account) : eclass :=
  if N.eqb a world || unb then EOtherRun else EInsufficient.

Lemma send_spec : forall ve mj se de a d s z unb st,
  assoc_N mj ve = Some (VMonetary s z) -> denotes ve se a -> denotes ve de d ->
  match bal_get (s_bals st) a s with
  | None => sem_stmt ve (send_stmt mj se de a unb) st = SErr EInvalidScript
  | Some bal =>
      if covered unb (mkp a d s z) bal
      then exists b', sem_stmt ve (send_stmt mj se de a unb) st = SOk (set_posts st b' (mkp a d s z))
                      /\ send_rel (mkp a d s z) (s_bals st) b'
      else sem_stmt ve (send_stmt mj se de a unb) st = SErr (fail_class unb a)
  end.
Proof.
  intros ve mj se de a d s z unb st Hmon Hsrc Hdst.
  unfold send_stmt. cbn [sem_stmt]. unfold sem_send. rewrite (lead_mon ve mj s z Hmon). cbn [sbind].
  destruct (bal_get (s_bals st) a s) as [bal|] eqn:Hbal.
  - pose proof (src_phase ve mj se a d s z Hmon Hsrc unb st bal Hbal) as H. cbv zeta in H.
    unfold covered, mkp. cbn [p_amount p_src].
    destruct ((0 <=? z) && ((a =? world)%N || unb || (z <=? Z.max 0 bal))) eqn:Ecov.
    + destruct H as [b1 [w [Hr [Hs Hw]]]]. rewrite Hr. cbn [sbind].
      assert (Hz : 0 <= z) by (apply andb_prop in Ecov; destruct Ecov as [E _]; apply Z.leb_le in E; exact E).
      assert (Htr : a = world \/ bal_get (s_bals (with_bals st b1)) a s <> None).
      { right. cbn [s_bals with_bals]. rewrite Hs, !N.eqb_refl. cbn. discriminate. }
      destruct (dest_phase ve se de a d s z Hsrc Hdst (with_bals st b1) Hz Htr) as [b2 [Hd Ha]].
      rewrite Hd. exists b2. split; [reflexivity|].
      cbn [s_bals with_bals] in Ha.
      intros a' s'. rewrite Ha, Hs. unfold delta. cbn [p_src p_dst p_asset p_amount].
      destruct (N.eqb_spec a' a) as [E1|E1]; destruct (N.eqb_spec s' s) as [E2|E2];
        destruct (N.eqb_spec a' d) as [E3|E3]; destruct (N.eqb_spec d world) as [E4|E4];
        cbn [andb negb option_map]; subst; rewrite ?Hbal; cbn [option_map];
        first
          [ solve [eexists; split; [reflexivity|]; intros Hnw; try (specialize (Hw Hnw)); try contradiction; lia]
          | lazymatch goal with
            | |- match ?o with Some _ => _ | None => _ end =>
                destruct o eqn:?; cbn [option_map];
                first [ reflexivity
                      | solve [eexists; split; [reflexivity|]; intros Hnw; try contradiction; lia] ]
            end ].
    + rewrite H. reflexivity.
  - cbn [sem_source]. rewrite (denotes_eval _ _ _ Hsrc). cbn [sbind].
    assert (Hov : match (if N.eqb a world then OvNone else if unb then OvUnbounded else OvNone) with
                  | OvSpecific e => eval_monetary ve e | _ => SOk (s, 0) end = SOk (s, 0)).
    { destruct (N.eqb a world); [reflexivity|]. destruct unb; reflexivity. }
    rewrite Hov. cbn [sbind]. unfold withdraw_all. rewrite Hbal. reflexivity.
Qed.

(* ================================================================================================================ *)
(* 4. the variables of the produced script                                                                           *)
(* ================================================================================================================ *)

Lemma va_inj : forall i j, va i = va j -> i = j.
Proof. unfold va. intros. lia. Qed.
Lemma vm_inj : forall i j, vm i = vm j -> i = j.
Proof. unfold vm. intros. lia. Qed.
Lemma va_vm : forall i j, va i <> vm j.
Proof. unfold va, vm. intros. lia. Qed.

Lemma mon_eqb_eq : forall x y, mon_eqb x y = true -> x = y.
Proof.
  intros [a x] [b y]. unfold mon_eqb. cbn. intros H. apply andb_prop in H. destruct H as [H1 H2].
  apply N.eqb_eq in H1. apply Z.eqb_eq in H2. subst. reflexivity.
Qed.
Lemma mon_eqb_refl : forall x, mon_eqb x x = true.
Proof. intros [a x]. unfold mon_eqb. cbn. rewrite N.eqb_refl, Z.eqb_refl. reflexivity. Qed.

Lemma assoc_acc_vars : forall am k i a rest,
  index_of N.eqb a am = Some i -> assoc_N (va (k + i)) (acc_vars k am ++ rest) = Some (VAccount a).
Proof.
  induction am as [|a0 r IH]; intros k i a rest H; cbn [index_of] in H; [discriminate|].
  cbn [acc_vars app assoc_N].
  destruct (N.eqb_spec a a0) as [E|E].
  - inversion H; subst. rewrite Nat.add_0_r, N.eqb_refl. reflexivity.
  - destruct (index_of N.eqb a r) as [i'|] eqn:Ei; [|discriminate]. inversion H; subst.
    destruct (N.eqb_spec (va (k + S i')) (va k)) as [Ev|Ev]; [apply va_inj in Ev; lia|].
    replace (k + S i')%nat with (S k + i')%nat by lia. apply IH. exact Ei.
Qed.

Lemma assoc_skip_acc : forall am k j rest, assoc_N (vm j) (acc_vars k am ++ rest) = assoc_N (vm j) rest.
Proof.
  induction am as [|a0 r IH]; intros k j rest; cbn [acc_vars app assoc_N]; [reflexivity|].
  destruct (N.eqb_spec (vm j) (va k)) as [E|E]; [symmetry in E; apply va_vm in E; contradiction|]. apply IH.
Qed.

Lemma assoc_mon_vars : forall mm k j x,
  index_of mon_eqb x mm = Some j -> assoc_N (vm (k + j)) (mon_vars k mm) = Some (VMonetary (fst x) (snd x)).
Proof.
  induction mm as [|x0 r IH]; intros k j x H; cbn [index_of] in H; [discriminate|].
  cbn [mon_vars assoc_N].
  destruct (mon_eqb x x0) eqn:E.
  - apply mon_eqb_eq in E. inversion H; subst. rewrite Nat.add_0_r, N.eqb_refl. reflexivity.
  - destruct (index_of mon_eqb x r) as [j'|] eqn:Ej; [|discriminate]. inversion H; subst.
    destruct (N.eqb_spec (vm (k + S j')) (vm k)) as [Ev|Ev]; [apply vm_inj in Ev; lia|].
    replace (k + S j')%nat with (S k + j')%nat by lia. apply IH. exact Ej.
Qed.

Definition has {A} (eqb : A -> A -> bool) (x : A) (l : list A) : Prop := index_of eqb x l <> None.

Lemma has_app_l : forall A (eqb : A -> A -> bool) x l r, has eqb x l -> has eqb x (l ++ r).
Proof.
  unfold has. induction l as [|y l IH]; intros r H; cbn [index_of app] in *; [congruence|].
  destruct (eqb x y); [discriminate|].
  destruct (index_of eqb x l) eqn:E; [|congruence].
  specialize (IH r). destruct (index_of eqb x (l ++ r)); [discriminate|]. exfalso. apply IH; congruence.
Qed.
Lemma has_app_self : forall A (eqb : A -> A -> bool) x l, eqb x x = true -> has eqb x (l ++ [x]).
Proof.
  unfold has. induction l as [|y l IH]; intros Hr; cbn [index_of app].
  - rewrite Hr. discriminate.
  - destruct (eqb x y); [discriminate|]. specialize (IH Hr).
    destruct (index_of eqb x (l ++ [x])); [discriminate|congruence].
Qed.

Lemma has_acc_add : forall a m x, has N.eqb x m -> has N.eqb x (acc_add a m).
Proof.
  intros a m x H. unfold acc_add. destruct (index_of N.eqb a m); [exact H|].
  destruct (N.eqb a world); [exact H|]. apply has_app_l. exact H.
Qed.
Lemma has_acc_add_self : forall a m, a <> world -> has N.eqb a (acc_add a m).
Proof.
  intros a m Ha. unfold acc_add. destruct (index_of N.eqb a m) eqn:E; [unfold has; congruence|].
  destruct (N.eqb_spec a world); [contradiction|]. apply has_app_self. apply N.eqb_refl.
Qed.
Lemma has_mon_add : forall y m x, has mon_eqb x m -> has mon_eqb x (mon_add y m).
Proof.
  intros y m x H. unfold mon_add. destruct (index_of mon_eqb y m); [exact H|]. apply has_app_l. exact H.
Qed.
Lemma has_mon_add_self : forall y m, has mon_eqb y (mon_add y m).
Proof.
  intros y m. unfold mon_add. destruct (index_of mon_eqb y m) eqn:E; [unfold has; congruence|].
  apply has_app_self. apply mon_eqb_refl.
Qed.

(* every key the second loop looks up was entered by the first loop: the Go panics are unreachable *)
Definition in_maps (am : list account) (mm : list (asset * Z)) (p : posting) : Prop :=
  (p_src p = world \/ has N.eqb (p_src p) am) /\ (p_dst p = world \/ has N.eqb (p_dst p) am) /\
  has mon_eqb (p_asset p, p_amount p) mm.

Lemma collect_in_maps : forall ps am0 mm0 am mm,
  collect ps am0 mm0 = (am, mm) ->
  (forall x, has N.eqb x am0 -> has N.eqb x am) /\ (forall x, has mon_eqb x mm0 -> has mon_eqb x mm) /\
  Forall (in_maps am mm) ps.
Proof.
  induction ps as [|p r IH]; intros am0 mm0 am mm H; cbn [collect] in H.
  - inversion H; subst. repeat split; auto.
  - destruct (IH _ _ _ _ H) as [Ha [Hm Hf]]. repeat split.
    + intros x Hx. apply Ha. apply has_acc_add. apply has_acc_add. exact Hx.
    + intros x Hx. apply Hm. apply has_mon_add. exact Hx.
    + constructor; [|exact Hf]. unfold in_maps. repeat split.
      * destruct (N.eq_dec (p_src p) world) as [E|E]; [left; exact E|right].
        apply Ha. apply has_acc_add. apply has_acc_add_self. exact E.
      * destruct (N.eq_dec (p_dst p) world) as [E|E]; [left; exact E|right].
        apply Ha. apply has_acc_add_self. exact E.
      * apply Hm. apply has_mon_add_self.
Qed.

Definition vars_of (am : list account) (mm : list (asset * Z)) : venv := acc_vars 0 am ++ mon_vars 0 mm.

Lemma denotes_acc_expr : forall am mm a,
  a = world \/ has N.eqb a am -> denotes (vars_of am mm) (acc_expr am a) a.
Proof.
  intros am mm a H. unfold acc_expr.
  destruct (N.eqb_spec a world) as [E|E]; [left; auto|right].
  destruct H as [H|H]; [contradiction|]. unfold has in H.
  destruct (index_of N.eqb a am) as [i|] eqn:Ei; [|congruence].
  exists (va i). repeat split; auto. unfold vars_of. apply (assoc_acc_vars am 0 i a). exact Ei.
Qed.

Lemma mon_expr_lookup : forall am mm x,
  has mon_eqb x mm ->
  exists j, mon_expr mm x = EVar (vm j) /\ assoc_N (vm j) (vars_of am mm) = Some (VMonetary (fst x) (snd x)).
Proof.
  intros am mm x H. unfold has in H. unfold mon_expr.
  destruct (index_of mon_eqb x mm) as [j|] eqn:Ej; [|congruence].
  exists j. split; [reflexivity|]. unfold vars_of. rewrite assoc_skip_acc. apply (assoc_mon_vars mm 0 j x). exact Ej.
Qed.

(* ================================================================================================================ *)
(* 5. the whole script                                                                                               *)
(* ================================================================================================================ *)

Section Script.
  Variables (am : list account) (mm : list (asset * Z)) (unb : bool).
  Let ve := vars_of am mm.

  Lemma send_of_spec : forall p st,
    in_maps am mm p ->
    match bal_get (s_bals st) (p_src p) (p_asset p) with
    | None => sem_stmt ve (send_of am mm unb p) st = SErr EInvalidScript
    | Some bal =>
        if covered unb p bal
        then exists b', sem_stmt ve (send_of am mm unb p) st = SOk (set_posts st b' p) /\ send_rel p (s_bals st) b'
        else sem_stmt ve (send_of am mm unb p) st = SErr (fail_class unb (p_src p))
    end.
  Proof.
    intros [a d s z] st [Hs [Hd Hm]]. cbn [p_src p_dst p_asset p_amount] in *.
    destruct (mon_expr_lookup am mm (s, z) Hm) as [j [Ej Hj]]. cbn [fst snd] in Hj.
    pose proof (send_spec ve (vm j) (acc_expr am a) (acc_expr am d) a d s z unb st Hj
                  (denotes_acc_expr am mm a Hs) (denotes_acc_expr am mm d Hd)) as H.
    unfold send_of. cbn [p_src p_dst p_asset p_amount]. rewrite Ej. exact H.
  Qed.

  Definition same_rest (st st' : sstate) : Prop :=
    s_txmeta st' = s_txmeta st /\ s_accmeta st' = s_accmeta st /\ s_printed st' = s_printed st.

  Lemma stmts_exact : forall ps st st',
    Forall (in_maps am mm) ps ->
    sem_stmts ve (map (send_of am mm unb) ps) st = SOk st' ->
    s_posts st' = s_posts st ++ ps /\ same_rest st st'.
  Proof.
    induction ps as [|p r IH]; intros st st' Hf H; cbn [map sem_stmts] in H.
    - inversion H; subst. rewrite app_nil_r. repeat split.
    - inversion Hf as [|? ? Hp Hr]; subst.
      pose proof (send_of_spec p st Hp) as Hs.
      destruct (bal_get (s_bals st) (p_src p) (p_asset p)) as [bal|].
      + destruct (covered unb p bal).
        * destruct Hs as [b' [Hs _]]. rewrite Hs in H. cbn [sbind] in H.
          destruct (IH _ _ Hr H) as [Hp' [H1 [H2 H3]]]. cbn [set_posts s_posts s_txmeta s_accmeta s_printed] in *.
          split; [rewrite Hp', <- app_assoc; reflexivity|]. repeat split; assumption.
        * rewrite Hs in H. discriminate.
      + rewrite Hs in H. discriminate.
  Qed.

  (* the table and the abstract balance map agree on the sources still to be visited *)
  Definition agree (b : balances) (f : bmap) (ps : list posting) : Prop :=
    forall p, In p ps ->
      exists v, bal_get b (p_src p) (p_asset p) = Some v /\ (p_src p <> world -> v = f (p_src p) (p_asset p)).

  Lemma agree_step : forall b b' f p r, agree b f (p :: r) -> send_rel p b b' -> agree b' (apply1 p f) r.
  Proof.
    intros b b' f p r Hag Hrel q Hq.
    destruct (Hag q (or_intror Hq)) as [v [Hv Hf]].
    specialize (Hrel (p_src q) (p_asset q)). rewrite Hv in Hrel. destruct Hrel as [v' [Hv' Hd]].
    exists v'. split; [exact Hv'|]. intros Hnw. unfold apply1. rewrite (Hd Hnw), (Hf Hnw). reflexivity.
  Qed.

  Lemma covered_agree : forall p v (f : bmap),
    (p_src p <> world -> v = f (p_src p) (p_asset p)) -> covered unb p v = covered unb p (f (p_src p) (p_asset p)).
  Proof.
    intros p v f H. unfold covered. destruct (N.eqb_spec (p_src p) world) as [E|E].
    - reflexivity.
    - rewrite (H E). reflexivity.
  Qed.

  Lemma stmts_iff : forall ps st f,
    Forall (in_maps am mm) ps -> agree (s_bals st) f ps ->
    ((exists st', sem_stmts ve (map (send_of am mm unb) ps) st = SOk st') <-> replay_ok unb f ps = true).
  Proof.
    induction ps as [|p r IH]; intros st f Hf Hag; cbn [map sem_stmts replay_ok].
    - split; [reflexivity|]. intros _. eexists. reflexivity.
    - inversion Hf as [|? ? Hp Hr]; subst.
      destruct (Hag p (or_introl eq_refl)) as [v [Hv Hfv]].
      pose proof (send_of_spec p st Hp) as Hs. rewrite Hv in Hs.
      rewrite <- (covered_agree p v f Hfv).
      destruct (covered unb p v).
      + destruct Hs as [b' [Hs Hrel]]. rewrite Hs. cbn [sbind andb].
        apply (IH (set_posts st b' p) (apply1 p f) Hr). cbn [set_posts s_bals].
        eapply agree_step; eauto.
      + rewrite Hs. cbn [sbind andb]. split; [intros [st' H]; discriminate|discriminate].
  Qed.

  (* a request without negative amounts can only fail for lack of funds, and only in unforced mode *)
  Lemma stmts_fail : forall ps st f e,
    Forall (in_maps am mm) ps -> agree (s_bals st) f ps -> (forall p, In p ps -> 0 <= p_amount p) ->
    sem_stmts ve (map (send_of am mm unb) ps) st = SErr e -> e = EInsufficient /\ unb = false.
  Proof.
    induction ps as [|p r IH]; intros st f e Hf Hag Hpos H; cbn [map sem_stmts] in H; [discriminate|].
    inversion Hf as [|? ? Hp Hr]; subst.
    destruct (Hag p (or_introl eq_refl)) as [v [Hv Hfv]].
    pose proof (send_of_spec p st Hp) as Hs. rewrite Hv in Hs.
    destruct (covered unb p v) eqn:Ec.
    - destruct Hs as [b' [Hs Hrel]]. rewrite Hs in H. cbn [sbind] in H.
      apply (IH (set_posts st b' p) (apply1 p f) e Hr); auto.
      + cbn [set_posts s_bals]. eapply agree_step; eauto.
      + intros q Hq. apply Hpos. right. exact Hq.
    - rewrite Hs in H. cbn [sbind] in H. inversion H; subst. unfold fail_class.
      unfold covered in Ec. specialize (Hpos p (or_introl eq_refl)).
      destruct (Z.leb_spec 0 (p_amount p)); [|lia]. cbn [andb] in Ec.
      destruct (N.eqb (p_src p) world); [discriminate|]. destruct unb; [discriminate|]. split; reflexivity.
  Qed.
End Script.

Lemma existsb_none : forall (A : Type) (l : list A), existsb (fun _ => false) l = false.
Proof. induction l; cbn; auto. Qed.

Lemma finish_empty : forall st extra,
  s_txmeta st = [] -> s_accmeta st = [] ->
  sem_finish st extra = SOk {| res_posts := s_posts st; res_txmeta := []; res_accmeta := []; res_printed := s_printed st |}.
Proof.
  intros st extra H1 H2. unfold sem_finish. rewrite H1, H2. cbn [meta_final map existsb].
  rewrite existsb_none. reflexivity.
Qed.

Definition init_state (b : balances) : sstate :=
  {| s_bals := b; s_posts := []; s_txmeta := []; s_accmeta := []; s_printed := [] |}.

Lemma sem_tx_to_script : forall ps unb b extra,
  exists am mm,
    collect ps [] [] = (am, mm) /\
    sem (fst (tx_to_script ps unb)) (snd (tx_to_script ps unb)) b extra =
    sdo st <- sem_stmts (vars_of am mm) (map (send_of am mm unb) ps) (init_state b); sem_finish st extra.
Proof.
  intros ps unb b extra. unfold tx_to_script. destruct (collect ps [] []) as [am mm] eqn:Hc.
  exists am, mm. split; [reflexivity|]. reflexivity.
Qed.

Theorem exact_result : forall ps unb b extra r,
  sem (fst (tx_to_script ps unb)) (snd (tx_to_script ps unb)) b extra = SOk r ->
  res_posts r = ps /\ res_txmeta r = [] /\ res_accmeta r = [] /\ res_printed r = [].
Proof.
  intros ps unb b extra r H.
  destruct (sem_tx_to_script ps unb b extra) as [am [mm [Hc He]]]. rewrite He in H. clear He.
  destruct (collect_in_maps _ _ _ _ _ Hc) as [_ [_ Hf]].
  destruct (sem_stmts (vars_of am mm) (map (send_of am mm unb) ps) (init_state b)) as [st|e] eqn:Hs; [|discriminate].
  cbn [sbind] in H.
  destruct (stmts_exact am mm unb ps _ _ Hf Hs) as [Hp [H1 [H2 H3]]]. cbn [init_state s_posts s_txmeta s_accmeta s_printed app] in *.
  rewrite (finish_empty st extra H1 H2) in H. inversion H; subst. cbn. auto.
Qed.

Lemma tracks_agree : forall b ps, tracks b ps -> agree b (view b) ps.
Proof.
  intros b ps Ht p Hp. specialize (Ht p Hp). unfold view.
  destruct (bal_get b (p_src p) (p_asset p)) as [v|]; [|congruence]. exists v. split; auto.
Qed.

Theorem success_iff : forall ps unb b extra,
  tracks b ps ->
  ((exists r, sem (fst (tx_to_script ps unb)) (snd (tx_to_script ps unb)) b extra = SOk r)
   <-> replay_ok unb (view b) ps = true).
Proof.
  intros ps unb b extra Ht.
  destruct (sem_tx_to_script ps unb b extra) as [am [mm [Hc He]]]. rewrite He. clear He.
  destruct (collect_in_maps _ _ _ _ _ Hc) as [_ [_ Hf]].
  rewrite <- (stmts_iff am mm unb ps (init_state b) (view b) Hf (tracks_agree b ps Ht)).
  split.
  - intros [r H]. destruct (sem_stmts _ _ _) as [st|e]; [eexists; reflexivity|discriminate].
  - intros [st H]. rewrite H. cbn [sbind].
    destruct (stmts_exact am mm unb ps _ _ Hf H) as [_ [H1 [H2 _]]]. cbn [init_state s_txmeta s_accmeta] in *.
    rewrite (finish_empty st extra H1 H2). eexists. reflexivity.
Qed.

Theorem failure_class : forall ps unb b extra e,
  tracks b ps -> (forall p, In p ps -> 0 <= p_amount p) ->
  sem (fst (tx_to_script ps unb)) (snd (tx_to_script ps unb)) b extra = SErr e ->
  e = EInsufficient /\ unb = false.
Proof.
  intros ps unb b extra e Ht Hpos H.
  destruct (sem_tx_to_script ps unb b extra) as [am [mm [Hc He]]]. rewrite He in H. clear He.
  destruct (collect_in_maps _ _ _ _ _ Hc) as [_ [_ Hf]].
  destruct (sem_stmts (vars_of am mm) (map (send_of am mm unb) ps) (init_state b)) as [st|e'] eqn:Hs.
  - cbn [sbind] in H. destruct (stmts_exact am mm unb ps _ _ Hf Hs) as [_ [H1 [H2 _]]].
    cbn [init_state s_txmeta s_accmeta] in *. rewrite (finish_empty st extra H1 H2) in H. discriminate.
  - cbn [sbind] in H. inversion H; subst.
    eapply (stmts_fail am mm unb ps (init_state b) (view b)); eauto. apply tracks_agree. exact Ht.
Qed.

(* the supplied metadata cannot collide with anything: the outcome does not depend on it *)
Theorem extra_irrelevant : forall ps unb b extra,
  sem (fst (tx_to_script ps unb)) (snd (tx_to_script ps unb)) b extra =
  sem (fst (tx_to_script ps unb)) (snd (tx_to_script ps unb)) b [].
Proof.
  intros ps unb b extra.
  destruct (sem_tx_to_script ps unb b extra) as [am [mm [Hc He]]].
  destruct (sem_tx_to_script ps unb b []) as [am' [mm' [Hc' He']]].
  rewrite Hc in Hc'. inversion Hc'; subst am' mm'. rewrite He, He'.
  destruct (collect_in_maps _ _ _ _ _ Hc) as [_ [_ Hf]].
  destruct (sem_stmts (vars_of am mm) (map (send_of am mm unb) ps) (init_state b)) as [st|e'] eqn:Hs; [|reflexivity].
  cbn [sbind]. destruct (stmts_exact am mm unb ps _ _ Hf Hs) as [_ [H1 [H2 _]]].
  cbn [init_state s_txmeta s_accmeta] in *. rewrite !(finish_empty st _ H1 H2). reflexivity.
Qed.

(* ================================================================================================================ *)
(* 6. Postings.Reverse as an inverse (pure arithmetic) and the unforced revert                                        *)
(* ================================================================================================================ *)

Theorem reverse_shape : forall ps, reverse_postings ps = map swap (rev ps).
Proof. intros. unfold reverse_postings. rewrite map_rev. reflexivity. Qed.

Lemma reverse_cons : forall p r, reverse_postings (p :: r) = reverse_postings r ++ [swap p].
Proof. reflexivity. Qed.

Lemma delta_swap : forall p a s, delta (swap p) a s = - delta p a s.
Proof. intros. unfold delta, swap. cbn. lia. Qed.

Fixpoint sum_delta (ps : list posting) (a : account) (s : asset) : Z :=
  match ps with [] => 0 | p :: r => delta p a s + sum_delta r a s end.

Lemma apply_sum : forall ps f a s, apply ps f a s = f a s + sum_delta ps a s.
Proof.
  induction ps as [|p r IH]; intros f a s; cbn [apply sum_delta]; [lia|].
  rewrite IH. unfold apply1. lia.
Qed.
Lemma sum_delta_app : forall l1 l2 a s, sum_delta (l1 ++ l2) a s = sum_delta l1 a s + sum_delta l2 a s.
Proof. induction l1 as [|p r IH]; intros; cbn [app sum_delta]; [lia|]. rewrite IH. lia. Qed.
Lemma sum_delta_reverse : forall ps a s, sum_delta (reverse_postings ps) a s = - sum_delta ps a s.
Proof.
  induction ps as [|p r IH]; intros a s; [reflexivity|].
  rewrite reverse_cons, sum_delta_app, IH. cbn [sum_delta]. rewrite delta_swap. lia.
Qed.

Theorem inverse : forall ps f a s, apply (reverse_postings ps) (apply ps f) a s = f a s.
Proof. intros. rewrite !apply_sum, sum_delta_reverse. lia. Qed.

Lemma apply_app : forall l1 l2 f a s, apply (l1 ++ l2) f a s = apply l2 (apply l1 f) a s.
Proof. induction l1 as [|p r IH]; intros; cbn [app apply]; [reflexivity|]. apply IH. Qed.

Lemma covered_world : forall unb p x y, p_src p = world -> covered unb p x = covered unb p y.
Proof. intros unb p x y H. unfold covered. rewrite H. reflexivity. Qed.

(* a replay only looks at the balances of ordinary accounts *)
Lemma replay_ext : forall unb ps (f g : bmap),
  (forall a s, a <> world -> f a s = g a s) -> replay_ok unb f ps = replay_ok unb g ps.
Proof.
  induction ps as [|p r IH]; intros f g H; cbn [replay_ok]; [reflexivity|].
  f_equal.
  - destruct (N.eq_dec (p_src p) world) as [E|E]; [apply covered_world; exact E|]. rewrite (H _ _ E). reflexivity.
  - apply IH. intros a s Ha. unfold apply1. rewrite (H a s Ha). reflexivity.
Qed.

Lemma replay_app : forall unb l1 l2 f,
  replay_ok unb f (l1 ++ l2) = replay_ok unb f l1 && replay_ok unb (apply l1 f) l2.
Proof.
  induction l1 as [|p r IH]; intros l2 f; cbn [app replay_ok apply]; [reflexivity|].
  rewrite IH, andb_assoc. reflexivity.
Qed.

(* the unforced revert of [ps], replayed on the balances [ps] left behind, goes through exactly when each posting
   could have been taken back right after it was applied *)
Theorem revert_iff : forall ps f, replay_ok false (apply ps f) (reverse_postings ps) = revertible f ps.
Proof.
  induction ps as [|p r IH]; intros f; [reflexivity|].
  rewrite reverse_cons, replay_app. cbn [apply revertible]. rewrite IH.
  rewrite (replay_ext false [swap p] (apply (reverse_postings r) (apply r (apply1 p f))) (apply1 p f)).
  - cbn [replay_ok swap p_src p_asset]. rewrite andb_true_r. apply andb_comm.
  - intros a s _. apply inverse.
Qed.

Definition nonneg (f : bmap) : Prop := forall a s, a <> world -> 0 <= f a s.

Lemma covered_step_nonneg : forall p f,
  nonneg f -> covered false p (f (p_src p) (p_asset p)) = true ->
  nonneg (apply1 p f) /\ covered false (swap p) (apply1 p f (p_dst p) (p_asset p)) = true.
Proof.
  intros p f Hn Hc. unfold covered in Hc. apply andb_prop in Hc. destruct Hc as [Hz Hc]. apply Z.leb_le in Hz.
  cbn [orb] in Hc. rewrite orb_false_r in Hc.
  assert (Hsrc : p_src p <> world -> p_amount p <= f (p_src p) (p_asset p)).
  { intros E. destruct (N.eqb_spec (p_src p) world); [contradiction|]. cbn [orb] in Hc. apply Z.leb_le in Hc.
    specialize (Hn _ (p_asset p) E). lia. }
  split.
  - intros a s Ha. unfold apply1, delta. specialize (Hn a s Ha).
    destruct (N.eqb_spec a (p_dst p)), (N.eqb_spec s (p_asset p)), (N.eqb_spec a (p_src p)); cbn [andb]; subst; try lia;
      specialize (Hsrc Ha); lia.
  - unfold covered. cbn [swap p_amount p_src]. destruct (Z.leb_spec 0 (p_amount p)); [|lia]. cbn [andb orb].
    destruct (N.eqb_spec (p_dst p) world) as [E|E]; [reflexivity|]. cbn [orb]. apply Z.leb_le.
    unfold apply1, delta. rewrite !N.eqb_refl. cbn [andb]. specialize (Hn _ (p_asset p) E).
    destruct (N.eqb_spec (p_dst p) (p_src p)) as [E2|E2]; cbn [andb].
    + rewrite E2 in *. specialize (Hsrc E). lia.
    + lia.
Qed.

(* sufficient: nobody was overdrawn before, and the original went through unforced *)
Theorem revert_sufficient : forall ps f,
  nonneg f -> replay_ok false f ps = true -> revertible f ps = true /\ nonneg (apply ps f).
Proof.
  induction ps as [|p r IH]; intros f Hn H; cbn [replay_ok revertible apply] in *; [split; [reflexivity|exact Hn]|].
  apply andb_prop in H. destruct H as [Hc Hr].
  destruct (covered_step_nonneg p f Hn Hc) as [Hn' Hc']. rewrite Hc'. cbn [andb]. apply IH; assumption.
Qed.

(* forced mode: every non-negative request is covered *)
Lemma forced_covered : forall ps f, (forall p, In p ps -> 0 <= p_amount p) -> replay_ok true f ps = true.
Proof.
  induction ps as [|p r IH]; intros f H; cbn [replay_ok]; [reflexivity|].
  rewrite IH by (intros q Hq; apply H; right; exact Hq).
  unfold covered. specialize (H p (or_introl eq_refl)). destruct (Z.leb_spec 0 (p_amount p)); [|lia].
  rewrite orb_true_r. reflexivity.
Qed.

(* the revert script on the machine: succeeds, with exactly the reversed postings *)
Theorem revert_succeeds : forall ps f b extra,
  nonneg f -> replay_ok false f ps = true ->
  tracks b (reverse_postings ps) -> (forall a s, a <> world -> view b a s = apply ps f a s) ->
  exists r, sem (fst (tx_to_script (reverse_postings ps) false)) (snd (tx_to_script (reverse_postings ps) false)) b extra = SOk r
            /\ res_posts r = reverse_postings ps.
Proof.
  intros ps f b extra Hn Hok Ht Hv.
  destruct (revert_sufficient ps f Hn Hok) as [Hrev _].
  assert (Hrp : replay_ok false (view b) (reverse_postings ps) = true).
  { rewrite (replay_ext false _ (view b) (apply ps f) Hv), revert_iff. exact Hrev. }
  apply (success_iff _ false b extra Ht) in Hrp. destruct Hrp as [r Hr]. exists r. split; [exact Hr|].
  apply (exact_result _ _ _ _ _ Hr).
Qed.

(* the condition cannot be dropped: an account that was overdrawn before it received funds cannot give them back *)
Example revert_needs_nonneg :
  let f : bmap := fun a _ => if N.eqb a 1 then -20 else 0 in
  let ps := [mkp world 1%N 0%N 10] in
  replay_ok false f ps = true /\ replay_ok false (apply ps f) (reverse_postings ps) = false.
Proof. vm_compute. split; reflexivity. Qed.

(* ================================================================================================================ *)
(* 7. the statements used by Properties/C09.v and Properties/C10_pure.v                                              *)
(* ================================================================================================================ *)

Definition run_postings (ps : list posting) (unb : bool) (b : balances) (extra : list str) : sres result :=
  sem (fst (tx_to_script ps unb)) (snd (tx_to_script ps unb)) b extra.

Theorem exact_postings : forall ps unb b extra r, run_postings ps unb b extra = SOk r -> res_posts r = ps.
Proof. intros ps unb b extra r H. apply (exact_result _ _ _ _ _ H). Qed.

Theorem metadata_untouched : forall ps unb b extra,
  run_postings ps unb b extra = run_postings ps unb b [] /\ forall r, run_postings ps unb b extra = SOk r -> res_txmeta r = [] /\ res_accmeta r = [] /\ res_printed r = [].
Proof.
  intros ps unb b extra. split; [apply extra_irrelevant|]. intros r H. apply (exact_result _ _ _ _ _ H).
Qed.

Theorem all_or_nothing : forall ps unb b extra,
  (exists r, run_postings ps unb b extra = SOk r /\ res_posts r = ps) \/ (exists e, run_postings ps unb b extra = SErr e).
Proof.
  intros ps unb b extra. destruct (run_postings ps unb b extra) as [r|e] eqn:H.
  - left. exists r. split; [reflexivity|]. apply (exact_postings _ _ _ _ _ H).
  - right. exists e. reflexivity.
Qed.

Theorem rejected_iff : forall ps unb b extra,
  tracks b ps -> ((exists e, run_postings ps unb b extra = SErr e) <-> replay_ok unb (view b) ps = false).
Proof.
  intros ps unb b extra Ht. pose proof (success_iff ps unb b extra Ht) as H. fold (run_postings ps unb b extra) in H.
  destruct (run_postings ps unb b extra) as [r|e]; destruct (replay_ok unb (view b) ps); split; intros H0; try reflexivity;
    try discriminate.
  - destruct H0 as [e H0]. discriminate.
  - destruct H as [H _]. assert (false = true) by (apply H; eexists; reflexivity). discriminate.
  - destruct H as [_ H]. destruct (H eq_refl) as [r Hr]. discriminate.
  - eexists. reflexivity.
Qed.

Theorem forced_succeeds : forall ps b extra,
  tracks b ps -> (forall p, In p ps -> 0 <= p_amount p) -> exists r, run_postings ps true b extra = SOk r /\ res_posts r = ps.
Proof.
  intros ps b extra Ht Hpos. pose proof (forced_covered ps (view b) Hpos) as H.
  apply (success_iff ps true b extra Ht) in H. destruct H as [r Hr]. exists r. split; [exact Hr|].
  apply (exact_postings _ _ _ _ _ Hr).
Qed.

Theorem keys_present : forall ps am mm, collect ps [] [] = (am, mm) -> Forall (in_maps am mm) ps.
Proof. intros ps am mm H. apply (collect_in_maps _ _ _ _ _ H). Qed.

Theorem unforced_safe : forall ps b extra r,
  tracks b (reverse_postings ps) -> run_postings (reverse_postings ps) false b extra = SOk r ->
  replay_ok false (view b) (reverse_postings ps) = true.
Proof.
  intros ps b extra r Ht H. apply (success_iff _ false b extra Ht). exists r. exact H.
Qed.

(* the closed form the harness compares every real run with ([predict], Posting/Model.v) is what the theorems give *)
Theorem predict_sound : forall ps unb b st extra,
  tracks b ps -> (forall a s, a <> world -> view b a s = store_balance st a s) ->
  (forall p, In p ps -> 0 <= p_amount p) ->
  match run_postings ps unb b extra with
  | SOk r => predict ps unb st = ODone r
  | SErr e => predict ps unb st = OErr e
  end.
Proof.
  intros ps unb b st extra Ht Hv Hpos. unfold predict.
  rewrite <- (replay_ext unb ps (view b) (store_balance st) Hv).
  pose proof (success_iff ps unb b extra Ht) as Hiff. fold (run_postings ps unb b extra) in Hiff.
  destruct (run_postings ps unb b extra) as [r|e] eqn:Hr.
  - destruct Hiff as [Hiff _]. rewrite Hiff by (eexists; reflexivity).
    destruct (exact_result _ _ _ _ _ Hr) as [H1 [H2 [H3 H4]]]. destruct r; cbn in *; subst. reflexivity.
  - destruct (replay_ok unb (view b) ps).
    + destruct Hiff as [_ Hiff]. destruct (Hiff eq_refl) as [r Hr']. discriminate.
    + destruct (failure_class _ _ _ _ _ Ht Hpos Hr) as [He _]. subst. reflexivity.
Qed.
