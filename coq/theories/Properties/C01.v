(* C01 — Script execution never overdraws an account.
   Only the property theorems live here; each is closed by [exact <lemma>] and followed by Print Assumptions.
   Definitions: Numscript/C01Spec.v ([floor_ok], [running], [grant], [init], [snapshot_of]); proofs:
   Numscript/C01{Funding,Inv,Proofs,Final}.v. All theorems are about the source semantics [sem] (Numscript/Sem.v),
   for every script, variable environment and balance table (unbounded Z). *)
From FL Require Import Numscript.C01Spec Numscript.C01Proofs Numscript.C01Final.
From Coq Require Import Lia.
Open Scope Z_scope.

(* floor: replaying the postings of an accepted run on the machine's initial balance table, no posting takes
   from a non-world account more than max 0 (balance so far + overdraft granted by the script); funds received
   earlier in the transaction count. No hypothesis on the table is needed (duplicate keys, world entries and
   untracked pairs are harmless: an untracked pair reads 0 and can never be a source, see C01_sources_tracked). *)
Theorem C01_floor : forall sc ve b extra r,
  sem sc ve b extra = SOk r -> floor_ok (grant sc ve) (init b) (res_posts r).
Proof. exact sem_floor. Qed.
Print Assumptions C01_floor.

(* every posting's (source, asset) is a pair of the initial table: nothing is taken from a balance the machine
   did not load (world included) *)
Theorem C01_sources_tracked : forall sc ve b extra r,
  sem sc ve b extra = SOk r -> Forall (fun p => tracked_in b (p_src p) (p_asset p)) (res_posts r).
Proof. exact sem_sources_tracked. Qed.
Print Assumptions C01_sources_tracked.

(* ResolveBalances produces a snapshot of the store (world reads 0), for any list of needed balances *)
Theorem C01_resolve_balances_snapshot : forall vals s needed b,
  resolve_balances needed vals s [] = Done b -> snapshot_of s b.
Proof. intros vals s needed b H. exact (resolve_balances_snapshot vals s needed [] b (snapshot_nil s) H). Qed.
Print Assumptions C01_resolve_balances_snapshot.

(* the floor against the store balances the table was read from *)
Theorem C01_floor_store : forall sc ve b extra r s,
  sem sc ve b extra = SOk r -> snapshot_of s b ->
  floor_ok (grant sc ve) (store_balance s) (res_posts r).
Proof. exact sem_floor_store. Qed.
Print Assumptions C01_floor_store.

(* end to end over the pipeline of Corr.v (resolve resources, balance() variables, ResolveBalances, sem):
   no dangling hypothesis *)
Theorem C01_floor_pipeline : forall sc p vars s extra r,
  sem_pipeline sc p vars s extra = Done r ->
  exists vs rr vals b,
    vars = Some vs /\
    resolve_resources (p_res p) vs s {| r_vals := []; r_involved := []; r_pending := [] |} = Done rr /\
    fill_pending (r_pending rr) s (r_vals rr) = Done vals /\
    resolve_balances (p_needed p) vals s [] = Done b /\
    sem sc (venv_of p vals) b extra = SOk r /\
    snapshot_of s b /\
    floor_ok (grant sc (venv_of p vals)) (store_balance s) (res_posts r) /\
    floor_ok (grant sc (venv_of p vals)) (init b) (res_posts r) /\
    Forall (fun q => tracked_in b (p_src q) (p_asset q)) (res_posts r).
Proof. exact sem_pipeline_floor. Qed.
Print Assumptions C01_floor_pipeline.

(* rejection. By typing an error outcome carries no result (hence no postings): this half is trivial and is
   stated only for completeness. *)
Theorem C01_reject : forall sc ve b extra,
  sem sc ve b extra = SErr EInsufficient -> forall r, sem sc ve b extra <> SOk r.
Proof. exact sem_reject. Qed.
Print Assumptions C01_reject.

(* the useful half: `send [A n] (source = a, destination = d)` with a tracked, not the world literal, no
   overdraft, n >= 0, is refused with insufficient funds exactly when max 0 (balance of a) < n *)
Theorem C01_reject_exact : forall vars ea ed A n a d ve b extra z,
  eval_account ve ea = SOk a -> is_world_lit ea = false -> eval_account ve ed = SOk d ->
  bal_get b a A = Some z -> 0 <= n ->
  sem {| s_vars := vars;
         s_stmts := [StSend (SendMon (ELitMonetary (ELitAsset A) n)) (VSrc (SAccount ea OvNone)) (DAccount ed)] |}
      ve b extra = SErr EInsufficient
  <-> Z.max 0 z < n.
Proof. exact sem_reject_exact. Qed.
Print Assumptions C01_reject_exact.

(* the withdrawAlways operand is the world literal or an account with an unbounded clause (syntactic) *)
Theorem C01_fallback_is_world_or_unbounded : forall ve s e a,
  fallback_of s = Some e -> eval_account ve e = SOk a -> a = world \/ In (GUnb a) (src_grants ve s).
Proof. exact fallback_of_grant. Qed.
Print Assumptions C01_fallback_is_world_or_unbounded.

(* ---- non-vacuity ------------------------------------------------------------------------------------------ *)
(* accounts: world = 0, a = 1, b = 2, c = 3; assets: USD = 0.
   send [USD 30] (source = { max [USD 5] from @a; @c allowing overdraft up to [USD 20]; @a }, destination = @b)
   then send [USD 7] (source = @b, destination = @c): the second send spends funds received in the first. *)
Definition ex_script : script :=
  {| s_vars := [];
     s_stmts :=
       [StSend (SendMon (ELitMonetary (ELitAsset 0%N) 30))
          (VSrc (SInOrder [SMaxed (ELitMonetary (ELitAsset 0%N) 5) (SAccount (ELitAccount 1%N) OvNone);
                           SAccount (ELitAccount 3%N) (OvSpecific (ELitMonetary (ELitAsset 0%N) 20));
                           SAccount (ELitAccount 1%N) OvNone]))
          (DAccount (ELitAccount 2%N));
        StSend (SendMon (ELitMonetary (ELitAsset 0%N) 7))
          (VSrc (SAccount (ELitAccount 2%N) OvNone)) (DAccount (ELitAccount 3%N))] |}.
Definition ex_bals : balances := [(1%N, 0%N, 12); (2%N, 0%N, 0); (3%N, 0%N, -2)].

Example C01_example :
  exists r, sem ex_script [] ex_bals [] = SOk r /\
    res_posts r = [ {| p_src := 1%N; p_dst := 2%N; p_asset := 0%N; p_amount := 5 |};
                    {| p_src := 3%N; p_dst := 2%N; p_asset := 0%N; p_amount := 18 |};
                    {| p_src := 1%N; p_dst := 2%N; p_asset := 0%N; p_amount := 7 |};
                    {| p_src := 2%N; p_dst := 3%N; p_asset := 0%N; p_amount := 7 |} ] /\
    grant ex_script [] 3%N 0%N = Some 20 /\ grant ex_script [] 1%N 0%N = Some 0.
Proof. eexists. split; [vm_compute; reflexivity|]. vm_compute. auto. Qed.

(* the rejection criterion is sharp on both sides *)
Example C01_reject_example :
  let sc n := {| s_vars := [];
                 s_stmts := [StSend (SendMon (ELitMonetary (ELitAsset 0%N) n))
                               (VSrc (SAccount (ELitAccount 1%N) OvNone)) (DAccount (ELitAccount 2%N))] |} in
  sem (sc 13) [] ex_bals [] = SErr EInsufficient /\ (exists r, sem (sc 12) [] ex_bals [] = SOk r).
Proof. split; [vm_compute; reflexivity|eexists; vm_compute; reflexivity]. Qed.

(* ---- the tree before the repairs -------------------------------------------------------------------------- *)
(* F-C01a, before "fix: numscript: 'save [A *]' ..." (0ffb9a4): `save [USD *] from @a` raised a negative balance
   to 0. balance(a) = -50; save [USD *] from @a; send [USD 10] (source = @a allowing overdraft up to [USD 10],
   destination = @b) was accepted and took 10; with the repaired rule it is refused. *)
Definition fa_script : script :=
  {| s_vars := [];
     s_stmts := [StSave (SendAll (ELitAsset 0%N)) (ELitAccount 1%N);
                 StSend (SendMon (ELitMonetary (ELitAsset 0%N) 10))
                   (VSrc (SAccount (ELitAccount 1%N) (OvSpecific (ELitMonetary (ELitAsset 0%N) 10))))
                   (DAccount (ELitAccount 2%N))] |}.

Theorem C01_refuted_before_fix :
  exists r, sem_with sem_save_v0 fa_script [] [(1%N, 0%N, -50)] [] = SOk r /\
    res_posts r = [ {| p_src := 1%N; p_dst := 2%N; p_asset := 0%N; p_amount := 10 |} ] /\
    ~ floor_ok (grant fa_script []) (init [(1%N, 0%N, -50)]) (res_posts r) /\
    sem fa_script [] [(1%N, 0%N, -50)] [] = SErr EInsufficient.
Proof.
  eexists. split; [vm_compute; reflexivity|]. split; [reflexivity|]. split; [|vm_compute; reflexivity].
  intros F.
  pose proof (F [] {| p_src := 1%N; p_dst := 2%N; p_asset := 0%N; p_amount := 10 |} [] eq_refl) as X.
  cbn [p_src p_asset p_amount] in X.
  assert (W : (1%N : account) <> world) by discriminate. specialize (X W).
  vm_compute in X. apply X. reflexivity.
Qed.
Print Assumptions C01_refuted_before_fix.

(* F-C01b, before "fix: numscript: save must not create a balance entry for an untracked asset" (2ef37df):
   assets EUR = 0, USD = 1; the store holds a/EUR = -8, a/USD = 0. The compiled program needs only (a, USD);
   `save [EUR *] from @a` fabricated the entry a/EUR = 0 and
   `send [USD *] (source = @a allowing overdraft up to [EUR 10], destination = @b)` then took 10 EUR from a:
   a posting from a pair the machine never loaded, overdrawing the real balance (-8 - 10 < -10).
   With the repaired rule the run fails (missing balance). *)
Definition fb_script : script :=
  {| s_vars := [];
     s_stmts := [StSave (SendAll (ELitAsset 0%N)) (ELitAccount 1%N);
                 StSend (SendAll (ELitAsset 1%N))
                   (VSrc (SAccount (ELitAccount 1%N) (OvSpecific (ELitMonetary (ELitAsset 0%N) 10))))
                   (DAccount (ELitAccount 2%N))] |}.
Definition fb_store : store :=
  {| st_bal := [(1%N, 0%N, -8); (1%N, 1%N, 0)]; st_meta := []; st_parse := [] |}.

Theorem C01_store_floor_refuted_before_fix :
  exists p vals b r,
    compile fb_script = Some p /\
    resolve_balances (p_needed p) vals fb_store [] = Done b /\
    sem_with sem_save_v1 fb_script (venv_of p vals) b [] = SOk r /\
    ~ floor_ok (grant fb_script (venv_of p vals)) (store_balance fb_store) (res_posts r) /\
    ~ Forall (fun q => tracked_in b (p_src q) (p_asset q)) (res_posts r) /\
    sem_pipeline fb_script p (Some []) fb_store [] = Err EInvalidScript.
Proof.
  eexists. exists [VAsset 0%N; VAccount 1%N; VAsset 1%N; VMonetary 0%N 10; VAccount 2%N]. eexists. eexists.
  split; [vm_compute; reflexivity|]. split; [vm_compute; reflexivity|]. split; [vm_compute; reflexivity|].
  split; [|split; [|vm_compute; reflexivity]].
  - intros F.
    pose proof (F [] {| p_src := 1%N; p_dst := 2%N; p_asset := 0%N; p_amount := 10 |} [] eq_refl) as X.
    cbn [p_src p_asset p_amount] in X.
    assert (W : (1%N : account) <> world) by discriminate. specialize (X W).
    vm_compute in X. apply X. reflexivity.
  - intros T. inversion T as [|? ? T1 _]; subst. apply T1. vm_compute. reflexivity.
Qed.
Print Assumptions C01_store_floor_refuted_before_fix.
