(* C01, strengthening — the overdraft floor PER SEND STATEMENT.
   Only the property theorems live here; each is closed by [exact <lemma>] and followed by Print Assumptions.
   Definitions and proofs: Numscript/C01PerSend.v (which reuses the invariant of Numscript/C01{Inv,Proofs}.v).

   [C01_floor] (Properties/C01.v) bounds every posting by running balance + the overdraft granted ANYWHERE in the
   script. The theorems below cut the postings of a run into one group per statement and bound every posting of a
   send by running balance + the overdraft granted IN THAT SEND, the running balance being the real one when the send
   starts (initial table + every earlier posting). A change that keeps the first reading and breaks the second
   (seeded change C01-2: the debit of an unbounded-overdraft draw is not written back) is refuted at the end. *)
From FL Require Import Numscript.C01Spec Numscript.C01Proofs Numscript.C01Final Numscript.C01PerSend.
From Coq Require Import Lia.
Open Scope Z_scope.

(* per_send_floor sc ve b ps  :=
     exists gs, stmt_groups_with sem_stmt ve (s_stmts sc) (start b) = SOk gs      (what each statement appended)
             /\ concat gs = ps
             /\ groups_floor ve (init b) [] (s_stmts sc) gs
   groups_floor ve b0 pre (s :: r) (g :: gr) :=
     (if is_send s then floor_ok (grant_send ve s) (running b0 pre) g else g = []) /\ groups_floor ve b0 (pre ++ g) r gr
   grant_send ve s := grant_of (stmt_grants ve s): the overdraft clauses of the sources of the send s, and only those.
   For every script, every variable environment, every balance table (no hypothesis on the table). *)
Theorem C01_floor_per_send : forall sc ve b extra r,
  sem sc ve b extra = SOk r -> per_send_floor sc ve b (res_posts r).
Proof. exact sem_floor_per_send. Qed.
Print Assumptions C01_floor_per_send.

(* the same for any list of statements started from any state reached between two statements ([Btw]: the table has
   not grown, and the machine's view of every non-world balance is at most the real running balance - which is all
   that remains of the invariant once no funding is alive; a `save` lowers the machine's view only). *)
Theorem C01_floor_per_send_from : forall b0 Tr ve l st st',
  Btw b0 Tr (s_bals st) (s_posts st) -> sem_stmts ve l st = SOk st' ->
  exists gs, stmt_groups_with sem_stmt ve l st = SOk gs /\ s_posts st' = s_posts st ++ concat gs /\
             groups_floor ve b0 (s_posts st) l gs.
Proof. exact sem_stmts_floor_per_send. Qed.
Print Assumptions C01_floor_per_send_from.

(* nothing is lost: the per-send floor implies the per-script floor, for any posting list *)
Theorem C01_per_send_implies_floor : forall sc ve b ps,
  per_send_floor sc ve b ps -> floor_ok (grant sc ve) (init b) ps.
Proof. exact per_send_implies_floor. Qed.
Print Assumptions C01_per_send_implies_floor.

(* hence [C01_floor] is a corollary of [C01_floor_per_send] *)
Theorem C01_floor_from_per_send : forall sc ve b extra r,
  sem sc ve b extra = SOk r -> floor_ok (grant sc ve) (init b) (res_posts r).
Proof. exact sem_floor_from_per_send. Qed.
Print Assumptions C01_floor_from_per_send.

(* the semantics never reads the postings emitted so far: run on a state whose posting list is [pre], a statement does
   what it does on an empty list, with [pre] in front (the frame fact the re-basing of the invariant rests on) *)
Theorem C01_statement_only_appends : forall ve s st st',
  sem_stmt ve s st = SOk st' ->
  exists st0, sem_stmt ve s (reset st) = SOk st0 /\ st' = pp (s_posts st) st0.
Proof. exact sem_stmt_frame. Qed.
Print Assumptions C01_statement_only_appends.

(* ---- non-vacuity -------------------------------------------------------------------------------------------- *)
(* accounts: world = 0, a = 1, b = 2; asset USD = 0; the table holds world/USD = 0 and a/USD = 0.
     send [USD 100] (source = @a allowing unbounded overdraft, destination = @world)
     send [USD 50]  (source = @world, destination = @a)
     send [USD 50]  (source = @a <clause>, destination = @b)
   After the first two sends a stands at -50. *)
Definition USD : expr := ELitAsset 0%N.
Definition ps_send (n : Z) (src : source) (dst : N) : stmt :=
  StSend (SendMon (ELitMonetary USD n)) (VSrc src) (DAccount (ELitAccount dst)).
Definition ps_script (last : overdraft) : script :=
  {| s_vars := [];
     s_stmts := [ps_send 100 (SAccount (ELitAccount 1%N) OvUnbounded) 0%N;
                 ps_send 50 (SAccount (ELitAccount 0%N) OvNone) 1%N;
                 ps_send 50 (SAccount (ELitAccount 1%N) last) 2%N] |}.
Definition ps_bals : balances := [(0%N, 0%N, 0); (1%N, 0%N, 0)].
Definition ps_p1 : posting := {| p_src := 1%N; p_dst := 0%N; p_asset := 0%N; p_amount := 100 |}.
Definition ps_p2 : posting := {| p_src := 0%N; p_dst := 1%N; p_asset := 0%N; p_amount := 50 |}.
Definition ps_p3 : posting := {| p_src := 1%N; p_dst := 2%N; p_asset := 0%N; p_amount := 50 |}.

(* with `allowing overdraft up to [USD 100]` on the third send the run is accepted; the groups are one posting per
   send; the third send grants a 100 (so 50 <= max 0 (-50 + 100)), while the script as a whole grants a "unbounded" *)
Example C01_per_send_example :
  let sc := ps_script (OvSpecific (ELitMonetary USD 100)) in
  exists r, sem sc [] ps_bals [] = SOk r /\
    res_posts r = [ps_p1; ps_p2; ps_p3] /\
    stmt_groups_with sem_stmt [] (s_stmts sc) (start ps_bals) = SOk [[ps_p1]; [ps_p2]; [ps_p3]] /\
    per_send_floor sc [] ps_bals (res_posts r) /\
    grant_send [] (ps_send 50 (SAccount (ELitAccount 1%N) (OvSpecific (ELitMonetary USD 100))) 2%N) 1%N 0%N = Some 100 /\
    grant sc [] 1%N 0%N = None /\
    running (init ps_bals) [ps_p1; ps_p2] 1%N 0%N = -50.
Proof.
  cbv zeta. eexists. split; [vm_compute; reflexivity|]. split; [reflexivity|]. split; [vm_compute; reflexivity|].
  split; [eapply (sem_floor_per_send _ _ _ []); vm_compute; reflexivity|]. vm_compute. auto.
Qed.

(* with no overdraft clause on the third send the run is refused: a has -50 and the third send grants nothing *)
Example C01_per_send_reject_example :
  sem (ps_script OvNone) [] ps_bals [] = SErr EInsufficient.
Proof. vm_compute. reflexivity. Qed.

(* ---- the seeded write-back bug (C01-2) is refuted by the per-send floor, and NOT by the per-script floor -------- *)
(* [withdraw_always_nowb]: OP_TAKE_ALWAYS returns the funding but leaves the balance table as it was.
   [sem_stmt_w wa] is [sem_stmt] with [wa] in place of withdraw_always ([sem_step_faithful]: with the real
   withdraw_always it is [sem]). Under the changed rule the script above without a clause on the third send is
   ACCEPTED (the machine believes a is back at +50), the three postings are emitted, the per-script floor holds
   (a has an unbounded clause somewhere), and the per-send floor fails on the third group: 50 > max 0 (-50 + 0). *)
Theorem C01_per_send_refutes_writeback_bug :
  let sc := ps_script OvNone in
  let stp := sem_stmt_w withdraw_always_nowb in
  exists r,
    sem_step stp sc [] ps_bals [] = SOk r /\
    res_posts r = [ps_p1; ps_p2; ps_p3] /\
    stmt_groups_with stp [] (s_stmts sc) (start ps_bals) = SOk [[ps_p1]; [ps_p2]; [ps_p3]] /\
    ~ groups_floor [] (init ps_bals) [] (s_stmts sc) [[ps_p1]; [ps_p2]; [ps_p3]] /\
    ~ per_send_floor_with stp sc [] ps_bals (res_posts r) /\
    floor_ok (grant sc []) (init ps_bals) (res_posts r) /\
    sem_step (sem_stmt_w withdraw_always) sc [] ps_bals [] = SErr EInsufficient /\
    sem sc [] ps_bals [] = SErr EInsufficient.
Proof.
  cbv zeta.
  assert (NG : ~ groups_floor [] (init ps_bals) [] (s_stmts (ps_script OvNone)) [[ps_p1]; [ps_p2]; [ps_p3]]).
  { intros GF. cbv [groups_floor ps_script s_stmts ps_send is_send] in GF.
    destruct GF as (_ & _ & F & _).
    pose proof (F [] ps_p3 [] eq_refl) as X. cbn [ps_p3 p_src p_asset p_amount] in X.
    assert (W : (1%N : account) <> world) by discriminate. specialize (X W).
    vm_compute in X. apply X. reflexivity. }
  eexists. split; [vm_compute; reflexivity|]. split; [reflexivity|]. split; [vm_compute; reflexivity|].
  split; [exact NG|]. split; [|split; [|split; vm_compute; reflexivity]].
  - intros (gs & EG & _ & GF). vm_compute in EG. inversion EG; subst gs. exact (NG GF).
  - apply floor_ok_unbounded.
    constructor; [right; vm_compute; reflexivity|]. constructor; [left; reflexivity|].
    constructor; [right; vm_compute; reflexivity|]. constructor.
Qed.
Print Assumptions C01_per_send_refutes_writeback_bug.

(* the variant semantics used above is [sem] when given the machine's own withdraw_always *)
Theorem C01_variant_faithful : forall sc ve b extra,
  sem_step (sem_stmt_w withdraw_always) sc ve b extra = sem sc ve b extra.
Proof. exact sem_step_faithful. Qed.
Print Assumptions C01_variant_faithful.
