(* C02 — Concurrent transactions cannot spend the same funds twice.
   Only the property theorems live here; each is closed by [exact <lemma>] and followed by Print Assumptions.
   The model is Engine/Model.v (the write path of the Commander WITH the repair "account locks are held until the
   log entry is persisted"); the predicates are in Engine/Spec.v; the proofs are in Engine/E4*.v.
   [reachable s] quantifies over EVERY finite action list from the empty ledger: any number of concurrent create /
   revert / metadata requests (dry runs, idempotency keys, references included), any interleaving of their lock,
   balance-read, tx-id, chaining, batch hand-off and completion steps, any batch composition and persistence
   latency, store failures and crashes at every point. *)
From FL Require Import Engine.Model Engine.Spec Engine.E4Base Engine.E4Inv Engine.E4Steps Engine.E4Resume Engine.E4Cor.
Open Scope Z_scope.

(* the committed history is serially valid: replaying the persisted log in order, every entry [e] satisfies
   [covers (view_of before (e_postings e)) (e_unb e) (e_postings e) = true] against the balances produced by the
   entries before it, i.e. at its position in the log every non-world source held enough for its postings (within
   the overdraft the transaction declares). Reverts are entries whose postings are the reversed ones and whose
   [e_unb] is the force flag; metadata entries have no postings. *)
Theorem C02_serial : forall s, reachable s -> serially_valid (persisted s).
Proof. exact e4_serial. Qed.
Print Assumptions C02_serial.

(* two requests racing for the same funds: if the log holds an entry debiting [a] by [x] and, later, an entry
   debiting [a] by [y > 0] without unbounded overdraft, and nothing in between credits [a], then [x + y] was
   available on [a] before the first one. So with [x + y] above the balance the two are never both persisted. *)
Theorem C02_no_double_spend : forall s l1 e1 l2 e2 l3 a d1 d2 x y,
  reachable s -> persisted s = l1 ++ e1 :: l2 ++ e2 :: l3 ->
  a <> world -> d1 <> a ->
  e_postings e1 = [(a, d1, x)] -> e_postings e2 = [(a, d2, y)] -> e_unb e2 = false ->
  (forall e, In e l2 -> e4_entry_delta a e <= 0) ->
  0 < y -> x + y <= balance_of l1 a.
Proof. exact e4_no_double_spend. Qed.
Print Assumptions C02_no_double_spend.

(* the invariant behind the theorem holds in every reachable state (Engine/E4Inv.v): the lock table is pairwise
   compatible, every entry in the batcher belongs to a thread that still holds the read locks of all its accounts
   and the write locks of its sources, and the balances such a thread read under its locks are still the persisted
   ones on its write set *)
Theorem C02_invariant : forall s, reachable s -> e4_Inv s.
Proof. exact e4_reachable_inv. Qed.
Print Assumptions C02_invariant.

(* ---- before the repair ------------------------------------------------------------------------------------ *)
(* [e4_resume_early] is [resume] with the account locks given back at the step that follows the grant
   (commander.go before the repair called unlock right after Lock). Alice holds 100; two concurrent requests
   send 100 from alice to bob. Both are answered OK, both entries are persisted, the log is not serially valid,
   alice ends at -100. *)
Theorem C02_refuted_before_fix :
  exists s, e4_run_early init e4_bug_acts = Some s /\
            ~ serially_valid (persisted s) /\ length (persisted s) = 3%nat /\
            balance_of (persisted s) e4_alice = -100 /\
            e4_resp s 1%nat = Some (ROk (Some 1%nat)) /\ e4_resp s 2%nat = Some (ROk (Some 2%nat)).
Proof. exact e4_refuted_before_fix. Qed.
Print Assumptions C02_refuted_before_fix.

(* ---- non-vacuity ------------------------------------------------------------------------------------------- *)
(* the same race on the repaired model: the second request is queued behind the first one's locks, is granted
   them when the first entry is on disk, reads 0 and is refused; the disk holds the funding and one transfer *)
Example C02_race_refused :
  exists s, reachable s /\ length (persisted s) = 2%nat /\ balance_of (persisted s) e4_alice = 0 /\
            e4_resp s 1%nat = Some (ROk (Some 1%nat)) /\ e4_resp s 2%nat = Some (RErr EInsufficient).
Proof. exact e4_nonvacuous. Qed.

(* the interleaving of the refutation cannot be executed on the repaired model *)
Example C02_bug_schedule_disabled : run init e4_bug_acts = None.
Proof. exact e4_bug_acts_disabled. Qed.

(* a crash with one entry in the batcher and one request queued for the locks; a later request goes through *)
Example C02_crash_schedule :
  match run init e4_crash_acts with
  | Some s => e4_sv_b (persisted s) && Nat.eqb (length (persisted s)) 2 &&
              (balance_of (persisted s) e4_alice =? 0) &&
              match e4_resp s 1%nat, e4_resp s 2%nat, e4_resp s 3%nat with
              | Some RCrashed, Some RCrashed, Some (ROk (Some 1%nat)) => true
              | _, _, _ => false
              end
  | None => false
  end = true.
Proof. exact e4_crash_check. Qed.
