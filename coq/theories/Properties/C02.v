(* C02 — Concurrent transactions cannot spend the same funds twice.
   Only the property theorems live here; each is closed by [exact <lemma>] and followed by Print Assumptions.
   The model is Engine/Model.v (the write path of the Commander WITH the repair "account locks are held until the
   log entry is persisted"); the predicates are in Engine/Spec.v; the proofs are in Engine/E4*.v.
   [reachable s] quantifies over EVERY finite action list from the empty ledger: any number of concurrent create /
   revert / metadata requests (dry runs, idempotency keys, references included), any interleaving of their lock,
   balance-read, tx-id, chaining, batch hand-off and completion steps, any batch composition and persistence
   latency, store failures and crashes at every point, and cancellation of any request's context at any point
   ([ACancel]; a request parked in the wait for its account locks may then give up: [AResumeCancelled]), and a
   transient failure of any store read of the write path ([AResumeReadFail]: transaction / key / reference lookups,
   account metadata read by the compilation, the balance read under the account locks). *)
From FL Require Import Engine.Model Engine.Spec Engine.E4Base Engine.E4Inv Engine.E4Steps Engine.E4Resume Engine.E4Cor Engine.E4Cancel
  Engine.E4ReadFail.
Open Scope Z_scope.

(* the committed history is serially valid: replaying the persisted log in order, every entry [e] satisfies
   [covers (view_of before (e_postings e)) (e_unb e) (e_postings e) = true] against the balances produced by the
   entries before it, i.e. at its position in the log every non-world source held enough for its postings (within
   the overdraft the transaction declares). Reverts are entries whose postings are the reversed ones and whose
   [e_unb] is the force flag; metadata entries have no postings. *)
Theorem C02_serial : forall s, reachable s -> serially_valid (persisted s).
Proof. exact e4_serial. Qed.
Print Assumptions C02_serial.

(* two requests racing for the same funds: if the log holds an entry debiting [a] by [x] and, later, an entry
   debiting [a] by [y > 0] without unbounded overdraft, and nothing in between credits [a], then [x + y] was
   available on [a] before the first one. So with [x + y] above the balance the two are never both persisted. *)
Theorem C02_no_double_spend : forall s l1 e1 l2 e2 l3 a d1 d2 x y,
  reachable s -> persisted s = l1 ++ e1 :: l2 ++ e2 :: l3 ->
  a <> world -> d1 <> a ->
  e_postings e1 = [(a, d1, x)] -> e_postings e2 = [(a, d2, y)] -> e_unb e2 = false ->
  (forall e, In e l2 -> e4_entry_delta a e <= 0) ->
  0 < y -> x + y <= balance_of l1 a.
Proof. exact e4_no_double_spend. Qed.
Print Assumptions C02_no_double_spend.

(* the invariant behind the theorem holds in every reachable state (Engine/E4Inv.v): the lock table is pairwise
   compatible, every entry in the batcher belongs to a thread that still holds the read locks of all its accounts
   and the write locks of its sources, and the balances such a thread read under its locks are still the persisted
   ones on its write set *)
Theorem C02_invariant : forall s, reachable s -> e4_Inv s.
Proof. exact e4_reachable_inv. Qed.
Print Assumptions C02_invariant.

(* ---- cancellation of a request that waits for its account locks ---------------------------------------------- *)
(* a cancelled waiter that was never granted leaves the lock table untouched and only disappears from the queue *)
Theorem C02_cancelled_waiter_gives_up_nothing : forall s t s' th,
  reachable s -> get_thread (threads s) t = Some th -> t_granted th = false ->
  step s (AResumeCancelled t) = Some s' ->
  v_locks s' = v_locks s /\ v_queue s' = remove_nat t (v_queue s).
Proof. exact e4_cancelled_waiter_gives_up_nothing. Qed.
Print Assumptions C02_cancelled_waiter_gives_up_nothing.

(* a cancelled waiter that was granted meanwhile gives the grant back: no lock-table entry of [t] remains
   (uses the queue-hygiene invariant [e4_QInv] of Engine/E4Cancel.v: a granted intent is no longer queued, and the
   FIFO pass that follows the release only grants queued intents) *)
Theorem C02_cancelled_grant_is_released : forall s t s' th,
  reachable s -> get_thread (threads s) t = Some th -> t_granted th = true ->
  step s (AResumeCancelled t) = Some s' ->
  forall h, In h (v_locks s') -> fst (fst h) <> t.
Proof. exact e4_cancelled_grant_is_released. Qed.
Print Assumptions C02_cancelled_grant_is_released.

(* the lock-queue hygiene invariant: no duplicates in the queue; every queued tid is a thread parked at [PEnqueued]
   without a grant; a thread that has not reached the locker has no grant *)
Theorem C02_queue_invariant : forall s, reachable s -> e4_QInv s.
Proof. exact e4_reachable_qinv. Qed.
Print Assumptions C02_queue_invariant.

(* ---- transient failures of the store reads of the write path ------------------------------------------------- *)
(* the balance read under the account locks fails (thread parked at [PLocked]): the request gives its locks back, no
   lock-table entry of [t] remains (uses [e4_QInv]: a thread at [PLocked] is not queued, and the FIFO pass that
   follows the release only grants queued intents) *)
Theorem C02_read_failed_lock_is_released : forall s t s' th,
  reachable s -> get_thread (threads s) t = Some th -> t_pc th = PLocked ->
  step s (AResumeReadFail t) = Some s' ->
  forall h, In h (v_locks s') -> fst (fst h) <> t.
Proof. exact e4_read_failed_lock_is_released. Qed.
Print Assumptions C02_read_failed_lock_is_released.

(* a read that fails anywhere else (before the locker: transaction / key / reference lookup, compilation) leaves the
   lock table and the queue as they were *)
Theorem C02_read_failed_before_lock_touches_no_lock : forall s t s' th,
  reachable s -> get_thread (threads s) t = Some th -> t_pc th <> PLocked ->
  step s (AResumeReadFail t) = Some s' ->
  v_locks s' = v_locks s /\ v_queue s' = v_queue s.
Proof. exact e4_read_failed_before_lock_touches_no_lock. Qed.
Print Assumptions C02_read_failed_before_lock_touches_no_lock.

(* ---- before the repair ------------------------------------------------------------------------------------ *)
(* [e4_resume_early] is [resume] with the account locks given back at the step that follows the grant
   (commander.go before the repair called unlock right after Lock). Alice holds 100; two concurrent requests
   send 100 from alice to bob. Both are answered OK, both entries are persisted, the log is not serially valid,
   alice ends at -100. *)
Theorem C02_refuted_before_fix :
  exists s, e4_run_early init e4_bug_acts = Some s /\
            ~ serially_valid (persisted s) /\ length (persisted s) = 3%nat /\
            balance_of (persisted s) e4_alice = -100 /\
            e4_resp s 1%nat = Some (ROk (Some 1%nat)) /\ e4_resp s 2%nat = Some (ROk (Some 2%nat)).
Proof. exact e4_refuted_before_fix. Qed.
Print Assumptions C02_refuted_before_fix.

(* ---- non-vacuity ------------------------------------------------------------------------------------------- *)
(* the same race on the repaired model: the second request is queued behind the first one's locks, is granted
   them when the first entry is on disk, reads 0 and is refused; the disk holds the funding and one transfer *)
Example C02_race_refused :
  exists s, reachable s /\ length (persisted s) = 2%nat /\ balance_of (persisted s) e4_alice = 0 /\
            e4_resp s 1%nat = Some (ROk (Some 1%nat)) /\ e4_resp s 2%nat = Some (RErr EInsufficient).
Proof. exact e4_nonvacuous. Qed.

(* the interleaving of the refutation cannot be executed on the repaired model *)
Example C02_bug_schedule_disabled : run init e4_bug_acts = None.
Proof. exact e4_bug_acts_disabled. Qed.

(* a crash with one entry in the batcher and one request queued for the locks; a later request goes through *)
Example C02_crash_schedule :
  match run init e4_crash_acts with
  | Some s => e4_sv_b (persisted s) && Nat.eqb (length (persisted s)) 2 &&
              (balance_of (persisted s) e4_alice =? 0) &&
              match e4_resp s 1%nat, e4_resp s 2%nat, e4_resp s 3%nat with
              | Some RCrashed, Some RCrashed, Some (ROk (Some 1%nat)) => true
              | _, _, _ => false
              end
  | None => false
  end = true.
Proof. exact e4_crash_check. Qed.

(* the race with a cancelled loser: 1 locks, 2 queues, 2 is cancelled and gives up while waiting
   ([RErr ELockCancelled]), 1 completes: disk = funding + one transfer, serially valid, lock table and queue empty *)
Example C02_cancel_race :
  match run init e4_cancel_acts with
  | Some s => e4_sv_b (persisted s) && Nat.eqb (length (persisted s)) 2 &&
              (balance_of (persisted s) e4_alice =? 0) &&
              e4_nil (v_locks s) && e4_nil (v_queue s) &&
              match e4_resp s 1%nat, e4_resp s 2%nat with
              | Some (ROk (Some 1%nat)), Some (RErr ELockCancelled) => true
              | _, _ => false
              end
  | None => false
  end = true.
Proof. exact e4_cancel_check. Qed.

(* 1 completes and unlocks first, which grants 2 (flag + the only table entry); then 2 is cancelled and takes the
   ctx.Done() branch: the grant is given back, nothing of 2 is on disk or in the batcher *)
Example C02_cancel_race_granted :
  match run init e4_cancel_granted_pre, run init e4_cancel_granted_acts with
  | Some s0, Some s =>
      match get_thread (threads s0) 2%nat with Some th => t_granted th | None => false end &&
      match v_locks s0 with [(2%nat, _, _)] => true | _ => false end && e4_nil (v_queue s0) &&
      e4_sv_b (persisted s) && Nat.eqb (length (persisted s)) 2 &&
      (balance_of (persisted s) e4_alice =? 0) &&
      forallb (fun e => negb (Nat.eqb (e_owner e) 2)) (persisted s) &&
      e4_nil (v_locks s) && e4_nil (v_queue s) && e4_nil (v_pending s) &&
      match v_batch s with None => true | Some _ => false end &&
      match e4_resp s 1%nat, e4_resp s 2%nat with
      | Some (ROk (Some 1%nat)), Some (RErr ELockCancelled) => true
      | _, _ => false
      end
  | _, _ => false
  end = true.
Proof. exact e4_cancel_granted_check. Qed.

(* granted AND cancelled: the other branch of the select ([AResume 2]) is enabled too and proceeds as usual *)
Example C02_cancel_race_other_branch :
  match run init (e4_cancel_granted_pre ++ [ACancel 2%nat] ++ e4_resumes 2%nat 5 ++ e4_resumes 1%nat 1) with
  | Some s => e4_sv_b (persisted s) && Nat.eqb (length (persisted s)) 2 && e4_nil (v_locks s) && e4_nil (v_queue s) &&
              match e4_resp s 2%nat with Some (RErr EInsufficient) => true | _ => false end
  | None => false
  end = true.
Proof. exact e4_cancel_granted_other_branch. Qed.

(* the race with a failed balance read: 1 locks, 2 queues; the balance read of 1 fails ([AResumeReadFail 1]): 1
   answers [RErr EStoreRead], its release grants 2 (flag + the only table entry, queue empty, disk unchanged); 2
   reads 100 and commits: disk = funding + one transfer (none owned by 1), serially valid, alice = 0, lock table,
   queue and batcher empty *)
Example C02_read_failure_race :
  match run init e4_readfail_pre, run init (e4_readfail_pre ++ [AResumeReadFail 1%nat]), run init e4_readfail_acts with
  | Some s0, Some s1, Some s =>
      match e4_pc_of s0 1%nat, e4_pc_of s0 2%nat with Some PLocked, Some PEnqueued => true | _, _ => false end &&
      match v_locks s0 with [(1%nat, _, _)] => true | _ => false end &&
      match v_queue s0 with [2%nat] => true | _ => false end &&
      match e4_resp s1 1%nat with Some (RErr EStoreRead) => true | _ => false end &&
      match v_locks s1 with [(2%nat, _, _)] => true | _ => false end && e4_nil (v_queue s1) &&
      match get_thread (threads s1) 2%nat with Some th => t_granted th | None => false end &&
      Nat.eqb (length (persisted s1)) 1 &&
      e4_sv_b (persisted s) && Nat.eqb (length (persisted s)) 2 &&
      (balance_of (persisted s) e4_alice =? 0) &&
      forallb (fun e => negb (Nat.eqb (e_owner e) 1)) (persisted s) &&
      e4_nil (v_locks s) && e4_nil (v_queue s) && e4_nil (v_pending s) &&
      match v_batch s with None => true | Some _ => false end &&
      match e4_resp s 1%nat, e4_resp s 2%nat with
      | Some (RErr EStoreRead), Some (ROk (Some 1%nat)) => true
      | _, _ => false
      end
  | _, _, _ => false
  end = true.
Proof. exact e4_readfail_check. Qed.

(* reads that fail before the locker (key lookup at [PIkTaken], reference lookup at [PRefTaken]) of a spender with a
   key and a reference: [RErr EStoreRead], key and reference free again, lock table and queue untouched *)
Example C02_read_failure_before_lock :
  match run init (e4_fund ++ [AStart 2%nat e4_spend_kr; AResumeReadFail 2%nat]),
        run init (e4_fund ++ [AStart 2%nat e4_spend_kr; AResume 2%nat; AResume 2%nat; AResumeReadFail 2%nat]) with
  | Some s1, Some s2 =>
      match e4_resp s1 2%nat, e4_resp s2 2%nat with
      | Some (RErr EStoreRead), Some (RErr EStoreRead) => true | _, _ => false end &&
      e4_nil (v_iks s1) && e4_nil (v_refs s1) && e4_nil (v_locks s1) && e4_nil (v_queue s1) &&
      e4_nil (v_iks s2) && e4_nil (v_refs s2) && e4_nil (v_locks s2) && e4_nil (v_queue s2) &&
      Nat.eqb (length (persisted s1)) 1 && Nat.eqb (length (persisted s2)) 1
  | _, _ => false
  end = true.
Proof. exact e4_readfail_prelock_check. Qed.
