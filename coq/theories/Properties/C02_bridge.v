(* C02, bridge — the engine model's script decision IS the Numscript source semantics for posting-mode requests.
   Only property theorems; each closed by [exact <lemma>] and followed by Print Assumptions. Proofs: Engine/Bridge.v.

   The engine model (Engine/Model.v, alias [EM]) treats a request as a list of single-asset postings
   [(source, destination, amount)] and decides it with [EM.covers view unb ps] on the balances [view] it read under
   the account locks. The real code runs the script TxToScriptData makes of the postings. Posting/Proofs.v (C09) proves
   what that script does under [sem] (Numscript/Sem.v): [run_postings ps unb b extra] succeeds iff
   [replay_ok unb (view b) ps], and then emits exactly [ps].
   [lift cur ps] reads an engine request as a posting-mode request over the asset [cur] (any asset; the engine model has
   one); [engine_view b cur ps] is what the engine's PLocked -> PBalances step reads, taken from the machine table [b]:
   the balances of the non-world accounts of [ps]. @world is account 0 in both models ([C02_bridge_world]).
   [nonneg_ps ps]: no amount is negative (Postings.Validate / SetVarsFromJSON reject the request otherwise). *)
From FL Require Import Numscript.Sem Posting.Model Posting.Proofs Engine.Bridge.
From FL Require Engine.Model Engine.Spec Engine.E4Cor.
From Coq Require Import ZArith List Bool.
Import ListNotations.
Open Scope Z_scope.

Theorem C02_bridge_world : EM.world = world.
Proof. exact bridge_world. Qed.
Print Assumptions C02_bridge_world.

(* the decision: the script the real code runs for the request succeeds (emitting exactly the request's postings)
   iff the engine model's [covers] accepts the request on the balances the engine reads *)
Theorem C02_bridge_covers : forall (cur : asset) (ps : list EM.posting) (unb : bool) (b : balances) (extra : list str),
  tracks b (lift cur ps) -> nonneg_ps ps ->
  ((exists r, run_postings (lift cur ps) unb b extra = SOk r /\ res_posts r = lift_posts cur ps)
   <-> EM.covers (engine_view b cur ps) unb ps = true).
Proof. exact bridge_covers. Qed.
Print Assumptions C02_bridge_covers.

(* without the hypothesis on the amounts, exactly: the script also rejects a negative amount, [covers] does not look *)
Theorem C02_bridge_covers_exact : forall cur ps unb b extra,
  tracks b (lift cur ps) ->
  ((exists r, run_postings (lift cur ps) unb b extra = SOk r /\ res_posts r = lift_posts cur ps)
   <-> nonneg_b ps = true /\ EM.covers (engine_view b cur ps) unb ps = true).
Proof. exact bridge_covers_exact. Qed.
Print Assumptions C02_bridge_covers_exact.

(* the heart, as an equation between the two deciders: any association list [v] and balance map [f] that coincide on
   the ordinary sources of [ps] *)
Theorem C02_bridge_covers_replay : forall cur unb ps v (f : bmap),
  src_agree cur v f ps -> replay_ok unb f (lift cur ps) = nonneg_b ps && EM.covers v unb ps.
Proof. exact covers_replay. Qed.
Print Assumptions C02_bridge_covers_replay.

(* refusal: [covers = false] is the script failing, and the failure is insufficient funds *)
Theorem C02_bridge_rejects : forall cur ps unb b extra,
  tracks b (lift cur ps) -> nonneg_ps ps ->
  (EM.covers (engine_view b cur ps) unb ps = false <-> run_postings (lift cur ps) unb b extra = SErr EInsufficient).
Proof. exact bridge_rejects. Qed.
Print Assumptions C02_bridge_rejects.

(* the store: the engine model's [balance_of] is the posting-mode [apply] of the log's postings, in log order, from
   the empty ledger *)
Theorem C02_bridge_ledger : forall cur log a,
  EM.balance_of log a = apply (lift cur (flat_map EM.e_postings log)) zero_bal a cur.
Proof. exact balance_of_ledger. Qed.
Print Assumptions C02_bridge_ledger.

(* what C02 needs: in a serially valid log (Engine/Spec.v) every entry whose amounts are non-negative, read as the
   posting-mode Numscript transaction the real code runs for it ([e_unb] = `allowing unbounded overdraft` / force) and run
   by [sem] on ANY machine table that has an entry for its sources and shows, for the accounts the engine reads, the
   balances produced by the entries before it, SUCCEEDS and emits exactly its postings *)
Theorem C02_bridge_serial : forall cur log before e after b extra,
  ES.serially_valid log -> log = before ++ e :: after ->
  nonneg_ps (EM.e_postings e) ->
  tracks b (lift cur (EM.e_postings e)) ->
  (forall a, In a (EM.reads_of (EM.e_postings e)) -> view b a cur = EM.balance_of before a) ->
  exists r, run_postings (lift cur (EM.e_postings e)) (EM.e_unb e) b extra = SOk r /\
            res_posts r = lift_posts cur (EM.e_postings e).
Proof. exact bridge_serial_at. Qed.
Print Assumptions C02_bridge_serial.

(* ... and as an equivalence on whole histories. [sem_serial cur log] (Engine/Bridge.v): starting from the empty
   ledger, for every entry in log order, its script run on any table that tracks its sources and shows the current
   balance map on the accounts the engine reads succeeds with exactly the entry's postings; the balance map then moves
   by those postings. The log is serially valid in the engine model's sense and has no negative amount EXACTLY when
   it can be run that way. (Such tables exist: [table_of], used for the direction from right to left.) *)
Theorem C02_bridge_serial_iff : forall cur log,
  sem_serial cur log <-> ES.serially_valid log /\ log_nonneg log.
Proof. exact bridge_serial_iff. Qed.
Print Assumptions C02_bridge_serial_iff.

(* with C02_serial: the persisted log of every reachable state of the engine LTS *)
Theorem C02_bridge_reachable : forall cur s,
  ES.reachable s -> log_nonneg (EM.persisted s) -> sem_serial cur (EM.persisted s).
Proof. exact bridge_reachable. Qed.
Print Assumptions C02_bridge_reachable.

Theorem C02_bridge_reachable_at : forall cur s before e after b extra,
  ES.reachable s -> EM.persisted s = before ++ e :: after ->
  nonneg_ps (EM.e_postings e) ->
  tracks b (lift cur (EM.e_postings e)) ->
  (forall a, In a (EM.reads_of (EM.e_postings e)) -> view b a cur = EM.balance_of before a) ->
  exists r, run_postings (lift cur (EM.e_postings e)) (EM.e_unb e) b extra = SOk r /\
            res_posts r = lift_posts cur (EM.e_postings e).
Proof. exact bridge_reachable_at. Qed.
Print Assumptions C02_bridge_reachable_at.

(* reverts: the engine model's effective postings of a revert are Postings.Reverse of the original's, and its decision
   on them is the decision of the script built from the reversed postings *)
Theorem C02_bridge_swap_rev : forall cur ps, lift cur (EM.swap_rev ps) = reverse_postings (lift cur ps).
Proof. exact bridge_swap_rev. Qed.
Print Assumptions C02_bridge_swap_rev.

Theorem C02_bridge_revert : forall cur ps unb b extra,
  tracks b (reverse_postings (lift cur ps)) -> nonneg_ps ps ->
  ((exists r, run_postings (reverse_postings (lift cur ps)) unb b extra = SOk r /\
              res_posts r = reverse_postings (lift cur ps))
   <-> EM.covers (engine_view b cur (EM.swap_rev ps)) unb (EM.swap_rev ps) = true).
Proof. exact bridge_revert. Qed.
Print Assumptions C02_bridge_revert.

(* ---- the hypothesis on the amounts cannot be dropped from C02_bridge_covers ------------------------------------ *)
Theorem C02_bridge_covers_without_nonneg_refuted :
  let ps := [(world, 1%N, -5)] in
  let b := [(world, 0%N, 0)] in
  tracks b (lift 0%N ps) /\ EM.covers (engine_view b 0%N ps) false ps = true /\
  exists e, run_postings (lift 0%N ps) false b [] = SErr e.
Proof. exact bridge_covers_without_nonneg_refuted. Qed.

(* ---- non-vacuity ------------------------------------------------------------------------------------------------ *)
(* a chain (2 spends what 1 sent it), an account that is source and destination, a self-transfer, @world on both
   sides: accepted by both; one unit more: refused by both, accepted by both when forced *)
Example C02_bridge_example :
  let ps := [(1%N, 2%N, 60); (2%N, 3%N, 60); (3%N, 3%N, 7); (world, 1%N, 5); (1%N, world, 45)] in
  let qs := [(1%N, 2%N, 60); (2%N, 3%N, 61)] in
  let b := [(world, 0%N, 0); (1%N, 0%N, 100); (2%N, 0%N, 0); (3%N, 0%N, 0)] in
  tracks b (lift 0%N ps) /\ nonneg_ps ps /\
  EM.covers (engine_view b 0%N ps) false ps = true /\
  (exists r, run_postings (lift 0%N ps) false b [] = SOk r /\ res_posts r = lift_posts 0%N ps) /\
  EM.covers (engine_view b 0%N qs) false qs = false /\
  run_postings (lift 0%N qs) false b [] = SErr EInsufficient /\
  EM.covers (engine_view b 0%N qs) true qs = true /\
  (exists r, run_postings (lift 0%N qs) true b [] = SOk r /\ res_posts r = lift_posts 0%N qs).
Proof.
  cbv zeta. split; [|split].
  - intros p Hp. cbn in Hp. repeat (destruct Hp as [Hp|Hp]; [subst p; vm_compute; discriminate|]). destruct Hp.
  - apply nonneg_b_spec. vm_compute. reflexivity.
  - vm_compute. repeat split; try reflexivity; eexists; split; reflexivity.
Qed.

(* the race schedule of C02_race_refused on the engine LTS: the state it reaches is reachable, its log has no negative
   amount, so the log runs entry by entry under the script semantics; and concretely, the winner's entry (alice -> bob,
   100) run as its script on the table of the balances the funding entry produced emits exactly that posting *)
Example C02_bridge_reachable_example :
  exists s, EM.run EM.init FL.Engine.E4Cor.e4_race_acts = Some s /\ ES.reachable s /\
            log_nonneg (EM.persisted s) /\ sem_serial 0%N (EM.persisted s) /\
            match EM.persisted s with
            | [e0; e1] =>
                EM.e_postings e1 = [(1%N, 2%N, 100)] /\
                exists r, run_postings (lift 0%N (EM.e_postings e1)) (EM.e_unb e1)
                            (table_of 0%N (ledger 0%N [e0]) (EM.e_postings e1)) [] = SOk r /\
                          res_posts r = lift_posts 0%N (EM.e_postings e1)
            | _ => False
            end.
Proof.
  destruct (EM.run EM.init FL.Engine.E4Cor.e4_race_acts) as [s|] eqn:E; [|vm_compute in E; discriminate].
  exists s. split; [reflexivity|].
  assert (Hr : ES.reachable s) by (exists FL.Engine.E4Cor.e4_race_acts; exact E).
  assert (Hn : log_nonneg (EM.persisted s)).
  { apply log_nonneg_b_spec. vm_compute in E. inversion E; subst s. vm_compute. reflexivity. }
  split; [exact Hr|]. split; [exact Hn|]. split; [apply C02_bridge_reachable; assumption|].
  vm_compute in E. inversion E; subst s. cbn [EM.persisted]. split; [reflexivity|].
  eexists. vm_compute. split; reflexivity.
Qed.
