(* C02 (cancellation) — lock-table / queue hygiene of the write path under context cancellation.
   Only the property theorems live here; each is closed by [exact <lemma>] and followed by Print Assumptions.
   The model is Engine/Model.v (the write path of the Commander, extended with [ACancel t] = the context of request
   t is done, and [AResumeCancelled t] = the ctx.Done() branch of the wait for the account locks,
   DefaultLocker.Lock); the proofs are in Engine/E5Lock.v, which imports nothing but Model.v and Spec.v.
   [reachable s] quantifies over EVERY finite action list from the empty ledger: any number of concurrent create /
   revert / metadata requests, any interleaving of their steps, any batch composition, store failures and crashes
   at every point, cancellation of any unfinished request at any point, and a cancelled waiter giving up at any
   later point (before or after a releaser granted it the locks), and a transient failure of any store read of the
   write path ([AResumeReadFail t]: the read the region thread t runs next performs fails). *)
From FL Require Import Engine.Model Engine.Spec Engine.E5Lock.
Open Scope nat_scope.

(* the invariant: the queue of lock intents and the lock table are exactly what the thread table says
   (a tid is queued iff its thread is parked at "lock.enqueued" without the grant; (t, rs, ws) is in the table iff
   the thread of t holds -- granted while queued, or between "locked" and "done" of a transaction request -- and
   rs / ws are the read / write sets of its postings); no duplicates; only transaction requests visit the lock
   pcs; the grant flag is false before the lock request; threads of older generations are finished *)
Theorem C02c_invariant : forall s, reachable s -> e5_Inv s.
Proof. exact e5_reachable_inv. Qed.
Print Assumptions C02c_invariant.

(* a finished request -- in particular one answered [RErr ELockCancelled] -- holds no lock-table entry and no
   queue entry; thread ids are never reused and [PFinished] is final, so this holds in every later state *)
Theorem C02c_finished_holds_no_lock : forall s t th,
  reachable s -> get_thread (threads s) t = Some th -> t_pc th = PFinished ->
  ~ In t (v_queue s) /\ (forall h, In h (v_locks s) -> fst (fst h) <> t).
Proof. exact (fun s t th R => e5_finished_holds_no_lock s t th (e5_reachable_inv s R)). Qed.
Print Assumptions C02c_finished_holds_no_lock.

(* a request that queues for its locks (the step from "resolved" that finds the table incompatible), is
   cancelled and gives up at once leaves lock table and queue exactly as they were before it queued *)
Theorem C02c_cancelled_waiter_as_if_never_queued : forall s t s1 s2 s3,
  reachable s -> resume s t = Some s1 ->
  (exists th1, get_thread (threads s1) t = Some th1 /\ t_pc th1 = PEnqueued) ->
  cancel s1 t = Some s2 -> resume_cancelled s2 t = Some s3 ->
  v_locks s3 = v_locks s /\ v_queue s3 = v_queue s.
Proof. exact (fun s t s1 s2 s3 R => e5_cancelled_waiter_as_if_never_queued s t s1 s2 s3 (e5_reachable_inv s R)). Qed.
Print Assumptions C02c_cancelled_waiter_as_if_never_queued.

(* after a waiter gave up nothing of it remains in table or queue (whether or not it had been granted); if it
   had never been granted, the table is untouched, the queue only loses t, and no other thread changes *)
Theorem C02c_cancelled_waiter_step : forall s t th s',
  reachable s -> get_thread (threads s) t = Some th -> step s (AResumeCancelled t) = Some s' ->
  ~ In t (v_queue s') /\ (forall h, In h (v_locks s') -> fst (fst h) <> t) /\
  (t_granted th = false ->
     v_locks s' = v_locks s /\ v_queue s' = remove_nat t (v_queue s) /\
     forall u, u <> t -> get_thread (threads s') u = get_thread (threads s) u).
Proof. exact (fun s t th s' R => e5_cancelled_waiter_step s t th s' (e5_reachable_inv s R)). Qed.
Print Assumptions C02c_cancelled_waiter_step.

(* every queued intent belongs to a live request that waits without the grant *)
Theorem C02c_queue_is_waiting : forall s w, reachable s -> In w (v_queue s) ->
  exists th, get_thread (threads s) w = Some th /\ t_pc th = PEnqueued /\ t_granted th = false /\ t_gen th = gen s.
Proof. exact (fun s w R => e5_queue_is_waiting s w (e5_reachable_inv s R)). Qed.
Print Assumptions C02c_queue_is_waiting.

(* every lock-table entry belongs to a live transaction request at a pc where it holds its locks, and is the
   read / write set of that request's postings *)
Theorem C02c_lock_has_holder : forall s h, reachable s -> In h (v_locks s) ->
  exists th, get_thread (threads s) (fst (fst h)) = Some th /\ t_gen th = gen s /\
             snd (fst h) = reads_of (t_postings th) /\ snd h = writes_of (t_postings th) /\
             e5_holds (t_pc th) (t_granted th) = true /\ is_tx_kind (rq_kind (t_req th)) = true.
Proof. exact (fun s h R => e5_lock_has_holder s h (e5_reachable_inv s R)). Qed.
Print Assumptions C02c_lock_has_holder.

(* no intent is queued twice; one table entry per request at most *)
Theorem C02c_no_duplicates : forall s, reachable s ->
  NoDup (v_queue s) /\ NoDup (map (fun h => fst (fst h)) (v_locks s)).
Proof. exact (fun s R => e5_unique s (e5_reachable_inv s R)). Qed.
Print Assumptions C02c_no_duplicates.

(* conversely: a request parked at "lock.enqueued" without the grant IS queued and has no table entry ... *)
Theorem C02c_waiter_is_queued : forall s t th, reachable s -> get_thread (threads s) t = Some th ->
  t_pc th = PEnqueued -> t_granted th = false ->
  In t (v_queue s) /\ forall h, In h (v_locks s) -> fst (fst h) <> t.
Proof. exact (fun s t th R => e5_waiter_queued s t th (e5_reachable_inv s R)). Qed.
Print Assumptions C02c_waiter_is_queued.

(* ... one that has been granted is no longer queued and has its entry in the table ... *)
Theorem C02c_granted_is_in_table : forall s t th, reachable s -> get_thread (threads s) t = Some th ->
  t_pc th = PEnqueued -> t_granted th = true ->
  In (t, reads_of (t_postings th), writes_of (t_postings th)) (v_locks s) /\ ~ In t (v_queue s).
Proof. exact (fun s t th R => e5_granted_in_table s t th (e5_reachable_inv s R)). Qed.
Print Assumptions C02c_granted_is_in_table.

(* ... and a transaction request between "locked" and "done" has its entry in the table (metadata writes share
   the pcs from "append.enter" on but never lock: they have none, by C02c_lock_has_holder) *)
Theorem C02c_holder_is_in_table : forall s t th, reachable s -> get_thread (threads s) t = Some th ->
  e5_holds (t_pc th) (t_granted th) = true -> is_tx_kind (rq_kind (t_req th)) = true ->
  In (t, reads_of (t_postings th), writes_of (t_postings th)) (v_locks s) /\ ~ In t (v_queue s).
Proof. exact (fun s t th R => e5_holder_in_table s t th (e5_reachable_inv s R)). Qed.
Print Assumptions C02c_holder_is_in_table.

(* a request of an older commander generation (before the last crash) is finished *)
Theorem C02c_old_generation_finished : forall s t th, reachable s -> get_thread (threads s) t = Some th ->
  t_gen th <> gen s -> t_pc th = PFinished.
Proof. exact (fun s t th R => e5_old_generation_finished s t th (e5_reachable_inv s R)). Qed.
Print Assumptions C02c_old_generation_finished.

(* what a release does (DefaultLocker.unlock + the FIFO pass): the entries of t leave the table; the pass
   grants a set G of queued intents: the queue keeps the others in order, the table gets exactly the entries of
   G appended in order, exactly the threads of G get the grant flag and nothing else of any thread changes *)
Theorem C02c_release_shape : forall s t, reachable s ->
  exists G,
    v_locks (to_state (gen s) (unlock t (of_state s))) =
      filter (fun h => negb (Nat.eqb (fst (fst h)) t)) (v_locks s) ++ map (e5_entry_of (threads s)) G /\
    v_queue (to_state (gen s) (unlock t (of_state s))) = filter (fun w => negb (mem_nat w G)) (v_queue s) /\
    (forall w, In w G -> In w (v_queue s)) /\
    (forall x, get_thread (threads (to_state (gen s) (unlock t (of_state s)))) x =
               if mem_nat x G then option_map e5_grant (get_thread (threads s) x) else get_thread (threads s) x).
Proof. exact (fun s t R => e5_unlock_shape s t (e5_reachable_inv s R)). Qed.
Print Assumptions C02c_release_shape.

(* ---- transient store read failures ([AResumeReadFail t]) ---------------------------------------------------- *)
(* after a failed read nothing of t is in table or queue (the one case in which t goes on -- a SaveMeta ignores the
   failed GetTransaction -- is a metadata write: those never lock); if the failing read was not the balance read
   under the locks ("locked") table, queue and every other thread are untouched *)
Theorem C02c_read_failed_step : forall s t th s',
  reachable s -> get_thread (threads s) t = Some th -> step s (AResumeReadFail t) = Some s' ->
  ~ In t (v_queue s') /\ (forall h, In h (v_locks s') -> fst (fst h) <> t) /\
  (t_pc th <> PLocked ->
     v_locks s' = v_locks s /\ v_queue s' = v_queue s /\
     forall u, u <> t -> get_thread (threads s') u = get_thread (threads s) u).
Proof. exact (fun s t th s' R => e5_read_failed_step s t th s' (e5_reachable_inv s R)). Qed.
Print Assumptions C02c_read_failed_step.

(* the balance read under the locks fails: table, queue and every other thread are exactly those after a release
   by t ([unlock t], the state C02c_release_shape describes); t itself is finished with the read error and has
   built no entry *)
Theorem C02c_read_failed_is_release : forall s t th s',
  get_thread (threads s) t = Some th -> t_pc th = PLocked -> step s (AResumeReadFail t) = Some s' ->
  v_locks s' = v_locks (to_state (gen s) (unlock t (of_state s))) /\
  v_queue s' = v_queue (to_state (gen s) (unlock t (of_state s))) /\
  (forall x, x <> t -> get_thread (threads s') x = get_thread (threads (to_state (gen s) (unlock t (of_state s)))) x) /\
  exists thF, get_thread (threads s') t = Some thF /\ t_pc thF = PFinished /\ t_resp thF = Some (RErr EStoreRead) /\
              t_entry thF = t_entry th.
Proof. exact e5_read_failed_is_release. Qed.
Print Assumptions C02c_read_failed_is_release.

(* ... spelled out with the list G of C02c_release_shape (the intents the FIFO pass grants, in queue order): the
   entries of t leave the table, the entries of G are appended in order; the queue loses exactly G; exactly the
   threads of G get the grant flag, no other thread but t changes; t (a holder, hence not in G) is finished *)
Theorem C02c_read_failed_release_shape : forall s t th s',
  reachable s -> get_thread (threads s) t = Some th -> t_pc th = PLocked ->
  step s (AResumeReadFail t) = Some s' ->
  exists G,
    v_locks s' = filter (fun h => negb (Nat.eqb (fst (fst h)) t)) (v_locks s) ++ map (e5_entry_of (threads s)) G /\
    v_queue s' = filter (fun w => negb (mem_nat w G)) (v_queue s) /\
    (forall w, In w G -> In w (v_queue s)) /\ ~ In t G /\
    (forall x, x <> t -> get_thread (threads s') x =
               if mem_nat x G then option_map e5_grant (get_thread (threads s) x) else get_thread (threads s) x) /\
    exists thF, get_thread (threads s') t = Some thF /\ t_pc thF = PFinished /\ t_resp thF = Some (RErr EStoreRead).
Proof. exact (fun s t th s' R => e5_read_failed_release_shape s t th s' (e5_reachable_inv s R)). Qed.
Print Assumptions C02c_read_failed_release_shape.

(* graceful shutdown (Commander.Close: [AClose] = [crash], [ACloseOk] = [persist_ok] then [crash]; every theorem above
   is proved over the state space that includes both): whenever it is enabled, from ANY state, it leaves an empty lock
   table and an empty queue -- no lock and no queued intent survives the generation *)
Theorem C02c_close_empties : forall s a s',
  (a = AClose \/ a = ACloseOk) -> step s a = Some s' -> v_locks s' = [] /\ v_queue s' = [].
Proof. exact e5_close_empties. Qed.
Print Assumptions C02c_close_empties.

(* ---- non-vacuity: concrete schedules ([e5_show]: table, queue, key and reference reservations, and per thread
   pc, response, grant flag). Request 0 funds account 1 with 100; request 1 (1 -> 2, 40) takes the locks;
   request 2 (1 -> 3, 100, idempotency key 7, reference 9) needs account 1 as well ------------------------------ *)

(* (a) request 2 queues, is cancelled while queued and gives up without ever being granted: it answers
   ELockCancelled, its key and reference are released, table and queue are those of the state before it queued *)
Example C02c_ex_cancelled_while_queued :
  e5_show (run init e5_sched_pre) =
    Some ([(1, [1%N; 2%N], [1%N])], [], [7%N], [9%N],
          [(0, PFinished, Some (ROk (Some 0)), false); (1, PLocked, None, false); (2, PResolved, None, false)]) /\
  e5_show (run init (e5_sched_pre ++ [AResume 2])) =
    Some ([(1, [1%N; 2%N], [1%N])], [2], [7%N], [9%N],
          [(0, PFinished, Some (ROk (Some 0)), false); (1, PLocked, None, false); (2, PEnqueued, None, false)]) /\
  e5_show (run init e5_ex_a) =
    Some ([(1, [1%N; 2%N], [1%N])], [], [], [],
          [(0, PFinished, Some (ROk (Some 0)), false); (1, PLocked, None, false);
           (2, PFinished, Some (RErr ELockCancelled), false)]) /\
  e5_lq (run init e5_ex_a) = e5_lq (run init e5_sched_pre).
Proof. vm_compute. repeat split. Qed.

(* (b) request 2 is cancelled while queued, but the holder completes and grants it before it notices: when it
   gives up it releases the grant, the table is empty afterwards *)
Example C02c_ex_cancelled_after_grant :
  e5_show (run init e5_ex_b_granted) =
    Some ([(2, [1%N; 3%N], [1%N])], [], [7%N], [9%N],
          [(0, PFinished, Some (ROk (Some 0)), false); (1, PUnlocked, None, false); (2, PEnqueued, None, true)]) /\
  e5_show (run init e5_ex_b) =
    Some ([], [], [], [],
          [(0, PFinished, Some (ROk (Some 0)), false); (1, PUnlocked, None, false);
           (2, PFinished, Some (RErr ELockCancelled), true)]).
Proof. vm_compute. repeat split. Qed.

(* (c) requests 2 and 3 (1 -> 4, 50) queue behind 1; 1 completes: the pass grants 2 only (3 conflicts with it);
   2 is cancelled and gives up: its release re-checks the queue and grants 3, which completes; in the end table
   and queue are empty *)
Example C02c_ex_release_grants_next :
  e5_show (run init e5_ex_c_queued) =
    Some ([(1, [1%N; 2%N], [1%N])], [2; 3], [7%N], [9%N],
          [(0, PFinished, Some (ROk (Some 0)), false); (1, PLocked, None, false); (2, PEnqueued, None, false);
           (3, PEnqueued, None, false)]) /\
  e5_show (run init e5_ex_c_granted2) =
    Some ([(2, [1%N; 3%N], [1%N])], [3], [7%N], [9%N],
          [(0, PFinished, Some (ROk (Some 0)), false); (1, PUnlocked, None, false); (2, PEnqueued, None, true);
           (3, PEnqueued, None, false)]) /\
  e5_show (run init e5_ex_c_granted3) =
    Some ([(3, [1%N; 4%N], [1%N])], [], [], [],
          [(0, PFinished, Some (ROk (Some 0)), false); (1, PUnlocked, None, false);
           (2, PFinished, Some (RErr ELockCancelled), true); (3, PEnqueued, None, true)]) /\
  e5_show (run init e5_ex_c_done) =
    Some ([], [], [], [],
          [(0, PFinished, Some (ROk (Some 0)), false); (1, PFinished, Some (ROk (Some 1)), false);
           (2, PFinished, Some (RErr ELockCancelled), true); (3, PFinished, Some (ROk (Some 2)), true)]).
Proof. vm_compute. repeat split. Qed.

(* the premises of C02c_cancelled_waiter_as_if_never_queued are satisfiable: the three steps of (a) *)
Example C02c_ex_premises :
  match run init e5_sched_pre with
  | Some s =>
      match resume s 2 with
      | Some s1 =>
          match cancel s1 2 with
          | Some s2 =>
              match resume_cancelled s2 2 with
              | Some s3 => option_map t_pc (get_thread (threads s1) 2) = Some PEnqueued /\
                           v_locks s3 = v_locks s /\ v_queue s3 = v_queue s /\
                           v_locks s = [(1, [1%N; 2%N], [1%N])] /\ v_queue s1 = [2]
              | None => False
              end
          | None => False
          end
      | None => False
      end
  | None => False
  end.
Proof. vm_compute. repeat split. Qed.

(* (d) request 1 (1 -> 2, 100) is parked at "locked" holding accounts 1, 2; request 2 is queued behind it; the
   balance read of request 1 fails: it answers EStoreRead, its entry leaves the table, the re-check grants
   request 2 (table = the entry of 2 only, queue empty) *)
Example C02c_ex_read_failure_grants_waiter :
  e5_show (run init e5_rf_queued) =
    Some ([(1, [1%N; 2%N], [1%N])], [2], [7%N], [9%N],
          [(0, PFinished, Some (ROk (Some 0)), false); (1, PLocked, None, false); (2, PEnqueued, None, false)]) /\
  e5_show (run init (e5_rf_queued ++ [AResumeReadFail 1])) =
    Some ([(2, [1%N; 3%N], [1%N])], [], [7%N], [9%N],
          [(0, PFinished, Some (ROk (Some 0)), false); (1, PFinished, Some (RErr EStoreRead), false);
           (2, PEnqueued, None, true)]).
Proof. vm_compute. repeat split. Qed.

(* (e) failures before the lock request leave table and queue alone: the key lookup of request 2 fails (parked at
   "ik.taken": EStoreRead, key released); the GetTransaction of a SaveMeta on the missing transaction 7 fails and
   is ignored (the request goes on to "append.enter"; a metadata write holds nothing) *)
Example C02c_ex_read_failure_before_lock :
  e5_show (run init e5_rf_ik) =
    Some ([(1, [1%N; 2%N], [1%N])], [], [7%N], [],
          [(0, PFinished, Some (ROk (Some 0)), false); (1, PLocked, None, false); (2, PIkTaken, None, false)]) /\
  e5_show (run init (e5_rf_ik ++ [AResumeReadFail 2])) =
    Some ([(1, [1%N; 2%N], [1%N])], [], [], [],
          [(0, PFinished, Some (ROk (Some 0)), false); (1, PLocked, None, false);
           (2, PFinished, Some (RErr EStoreRead), false)]) /\
  e5_show (run init e5_rf_sm) =
    Some ([(1, [1%N; 2%N], [1%N])], [], [5%N], [],
          [(0, PFinished, Some (ROk (Some 0)), false); (1, PLocked, None, false); (3, PIkLookup None, None, false)]) /\
  e5_show (run init (e5_rf_sm ++ [AResumeReadFail 3])) =
    Some ([(1, [1%N; 2%N], [1%N])], [], [5%N], [],
          [(0, PFinished, Some (ROk (Some 0)), false); (1, PLocked, None, false); (3, PAppendEnter, None, false)]).
Proof. vm_compute. repeat split. Qed.
