(* C02, lock sets of general Numscript scripts — "concurrent transactions cannot spend the same funds twice".
   commander.go [exec] compiles the script, calls ResolveResources, locks Read: involvedAccounts / Write: involvedSources,
   THEN reads balances and runs the machine. The engine model (Engine/Model.v) treats a request as posting-mode; these
   theorems are the facts about the Numscript pipeline ([run_program], Numscript/Run.v: [ro_involved] = involvedAccounts,
   [ro_sources] = involvedSources, [ro_result]) that justify it for every script:

   1. FRAME            the whole outcome depends on the store's balances only through the read-locked accounts;
   2. SHARPER FRAME    ... only through the write-locked accounts and the accounts of balance() variables;
   3. POSTINGS         every posting's source is write-locked, both its ends are read-locked;
   4. ACCEPTED=>COVERED for a script without overdraft clause the postings of each asset pass the engine's [covers].

   Only the property theorems live here ([exact <lemma>] + Print Assumptions), with non-vacuity examples and
   [_refuted] witnesses. Definitions and proofs: Numscript/LockFrame.v, Engine/BridgeScripts.v. *)
From Coq Require Import Lia ZArith List Bool.
Import ListNotations.
From FL Require Import Numscript.LockFrame Engine.BridgeScripts.
Open Scope Z_scope.

(* ================================================================================================================ *)
(* 0. resolution (hence both lock sets, or the failure of resolution) never looks at a balance                      *)
(* ================================================================================================================ *)
(* [same_meta s1 s2]: same account metadata, same parse table. For EVERY program, variable map, store: [run_program]
   either fails the same way on both stores (Err / Panic of ResolveResources) or succeeds on both with the same lock sets *)
Theorem C02_locks_resolution_ignores_balances : forall p vars s1 s2 extra, same_meta s1 s2 ->
  match run_program p vars s1 extra, run_program p vars s2 extra with
  | Done o1, Done o2 => ro_involved o1 = ro_involved o2 /\ ro_sources o1 = ro_sources o2
  | Err e1, Err e2 => e1 = e2
  | Panic p1, Panic p2 => p1 = p2
  | _, _ => False
  end.
Proof. exact run_program_resolution. Qed.
Print Assumptions C02_locks_resolution_ignores_balances.

(* ================================================================================================================ *)
(* 1. frame on the read-lock set: EVERY program (compiled or not), every variable map, store, extra metadata         *)
(* ================================================================================================================ *)
(* [agree_on l s1 s2]: forall a x, In a l -> store_balance s1 a x = store_balance s2 a x.
   Same lock sets AND same [ro_result], whatever it is: success, error or panic. *)
Theorem C02_locks_frame : forall p vars s1 s2 extra o1,
  run_program p vars s1 extra = Done o1 -> same_meta s1 s2 -> agree_on (ro_involved o1) s1 s2 ->
  run_program p vars s2 extra = Done o1.
Proof. exact locks_frame. Qed.
Print Assumptions C02_locks_frame.

Theorem C02_locks_frame_script : forall sc vars s1 s2 extra o1,
  compile_and_run sc vars s1 extra = Done o1 -> same_meta s1 s2 -> agree_on (ro_involved o1) s1 s2 ->
  compile_and_run sc vars s2 extra = Done o1.
Proof. exact locks_frame_script. Qed.
Print Assumptions C02_locks_frame_script.

(* ================================================================================================================ *)
(* 2. the sharper frame                                                                                              *)
(* ================================================================================================================ *)
(* the exact set: [read_set p vars s] = accounts of the pending balance() variables ++ the non-world accounts at the keys
   of NeededBalances (a function of p, vars and the METADATA of s only). Every program. *)
Theorem C02_locks_frame_read_set : forall p vars s1 s2 extra o1,
  run_program p vars s1 extra = Done o1 -> same_meta s1 s2 -> agree_on (read_set p vars s1) s1 s2 ->
  run_program p vars s2 extra = Done o1.
Proof. exact frame_read_set. Qed.
Print Assumptions C02_locks_frame_read_set.

(* it is inside the read-lock set (every program) ... *)
Theorem C02_locks_read_set_involved : forall p vars s extra o, run_program p vars s extra = Done o ->
  incl (read_set p vars s) (ro_involved o).
Proof. exact read_set_involved. Qed.
Print Assumptions C02_locks_read_set_involved.

(* ... and for a compiled program it consists of write-locked accounts and accounts of balance() variables *)
Theorem C02_locks_read_set_sources : forall sc p vars s extra o, compile sc = Some p -> run_program p vars s extra = Done o ->
  forall a, In a (read_set p vars s) ->
    In a (balance_var_accounts p vars s) \/ (In (Some a) (ro_sources o) /\ a <> world).
Proof. exact read_set_sources_compiled. Qed.
Print Assumptions C02_locks_read_set_sources.

(* for ALL scripts: agreement on the write-locked accounts (world excepted: never read) and on the accounts of the
   balance() variables is enough *)
Theorem C02_locks_frame_sources : forall sc p vars s1 s2 extra o1, compile sc = Some p ->
  run_program p vars s1 extra = Done o1 -> same_meta s1 s2 ->
  (forall a x, In (Some a) (ro_sources o1) -> a <> world -> store_balance s1 a x = store_balance s2 a x) ->
  agree_on (balance_var_accounts p vars s1) s1 s2 ->
  run_program p vars s2 extra = Done o1.
Proof. exact locks_frame_sources. Qed.
Print Assumptions C02_locks_frame_sources.

(* a script that declares no balance() variable: the outcome depends on the write-locked balances only *)
Theorem C02_locks_frame_no_balance_vars : forall sc p vars s1 s2 extra o1, compile sc = Some p -> no_balance_vars sc ->
  run_program p vars s1 extra = Done o1 -> same_meta s1 s2 ->
  (forall a x, In (Some a) (ro_sources o1) -> a <> world -> store_balance s1 a x = store_balance s2 a x) ->
  run_program p vars s2 extra = Done o1.
Proof. exact locks_frame_no_balance_vars. Qed.
Print Assumptions C02_locks_frame_no_balance_vars.

(* ================================================================================================================ *)
(* 3. postings and lock sets                                                                                          *)
(* ================================================================================================================ *)
(* destinations are read-locked: EVERY program, every input (world included: it is recorded like any account) *)
Theorem C02_locks_involved_cover_destinations : forall p vars s extra o r,
  run_program p vars s extra = Done o -> ro_result o = Done r ->
  forall q, In q (res_posts r) -> In (p_dst q) (ro_involved o).
Proof. exact locks_involved_cover_destinations. Qed.
Print Assumptions C02_locks_involved_cover_destinations.

(* debits are write-locked. The statement asked for (zero-amount postings and world sources INCLUDED: the model
   records @world in Sources like any other source account, so no "src = world" escape is needed): *)
Definition C02_locks_sources_cover_debits_full_statement : Prop :=
  forall sc p vars s extra o r, compile sc = Some p ->
  run_program p vars s extra = Done o -> ro_result o = Done r ->
  forall q, In q (res_posts r) -> In (Some (p_src q)) (ro_sources o).

(* proved without any hypothesis on the inputs: ... or the source is named by a funding VALUE sitting in the resolved
   resource table (only a caller-supplied variable or the metadata parse table could put one there; JSON cannot) *)
Theorem C02_locks_sources_cover_debits_gen : forall sc p vars s extra o r, compile sc = Some p ->
  run_program p vars s extra = Done o -> ro_result o = Done r ->
  forall q, In q (res_posts r) ->
    In (Some (p_src q)) (ro_sources o) \/
    exists vs rr vals, vars = Some vs /\ resolve_resources (p_res p) vs s init_resolved = Done rr /\
      fill_pending (r_pending rr) s (r_vals rr) = Done vals /\ funding_account vals (p_src q).
Proof. exact locks_sources_cover_debits_gen. Qed.
Print Assumptions C02_locks_sources_cover_debits_gen.

(* partial: under [inputs_clean] = no funding value is read for a declared variable or a meta() variable.
   What is missing for the full statement: that compiled code never consumes a pushed resource as a funding (true by
   inspection of the compiler: such a run panics/errors before OP_SEND; not proved, it needs a typed abstract
   interpretation of the emitted code for ill-typed inputs, which [compile_correct] does not cover) *)
Theorem C02_locks_sources_cover_debits_partial : forall sc p vs s extra o r, compile sc = Some p -> inputs_clean (p_res p) vs s ->
  run_program p (Some vs) s extra = Done o -> ro_result o = Done r ->
  forall q, In q (res_posts r) -> In (Some (p_src q)) (ro_sources o).
Proof. exact locks_sources_cover_debits. Qed.
Print Assumptions C02_locks_sources_cover_debits_partial.

(* the hypothesis is met when no input value is a funding ... *)
Theorem C02_locks_sources_cover_debits_nofund : forall sc p vs s extra o r, compile sc = Some p -> inputs_nofund vs s ->
  run_program p (Some vs) s extra = Done o -> ro_result o = Done r ->
  forall q, In q (res_posts r) -> In (Some (p_src q)) (ro_sources o).
Proof. exact locks_sources_cover_debits_nofund. Qed.
Print Assumptions C02_locks_sources_cover_debits_nofund.
(* ... and under the typing glue of the pipeline theorems (SetVarsFromJSON / NewValueFromString give declared types) *)
Theorem C02_locks_sources_cover_debits_typed : forall sc p vs s extra o r, compile sc = Some p ->
  vars_typed (p_res p) vs -> parse_typed s ->
  run_program p (Some vs) s extra = Done o -> ro_result o = Done r ->
  forall q, In q (res_posts r) -> In (Some (p_src q)) (ro_sources o).
Proof. exact locks_sources_cover_debits_typed. Qed.
Print Assumptions C02_locks_sources_cover_debits_typed.

(* credits are read-locked: both ends of every posting *)
Definition C02_locks_involved_cover_postings_full_statement : Prop :=
  forall sc p vars s extra o r, compile sc = Some p ->
  run_program p vars s extra = Done o -> ro_result o = Done r ->
  forall q, In q (res_posts r) -> In (p_src q) (ro_involved o) /\ In (p_dst q) (ro_involved o).
Theorem C02_locks_involved_cover_postings_partial : forall sc p vs s extra o r, compile sc = Some p -> inputs_clean (p_res p) vs s ->
  run_program p (Some vs) s extra = Done o -> ro_result o = Done r ->
  forall q, In q (res_posts r) -> In (p_src q) (ro_involved o) /\ In (p_dst q) (ro_involved o).
Proof. exact locks_involved_cover_postings. Qed.
Print Assumptions C02_locks_involved_cover_postings_partial.

(* write-locked accounts are read-locked *)
Theorem C02_locks_sources_involved : forall p vars s extra o a, run_program p vars s extra = Done o ->
  In (Some a) (ro_sources o) -> In a (ro_involved o).
Proof. exact sources_involved. Qed.
Print Assumptions C02_locks_sources_involved.

(* what compilation guarantees, for EVERY script: keys of NeededBalances are Sources; no funding constant; plain and
   meta() variables have declarable types *)
Theorem C02_locks_compiled_program : forall sc p, compile sc = Some p -> prog_ok false p.
Proof. exact compile_prog_ok_plain. Qed.
Print Assumptions C02_locks_compiled_program.

(* ================================================================================================================ *)
(* 4. accepted => covered, in the vocabulary of Engine/Model.v                                                        *)
(* ================================================================================================================ *)
(* [proj x ps]: the postings of asset x, in order, as engine postings (source, destination, amount);
   [script_view s x eps]: the store balances of asset x on [EM.reads_of eps] (the shape of the engine's [t_view]);
   [no_overdraft sc]: no source of any send carries an `allowing overdraft` clause (syntactic). *)
Definition C02_locks_accepted_covered_full_statement : Prop :=
  forall sc p vars s extra o r x, compile sc = Some p -> no_overdraft sc = true ->
  run_program p vars s extra = Done o -> ro_result o = Done r ->
  EM.covers (script_view s x (proj x (res_posts r))) false (proj x (res_posts r)) = true.

(* over the source-semantics pipeline of Corr.v ([sem_pipeline], validated against the real machine on every run):
   no other hypothesis *)
Theorem C02_locks_accepted_covered_sem : forall sc p vars s extra r x, no_overdraft sc = true ->
  sem_pipeline sc p vars s extra = Done r ->
  EM.covers (script_view s x (proj x (res_posts r))) false (proj x (res_posts r)) = true.
Proof. exact scripts_accepted_covered_sem. Qed.
Print Assumptions C02_locks_accepted_covered_sem.

(* over the machine pipeline: partial = with the hypotheses of [compile_correct] (C08): ratio literals in lowest terms
   and at least one statement ([in_fragment]), variables and parsed metadata of their declared types *)
Theorem C02_locks_accepted_covered_partial : forall sc p vars s extra o r x,
  compile sc = Some p -> in_fragment sc = true -> (forall vs, vars = Some vs -> vars_typed (p_res p) vs) -> parse_typed s ->
  no_overdraft sc = true ->
  run_program p vars s extra = Done o -> ro_result o = Done r ->
  EM.covers (script_view s x (proj x (res_posts r))) false (proj x (res_posts r)) = true.
Proof. exact scripts_accepted_covered. Qed.
Print Assumptions C02_locks_accepted_covered_partial.

(* [in_fragment] weakened to [norm_script] (ratio literals in lowest terms): a script without statements compiles to
   empty code, which the machine refuses (Panic PNoInstr), so it never reaches [Done] *)
Theorem C02_locks_accepted_covered_norm : forall sc p vars s extra o r x,
  compile sc = Some p -> norm_script sc = true -> (forall vs, vars = Some vs -> vars_typed (p_res p) vs) -> parse_typed s ->
  no_overdraft sc = true ->
  run_program p vars s extra = Done o -> ro_result o = Done r ->
  EM.covers (script_view s x (proj x (res_posts r))) false (proj x (res_posts r)) = true.
Proof. exact scripts_accepted_covered_norm. Qed.
Print Assumptions C02_locks_accepted_covered_norm.

(* the heart, usable with any zero-grant floor: C01's [floor_ok] read asset by asset is the engine's [covers] *)
Theorem C02_locks_floor_is_covers : forall g x ps b0 v, (forall a s, g a s = Some 0) -> C01Spec.floor_ok g b0 ps ->
  (forall q, In q ps -> p_asset q = x -> p_src q <> world -> EM.view_get v (p_src q) = b0 (p_src q) x) ->
  EM.covers v false (proj x ps) = true.
Proof. exact floor_covers. Qed.
Print Assumptions C02_locks_floor_is_covers.

(* the engine-model lock sets of those requests are inside the script's lock sets *)
Theorem C02_locks_writes_locked : forall sc p vs s extra o r x, compile sc = Some p -> inputs_clean (p_res p) vs s ->
  run_program p (Some vs) s extra = Done o -> ro_result o = Done r ->
  forall a, In a (EM.writes_of (proj x (res_posts r))) -> In (Some a) (ro_sources o).
Proof. exact scripts_writes_locked. Qed.
Print Assumptions C02_locks_writes_locked.
Theorem C02_locks_reads_locked : forall sc p vs s extra o r x, compile sc = Some p -> inputs_clean (p_res p) vs s ->
  run_program p (Some vs) s extra = Done o -> ro_result o = Done r ->
  forall a, In a (EM.reads_of (proj x (res_posts r))) -> In a (ro_involved o).
Proof. exact scripts_reads_locked. Qed.
Print Assumptions C02_locks_reads_locked.

(* all of it: an accepted run of a script without overdraft clause is, asset by asset, a posting-mode request that the
   engine model's decision function accepts on the store balances, and whose locks the script's locks include *)
Theorem C02_locks_reduce_to_posting_mode : forall sc p vs s extra o r x,
  compile sc = Some p -> in_fragment sc = true -> vars_typed (p_res p) vs -> parse_typed s -> no_overdraft sc = true ->
  run_program p (Some vs) s extra = Done o -> ro_result o = Done r ->
  let eps := proj x (res_posts r) in
  EM.covers (script_view s x eps) false eps = true /\
  (forall a, In a (EM.writes_of eps) -> In (Some a) (ro_sources o)) /\
  (forall a, In a (EM.reads_of eps) -> In a (ro_involved o)).
Proof. exact scripts_reduce_to_posting_mode. Qed.
Print Assumptions C02_locks_reduce_to_posting_mode.

(* ================================================================================================================ *)
(* non-vacuity                                                                                                        *)
(* ================================================================================================================ *)
(* accounts: world 0, alice 1, bob 2, carol 3, dave 4; asset USD 0; metadata key "payee" 10; raw string 20.
     vars { account $src                                   -- supplied: alice
            account $dst = meta($src, "payee")             -- alice's metadata says: bob
            monetary $b  = balance(@carol, USD) }
     send $b (source = $src, destination = $dst)
   read locks {alice, bob, carol}, write locks {alice}; the run sends carol's balance from alice to bob. *)
Definition lk_script : script :=
  {| s_vars := [ {| vd_type := TAccount; vd_name := 1%N; vd_orig := None |};
                 {| vd_type := TAccount; vd_name := 2%N; vd_orig := Some (OMeta (EVar 1%N) 10%N) |};
                 {| vd_type := TMonetary; vd_name := 3%N; vd_orig := Some (OBalance (ELitAccount 3%N) (ELitAsset 0%N)) |} ];
     s_stmts := [ StSend (SendMon (EVar 3%N)) (VSrc (SAccount (EVar 1%N) OvNone)) (DAccount (EVar 2%N)) ] |}.
Definition lk_vs : list (N * value) := [(1%N, VAccount 1%N)].
Definition lk_store (alice bob carol dave : Z) : store :=
  {| st_bal := [(1%N, 0%N, alice); (2%N, 0%N, bob); (3%N, 0%N, carol); (4%N, 0%N, dave)];
     st_meta := [(1%N, 10%N, 20%N)];
     st_parse := [(TAccount, 20%N, Some (VAccount 2%N))] |}.
Definition lk_prog : program :=
  {| p_code := [IPush 0; IPush 4; IOp OP_ASSET; IPush 5; IOp OP_MONETARY_NEW; IOp OP_TAKE_ALL; IPush 4; IOp OP_TAKE;
                IPush 6; IOp OP_BUMP; IOp OP_REPAY; IOp OP_FUNDING_SUM; IOp OP_TAKE; IPush 1; IOp OP_SEND; IOp OP_REPAY];
     p_res := [RVar TAccount 1; RVarMeta TAccount 2 0 10%N; RConst (VAccount 3%N); RConst (VAsset 0%N);
               RVarBalance 3 2 3; RConst (VNumber 0); RConst (VNumber 1)];
     p_sources := [0%nat];
     p_needed := [(0%nat, [4%nat])];
     p_vars := [(3%N, 4%nat); (2%N, 1%nat); (1%N, 0%nat)] |}.
Definition lk_out (amount : Z) : run_out :=
  {| ro_involved := [1%N; 2%N; 3%N; 3%N];
     ro_sources := [Some 1%N];
     ro_result := Done {| res_posts := [ {| p_src := 1%N; p_dst := 2%N; p_asset := 0%N; p_amount := amount |} ];
                          res_txmeta := []; res_accmeta := []; res_printed := [] |} |}.

Example C02_locks_example_run :
  compile lk_script = Some lk_prog /\
  run_program lk_prog (Some lk_vs) (lk_store 100 7 30 5) [] = Done (lk_out 30) /\
  read_set lk_prog (Some lk_vs) (lk_store 100 7 30 5) = [3%N; 1%N] /\
  balance_var_accounts lk_prog (Some lk_vs) (lk_store 100 7 30 5) = [3%N].
Proof. repeat split; vm_compute; reflexivity. Qed.

(* (1): dave is outside the read-lock set; the two stores differ there, the hypotheses of C02_locks_frame hold *)
Example C02_locks_frame_example :
  let s1 := lk_store 100 7 30 5 in let s2 := lk_store 100 7 30 999 in
  same_meta s1 s2 /\ agree_on (ro_involved (lk_out 30)) s1 s2 /\ store_balance s1 4%N 0%N <> store_balance s2 4%N 0%N /\
  run_program lk_prog (Some lk_vs) s2 [] = Done (lk_out 30).
Proof.
  cbv zeta.
  assert (SM : same_meta (lk_store 100 7 30 5) (lk_store 100 7 30 999)) by (split; reflexivity).
  assert (A : agree_on (ro_involved (lk_out 30)) (lk_store 100 7 30 5) (lk_store 100 7 30 999)).
  { intros a x Ha. cbn [lk_out ro_involved] in Ha. destruct Ha as [<-|[<-|[<-|[<-|[]]]]]; reflexivity. }
  split; [exact SM|]. split; [exact A|]. split; [vm_compute; discriminate|].
  apply (C02_locks_frame lk_prog (Some lk_vs) (lk_store 100 7 30 5) _ [] (lk_out 30)); [vm_compute; reflexivity|exact SM|exact A].
Qed.

(* (2): bob (a destination: read-locked, not write-locked) and dave differ; the hypotheses of C02_locks_frame_sources hold,
   those of C02_locks_frame do not *)
Example C02_locks_frame_sources_example :
  let s1 := lk_store 100 7 30 5 in let s3 := lk_store 100 12345 30 999 in
  ~ agree_on (ro_involved (lk_out 30)) s1 s3 /\
  run_program lk_prog (Some lk_vs) s3 [] = Done (lk_out 30).
Proof.
  cbv zeta. split.
  - intros A. specialize (A 2%N 0%N). cbn [lk_out ro_involved] in A. specialize (A (or_intror (or_introl eq_refl))).
    vm_compute in A. discriminate.
  - apply (C02_locks_frame_sources lk_script lk_prog (Some lk_vs) (lk_store 100 7 30 5) _ [] (lk_out 30)).
    + vm_compute; reflexivity.
    + vm_compute; reflexivity.
    + split; reflexivity.
    + intros a x Ha _. cbn [lk_out ro_sources] in Ha. destruct Ha as [E|[]]. injection E as <-. reflexivity.
    + intros a x Ha. vm_compute in Ha. destruct Ha as [<-|[]]. reflexivity.
Qed.

(* agreement on FEWER accounts is not enough. Drop the one source: *)
Example C02_locks_frame_without_a_source_refuted :
  let s1 := lk_store 100 7 30 5 in let s4 := lk_store 10 7 30 5 in
  same_meta s1 s4 /\ (forall a x, a <> 1%N -> store_balance s1 a x = store_balance s4 a x) /\
  run_program lk_prog (Some lk_vs) s1 [] = Done (lk_out 30) /\
  exists o4, run_program lk_prog (Some lk_vs) s4 [] = Done o4 /\ ro_result o4 = Err EInsufficient.
Proof.
  cbv zeta. split; [split; reflexivity|]. split.
  - intros a x Ha. unfold store_balance, lk_store; cbn [st_bal]. rewrite !bal_get_cons. cbn [bal_get].
    destruct (N.eqb_spec a 1%N) as [E|_]; [contradiction|]. reflexivity.
  - split; [vm_compute; reflexivity|]. eexists. split; vm_compute; reflexivity.
Qed.

(* the write-lock set ALONE is not enough in general (so the set of (2) is the right one): carol is the account of the
   balance() variable, she is not a source; the stores agree everywhere else and the results differ *)
Example C02_locks_frame_sources_only_refuted :
  let s1 := lk_store 100 7 30 5 in let s5 := lk_store 100 7 31 5 in
  same_meta s1 s5 /\ (forall a x, a <> 3%N -> store_balance s1 a x = store_balance s5 a x) /\
  (forall a x, In (Some a) (ro_sources (lk_out 30)) -> store_balance s1 a x = store_balance s5 a x) /\
  run_program lk_prog (Some lk_vs) s1 [] = Done (lk_out 30) /\ run_program lk_prog (Some lk_vs) s5 [] = Done (lk_out 31).
Proof.
  cbv zeta. split; [split; reflexivity|].
  assert (G : forall a x, a <> 3%N -> store_balance (lk_store 100 7 30 5) a x = store_balance (lk_store 100 7 31 5) a x).
  { intros a x Ha. unfold store_balance, lk_store; cbn [st_bal]. rewrite !bal_get_cons. cbn [bal_get].
    destruct (N.eqb_spec a 3%N) as [E|_]; [contradiction|]. reflexivity. }
  split; [exact G|]. split.
  - intros a x Ha. cbn [lk_out ro_sources] in Ha. destruct Ha as [E|[]]. injection E as <-. apply G. discriminate.
  - split; vm_compute; reflexivity.
Qed.

(* (3) and (4) on the example: every hypothesis of C02_locks_reduce_to_posting_mode holds, so does its conclusion *)
Example C02_locks_posting_mode_example :
  let s1 := lk_store 100 7 30 5 in
  in_fragment lk_script = true /\ no_overdraft lk_script = true /\ vars_typed (p_res lk_prog) lk_vs /\ parse_typed s1 /\
  inputs_nofund lk_vs s1 /\
  proj 0%N [ {| p_src := 1%N; p_dst := 2%N; p_asset := 0%N; p_amount := 30 |} ] = [(1%N, 2%N, 30)] /\
  script_view s1 0%N [(1%N, 2%N, 30)] = [(1%N, 100); (2%N, 7)] /\
  EM.covers [(1%N, 100); (2%N, 7)] false [(1%N, 2%N, 30)] = true /\
  EM.covers (script_view (lk_store 29 7 30 5) 0%N [(1%N, 2%N, 30)]) false [(1%N, 2%N, 30)] = false.
Proof.
  cbv zeta. split; [vm_compute; reflexivity|]. split; [vm_compute; reflexivity|]. split; [|split; [|split]].
  - intros t name v I A. cbn [lk_prog p_res] in I.
    destruct I as [E|[E|[E|[E|[E|[E|[E|[]]]]]]]]; try discriminate. injection E as <- <-.
    vm_compute in A. injection A as <-. reflexivity.
  - intros t raw v H. unfold lk_store in H; cbn [st_parse parse_lookup] in H.
    destruct (vtype_eqb t TAccount && N.eqb raw 20) eqn:E; [|discriminate]. injection H as <-.
    apply andb_prop in E as [E _]. destruct t; try discriminate. reflexivity.
  - split.
    + intros name f A. unfold lk_vs in A. cbn [assoc_N] in A. destruct (N.eqb name 1); discriminate.
    + intros t raw f H. unfold lk_store in H; cbn [st_parse parse_lookup] in H.
      destruct (vtype_eqb t TAccount && N.eqb raw 20); discriminate.
  - repeat split; vm_compute; reflexivity.
Qed.

(* at the level of arbitrary PROGRAMS the funding disjunct of C02_locks_sources_cover_debits_gen cannot be dropped:
   a hand-made program (no compiler emits it) with a funding constant sends from account 9, which is in no lock set *)
Definition fund_prog : program :=
  {| p_code := [IPush 0; IPush 1; IOp OP_SEND];
     p_res := [RConst (VFunding {| f_asset := 0%N; f_parts := [(9%N, 50)] |}); RConst (VAccount 2%N)];
     p_sources := []; p_needed := []; p_vars := [] |}.
Example C02_locks_program_with_funding_constant_refuted :
  exists o r, run_program fund_prog (Some []) (lk_store 0 0 0 0) [] = Done o /\ ro_result o = Done r /\
    res_posts r = [ {| p_src := 9%N; p_dst := 2%N; p_asset := 0%N; p_amount := 50 |} ] /\
    ro_sources o = [] /\ ro_involved o = [2%N] /\ needed_in_sources fund_prog.
Proof. eexists. eexists. split; [vm_compute; reflexivity|]. split; [reflexivity|]. repeat split. intros k v []. Qed.

(* a funding smuggled in as the value of a declared variable of a COMPILED script
     vars { monetary $m }  send $m (source = @alice, destination = @bob)      with $m := the funding [(9, 50)]:
   the machine panics on the type assertion of OP_TAKE, no posting is produced -- consistent with the full statement,
   which is believed true (the Go SetVarsFromJSON cannot even build such a value) *)
Definition fv_script : script :=
  {| s_vars := [ {| vd_type := TMonetary; vd_name := 1%N; vd_orig := None |} ];
     s_stmts := [ StSend (SendMon (EVar 1%N)) (VSrc (SAccount (ELitAccount 1%N) OvNone)) (DAccount (ELitAccount 2%N)) ] |}.
Example C02_locks_funding_variable_panics :
  compile_and_run fv_script (Some [(1%N, VFunding {| f_asset := 0%N; f_parts := [(9%N, 50)] |})]) (lk_store 100 7 30 5) []
  = Done {| ro_involved := [1%N; 2%N]; ro_sources := [Some 1%N]; ro_result := Panic PPopType |}.
Proof. vm_compute. reflexivity. Qed.

(* ================================================================================================================ *)
(* evidence for the two statements left open (NOT a claim: a computed search for a counterexample, none found)       *)
(* ================================================================================================================ *)
(* [C02_locks_sources_cover_debits_full_statement] and [C02_locks_accepted_covered_full_statement] quantify over ill-typed
   inputs. Probe family: 37 statements covering every place where the compiler pushes a variable or takes its address
   (print, metadata, save, source account / overdraft / cap, amount, asset, allotment portion, destination, cap of a
   destination), the variable holding each of 15 values (three fundings, and values of every other type), alone and
   between two ordinary sends: 1110 compiled scripts run on a store where the smuggled account 9 is rich. *)
(* accounts: alice 1, bob 2, carol 3, nine 9; asset USD 0, EUR 1 *)
Definition F9 : value := VFunding {| f_asset := 0%N; f_parts := [(9%N, 50)] |}.
Definition usd (n : Z) : expr := ELitMonetary (ELitAsset 0%N) n.
Definition plain_send : stmt := StSend (SendMon (usd 5)) (VSrc (SAccount (ELitAccount 1%N) OvNone)) (DAccount (ELitAccount 2%N)).
Definition vd (t : vtype) : vardecl := {| vd_type := t; vd_name := 7%N; vd_orig := None |}.
Definition V : expr := EVar 7%N.
Definition half : aportion := APConst (Some (1, 2%positive)).

(* every place where the compiler pushes (or takes the address of) a variable *)
Definition contexts : list (vtype * stmt) :=
  [ (TAccount, StPrint V); (TAsset, StPrint V); (TNumber, StPrint V); (TString, StPrint V); (TMonetary, StPrint V); (TPortion, StPrint V);
    (TNumber, StPrint (EAddSub true V (ELitNumber 1))); (TMonetary, StPrint (EAddSub false V (usd 1)));
    (TMonetary, StTxMeta 5%N V); (TAccount, StTxMeta 5%N V); (TString, StAccMeta (ELitAccount 1%N) 5%N V); (TAccount, StAccMeta V 5%N (ELitNumber 1));
    (TMonetary, StSave (SendMon V) (ELitAccount 1%N)); (TAsset, StSave (SendAll V) (ELitAccount 1%N)); (TAccount, StSave (SendMon (usd 1)) V);
    (TAsset, StSave (SendMon (ELitMonetary V 1)) (ELitAccount 1%N));
    (TAccount, StSend (SendMon (usd 10)) (VSrc (SAccount V OvNone)) (DAccount (ELitAccount 2%N)));
    (TAccount, StSend (SendMon (usd 10)) (VSrc (SAccount V OvUnbounded)) (DAccount (ELitAccount 2%N)));
    (TMonetary, StSend (SendMon (usd 10)) (VSrc (SAccount (ELitAccount 1%N) (OvSpecific V))) (DAccount (ELitAccount 2%N)));
    (TAccount, StSend (SendAll (ELitAsset 0%N)) (VSrc (SAccount V OvNone)) (DAccount (ELitAccount 2%N)));
    (TMonetary, StSend (SendMon V) (VSrc (SAccount (ELitAccount 1%N) OvNone)) (DAccount (ELitAccount 2%N)));
    (TMonetary, StSend (SendMon V) (VSrc (SAccount (ELitAccount 1%N) OvUnbounded)) (DAccount (ELitAccount 2%N)));
    (TMonetary, StSend (SendMon (EAddSub true V (usd 1))) (VSrc (SAccount (ELitAccount 1%N) OvNone)) (DAccount (ELitAccount 2%N)));
    (TMonetary, StSend (SendMon (EAddSub true (usd 1) V)) (VSrc (SAccount (ELitAccount 1%N) OvNone)) (DAccount (ELitAccount 2%N)));
    (TAsset, StSend (SendMon (ELitMonetary V 10)) (VSrc (SAccount (ELitAccount 1%N) OvNone)) (DAccount (ELitAccount 2%N)));
    (TAsset, StSend (SendAll V) (VSrc (SAccount (ELitAccount 1%N) OvNone)) (DAccount (ELitAccount 2%N)));
    (TMonetary, StSend (SendMon (usd 10)) (VSrc (SMaxed V (SAccount (ELitAccount 1%N) OvNone))) (DAccount (ELitAccount 2%N)));
    (TAccount, StSend (SendMon (usd 10)) (VSrc (SInOrder [SAccount (ELitAccount 1%N) OvNone; SAccount V OvNone])) (DAccount (ELitAccount 2%N)));
    (TAccount, StSend (SendMon (usd 10)) (VSrc (SInOrder [SMaxed (usd 3) (SAccount V OvNone); SAccount (ELitAccount 1%N) OvNone])) (DAccount (ELitAccount 2%N)));
    (TMonetary, StSend (SendMon V) (VSrcAllot [(half, SAccount (ELitAccount 1%N) OvNone); (APRemaining, SAccount (ELitAccount 3%N) OvNone)]) (DAccount (ELitAccount 2%N)));
    (TPortion, StSend (SendMon (usd 10)) (VSrcAllot [(APVar 7%N, SAccount (ELitAccount 1%N) OvNone); (APRemaining, SAccount (ELitAccount 3%N) OvNone)]) (DAccount (ELitAccount 2%N)));
    (TAccount, StSend (SendMon (usd 10)) (VSrcAllot [(half, SAccount V OvNone); (APRemaining, SAccount (ELitAccount 3%N) OvNone)]) (DAccount (ELitAccount 2%N)));
    (TAccount, StSend (SendMon (usd 10)) (VSrc (SAccount (ELitAccount 1%N) OvNone)) (DAccount V));
    (TMonetary, StSend (SendMon (usd 10)) (VSrc (SAccount (ELitAccount 1%N) OvNone)) (DInOrder [(V, KTo (DAccount (ELitAccount 2%N)))] (KTo (DAccount (ELitAccount 3%N)))));
    (TAccount, StSend (SendMon (usd 10)) (VSrc (SAccount (ELitAccount 1%N) OvNone)) (DInOrder [(usd 4, KTo (DAccount V))] Kept));
    (TPortion, StSend (SendMon (usd 10)) (VSrc (SAccount (ELitAccount 1%N) OvNone)) (DAllot [(APVar 7%N, KTo (DAccount (ELitAccount 2%N))); (APRemaining, KTo (DAccount (ELitAccount 3%N)))]));
    (TAccount, StSend (SendMon (usd 10)) (VSrc (SAccount (ELitAccount 1%N) OvNone)) (DAllot [(half, KTo (DAccount V)); (APRemaining, Kept)])) ].

(* ill-typed values to put in the variable *)
Definition bad_values : list value :=
  [ F9; VFunding {| f_asset := 0%N; f_parts := [(1%N, 50)] |}; VFunding {| f_asset := 0%N; f_parts := [] |};
    VAccount 9%N; VAccount 1%N; VAsset 0%N; VAsset 1%N; VNumber 3; VString 4%N; VMonetary 0%N 7; VMonetary 1%N 7; VMonetary 0%N (-7);
    VPortion (PSpecific (1, 3%positive)); VPortion PRemaining; VAllotment [(1, 2%positive); (1, 2%positive)] ].

Definition probe_store : store :=
  {| st_bal := [(1%N, 0%N, 100); (2%N, 0%N, 7); (3%N, 0%N, 30); (9%N, 0%N, 1000); (1%N, 1%N, 40)]; st_meta := []; st_parse := [] |}.

Definition probes : list (script * list (N * value)) :=
  flat_map (fun c => flat_map (fun v =>
     [ ({| s_vars := [vd (fst c)]; s_stmts := [snd c] |}, [(7%N, v)]);
       ({| s_vars := [vd (fst c)]; s_stmts := [plain_send; snd c; plain_send] |}, [(7%N, v)]) ]) bad_values) contexts.

Definition all_assets (ps : list posting) : list asset := map p_asset ps.
Definition probe_ok (pr : script * list (N * value)) : bool :=
  match compile_and_run (fst pr) (Some (snd pr)) probe_store [] with
  | Done o =>
      match ro_result o with
      | Done r =>
          forallb (fun q => existsb (oacc_eqb (Some (p_src q))) (ro_sources o)) (res_posts r) &&
          forallb (fun q => existsb (N.eqb (p_src q)) (ro_involved o) && existsb (N.eqb (p_dst q)) (ro_involved o)) (res_posts r) &&
          (negb (no_overdraft (fst pr)) ||
           forallb (fun x => EM.covers (script_view probe_store x (proj x (res_posts r))) false (proj x (res_posts r))) (all_assets (res_posts r)))
      | _ => true
      end
  | _ => true
  end.
Definition count_done (l : list (script * list (N * value))) : nat :=
  length (filter (fun pr => match compile_and_run (fst pr) (Some (snd pr)) probe_store [] with
                            | Done o => match ro_result o with Done r => negb (match res_posts r with [] => true | _ => false end) | _ => false end
                            | _ => false end) l).

(* all 1110 compile; 204 runs end in [Done] with postings; in none of them is a posting's source outside [ro_sources], an
   end outside [ro_involved], or [covers] false on some asset (for the scripts without overdraft clause) *)
Example C02_locks_full_statements_probe_evidence :
  length probes = 1110%nat /\ count_done probes = 204%nat /\ filter (fun pr => negb (probe_ok pr)) probes = [].
Proof. vm_compute. auto. Qed.

(* a run CAN succeed with a funding value in the resource table: OP_PRINT takes any value. So the open statement is not
   "a funding input never reaches Done" but a dataflow fact: no pop_funding site of compiled code is fed by a pushed
   resource. Here: vars { monetary $v }  send [USD 5] (alice -> bob); print $v; send [USD 5] (alice -> bob) *)
Example C02_locks_printed_funding_survives :
  exists o r, compile_and_run {| s_vars := [vd TMonetary]; s_stmts := [plain_send; StPrint V; plain_send] |}
                (Some [(7%N, F9)]) probe_store [] = Done o /\ ro_result o = Done r /\
    res_printed r = [F9] /\ ro_sources o = [Some 1%N] /\
    res_posts r = [ {| p_src := 1%N; p_dst := 2%N; p_asset := 0%N; p_amount := 5 |};
                    {| p_src := 1%N; p_dst := 2%N; p_asset := 0%N; p_amount := 5 |} ].
Proof. eexists. eexists. split; [vm_compute; reflexivity|]. repeat split. Qed.

(* type confusion that does reach the balances: `save $v from @alice` compiled for a MONETARY $v, run with $v := the asset
   EUR, executes as `save [EUR *] from @alice` (OP_SAVE dispatches on the run-time type). It only lowers what the machine
   may take, so no floor is endangered; the real SetVarsFromJSON rejects such a value. *)
Example C02_locks_save_type_confusion :
  exists o r, compile_and_run {| s_vars := [vd TMonetary]; s_stmts := [StSave (SendMon V) (ELitAccount 1%N);
                  StSend (SendAll (ELitAsset 1%N)) (VSrc (SAccount (ELitAccount 1%N) OvNone)) (DAccount (ELitAccount 2%N))] |}
                (Some [(7%N, VAsset 1%N)]) probe_store [] = Done o /\ ro_result o = Done r /\
    res_posts r = [ {| p_src := 1%N; p_dst := 2%N; p_asset := 1%N; p_amount := 0 |} ] /\
    store_balance probe_store 1%N 1%N = 40.
Proof. eexists. eexists. split; [vm_compute; reflexivity|]. repeat split. Qed.
