(* C03 — A send moves exactly what it says.
   Only the property theorems live here; each is closed by [exact <lemma>] and followed by Print Assumptions.
   Everything is over unbounded Z, all lists, all source / destination trees, all balance tables and variable
   environments. Model: Numscript/{Funding,VM,Syntax,Sem}.v (frozen, validated against the real compiler + VM);
   readable specification: Numscript/Spec.v; proofs: Numscript/{FundingProofs,C03Proofs}.v.

   Vocabulary (FundingProofs / C03Proofs):
     fnonneg f, funits f      funding with non-negative parts; the funding as a sequence of unit coins (account labels)
     posts_total / posts_nonneg / post_units / post_dunits / post_pairs
                              sum of the amounts / all amounts >= 0 / the postings as coins: sources, destinations, both
     send_funding             the first phase of sem_send (what the sources hand over; sem_send_eq is by computation)
     no_kept d, dest_exact ve d   d contains no `kept`; every portioned node of d is exact (has `remaining` or sums to 1:
                              what the compiler's VisitAllotment enforces)                                        *)
From Coq Require Import ZArith List Bool.
From FL Require Import Numscript.Sem Numscript.Spec Numscript.FundingProofs Numscript.C03Proofs.
Import ListNotations.
Open Scope Z_scope.

(* ================================================================================================== *)
(** (d) allotment arithmetic *)

(* for ratios >= 0 that sum to 1 and an amount >= 0: the shares sum to the amount, there is one per ratio, each is
   the floored fraction plus one unit for the first [leftover] entries, the leftover is smaller than the number of
   entries (so the single +1 pass of the Go loop suffices), and no share is negative *)
Theorem C03_allocate_spec : forall (a : list ratio) amount,
  Forall (fun q : ratio => 0 <= fst q) a -> ratio_is_one (ratio_sum a) -> 0 <= amount ->
  let floors := map (floor_share amount) a in
  let leftover := amount - sumZ floors in
  sumZ (allocate a amount) = amount /\
  length (allocate a amount) = length a /\
  0 <= leftover < Z.of_nat (length a) /\
  (forall i, (i < length a)%nat ->
     nth i (allocate a amount) 0 = floor_share amount (nth i a ratio_zero) + (if Z.of_nat i <? leftover then 1 else 0)) /\
  Forall (fun x => 0 <= x) (allocate a amount).
Proof. exact allocate_spec. Qed.
Print Assumptions C03_allocate_spec.

(* NewAllotment: with `remaining` (or specific portions already summing to 1) the result sums to exactly 1,
   has one ratio per portion and no negative ratio *)
Theorem C03_new_allotment : forall ps a, new_allotment ps = inr a ->
  Forall portion_nonneg ps ->
  length a = length ps /\
  Forall (fun q : ratio => 0 <= fst q) a /\
  (((1 <= count_remaining ps)%nat \/ req (sum_specific ps) ratio_one) -> ratio_is_one (ratio_sum a)).
Proof. exact new_allotment_spec. Qed.
Print Assumptions C03_new_allotment.

(* Go's big.Rat is normalised, the model's pair is not: the share depends only on the rational value *)
Theorem C03_floor_share_scaling : forall amount p q, req p q -> floor_share amount p = floor_share amount q.
Proof. exact floor_share_req. Qed.
Print Assumptions C03_floor_share_scaling.

(* ================================================================================================== *)
(** (a)/(b) funding algebra *)

Theorem C03_take_loop_conservation : forall ps n t r m, take_loop n ps = (t, r, m) ->
  total_parts t + total_parts r = total_parts ps.
Proof. exact take_loop_total. Qed.
Print Assumptions C03_take_loop_conservation.

Theorem C03_take_loop_spec : forall ps n t r m, take_loop n ps = (t, r, m) -> 0 <= n -> nonneg_parts ps ->
  nonneg_parts t /\ nonneg_parts r /\ m = Z.max 0 (n - total_parts ps) /\
  total_parts t = n - m /\ total_parts r = total_parts ps - (n - m) /\ units t ++ units r = units ps.
Proof. exact take_loop_spec. Qed.
Print Assumptions C03_take_loop_spec.

Theorem C03_take : forall f n res rem, take f n = Some (res, rem) -> fnonneg f ->
  0 <= n /\ total res = n /\ total rem = total f - n /\ fnonneg res /\ fnonneg rem /\
  funits res ++ funits rem = funits f /\ f_asset res = f_asset f /\ f_asset rem = f_asset f.
Proof. exact take_some. Qed.
Print Assumptions C03_take.

Theorem C03_take_fails_iff : forall f n, fnonneg f -> (take f n = None <-> total f < n \/ n < 0).
Proof. exact take_none_iff. Qed.
Print Assumptions C03_take_fails_iff.

Theorem C03_take_max : forall f n res rem, take_max f n = (res, rem) -> 0 <= n -> fnonneg f ->
  total res = Z.min n (total f) /\ total rem = total f - Z.min n (total f) /\ fnonneg res /\ fnonneg rem /\
  funits res ++ funits rem = funits f /\ f_asset res = f_asset f /\ f_asset rem = f_asset f.
Proof. exact take_max_spec. Qed.
Print Assumptions C03_take_max.

Theorem C03_concat : forall l1 l2,
  total_parts (concat_parts l1 l2) = total_parts l1 + total_parts l2 /\
  (nonneg_parts l1 -> nonneg_parts l2 ->
   nonneg_parts (concat_parts l1 l2) /\ units (concat_parts l1 l2) = units l1 ++ units l2).
Proof.
  exact (fun l1 l2 => conj (concat_parts_total l1 l2)
           (fun H1 H2 => conj (concat_parts_nonneg l1 l2 H1 H2) (concat_parts_units l1 l2 H1 H2))).
Qed.
Print Assumptions C03_concat.

Theorem C03_reverse : forall f,
  total (freverse f) = total f /\ funits (freverse f) = rev (funits f) /\ (fnonneg f -> fnonneg (freverse f)).
Proof. exact (fun f => conj (freverse_total f) (conj (freverse_units f) (freverse_nonneg f))). Qed.
Print Assumptions C03_reverse.

Theorem C03_assemble : forall fs r, assemble fs = SOk r ->
  fs <> [] /\ Forall (fun f => f_asset f = f_asset r) fs /\ total r = sumZ (map total fs) /\
  (Forall fnonneg fs -> fnonneg r /\ funits r = concat (map funits fs)).
Proof. exact assemble_spec. Qed.
Print Assumptions C03_assemble.

(* ================================================================================================== *)
(** (a) conservation, (b) non-negativity — per send *)

(* the anatomy of every successful send: the sources produce f without emitting a posting; the destination
   turns f into the postings [new] (all >= 0, all of f's asset) and a leftover [lo] >= 0, which is repaid;
   the coins of f are, in order, those the postings moved followed by those left over; in particular
   total(new) + total(lo) = total(f); and a destination without `kept` (exact portions) leaves nothing over *)
Theorem C03_send_anatomy : forall ve m src d st st',
  sem_send ve m src d st = SOk st' ->
  exists f st1 lo st2 new,
    send_funding ve m src st = SOk (f, st1) /\ sem_dest ve d f st1 = SOk (lo, st2) /\ do_repay st2 lo = SOk st' /\
    s_posts st' = s_posts st ++ new /\
    posts_nonneg new /\ Forall (fun p => p_asset p = f_asset f) new /\
    fnonneg f /\ fnonneg lo /\
    post_units new ++ funits lo = funits f /\
    posts_total new + total lo = total f /\
    (no_kept d = true -> dest_exact ve d -> total lo = 0 /\ posts_total new = total f).
Proof. exact send_anatomy. Qed.
Print Assumptions C03_send_anatomy.

(* the exactness hypothesis has a syntactic sufficient condition, the one the compiler checks (VisitAllotment):
   every portioned node has a `remaining` entry or consists of literal portions summing to 1 *)
Theorem C03_static_exact : forall ve,
  (forall ps, static_exact ps = true -> allot_exact ve ps) /\
  (forall d, dest_static_exact d = true -> dest_exact ve d).
Proof. exact (fun ve => conj (static_exact_ok ve) (dest_static_exact_ok ve)). Qed.
Print Assumptions C03_static_exact.

(* ... and the compiler enforces it: in a script that compile accepts, every send has exact portioned sources and
   destinations, whatever the variable values. So for compiled scripts dest_exact / src_exact are no assumptions. *)
Theorem C03_compiler_enforces_exactness : forall sc p m src d ve,
  compile sc = Some p -> In (StSend m src d) (s_stmts sc) -> src_exact ve src /\ dest_exact ve d.
Proof. exact compiled_send_exact. Qed.
Print Assumptions C03_compiler_enforces_exactness.

(* a send that states [A n]: 0 <= n, the destination receives exactly n, postings + kept = n, and without `kept`
   the postings sum to exactly n. (src_exact: a portioned source is exact, as the compiler guarantees.) *)
Theorem C03_conservation_stated : forall ve e src d st st' ms n,
  sem_send ve (SendMon e) src d st = SOk st' -> eval_monetary ve e = SOk (ms, n) -> src_exact ve src ->
  exists f st1 lo st2 new,
    send_funding ve (SendMon e) src st = SOk (f, st1) /\ sem_dest ve d f st1 = SOk (lo, st2) /\
    do_repay st2 lo = SOk st' /\ s_posts st' = s_posts st ++ new /\
    0 <= n /\ total f = n /\ 0 <= total lo /\
    posts_total new + total lo = n /\
    Forall (fun p => p_asset p = ms) new /\
    (no_kept d = true -> dest_exact ve d -> total lo = 0 /\ posts_total new = n).
Proof. exact send_conservation_stated. Qed.
Print Assumptions C03_conservation_stated.

(* `send [A *]`: postings + kept = everything the sources provide ... *)
Theorem C03_conservation_all : forall ve ae s d st st',
  sem_send ve (SendAll ae) (VSrc s) d st = SOk st' ->
  exists a f st1 lo st2 new,
    eval_asset ve ae = SOk a /\ sem_source ve a s st = SOk (f, st1) /\ sem_dest ve d f st1 = SOk (lo, st2) /\
    do_repay st2 lo = SOk st' /\ s_posts st' = s_posts st ++ new /\
    posts_total new + total lo = total f /\ 0 <= total lo /\
    (no_kept d = true -> dest_exact ve d -> total lo = 0 /\ posts_total new = total f).
Proof. exact send_conservation_all. Qed.
Print Assumptions C03_conservation_all.

(* ... where what the sources provide is: an account gives max 0 (balance + overdraft) (the machine's view of
   the balance), ... *)
Theorem C03_capacity_account : forall ve za acc ov st f st1,
  sem_source ve za (SAccount acc ov) st = SOk (f, st1) ->
  exists a oa oamt bal, eval_account ve acc = SOk a /\
    match ov with OvSpecific e => eval_monetary ve e = SOk (oa, oamt) | _ => oa = za /\ oamt = 0 end /\
    bal_get (s_bals st) a oa = Some bal /\
    f = {| f_asset := oa; f_parts := [(a, Z.max 0 (bal + oamt))] |}.
Proof. exact source_account_total. Qed.
Print Assumptions C03_capacity_account.

(* ... an ordered source gives the concatenation of its members' fundings, each member evaluated in the state its
   predecessors left (src_seq), ... *)
Theorem C03_capacity_inorder : forall ve za srcs st f st1,
  sem_source ve za (SInOrder srcs) st = SOk (f, st1) ->
  exists fs, src_seq ve za srcs st fs st1 /\ Forall fnonneg fs /\
    funits f = concat (map funits fs) /\ total f = sumZ (map total fs).
Proof. exact source_inorder_units. Qed.
Print Assumptions C03_capacity_inorder.

(* ... and (c) `max m from S` gives at most m: min(m, what S gives), or exactly m when S has a fallback account
   (@world / unbounded overdraft) *)
Theorem C03_cap_source : forall ve za max src st f st1,
  sem_source ve za (SMaxed max src) st = SOk (f, st1) ->
  exists ms mamt, eval_monetary ve max = SOk (ms, mamt) /\ 0 <= mamt /\ total f <= mamt /\
    (fallback_of src <> None -> total f = mamt) /\
    (forall f0 st0, sem_source ve za src st = SOk (f0, st0) -> total f = Z.min mamt (total f0) \/ fallback_of src <> None).
Proof. exact source_cap. Qed.
Print Assumptions C03_cap_source.

Theorem C03_source_nonneg : forall ve s za st f st1,
  sem_source ve za s st = SOk (f, st1) -> fnonneg f /\ s_posts st1 = s_posts st.
Proof. exact (fun ve s => sem_source_ok ve s). Qed.
Print Assumptions C03_source_nonneg.

(* (b) for whole scripts: no script ever produces a negative posting *)
Theorem C03_nonneg : forall sc ve b extra r, sem sc ve b extra = SOk r -> posts_nonneg (res_posts r).
Proof. exact sem_posts_nonneg. Qed.
Print Assumptions C03_nonneg.

(* ================================================================================================== *)
(** (c) caps on destinations, shares of portioned destinations *)

(* ordered destination: entry i receives (postings + kept) at most max_i; what the entries kept plus what the
   `remaining` branch kept is the leftover; the `remaining` branch receives the rest of the amount *)
Theorem C03_cap_dest : forall ve l k f st lo st',
  sem_dest ve (DInOrder l k) f st = SOk (lo, st') -> fnonneg f ->
  exists (ers : list entry_result) (rest : entry_result),
    s_posts st' = s_posts st ++ concat (map fst ers) ++ fst rest /\
    Forall2 (fun er ek => exists ms mamt, eval_monetary ve (fst ek) = SOk (ms, mamt) /\ 0 <= mamt /\
                                          er_total er <= mamt /\ 0 <= snd er /\
                                          (kod_no_kept (snd ek) = true -> kod_exact ve (snd ek) -> snd er = 0)) ers l /\
    er_total rest = total f - sumZ (map er_total ers) /\ 0 <= snd rest /\
    total lo = sumZ (map snd ers) + snd rest.
Proof. exact dest_inorder_caps. Qed.
Print Assumptions C03_cap_dest.

(* portioned destination: the entries receive (postings + kept) exactly [allocate a (total f)] *)
Theorem C03_dest_shares : forall ve l f st lo st',
  sem_dest ve (DAllot l) f st = SOk (lo, st') -> fnonneg f ->
  exists a (ers : list entry_result),
    make_allotment ve (map fst l) = SOk a /\
    s_posts st' = s_posts st ++ concat (map fst ers) /\
    map er_total ers = allocate a (total f) /\
    Forall (fun er => 0 <= snd er) ers /\
    total lo = total f - sumZ (allocate a (total f)) + sumZ (map snd ers) /\
    (allot_exact ve (map fst l) -> total lo = sumZ (map snd ers)) /\
    Forall2 (fun er pk => kod_no_kept (snd pk) = true -> kod_exact ve (snd pk) -> snd er = 0) ers l.
Proof. exact dest_allot_shares. Qed.
Print Assumptions C03_dest_shares.

(* ================================================================================================== *)
(** (e) order *)

(* ordered sources, stated amount: the coins moved are a prefix of (coins of s1) ++ (coins of s2) ++ ... ++ (coins
   of the fallback account); member i contributes [nth i c]; a later member (or the fallback) contributes only
   when every earlier member has given its whole funding *)
Theorem C03_order_sources_stated : forall ve e srcs d st st',
  sem_send ve (SendMon e) (VSrc (SInOrder srcs)) d st = SOk st' ->
  exists new za ms n fs st0 f0,
    s_posts st' = s_posts st ++ new /\
    eval_monetary ve e = SOk (ms, n) /\
    src_seq ve za srcs st fs st0 /\ sem_source ve za (SInOrder srcs) st = SOk (f0, st0) /\
    let Us := map funits fs ++ [repeat (fb_account ve (fallback_of (SInOrder srcs))) (Z.to_nat (n - total f0))] in
    let c := contrib (Z.to_nat (posts_total new)) Us in
    post_units new = concat c /\
    (forall i j, (i < j)%nat -> nth j c [] <> [] -> nth i c [] = nth i Us []).
Proof. exact send_order_stated. Qed.
Print Assumptions C03_order_sources_stated.

Theorem C03_order_sources_all : forall ve ae srcs d st st',
  sem_send ve (SendAll ae) (VSrc (SInOrder srcs)) d st = SOk st' ->
  exists new a fs st0,
    s_posts st' = s_posts st ++ new /\ eval_asset ve ae = SOk a /\ src_seq ve a srcs st fs st0 /\
    let Us := map funits fs in
    let c := contrib (Z.to_nat (posts_total new)) Us in
    post_units new = concat c /\
    (forall i j, (i < j)%nat -> nth j c [] <> [] -> nth i c [] = nth i Us []).
Proof. exact send_order_all. Qed.
Print Assumptions C03_order_sources_all.

(* `max` clips to a prefix of the inner source's coins *)
Theorem C03_order_source_max : forall ve za max src st f st1,
  sem_source ve za (SMaxed max src) st = SOk (f, st1) ->
  exists f0 st0 ms mamt, sem_source ve za src st = SOk (f0, st0) /\ eval_monetary ve max = SOk (ms, mamt) /\
    funits f = firstn (Z.to_nat mamt) (funits f0) ++
               match fallback_of src with
               | Some _ => repeat (fb_account ve (fallback_of src)) (Z.to_nat (mamt - total f0))
               | None => []
               end.
Proof. exact source_maxed_units. Qed.
Print Assumptions C03_order_source_max.

(* every source computes exactly the parts (and balance table) Spec.source_parts gives from AST + balances *)
Theorem C03_source_refines_spec : forall ve s za st f st1,
  sem_source ve za s st = SOk (f, st1) -> source_parts ve za s (s_bals st) = SOk (f_parts f, s_bals st1).
Proof. exact (fun ve s => sem_source_parts ve s). Qed.
Print Assumptions C03_source_refines_spec.

(* every destination sends exactly [flow] of the funding it is given over the demands Spec.demands computes,
   coin by coin, and returns the specified kept amount as the tail of the funding. `kept` included. *)
Theorem C03_dest_refines_spec : forall ve d f st lo st',
  sem_dest ve d f st = SOk (lo, st') -> fnonneg f ->
  exists new ds kp,
    s_posts st' = s_posts st ++ new /\
    demands ve d (total f) = SOk (ds, kp) /\
    total lo = kp /\
    post_pairs new = move_pairs (flow (f_parts f) ds) /\
    funits lo = skipn (Z.to_nat (total f - kp)) (funits f).
Proof. exact sem_dest_refines_spec. Qed.
Print Assumptions C03_dest_refines_spec.

(* flow pairs the coins of the parts with the coins of the demands position by position *)
Theorem C03_flow_meaning : forall ds ps, nonneg_parts ps -> move_pairs (flow ps ds) = combine (units ps) (dunits ds).
Proof. exact flow_pairs. Qed.
Print Assumptions C03_flow_meaning.

(* (e), the refinement Sem ⊑ Spec for every send that succeeds (any source shape incl. portioned sources, any
   destination shape incl. `kept`): the k-th coin moved comes from the account of the k-th coin the sources provide
   and goes to the account of the k-th coin demanded. It is named _partial because it identifies the postings up to
   how consecutive coins with the same (source, destination) are grouped into postings (and zero postings); see
   C03_order_full_statement. *)
Theorem C03_order_partial : forall ve m src d st st',
  sem_send ve m src d st = SOk st' ->
  exists new mvs,
    s_posts st' = s_posts st ++ new /\
    spec_send ve m src d (s_bals st) = SOk mvs /\
    post_pairs new = move_pairs mvs.
Proof. exact send_refines_spec_send. Qed.
Print Assumptions C03_order_partial.

(* the same on posting lists: after dropping zero-amount moves and merging adjacent moves with the same source and
   destination (norm_moves; its defining equations are C03_norm_moves_meaning), the postings of the send ARE the
   flow of the specification *)
Theorem C03_order_normalised_partial : forall ve m src d st st',
  sem_send ve m src d st = SOk st' ->
  exists new mvs,
    s_posts st' = s_posts st ++ new /\
    spec_send ve m src d (s_bals st) = SOk mvs /\
    norm_moves (map posting_move new) = norm_moves mvs.
Proof. exact send_refines_spec_normalised. Qed.
Print Assumptions C03_order_normalised_partial.

Theorem C03_norm_moves_meaning :
  norm_moves [] = [] /\
  forall s d n r, norm_moves ((s, d, n) :: r) = if n <=? 0 then norm_moves r else merge_move (s, d, n) (norm_moves r).
Proof. exact (conj norm_moves_nil norm_moves_cons). Qed.
Print Assumptions C03_norm_moves_meaning.

(* the full (e) of DESIGN 5-C03: equality of the posting LIST with [flow], modulo zero-amount postings only.
   Not proved (and not refuted): what is missing over C03_order_normalised_partial is only the segmentation -- that
   the implementation cuts a run of coins with equal (source, destination) into postings at the same places as
   [flow] does on [send_parts] (this depends on where Funding.Concat merges adjacent parts of one account). *)
Definition nonzero_moves (l : list move) : list move := filter (fun m => negb (snd m =? 0)) l.
Definition C03_order_full_statement : Prop :=
  forall ve m src d st st',
  sem_send ve m src d st = SOk st' ->
  exists new mvs,
    s_posts st' = s_posts st ++ new /\
    spec_send ve m src d (s_bals st) = SOk mvs /\
    nonzero_moves (map posting_move new) = nonzero_moves mvs.

(* ================================================================================================== *)
(** Examples (non-vacuity) and documented witnesses *)

Definition USD : asset := 1%N.
Definition alice : account := 1%N.
Definition bob : account := 2%N.
Definition carol : account := 3%N.
Definition dave : account := 4%N.
Definition mon (n : Z) : expr := ELitMonetary (ELitAsset USD) n.
Definition acc (a : account) : expr := ELitAccount a.
Definition state_of (b : balances) : sstate :=
  {| s_bals := b; s_posts := []; s_txmeta := []; s_accmeta := []; s_printed := [] |}.
Definition post (s d : account) (n : Z) : posting := {| p_src := s; p_dst := d; p_asset := USD; p_amount := n |}.

(* send [USD 10] (source = { @alice @bob }  destination = { 1/3 to @carol  remaining kept }):
   alice has 7, bob 5: 10 = 7 + 3 is taken; carol's share of 10 is floor(10/3)+1 = 4, paid by alice (the earliest
   coins); 6 are kept and go back (alice 3, bob 3 -> bob ends with 5 again) *)
Example C03_example_success :
  let d := DAllot [(APConst (Some (1, 3%positive)), KTo (DAccount (acc carol))); (APRemaining, Kept)] in
  let st := state_of [(alice, USD, 7); (bob, USD, 5); (carol, USD, 0)] in
  exists st', sem_send [] (SendMon (mon 10)) (VSrc (SInOrder [SAccount (acc alice) OvNone; SAccount (acc bob) OvNone])) d st
              = SOk st' /\
    s_posts st' = [post alice carol 4] /\
    s_bals st' = [(alice, USD, 3); (bob, USD, 5); (carol, USD, 4)] /\
    spec_send [] (SendMon (mon 10)) (VSrc (SInOrder [SAccount (acc alice) OvNone; SAccount (acc bob) OvNone])) d (s_bals st)
      = SOk [(alice, carol, 4)].
Proof. vm_compute. eexists. repeat split. Qed.

(* ordered sources + ordered destination with caps, nothing kept: bob pays only after alice is empty *)
Example C03_example_order :
  let d := DInOrder [(mon 8, KTo (DAccount (acc carol)))] (KTo (DAccount (acc dave))) in
  let st := state_of [(alice, USD, 7); (bob, USD, 5); (carol, USD, 0); (dave, USD, 0)] in
  exists st', sem_send [] (SendMon (mon 10)) (VSrc (SInOrder [SAccount (acc alice) OvNone; SAccount (acc bob) OvNone])) d st
              = SOk st' /\
    s_posts st' = [post alice carol 7; post bob carol 1; post bob dave 2] /\
    no_kept d = true /\ dest_static_exact d = true.
Proof. vm_compute. eexists. repeat split. Qed.

(* the hypotheses of allocate_spec are satisfiable: 1/3, 1/3, 1/3 of 10 -> 4, 3, 3 *)
Example C03_example_allocate :
  let a := [(1, 3%positive); (1, 3%positive); (1, 3%positive)] in
  ratio_is_one (ratio_sum a) /\ allocate a 10 = [4; 3; 3].
Proof. vm_compute. split; reflexivity. Qed.

(* Documented witness for C08's known finding F-C08c (over-commit): an ordered destination with a `kept` entry
   before a larger `max` entry makes the send FAIL although @world can always pay:
     send [USD 10] (source = @world  destination = { max [USD 5] kept   max [USD 8] to @bob   remaining to @carol })
   the second entry is offered min(8, 5 left + 5 kept) = 8 instead of min(8, 5) = 5, so 13 > 10 are committed and
   the final Take of the kept total fails. C03 speaks about sends that succeed, so this does not contradict C03;
   the specification gives bob 5 and carol 0. *)
Example C03_overcommit_example :
  let d := DInOrder [(mon 5, Kept); (mon 8, KTo (DAccount (acc bob)))] (KTo (DAccount (acc carol))) in
  let st := state_of [(world, USD, 0)] in
  sem_send [] (SendMon (mon 10)) (VSrc (SAccount (acc world) OvNone)) d st = SErr EInsufficient /\
  spec_send [] (SendMon (mon 10)) (VSrc (SAccount (acc world) OvNone)) d (s_bals st) = SOk [(world, bob, 5)].
Proof. vm_compute. split; reflexivity. Qed.

(* Why [dest_exact] / [src_exact] are hypotheses of the `nothing is left over` clauses: Sem alone (without the
   compiler's static check "the sum of portions might be less than 100%") accepts a variable portion that makes
   the sum < 1; then part of the amount is silently not sent (and repaid). The compiler rejects this script. *)
Example C03_exactness_needed_example :
  let ve := [(7%N, VPortion (PSpecific (1, 4%positive)))] in
  let d := DAllot [(APVar 7%N, KTo (DAccount (acc bob))); (APConst (Some (1, 2%positive)), KTo (DAccount (acc carol)))] in
  let st := state_of [(world, USD, 0); (bob, USD, 0); (carol, USD, 0)] in
  no_kept d = true /\ dest_static_exact d = false /\
  exists st', sem_send ve (SendMon (mon 100)) (VSrc (SAccount (acc world) OvNone)) d st = SOk st' /\
              s_posts st' = [post world bob 26; post world carol 51].
Proof. vm_compute. split; [reflexivity|]. split; [reflexivity|]. eexists. split; reflexivity. Qed.
