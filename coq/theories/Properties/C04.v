(* C04 — What the read API reports is the replay of the log.
   Only the property theorems live here; each is closed by [exact <lemma>] and followed by Print Assumptions.

   [run L = Some d]: the bucket's tables after PostgreSQL accepted the log entries [L] (any ledgers interleaved), by the
   model M4 of 0-init-schema.sql (Storage/Model.v); [ledger_logs l L]: the entries of ledger [l]; the right-hand sides
   are the oracle of Storage/Replay.v (an independent fold over that ledger's entries).

   The model is faithful to the SQL, and the SQL is wrong on some classes of histories. For those the full statement
   is kept visible as a [Definition ..._statement], refuted by a witness ([..._refuted]), and proved under an
   executable hypothesis that excludes exactly the class ([..._partial]). *)
From FL Require Import Storage.Model Storage.Abs Storage.Refine Storage.Reads Storage.Replay Storage.Proofs Storage.Main.
Local Open Scope Z_scope.

(* ---- isolation: no exclusion ------------------------------------------------------------------------------------------------ *)
(* every ledger-scoped read (assets, volumes, effective volumes, balance, both aggregates, the volumes of a transaction,
   account metadata now / as of a date, a transaction now / as of a date) is a function of that ledger's own entries *)
Theorem C04_reads_depend_on_own_log : forall L d l q, run L = Some d -> read d l q = mread (ledger_logs l L) q.
Proof. exact read_run. Qed.
Print Assumptions C04_reads_depend_on_own_log.

(* inserting or removing an entry of another ledger anywhere in the history changes no read of ledger [l] *)
Theorem C04_isolation : forall L1 e L2 l d1 d2 q,
  l_ledger e <> l -> run (L1 ++ e :: L2) = Some d1 -> run (L1 ++ L2) = Some d2 -> read d1 l q = read d2 l q.
Proof. exact storage_isolation. Qed.
Print Assumptions C04_isolation.

(* ---- volumes and balance ------------------------------------------------------------------------------------------------------- *)
Definition C04_volumes_statement : Prop := forall L l d a pit,
  run L = Some d -> (pit <> None -> dates_monotone (ledger_logs l L) = true) ->
  get_all_account_volumes d l a pit = vols_of (replay_volumes (ledger_logs l L) a pit).

Theorem C04_volumes_refuted : ~ C04_volumes_statement.
Proof.
  intros S. destruct c04_volumes_refuted as [L [l [d [a [H Hne]]]]]. apply Hne. apply S; [exact H|]. intros C; congruence.
Qed.
Print Assumptions C04_volumes_refuted.

Theorem C04_volumes_partial : forall L l d a pit,
  run L = Some d ->
  no_self_transfer_on_new_account (ledger_logs l L) = true ->
  (pit <> None -> dates_monotone (ledger_logs l L) = true) ->
  get_all_account_volumes d l a pit = vols_of (replay_volumes (ledger_logs l L) a pit).
Proof. exact c04_volumes_partial. Qed.
Print Assumptions C04_volumes_partial.

Definition C04_balance_statement : Prop := forall L l d a s,
  run L = Some d -> get_account_balance d l a s None = replay_balance (ledger_logs l L) a s.

Theorem C04_balance_refuted : ~ C04_balance_statement.
Proof. intros S. destruct c04_balance_refuted as [L [l [d [a [s [H Hne]]]]]]. apply Hne. apply S. exact H. Qed.
Print Assumptions C04_balance_refuted.

Theorem C04_balance_partial : forall L l d a s,
  run L = Some d -> no_self_transfer_on_new_account (ledger_logs l L) = true ->
  get_account_balance d l a s None = replay_balance (ledger_logs l L) a s.
Proof. exact c04_balance_partial. Qed.
Print Assumptions C04_balance_partial.

(* ---- double entry: for every asset (and date) the inputs the read API reports, summed over the accounts of the ledger,
   equal the outputs ---------------------------------------------------------------------------------------------------------- *)
Definition C04_double_entry_statement : Prop := forall L l d accts s,
  run L = Some d -> NoDup accts -> (forall r, In r (d_acc d) -> a_ledger r = l -> In (a_addr r) accts) ->
  total_in d l accts s None = total_out d l accts s None.

Theorem C04_double_entry_refuted : ~ C04_double_entry_statement.
Proof.
  intros S. destruct c04_double_entry_refuted as [L [l [d [accts [s [H [Hn [Hc Hne]]]]]]]]. apply Hne. apply (S L l d accts s); assumption.
Qed.
Print Assumptions C04_double_entry_refuted.

Theorem C04_double_entry_partial : forall L l d accts s pit,
  run L = Some d ->
  no_self_transfer_on_new_account (ledger_logs l L) = true ->
  (pit <> None -> dates_monotone (ledger_logs l L) = true) ->
  NoDup accts ->
  (forall r, In r (d_acc d) -> a_ledger r = l -> In (a_addr r) accts) ->
  total_in d l accts s pit = total_out d l accts s pit.
Proof. exact c04_double_entry_partial. Qed.
Print Assumptions C04_double_entry_partial.

(* on the oracle itself double entry holds for every history: every posting adds the same amount on both sides *)
Theorem C04_double_entry_replay : forall Ls (q : Z -> N -> bool),
  let ms := filter (fun m => q (r_ins m) (r_asset m)) (replay_moves Ls) in fst (rvol ms) = snd (rvol ms).
Proof. exact replay_double_entry. Qed.
Print Assumptions C04_double_entry_replay.

(* ---- volumes by effective date -------------------------------------------------------------------------------------------------- *)
Definition C04_effective_statement : Prop := forall L l d a pit,
  run L = Some d ->
  get_all_account_effective_volumes d l a pit = vols_of (replay_effective_volumes (ledger_logs l L) a pit).

Theorem C04_effective_refuted_backdated : exists L l d a pit,
  run L = Some d /\ no_self_transfer_on_new_account (ledger_logs l L) = true /\ all_utc (ledger_logs l L) = true /\
  get_all_account_effective_volumes d l a pit <> vols_of (replay_effective_volumes (ledger_logs l L) a pit).
Proof. destruct c04_effective_refuted_backdated as [L [l [d [a H]]]]. exists L, l, d, a, (Some 700). exact H. Qed.
Print Assumptions C04_effective_refuted_backdated.

Theorem C04_effective_refuted_zone_offset : exists L l d a pit,
  run L = Some d /\ no_self_transfer_on_new_account (ledger_logs l L) = true /\
  no_backdating_before_first (ledger_logs l L) = true /\
  get_all_account_effective_volumes d l a pit <> vols_of (replay_effective_volumes (ledger_logs l L) a pit).
Proof. destruct c04_effective_refuted_zone as [L [l [d [a H]]]]. exists L, l, d, a, (Some 30000). exact H. Qed.
Print Assumptions C04_effective_refuted_zone_offset.

Theorem C04_effective_refuted : ~ C04_effective_statement.
Proof.
  intros S. destruct c04_effective_refuted_backdated as [L [l [d [a [H [_ [_ Hne]]]]]]]. apply Hne. apply S. exact H.
Qed.
Print Assumptions C04_effective_refuted.

Theorem C04_effective_partial : forall L l d a pit,
  run L = Some d ->
  no_self_transfer_on_new_account (ledger_logs l L) = true ->
  all_utc (ledger_logs l L) = true ->
  no_backdating_before_first (ledger_logs l L) = true ->
  get_all_account_effective_volumes d l a pit = vols_of (replay_effective_volumes (ledger_logs l L) a pit).
Proof. exact c04_effective_partial. Qed.
Print Assumptions C04_effective_partial.

(* ---- account metadata (current): no exclusion ----------------------------------------------------------------------------------- *)
Theorem C04_account_meta : forall L l d a,
  run L = Some d -> ometa_equiv (get_account d l a) (replay_account_meta (ledger_logs l L) a None).
Proof. exact c04_account_meta. Qed.
Print Assumptions C04_account_meta.

(* as of a date: the revision written AT that date is not seen (accounts_metadata.date < pit) *)
Theorem C04_account_meta_pit_refuted : exists L l d a pit,
  run L = Some d /\
  get_account_pit d l a pit = Some None /\ replay_account_meta (ledger_logs l L) a (Some pit) = Some [(3, 4)]%N.
Proof. exact c04_account_meta_pit_refuted. Qed.
Print Assumptions C04_account_meta_pit_refuted.

Theorem C04_account_meta_pit_partial : forall L l d a pit,
  run L = Some d ->
  dates_monotone (ledger_logs l L) = true ->
  script_meta_same_date (ledger_logs l L) = true ->
  pit_not_a_log_date (ledger_logs l L) pit = true ->
  opit_equiv (get_account_pit d l a pit) (replay_account_meta (ledger_logs l L) a (Some pit)).
Proof. exact c04_account_meta_pit_partial. Qed.
Print Assumptions C04_account_meta_pit_partial.

(* the LISTING of accounts as of a date (GetAccountsWithVolumes / CountAccounts with a PIT): an account whose metadata changed
   twice before the date is listed twice, once per revision (F-C04j); the oracle knows it once, with its latest metadata *)
Theorem C04_accounts_listing_pit_refuted : exists L l d pit,
  run L = Some d /\ several_revisions_before (ledger_logs l L) pit = true /\
  list_accounts_pit d l pit = [(1, Some [(3, 5)]); (1, Some [(3, 4)])]%N /\
  replay_account_meta (ledger_logs l L) 1 (Some pit) = Some [(3, 5)]%N.
Proof. exact c04_accounts_listing_pit_refuted. Qed.
Print Assumptions C04_accounts_listing_pit_refuted.

(* ---- transactions (current): row, metadata, reverted flag ------------------------------------------------------------------------ *)
Definition C04_tx_statement : Prop := forall L l d id,
  run L = Some d -> tx_view_equiv (get_transaction d l id) (replay_tx (ledger_logs l L) id None).

Theorem C04_tx_refuted : ~ C04_tx_statement.
Proof. intros S. destruct c04_tx_refuted_zone as [L [l [d [id [H Hne]]]]]. apply Hne. apply S. exact H. Qed.
Print Assumptions C04_tx_refuted.

Theorem C04_tx_partial : forall L l d id,
  run L = Some d -> all_utc (ledger_logs l L) = true ->
  tx_view_equiv (get_transaction d l id) (replay_tx (ledger_logs l L) id None).
Proof. exact c04_tx_partial. Qed.
Print Assumptions C04_tx_partial.

(* as of a date: visible when its timestamp is not later; metadata = the entries dated up to then; reverted when the
   reverting transaction is effective by then *)
Theorem C04_tx_pit_partial : forall L l d id pit,
  run L = Some d ->
  all_utc (ledger_logs l L) = true ->
  dates_monotone (ledger_logs l L) = true ->
  reverted_at_most_once (ledger_logs l L) id = true ->
  tx_view_equiv (get_transaction_pit d l id pit) (replay_tx (ledger_logs l L) id (Some pit)).
Proof. exact c04_tx_pit_partial. Qed.
Print Assumptions C04_tx_pit_partial.

(* ---- GET /aggregate/balances (GetAggregatedBalances): per asset, over all accounts ------------------------------------------------ *)
Definition C04_aggregate_statement : Prop := forall L l d s v,
  run L = Some d -> agg_lookup (aggregated_volumes d l None) s = Some v -> exists x, v = (Some x, Some x).

Theorem C04_aggregate_refuted : ~ C04_aggregate_statement.
Proof.
  intros S. destruct c04_aggregate_refuted as [L [l [d [s [v [H [E V]]]]]]]. destruct (S L l d s v H E) as [x Hx].
  rewrite V in Hx. inversion Hx. congruence.
Qed.
Print Assumptions C04_aggregate_refuted.

(* for every asset, what is reported is what the replay gives ... *)
Theorem C04_aggregate_partial : forall L l d pit s,
  run L = Some d ->
  no_self_transfer_on_new_account (ledger_logs l L) = true ->
  (pit <> None -> dates_monotone (ledger_logs l L) = true) ->
  agg_lookup (aggregated_volumes d l pit) s = agg_lookup (vols_of (replay_aggregated (ledger_logs l L) pit)) s.
Proof. exact c04_aggregate_partial. Qed.
Print Assumptions C04_aggregate_partial.

(* ... and it is balanced: inputs = outputs over the whole ledger, i.e. every aggregated balance is zero *)
Theorem C04_aggregate_balanced_partial : forall L l d pit s v,
  run L = Some d ->
  no_self_transfer_on_new_account (ledger_logs l L) = true ->
  (pit <> None -> dates_monotone (ledger_logs l L) = true) ->
  agg_lookup (aggregated_volumes d l pit) s = Some v -> exists x, v = (Some x, Some x).
Proof. exact c04_aggregate_balanced. Qed.
Print Assumptions C04_aggregate_balanced_partial.

(* ---- the volumes a transaction reports for itself (aggregates) -------------------------------------------------------------------- *)
(* two postings from one source: post-commit volumes of the source are those after the first posting ((0,10), not (0,15)) *)
Theorem C04_tx_volumes_refuted_first_move : exists L l d,
  run L = Some d /\
  run_query d (QTxVolumes l 1) = CL [CL [CN 0; CN 5; CL [CZ 0; CZ 10]]; CL [CN 1; CN 5; CL [CZ 10; CZ 0]]; CL [CN 2; CN 5; CL [CZ 5; CZ 0]]]%N /\
  replay_volume (ledger_logs l L) 0 5 None = Some (0, 15).
Proof. exact c04_tx_volumes_refuted_first. Qed.
Print Assumptions C04_tx_volumes_refuted_first_move.

(* one account moving two assets in one transaction: only one of the assets is reported *)
Theorem C04_tx_volumes_refuted_one_asset_per_account : exists L l d,
  run L = Some d /\
  run_query d (QTxVolumes l 1) = CL [CL [CN 0; CN 6; CL [CZ 0; CZ 5]]; CL [CN 1; CN 6; CL [CZ 5; CZ 0]]]%N /\
  replay_volume (ledger_logs l L) 0 5 None = Some (0, 10).
Proof. exact c04_tx_volumes_refuted_collapse. Qed.
Print Assumptions C04_tx_volumes_refuted_one_asset_per_account.

(* ---- non-vacuity: a history with two ledgers, a revert, metadata, that satisfies every exclusion hypothesis ------------------------ *)
Definition ex_history : list log :=
  [ mk_new 1 0 100 (mk_tx 0 80 0 [mk_p 0 1 5 100; mk_p 1 2 5 30]);
    mk_new 2 0 101 (mk_tx 0 101 0 [mk_p 0 1 5 7]);
    {| l_ledger := 1; l_id := 1; l_date := 102; l_data := PSet (TAccount 1) [(3, 4)]%N |};
    mk_new 1 2 103 (mk_tx 1 90 0 [mk_p 1 0 5 10]);
    {| l_ledger := 1; l_id := 3; l_date := 104; l_data := PRevert (mk_tx 2 104 0 [mk_p 2 1 5 30]) 0 |};
    {| l_ledger := 1; l_id := 4; l_date := 105; l_data := PSet (TTx 0) [(7, 8)]%N |} ].

Example C04_example :
  (exists d, run ex_history = Some d /\
     get_all_account_volumes d 1 1 None = [(5%N, (Some 130, Some 40))] /\
     get_all_account_effective_volumes d 1 1 (Some 95) = [(5%N, (Some 100, Some 40))] /\
     get_account_balance d 1 1 5 None = Some 90 /\
     get_account d 1 1 = Some [(3, 4)]%N /\
     option_map v_reverted (get_transaction d 1 0) = Some true /\
     get_all_account_volumes d 2 1 None = [(5%N, (Some 7, Some 0))]) /\
  no_self_transfer_on_new_account (ledger_logs 1 ex_history) = true /\
  all_utc (ledger_logs 1 ex_history) = true /\
  no_backdating_before_first (ledger_logs 1 ex_history) = true /\
  dates_monotone (ledger_logs 1 ex_history) = true.
Proof.
  split.
  - destruct (run ex_history) as [d|] eqn:E; [|vm_compute in E; discriminate].
    exists d. split; [reflexivity|]. vm_compute in E. inversion E; subst d. vm_compute. repeat split.
  - vm_compute. repeat split.
Qed.
