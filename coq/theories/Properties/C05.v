(* C05 — The log is a gap-free hash chain in every schedule and after every restart.
   Only the property theorems live here; each is closed by [exact <lemma>] and followed by Print Assumptions.

   The model is Engine/Model.v (the write path of the Commander as a labelled transition system, validated against
   the real code by trace validation, Engine/Corr.v); the predicates are in Engine/Spec.v. [reachable s] is
   "some finite action list leads from [init] to [s]": any number of create / revert / metadata requests, every
   interleaving of their steps (transaction-id allocation, chaining, hand-off to the batcher, persistence), every
   batch composition, store failures ([APersistFail]) and crashes ([ACrash]) at every point, each followed by a
   re-initialisation from the persisted log, any number of times.
   The action lists also contain the cancellation of a request's context ([ACancel], [AResumeCancelled]) and transient
   failures of the store reads of the write path ([AResumeReadFail]); neither touches the append path.
   Hashes are abstracted: [e_uid] stands for the hash of an entry, [e_prev] for the hash that went into it. *)
From FL Require Import Engine.Model Engine.Spec Engine.E1Base Engine.E1Inv Engine.E1Thms Engine.E1V0.
Local Open Scope nat_scope.

(* the persisted log carries ids 0,1,2,... in order ([ids_contiguous]), every entry is chained on the entry stored
   just before it ([chain_linked]), and the transaction ids in it are 0,1,2,... in log order ([txids_contiguous]) *)
Theorem C05_chain : forall s, reachable s -> chain_ok (persisted s).
Proof. exact e1_chain. Qed.
Print Assumptions C05_chain.

(* the same, one conjunct at a time *)
Theorem C05_ids : forall s, reachable s -> forall i e, nth_error (persisted s) i = Some e -> e_id e = i.
Proof. exact e1_ids. Qed.
Print Assumptions C05_ids.

Theorem C05_linked : forall s, reachable s -> chain_linked (persisted s).
Proof. exact e1_linked. Qed.
Print Assumptions C05_linked.

Theorem C05_txids : forall s, reachable s -> txids_contiguous (persisted s).
Proof. exact e1_txids. Qed.
Print Assumptions C05_txids.

(* what the proof rests on, stated for every reachable state: the whole log as the commander sees it -- disk, then
   the batch being written, then the batcher queue, then the entry chained inside the append critical section and
   not yet handed over -- is a chain, and the volatile head [v_last] is its last element. After a crash the
   in-flight part is empty and the head is re-read from the disk. *)
Theorem C05_inflight : forall s, reachable s -> chain_ok (all_log s) /\ v_last s = last_entry (all_log s).
Proof. exact e1_inflight. Qed.
Print Assumptions C05_inflight.

(* ---- non-vacuity: two concurrent writers, a batch boundary between them, a crash, a third writer after the
   restart, a preview: the disk is id 0 / tx 0, id 1 / tx 1 (E1V0.sched_ok) -------------------------------------- *)
Example C05_example :
  exists s, run init sched_ok = Some s /\
    map (fun e => (e_id e, e_txid e)) (persisted s) = [(0, Some 0); (1, Some 1)] /\
    map e_prev (persisted s) = [None; option_map e_uid (nth_error (persisted s) 0)] /\ gen s = 1.
Proof. eexists. split; [vm_compute; reflexivity|]. vm_compute. auto. Qed.

(* ---- the code before commit 22f84e5 (id allocation, chaining and batcher append in separate critical sections):
   [run_v0] is the model with the append critical section never taken (E1V0.v) ------------------------------- *)
(* (i) chained in one order, appended in the other: the first batch written starts with id 1 *)
Theorem C05_refuted_before_fix :
  exists s, run_v0 init sched_ids = Some s /\ ~ ids_contiguous (persisted s).
Proof.
  eexists. split; [vm_compute; reflexivity|].
  intros H. specialize (H 0 _ eq_refl). vm_compute in H. discriminate H.
Qed.
Print Assumptions C05_refuted_before_fix.

(* (ii) transaction id taken in one order, chained in the other: log 0 carries tx 1, log 1 carries tx 0 *)
Theorem C05_txids_refuted_before_fix :
  exists s, run_v0 init sched_txids = Some s /\ ids_contiguous (persisted s) /\ ~ txids_contiguous (persisted s).
Proof.
  eexists. split; [vm_compute; reflexivity|]. split.
  - intros i e H. destruct i as [|[|i]]; simpl in H; try (inversion H; subst; reflexivity). destruct i; discriminate.
  - unfold txids_contiguous. vm_compute. discriminate.
Qed.
Print Assumptions C05_txids_refuted_before_fix.

(* the repaired model rejects both schedules: the second writer is not enabled at [PAppendEnter] *)
Example C05_fixed_rejects : run init sched_ids = None /\ run init sched_txids = None.
Proof. split; vm_compute; reflexivity. Qed.

(* ---- graceful shutdown ([AClose] / [ACloseOk], Commander.Close()) --------------------------------------------------
   [reachable] now also contains closes at every point: [AClose] (nothing inside the store call, or its write fails:
   state-wise a crash) and [ACloseOk] (the batch inside the store call is written, then the generation ends:
   [APersistOk] followed by [ACrash]); all theorems above hold over these schedules as well, unchanged.
   The next commander starts from the disk and from nothing else: after either close the volatile head of the chain
   and the last transaction id are those read from the persisted log (the ids the dropped queue had consumed are
   handed out again), and that log -- with the batch the close may have completed -- is a gap-free chain. *)
Theorem C05_close_restarts_from_disk : forall s a s', a = AClose \/ a = ACloseOk -> reachable s -> step s a = Some s' ->
  v_last s' = last_entry (persisted s') /\ v_lasttx s' = last_txid (persisted s') /\ chain_ok (persisted s').
Proof. exact close_restarts_from_disk. Qed.
Print Assumptions C05_close_restarts_from_disk.
