(* C06 — Acknowledged means persisted; rejected means no trace.
   Only the property theorems live here; each is closed by [exact <lemma>] and followed by Print Assumptions.

   Model, predicates and [reachable] as in C05.v: every interleaving of concurrent writes, every batch composition,
   store failures and crashes at every point (before hand-off, before persistence, after persistence and before the
   acknowledgement), any number of restarts. A thread is one request; [t_resp] is what its caller got
   ([ROk txid], [RErr _], or [RCrashed]: the process died first); [e_owner] is the request that built an entry. *)
From FL Require Import Engine.Model Engine.Spec Engine.E1Base Engine.E1Inv Engine.E1Thms Engine.E1V0.
Local Open Scope nat_scope.

(* FULL STATEMENT (Spec.ack_persisted): a success answer to a non-preview write implies an entry ON DISK carrying the
   answered transaction id and the request's kind, built by that request -- or, for a replayed idempotency key,
   stored under that key:
       forall s, reachable s -> ack_persisted s.
   It is FALSE of the model (and of the code): SaveMeta / DeleteMetadata replaying a key that was stored by another
   kind of write never look at the stored entry and answer success although nothing was written (known finding
   "idempotency key stored by another kind of write"). Witness: a transaction with key 5 is written and acknowledged,
   then SaveMeta with key 5 answers [ROk None]; the only entry on disk is the transaction. *)
Theorem C06_ack_refuted : exists s, run init sched_ik_kinds = Some s /\ ~ ack_persisted s.
Proof.
  eexists. split; [vm_compute; reflexivity|].
  intros H. destruct (H 1 _ None eq_refl eq_refl eq_refl) as (e & Hin & _ & Hk & _).
  destruct Hin as [<-|[]]. discriminate Hk.
Qed.
Print Assumptions C06_ack_refuted.

(* [ik_kind_consistent_b s] (E1Thms.v, executable; same text in the files of the other engine properties): every
   request carrying a key that is on disk has the kind of that entry:
     forallb (fun p => let rq := t_req (snd p) in N.eqb (rq_ik rq) 0 ||
        forallb (fun e => negb (N.eqb (e_ik e) (rq_ik rq)) || same_kind (e_kind e) (rq_kind rq)) (persisted s)) (threads s) *)
(* PARTIAL: the full statement in every reachable state in which no request carries a key stored by another kind of
   write. The hypothesis is on the state itself only (not on the run that led to it): the disk only grows. *)
Theorem C06_ack_partial : forall s, reachable s -> ik_kind_consistent_b s = true -> ack_persisted s.
Proof. exact e1_ack_partial. Qed.
Print Assumptions C06_ack_partial.

(* unconditionally: a success answer has its entry on disk, or it is exactly the known finding -- a metadata write,
   answer [ROk None], nothing built, a key that is on disk under an entry of another kind *)
Theorem C06_ack_or_mismatch : forall s, reachable s ->
  forall t th x, get_thread (threads s) t = Some th -> t_resp th = Some (ROk x) -> rq_dry (t_req th) = false ->
    (exists e, In e (persisted s) /\ answers t th x e) \/
    (is_tx_kind (rq_kind (t_req th)) = false /\ x = None /\ rq_ik (t_req th) <> 0%N /\ t_entry th = None /\
     exists e, In e (persisted s) /\ e_ik e = rq_ik (t_req th) /\ same_kind (e_kind e) (rq_kind (t_req th)) = false).
Proof. exact e1_ack_weak. Qed.
Print Assumptions C06_ack_or_mismatch.

(* transactions (create, revert) are not concerned: acknowledged means persisted, no hypothesis *)
Theorem C06_ack_tx : forall s, reachable s ->
  forall t th x, get_thread (threads s) t = Some th -> t_resp th = Some (ROk x) -> rq_dry (t_req th) = false ->
    is_tx_kind (rq_kind (t_req th)) = true -> exists e, In e (persisted s) /\ answers t th x e.
Proof. exact e1_ack_tx. Qed.
Print Assumptions C06_ack_tx.

(* the [done] signalling: a write leaves the wait only when its own entry is on disk *)
Theorem C06_done : forall s, reachable s -> forall t th, get_thread (threads s) t = Some th ->
  rq_dry (t_req th) = false -> t_pc th = PDone -> exists e, t_entry th = Some e /\ In e (persisted s).
Proof. exact e1_done_persisted. Qed.
Print Assumptions C06_done.

(* an error answer: no entry of that request on disk *)
Theorem C06_error_no_trace : forall s, reachable s -> error_no_trace s.
Proof. exact e1_error_no_trace. Qed.
Print Assumptions C06_error_no_trace.

(* a preview never leaves an entry, whatever it answers *)
Theorem C06_preview_no_trace : forall s, reachable s -> preview_no_trace s.
Proof. exact e1_preview_no_trace. Qed.
Print Assumptions C06_preview_no_trace.

(* every entry on disk was built by a request that exists, is not a preview, has that very entry as its own and
   the entry's kind *)
Theorem C06_no_orphan : forall s, reachable s -> no_orphan s.
Proof. exact e1_no_orphan. Qed.
Print Assumptions C06_no_orphan.

(* no entry twice, no request with two entries *)
Theorem C06_one_entry : forall s, reachable s -> one_entry_per_request s.
Proof. exact e1_one_entry. Qed.
Print Assumptions C06_one_entry.

(* hence the entry a request owns is unique, and it carries the transaction id the request was given *)
Theorem C06_owner_unique : forall s, reachable s -> forall e1 e2, In e1 (persisted s) -> In e2 (persisted s) ->
  e_owner e1 = e_owner e2 -> e1 = e2.
Proof. exact e1_owner_unique. Qed.
Print Assumptions C06_owner_unique.

Theorem C06_entry_content : forall s, reachable s -> forall e, In e (persisted s) ->
  exists th, get_thread (threads s) (e_owner e) = Some th /\ t_entry th = Some e /\
             e_txid e = t_txid th /\ e_kind e = rq_kind (t_req th).
Proof. exact e1_entry_content. Qed.
Print Assumptions C06_entry_content.

(* died before persistence: if the process died ([RCrashed]) while the request had no entry on disk, it never gets
   one, whatever happens afterwards (what was in flight is dropped by the crash; a dead request builds nothing) *)
Theorem C06_crash_no_trace : forall s, reachable s ->
  forall t th, get_thread (threads s) t = Some th -> t_resp th = Some RCrashed ->
  (forall e, In e (persisted s) -> e_owner e <> t) ->
  forall acts s', run s acts = Some s' -> forall e, In e (persisted s') -> e_owner e <> t.
Proof. exact e1_crash_no_trace. Qed.
Print Assumptions C06_crash_no_trace.

(* the same for every finished request (answered or dead): its trace on disk is final *)
Theorem C06_finished_no_trace : forall s, reachable s ->
  forall t th, get_thread (threads s) t = Some th -> t_pc th = PFinished ->
  (forall e, In e (persisted s) -> e_owner e <> t) ->
  forall acts s', run s acts = Some s' -> forall e, In e (persisted s') -> e_owner e <> t.
Proof. exact e1_finished_no_trace. Qed.
Print Assumptions C06_finished_no_trace.

(* ---- non-vacuity (E1V0.sched_ok): writer 0 dies after its entry was written and before the acknowledgement (entry
   stays), writer 1 dies with its entry in the batcher queue (no trace), writer 2 is acknowledged after the restart,
   preview 3 answers tx 2 and leaves nothing, metadata write 4 on a missing transaction is refused ------------- *)
Example C06_example :
  exists s, run init sched_ok = Some s /\
    map (fun p => (fst p, t_resp (snd p))) (threads s) =
      [(0, Some RCrashed); (1, Some RCrashed); (2, Some (ROk (Some 1))); (3, Some (ROk (Some 2)));
       (4, Some (RErr ENotFound))] /\
    map e_owner (persisted s) = [0; 2] /\ map e_txid (persisted s) = [Some 0; Some 1].
Proof. eexists. split; [vm_compute; reflexivity|]. vm_compute. auto. Qed.
