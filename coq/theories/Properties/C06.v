(* C06 — Acknowledged means persisted; rejected means no trace.
   Only the property theorems live here; each is closed by [exact <lemma>] and followed by Print Assumptions.

   Model, predicates and [reachable] as in C05.v: every interleaving of concurrent writes, every batch composition,
   store failures and crashes at every point (before hand-off, before persistence, after persistence and before the
   acknowledgement), any number of restarts. A thread is one request; [t_resp] is what its caller got
   ([ROk txid], [RErr _], or [RCrashed]: the process died first); [e_owner] is the request that built an entry. *)
From FL Require Import Engine.Model Engine.Spec Engine.E1Base Engine.E1Inv Engine.E1Thms Engine.E1V0.
Local Open Scope nat_scope.

(* Acknowledged means persisted (Spec.ack_persisted, the full statement, no hypothesis): a success answer to a
   non-preview write implies an entry ON DISK carrying the answered transaction id and the request's kind, built by that
   request -- or, for a replayed idempotency key, stored under that key. The replay branch of executionContext.run is
   taken only when the stored log IS the outcome of this request ([Model.is_outcome_of]: same kind; revert: same
   reverted transaction; metadata write: same target and content); a key that stored the outcome of another request
   is refused with [EKeyReused] (see [C06_key_reuse_refused] below). *)
Theorem C06_ack : forall s, reachable s -> ack_persisted s.
Proof. exact e1_ack. Qed.
Print Assumptions C06_ack.

(* Key reuse refused (E1V0.sched_ik_kinds, the schedule of the former finding "idempotency key stored by another kind
   of write"): a transaction with key 5 is written and acknowledged (tx 0), then SaveMeta with key 5. Before the repair
   the SaveMeta answered [ROk None] and published an event although nothing was written ([ack_persisted] was false on
   this very schedule); now it answers [RErr EKeyReused]: the disk still holds exactly the one transaction entry, the
   only event is the one of the transaction, the key is released. *)
Example C06_key_reuse_refused :
  exists s, run init sched_ik_kinds = Some s /\
    map (fun p => (fst p, t_pc (snd p), t_resp (snd p), t_entry (snd p))) (threads s) =
      [(0, PFinished, Some (ROk (Some 0)), nth_error (persisted s) 0); (1, PFinished, Some (RErr EKeyReused), None)] /\
    map (fun e => (e_owner e, e_kind e, e_ik e, e_txid e)) (persisted s) = [(0, KCreate, 5%N, Some 0)] /\
    map (fun ev => (ev_tid ev, ev_kind ev)) (published s) = [(0, KCreate)] /\
    v_iks s = [] /\ v_pending s = [] /\ v_batch s = None.
Proof. eexists. split; [vm_compute; reflexivity|]. vm_compute. repeat split; reflexivity. Qed.
Print Assumptions C06_key_reuse_refused.

(* the same key and the same KIND of write, but another request.
   (i) E1V0.sched_sm_other_target / sched_sm_same_target: SaveMeta with key 6 on target-and-content 1 is written and
   acknowledged; SaveMeta with key 6 on ANOTHER target / content (2) answers [RErr EKeyReused], writes nothing, publishes
   nothing, releases the key; SaveMeta with key 6 and the SAME target and content is a replay: [ROk None], published
   again, still one entry on disk *)
Example C06_key_reuse_other_target :
  (exists s, run init sched_sm_other_target = Some s /\
     map (fun p => (fst p, t_resp (snd p), t_entry (snd p))) (threads s) =
       [(1, Some (ROk None), nth_error (persisted s) 0); (2, Some (RErr EKeyReused), None)] /\
     map (fun e => (e_owner e, e_kind e, e_ik e, e_meta e)) (persisted s) = [(1, KSaveMeta, 6%N, 1%N)] /\
     map ev_tid (published s) = [1] /\ v_iks s = [] /\ v_pending s = [] /\ v_batch s = None) /\
  (exists s, run init sched_sm_same_target = Some s /\
     map (fun p => (fst p, t_resp (snd p), t_entry (snd p))) (threads s) =
       [(1, Some (ROk None), nth_error (persisted s) 0); (2, Some (RErr EKeyReused), None); (3, Some (ROk None), None)] /\
     map (fun e => (e_owner e, e_kind e, e_ik e, e_meta e)) (persisted s) = [(1, KSaveMeta, 6%N, 1%N)] /\
     map ev_tid (published s) = [1; 3] /\ v_iks s = []).
Proof. split; (eexists; split; [vm_compute; reflexivity|]); vm_compute; repeat split; reflexivity. Qed.
Print Assumptions C06_key_reuse_other_target.

(* (ii) E1V0.sched_rv_other_revert (the schedule shape of the former C16 finding "key reused for a revert of another
   transaction"): transactions 0, 1, 2 exist; request 3 reverts tx 1 with key 8 and is acknowledged (tx 3); request 4
   carries key 8 for a revert of tx 2: [RErr EKeyReused], nothing written, no event, tx 2 is not reverted, the key and
   the revert reservation are released *)
Example C06_key_reuse_other_revert :
  exists s, run init sched_rv_other_revert = Some s /\
    map (fun p => (fst p, t_resp (snd p))) (threads s) =
      [(0, Some (ROk (Some 0))); (1, Some (ROk (Some 1))); (2, Some (ROk (Some 2))); (3, Some (ROk (Some 3)));
       (4, Some (RErr EKeyReused))] /\
    map (fun e => (e_owner e, e_kind e, e_ik e, e_txid e, e_reverts e)) (persisted s) =
      [(0, KCreate, 0%N, Some 0, None); (1, KCreate, 0%N, Some 1, None); (2, KCreate, 0%N, Some 2, None);
       (3, KRevert, 8%N, Some 3, Some 1)] /\
    is_reverted (persisted s) 1 = true /\ is_reverted (persisted s) 2 = false /\
    map ev_tid (published s) = [0; 1; 2; 3] /\ v_iks s = [] /\ v_revs s = [] /\ v_pending s = [] /\ v_batch s = None.
Proof. eexists. split; [vm_compute; reflexivity|]. vm_compute. repeat split; reflexivity. Qed.
Print Assumptions C06_key_reuse_other_revert.

(* the [done] signalling: a write leaves the wait only when its own entry is on disk *)
Theorem C06_done : forall s, reachable s -> forall t th, get_thread (threads s) t = Some th ->
  rq_dry (t_req th) = false -> t_pc th = PDone -> exists e, t_entry th = Some e /\ In e (persisted s).
Proof. exact e1_done_persisted. Qed.
Print Assumptions C06_done.

(* an error answer: no entry of that request on disk *)
Theorem C06_error_no_trace : forall s, reachable s -> error_no_trace s.
Proof. exact e1_error_no_trace. Qed.
Print Assumptions C06_error_no_trace.

(* a preview never leaves an entry, whatever it answers *)
Theorem C06_preview_no_trace : forall s, reachable s -> preview_no_trace s.
Proof. exact e1_preview_no_trace. Qed.
Print Assumptions C06_preview_no_trace.

(* every entry on disk was built by a request that exists, is not a preview, has that very entry as its own and
   the entry's kind *)
Theorem C06_no_orphan : forall s, reachable s -> no_orphan s.
Proof. exact e1_no_orphan. Qed.
Print Assumptions C06_no_orphan.

(* no entry twice, no request with two entries *)
Theorem C06_one_entry : forall s, reachable s -> one_entry_per_request s.
Proof. exact e1_one_entry. Qed.
Print Assumptions C06_one_entry.

(* hence the entry a request owns is unique, and it carries the transaction id the request was given *)
Theorem C06_owner_unique : forall s, reachable s -> forall e1 e2, In e1 (persisted s) -> In e2 (persisted s) ->
  e_owner e1 = e_owner e2 -> e1 = e2.
Proof. exact e1_owner_unique. Qed.
Print Assumptions C06_owner_unique.

Theorem C06_entry_content : forall s, reachable s -> forall e, In e (persisted s) ->
  exists th, get_thread (threads s) (e_owner e) = Some th /\ t_entry th = Some e /\
             e_txid e = t_txid th /\ e_kind e = rq_kind (t_req th).
Proof. exact e1_entry_content. Qed.
Print Assumptions C06_entry_content.

(* died before persistence: if the process died ([RCrashed]) while the request had no entry on disk, it never gets
   one, whatever happens afterwards (what was in flight is dropped by the crash; a dead request builds nothing) *)
Theorem C06_crash_no_trace : forall s, reachable s ->
  forall t th, get_thread (threads s) t = Some th -> t_resp th = Some RCrashed ->
  (forall e, In e (persisted s) -> e_owner e <> t) ->
  forall acts s', run s acts = Some s' -> forall e, In e (persisted s') -> e_owner e <> t.
Proof. exact e1_crash_no_trace. Qed.
Print Assumptions C06_crash_no_trace.

(* the same for every finished request (answered or dead): its trace on disk is final *)
Theorem C06_finished_no_trace : forall s, reachable s ->
  forall t th, get_thread (threads s) t = Some th -> t_pc th = PFinished ->
  (forall e, In e (persisted s) -> e_owner e <> t) ->
  forall acts s', run s acts = Some s' -> forall e, In e (persisted s') -> e_owner e <> t.
Proof. exact e1_finished_no_trace. Qed.
Print Assumptions C06_finished_no_trace.

(* ---- non-vacuity (E1V0.sched_ok): writer 0 dies after its entry was written and before the acknowledgement (entry
   stays), writer 1 dies with its entry in the batcher queue (no trace), writer 2 is acknowledged after the restart,
   preview 3 answers tx 2 and leaves nothing, metadata write 4 on a missing transaction is refused ------------- *)
Example C06_example :
  exists s, run init sched_ok = Some s /\
    map (fun p => (fst p, t_resp (snd p))) (threads s) =
      [(0, Some RCrashed); (1, Some RCrashed); (2, Some (ROk (Some 1))); (3, Some (ROk (Some 2)));
       (4, Some (RErr ENotFound))] /\
    map e_owner (persisted s) = [0; 2] /\ map e_txid (persisted s) = [Some 0; Some 1].
Proof. eexists. split; [vm_compute; reflexivity|]. vm_compute. auto. Qed.

(* ---- cancellation: the request's context is done while it waits for its account locks ---------------------------
   [ACancel t] marks the context of request [t] done; the write path consults it in one place, the wait for the
   account locks: [AResumeCancelled t] is the ctx.Done() branch of that wait, answered [RErr ELockCancelled]. *)

(* a request that gave up waiting for its locks has finished, built no entry, owns no entry anywhere -- on disk, in
   the batcher queue, in the batch being written -- and is not inside the append critical section *)
Theorem C06_cancelled_no_trace : forall s t th, reachable s -> get_thread (threads s) t = Some th ->
  t_resp th = Some (RErr ELockCancelled) ->
  t_entry th = None /\ t_pc th = PFinished /\
  (forall e, In e (persisted s) -> e_owner e <> t) /\
  (forall e, In e (v_pending s) -> e_owner e <> t) /\
  (forall b e, v_batch s = Some b -> In e b -> e_owner e <> t) /\
  v_cs s <> Some t.
Proof. exact e1_cancelled_no_trace. Qed.
Print Assumptions C06_cancelled_no_trace.

(* the step itself writes nothing, hands nothing to the batcher, publishes nothing, leaves the head of the chain and
   the transaction counter alone; afterwards the request is answered [RErr ELockCancelled] and its idempotency key,
   its reference and its revert reservation are free *)
Theorem C06_cancelled_step : forall s t s', reachable s -> step s (AResumeCancelled t) = Some s' ->
  persisted s' = persisted s /\ v_pending s' = v_pending s /\ v_batch s' = v_batch s /\
  published s' = published s /\ v_last s' = v_last s /\ v_lasttx s' = v_lasttx s /\
  exists th th', get_thread (threads s) t = Some th /\ get_thread (threads s') t = Some th' /\
    t_resp th' = Some (RErr ELockCancelled) /\
    (rq_ik (t_req th) <> 0%N -> ~ In (rq_ik (t_req th)) (v_iks s')) /\
    (rq_ref (t_req th) <> 0%N -> ~ In (rq_ref (t_req th)) (v_refs s')) /\
    (rq_kind (t_req th) = KRevert -> ~ In (rq_revert (t_req th)) (v_revs s')).
Proof. exact e1_cancelled_step. Qed.
Print Assumptions C06_cancelled_step.

(* cancelling by itself changes nothing observable: disk, events and every other request are untouched (the cancelled
   request keeps everything but its flag: E1Thms.e1_cancel_self) *)
Theorem C06_cancel_only_flag : forall s t s', step s (ACancel t) = Some s' ->
  persisted s' = persisted s /\ published s' = published s /\
  forall u, u <> t -> get_thread (threads s') u = get_thread (threads s) u.
Proof. exact e1_cancel_only_flag. Qed.
Print Assumptions C06_cancel_only_flag.

(* non-vacuity (E1V0.sched_cancel): request 1 holds the locks of accounts 1 and 2, request 2 (key 7, reference 9)
   queues behind it, is cancelled and gives up; 1 completes. 2 is answered [RErr ELockCancelled], the disk holds the
   funding entry and the entry of 1, nothing of 2; key, reference, lock table and queue are empty; no event for 2 *)
Example C06_cancel_example :
  (exists s0, run init sched_queued = Some s0 /\ v_queue s0 = [2] /\ v_iks s0 = [7%N] /\ v_refs s0 = [9%N] /\
     map (fun p => (fst p, t_pc (snd p))) (threads s0) = [(0, PFinished); (1, PLocked); (2, PEnqueued)]) /\
  exists s, run init sched_cancel = Some s /\
    map (fun p => (fst p, t_resp (snd p), t_cancelled (snd p))) (threads s) =
      [(0, Some (ROk (Some 0)), false); (1, Some (ROk (Some 1)), false); (2, Some (RErr ELockCancelled), true)] /\
    map e_owner (persisted s) = [0; 1] /\ length (persisted s) = 2 /\ map ev_tid (published s) = [0; 1] /\
    v_iks s = [] /\ v_refs s = [] /\ v_locks s = [] /\ v_queue s = [].
Proof.
  split; (eexists; split; [vm_compute; reflexivity|]); vm_compute; repeat split; reflexivity.
Qed.

(* the other branch (E1V0.sched_cancel_granted / sched_cancel_reuse): 2 is cancelled, 1 completes and its release GRANTS
   the locks to 2; both [AResume 2] and [AResumeCancelled 2] are enabled; 2 gives up, hands the grant back, and
   request 3 then uses key 7 and reference 9 again and is acknowledged tx 2 *)
Example C06_cancel_granted_example :
  (exists s0, run init sched_cancel_granted = Some s0 /\ v_locks s0 = [(2, [1%N; 3%N], [1%N])] /\
     map (fun p => (fst p, t_pc (snd p), t_granted (snd p), t_cancelled (snd p))) (threads s0) =
       [(0, PFinished, false, false); (1, PUnlocked, false, false); (2, PEnqueued, true, true)] /\
     (exists s1, step s0 (AResume 2) = Some s1) /\ (exists s1, step s0 (AResumeCancelled 2) = Some s1 /\ v_locks s1 = [])) /\
  exists s, run init sched_cancel_reuse = Some s /\
    map (fun p => (fst p, t_resp (snd p))) (threads s) =
      [(0, Some (ROk (Some 0))); (1, Some (ROk (Some 1))); (2, Some (RErr ELockCancelled)); (3, Some (ROk (Some 2)))] /\
    map e_owner (persisted s) = [0; 1; 3] /\ map e_ik (persisted s) = [0%N; 0%N; 7%N] /\
    map e_ref (persisted s) = [0%N; 0%N; 9%N].
Proof.
  split.
  - eexists. split; [vm_compute; reflexivity|]. split; [vm_compute; reflexivity|]. split; [vm_compute; reflexivity|].
    split; eexists; [vm_compute; reflexivity|split; vm_compute; reflexivity].
  - eexists. split; [vm_compute; reflexivity|]. vm_compute. repeat split; reflexivity.
Qed.

(* ---- transient store read failures ---------------------------------------------------------------------------
   [AResumeReadFail t]: the store read of the region request [t] runs next fails with a transient error (not "not
   found"): the key lookup ("ik.taken"), the reference lookup ("ref.taken"), GetTransaction of a revert
   ("revert.taken") or of a metadata write on a transaction ("ik.lookup"), the account-metadata reads of
   ResolveResources ("ik.lookup" / "ref.lookup" of a create, answered [ECompilationFailed]), the balance reads under the
   account locks ("locked"). All the theorems above range over these actions too ([reachable] is larger). *)

(* a request answered [EStoreRead] / [ECompilationFailed] has finished, built no entry, owns no entry anywhere -- on
   disk, in the batcher queue, in the batch being written -- and is not inside the append critical section
   (E1Thms.e1_error_no_trace_anywhere: the same for EVERY error class) *)
Theorem C06_read_failed_no_trace : forall s t th, reachable s -> get_thread (threads s) t = Some th ->
  (t_resp th = Some (RErr EStoreRead) \/ t_resp th = Some (RErr ECompilationFailed)) ->
  t_entry th = None /\ t_pc th = PFinished /\
  (forall e, In e (persisted s) -> e_owner e <> t) /\
  (forall e, In e (v_pending s) -> e_owner e <> t) /\
  (forall b e, v_batch s = Some b -> In e b -> e_owner e <> t) /\
  v_cs s <> Some t.
Proof. exact e1_read_failed_no_trace. Qed.
Print Assumptions C06_read_failed_no_trace.

(* the step itself writes nothing, hands nothing to the batcher, publishes nothing, leaves the head of the chain and
   the transaction counter alone. Either the request failed -- it is answered an error, has finished without an entry,
   and its idempotency key is free afterwards -- or it is exactly the SaveMeta whose read error the code ignores (only
   its pc moves: see [C06_savemeta_ignores_read_failure]).
   "Its key is free afterwards" does NOT hold when GetTransaction of a revert fails at [PRevTaken]: the revert has not
   taken its key yet and releases none, so the key may be reserved -- by somebody else
   ([C06_read_failed_revert_key_witness]); there the key table is untouched. *)
Theorem C06_read_failed_step : forall s t s', reachable s -> step s (AResumeReadFail t) = Some s' ->
  persisted s' = persisted s /\ v_pending s' = v_pending s /\ v_batch s' = v_batch s /\
  published s' = published s /\ v_last s' = v_last s /\ v_lasttx s' = v_lasttx s /\
  exists th th', get_thread (threads s) t = Some th /\ get_thread (threads s') t = Some th' /\
   ((* the request failed: *)
    (exists err, t_resp th' = Some (RErr err) /\ t_pc th' = PFinished /\ t_entry th' = None /\
       (t_pc th <> PRevTaken -> rq_ik (t_req th) <> 0%N -> ~ In (rq_ik (t_req th)) (v_iks s')) /\
       (t_pc th = PRevTaken -> v_iks s' = v_iks s))
    \/ (* or it is the SaveMeta whose read error the code ignores: *)
    (rq_kind (t_req th) = KSaveMeta /\ t_pc th = PIkLookup None /\ t_resp th' = None)).
Proof. exact e1_read_failed_step. Qed.
Print Assumptions C06_read_failed_step.

(* case by case. [rf_flags th] (E1Thms.v) = (error class, key released, reference released, revert reservation released):
     PRevTaken                 -> (EStoreRead,         false, false, true)     GetTransaction of the revert
     PIkTaken                  -> (EStoreRead,         true,  false, true)     the key lookup
     PRefTaken                 -> (EStoreRead,         true,  true,  true)     the reference lookup
     PIkLookup None, KCreate   -> (ECompilationFailed, true,  false, true)     ResolveResources (no reference)
     PIkLookup None, KDelMeta  -> (ENotFound,          true,  false, false)    DeleteMetadata: any error = not found
     PRefLookup false          -> (ECompilationFailed, true,  true,  true)     ResolveResources
     PLocked                   -> (EStoreRead,         true,  true,  true)     ResolveBalances, after the unlock
   a released reservation is not in its table afterwards, a table whose flag is false is unchanged; except at [PLocked]
   the lock table and the queue are unchanged; [v_cs] is unchanged. The SaveMeta case: only the pc of the request moves
   (to the wait of a preview, else to the entry of the append critical section). *)
Theorem C06_read_failed_step_fine : forall s t s', reachable s -> step s (AResumeReadFail t) = Some s' ->
  persisted s' = persisted s /\ v_pending s' = v_pending s /\ v_batch s' = v_batch s /\
  published s' = published s /\ v_last s' = v_last s /\ v_lasttx s' = v_lasttx s /\ v_cs s' = v_cs s /\
  exists th th', get_thread (threads s) t = Some th /\ get_thread (threads s') t = Some th' /\
   ((exists err ri rf rv, rf_flags th = Some (err, ri, rf, rv) /\
       t_resp th' = Some (RErr err) /\ t_pc th' = PFinished /\ t_entry th' = None /\
       (if ri then rq_ik (t_req th) <> 0%N -> ~ In (rq_ik (t_req th)) (v_iks s') else v_iks s' = v_iks s) /\
       (if rf then rq_ref (t_req th) <> 0%N -> ~ In (rq_ref (t_req th)) (v_refs s') else v_refs s' = v_refs s) /\
       (if rv then rq_kind (t_req th) = KRevert -> ~ In (rq_revert (t_req th)) (v_revs s') else v_revs s' = v_revs s) /\
       (t_pc th <> PLocked -> v_locks s' = v_locks s /\ v_queue s' = v_queue s))
    \/ (rq_kind (t_req th) = KSaveMeta /\ t_pc th = PIkLookup None /\ t_resp th' = None /\ t_entry th' = None /\
        t_pc th' = (if rq_dry (t_req th) then PWait else PAppendEnter) /\
        v_iks s' = v_iks s /\ v_refs s' = v_refs s /\ v_revs s' = v_revs s /\
        v_locks s' = v_locks s /\ v_queue s' = v_queue s)).
Proof. exact e1_read_failed_step_fine. Qed.
Print Assumptions C06_read_failed_step_fine.

(* why the key clause of [C06_read_failed_step] excludes [PRevTaken] (E1V0.sched_rev_readfail): request 1 holds key 8
   (parked at "ik.taken"); revert 4 carries key 8 too and its GetTransaction fails before it tried to take the key: 4
   is answered [RErr EStoreRead], its revert reservation is released, and key 8 is still in the table -- it is 1's *)
Example C06_read_failed_revert_key_witness :
  exists s, run init sched_rev_readfail = Some s /\
    map (fun p => (fst p, t_pc (snd p), t_resp (snd p))) (threads s) =
      [(0, PFinished, Some (ROk (Some 0))); (1, PIkTaken, None); (4, PFinished, Some (RErr EStoreRead))] /\
    v_iks s = [8%N] /\ v_revs s = [] /\ map e_owner (persisted s) = [0].
Proof. eexists. split; [vm_compute; reflexivity|]. vm_compute. repeat split; reflexivity. Qed.

(* FINDING (a witness, not a violation of C06: the write is acknowledged AND persisted). SaveMeta (key 5) on the MISSING
   transaction 7 of a ledger whose only transaction is 0 (E1V0.sched_sm_notfound / sched_sm_readfail / sched_dm_readfail):
   (i) GetTransaction answers "not found" (plain [AResume]): refused [RErr ENotFound], nothing written, no event;
   (ii) the same read FAILS ([AResumeReadFail]): SaveMeta only looks for the not-found error and ignores any other, the
   request goes on, its metadata entry is written (second entry on disk, owner 3, key 5), it is acknowledged [ROk None]
   and an event is published -- metadata saved on a transaction that does not exist;
   (iii) DeleteMetadata in the same situation treats every error as "not found": [RErr ENotFound], nothing written. *)
Example C06_savemeta_ignores_read_failure :
  (exists s, run init sched_sm_notfound = Some s /\
     map (fun p => (fst p, t_resp (snd p))) (threads s) = [(0, Some (ROk (Some 0))); (3, Some (RErr ENotFound))] /\
     map e_owner (persisted s) = [0] /\ map ev_tid (published s) = [0] /\ v_iks s = []) /\
  (exists s, run init sched_sm_readfail = Some s /\
     map (fun p => (fst p, t_resp (snd p))) (threads s) = [(0, Some (ROk (Some 0))); (3, Some (ROk None))] /\
     map (fun e => (e_owner e, e_kind e, e_ik e, e_txid e)) (persisted s) =
       [(0, KCreate, 0%N, Some 0); (3, KSaveMeta, 5%N, None)] /\
     find_tx (persisted s) 7 = None /\ map ev_tid (published s) = [0; 3] /\ v_iks s = []) /\
  (exists s, run init sched_dm_readfail = Some s /\
     map (fun p => (fst p, t_resp (snd p))) (threads s) = [(0, Some (ROk (Some 0))); (3, Some (RErr ENotFound))] /\
     map e_owner (persisted s) = [0] /\ map ev_tid (published s) = [0] /\ v_iks s = []).
Proof.
  split; [|split]; (eexists; split; [vm_compute; reflexivity|]); vm_compute; repeat split; reflexivity.
Qed.

(* non-vacuity (E1V0.sched_readfail_locked / sched_readfail_done): request 1 holds the locks of accounts 1, 2 at
   "locked", request 2 (key 7, reference 9) is queued behind it; the balance read of 1 fails: 1 is answered
   [RErr EStoreRead], nothing of it is on disk, its locks are released and the re-check GRANTS 2 ([t_granted], the
   lock table now holds 2's entry, the queue is empty); 2 then completes: [ROk (Some 1)], disk owners [0; 2], events
   of 0 and 2 only, every table empty *)
Example C06_read_failure_example :
  (exists s0, run init sched_readfail_locked = Some s0 /\
     map (fun p => (fst p, t_pc (snd p), t_resp (snd p), t_granted (snd p))) (threads s0) =
       [(0, PFinished, Some (ROk (Some 0)), false); (1, PFinished, Some (RErr EStoreRead), false);
        (2, PEnqueued, None, true)] /\
     map e_owner (persisted s0) = [0] /\ v_pending s0 = [] /\ v_batch s0 = None /\
     v_locks s0 = [(2, [1%N; 3%N], [1%N])] /\ v_queue s0 = [] /\ v_iks s0 = [7%N] /\ v_refs s0 = [9%N]) /\
  exists s, run init sched_readfail_done = Some s /\
    map (fun p => (fst p, t_resp (snd p))) (threads s) =
      [(0, Some (ROk (Some 0))); (1, Some (RErr EStoreRead)); (2, Some (ROk (Some 1)))] /\
    map e_owner (persisted s) = [0; 2] /\ map ev_tid (published s) = [0; 2] /\
    v_iks s = [] /\ v_refs s = [] /\ v_locks s = [] /\ v_queue s = [].
Proof.
  split; (eexists; split; [vm_compute; reflexivity|]); vm_compute; repeat split; reflexivity.
Qed.

(* ... and holds no account lock and no place in the lock queue, in this and every later state (lock / queue hygiene
   invariant of Engine/E5Lock.v, stated in Properties/C02_cancel.v: table and queue entries belong to unfinished
   requests). Together with [C06_cancelled_no_trace] (no entry on disk, in the batcher or being built, not in the append
   critical section) and [C06_cancelled_step] (key, reference and revert reservation given back by the step itself):
   a request that gave up waiting for its locks holds nothing and leaves nothing. *)
From FL Require Engine.E5Lock.
Theorem C06_cancelled_holds_no_lock : forall s t th, reachable s -> get_thread (threads s) t = Some th ->
  t_resp th = Some (RErr ELockCancelled) ->
  ~ In t (v_queue s) /\ (forall h, In h (v_locks s) -> fst (fst h) <> t).
Proof.
  exact (fun s t th R G E =>
    E5Lock.e5_finished_holds_no_lock s t th (E5Lock.e5_reachable_inv s R) G
      (proj1 (proj2 (e1_cancelled_no_trace s t th R G E)))).
Qed.
Print Assumptions C06_cancelled_holds_no_lock.

(* the same for a request answered [EStoreRead] / [ECompilationFailed] (at "locked" the step releases the account locks
   itself, [unlock]; at the other pcs none is held yet): no place in the lock queue, no lock-table entry, in this and
   every later state *)
Theorem C06_read_failed_holds_no_lock : forall s t th, reachable s -> get_thread (threads s) t = Some th ->
  (t_resp th = Some (RErr EStoreRead) \/ t_resp th = Some (RErr ECompilationFailed)) ->
  ~ In t (v_queue s) /\ (forall h, In h (v_locks s) -> fst (fst h) <> t).
Proof.
  exact (fun s t th R G E =>
    E5Lock.e5_finished_holds_no_lock s t th (E5Lock.e5_reachable_inv s R) G
      (proj1 (proj2 (e1_read_failed_no_trace s t th R G E)))).
Qed.
Print Assumptions C06_read_failed_holds_no_lock.

(* ---- graceful shutdown ([AClose] / [ACloseOk], Commander.Close() = Batcher.Close()) --------------------------------
   [AClose]: nothing is inside the store call, or its write fails; [ACloseOk]: the batch inside the store call is
   written, then the generation ends ([APersistOk] followed by [ACrash]). Either way the Terminated() callbacks of the
   job are not run and the batcher queue is dropped. [reachable] contains closes at every point: all theorems above
   hold over these schedules as well, unchanged.
   (i) A close acknowledges nobody: every request keeps the answer it had; a request that had none is never answered
   ([RCrashed]: its caller gets no success and no error from this commander) -- also when its entry has just been
   written by the close ([ACloseOk]): persisted but not acknowledged, the direction C06 allows. *)
Theorem C06_close_answers_nobody : forall s a s', a = AClose \/ a = ACloseOk -> reachable s -> step s a = Some s' ->
  forall t th', get_thread (threads s') t = Some th' ->
    exists th, get_thread (threads s) t = Some th /\
      (t_resp th' = t_resp th \/ (t_resp th = None /\ t_resp th' = Some RCrashed)).
Proof. exact close_answers_nobody. Qed.
Print Assumptions C06_close_answers_nobody.

(* (ii) A dropped entry is nowhere: after a close the batcher queue and the worker are empty; the disk is the disk
   before ([AClose]) or the disk before plus exactly the batch that was inside the store call ([ACloseOk]); no entry
   that was queued -- and, for [AClose], no entry of the batch in flight -- is on the disk afterwards (uids are unique
   over disk ++ batch ++ queue, [i_uid]). Their requests are answered [RCrashed] by (i): never acknowledged. *)
Theorem C06_close_drops : forall s a s', a = AClose \/ a = ACloseOk -> reachable s -> step s a = Some s' ->
  v_pending s' = [] /\ v_batch s' = None /\
  (a = AClose -> persisted s' = persisted s) /\
  (a = ACloseOk -> exists b, v_batch s = Some b /\ persisted s' = persisted s ++ b) /\
  (forall e, In e (v_pending s) -> ~ In e (persisted s')) /\
  (a = AClose -> forall b e, v_batch s = Some b -> In e b -> ~ In e (persisted s')).
Proof. exact close_drops. Qed.
Print Assumptions C06_close_drops.

(* (iii) non-vacuity (E1V0.sched_close): request 0 funds account 1 (tx 0, acknowledged, published). Request 1 (create)
   has its entry in the batch inside the store call; requests 2 (create) and 3 (SaveMeta) have theirs queued behind it;
   all three wait. [ACloseOk]: the disk is the funding entry and the entry of 1 (id 1, tx 1); 1, 2 and 3 are answered
   [RCrashed]; queue and worker are empty; no event of 1, 2 or 3; the next generation starts at the head of the disk
   with last transaction id 1. [AClose]: the disk is the funding entry only; last transaction id 0. *)
Example C06_close_example :
  (exists s, run init sched_close = Some s /\
     map (fun p => (fst p, t_pc (snd p), t_resp (snd p))) (threads s) =
       [(0, PFinished, Some (ROk (Some 0))); (1, PWait, None); (2, PWait, None); (3, PWait, None)] /\
     map e_owner (persisted s) = [0] /\ option_map (map e_owner) (v_batch s) = Some [1] /\
     map (fun e => (e_owner e, e_kind e)) (v_pending s) = [(2, KCreate); (3, KSaveMeta)] /\
     map ev_tid (published s) = [0]) /\
  (exists s, run init (sched_close ++ [ACloseOk]) = Some s /\
     map (fun p => (fst p, t_pc (snd p), t_resp (snd p))) (threads s) =
       [(0, PFinished, Some (ROk (Some 0))); (1, PFinished, Some RCrashed); (2, PFinished, Some RCrashed);
        (3, PFinished, Some RCrashed)] /\
     map (fun e => (e_owner e, e_id e, e_txid e)) (persisted s) = [(0, 0, Some 0); (1, 1, Some 1)] /\
     v_batch s = None /\ v_pending s = [] /\ map ev_tid (published s) = [0] /\ gen s = 1 /\
     v_last s = last_entry (persisted s) /\ v_lasttx s = Some 1) /\
  (exists s, run init (sched_close ++ [AClose]) = Some s /\
     map (fun p => (fst p, t_pc (snd p), t_resp (snd p))) (threads s) =
       [(0, PFinished, Some (ROk (Some 0))); (1, PFinished, Some RCrashed); (2, PFinished, Some RCrashed);
        (3, PFinished, Some RCrashed)] /\
     map (fun e => (e_owner e, e_id e, e_txid e)) (persisted s) = [(0, 0, Some 0)] /\
     v_batch s = None /\ v_pending s = [] /\ map ev_tid (published s) = [0] /\ gen s = 1 /\
     v_last s = last_entry (persisted s) /\ v_lasttx s = Some 0).
Proof.
  split; [|split]; (eexists; split; [vm_compute; reflexivity|]); vm_compute; repeat split; reflexivity.
Qed.
Print Assumptions C06_close_example.
