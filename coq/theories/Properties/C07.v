(* C07 — An idempotency key takes effect at most once.
   Only the property theorems live here; each is closed by [exact <lemma>] and followed by Print Assumptions.
   The model is Engine/Model.v (the write path of the Commander with the engine repairs, validated against the real
   code by trace replay); the predicates are in Engine/Spec.v; the proofs are in Engine/E2*.v.
   [reachable s] quantifies over EVERY finite action list from the empty ledger: any number of requests of any kind
   with any keys, any interleaving of their steps (key reservation, store lookup, execution, append, wait), any batch
   composition, crashes and store failures at every point, and requests started after a restart. *)
From FL Require Import Engine.Model Engine.Spec Engine.E2Base Engine.E2Step Engine.E2Main Engine.E2Variants Engine.E2ReadFail.

(* at most one log entry on disk carries a given non-empty key *)
Theorem C07_once : forall s, reachable s -> ik_once (persisted s).
Proof. exact e2_ik_once. Qed.
Print Assumptions C07_once.

(* "every success carrying key k answers the outcome of that single entry": the full statement of Spec.v, in every
   reachable state, with no hypothesis.  (Before the repair of executionContext.run -- a key reused with a different
   request is refused with ErrIdempotencyKeyReused -- this was FALSE of the model and of the code: SaveMetadata /
   DeleteMetadata that found an entry of another kind under their key reported success without a transaction id;
   the statement was then proved only under the hypothesis [ik_kind_consistent_b], which is gone.) *)
Theorem C07_same_outcome : forall s, reachable s -> ik_same_outcome s.
Proof. exact e2_ik_same_outcome. Qed.
Print Assumptions C07_same_outcome.

(* a success under a key is answered by an entry on disk that IS the outcome of this request in the sense of the
   code's comparison ([is_outcome_of]: same kind; revert: same reverted transaction; metadata write: same target and
   content) -- whether the request wrote the entry itself or replayed it *)
Theorem C07_replay_is_own_outcome : forall s, reachable s ->
  forall t th x, get_thread (threads s) t = Some th -> t_resp th = Some (ROk x) -> rq_dry (t_req th) = false ->
    rq_ik (t_req th) <> 0%N ->
    exists e, In e (persisted s) /\ e_ik e = rq_ik (t_req th) /\ e_txid e = x /\ is_outcome_of (t_req th) e = true.
Proof. exact e2_replay_is_own_outcome. Qed.
Print Assumptions C07_replay_is_own_outcome.

(* both together (with C07_once): THE entry on disk under the key of a successful request carries the answered
   transaction id and is the outcome of that request *)
Theorem C07_key_entry_is_outcome : forall s, reachable s ->
  forall t th x e, get_thread (threads s) t = Some th -> t_resp th = Some (ROk x) -> rq_dry (t_req th) = false ->
    rq_ik (t_req th) <> 0%N -> In e (persisted s) -> e_ik e = rq_ik (t_req th) ->
    e_txid e = x /\ is_outcome_of (t_req th) e = true.
Proof. exact e2_ik_same_request. Qed.
Print Assumptions C07_key_entry_is_outcome.

(* the earlier unconditional form (retries of the same kind of write): now a corollary of C07_same_outcome, whose
   hypothesis on the kinds is not needed any more; kept under its name *)
Theorem C07_same_outcome_same_kind : forall s, reachable s ->
  forall t th x e, get_thread (threads s) t = Some th -> t_resp th = Some (ROk x) -> rq_dry (t_req th) = false ->
    rq_ik (t_req th) <> 0%N -> In e (persisted s) -> e_ik e = rq_ik (t_req th) ->
    same_kind (e_kind e) (rq_kind (t_req th)) = true -> e_txid e = x.
Proof. intros s Hr t th x e H1 H2 H3 H4 H5 H6 _. exact (C07_same_outcome s Hr t th x e H1 H2 H3 H4 H5 H6). Qed.
Print Assumptions C07_same_outcome_same_kind.

(* the schedule that used to refute the statement: a transaction is committed with key 5 (request 1); a SaveMeta
   carrying key 5 (request 2) finds the entry, which is not the outcome of a SaveMeta: it answers [RErr EKeyReused],
   owns no entry, nothing is written (one entry on disk, nothing in flight), nothing is published for it, the key is
   free again; a retry of the SAME create under key 5 (request 3) replays: every success carrying the key answers
   the stored transaction id [Some 0] *)
Example C07_key_reuse_refused :
  exists s e th1 th2 th3, run init e2_c07_mixed_retry = Some s /\
    persisted s = [e] /\ v_pending s = [] /\ v_batch s = None /\ v_iks s = [] /\
    e_ik e = 5%N /\ e_txid e = Some 0 /\ e_kind e = KCreate /\ e_owner e = 1 /\
    get_thread (threads s) 1 = Some th1 /\ get_thread (threads s) 2 = Some th2 /\ get_thread (threads s) 3 = Some th3 /\
    rq_ik (t_req th1) = 5%N /\ rq_ik (t_req th2) = 5%N /\ rq_ik (t_req th3) = 5%N /\
    rq_kind (t_req th2) = KSaveMeta /\ rq_dry (t_req th2) = false /\
    t_resp th1 = Some (ROk (Some 0)) /\
    t_resp th2 = Some (RErr EKeyReused) /\ t_entry th2 = None /\ t_pc th2 = PFinished /\
    t_resp th3 = Some (ROk (Some 0)) /\ t_entry th3 = None /\
    map ev_tid (published s) = [1; 3].
Proof. exact e2_c07_key_reuse_refused. Qed.

(* the state right after the refusal (the old witness schedule [e2_c07_mixed] itself): disk, in-flight lists and
   published events are those before request 2 was sent; the key is free *)
Example C07_key_reuse_refused_at :
  exists s0 s e th2, run init (AStart 1 e2_pay_k5 :: e2_rs 1 10 ++ [APersistOk] ++ e2_rs 1 3) = Some s0 /\
    run init e2_c07_mixed = Some s /\ persisted s0 = [e] /\ persisted s = [e] /\
    v_pending s = [] /\ v_batch s = None /\ v_iks s = [] /\ published s = published s0 /\
    get_thread (threads s) 2 = Some th2 /\ t_resp th2 = Some (RErr EKeyReused).
Proof. exact e2_c07_key_reuse_refused_at. Qed.

(* [ik_once] counts the key STORED ON the entries.  The stored key is the key of the request that produced the entry,
   for every kind of write (this is what the code before 28239f3 got wrong for metadata writes) ... *)
Theorem C07_entry_carries_key : forall s, reachable s -> forall e, In e (persisted s ++ inflight s) ->
  exists th, get_thread (threads s) (e_owner e) = Some th /\ t_entry th = Some e /\
             e_ik e = rq_ik (t_req th) /\
             e_ref e = (if is_tx_kind (rq_kind (t_req th)) then rq_ref (t_req th) else 0%N) /\
             e_reverts e = (match rq_kind (t_req th) with KRevert => Some (rq_revert (t_req th)) | _ => None end).
Proof. exact e2_entry_of_owner. Qed.
Print Assumptions C07_entry_carries_key.

(* ... hence "at most one of the requests carrying key k takes effect": two entries on disk produced by requests with
   the same non-empty key are the same entry *)
Theorem C07_once_per_request_key : forall s, reachable s -> forall e1 e2 th1 th2,
  In e1 (persisted s) -> In e2 (persisted s) ->
  get_thread (threads s) (e_owner e1) = Some th1 -> get_thread (threads s) (e_owner e2) = Some th2 ->
  rq_ik (t_req th1) <> 0%N -> rq_ik (t_req th1) = rq_ik (t_req th2) -> e1 = e2.
Proof. exact e2_once_per_request_key. Qed.
Print Assumptions C07_once_per_request_key.

(* non-vacuity: a transaction with key 5 is committed; the same request is sent again, and again after a restart;
   one entry, the same transaction id answered three times *)
Example C07_example :
  let rq := e2_req KCreate 5 0 [(world, 1%N, 10%Z)] 0 in
  exists s th1 th2 th3,
    run init (AStart 1 rq :: e2_rs 1 10 ++ [APersistOk] ++ e2_rs 1 3 ++ AStart 2 rq :: e2_rs 2 2 ++ [ACrash] ++
              AStart 3 rq :: e2_rs 3 2) = Some s /\
    length (persisted s) = 1 /\
    get_thread (threads s) 1 = Some th1 /\ get_thread (threads s) 2 = Some th2 /\ get_thread (threads s) 3 = Some th3 /\
    t_resp th1 = Some (ROk (Some 0)) /\ t_resp th2 = Some (ROk (Some 0)) /\ t_resp th3 = Some (ROk (Some 0)).
Proof. vm_compute. eexists. eexists. eexists. eexists. repeat split. Qed.

(* two duplicates racing: the second finds the key reserved and is refused, it does not execute *)
Example C07_example_race :
  let rq := e2_req KCreate 5 0 [(world, 1%N, 10%Z)] 0 in
  exists s th2, run init (AStart 1 rq :: e2_rs 1 4 ++ AStart 2 rq :: e2_rs 2 1) = Some s /\
    get_thread (threads s) 2 = Some th2 /\ t_resp th2 = Some (RErr EIkBusy) /\ v_iks s = [5%N].
Proof. vm_compute. eexists. eexists. repeat split. Qed.

(* the code before 28239f3 (metadata writes stored no key), as a variant of the model: the same metadata request
   (key 5) sent twice, one after the other, leaves two entries and answers success twice *)
Theorem C07_refuted_before_fix :
  exists s th1 th2, run_with step_nometaik init e2_c07_schedule = Some s /\
    length (persisted s) = 2 /\ map e_owner (persisted s) = [1; 2] /\
    get_thread (threads s) 1 = Some th1 /\ get_thread (threads s) 2 = Some th2 /\
    rq_ik (t_req th1) = 5%N /\ rq_ik (t_req th2) = 5%N /\
    t_resp th1 = Some (ROk None) /\ t_resp th2 = Some (ROk None).
Proof. exact e2_c07_refuted_nometaik. Qed.

(* the same retry on the repaired model: the stored entry is found and replayed, one entry *)
Example C07_fixed_replay :
  exists s th2, run init (e2_c07_once 1 ++ AStart 2 e2_meta5 :: e2_rs 2 2) = Some s /\
    length (persisted s) = 1 /\ get_thread (threads s) 2 = Some th2 /\ t_resp th2 = Some (ROk None).
Proof. exact e2_c07_fixed_replay. Qed.

(* ---- cancellation of a request's context (ACancel / AResumeCancelled) ------------------------------------------------ *)
(* a request that waits for its account locks and whose context is done gives up ([AResumeCancelled t]): it gives its
   key back and nothing is stored -- a retry with the same key is a fresh request *)
Theorem C07_cancelled_releases_key : forall s t s', reachable s -> step s (AResumeCancelled t) = Some s' ->
  exists th, get_thread (threads s) t = Some th /\
    v_iks s' = (if N.eqb (rq_ik (t_req th)) 0 then v_iks s else remove_N (rq_ik (t_req th)) (v_iks s)) /\
    persisted s' = persisted s.
Proof. exact e2_cancelled_releases_key. Qed.
Print Assumptions C07_cancelled_releases_key.

(* the whole step: the request was parked at "lock.enqueued" with its context done; the three reservation tables lose
   exactly what its request names; disk and in-flight lists are unchanged; it is finished with [ELockCancelled] and
   has built no entry *)
Theorem C07_cancelled_step : forall s t s', reachable s -> step s (AResumeCancelled t) = Some s' ->
  exists th, get_thread (threads s) t = Some th /\ t_pc th = PEnqueued /\ t_cancelled th = true /\
    v_iks s' = (if N.eqb (rq_ik (t_req th)) 0 then v_iks s else remove_N (rq_ik (t_req th)) (v_iks s)) /\
    v_refs s' = (if N.eqb (rq_ref (t_req th)) 0 then v_refs s else remove_N (rq_ref (t_req th)) (v_refs s)) /\
    v_revs s' = (match rq_kind (t_req th) with KRevert => remove_nat (rq_revert (t_req th)) (v_revs s) | _ => v_revs s end) /\
    persisted s' = persisted s /\ inflight s' = inflight s /\
    exists th', get_thread (threads s') t = Some th' /\ t_pc th' = PFinished /\
                t_resp th' = Some (RErr ELockCancelled) /\ t_entry th' = None /\ t_req th' = t_req th.
Proof. exact e2_cancelled_releases. Qed.
Print Assumptions C07_cancelled_step.

(* ... and in a reachable state this is sound: the request held each reservation itself (it is in the table before),
   nobody holds it afterwards, and no entry on disk or in flight carries the key / reference / revert target *)
Theorem C07_cancelled_fresh : forall s t s', reachable s -> step s (AResumeCancelled t) = Some s' ->
  exists th, get_thread (threads s) t = Some th /\
    persisted s' ++ inflight s' = persisted s ++ inflight s /\
    (rq_ik (t_req th) <> 0%N ->
       In (rq_ik (t_req th)) (v_iks s) /\ ~ In (rq_ik (t_req th)) (v_iks s') /\
       forall x, In x (persisted s' ++ inflight s') -> e_ik x <> rq_ik (t_req th)) /\
    (rq_ref (t_req th) <> 0%N ->
       In (rq_ref (t_req th)) (v_refs s) /\ ~ In (rq_ref (t_req th)) (v_refs s') /\
       forall x, In x (persisted s' ++ inflight s') -> e_ref x <> rq_ref (t_req th)) /\
    (rq_kind (t_req th) = KRevert ->
       In (rq_revert (t_req th)) (v_revs s) /\ ~ In (rq_revert (t_req th)) (v_revs s') /\
       forall x, In x (persisted s' ++ inflight s') -> e_reverts x <> Some (rq_revert (t_req th))).
Proof. exact e2_cancelled_fresh. Qed.
Print Assumptions C07_cancelled_fresh.

(* cancelling by itself ([ACancel t]) changes nothing but the flag *)
Theorem C07_cancel_changes_nothing : forall s t s', step s (ACancel t) = Some s' ->
  persisted s' = persisted s /\ inflight s' = inflight s /\
  v_iks s' = v_iks s /\ v_refs s' = v_refs s /\ v_revs s' = v_revs s.
Proof. exact e2_cancel_changes_nothing. Qed.
Print Assumptions C07_cancel_changes_nothing.

(* non-vacuity.  Account 1 holds 200; request 1 holds the account locks; request 2 (key 7, reference 9) has reserved
   both and queues behind it; [AResumeCancelled 2] is not enabled ... *)
Example C07_cancel_example_prefix :
  (exists s th2, run init e2_cancel_prefix = Some s /\ get_thread (threads s) 2 = Some th2 /\
    t_pc th2 = PEnqueued /\ t_granted th2 = false /\ v_queue s = [2] /\ v_iks s = [7%N] /\ v_refs s = [9%N]) /\
  run init (e2_cancel_prefix ++ [AResumeCancelled 2]) = None.
Proof. exact e2_cancel_prefix_state. Qed.
(* ... until its context is cancelled; then it gives up with [ELockCancelled]: queue, key table, reference table empty,
   nothing written ... *)
Example C07_cancel_example_gives_up :
  exists s th2, run init (e2_cancel_prefix ++ [ACancel 2; AResumeCancelled 2]) = Some s /\
    get_thread (threads s) 2 = Some th2 /\ t_pc th2 = PFinished /\ t_resp th2 = Some (RErr ELockCancelled) /\
    t_entry th2 = None /\ v_queue s = [] /\ v_iks s = [] /\ v_refs s = [] /\
    map e_owner (persisted s) = [0] /\ v_pending s = [] /\ v_batch s = None.
Proof. exact e2_cancel_gives_up. Qed.
(* ... and a NEW request 3 carrying the same request (key 7, reference 9) is executed as a fresh one: it is the only
   one to produce an entry under that key / reference *)
Example C07_cancel_example_retry :
  exists s th2 th3,
    run init (e2_cancel_prefix ++ [ACancel 2; AResumeCancelled 2] ++ e2_cancel_retry) = Some s /\
    get_thread (threads s) 2 = Some th2 /\ get_thread (threads s) 3 = Some th3 /\
    rq_ik (t_req th2) = 7%N /\ rq_ref (t_req th2) = 9%N /\ t_req th3 = t_req th2 /\
    t_resp th2 = Some (RErr ELockCancelled) /\ t_resp th3 = Some (ROk (Some 2)) /\
    map (fun e => (e_owner e, e_ik e, e_ref e)) (persisted s) = [(0, 0%N, 0%N); (1, 0%N, 0%N); (3, 7%N, 9%N)] /\
    count_where (fun e => N.eqb (e_ik e) 7) (persisted s) = 1 /\
    count_where (fun e => N.eqb (e_ref e) 9) (persisted s) = 1 /\
    v_iks s = [] /\ v_refs s = [] /\ v_locks s = [] /\ v_queue s = [].
Proof. exact e2_cancel_then_retry. Qed.
(* the other branch of the select: granted meanwhile AND cancelled -- both continuations are enabled; giving up
   releases the granted account locks as well *)
Example C07_cancel_example_granted :
  exists s0 th0 s th2,
    run init e2_cancel_granted_prefix = Some s0 /\
    get_thread (threads s0) 2 = Some th0 /\ t_pc th0 = PEnqueued /\ t_granted th0 = true /\ t_cancelled th0 = true /\
    map (fun h => fst (fst h)) (v_locks s0) = [2] /\
    run init (e2_cancel_granted_prefix ++ [AResume 2]) <> None /\
    run init (e2_cancel_granted_prefix ++ [AResumeCancelled 2]) = Some s /\
    get_thread (threads s) 2 = Some th2 /\ t_resp th2 = Some (RErr ELockCancelled) /\
    v_locks s = [] /\ v_queue s = [] /\ v_iks s = [] /\ v_refs s = [] /\ map e_owner (persisted s) = [0; 1].
Proof. exact e2_cancel_granted. Qed.

(* ---- transient store read failures (AResumeReadFail) ----------------------------------------------------------------- *)
(* [AResumeReadFail t]: the store read of the region request t runs next fails with a transient error.  [ik_hold] /
   [ref_hold] / [rev_hold] (Engine/E2Step.v) are the pcs at which a request HOLDS its key / reference / revert
   reservation: the hold tables of the reservation invariant.  The enabled pcs are [PRevTaken] (holds the revert
   reservation only), [PIkTaken] and [PIkLookup None] (key, revert reservation; NOT the reference), [PRefTaken],
   [PRefLookup false], [PLocked] (key, reference, revert reservation). *)

(* the request answers an error and its key leaves the table exactly when it holds it at that pc; nothing is written.
   (The one case without an error: SaveMeta ignores the failure of its GetTransaction and goes on: tables unchanged.) *)
Theorem C07_read_failed_releases_key : forall s t s', reachable s -> step s (AResumeReadFail t) = Some s' ->
  exists th th', get_thread (threads s) t = Some th /\ get_thread (threads s') t = Some th' /\
    persisted s' = persisted s /\ inflight s' = inflight s /\
    ((exists err, t_resp th' = Some (RErr err)) ->
       v_iks s' = (if ik_hold (t_pc th) && negb (N.eqb (rq_ik (t_req th)) 0)
                   then remove_N (rq_ik (t_req th)) (v_iks s) else v_iks s)) /\
    (t_resp th' = None -> v_iks s' = v_iks s).
Proof. exact e2_read_failed_releases_key. Qed.
Print Assumptions C07_read_failed_releases_key.

(* the whole step, field by field: which error, the three tables, disk and in-flight lists, the thread *)
Theorem C07_read_failed_step : forall s t s', reachable s -> step s (AResumeReadFail t) = Some s' ->
  exists th th', get_thread (threads s) t = Some th /\ get_thread (threads s') t = Some th' /\
    t_gen th = gen s /\ t_req th' = t_req th /\ t_resp th = None /\ t_entry th = None /\ t_entry th' = None /\
    persisted s' = persisted s /\ inflight s' = inflight s /\ v_uid s' = v_uid s /\
    (((exists err, rf_error th = Some err /\ t_resp th' = Some (RErr err)) /\ t_pc th' = PFinished /\
      v_iks s' = (if ik_hold (t_pc th) && negb (N.eqb (rq_ik (t_req th)) 0)
                  then remove_N (rq_ik (t_req th)) (v_iks s) else v_iks s) /\
      v_refs s' = (if ref_hold (t_pc th) && negb (N.eqb (rq_ref (t_req th)) 0)
                   then remove_N (rq_ref (t_req th)) (v_refs s) else v_refs s) /\
      v_revs s' = (if rev_hold (t_pc th)
                   then match rq_kind (t_req th) with KRevert => remove_nat (rq_revert (t_req th)) (v_revs s) | _ => v_revs s end
                   else v_revs s))
     \/
     (rq_kind (t_req th) = KSaveMeta /\ t_pc th = PIkLookup None /\ t_resp th' = None /\
      t_pc th' = (if rq_dry (t_req th) then PWait else PAppendEnter) /\
      v_iks s' = v_iks s /\ v_refs s' = v_refs s /\ v_revs s' = v_revs s)).
Proof. exact e2_read_failed_step. Qed.
Print Assumptions C07_read_failed_step.

(* ... and in a reachable state this is sound.  The step adds no entry (so the set of entries carrying the key is what it
   was).  When it answers an error and the request holds its key: it held it ITSELF, afterwards the key is free and no
   request holds it; and when the key lookup had been made and had MISSED ([ik_miss]: [PIkLookup None], [PRefTaken],
   [PRefLookup false], [PLocked]) no entry on disk or in flight carries the key -- a retry is a fresh request.  At
   [PIkTaken] the lookup has NOT been made: an entry with the key MAY be on disk (a replay whose lookup failed, see
   [C07_read_failure_retry]); the request writes nothing.  At [PRevTaken] the key is not held and the table is untouched. *)
Theorem C07_read_failed_fresh : forall s t s', reachable s -> step s (AResumeReadFail t) = Some s' ->
  exists th th', get_thread (threads s) t = Some th /\ get_thread (threads s') t = Some th' /\
    persisted s' ++ inflight s' = persisted s ++ inflight s /\
    ((exists err, t_resp th' = Some (RErr err)) ->
      (rq_ik (t_req th) <> 0%N -> ik_hold (t_pc th) = true ->
        In (rq_ik (t_req th)) (v_iks s) /\ ~ In (rq_ik (t_req th)) (v_iks s') /\
        (forall t2 th2, get_thread (threads s') t2 = Some th2 -> rq_ik (t_req th2) = rq_ik (t_req th) ->
                        ik_hold (t_pc th2) = false) /\
        (ik_miss (t_pc th) = true -> forall x, In x (persisted s' ++ inflight s') -> e_ik x <> rq_ik (t_req th))) /\
      (ik_hold (t_pc th) = false -> v_iks s' = v_iks s)).
Proof. exact e2_read_failed_key_fresh. Qed.
Print Assumptions C07_read_failed_fresh.

(* nobody else's reservation is touched: each table only shrinks, by at most the acting request's own key / reference /
   revert target; and every reservation HELD by another request is still in its table *)
Theorem C07_read_fail_other_reservations_untouched : forall s t s', reachable s -> step s (AResumeReadFail t) = Some s' ->
  exists th, get_thread (threads s) t = Some th /\
    (forall k, (In k (v_iks s') -> In k (v_iks s)) /\ (In k (v_iks s) -> k <> rq_ik (t_req th) -> In k (v_iks s'))) /\
    (forall k, (In k (v_refs s') -> In k (v_refs s)) /\ (In k (v_refs s) -> k <> rq_ref (t_req th) -> In k (v_refs s'))) /\
    (forall id, (In id (v_revs s') -> In id (v_revs s)) /\
                (In id (v_revs s) -> ~ (rq_kind (t_req th) = KRevert /\ id = rq_revert (t_req th)) -> In id (v_revs s'))) /\
    (forall t2 th2, t2 <> t -> get_thread (threads s) t2 = Some th2 ->
       (rq_ik (t_req th2) <> 0%N -> ik_hold (t_pc th2) = true -> In (rq_ik (t_req th2)) (v_iks s')) /\
       (is_tx_kind (rq_kind (t_req th2)) = true -> rq_ref (t_req th2) <> 0%N -> ref_hold (t_pc th2) = true ->
          In (rq_ref (t_req th2)) (v_refs s')) /\
       (rq_kind (t_req th2) = KRevert -> rev_hold (t_pc th2) = true -> In (rq_revert (t_req th2)) (v_revs s'))).
Proof. exact e2_read_fail_others_untouched. Qed.
Print Assumptions C07_read_fail_other_reservations_untouched.

(* non-vacuity, from the empty ledger.  (1) the key lookup of request 2 (key 7) fails: [RErr EStoreRead], key table empty,
   nothing written; (2) a NEW request 3 with the same key then commits: exactly one entry carries key 7; (3) the replay
   situation: request 1 (key 7) is committed first, the key lookup of request 2 (key 7) FAILS: it answers
   [RErr EStoreRead] and writes nothing -- still exactly one entry with key 7 (with a successful lookup it replays
   [ROk (Some 1)]).  This is what seeded change C07-3 broke in the real code: it went on and wrote a second entry. *)
Example C07_read_failure_retry :
  (exists s th2, run init (e2_rf_fund ++ [AStart 2 e2_pay79; AResumeReadFail 2]) = Some s /\
     get_thread (threads s) 2 = Some th2 /\ t_pc th2 = PFinished /\ t_resp th2 = Some (RErr EStoreRead) /\
     t_entry th2 = None /\ v_iks s = [] /\ v_refs s = [] /\ map e_owner (persisted s) = [0] /\
     v_pending s = [] /\ v_batch s = None) /\
  (exists s th2 th3, run init (e2_rf_fund ++ [AStart 2 e2_pay79; AResumeReadFail 2] ++ e2_full79 3) = Some s /\
     get_thread (threads s) 2 = Some th2 /\ get_thread (threads s) 3 = Some th3 /\ t_req th3 = t_req th2 /\
     rq_ik (t_req th2) = 7%N /\ t_resp th2 = Some (RErr EStoreRead) /\ t_resp th3 = Some (ROk (Some 1)) /\
     map (fun e => (e_owner e, e_ik e, e_ref e)) (persisted s) = [(0, 0%N, 0%N); (3, 7%N, 9%N)] /\
     count_where (fun e => N.eqb (e_ik e) 7) (persisted s) = 1 /\ v_iks s = [] /\ v_refs s = []) /\
  (exists s0 th0 s th2 s2 th2',
     run init (e2_rf_fund ++ e2_full79 1 ++ [AStart 2 e2_pay79]) = Some s0 /\
     get_thread (threads s0) 2 = Some th0 /\ t_pc th0 = PIkTaken /\
     count_where (fun e => N.eqb (e_ik e) 7) (persisted s0) = 1 /\
     run init (e2_rf_fund ++ e2_full79 1 ++ [AStart 2 e2_pay79; AResumeReadFail 2]) = Some s /\
     get_thread (threads s) 2 = Some th2 /\ t_resp th2 = Some (RErr EStoreRead) /\ t_entry th2 = None /\
     persisted s = persisted s0 /\ v_pending s = [] /\ v_batch s = None /\ v_iks s = [] /\
     map (fun e => (e_owner e, e_ik e)) (persisted s) = [(0, 0%N); (1, 7%N)] /\
     count_where (fun e => N.eqb (e_ik e) 7) (persisted s) = 1 /\
     run init (e2_rf_fund ++ e2_full79 1 ++ [AStart 2 e2_pay79; AResume 2; AResume 2]) = Some s2 /\
     get_thread (threads s2) 2 = Some th2' /\ t_resp th2' = Some (ROk (Some 1)) /\ persisted s2 = persisted s0).
Proof. exact e2_read_failure_retry. Qed.

(* the read under the account locks fails ([PLocked], ResolveBalances): request 1 (key 5, reference 6) gives back its
   key, its reference and its locks -- and nothing of request 2 (key 7, reference 9) queued behind it, which is granted
   the locks by the re-check and commits *)
Example C07_read_failure_locked :
  exists s0 th1 s1 th1' th2' s th2,
    run init e2_rf_locked_prefix = Some s0 /\ get_thread (threads s0) 1 = Some th1 /\ t_pc th1 = PLocked /\
    v_iks s0 = [7%N; 5%N] /\ v_refs s0 = [9%N; 6%N] /\ v_queue s0 = [2] /\
    run init (e2_rf_locked_prefix ++ [AResumeReadFail 1]) = Some s1 /\
    get_thread (threads s1) 1 = Some th1' /\ t_resp th1' = Some (RErr EStoreRead) /\ t_entry th1' = None /\
    v_iks s1 = [7%N] /\ v_refs s1 = [9%N] /\ v_queue s1 = [] /\ map (fun h => fst (fst h)) (v_locks s1) = [2] /\
    get_thread (threads s1) 2 = Some th2' /\ t_pc th2' = PEnqueued /\ t_granted th2' = true /\
    persisted s1 = persisted s0 /\
    run init (e2_rf_locked_prefix ++ [AResumeReadFail 1] ++ e2_rs 2 8 ++ [APersistOk] ++ e2_rs 2 3) = Some s /\
    get_thread (threads s) 2 = Some th2 /\ t_resp th2 = Some (ROk (Some 1)) /\
    map (fun e => (e_owner e, e_ik e, e_ref e)) (persisted s) = [(0, 0%N, 0%N); (2, 7%N, 9%N)] /\
    v_iks s = [] /\ v_refs s = [] /\ v_locks s = [] /\ v_queue s = [].
Proof. exact e2_read_failure_locked. Qed.

(* ---- graceful shutdown (AClose / ACloseOk) -------------------------------------------------------------------------- *)
(* Commander.Close(): [AClose] is state-wise [ACrash]; [ACloseOk] is [APersistOk] followed by [ACrash] (the batch inside
   the store call is written, nobody is acknowledged, the queue is dropped).  Both are actions of [reachable]: C07_once,
   C07_same_outcome and every theorem above hold across closes and in the generations after them.
   The key / reference / revert reservations, the account locks and the lock queue are gone with the generation: *)
Theorem C07_close_frees_reservations : forall s a s', a = AClose \/ a = ACloseOk -> step s a = Some s' ->
  v_iks s' = [] /\ v_refs s' = [] /\ v_revs s' = [] /\ v_locks s' = [] /\ v_queue s' = [].
Proof. exact e2_close_frees. Qed.
Print Assumptions C07_close_frees_reservations.

(* what a close writes: [AClose] nothing, [ACloseOk] exactly the batch inside the store call (queued entries are dropped) *)
Theorem C07_close_writes_only_the_batch : forall s s',
  (step s AClose = Some s' -> persisted s' = persisted s) /\
  (step s ACloseOk = Some s' -> exists b, v_batch s = Some b /\ persisted s' = persisted s ++ b).
Proof. exact e2_close_disk. Qed.
Print Assumptions C07_close_writes_only_the_batch.

(* non-vacuity, from [init] by computation.  (1) request 2 (create, key 7, reference 9) has appended its entry, which is
   QUEUED behind the batch of request 1 inside the store call; [ACloseOk] writes the batch of request 1 and drops the
   queue: requests 1 and 2 are answered [RCrashed], no entry with key 7 is on disk, nothing is published, the tables
   are empty; a NEW request 3 with key 7 and reference 9 in the next generation commits: exactly one entry carries
   key 7 / reference 9.  (2) the keyed entry is IN the batch written by [ACloseOk]: request 2 is answered [RCrashed]
   but its entry is on disk; the retry REPLAYS it ([ROk] with the stored transaction id [Some 1]), writes nothing:
   still exactly one entry. *)
Example C07_close_then_retry :
  (exists s0 s1 s th1 th2 th3,
     run init (e2_rf_fund ++ e2_close_busy 1 ++ e2_close_79 2) = Some s0 /\
     option_map (map e_owner) (v_batch s0) = Some [1] /\ map (fun e => (e_owner e, e_ik e, e_ref e)) (v_pending s0) = [(2, 7%N, 9%N)] /\
     v_iks s0 = [7%N] /\ v_refs s0 = [9%N] /\
     run init (e2_rf_fund ++ e2_close_busy 1 ++ e2_close_79 2 ++ [ACloseOk]) = Some s1 /\
     map (fun e => (e_owner e, e_ik e, e_ref e)) (persisted s1) = [(0, 0%N, 0%N); (1, 0%N, 0%N)] /\
     count_where (fun e => N.eqb (e_ik e) 7) (persisted s1) = 0 /\
     v_pending s1 = [] /\ v_batch s1 = None /\ v_iks s1 = [] /\ v_refs s1 = [] /\ gen s1 = S (gen s0) /\
     published s1 = published s0 /\
     run init (e2_rf_fund ++ e2_close_busy 1 ++ e2_close_79 2 ++ [ACloseOk] ++ e2_full79 3) = Some s /\
     get_thread (threads s) 1 = Some th1 /\ get_thread (threads s) 2 = Some th2 /\ get_thread (threads s) 3 = Some th3 /\
     t_req th3 = t_req th2 /\ rq_ik (t_req th2) = 7%N /\ rq_ref (t_req th2) = 9%N /\
     t_resp th1 = Some RCrashed /\ t_resp th2 = Some RCrashed /\ t_resp th3 = Some (ROk (Some 2)) /\
     map (fun e => (e_owner e, e_ik e, e_ref e)) (persisted s) = [(0, 0%N, 0%N); (1, 0%N, 0%N); (3, 7%N, 9%N)] /\
     count_where (fun e => N.eqb (e_ik e) 7) (persisted s) = 1 /\
     count_where (fun e => N.eqb (e_ref e) 9) (persisted s) = 1 /\ v_iks s = [] /\ v_refs s = []) /\
  (exists s1 s th2 th3,
     run init (e2_rf_fund ++ e2_close_79 2 ++ [ACloseOk]) = Some s1 /\
     map (fun e => (e_owner e, e_ik e, e_ref e, e_txid e)) (persisted s1) = [(0, 0%N, 0%N, Some 0); (2, 7%N, 9%N, Some 1)] /\
     v_iks s1 = [] /\ v_refs s1 = [] /\
     run init (e2_rf_fund ++ e2_close_79 2 ++ [ACloseOk] ++ AStart 3 e2_pay79 :: e2_rs 3 2) = Some s /\
     get_thread (threads s) 2 = Some th2 /\ get_thread (threads s) 3 = Some th3 /\ t_req th3 = t_req th2 /\
     t_resp th2 = Some RCrashed /\ t_resp th3 = Some (ROk (Some 1)) /\ t_entry th3 = None /\
     persisted s = persisted s1 /\ v_pending s = [] /\ v_batch s = None /\
     count_where (fun e => N.eqb (e_ik e) 7) (persisted s) = 1 /\
     count_where (fun e => N.eqb (e_ref e) 9) (persisted s) = 1 /\ v_iks s = [] /\ v_refs s = []).
Proof. exact e2_close_then_retry. Qed.
