(* C07 — An idempotency key takes effect at most once.
   Only the property theorems live here; each is closed by [exact <lemma>] and followed by Print Assumptions.
   The model is Engine/Model.v (the write path of the Commander with the engine repairs, validated against the real
   code by trace replay); the predicates are in Engine/Spec.v; the proofs are in Engine/E2*.v.
   [reachable s] quantifies over EVERY finite action list from the empty ledger: any number of requests of any kind
   with any keys, any interleaving of their steps (key reservation, store lookup, execution, append, wait), any batch
   composition, crashes and store failures at every point, and requests started after a restart. *)
From FL Require Import Engine.Model Engine.Spec Engine.E2Base Engine.E2Main Engine.E2Variants.

(* at most one log entry on disk carries a given non-empty key *)
Theorem C07_once : forall s, reachable s -> ik_once (persisted s).
Proof. exact e2_ik_once. Qed.
Print Assumptions C07_once.

(* "every success carrying key k answers the outcome of that single entry".  The full statement is FALSE of the model
   (and of the code, known finding "idempotency key stored by another kind of write"): SaveMetadata / DeleteMetadata
   that find an entry under their key do not look at it -- when it was stored by a transaction they write nothing and
   still report success, with no transaction id.  Following the convention of this development the full statement is
   kept visible, refuted by a witness, proved for retries of the same kind of write (no hypothesis on the state), and
   proved as stated under the executable hypothesis [ik_kind_consistent_b] that excludes exactly that class. *)
Definition C07_same_outcome_statement : Prop := forall s, reachable s -> ik_same_outcome s.

Theorem C07_same_outcome_refuted : ~ C07_same_outcome_statement.
Proof. intros S. destruct e2_ik_same_outcome_refuted as [s [Hr Hn]]. exact (Hn (S s Hr)). Qed.
Print Assumptions C07_same_outcome_refuted.

(* the witness: a transaction committed with key 5, then a SaveMeta carrying key 5 answers [ROk None] *)
Example C07_same_outcome_refuted_witness :
  exists s e th, run init e2_c07_mixed = Some s /\ persisted s = [e] /\ get_thread (threads s) 2 = Some th /\
    t_resp th = Some (ROk None) /\ rq_dry (t_req th) = false /\ rq_ik (t_req th) = 5%N /\
    e_ik e = 5%N /\ e_txid e = Some 0 /\ e_kind e = KCreate /\ rq_kind (t_req th) = KSaveMeta.
Proof. exact e2_c07_mixed_witness. Qed.

(* retries of the same kind of write: every non-preview success of a request with key k <> 0 whose kind is the kind of
   the persisted entry carrying k reports that entry's outcome.  Unconditional. *)
Theorem C07_same_outcome_same_kind : forall s, reachable s ->
  forall t th x e, get_thread (threads s) t = Some th -> t_resp th = Some (ROk x) -> rq_dry (t_req th) = false ->
    rq_ik (t_req th) <> 0%N -> In e (persisted s) -> e_ik e = rq_ik (t_req th) ->
    same_kind (e_kind e) (rq_kind (t_req th)) = true -> e_txid e = x.
Proof. exact e2_ik_same_outcome_same_kind. Qed.
Print Assumptions C07_same_outcome_same_kind.

(* the statement as given, in every reachable state where no request shares its key with a persisted entry of another
   kind of write *)
Definition ik_kind_consistent_b (s : state) : bool :=
  forallb (fun p => let rq := t_req (snd p) in
                    N.eqb (rq_ik rq) 0 ||
                    forallb (fun e => negb (N.eqb (e_ik e) (rq_ik rq)) || same_kind (e_kind e) (rq_kind rq)) (persisted s))
          (threads s).

Theorem C07_same_outcome_partial : forall s, reachable s -> ik_kind_consistent_b s = true -> ik_same_outcome s.
Proof. exact e2_ik_same_outcome_partial. Qed.
Print Assumptions C07_same_outcome_partial.

(* [ik_once] counts the key STORED ON the entries.  The stored key is the key of the request that produced the entry,
   for every kind of write (this is what the code before 28239f3 got wrong for metadata writes) ... *)
Theorem C07_entry_carries_key : forall s, reachable s -> forall e, In e (persisted s ++ inflight s) ->
  exists th, get_thread (threads s) (e_owner e) = Some th /\ t_entry th = Some e /\
             e_ik e = rq_ik (t_req th) /\
             e_ref e = (if is_tx_kind (rq_kind (t_req th)) then rq_ref (t_req th) else 0%N) /\
             e_reverts e = (match rq_kind (t_req th) with KRevert => Some (rq_revert (t_req th)) | _ => None end).
Proof. exact e2_entry_of_owner. Qed.
Print Assumptions C07_entry_carries_key.

(* ... hence "at most one of the requests carrying key k takes effect": two entries on disk produced by requests with
   the same non-empty key are the same entry *)
Theorem C07_once_per_request_key : forall s, reachable s -> forall e1 e2 th1 th2,
  In e1 (persisted s) -> In e2 (persisted s) ->
  get_thread (threads s) (e_owner e1) = Some th1 -> get_thread (threads s) (e_owner e2) = Some th2 ->
  rq_ik (t_req th1) <> 0%N -> rq_ik (t_req th1) = rq_ik (t_req th2) -> e1 = e2.
Proof. exact e2_once_per_request_key. Qed.
Print Assumptions C07_once_per_request_key.

(* non-vacuity: a transaction with key 5 is committed; the same request is sent again, and again after a restart;
   one entry, the same transaction id answered three times *)
Example C07_example :
  let rq := e2_req KCreate 5 0 [(world, 1%N, 10%Z)] 0 in
  exists s th1 th2 th3,
    run init (AStart 1 rq :: e2_rs 1 10 ++ [APersistOk] ++ e2_rs 1 3 ++ AStart 2 rq :: e2_rs 2 2 ++ [ACrash] ++
              AStart 3 rq :: e2_rs 3 2) = Some s /\
    length (persisted s) = 1 /\
    get_thread (threads s) 1 = Some th1 /\ get_thread (threads s) 2 = Some th2 /\ get_thread (threads s) 3 = Some th3 /\
    t_resp th1 = Some (ROk (Some 0)) /\ t_resp th2 = Some (ROk (Some 0)) /\ t_resp th3 = Some (ROk (Some 0)).
Proof. vm_compute. eexists. eexists. eexists. eexists. repeat split. Qed.

(* two duplicates racing: the second finds the key reserved and is refused, it does not execute *)
Example C07_example_race :
  let rq := e2_req KCreate 5 0 [(world, 1%N, 10%Z)] 0 in
  exists s th2, run init (AStart 1 rq :: e2_rs 1 4 ++ AStart 2 rq :: e2_rs 2 1) = Some s /\
    get_thread (threads s) 2 = Some th2 /\ t_resp th2 = Some (RErr EIkBusy) /\ v_iks s = [5%N].
Proof. vm_compute. eexists. eexists. repeat split. Qed.

(* the code before 28239f3 (metadata writes stored no key), as a variant of the model: the same metadata request
   (key 5) sent twice, one after the other, leaves two entries and answers success twice *)
Theorem C07_refuted_before_fix :
  exists s th1 th2, run_with step_nometaik init e2_c07_schedule = Some s /\
    length (persisted s) = 2 /\ map e_owner (persisted s) = [1; 2] /\
    get_thread (threads s) 1 = Some th1 /\ get_thread (threads s) 2 = Some th2 /\
    rq_ik (t_req th1) = 5%N /\ rq_ik (t_req th2) = 5%N /\
    t_resp th1 = Some (ROk None) /\ t_resp th2 = Some (ROk None).
Proof. exact e2_c07_refuted_nometaik. Qed.

(* the same retry on the repaired model: the stored entry is found and replayed, one entry *)
Example C07_fixed_replay :
  exists s th2, run init (e2_c07_once 1 ++ AStart 2 e2_meta5 :: e2_rs 2 2) = Some s /\
    length (persisted s) = 1 /\ get_thread (threads s) 2 = Some th2 /\ t_resp th2 = Some (ROk None).
Proof. exact e2_c07_fixed_replay. Qed.
