(* C08 — Compiled programs do what the source says.
   Only the property theorems live here; each is closed by [exact <lemma>] and followed by Print Assumptions.
   Proofs: Numscript/{ExecLemmas,CompilerLemmas,CompileCorrect*}.v. *)
From FL Require Import Numscript.CompileCorrectProps.
Open Scope Z_scope.

(* ---- compiler correctness, the WHOLE language -------------------------------------------------------------------------
   The machine running the compiled code computes exactly the source semantics [sem]: same postings, transaction and
   account metadata, printed values, and the same error class on failure; in particular never [Panic].
   Side conditions (both executable, both guaranteed by the front end, see [in_fragment]):
   [norm_script sc]: ratio literals are in lowest terms (the AST carries big.Rat values, always normalised);
   [s_stmts sc <> []]: the grammar requires at least one statement.
   [resources_resolved p vals] := [compat (p_res p) vals]: every constant resource resolves to itself, every variable /
   metadata / balance resource to a value of its declared type, every monetary resource [RMonetary a n] to
   [VMonetary (the asset at a) n].  No hypothesis on the balance table [b] is needed: an untracked (account, asset)
   makes both sides fail with the same class. *)
Theorem C08_compile_correct : forall sc p, compile sc = Some p -> norm_script sc = true -> s_stmts sc <> [] ->
  forall vals b extra, resources_resolved p vals ->
    (do st <- execute vals (p_code p) b; finish st extra) = lift (sem sc (venv_of p vals) b extra).
Proof. exact compile_correct. Qed.
Print Assumptions C08_compile_correct.

(* ResolveResources + the first loop of ResolveBalances establish [resources_resolved] (given that the glue hands over
   values of the requested types), so the end-to-end statement has no hypothesis on the resolved table *)
Theorem C08_resolve_establishes : forall sc p vs s r vals, compile sc = Some p -> norm_script sc = true ->
  vars_typed (p_res p) vs -> parse_typed s ->
  resolve_resources (p_res p) vs s init_resolved = Done r -> fill_pending (r_pending r) s (r_vals r) = Done vals ->
  resources_resolved p vals.
Proof. exact resolve_establishes. Qed.
Print Assumptions C08_resolve_establishes.

(* end to end: compile -> set vars -> resolve resources -> resolve balances -> run = the source semantics evaluated on
   what the pipeline resolved ([sem_pipeline], Corr.v), for every variable map, store and extra metadata keys *)
Theorem C08_pipeline : forall sc p vars s extra, compile sc = Some p -> norm_script sc = true -> s_stmts sc <> [] ->
  (forall vs, vars = Some vs -> vars_typed (p_res p) vs) -> parse_typed s ->
  result_of (run_program p vars s extra) = sem_pipeline sc p vars s extra.
Proof. exact pipeline_correct. Qed.
Print Assumptions C08_pipeline.

(* the typing assumption stated on the script instead of the program: every supplied plain variable has the type it
   is declared with ([rvars_of]: the origin-less declarations; the compiler allocates [RVar] resources for exactly those) *)
Theorem C08_pipeline_script : forall sc p vars s extra, compile sc = Some p -> norm_script sc = true -> s_stmts sc <> [] ->
  (forall vs, vars = Some vs -> vars_typed_script sc vs) -> parse_typed s ->
  result_of (run_program p vars s extra) = sem_pipeline sc p vars s extra.
Proof. exact pipeline_correct_script. Qed.
Print Assumptions C08_pipeline_script.

(* the same two theorems under the single executable predicate the harness evaluates on every generated program *)
Theorem C08_pipeline_in_fragment : forall sc p vars s extra, compile sc = Some p -> in_fragment sc = true ->
  (forall vs, vars = Some vs -> vars_typed (p_res p) vs) -> parse_typed s ->
  result_of (run_program p vars s extra) = sem_pipeline sc p vars s extra.
Proof. exact pipeline_correct_frag. Qed.
Print Assumptions C08_pipeline_in_fragment.

(* a program the language rejects is refused rather than run *)
Theorem C08_reject_no_run : forall sc vars s extra, compile sc = None -> compile_and_run sc vars s extra = Err ECompile.
Proof. exact reject_no_run. Qed.
Print Assumptions C08_reject_no_run.

(* ---- the compilation cache ------------------------------------------------------------------------------------------------
   command.Compiler = gcache keyed by SHA-256(text).  The cache is ANY partial map whose entries are (sha text, compile
   text) — any size, any eviction, any history: it returns what a fresh compilation returns ... *)
Theorem C08_cache_transparent : forall T K (sha : T -> K) compile_text cache,
  cache_sound sha compile_text cache -> forall t, cached_compile sha compile_text cache t = compile_text t.
Proof. exact cache_transparent. Qed.
Print Assumptions C08_cache_transparent.

(* ... and every sequence of Compile calls starting from a sound (e.g. empty) cache, with an arbitrary set of entries
   evicted and Set succeeding or not after each call, answers every call as fresh compilations would
   (hypotheses: key equality is equality; SHA-256 is injective on the texts offered) *)
Theorem C08_cache_sequence : forall T K (keq : K -> K -> bool) (sha : T -> K) compile_text,
  (forall a b, keq a b = true -> a = b) -> (forall t1 t2, sha t1 = sha t2 -> t1 = t2) ->
  forall calls cache, cache_sound sha compile_text cache ->
  cache_run keq sha compile_text cache calls = map (fun c => compile_text (fst (fst c))) calls.
Proof. exact cache_run_transparent. Qed.
Print Assumptions C08_cache_sequence.

Theorem C08_cache_empty_sound : forall T K (sha : T -> K) compile_text, cache_sound sha compile_text (fun _ => None).
Proof. exact cache_sound_empty. Qed.
Print Assumptions C08_cache_empty_sound.

(* ---- non-vacuity ---------------------------------------------------------------------------------------------------------- *)
(* vars { account $a  portion $p }
   send [COIN 100] ( source = { max [COIN 30] from $a   @world }
                     destination = { $p to @5   remaining to { max [COIN 10] to @6  remaining kept } } )
   set_tx_meta("k", 1/3) *)
Definition C08_ex_script : script :=
  {| s_vars := [ {| vd_type := TAccount; vd_name := 7%N; vd_orig := None |};
                 {| vd_type := TPortion; vd_name := 8%N; vd_orig := None |} ];
     s_stmts := [ StSend (SendMon (ELitMonetary (ELitAsset 1%N) 100))
                    (VSrc (SInOrder [SMaxed (ELitMonetary (ELitAsset 1%N) 30) (SAccount (EVar 7%N) OvNone);
                                     SAccount (ELitAccount 0%N) OvNone]))
                    (DAllot [ (APVar 8%N, KTo (DAccount (ELitAccount 5%N)));
                              (APRemaining, KTo (DInOrder [ (ELitMonetary (ELitAsset 1%N) 10, KTo (DAccount (ELitAccount 6%N))) ] Kept)) ]);
                  StTxMeta 3%N (ELitPortion (Some (1, 3%positive))) ] |}.
Definition C08_ex_store : store := {| st_bal := [(9%N, 1%N, 50)]; st_meta := []; st_parse := [] |}.
Definition C08_ex_vars : list (N * value) := [(7%N, VAccount 9%N); (8%N, VPortion (PSpecific (1, 4%positive)))].

Example C08_example :
  in_fragment C08_ex_script = true /\
  exists p, compile C08_ex_script = Some p /\ length (p_code p) = 100%nat /\
    vars_typed (p_res p) C08_ex_vars /\ parse_typed C08_ex_store /\
    result_of (run_program p (Some C08_ex_vars) C08_ex_store []) =
    Done {| res_posts := [ {| p_src := 9%N; p_dst := 5%N; p_asset := 1%N; p_amount := 25 |};
                           {| p_src := 9%N; p_dst := 6%N; p_asset := 1%N; p_amount := 5 |};
                           {| p_src := 0%N; p_dst := 6%N; p_asset := 1%N; p_amount := 5 |} ];
            res_txmeta := [(3%N, VPortion (PSpecific (1, 3%positive)))]; res_accmeta := []; res_printed := [] |} /\
    sem_pipeline C08_ex_script p (Some C08_ex_vars) C08_ex_store [] =
    result_of (run_program p (Some C08_ex_vars) C08_ex_store []).
Proof.
  split; [vm_compute; reflexivity|]. eexists. split; [vm_compute; reflexivity|]. split; [reflexivity|].
  split.
  { intros t name v HI HA. cbn in HI.
    repeat (destruct HI as [HI|HI]; [try discriminate; injection HI as <- <-; vm_compute in HA; injection HA as <-; reflexivity|]).
    destruct HI. }
  split; [intros t raw v H; discriminate|]. split; vm_compute; reflexivity.
Qed.

(* ---- the two side conditions are necessary: the unconditional statement is false of the model ------------------------- *)
Definition C08_unconditional_statement : Prop :=
  forall sc p, compile sc = Some p -> forall vals b extra, resources_resolved p vals ->
    (do st <- execute vals (p_code p) b; finish st extra) = lift (sem sc (venv_of p vals) b extra).

(* print 2/4 ; print 1/2 : the compiler's constant table identifies the two ratios (const_eqb cross-multiplies), the
   machine prints 2/4 twice, the source says 2/4 then 1/2.  Cannot arise from the real front end: big.Rat normalises. *)
Theorem C08_unconditional_refuted_unnormalised_ratio : ~ C08_unconditional_statement.
Proof.
  intros U.
  pose (sc := {| s_vars := []; s_stmts := [StPrint (ELitPortion (Some (2, 4%positive))); StPrint (ELitPortion (Some (1, 2%positive)))] |}).
  destruct (compile sc) as [p|] eqn:C; [|vm_compute in C; discriminate].
  specialize (U sc p C [VPortion (PSpecific (2, 4%positive))] [] []).
  vm_compute in C. injection C as <-.
  assert (R : resources_resolved {| p_code := [IPush 0; IOp OP_PRINT; IPush 0; IOp OP_PRINT];
                                    p_res := [RConst (VPortion (PSpecific (2, 4%positive)))];
                                    p_sources := []; p_needed := []; p_vars := [] |} [VPortion (PSpecific (2, 4%positive))]).
  { intros i r H. destruct i as [|i]; [|destruct i; discriminate]. injection H as <-. eexists. split; [reflexivity|]. split; reflexivity. }
  specialize (U R). vm_compute in U. discriminate.
Qed.

(* a script without statements compiles to an empty program, on which Machine.Execute indexes Instructions[0]:
   the model says Panic, the source semantics says "nothing happens".  Cannot arise: the grammar demands a statement. *)
Theorem C08_unconditional_refuted_empty_script : ~ C08_unconditional_statement.
Proof.
  intros U. pose (sc := {| s_vars := []; s_stmts := [] |}).
  specialize (U sc {| p_code := []; p_res := []; p_sources := []; p_needed := []; p_vars := [] |} eq_refl [] [] []).
  assert (R : resources_resolved {| p_code := []; p_res := []; p_sources := []; p_needed := []; p_vars := [] |} []).
  { intros i r H. destruct i; discriminate. }
  specialize (U R). vm_compute in U. discriminate.
Qed.
